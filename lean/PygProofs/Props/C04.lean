/-
  C04 — dt() maps every supported spelling of an instant to the same datetime.
  Property theorems only.  `Gen.num2dt`, `Gen.ym`, `Gen.ymd`, `Gen.ymdSwap`, `Gen.re_*` are GENERATED from the
  current text of src/pyg_base/_dates.py on every run; numpy / pandas timestamps are theorems about the hand-written integer
  model PygModel/NpDate.lean (only np2dt's class dispatch is generated), month names about dateutil's own table (generated).
  The string clauses are about what uk2dt / us2dt do (strip, `ambiguity.sub` = `slashes`, ambiguity test, swap / rejection) on
  top of the ASSUMED dateutil reading (`duResolve`, the scanner `parseTokens`; for day-month-year triples only the text with two
  `/` is assumed since C04-D4); the texts are quantified through independent predicates (`IsNumeral`, `TimeText`, `IsSepZone`,
  `MatchesAmbiguity`, `MatchesPadded`), and `ambiguous_iff` / `slashes_iff` tie the hand-written matchers to the semantics of the
  source regex.
-/
import PygModel.DateParse
import PygProofs.Lemmas.BumpLemmas
import PygProofs.Lemmas.MonthLemmas
import PygProofs.Lemmas.DateLemmas
import PygProofs.Lemmas.DateStrLemmas
import PygProofs.Lemmas.DateTextLemmas
import PygProofs.Lemmas.AmbiguityLemmas
import PygProofs.Lemmas.SqueezeLemmas
import PygProofs.Lemmas.NpDateLemmas
import PygProofs.Lemmas.MonthNameLemmas
import PygProofs.Lemmas.MonthNameStrLemmas
import PygProofs.Lemmas.SlashesLemmas
import PygProofs.Lemmas.DialectLemmas
import PygProofs.Lemmas.IsoAnyLemmas

namespace Pyg.Props.C04
open Pyg Pyg.Bump Pyg.DateParse Pyg.Gen Pyg.Greg Pyg.NpDate

/-! ### month / day overflow: `dt(y, m, d)` (generated `ym`, `_ymd`) -/

/-- `ym` normalises any integer month into 1..12 and keeps the month count (∀ y m ∈ ℤ) -/
theorem ym_normal (y m : Int) :
    1 ≤ (Gen.ym y m).2 ∧ (Gen.ym y m).2 ≤ 12 ∧ 12 * (Gen.ym y m).1 + (Gen.ym y m).2 = 12 * y + m := by
  unfold Gen.ym; simp only []; omega

/-- in the library's range the day/year swap guard at the top of `_ymd` is never taken (it needs `y < 32`) -/
theorem ymd_no_swap (y m d : Int) (hy : 32 ≤ y) : ¬ Gen.ymdSwap y m d := by
  unfold Gen.ymdSwap; omega

/-- `dt(y, m, d)` for a year ≥ 32, ANY integer month and day: the first day of the normalised month plus `d - 1`
days (ValueError when the normalised year leaves 1..9999, OverflowError when the sum leaves the datetime range) -/
theorem ymd_overflow (y m d : Int) (hy : 32 ≤ y) :
    ymdDate y m d = mkMonthPlus ⟨(Gen.ym y m).1, (Gen.ym y m).2, d - 1⟩ := by
  unfold ymdDate Gen.ymd
  have h : ¬ (d > 1500 ∧ d < 3000 ∧ y > 0 ∧ y < 32 ∧ m > 0 ∧ m < 13) := by omega
  simp only [h, if_false]

/-- … in calendar terms: when the normalised month `(y', m')` is representable the result is
`datetime(y', m', 1) + (d - 1) days` -/
theorem ymd_overflow_value (y m d : Int) (hy : 32 ≤ y) (y' m' : Nat)
    (hym : Gen.ym y m = ((y' : Int), (m' : Int))) (hy' : 1 ≤ y' ∧ y' ≤ 9999) :
    ymdDate y m d = checkRange (mkDate y' m' 1 + (d - 1) * DAYUS) := by
  have hn := ym_normal y m
  rw [ymd_overflow y m d hy, hym] at *
  simp only at hn
  unfold mkMonthPlus
  have hc : (1 : Int) ≤ (y' : Int) ∧ (y' : Int) ≤ 9999 ∧ (1 : Int) ≤ (m' : Int) ∧ (m' : Int) ≤ 12 := by omega
  simp only [hc, and_self, if_true, Int.toNat_natCast]
  congr 1
  unfold mkDate ofOrd DAYUS; omega

/-- the same for the entry point `dt(y, m, d)` itself (`dtYmd y m d 0 0 0`) -/
theorem dt_ymd_overflow (y m d : Int) (hy : 32 ≤ y) (y' m' : Nat)
    (hym : Gen.ym y m = ((y' : Int), (m' : Int))) (hy' : 1 ≤ y' ∧ y' ≤ 9999) :
    dtYmd y m d 0 0 0 = checkRange (mkDate y' m' 1 + (d - 1) * DAYUS) := by
  unfold dtYmd
  rw [ymd_overflow_value y m d hy y' m' hym hy']
  unfold checkRange
  split
  · next h => simp only [Except.bind, Int.zero_mul, Int.add_zero]; rw [if_pos h]
  · rfl

example : ymdDate 2000 14 0 = .ok (mkDate 2001 1 31) ∧ Gen.ym 2000 14 = (2001, 2) := ⟨ok_of_okVal (by decide +kernel), by decide⟩

/-- `dt(y, m, d, h, mi, s)` of a calendar date is that date plus the time of day -/
theorem dt_of_parts (y m d : Nat) (v : Valid y m d) (hy : 32 ≤ y ∧ y < 9999) (h mi s : Int) :
    dtYmd y m d h mi s = checkRange (mkDate y m d + h * 3600000000 + mi * 60000000 + s * 1000000) := by
  have hv := v; unfold Valid at hv
  have hb := dim_bounds y m hv.2.2.1 hv.2.2.2.1
  unfold dtYmd ymdDate
  rw [ymd_small_day _ _ _ (by omega)]
  have hym : Gen.ym (y : Int) (m : Int) = ((y : Int), (m : Int)) := ym_of_normal _ _ _ _ (by omega) (by omega) rfl
  rw [hym]
  rw [mkMonthPlus_day y m d (by omega) (by omega) (by omega)]
  simp only [hv.2.2.2.2.2, if_true, Except.bind]

example : Valid 2000 2 29 := by decide

/-! ### integers: the threshold table of `num2dt` (generated) -/

/-- the yyyymmdd integer of every calendar date of the years 1001..2999 falls in the yyyymmdd branch, is decoded
to its fields and gives that date — in particular for the whole range 1900..2300 -/
theorem num2dt_yyyymmdd (y m d : Nat) (v : Valid y m d) (hy : 1001 ≤ y ∧ y ≤ 2999) :
    num2dtQ (4 * (10000 * y + 100 * m + d : Nat)) = .abs (.ok (mkDate y m d)) := by
  have hv := v; unfold Valid at hv
  have hb := dim_bounds y m hv.2.2.1 hv.2.2.2.1
  unfold num2dtQ
  have hq : (4 * ((10000 * y + 100 * m + d : Nat) : Int)).tdiv 4 = ((10000 * y + 100 * m + d : Nat) : Int) := by
    rw [Int.mul_comm]; exact Int.mul_tdiv_cancel _ (by omega)
  simp only [hq]
  have hk : Gen.num2dt ((10000 * y + 100 * m + d : Nat) : Int) = .viaYmd y m d := by
    unfold Gen.num2dt
    have c1 : ¬ (((10000 * y + 100 * m + d : Nat) : Int) ≤ 1500) := by omega
    have c2 : ¬ (((10000 * y + 100 * m + d : Nat) : Int) ≤ 3000) := by omega
    have c3 : ¬ (((10000 * y + 100 * m + d : Nat) : Int) < 300000) := by omega
    have c4 : ¬ (((10000 * y + 100 * m + d : Nat) : Int) < 1095000) := by omega
    have c5 : (((10000 * y + 100 * m + d : Nat) : Int) > 10000101 ∧ ((10000 * y + 100 * m + d : Nat) : Int) < 30001231) := by omega
    simp only [c1, c2, c3, c4, c5, and_self, if_true, if_false]
    congr 1 <;> omega
  rw [hk]
  simp only []
  unfold ymdDate
  rw [ymd_small_day _ _ _ (by omega)]
  have hym : Gen.ym (y : Int) (m : Int) = ((y : Int), (m : Int)) := ym_of_normal _ _ _ _ (by omega) (by omega) rfl
  rw [hym, mkMonthPlus_day y m d (by omega) (by omega) (by omega)]
  simp only [hv.2.2.2.2.2, if_true, Except.bind]
  have e : mkDate y m d + (4 * ((10000 * y + 100 * m + d : Nat) : Int) - 4 * ((10000 * y + 100 * m + d : Nat) : Int)) * (DAYUS / 4) = mkDate y m d := by
    omega
  rw [e]; exact congrArg _ (checkRange_mkDate y m d v)

example : num2dtQ (4 * 20020301) = .abs (.ok (mkDate 2002 3 1)) := num2dt_yyyymmdd 2002 3 1 (by decide) (by decide)

/-- the ordinal of every calendar date from 1900-01-01 to 2299-12-31 falls in the ordinal branch and gives that date -/
theorem num2dt_ordinal (y m d : Nat) (v : Valid y m d) (hy1 : 1900 ≤ y) (hy2 : y < 2300) :
    num2dtQ (4 * (ord y m d : Nat)) = .abs (.ok (mkDate y m d)) := by
  have hc := ord_in_cycle y m d v hy1 hy2
  unfold ordMin ordMax at hc
  unfold num2dtQ
  have hq : (4 * ((ord y m d : Nat) : Int)).tdiv 4 = ((ord y m d : Nat) : Int) := by
    rw [Int.mul_comm]; exact Int.mul_tdiv_cancel _ (by omega)
  simp only [hq]
  have hk : Gen.num2dt ((ord y m d : Nat) : Int) = .fromOrdinal (ord y m d : Nat) := by
    unfold Gen.num2dt
    have c1 : ¬ (((ord y m d : Nat) : Int) ≤ 1500) := by omega
    have c2 : ¬ (((ord y m d : Nat) : Int) ≤ 3000) := by omega
    have c3 : ¬ (((ord y m d : Nat) : Int) < 300000) := by omega
    have c4 : (((ord y m d : Nat) : Int) < 1095000) := by omega
    simp only [c1, c2, c3, c4, if_true, if_false]
  rw [hk]
  simp only []
  unfold fromOrdinalChecked
  have c : (1 : Int) ≤ ((ord y m d : Nat) : Int) ∧ ((ord y m d : Nat) : Int) ≤ 3652059 := by omega
  simp only [c, and_self, if_true, Except.bind]
  have e : ofOrd ((ord y m d : Nat) : Int) + (4 * ((ord y m d : Nat) : Int) - 4 * ((ord y m d : Nat) : Int)) * (DAYUS / 4) = mkDate y m d := by
    unfold mkDate; omega
  rw [e]; exact congrArg _ (checkRange_mkDate y m d v)

example : num2dtQ (4 * 730180) = .abs (.ok (mkDate 2000 3 1)) := by
  have := num2dt_ordinal 2000 3 1 (by decide) (by decide) (by decide)
  exact this

/-! ### dialects: the decision of uk2dt / us2dt on top of dateutil's month-first reading -/

/-- what `parser.parse` is assumed to return for the text `a<sep>b<sep>yyyy [hh:mm:ss[.ffffff]]` -/
def numeric3u (a b y hms us : Int) : Parsed := ⟨true, a, y, (duResolve a b).1, (duResolve a b).2, hms, us⟩

/-- … without a fraction of a second -/
def numeric3 (a b y hms : Int) : Parsed := ⟨true, a, y, (duResolve a b).1, (duResolve a b).2, hms, 0⟩

theorem numeric3_eq (a b y hms : Int) : numeric3 a b y hms = numeric3u a b y hms 0 := rfl

/-- UK spelling `d<sep>m<sep>yyyy [time]` of a calendar date, read with the UK dialect, is that instant TO THE MICROSECOND —
whether or not the day is ≤ 12 (the day < 13 case goes through the swap on line 303, which passes the microseconds on as the
7th argument of `dt`; the other case through the `t[:2]` check) -/
theorem uk_parse_micro (y m d : Nat) (v : Valid y m d) (hy : 32 ≤ y ∧ y < 9999) (hms us : Int) :
    ukDecide (numeric3u d m y hms us) = checkRange (mkDate y m d + hms + us) := by
  have hv := v; unfold Valid at hv
  have hb := dim_bounds y m hv.2.2.1 hv.2.2.2.1
  have hym : Gen.ym (y : Int) (m : Int) = ((y : Int), (m : Int)) := ym_of_normal _ _ _ _ (by omega) (by omega) rfl
  unfold ukDecide numeric3u duResolve
  by_cases hd : (d : Int) > 12
  · -- dateutil reads day-first because d > 12; the day is ≥ 13 and equals the first number
    have c1 : ¬ ((d : Int) < 13) := by omega
    simp only [hd, if_true, c1, if_false, ne_eq, not_true_eq_false]
    rw [mkDateChecked_valid y m d v]
    simp only [Except.bind]
  · -- dateutil reads month-first: month := d, day := m < 13, and line 303 swaps them back
    have c1 : ((m : Int) < 13) := by omega
    simp only [hd, if_false, c1, if_true]
    unfold ymdDate
    rw [ymd_small_day _ _ _ (by omega), hym, mkMonthPlus_day y m d (by omega) (by omega) (by omega)]
    simp only [hv.2.2.2.2.2, if_true, Except.bind]

theorem uk_parse (y m d : Nat) (v : Valid y m d) (hy : 32 ≤ y ∧ y < 9999) (hms : Int) :
    ukDecide (numeric3 d m y hms) = checkRange (mkDate y m d + hms) := by
  rw [numeric3_eq, uk_parse_micro y m d v hy hms 0, Int.add_zero]

/-- the fraction of a second is NOT lost on the day ≤ 12 path: two readings that differ in the microseconds give
different instants (before the repair of `dt(y,m,d,h,mi,s,us)` both gave the whole second) -/
theorem uk_small_day_keeps_micro (y m d : Nat) (v : Valid y m d) (hy : 32 ≤ y ∧ y < 9999) (_hd : d ≤ 12) (hms us us' : Int)
    (h0 : 0 ≤ hms + us ∧ hms + us < DAYUS) (h0' : 0 ≤ hms + us' ∧ hms + us' < DAYUS) (hne : us ≠ us') :
    ukDecide (numeric3u d m y hms us) ≠ ukDecide (numeric3u d m y hms us') := by
  rw [uk_parse_micro y m d v hy, uk_parse_micro y m d v hy]
  have hm : 0 ≤ mkDate y m d ∧ mkDate y m d + DAYUS ≤ MAXUS := mkDate_day_in_range y m d v
  have e1 : checkRange (mkDate y m d + hms + us) = .ok (mkDate y m d + hms + us) := (checkRange_ok _ _).2 ⟨by omega, rfl⟩
  have e2 : checkRange (mkDate y m d + hms + us') = .ok (mkDate y m d + hms + us') := (checkRange_ok _ _).2 ⟨by omega, rfl⟩
  rw [e1, e2]
  intro h; injection h with h; omega

-- '02/01/2000 03:04:05.000006' read with the UK dialect
example : ukDecide (numeric3u 2 1 2000 11045000000 6) = .ok (mkDate 2000 1 2 + 11045000006) := ok_of_okVal (by decide +kernel)

/-- US spelling `m<sep>d<sep>yyyy [time]` read with the US dialect is that instant to the microsecond -/
theorem us_parse_micro (y m d : Nat) (v : Valid y m d) (hms us : Int) :
    usDecide (numeric3u m d y hms us) = checkRange (mkDate y m d + hms + us) := by
  have hv := v; unfold Valid at hv
  unfold usDecide numeric3u duResolve
  have hm : ¬ ((m : Int) > 12) := by omega
  simp only [hm, if_false, ne_eq, not_true_eq_false, and_false]
  rw [mkDateChecked_valid y m d v]
  simp only [Except.bind]

/-- US spelling `m<sep>d<sep>yyyy` read with the US dialect is that date -/
theorem us_parse (y m d : Nat) (v : Valid y m d) (hms : Int) :
    usDecide (numeric3 m d y hms) = checkRange (mkDate y m d + hms) := by
  rw [numeric3_eq, us_parse_micro y m d v hms 0, Int.add_zero]

/-- an unambiguous day-month string (day > 12) written the US way is rejected by the UK dialect (any time of day) … -/
theorem uk_rejects_us_micro (y m d : Nat) (hm : 1 ≤ m ∧ m ≤ 12) (hd : 12 < d) (hms us : Int) :
    ukDecide (numeric3u m d y hms us) = .error .value := by
  unfold ukDecide numeric3u duResolve
  have c0 : ¬ ((m : Int) > 12) := by omega
  have c1 : ¬ ((d : Int) < 13) := by omega
  have c2 : (m : Int) ≠ (d : Int) := by omega
  simp only [c0, if_false, c1, ne_eq, c2, not_false_eq_true, if_true]

theorem uk_rejects_us (y m d : Nat) (hm : 1 ≤ m ∧ m ≤ 12) (hd : 12 < d) (hms : Int) :
    ukDecide (numeric3 m d y hms) = .error .value := uk_rejects_us_micro y m d hm hd hms 0

/-- … and written the UK way is rejected by the US dialect, instead of being silently swapped -/
theorem us_rejects_uk_micro (y m d : Nat) (hm : 1 ≤ m ∧ m ≤ 12) (hd : 12 < d) (hms us : Int) :
    usDecide (numeric3u d m y hms us) = .error .value := by
  unfold usDecide numeric3u duResolve
  have c0 : ((d : Int) > 12) := by omega
  have c2 : (m : Int) ≠ (d : Int) := by omega
  simp only [c0, if_true, ne_eq, c2, not_false_eq_true, and_self]

theorem us_rejects_uk (y m d : Nat) (hm : 1 ≤ m ∧ m ≤ 12) (hd : 12 < d) (hms : Int) :
    usDecide (numeric3 d m y hms) = .error .value := us_rejects_uk_micro y m d hm hd hms 0

example : Valid 2000 1 13 ∧ (12 < 13) := by decide

/-! the same four facts on the padded text `aa<sep>bb<sep>yyyy`, for every pair of separators of the `ambiguity`
regex (`-`, `/`, `.`, blank): scanner + assumed dateutil reading + dialect decision -/

theorem uk_text (y m d : Nat) (v : Valid y m d) (hy : 32 ≤ y ∧ y < 9999) (s1 s2 : Char)
    (h1 : isDateSep s1 = true) (h2 : isDateSep s2 = true) :
    dtCs true (pad2 d ++ s1 :: (pad2 m ++ s2 :: (pad4 y ++ []))) = some (.ok (mkDate y m d)) := by
  have hv := v; unfold Valid at hv
  have hb := dim_bounds y m hv.2.2.1 hv.2.2.2.1
  unfold dtCs
  rw [parse_numeric3 d m y s1 s2 h1 h2 (by omega) (by omega) (by omega)]
  simp only [Option.map_some, Option.some.injEq, if_true]
  have hu := uk_parse y m d v hy 0
  unfold numeric3 at hu
  rw [hu, Int.add_zero, checkRange_mkDate y m d v]
  -- dateutil's own date is a calendar date, so `parser.parse` does not raise
  have hvalid : ∃ t, mkDateChecked (y : Int) (duResolve (d : Int) (m : Int)).1 (duResolve (d : Int) (m : Int)).2 = .ok t := by
    unfold duResolve
    by_cases hd : (d : Int) > 12
    · simp only [hd, if_true]; exact ⟨_, mkDateChecked_valid y m d v⟩
    · simp only [hd, if_false]
      have hb2 := dim_bounds y d (by omega) (by omega)
      exact ⟨_, mkDateChecked_valid y d m (by unfold Valid; omega)⟩
  obtain ⟨t0, ht0⟩ := hvalid
  rw [ht0]; rfl

theorem us_text (y m d : Nat) (v : Valid y m d) (s1 s2 : Char) (h1 : isDateSep s1 = true) (h2 : isDateSep s2 = true) :
    dtCs false (pad2 m ++ s1 :: (pad2 d ++ s2 :: (pad4 y ++ []))) = some (.ok (mkDate y m d)) := by
  have hv := v; unfold Valid at hv
  have hb := dim_bounds y m hv.2.2.1 hv.2.2.2.1
  unfold dtCs
  rw [parse_numeric3 m d y s1 s2 h1 h2 (by omega) (by omega) (by omega)]
  simp only [Option.map_some, Option.some.injEq, Bool.false_eq_true, if_false]
  have hu := us_parse y m d v 0
  unfold numeric3 at hu
  rw [hu, Int.add_zero, checkRange_mkDate y m d v]
  have hr : duResolve (m : Int) (d : Int) = ((m : Int), (d : Int)) := by
    unfold duResolve; have : ¬ ((m : Int) > 12) := by omega
    simp only [this, if_false]
  rw [hr, mkDateChecked_valid y m d v]; rfl

theorem uk_rejects_us_text (y m d : Nat) (hm : 1 ≤ m ∧ m ≤ 12) (hd : 12 < d ∧ d < 100) (hy : y < 10000) (s1 s2 : Char)
    (h1 : isDateSep s1 = true) (h2 : isDateSep s2 = true) :
    dtCs true (pad2 m ++ s1 :: (pad2 d ++ s2 :: (pad4 y ++ []))) = some (.error .value) := by
  unfold dtCs
  rw [parse_numeric3 m d y s1 s2 h1 h2 (by omega) (by omega) hy]
  simp only [Option.map_some, Option.some.injEq, if_true]
  have hu := uk_rejects_us y m d hm hd.1 0
  unfold numeric3 at hu
  rw [hu]
  rcases mkDateChecked_cases (y : Int) (duResolve (m : Int) (d : Int)).1 (duResolve (m : Int) (d : Int)).2 with ⟨t0, h⟩ | h <;> rw [h] <;> rfl

theorem us_rejects_uk_text (y m d : Nat) (hm : 1 ≤ m ∧ m ≤ 12) (hd : 12 < d ∧ d < 100) (hy : y < 10000) (s1 s2 : Char)
    (h1 : isDateSep s1 = true) (h2 : isDateSep s2 = true) :
    dtCs false (pad2 d ++ s1 :: (pad2 m ++ s2 :: (pad4 y ++ []))) = some (.error .value) := by
  unfold dtCs
  rw [parse_numeric3 d m y s1 s2 h1 h2 (by omega) (by omega) hy]
  simp only [Option.map_some, Option.some.injEq, Bool.false_eq_true, if_false]
  have hu := us_rejects_uk y m d hm hd.1 0
  unfold numeric3 at hu
  rw [hu]
  rcases mkDateChecked_cases (y : Int) (duResolve (d : Int) (m : Int)).1 (duResolve (d : Int) (m : Int)).2 with ⟨t0, h⟩ | h <;> rw [h] <;> rfl

example : Valid 2000 1 13 ∧ isDateSep '.' = true ∧ isDateSep ' ' = true := by decide
example : String.ofList (pad2 13 ++ '.' :: (pad2 1 ++ '.' :: (pad4 2000 ++ []))) = "13.01.2000" := by decide

/-- `ymd(t)` = `t` minus its time of day (used for `ymd(spelling)` below; the property theorem is `ymd_drops_time`) -/
theorem ymd_drops_time' (t : Int) (h0 : 0 ≤ t) (h1 : t < MAXUS) : dropTime t = t - todOf t := by
  have hn : 1 ≤ (ordOf t).toNat ∧ (ordOf t).toNat ≤ 3652059 := by unfold ordOf MAXUS DAYUS at *; omega
  have h := ord_fromOrd_all (ordOf t).toNat hn.1 hn.2
  have e : dropTime t = ofOrd (ordOf t) := by
    unfold dropTime ymdOf mkDate
    simp only [h.2]
    congr 1; unfold ordOf DAYUS at *; omega
  rw [e]; have := split_t t; omega

/-! ### the same clauses on EVERY text of the quantifier: one- or two-digit fields (padded or not), any two of the four
separators, any time-of-day suffix `[ T]h:m[:s[.f]]` to the microsecond.  The spellings are described by the independent
predicates `IsNumeral` / `TimeText` (Lemmas/DateTextLemmas.lean), not by the scanner. -/

/-- dateutil's own reading of `d<sep>m<sep>y` is a calendar date (so `parser.parse` does not raise), then the UK decision -/
theorem uk_numeric_checked (y m d : Nat) (v : Valid y m d) (hy : 32 ≤ y ∧ y < 9999) (hms us : Int) :
    ((mkDateChecked (y : Int) (duResolve (d : Int) (m : Int)).1 (duResolve (d : Int) (m : Int)).2).bind fun _ =>
        ukDecide ⟨true, d, y, (duResolve (d : Int) (m : Int)).1, (duResolve (d : Int) (m : Int)).2, hms, us⟩)
      = checkRange (mkDate y m d + hms + us) := by
  have hv := v; unfold Valid at hv
  have hb := dim_bounds y m hv.2.2.1 hv.2.2.2.1
  have hu := uk_parse_micro y m d v hy hms us
  unfold numeric3u at hu
  rw [hu]
  have hvalid : ∃ t, mkDateChecked (y : Int) (duResolve (d : Int) (m : Int)).1 (duResolve (d : Int) (m : Int)).2 = .ok t := by
    unfold duResolve
    by_cases hd : (d : Int) > 12
    · simp only [hd, if_true]; exact ⟨_, mkDateChecked_valid y m d v⟩
    · simp only [hd, if_false]
      have hb2 := dim_bounds y d (by omega) (by omega)
      exact ⟨_, mkDateChecked_valid y d m (by unfold Valid; omega)⟩
  obtain ⟨t0, ht0⟩ := hvalid
  rw [ht0]; rfl

/-- UK text, general form: `dt('<d><sep><m><sep><yyyy>[ time]')` is the instant, to the microsecond -/
theorem uk_text_gen (y m d : Nat) (v : Valid y m d) (hy : 32 ≤ y ∧ y < 9999) (a b yy tm : List Char) (s1 s2 : Char) (hms us : Int)
    (ha : IsNumeral 2 a) (hb : IsNumeral 2 b) (hyy : IsNumeral 4 yy) (hy4 : yy.length = 4)
    (va : digitsVal a = d) (vb : digitsVal b = m) (vy : digitsVal yy = y)
    (h1 : isDateSep s1 = true) (h2 : isDateSep s2 = true) (ht : TimeText tm hms us) :
    dtCs true (a ++ s1 :: (b ++ s2 :: (yy ++ tm))) = some (checkRange (mkDate y m d + hms + us)) := by
  unfold dtCs
  rw [parse_numeric3_text a b yy tm s1 s2 hms us ha hb hyy hy4 h1 h2 ht, va, vb, vy]
  simp only [Option.map_some, if_true]
  rw [if_neg ht.nonneg, uk_numeric_checked y m d v hy hms us]

/-- US text, general form -/
theorem us_text_gen (y m d : Nat) (v : Valid y m d) (a b yy tm : List Char) (s1 s2 : Char) (hms us : Int)
    (ha : IsNumeral 2 a) (hb : IsNumeral 2 b) (hyy : IsNumeral 4 yy) (hy4 : yy.length = 4)
    (va : digitsVal a = m) (vb : digitsVal b = d) (vy : digitsVal yy = y)
    (h1 : isDateSep s1 = true) (h2 : isDateSep s2 = true) (ht : TimeText tm hms us) :
    dtCs false (a ++ s1 :: (b ++ s2 :: (yy ++ tm))) = some (checkRange (mkDate y m d + hms + us)) := by
  have hv := v; unfold Valid at hv
  unfold dtCs
  rw [parse_numeric3_text a b yy tm s1 s2 hms us ha hb hyy hy4 h1 h2 ht, va, vb, vy]
  simp only [Option.map_some, Bool.false_eq_true, if_false]
  rw [if_neg ht.nonneg]
  have hu := us_parse_micro y m d v hms us
  unfold numeric3u at hu
  rw [hu]
  have hr : duResolve (m : Int) (d : Int) = ((m : Int), (d : Int)) := by
    unfold duResolve; have : ¬ ((m : Int) > 12) := by omega
    simp only [this, if_false]
  rw [hr, mkDateChecked_valid y m d v]; rfl

/-- a US-written text with day > 12 (any padding, separators, time of day) is rejected by the UK dialect … -/
theorem uk_rejects_us_text_gen (y m d : Nat) (hm : 1 ≤ m ∧ m ≤ 12) (hd : 12 < d) (a b yy tm : List Char) (s1 s2 : Char) (hms us : Int)
    (ha : IsNumeral 2 a) (hb : IsNumeral 2 b) (hyy : IsNumeral 4 yy) (hy4 : yy.length = 4)
    (va : digitsVal a = m) (vb : digitsVal b = d) (vy : digitsVal yy = y)
    (h1 : isDateSep s1 = true) (h2 : isDateSep s2 = true) (ht : TimeText tm hms us) :
    dtCs true (a ++ s1 :: (b ++ s2 :: (yy ++ tm))) = some (.error .value) := by
  unfold dtCs
  rw [parse_numeric3_text a b yy tm s1 s2 hms us ha hb hyy hy4 h1 h2 ht, va, vb, vy]
  simp only [Option.map_some, Option.some.injEq, if_true]
  rw [if_neg ht.nonneg]
  have hu := uk_rejects_us_micro y m d hm hd hms us
  unfold numeric3u at hu
  rw [hu]
  rcases mkDateChecked_cases (y : Int) (duResolve (m : Int) (d : Int)).1 (duResolve (m : Int) (d : Int)).2 with ⟨t0, h⟩ | h <;> rw [h] <;> rfl

/-- … and a UK-written one by the US dialect: never silently swapped -/
theorem us_rejects_uk_text_gen (y m d : Nat) (hm : 1 ≤ m ∧ m ≤ 12) (hd : 12 < d) (a b yy tm : List Char) (s1 s2 : Char) (hms us : Int)
    (ha : IsNumeral 2 a) (hb : IsNumeral 2 b) (hyy : IsNumeral 4 yy) (hy4 : yy.length = 4)
    (va : digitsVal a = d) (vb : digitsVal b = m) (vy : digitsVal yy = y)
    (h1 : isDateSep s1 = true) (h2 : isDateSep s2 = true) (ht : TimeText tm hms us) :
    dtCs false (a ++ s1 :: (b ++ s2 :: (yy ++ tm))) = some (.error .value) := by
  unfold dtCs
  rw [parse_numeric3_text a b yy tm s1 s2 hms us ha hb hyy hy4 h1 h2 ht, va, vb, vy]
  simp only [Option.map_some, Option.some.injEq, Bool.false_eq_true, if_false]
  rw [if_neg ht.nonneg]
  have hu := us_rejects_uk_micro y m d hm hd hms us
  unfold numeric3u at hu
  rw [hu]
  rcases mkDateChecked_cases (y : Int) (duResolve (d : Int) (m : Int)).1 (duResolve (d : Int) (m : Int)).2 with ⟨t0, h⟩ | h <;> rw [h] <;> rfl

-- non-vacuity: the unpadded '2.1.2000 03:04:05.000006' (UK) and the rejected '1/13/2000 10:30' (UK)
example : IsNumeral 2 "2".toList ∧ IsNumeral 2 "1".toList ∧ IsNumeral 4 "2000".toList ∧ digitsVal "2".toList = 2
    ∧ TimeText " 03:04:05.000006".toList 11045000000 6 := by
  refine ⟨by decide, by decide, by decide, by decide, ?_⟩
  exact TimeText.frac ' ' "03".toList "04".toList "05".toList "000006".toList (Or.inl rfl) (by decide) (by decide) (by decide) (by decide)
    (by decide) (by decide) (by decide)
example : dtCs true "2.1.2000 03:04:05.000006".toList = some (.ok (mkDate 2000 1 2 + 11045000006)) := eq_of_okView (by decide +kernel)
example : dtCs true "1/13/2000 10:30".toList = some (.error .value) := eq_of_isValueError (by decide +kernel)

/-- an impossible time of day (`25:00`, `10:61`) makes dateutil raise: ValueError in both dialects, never a shifted instant -/
example : dtCs true "13/01/2000 25:00:00".toList = some (.error .value) ∧ dtCs false "2000-01-13T10:61".toList = some (.error .value) :=
  ⟨eq_of_isValueError (by decide +kernel), eq_of_isValueError (by decide +kernel)⟩

/-! ### ISO text (the clause itself, not only what dt2str writes) -/

/-- `dt('yyyy-mm-dd')`, `dt('yyyy-mm-ddThh:mm:ss[.ffffff]')`, `dt('yyyy-mm-dd hh:mm[:ss]')` … in both dialects: the instant -/
theorem iso_text (uk : Bool) (y m d : Nat) (v : Valid y m d) (yy mm dd tm : List Char) (hms us : Int)
    (hyy : IsNumeral 4 yy) (hy4 : yy.length = 4) (hmm : IsNumeral 2 mm) (hm2 : mm.length = 2) (hdd : IsNumeral 2 dd) (hd2 : dd.length = 2)
    (vy : digitsVal yy = y) (vm : digitsVal mm = m) (vd : digitsVal dd = d) (ht : TimeText tm hms us) :
    dtCs uk (yy ++ '-' :: (mm ++ '-' :: (dd ++ tm))) = some (checkRange (mkDate y m d + hms + us)) := by
  unfold dtCs
  rw [parse_iso_text yy mm dd tm hms us hyy hy4 hmm hm2 hdd hd2 ht, vy, vm, vd]
  simp only [Option.map_some]
  rw [if_neg ht.nonneg, decide_plain uk y m d v hms us]

/-- the ISO clause for `dt(<string>)` itself (`dtStr`): the text passes `strip` and `squeeze` unchanged -/
theorem iso_str (uk : Bool) (y m d : Nat) (v : Valid y m d) (yy mm dd tm : List Char) (hms us : Int)
    (hyy : IsNumeral 4 yy) (hy4 : yy.length = 4) (hmm : IsNumeral 2 mm) (hm2 : mm.length = 2) (hdd : IsNumeral 2 dd) (hd2 : dd.length = 2)
    (vy : digitsVal yy = y) (vm : digitsVal mm = m) (vd : digitsVal dd = d) (ht : TimeText tm hms us) :
    dtStr uk (String.ofList (yy ++ '-' :: (mm ++ '-' :: (dd ++ tm)))) = some (checkRange (mkDate y m d + hms + us)) := by
  unfold dtStr
  rw [String.toList_ofList, pre_iso yy mm dd tm hms us hyy hy4 hmm hdd ht]
  exact iso_text uk y m d v yy mm dd tm hms us hyy hy4 hmm hm2 hdd hd2 vy vm vd ht
/-- the ISO date alone, as `strftime('%Y-%m-%d')` writes it -/
theorem iso_date_text (uk : Bool) (y m d : Nat) (v : Valid y m d) :
    dtCs uk (pad4 y ++ '-' :: (pad2 m ++ '-' :: (pad2 d ++ []))) = some (.ok (mkDate y m d)) := by
  have hv := v; unfold Valid at hv
  have hb := dim_bounds y m hv.2.2.1 hv.2.2.2.1
  rw [iso_text uk y m d v (pad4 y) (pad2 m) (pad2 d) [] 0 0 (isNumeral_pad4 y) rfl (isNumeral_pad2 m) rfl (isNumeral_pad2 d) rfl
    (val_pad4 y (by omega)) (val_pad2 m (by omega)) (val_pad2 d (by omega)) TimeText.none]
  simp only [Int.add_zero]; rw [checkRange_mkDate y m d v]

/-- `isoformat(' ')` / `isoformat()` with whole seconds, padded fields -/
theorem iso_datetime_text (uk : Bool) (y m d h mi sec : Nat) (v : Valid y m d) (hh : h < 24) (hmi : mi < 60) (hs : sec < 60) (l : Char) (hl : IsLead l) :
    dtCs uk (pad4 y ++ '-' :: (pad2 m ++ '-' :: (pad2 d ++ l :: (pad2 h ++ ':' :: (pad2 mi ++ ':' :: pad2 sec)))))
      = some (.ok (mkDate y m d + ((h * 3600000000 + mi * 60000000 + sec * 1000000 : Nat) : Int))) := by
  have hv := v; unfold Valid at hv
  have hb := dim_bounds y m hv.2.2.1 hv.2.2.2.1
  have ht := TimeText.hms l (pad2 h) (pad2 mi) (pad2 sec) hl (isNumeral_pad2 h) (isNumeral_pad2 mi) (isNumeral_pad2 sec)
    (by rw [val_pad2 h (by omega)]; exact hh) (by rw [val_pad2 mi (by omega)]; exact hmi) (by rw [val_pad2 sec (by omega)]; exact hs)
  rw [val_pad2 h (by omega), val_pad2 mi (by omega), val_pad2 sec (by omega)] at ht
  rw [iso_text uk y m d v (pad4 y) (pad2 m) (pad2 d) _ _ 0 (isNumeral_pad4 y) rfl (isNumeral_pad2 m) rfl (isNumeral_pad2 d) rfl
    (val_pad4 y (by omega)) (val_pad2 m (by omega)) (val_pad2 d (by omega)) ht]
  have hm := mkDate_day_in_range y m d v
  simp only [Int.add_zero]
  congr 1
  rw [checkRange_ok]; unfold DAYUS at hm; exact ⟨by omega, rfl⟩

example : dtCs false "2000-02-29 23:59:59".toList = some (.ok (mkDate 2000 2 29 + 86399000000)) := eq_of_okView (by decide +kernel)

/-! ### month-name strings (`1 Jan 2000`, `01-January-2000`, `January 1, 2000`, `Jan 1 2000`)

The month names are those of dateutil's own table, lifted into the GENERATED `Gen.duMonths` (`IsMonthName m w`: `w` is, in any
capitalisation, a name that table lists for month `m`); the scanner's reading of these shapes is the ASSUMED dateutil behaviour,
sampled by correspondence (tags `month-name*`). -/

/-- the month table the theorems below quantify over is the English one (`sept` included): a changed dateutil table breaks this -/
theorem du_months_english : Gen.duMonths =
    [["jan", "january"], ["feb", "february"], ["mar", "march"], ["apr", "april"], ["may", "may"], ["jun", "june"], ["jul", "july"],
     ["aug", "august"], ["sep", "sept", "september"], ["oct", "october"], ["nov", "november"], ["dec", "december"]] := rfl

/-- `dt` of EVERY month-name spelling of a calendar date — day with one or two digits, month name abbreviated or in full and in
any capitalisation, four-digit year, optional time of day `[ T]h:m[:s[.f]]` to the microsecond — in the four shapes
`d Mon yyyy`, `d-Mon-yyyy`, `Mon d, yyyy`, `Mon d yyyy` is that instant, in both dialects (no dialect test fires: the text does not
match the `ambiguity` regex, see `ambiguous_iff`) -/
theorem month_name_text (uk : Bool) (y m d : Nat) (v : Valid y m d) (w dd yy tm : List Char) (hms us : Int)
    (hw : IsMonthName m w) (hdd : IsNumeral 2 dd) (hyy : IsNumeral 4 yy) (hy4 : yy.length = 4)
    (vd : digitsVal dd = d) (vy : digitsVal yy = y) (ht : TimeText tm hms us) :
    (∀ s, s = ' ' ∨ s = '-' → dtCs uk (dd ++ s :: (w ++ s :: (yy ++ tm))) = some (checkRange (mkDate y m d + hms + us)))
    ∧ dtCs uk (w ++ ' ' :: (dd ++ ',' :: ' ' :: (yy ++ tm))) = some (checkRange (mkDate y m d + hms + us))
    ∧ dtCs uk (w ++ ' ' :: (dd ++ ' ' :: (yy ++ tm))) = some (checkRange (mkDate y m d + hms + us)) := by
  refine ⟨fun s hs => ?_, ?_, ?_⟩
  · unfold dtCs
    rw [parse_dMy_text m dd w yy tm s hms us hs hdd hw hyy hy4 ht, vy, vd]
    simp only [Option.map_some]
    rw [if_neg ht.nonneg, decide_plain uk y m d v hms us]
  · unfold dtCs
    rw [parse_Mdy_comma_text m dd w yy tm hms us hdd hw hyy hy4 ht, vy, vd]
    simp only [Option.map_some]
    rw [if_neg ht.nonneg, decide_plain uk y m d v hms us]
  · unfold dtCs
    rw [parse_Mdy_text m dd w yy tm hms us hdd hw hyy hy4 ht, vy, vd]
    simp only [Option.map_some]
    rw [if_neg ht.nonneg, decide_plain uk y m d v hms us]

/-- the same for `dt(<string>)` itself (`dtStr`: `strip`, the blank handling, then the reading): the month-name spellings pass
`strip` and `squeeze` unchanged -/
theorem month_name_str (uk : Bool) (y m d : Nat) (v : Valid y m d) (w dd yy tm : List Char) (hms us : Int)
    (hw : IsMonthName m w) (hdd : IsNumeral 2 dd) (hyy : IsNumeral 4 yy) (hy4 : yy.length = 4)
    (vd : digitsVal dd = d) (vy : digitsVal yy = y) (ht : TimeText tm hms us) :
    (∀ s, s = ' ' ∨ s = '-' → dtStr uk (String.ofList (dd ++ s :: (w ++ s :: (yy ++ tm)))) = some (checkRange (mkDate y m d + hms + us)))
    ∧ dtStr uk (String.ofList (w ++ ' ' :: (dd ++ ',' :: ' ' :: (yy ++ tm)))) = some (checkRange (mkDate y m d + hms + us))
    ∧ dtStr uk (String.ofList (w ++ ' ' :: (dd ++ ' ' :: (yy ++ tm)))) = some (checkRange (mkDate y m d + hms + us)) := by
  have h := month_name_text uk y m d v w dd yy tm hms us hw hdd hyy hy4 vd vy ht
  refine ⟨fun s hs => ?_, ?_, ?_⟩
  · unfold dtStr; rw [String.toList_ofList, pre_dMy m dd w yy tm s hms us hs hdd hw hyy ht]; exact h.1 s hs
  · unfold dtStr; rw [String.toList_ofList, pre_Mdy_comma m dd w yy tm hms us hdd hw hyy ht]; exact h.2.1
  · unfold dtStr; rw [String.toList_ofList, pre_Mdy m dd w yy tm hms us hdd hw hyy ht]; exact h.2.2

example : dtStr true "13 Sept 2000 10:30" = some (.ok (mkDate 2000 9 13 + 37800000000))
    ∧ dtStr false "  January 1, 2000T23:59:59.999999\n" = some (.ok (mkDate 2000 1 1 + 86399999999)) :=
  ⟨eq_of_okView (by decide +kernel), eq_of_okView (by decide +kernel)⟩

/-- the date alone, as `strftime` writes it (`%d %B %Y`, `%d-%b-%Y`, `%B %d, %Y`, …): midnight of the day -/
theorem month_name_date_text (uk : Bool) (y m d : Nat) (v : Valid y m d) (w : List Char) (hw : IsMonthName m w) :
    dtCs uk (pad2 d ++ ' ' :: (w ++ ' ' :: (pad4 y ++ []))) = some (.ok (mkDate y m d))
    ∧ dtCs uk (pad2 d ++ '-' :: (w ++ '-' :: (pad4 y ++ []))) = some (.ok (mkDate y m d))
    ∧ dtCs uk (w ++ ' ' :: (pad2 d ++ ',' :: ' ' :: (pad4 y ++ []))) = some (.ok (mkDate y m d)) := by
  have hv := v; unfold Valid at hv
  have hb := dim_bounds y m hv.2.2.1 hv.2.2.2.1
  have h := month_name_text uk y m d v w (pad2 d) (pad4 y) [] 0 0 hw (isNumeral_pad2 d) (isNumeral_pad4 y) rfl
    (val_pad2 d (by omega)) (val_pad4 y (by omega)) TimeText.none
  simp only [Int.add_zero, checkRange_mkDate y m d v] at h
  exact ⟨h.1 ' ' (Or.inl rfl), h.1 '-' (Or.inr rfl), h.2.1⟩

example : IsMonthName 9 "SePt".toList ∧ IsMonthName 1 "January".toList ∧ IsMonthName 5 "may".toList ∧ ¬ IsMonthName 1 "Janu".toList := by
  decide +kernel
example : dtCs true "13 Sept 2000 10:30".toList = some (.ok (mkDate 2000 9 13 + 37800000000))
    ∧ dtCs false "JAN 01, 2000".toList = some (.ok (mkDate 2000 1 1)) ∧ dtCs false "1-feb-2000".toList = some (.ok (mkDate 2000 2 1)) :=
  ⟨eq_of_okView (by decide +kernel), eq_of_okView (by decide +kernel), eq_of_okView (by decide +kernel)⟩
/-- an impossible month-name date is dateutil's ParserError (a ValueError), never a rolled date -/
example : dtCs true "31 Feb 2000".toList = some (.error .value) := eq_of_isValueError (by decide +kernel)

/-! ### white space around the text is ignored (the dialect tests see the stripped text) -/

/-- `dt(ws ++ text ++ ws')` = `dt(text)` for any white space around a text that starts and ends with other characters -/
theorem dt_ignores_outer_ws (uk : Bool) (ws1 ws2 mid : List Char) (c0 c1 : Char) (h1 : ∀ c ∈ ws1, isWs c = true)
    (h2 : ∀ c ∈ ws2, isWs c = true) (n0 : isWs c0 = false) (n1 : isWs c1 = false) :
    dtStr uk (String.ofList (ws1 ++ (c0 :: (mid ++ [c1])) ++ ws2)) = dtStr uk (String.ofList (c0 :: (mid ++ [c1]))) := by
  unfold dtStr
  rw [String.toList_ofList, String.toList_ofList, strip_wrapped ws1 ws2 mid c0 c1 h1 h2 n0 n1, strip_id mid c0 c1 n0 n1]

/-- in particular a US-written day > 12 text with blanks around it is still rejected by the UK dialect, and vice versa
(C04-D1: on the unrepaired code these were silently swapped) -/
theorem rejects_with_outer_ws (y m d : Nat) (hm : 1 ≤ m ∧ m ≤ 12) (hd : 12 < d ∧ d < 100) (hy : y < 10000) (s1 s2 : Char)
    (h1 : isDateSep s1 = true) (h2 : isDateSep s2 = true) (ws1 ws2 : List Char) (w1 : ∀ c ∈ ws1, isWs c = true) (w2 : ∀ c ∈ ws2, isWs c = true) :
    dtStr true (String.ofList (ws1 ++ (pad2 m ++ s1 :: (pad2 d ++ s2 :: (pad4 y ++ []))) ++ ws2)) = some (.error .value)
    ∧ dtStr false (String.ofList (ws1 ++ (pad2 d ++ s1 :: (pad2 m ++ s2 :: (pad4 y ++ []))) ++ ws2)) = some (.error .value) := by
  have e : ∀ a b : Nat, pad2 a ++ s1 :: (pad2 b ++ s2 :: (pad4 y ++ []))
      = digit (a / 10) :: ([digit a, s1, digit (b / 10), digit b, s2, digit (y / 1000), digit (y / 100), digit (y / 10)] ++ [digit y]) := by
    intros; rfl
  have sq : ∀ a b : Nat, squeeze (pad2 a ++ '/' :: (pad2 b ++ '/' :: (pad4 y ++ []))) = pad2 a ++ '/' :: (pad2 b ++ '/' :: (pad4 y ++ [])) :=
    fun a b => squeeze_padded a b y '/' '/' (by decide) (by decide)
  -- `ambiguity.sub`: whatever the two separators, dateutil gets the text with slashes
  have sl : ∀ a b : Nat, slashes (pad2 a ++ s1 :: (pad2 b ++ s2 :: (pad4 y ++ []))) = pad2 a ++ '/' :: (pad2 b ++ '/' :: (pad4 y ++ [])) := by
    intro a b
    have := slashes_of_parts (pad2 a) [s1] (pad2 b) [s2] (pad4 y) [] (isNumeral_pad2 a) ⟨[], [], s1, rfl, by simp [AllWs], by simp [AllWs], h1⟩
      (isNumeral_pad2 b) ⟨[], [], s2, rfl, by simp [AllWs], by simp [AllWs], h2⟩ ⟨by simp [pad4], all_pad4 y⟩
    simpa using this
  have st : ∀ a b : Nat, strip (pad2 a ++ s1 :: (pad2 b ++ s2 :: (pad4 y ++ []))) = pad2 a ++ s1 :: (pad2 b ++ s2 :: (pad4 y ++ [])) := by
    intro a b; rw [e]; exact strip_id _ _ _ (digit_not_ws _) (digit_not_ws _)
  constructor
  · rw [e, dt_ignores_outer_ws true ws1 ws2 _ _ _ w1 w2 (digit_not_ws _) (digit_not_ws _), ← e]
    unfold dtStr; rw [String.toList_ofList, st, sl, sq]
    exact uk_rejects_us_text y m d hm hd hy '/' '/' (by decide) (by decide)
  · rw [e, dt_ignores_outer_ws false ws1 ws2 _ _ _ w1 w2 (digit_not_ws _) (digit_not_ws _), ← e]
    unfold dtStr; rw [String.toList_ofList, st, sl, sq]
    exact us_rejects_uk_text y m d hm hd hy '/' '/' (by decide) (by decide)

example : dtStr false " 13/01/2000" = some (.error .value) ∧ dtStr true "\t02/01/2000 " = some (.ok (mkDate 2000 1 2)) :=
  ⟨eq_of_isValueError (by decide +kernel), eq_of_okView (by decide +kernel)⟩

/-! ### blanks around the separators (`'13 / 01 / 2000'`, C04-D3): the dialect tests see the tight text -/

theorem isDateSep_of_sq (s : Char) (h : IsSqSep s) : isDateSep s = true := by
  rcases h with rfl | rfl | rfl <;> decide

/-- the reading of EVERY padded spelling `a <sep> b <sep> yyyy[ time]` is the reading of its tight form -/
theorem dt_padded_seps (uk : Bool) (a b yy tm : List Char) (s1 s2 : Char) (l1 r1 l2 r2 : List Char) (hms us : Int)
    (ha : IsNumeral 2 a) (hb : IsNumeral 2 b) (hy : IsNumeral 4 yy) (h1 : IsSqSep s1) (h2 : IsSqSep s2)
    (bl1 : ∀ c ∈ l1, c = ' ') (br1 : ∀ c ∈ r1, c = ' ') (bl2 : ∀ c ∈ l2, c = ' ') (br2 : ∀ c ∈ r2, c = ' ') (ht : TimeText tm hms us) :
    dtCs uk (squeeze (a ++ (l1 ++ s1 :: (r1 ++ (b ++ (l2 ++ s2 :: (r2 ++ (yy ++ tm))))))))
      = dtCs uk (a ++ s1 :: (b ++ s2 :: (yy ++ tm))) := by
  rw [squeeze_padded_seps a b yy tm s1 s2 l1 r1 l2 r2 hms us ha hb hy h1 h2 bl1 br1 bl2 br2 ht]

/-- … so a UK text with blanks around its separators is the instant (day ≤ 12 included: not dateutil's month-first reading) … -/
theorem uk_padded_seps_text (y m d : Nat) (v : Valid y m d) (hy : 32 ≤ y ∧ y < 9999) (a b yy tm : List Char) (s1 s2 : Char)
    (l1 r1 l2 r2 : List Char) (hms us : Int)
    (ha : IsNumeral 2 a) (hb : IsNumeral 2 b) (hyy : IsNumeral 4 yy) (hy4 : yy.length = 4)
    (va : digitsVal a = d) (vb : digitsVal b = m) (vy : digitsVal yy = y) (h1 : IsSqSep s1) (h2 : IsSqSep s2)
    (bl1 : ∀ c ∈ l1, c = ' ') (br1 : ∀ c ∈ r1, c = ' ') (bl2 : ∀ c ∈ l2, c = ' ') (br2 : ∀ c ∈ r2, c = ' ') (ht : TimeText tm hms us) :
    dtCs true (squeeze (a ++ (l1 ++ s1 :: (r1 ++ (b ++ (l2 ++ s2 :: (r2 ++ (yy ++ tm))))))))
      = some (checkRange (mkDate y m d + hms + us)) := by
  rw [dt_padded_seps true a b yy tm s1 s2 l1 r1 l2 r2 hms us ha hb hyy h1 h2 bl1 br1 bl2 br2 ht]
  exact uk_text_gen y m d v hy a b yy tm s1 s2 hms us ha hb hyy hy4 va vb vy (isDateSep_of_sq s1 h1) (isDateSep_of_sq s2 h2) ht

/-- … and the other dialect's day > 12 text with blanks around its separators is rejected, not silently swapped -/
theorem rejects_padded_seps (y m d : Nat) (hm : 1 ≤ m ∧ m ≤ 12) (hd : 12 < d) (a b yy tm : List Char) (s1 s2 : Char)
    (l1 r1 l2 r2 : List Char) (hms us : Int)
    (ha : IsNumeral 2 a) (hb : IsNumeral 2 b) (hyy : IsNumeral 4 yy) (hy4 : yy.length = 4) (vy : digitsVal yy = y)
    (h1 : IsSqSep s1) (h2 : IsSqSep s2)
    (bl1 : ∀ c ∈ l1, c = ' ') (br1 : ∀ c ∈ r1, c = ' ') (bl2 : ∀ c ∈ l2, c = ' ') (br2 : ∀ c ∈ r2, c = ' ') (ht : TimeText tm hms us) :
    (digitsVal a = m → digitsVal b = d →
      dtCs true (squeeze (a ++ (l1 ++ s1 :: (r1 ++ (b ++ (l2 ++ s2 :: (r2 ++ (yy ++ tm)))))))) = some (.error .value))
    ∧ (digitsVal a = d → digitsVal b = m →
      dtCs false (squeeze (a ++ (l1 ++ s1 :: (r1 ++ (b ++ (l2 ++ s2 :: (r2 ++ (yy ++ tm)))))))) = some (.error .value)) := by
  constructor
  · intro va vb
    rw [dt_padded_seps true a b yy tm s1 s2 l1 r1 l2 r2 hms us ha hb hyy h1 h2 bl1 br1 bl2 br2 ht]
    exact uk_rejects_us_text_gen y m d hm hd a b yy tm s1 s2 hms us ha hb hyy hy4 va vb vy (isDateSep_of_sq s1 h1) (isDateSep_of_sq s2 h2) ht
  · intro va vb
    rw [dt_padded_seps false a b yy tm s1 s2 l1 r1 l2 r2 hms us ha hb hyy h1 h2 bl1 br1 bl2 br2 ht]
    exact us_rejects_uk_text_gen y m d hm hd a b yy tm s1 s2 hms us ha hb hyy hy4 va vb vy (isDateSep_of_sq s1 h1) (isDateSep_of_sq s2 h2) ht

example : dtStr false "13 / 01 / 2000" = some (.error .value) ∧ dtStr true "01 -13-  2000 10:30" = some (.error .value)
    ∧ dtStr true "02 / 01 / 2000" = some (.ok (mkDate 2000 1 2)) ∧ dtStr true "2  1  2000 10:30" = some (.ok (mkDate 2000 1 2 + 37800000000)) :=
  ⟨eq_of_isValueError (by decide +kernel), eq_of_isValueError (by decide +kernel), eq_of_okView (by decide +kernel), eq_of_okView (by decide +kernel)⟩

/-! ### C04-D4: EVERY pair of separators of the quantifier's set, any white space around them and around the text — the
statement for `dt(<string>)` itself (`dtStr`: `strip`, `ambiguity.sub`, then dateutil and the dialect decision).  The separators
are described by `IsSepZone` (white space, one of `-` `/` `.` blank, white space: an independent decomposition predicate), so the
six pairs with exactly one `.` (`'13.01 2000'`, `'13-01.2000'`: dateutil alone reads them as something else or not at all), blanks
around a `.` and a blank only in front of the year (`'13/01/ 2000'`) are all covered.  What dateutil is ASSUMED to read is now only
the text with two `/`. -/

/-- the text dateutil gets for `<a><zone><b><zone><yyyy>[ time]` is `a/b/yyyy[ time]` -/
theorem dtStr_triple (uk : Bool) (ws1 ws2 a z1 b z2 yy tm : List Char) (hms us : Int) (ha : IsNumeral 2 a) (hb : IsNumeral 2 b)
    (hyy : IsNumeral 4 yy) (hy4 : yy.length = 4) (h1 : IsSepZone z1) (h2 : IsSepZone z2) (ht : TimeText tm hms us)
    (w1 : AllWs ws1) (w2 : AllWs ws2) :
    dtStr uk (String.ofList (ws1 ++ (a ++ (z1 ++ (b ++ (z2 ++ (yy ++ tm))))) ++ ws2)) = dtCs uk (a ++ '/' :: (b ++ '/' :: (yy ++ tm))) := by
  obtain ⟨c0, r, e0, h0⟩ := ha.cons
  have e : a ++ (z1 ++ (b ++ (z2 ++ (yy ++ tm)))) = (a ++ (z1 ++ (b ++ (z2 ++ yy)))) ++ tm := by simp
  have hs : strip (ws1 ++ (a ++ (z1 ++ (b ++ (z2 ++ (yy ++ tm))))) ++ ws2) = a ++ (z1 ++ (b ++ (z2 ++ (yy ++ tm)))) := by
    rw [e]
    refine strip_wrapped_text ws1 ws2 _ tm hms us c0 (r ++ (z1 ++ (b ++ (z2 ++ yy)))) (by rw [e0]; simp) (notWs_of_digit _ h0) ?_ ?_ ht w1 w2
    · have := hyy.len_pos; intro h; simp at h; rw [h.2.2.2.2] at this; simp at this
    · have e2 : a ++ (z1 ++ (b ++ (z2 ++ yy))) = (a ++ (z1 ++ (b ++ z2))) ++ yy := by simp
      rw [e2]; exact hyy.last_digit _
  unfold dtStr
  rw [String.toList_ofList, hs, slashes_of_parts a z1 b z2 yy tm ha h1 hb h2 ⟨by omega, hyy.2.2⟩]
  have sq := squeeze_padded_seps a b yy tm '/' '/' [] [] [] [] hms us ha hb hyy (Or.inl rfl) (Or.inl rfl) (by simp) (by simp) (by simp) (by simp) ht
  simp only [List.nil_append] at sq
  rw [sq]

/-- UK: `dt('<d><sep><m><sep><yyyy>[ time]')` is the instant to the microsecond — any two separators, any white space -/
theorem uk_str_any_seps (y m d : Nat) (v : Valid y m d) (hy : 32 ≤ y ∧ y < 9999) (ws1 ws2 a z1 b z2 yy tm : List Char) (hms us : Int)
    (ha : IsNumeral 2 a) (hb : IsNumeral 2 b) (hyy : IsNumeral 4 yy) (hy4 : yy.length = 4)
    (va : digitsVal a = d) (vb : digitsVal b = m) (vy : digitsVal yy = y)
    (h1 : IsSepZone z1) (h2 : IsSepZone z2) (ht : TimeText tm hms us) (w1 : AllWs ws1) (w2 : AllWs ws2) :
    dtStr true (String.ofList (ws1 ++ (a ++ (z1 ++ (b ++ (z2 ++ (yy ++ tm))))) ++ ws2)) = some (checkRange (mkDate y m d + hms + us)) := by
  rw [dtStr_triple true ws1 ws2 a z1 b z2 yy tm hms us ha hb hyy hy4 h1 h2 ht w1 w2]
  exact uk_text_gen y m d v hy a b yy tm '/' '/' hms us ha hb hyy hy4 va vb vy (by decide) (by decide) ht

/-- US: `dt('<m><sep><d><sep><yyyy>[ time]', dialect = 'us')` -/
theorem us_str_any_seps (y m d : Nat) (v : Valid y m d) (ws1 ws2 a z1 b z2 yy tm : List Char) (hms us : Int)
    (ha : IsNumeral 2 a) (hb : IsNumeral 2 b) (hyy : IsNumeral 4 yy) (hy4 : yy.length = 4)
    (va : digitsVal a = m) (vb : digitsVal b = d) (vy : digitsVal yy = y)
    (h1 : IsSepZone z1) (h2 : IsSepZone z2) (ht : TimeText tm hms us) (w1 : AllWs ws1) (w2 : AllWs ws2) :
    dtStr false (String.ofList (ws1 ++ (a ++ (z1 ++ (b ++ (z2 ++ (yy ++ tm))))) ++ ws2)) = some (checkRange (mkDate y m d + hms + us)) := by
  rw [dtStr_triple false ws1 ws2 a z1 b z2 yy tm hms us ha hb hyy hy4 h1 h2 ht w1 w2]
  exact us_text_gen y m d v a b yy tm '/' '/' hms us ha hb hyy hy4 va vb vy (by decide) (by decide) ht

/-- the other dialect's day > 12 text is rejected, never silently swapped and never another date — any two separators -/
theorem str_rejects_any_seps (y m d : Nat) (hm : 1 ≤ m ∧ m ≤ 12) (hd : 12 < d) (ws1 ws2 a z1 b z2 yy tm : List Char) (hms us : Int)
    (ha : IsNumeral 2 a) (hb : IsNumeral 2 b) (hyy : IsNumeral 4 yy) (hy4 : yy.length = 4) (vy : digitsVal yy = y)
    (h1 : IsSepZone z1) (h2 : IsSepZone z2) (ht : TimeText tm hms us) (w1 : AllWs ws1) (w2 : AllWs ws2) :
    (digitsVal a = m → digitsVal b = d →
      dtStr true (String.ofList (ws1 ++ (a ++ (z1 ++ (b ++ (z2 ++ (yy ++ tm))))) ++ ws2)) = some (.error .value))
    ∧ (digitsVal a = d → digitsVal b = m →
      dtStr false (String.ofList (ws1 ++ (a ++ (z1 ++ (b ++ (z2 ++ (yy ++ tm))))) ++ ws2)) = some (.error .value)) := by
  constructor
  · intro va vb
    rw [dtStr_triple true ws1 ws2 a z1 b z2 yy tm hms us ha hb hyy hy4 h1 h2 ht w1 w2]
    exact uk_rejects_us_text_gen y m d hm hd a b yy tm '/' '/' hms us ha hb hyy hy4 va vb vy (by decide) (by decide) ht
  · intro va vb
    rw [dtStr_triple false ws1 ws2 a z1 b z2 yy tm hms us ha hb hyy hy4 h1 h2 ht w1 w2]
    exact us_rejects_uk_text_gen y m d hm hd a b yy tm '/' '/' hms us ha hb hyy hy4 va vb vy (by decide) (by decide) ht

/-! ### the dialect as the string the caller writes (defect C04-D6: `dt` tested `dialect == 'uk'`, so `'UK'` was the US dialect) -/

/-- which strings are the UK dialect, which the US one — against the ENUMERATION of the spellings, both directions: the dialect read
from the string is UK exactly for `uk UK Uk uK` and US exactly for `us US Us uS` (so `'UK'` is never read as US, and no third string
is silently one of the two: for any other string the model has no answer, `dialectOf_other`) -/
theorem dialect_spellings (d : String) :
    (dialectOf d = some true ↔ d ∈ ["uk", "UK", "Uk", "uK"]) ∧ (dialectOf d = some false ↔ d ∈ ["us", "US", "Us", "uS"]) :=
  ⟨dialectOf_uk_iff d, dialectOf_us_iff d⟩

theorem dialectOf_other (d : String) (h : d ∉ ["uk", "UK", "Uk", "uK", "us", "US", "Us", "uS"]) : dialectOf d = none ∧ ∀ s, dtStrD d s = none := by
  have h1 : dialectOf d = none := by
    cases e : dialectOf d with
    | none => rfl
    | some b =>
      cases b
      · exact absurd (List.mem_append_right ["uk", "UK", "Uk", "uK"] ((dialectOf_us_iff d).mp e)) h
      · exact absurd (List.mem_append_left ["us", "US", "Us", "uS"] ((dialectOf_uk_iff d).mp e)) h
  exact ⟨h1, fun s => by simp [dtStrD, h1]⟩

/-- UK, the dialect in any letter case: `dt('<d><sep><m><sep><yyyy>[ time]', dialect = 'UK')` is the instant to the microsecond -/
theorem uk_str_any_dialect_case (dia : String) (hdia : dia ∈ ["uk", "UK", "Uk", "uK"])
    (y m d : Nat) (v : Valid y m d) (hy : 32 ≤ y ∧ y < 9999) (ws1 ws2 a z1 b z2 yy tm : List Char) (hms us : Int)
    (ha : IsNumeral 2 a) (hb : IsNumeral 2 b) (hyy : IsNumeral 4 yy) (hy4 : yy.length = 4)
    (va : digitsVal a = d) (vb : digitsVal b = m) (vy : digitsVal yy = y)
    (h1 : IsSepZone z1) (h2 : IsSepZone z2) (ht : TimeText tm hms us) (w1 : AllWs ws1) (w2 : AllWs ws2) :
    dtStrD dia (String.ofList (ws1 ++ (a ++ (z1 ++ (b ++ (z2 ++ (yy ++ tm))))) ++ ws2)) = some (checkRange (mkDate y m d + hms + us)) := by
  simp only [dtStrD, (dialectOf_uk_iff dia).mpr hdia, Option.bind_some]
  exact uk_str_any_seps y m d v hy ws1 ws2 a z1 b z2 yy tm hms us ha hb hyy hy4 va vb vy h1 h2 ht w1 w2

/-- US, the dialect in any letter case (`'US'` is the library's own spelling) -/
theorem us_str_any_dialect_case (dia : String) (hdia : dia ∈ ["us", "US", "Us", "uS"])
    (y m d : Nat) (v : Valid y m d) (ws1 ws2 a z1 b z2 yy tm : List Char) (hms us : Int)
    (ha : IsNumeral 2 a) (hb : IsNumeral 2 b) (hyy : IsNumeral 4 yy) (hy4 : yy.length = 4)
    (va : digitsVal a = m) (vb : digitsVal b = d) (vy : digitsVal yy = y)
    (h1 : IsSepZone z1) (h2 : IsSepZone z2) (ht : TimeText tm hms us) (w1 : AllWs ws1) (w2 : AllWs ws2) :
    dtStrD dia (String.ofList (ws1 ++ (a ++ (z1 ++ (b ++ (z2 ++ (yy ++ tm))))) ++ ws2)) = some (checkRange (mkDate y m d + hms + us)) := by
  simp only [dtStrD, (dialectOf_us_iff dia).mpr hdia, Option.bind_some]
  exact us_str_any_seps y m d v ws1 ws2 a z1 b z2 yy tm hms us ha hb hyy hy4 va vb vy h1 h2 ht w1 w2

/-- the other dialect's day > 12 text is rejected whatever the letter case of the dialect: `dt('01/13/2000', dialect = 'UK')` and
`dt('13/01/2000', dialect = 'US')` are ValueError, not the swapped date -/
theorem str_rejects_any_dialect_case (y m d : Nat) (hm : 1 ≤ m ∧ m ≤ 12) (hd : 12 < d) (ws1 ws2 a z1 b z2 yy tm : List Char) (hms us : Int)
    (ha : IsNumeral 2 a) (hb : IsNumeral 2 b) (hyy : IsNumeral 4 yy) (hy4 : yy.length = 4) (vy : digitsVal yy = y)
    (h1 : IsSepZone z1) (h2 : IsSepZone z2) (ht : TimeText tm hms us) (w1 : AllWs ws1) (w2 : AllWs ws2) :
    (∀ dia ∈ ["uk", "UK", "Uk", "uK"], digitsVal a = m → digitsVal b = d →
      dtStrD dia (String.ofList (ws1 ++ (a ++ (z1 ++ (b ++ (z2 ++ (yy ++ tm))))) ++ ws2)) = some (.error .value))
    ∧ (∀ dia ∈ ["us", "US", "Us", "uS"], digitsVal a = d → digitsVal b = m →
      dtStrD dia (String.ofList (ws1 ++ (a ++ (z1 ++ (b ++ (z2 ++ (yy ++ tm))))) ++ ws2)) = some (.error .value)) := by
  have h := str_rejects_any_seps y m d hm hd ws1 ws2 a z1 b z2 yy tm hms us ha hb hyy hy4 vy h1 h2 ht w1 w2
  constructor
  · intro dia hdia va vb
    simp only [dtStrD, (dialectOf_uk_iff dia).mpr hdia, Option.bind_some]
    exact h.1 va vb
  · intro dia hdia va vb
    simp only [dtStrD, (dialectOf_us_iff dia).mpr hdia, Option.bind_some]
    exact h.2 va vb

-- the instances the pinned code got wrong (review4 v3 §C04.2-1)
example : dtStrD "UK" "02/01/2000" = some (.ok (mkDate 2000 1 2)) ∧ dtStrD "Uk" "13/01/2000" = some (.ok (mkDate 2000 1 13))
    ∧ dtStrD "US" "02/01/2000" = some (.ok (mkDate 2000 2 1)) :=
  ⟨eq_of_okView (by decide +kernel), eq_of_okView (by decide +kernel), eq_of_okView (by decide +kernel)⟩
example : dtStrD "UK" "01/13/2000" = some (.error .value) ∧ dtStrD "US" "13/01/2000" = some (.error .value) :=
  ⟨eq_of_isValueError (by decide +kernel), eq_of_isValueError (by decide +kernel)⟩
example : dialectOf "british" = none ∧ dialectOf "uk " = none ∧ dialectOf "" = none := by decide

/-- `slashes` against the regex SEMANTICS, both directions: a text is rewritten (to `a/b/` + the year and what follows it) exactly
when it matches `^d{1,2}\s*SEP\s*d{1,2}\s*SEP\s*d{2,4}` (`MatchesPadded`, a decomposition of the text), and is left alone otherwise -/
theorem slashes_iff (cs : List Char) :
    (MatchesPadded cs → ∃ a b tail z1 z2, cs = a ++ (z1 ++ (b ++ (z2 ++ tail))) ∧ IsNumeral 2 a ∧ IsNumeral 2 b ∧ IsSepZone z1 ∧ IsSepZone z2
        ∧ slashes cs = a ++ '/' :: (b ++ '/' :: tail))
    ∧ (¬ MatchesPadded cs → slashes cs = cs) := by
  refine ⟨fun h => ?_, slashes_no_match cs⟩
  obtain ⟨a, b, tail, e, ha, hb, z1, z2, ec, h1, h2⟩ := slashes_of_match cs h
  exact ⟨a, b, tail, z1, z2, ec, ha, hb, h1, h2, e⟩

-- non-vacuity: zones of the six one-dot pairs, with white space; the instances the pinned code got wrong
example : IsSepZone ".".toList ∧ IsSepZone " ".toList ∧ IsSepZone " . ".toList ∧ IsSepZone "/ ".toList ∧ IsSepZone "\t-".toList :=
  ⟨⟨[], [], '.', rfl, by simp [AllWs], by simp [AllWs], by decide⟩, ⟨[], [], ' ', rfl, by simp [AllWs], by simp [AllWs], by decide⟩,
   ⟨[' '], [' '], '.', rfl, by simp [AllWs, isWs], by simp [AllWs, isWs], by decide⟩,
   ⟨[], [' '], '/', rfl, by simp [AllWs], by simp [AllWs, isWs], by decide⟩,
   ⟨['\t'], [], '-', rfl, by simp [AllWs, isWs], by simp [AllWs], by decide⟩⟩
example : dtStr false "01.13 2000" = some (.ok (mkDate 2000 1 13)) ∧ dtStr true "02 01.2000" = some (.ok (mkDate 2000 1 2))
    ∧ dtStr true "13/01/ 2000" = some (.ok (mkDate 2000 1 13)) ∧ dtStr true "13 .01.2000 10:30" = some (.ok (mkDate 2000 1 13 + 37800000000)) :=
  ⟨eq_of_okView (by decide +kernel), eq_of_okView (by decide +kernel), eq_of_okView (by decide +kernel), eq_of_okView (by decide +kernel)⟩
example : dtStr true "01.13 2000" = some (.error .value) ∧ dtStr false "13-01.2000" = some (.error .value) :=
  ⟨eq_of_isValueError (by decide +kernel), eq_of_isValueError (by decide +kernel)⟩
example : slashes "2000-01-13".toList = "2000-01-13".toList ∧ slashes "13 Jan 2000".toList = "13 Jan 2000".toList
    ∧ slashes "1 . 2 -2000x".toList = "1/2/2000x".toList ∧ slashes "1/2/3".toList = "1/2/3".toList := by decide +kernel

/-! ### ymd(spelling): the date of the instant -/

/-- whenever `dt(text)` is an instant of the day `(y, m, d)`, `ymd(text)` is midnight of that day -/
theorem ymd_of_text (uk : Bool) (cs : List Char) (y m d : Nat) (v : Valid y m d) (tod : Int) (h0 : 0 ≤ tod ∧ tod < DAYUS)
    (h : dtCs uk cs = some (.ok (mkDate y m d + tod))) : ymdCs uk cs = some (.ok (mkDate y m d)) := by
  unfold ymdCs; rw [h]
  have hm := mkDate_day_in_range y m d v
  have hd := (ymd_drops_time' (mkDate y m d + tod) (by omega) (by omega))
  simp only [Option.map_some, Except.map]
  rw [hd]
  congr 2
  unfold todOf mkDate ofOrd at *; unfold DAYUS at *; omega

/-- `ymd` of the UK / US / ISO spellings of an instant is its date -/
theorem ymd_of_uk_text (y m d : Nat) (v : Valid y m d) (hy : 32 ≤ y ∧ y < 9999) (a b yy tm : List Char) (s1 s2 : Char) (hms us : Int)
    (ha : IsNumeral 2 a) (hb : IsNumeral 2 b) (hyy : IsNumeral 4 yy) (hy4 : yy.length = 4)
    (va : digitsVal a = d) (vb : digitsVal b = m) (vy : digitsVal yy = y)
    (h1 : isDateSep s1 = true) (h2 : isDateSep s2 = true) (ht : TimeText tm hms us) (h0 : 0 ≤ hms + us ∧ hms + us < DAYUS) :
    ymdCs true (a ++ s1 :: (b ++ s2 :: (yy ++ tm))) = some (.ok (mkDate y m d)) := by
  have hm := mkDate_day_in_range y m d v
  apply ymd_of_text true _ y m d v (hms + us) h0
  rw [uk_text_gen y m d v hy a b yy tm s1 s2 hms us ha hb hyy hy4 va vb vy h1 h2 ht]
  congr 1; rw [checkRange_ok]; exact ⟨by omega, by omega⟩

theorem ymd_of_iso_text (uk : Bool) (y m d : Nat) (v : Valid y m d) (yy mm dd tm : List Char) (hms us : Int)
    (hyy : IsNumeral 4 yy) (hy4 : yy.length = 4) (hmm : IsNumeral 2 mm) (hm2 : mm.length = 2) (hdd : IsNumeral 2 dd) (hd2 : dd.length = 2)
    (vy : digitsVal yy = y) (vm : digitsVal mm = m) (vd : digitsVal dd = d) (ht : TimeText tm hms us) (h0 : 0 ≤ hms + us ∧ hms + us < DAYUS) :
    ymdCs uk (yy ++ '-' :: (mm ++ '-' :: (dd ++ tm))) = some (.ok (mkDate y m d)) := by
  have hm := mkDate_day_in_range y m d v
  apply ymd_of_text uk _ y m d v (hms + us) h0
  rw [iso_text uk y m d v yy mm dd tm hms us hyy hy4 hmm hm2 hdd hd2 vy vm vd ht]
  congr 1; rw [checkRange_ok]; exact ⟨by omega, by omega⟩

theorem ymd_of_us_text (y m d : Nat) (v : Valid y m d) (a b yy tm : List Char) (s1 s2 : Char) (hms us : Int)
    (ha : IsNumeral 2 a) (hb : IsNumeral 2 b) (hyy : IsNumeral 4 yy) (hy4 : yy.length = 4)
    (va : digitsVal a = m) (vb : digitsVal b = d) (vy : digitsVal yy = y)
    (h1 : isDateSep s1 = true) (h2 : isDateSep s2 = true) (ht : TimeText tm hms us) (h0 : 0 ≤ hms + us ∧ hms + us < DAYUS) :
    ymdCs false (a ++ s1 :: (b ++ s2 :: (yy ++ tm))) = some (.ok (mkDate y m d)) := by
  have hm := mkDate_day_in_range y m d v
  apply ymd_of_text false _ y m d v (hms + us) h0
  rw [us_text_gen y m d v a b yy tm s1 s2 hms us ha hb hyy hy4 va vb vy h1 h2 ht]
  congr 1; rw [checkRange_ok]; exact ⟨by omega, by omega⟩

theorem ymd_of_month_name_text (uk : Bool) (y m d : Nat) (v : Valid y m d) (w dd yy tm : List Char) (hms us : Int)
    (hw : IsMonthName m w) (hdd : IsNumeral 2 dd) (hyy : IsNumeral 4 yy) (hy4 : yy.length = 4)
    (vd : digitsVal dd = d) (vy : digitsVal yy = y) (ht : TimeText tm hms us) (h0 : 0 ≤ hms + us ∧ hms + us < DAYUS) :
    (∀ s, s = ' ' ∨ s = '-' → ymdCs uk (dd ++ s :: (w ++ s :: (yy ++ tm))) = some (.ok (mkDate y m d)))
    ∧ ymdCs uk (w ++ ' ' :: (dd ++ ',' :: ' ' :: (yy ++ tm))) = some (.ok (mkDate y m d))
    ∧ ymdCs uk (w ++ ' ' :: (dd ++ ' ' :: (yy ++ tm))) = some (.ok (mkDate y m d)) := by
  have hm := mkDate_day_in_range y m d v
  have h := month_name_text uk y m d v w dd yy tm hms us hw hdd hyy hy4 vd vy ht
  have e : checkRange (mkDate y m d + hms + us) = .ok (mkDate y m d + (hms + us)) := by
    rw [checkRange_ok]; exact ⟨by omega, by omega⟩
  refine ⟨fun s hs => ?_, ?_, ?_⟩
  · apply ymd_of_text uk _ y m d v (hms + us) h0; rw [h.1 s hs, e]
  · apply ymd_of_text uk _ y m d v (hms + us) h0; rw [h.2.1, e]
  · apply ymd_of_text uk _ y m d v (hms + us) h0; rw [h.2.2, e]

example : ymdCs true "13/01/2000 10:30".toList = some (.ok (mkDate 2000 1 13)) := eq_of_okView (by decide +kernel)

/-! ### the model's matcher against the SEMANTICS of the `ambiguity` regex and of `int(t[:2]...)` -/

/-- for every text the scanner reads at all, the `ambiguous` flag of the reading is set exactly when the text matches the
regex (`MatchesAmbiguity`: starts with 1-2 digits, separator, 1-2 digits, separator, 2-4 digits — an independent
transcription as a decomposition of the text).  A matcher that was too narrow or too wide on read texts would break this. -/
theorem ambiguous_iff (cs : List Char) (p : Parsed) (h : parseCs cs = some p) : p.ambiguous = true ↔ MatchesAmbiguity cs := by
  unfold parseCs at h
  constructor
  · intro ha
    obtain ⟨a, la, b, lb, y, rest, s1, s2, htk, hla, hlb, hs1, hs2, _⟩ := parseTokens_amb_shape _ p h ha
    obtain ⟨d1, r1, e1, l1, g1, _, _, hl1, t1⟩ := scan_inv_num _ _ _ _ _ htk
    obtain ⟨r2, e2, t2⟩ := scan_inv_sep _ _ _ _ t1.symm
    obtain ⟨d3, r3, e3, l3, g3, _, _, hl3, t3⟩ := scan_inv_num _ _ _ _ _ t2.symm
    obtain ⟨r4, e4, t4⟩ := scan_inv_sep _ _ _ _ t3.symm
    obtain ⟨d5, r5, e5, l5, g5, _, _, hl5, _⟩ := scan_inv_num _ _ _ _ _ t4.symm
    refine ⟨d1, d3, d5, r5, s1, s2, ?_, ⟨l1, by omega, g1⟩, ⟨l3, by omega, g3⟩, ⟨by omega, by omega, g5⟩, hs1, hs2⟩
    rw [e1, e2, e3, e4, e5]
  · rintro ⟨a, b, y, rest, s1, s2, rfl, ⟨la1, la2, ga⟩, ⟨lb1, lb2, gb⟩, ⟨ly1, ly2, gy⟩, hs1, hs2⟩
    have p1 := sep_props s1 hs1
    have p2 := sep_props s2 hs2
    have na : IsNumeral 2 a := ⟨by intro e; rw [e] at la1; simp at la1, la2, ga⟩
    have nb : IsNumeral 2 b := ⟨by intro e; rw [e] at lb1; simp at lb1, lb2, gb⟩
    have hl : a.length + b.length + y.length + rest.length + 2 + 1 = (a ++ s1 :: (b ++ s2 :: (y ++ rest))).length + 1 := by
      simp only [List.length_append, List.length_cons]; omega
    rw [← hl] at h
    rw [scan_numeral _ (by omega) 2 a _ na (ndh_cons _ _ p1.1), scan_sep _ (by omega) _ _ p1.1 p1.2] at h
    rw [scan_numeral _ (by omega) 2 b _ nb (ndh_cons _ _ p2.1), scan_sep _ (by omega) _ _ p2.1 p2.2] at h
    match y, ly1, gy with
    | y0 :: ys, _, gy =>
      obtain ⟨v, l, ts, e⟩ := scan_digit_head (a.length + b.length + (y0 :: ys).length + rest.length + 2 + 1 - 1 - 1 - 1 - 1)
        (by simp only [List.length_cons]; omega) y0 (ys ++ rest) (gy y0 (by simp))
      rw [List.cons_append, e] at h
      exact (parseTokens_numeric _ _ _ _ _ _ _ _ _ p h la2).1

/-- … and its `first` number is `int(t[:2].replace(sep, ''))`: the value of the digits among the first two characters -/
theorem ambiguous_first (cs : List Char) (p : Parsed) (h : parseCs cs = some p) (ha : p.ambiguous = true) : p.first = firstTwo cs := by
  unfold parseCs at h
  obtain ⟨a, la, b, lb, y, rest, s1, s2, htk, hla, hlb, hs1, hs2, hf⟩ := parseTokens_amb_shape _ p h ha
  obtain ⟨d1, r1, e1, l1, g1, _, hv1, hl1, t1⟩ := scan_inv_num _ _ _ _ _ htk
  obtain ⟨r2, e2, t2⟩ := scan_inv_sep _ _ _ _ t1.symm
  rw [hf, e1, e2, firstTwo_numeral d1 r2 s1 l1 (by omega) g1 (sep_props s1 hs1).1, hv1]

example : MatchesAmbiguity "13/1/2000 10:30".toList :=
  ⟨"13".toList, "1".toList, "2000".toList, " 10:30".toList, '/', '/', rfl, by decide, by decide, by decide, rfl, rfl⟩
example : firstTwo "1 13 2000".toList = 1 ∧ firstTwo "13.01.2000".toList = 13 := by decide

/-- the regex SOURCE the matchers were written for is the one in the code (a changed regex text breaks this theorem).  It is the
tight pattern of `MatchesAmbiguity` with `\s*` allowed on both sides of each separator and (since C04-D4) a group around each
number; `uk2dt` / `us2dt` rewrite a matching text to `\1/\2/\3` before anything else (`slashes`, tied to the regex semantics
`MatchesPadded` by `slashes_iff`), so the dialect test and dateutil only ever see the tight form, and what the model's matcher does
on the tight text is pinned to the regex semantics by `ambiguous_iff`. -/
theorem ambiguity_regex_is_modelled :
    Gen.re_ambiguity = "^([0-9]{1,2})\\s*[-/ .]\\s*([0-9]{1,2})\\s*[-/ .]\\s*([0-9]{2,4})" := rfl

/-! ### dt(dt2str(t)) == t -/

/-- `dt(dt2str(t)) == t` for every datetime from 1000-01-01 to 9999-12-31, to the microsecond, in both dialects:
the text `dt2str` writes (`yyyymmdd` at midnight, ISO otherwise) is read back to the same instant -/
theorem dt2str_roundtrip (t : Int) (h0 : mkDate 1000 1 1 ≤ t) (h1 : t < MAXUS) (uk : Bool) :
    dtCs uk (dt2strCs t) = some (.ok t) := by
  have h1000 : mkDate 1000 1 1 = 364877 * 86400000000 := by decide
  rw [h1000] at h0
  have hlo : (364878 : Int) ≤ ordOf t := by unfold ordOf DAYUS at *; omega
  have hn : 1 ≤ (ordOf t).toNat ∧ (ordOf t).toNat ≤ 3652059 := by unfold ordOf MAXUS DAYUS at *; omega
  have g := ord_fromOrd_all (ordOf t).toNat hn.1 hn.2
  have st := split_t t
  cases hp : ymdOf t with
  | mk y m d =>
    have hp' : fromOrd (ordOf t).toNat = ⟨y, m, d⟩ := hp
    rw [hp'] at g
    simp only at g
    obtain ⟨v, hord⟩ := g
    have hv := v; unfold Valid at hv
    have hb := dim_bounds y m hv.2.2.1 hv.2.2.2.1
    have hy : 1000 ≤ y := by
      by_cases hc : 1000 ≤ y
      · exact hc
      · have b := (ord_bounds y m d v.toU).2
        have c := dby_mono (y + 1) 1000 (by omega) (by omega)
        rw [dby_1000] at c; omega
    have hdate : mkDate y m d = ofOrd (ordOf t) := by unfold mkDate; rw [hord]; congr 1; omega
    have htod : 0 ≤ todOf t ∧ todOf t < 86400000000 := by unfold DAYUS at st; exact st.2
    have hrange : checkRange t = .ok t := by rw [checkRange_ok]; unfold MAXUS at *; omega
    unfold dtCs dt2strCs
    simp only [hp]
    by_cases hz : (todOf t).toNat = 0
    · -- midnight: yyyymmdd
      rw [if_pos hz]
      rw [parse_compact y m d (by omega) (by omega) (by omega)]
      simp only [Option.map_some, Option.some.injEq]
      rw [if_neg (Int.lt_irrefl 0), decide_plain uk y m d v, hdate]
      have : ofOrd (ordOf t) + 0 + 0 = t := by omega
      rw [this]; exact hrange
    · rw [if_neg hz]
      by_cases hus : (todOf t).toNat % 1000000 = 0
      · -- whole seconds
        rw [if_pos hus]
        have e := parse_iso y m d ((todOf t).toNat / 1000000 / 3600) ((todOf t).toNat / 1000000 / 60 % 60)
          ((todOf t).toNat / 1000000 % 60) (by omega) (by omega) (by omega) (by omega) (by omega) (by omega)
        simp only [List.append_nil] at e
        simp only [List.append_assoc, List.cons_append] 
        rw [e]
        simp only [Option.map_some, Option.some.injEq]
        rw [if_neg (Int.not_lt.mpr (Int.natCast_nonneg _)), decide_plain uk y m d v, hdate]
        have : ofOrd (ordOf t) + (((todOf t).toNat / 1000000 / 3600 * 3600000000 + (todOf t).toNat / 1000000 / 60 % 60 * 60000000
            + (todOf t).toNat / 1000000 % 60 * 1000000 : Nat) : Int) + 0 = t := by omega
        rw [this]; exact hrange
      · rw [if_neg hus]
        have e := parse_iso_frac y m d ((todOf t).toNat / 1000000 / 3600) ((todOf t).toNat / 1000000 / 60 % 60)
          ((todOf t).toNat / 1000000 % 60) ((todOf t).toNat % 1000000) (by omega) (by omega) (by omega) (by omega) (by omega) (by omega) (by omega)
        simp only [List.append_assoc, List.cons_append]
        rw [e]
        simp only [Option.map_some, Option.some.injEq]
        rw [if_neg (Int.not_lt.mpr (Int.natCast_nonneg _)), decide_plain uk y m d v, hdate]
        have : ofOrd (ordOf t) + (((todOf t).toNat / 1000000 / 3600 * 3600000000 + (todOf t).toNat / 1000000 / 60 % 60 * 60000000
            + (todOf t).toNat / 1000000 % 60 * 1000000 : Nat) : Int) + (((todOf t).toNat % 1000000 : Nat) : Int) = t := by omega
        rw [this]; exact hrange

/-- the same on strings: `dt(dt2str(t))` -/
theorem dt2str_roundtrip_str (t : Int) (h0 : mkDate 1000 1 1 ≤ t) (h1 : t < MAXUS) (uk : Bool) :
    dtStr uk (dt2str t) = some (.ok t) := by
  unfold dtStr dt2str; rw [String.toList_ofList, strip_dt2strCs, slashes_dt2strCs, squeeze_dt2strCs]; exact dt2str_roundtrip t h0 h1 uk

-- non-vacuity: 2000-01-10T20:30:40.000050 (the docstring example of dt2str)
example : dt2str 63083133040000050 = "2000-01-10T20:30:40.000050" ∧ mkDate 1000 1 1 ≤ 63083133040000050 ∧ (63083133040000050 : Int) < MAXUS := by
  decide +kernel

/-! ### numpy / pandas timestamps (`np2dt`, lines 257-289; PygModel/NpDate.lean)

`np2dt` is `t.astype(datetime.datetime)` plus a class dispatch; the dispatch is GENERATED (`Gen.np2dt`, used through
`np2dt_dispatch`), numpy's and pandas' conversions are hand-modelled as integer arithmetic on the datetime64 `(value, unit)` and
sampled by correspondence (ops `np`, `np64`, `pd`, `pdns`).  `dtOfNp t u` = `dt(np.datetime64(t, u))`. -/

/-- `dt(np.datetime64(t, unit))` for EVERY datetime `t` (year 1..9999, to the microsecond) and every fixed-length unit that divides
a day — D, h, m, s, ms, us —: `t` truncated to the unit (`t - t % k`, `k` = microseconds per unit).  For D numpy hands back a
`datetime.date`, which the generated dispatch rebuilds as a datetime at midnight; for the finer units the datetime is returned as is. -/
theorem np2dt_roundtrip (u : NpUnit) (k : Int) (hk : u.micros = some k) (hW : u ≠ .W) (t : Int) (h0 : 0 ≤ t) (h1 : t < MAXUS) :
    dtOfNp t u = some (.datetime (t - t % k)) := by
  have hE := EPOCH_val
  cases u <;> simp only [NpUnit.micros, Option.some.injEq, reduceCtorEq] at hk <;> try (exact absurd rfl hW)
  all_goals subst hk
  all_goals simp only [dtOfNp, dt64Of, NpUnit.micros, Option.bind_some]
  · -- D: a date, rebuilt at midnight
    have hm : (t - EPOCH) % 86400000000 = t % 86400000000 := by omega
    have hi := instant_fixed t 86400000000 .D rfl (by omega) (by omega) h1
    rw [dtNp_date _ _ hi rfl, hm, dropTime_midnight _ (by omega) (by omega) (by unfold DAYUS; omega)]
  · have hm : (t - EPOCH) % 3600000000 = t % 3600000000 := by omega
    have hi := instant_fixed t 3600000000 .h rfl (by omega) (by omega) h1
    rw [dtNp_datetime _ _ hi rfl, hm]
  · have hm : (t - EPOCH) % 60000000 = t % 60000000 := by omega
    have hi := instant_fixed t 60000000 .m rfl (by omega) (by omega) h1
    rw [dtNp_datetime _ _ hi rfl, hm]
  · have hm : (t - EPOCH) % 1000000 = t % 1000000 := by omega
    have hi := instant_fixed t 1000000 .s rfl (by omega) (by omega) h1
    rw [dtNp_datetime _ _ hi rfl, hm]
  · have hm : (t - EPOCH) % 1000 = t % 1000 := by omega
    have hi := instant_fixed t 1000 .ms rfl (by omega) (by omega) h1
    rw [dtNp_datetime _ _ hi rfl, hm]
  · have hm : (t - EPOCH) % 1 = t % 1 := by omega
    have hi := instant_fixed t 1 .us rfl (by omega) (by omega) h1
    rw [dtNp_datetime _ _ hi rfl, hm]


/-- weeks: numpy counts them from 1970-01-01 (a Thursday), so the truncation is to the last Thursday; from 0001-01-04 on (the week of
0001-01-01 starts in year 0, which `datetime` cannot represent) -/
theorem np2dt_roundtrip_week (t : Int) (h0 : 3 * DAYUS ≤ t) (h1 : t < MAXUS) :
    dtOfNp t .W = some (.datetime (t - (t - EPOCH) % 604800000000)) := by
  have hE := EPOCH_val
  unfold DAYUS at h0
  simp only [dtOfNp, dt64Of, NpUnit.micros, Option.bind_some]
  have hi := instant_fixed t 604800000000 .W rfl (by omega) (by omega) h1
  rw [dtNp_date _ _ hi rfl, dropTime_midnight _ (by omega) (by omega) (by unfold DAYUS; omega)]

/-- calendar months and years (`datetime64[M]`, `[Y]`): the first day of the month / year of `t` -/
theorem np2dt_roundtrip_month (t : Int) (h0 : 0 ≤ t) (h1 : t < MAXUS) :
    dtOfNp t .M = some (.datetime (mkDate (ymdOf t).y (ymdOf t).m 1)) ∧ dtOfNp t .Y = some (.datetime (mkDate (ymdOf t).y 1 1)) := by
  have v := (ymdOf_valid t h0 h1).1
  have vv := first_of_month_valid t h0 h1
  unfold Valid at v
  constructor
  · have hi : (Dt64.mk ((((ymdOf t).y : Int) - 1970) * 12 + (((ymdOf t).m : Int) - 1)) .M).instant = some (mkDate (ymdOf t).y (ymdOf t).m 1) := by
      simp only [Dt64.instant]
      have e1 : (1970 : Int) + ((((ymdOf t).y : Int) - 1970) * 12 + (((ymdOf t).m : Int) - 1)) / 12 = (ymdOf t).y := by omega
      have e2 : ((((ymdOf t).y : Int) - 1970) * 12 + (((ymdOf t).m : Int) - 1)) % 12 + 1 = (ymdOf t).m := by omega
      rw [e1, e2, if_pos (by omega)]; simp
    simp only [dtOfNp, dt64Of, Option.bind_some]
    rw [dtNp_date _ _ hi rfl, dropTime_mkDate _ _ _ vv.1]
  · have hi : (Dt64.mk (((ymdOf t).y : Int) - 1970) .Y).instant = some (mkDate (ymdOf t).y 1 1) := by
      simp only [Dt64.instant]
      have e1 : (1970 : Int) + (((ymdOf t).y : Int) - 1970) = (ymdOf t).y := by omega
      rw [e1, if_pos (by omega)]; simp
    simp only [dtOfNp, dt64Of, Option.bind_some]
    rw [dtNp_date _ _ hi rfl, dropTime_mkDate _ _ _ vv.2]

/-- nanoseconds, where representable (the count fits int64): numpy hands back an int, the dispatch answers `pd.Timestamp(x)`, the
Timestamp of that very instant — Python's `==` with `t` holds (`eqDatetime`: equal instants) -/
theorem np2dt_roundtrip_ns (t : Int) (h : -9223372036854775808 < (t - EPOCH) * 1000 ∧ (t - EPOCH) * 1000 < 9223372036854775808) :
    dtOfNp t .ns = some (.stamp ((t - EPOCH) * 1000)) ∧ (PyTime.stamp ((t - EPOCH) * 1000)).eqDatetime t := by
  constructor
  · simp only [dtOfNp, dt64Of, if_pos h, Option.bind_some]
    exact dtNp_ns _ h
  · simp only [PyTime.eqDatetime, PyTime.instantNs, Option.some.injEq]; omega

/-- every datetime from 1677-09-22 to 2262-04-10 has a `datetime64[ns]` (the int64 range is 1677-09-21T00:12:43.145224193 ..
2262-04-11T23:47:16.854775807) -/
theorem ns_representable (t : Int) (h0 : mkDate 1677 9 22 ≤ t) (h1 : t < mkDate 2262 4 11) :
    -9223372036854775808 < (t - EPOCH) * 1000 ∧ (t - EPOCH) * 1000 < 9223372036854775808 := by
  have hE := EPOCH_val
  have a : mkDate 1677 9 22 = 52912310400000000 := by decide +kernel
  have b : mkDate 2262 4 11 = 71358883200000000 := by decide +kernel
  omega

/-- `dt(pd.Timestamp(t))`: a Timestamp is a datetime, `dt` returns it unchanged, it is the same instant as `t` (`==`), and `ymd` of
it is midnight of `t`'s day — for every `t` -/
theorem pandas_roundtrip (t : Int) :
    dtStamp (stampOf t) = some (stampOf t) ∧ (stampOf t).eqDatetime t ∧ ymdPy (stampOf t) = some (dropTime t) := by
  refine ⟨rfl, ?_, ?_⟩
  · simp only [stampOf, PyTime.eqDatetime, PyTime.instantNs, Option.some.injEq]; omega
  · simp only [stampOf, ymdPy, Option.some.injEq]; congr 1; omega

/-- the clause as the property states it: for every `t` of 1900-01-01 .. 2299-12-31 (to the microsecond) `dt` of the numpy timestamp
`np.datetime64(t, u)`, u ∈ {D, h, m, s, ms, us}, is `t` truncated to `u` — in particular `t` itself for `us`, and for `s` / `ms` / … when
`t` has no finer part — and for `ns` (t before 2262-04-11) it is a Timestamp equal to `t` -/
theorem numpy_timestamp (t : Int) (h0 : mkDate 1900 1 1 ≤ t) (h1 : t < mkDate 2300 1 1) :
    dtOfNp t .us = some (.datetime t)
    ∧ (∀ u k, u.micros = some k → u ≠ .W → t % k = 0 → dtOfNp t u = some (.datetime t))
    ∧ (t < mkDate 2262 4 11 → ∃ x, dtOfNp t .ns = some x ∧ x.eqDatetime t) := by
  have a : mkDate 1900 1 1 = 59926608000000000 := by decide +kernel
  have b : mkDate 2300 1 1 = 72549388800000000 := by decide +kernel
  have c : mkDate 1677 9 22 = 52912310400000000 := by decide +kernel
  have hr : 0 ≤ t ∧ t < MAXUS := by unfold MAXUS; omega
  refine ⟨?_, ?_, ?_⟩
  · have := np2dt_roundtrip .us 1 rfl (by decide) t hr.1 hr.2
    rw [this]; congr 2; omega
  · intro u k hk hW hz
    rw [np2dt_roundtrip u k hk hW t hr.1 hr.2, hz]; simp
  · intro h2
    have := np2dt_roundtrip_ns t (ns_representable t (by omega) h2)
    exact ⟨_, this.1, this.2⟩

/-- `ymd(np.datetime64(t, u))` for the units D … us and ns: midnight of `t`'s day (truncating to the unit never leaves the day) -/
theorem numpy_ymd (u : NpUnit) (k : Int) (hk : u.micros = some k) (hW : u ≠ .W) (t : Int) (h0 : 0 ≤ t) (h1 : t < MAXUS) :
    (dtOfNp t u).bind ymdPy = some (dropTime t) := by
  rw [np2dt_roundtrip u k hk hW t h0 h1]
  simp only [Option.bind_some, ymdPy, Option.some.injEq]
  have hk' : 0 ≤ t - t % k ∧ t - t % k < MAXUS ∧ (t - t % k) - (t - t % k) % DAYUS = t - t % DAYUS := by
    unfold DAYUS
    cases u <;> simp only [NpUnit.micros, Option.some.injEq, reduceCtorEq] at hk <;> try (exact absurd rfl hW)
    all_goals subst hk
    all_goals omega
  rw [dropTime_eq _ hk'.1 hk'.2.1, dropTime_eq t h0 h1, hk'.2.2]

theorem numpy_ymd_ns (t : Int)
    (h : -9223372036854775808 < (t - EPOCH) * 1000 ∧ (t - EPOCH) * 1000 < 9223372036854775808) :
    (dtOfNp t .ns).bind ymdPy = some (dropTime t) := by
  rw [(np2dt_roundtrip_ns t h).1]
  simp only [Option.bind_some, ymdPy, Option.some.injEq]
  congr 1; omega
example : dtOfNp 63083133040000050 .ms = some (.datetime 63083133040000000) ∧ dtOfNp 63083133040000050 .D = some (.datetime 63083059200000000)
    ∧ dtOfNp 63083133040000050 .W = some (.datetime 63082713600000000) ∧ dtOfNp 63083133040000050 .M = some (.datetime (mkDate 2000 1 1))
    ∧ dtOfNp 63083133040000050 .ns = some (.stamp 947536240000050000) := by decide +kernel
/-- no `datetime64[ns]` of 2299-12-31 exists (numpy wraps the count around silently): outside "where representable" -/
example : dt64Of (mkDate 2299 12 31) .ns = none := by decide +kernel
/-- a Timestamp between two microseconds is not equal to either datetime (outside the property: `t` is a datetime) -/
example : dtNp ⟨947536240000050001, .ns⟩ = some (.stamp 947536240000050001) ∧ ¬ (PyTime.stamp 947536240000050001).eqDatetime 63083133040000050 := by
  decide +kernel

/-! ### the Gregorian table the clauses above rest on -/

/-- every one of the 146097 ordinals of 1900-01-01 .. 2299-12-31 was evaluated by the kernel (147 chunks, no axioms):
`fromOrd n` is a calendar date whose ordinal is `n` -/
theorem greg_cycle_swept (n : Nat) (h1 : ordMin ≤ n) (h2 : n < ordMax) : chkOrd n = true := sweep_cycle n h1 h2

/-- date → ordinal → date for EVERY date `datetime` represents (years 1..9999): the swept cycle plus 400-year periodicity -/
theorem greg_roundtrip (y m d : Nat) (v : Valid y m d) : fromOrd (ord y m d) = ⟨y, m, d⟩ := fromOrd_ord_all y m d v.toU

/-- ordinal → date → ordinal for every ordinal `1 .. 3652059` -/
theorem greg_roundtrip_ord (n : Nat) (h1 : 1 ≤ n) (h2 : n ≤ 3652059) :
    Valid (fromOrd n).y (fromOrd n).m (fromOrd n).d ∧ ord (fromOrd n).y (fromOrd n).m (fromOrd n).d = n :=
  ord_fromOrd_all n h1 h2

/-- `dt(date)` / the fields of a constructed date: `(t.year, t.month, t.day)` of `datetime(y, m, d)` are `(y, m, d)` -/
theorem fields_of_date (y m d : Nat) (v : Valid y m d) : ymdOf (mkDate y m d) = ⟨y, m, d⟩ := ymdOf_mkDate y m d v

/-! ### ymd() drops the time of day -/

/-- `dt(date)`: the model function of the `datetime.date` branch (`datetime(t.year, t.month, t.day)`, `dtDate`, used by the driver's
`date` op) returns midnight of that date — every date of years 1..9999 -/
theorem dt_of_date (t : Int) (h0 : 0 ≤ t) (h1 : t < MAXUS) (hm : todOf t = 0) : dtDate t = .ok t := by
  unfold dtDate; rw [ymd_drops_time' t h0 h1, hm, Int.sub_zero]

theorem dt_of_date_ymd (y m d : Nat) (v : Valid y m d) : dtDate (mkDate y m d) = .ok (mkDate y m d) := by
  have hr := mkDate_day_in_range y m d v
  refine dt_of_date _ (by omega) (by unfold DAYUS at hr; omega) ?_
  unfold todOf mkDate ofOrd DAYUS; omega

example : dtDate (mkDate 2000 2 29) = .ok (mkDate 2000 2 29) := dt_of_date_ymd 2000 2 29 (by decide)

/-- `ymd(t)` is midnight of the same day, for every representable datetime -/
theorem ymd_drops_time (t : Int) (h0 : 0 ≤ t) (h1 : t < MAXUS) :
    dropTime t = ofOrd (ordOf t) ∧ dropTime t = t - todOf t := by
  have hn : 1 ≤ (ordOf t).toNat ∧ (ordOf t).toNat ≤ 3652059 := by unfold ordOf MAXUS DAYUS at *; omega
  have h := ord_fromOrd_all (ordOf t).toNat hn.1 hn.2
  have e : dropTime t = ofOrd (ordOf t) := by
    unfold dropTime ymdOf mkDate
    simp only [h.2]
    congr 1; unfold ordOf DAYUS at *; omega
  refine ⟨e, ?_⟩
  rw [e]; have := split_t t; omega

example : dropTime 63083133040000050 = 63083059200000000 := by decide +kernel   -- 2000-01-10T20:30:40.000050 -> 2000-01-10

/-! ### round k3: ISO (year-first) text with ANY separator of the quantifier, padded or not; the `'yyyymmdd'` string (reviews t3 §3.2/3.3) -/

/-- `dt('yyyy<s1>m<s2>d[ time]')` — the year first, month and day of one or two digits (padded or not), each separator any of
`-`, `/`, `.`, blank (the two the same, or two different ones neither of which is the `.`: next to another separator a single `.` is a
decimal point for dateutil — not covered), any time suffix — in both dialects: the instant.  `iso_text` is the instance `s1 = s2 = '-'`, two-digit fields. -/
theorem iso_any_sep_text (uk : Bool) (y m d : Nat) (v : Valid y m d) (yy mm dd tm : List Char) (s1 s2 : Char) (hms us : Int)
    (hyy : IsNumeral 4 yy) (hy4 : yy.length = 4) (hmm : IsNumeral 2 mm) (hdd : IsNumeral 2 dd)
    (vy : digitsVal yy = y) (vm : digitsVal mm = m) (vd : digitsVal dd = d)
    (h1 : isDateSep s1 = true) (h2 : isDateSep s2 = true) (hdot : s1 = s2 ∨ (s1 ≠ '.' ∧ s2 ≠ '.')) (ht : TimeText tm hms us) :
    dtCs uk (yy ++ s1 :: (mm ++ s2 :: (dd ++ tm))) = some (checkRange (mkDate y m d + hms + us)) := by
  unfold dtCs
  rw [parse_iso_any_text yy mm dd tm s1 s2 hms us hyy hy4 hmm hdd h1 h2 hdot ht, vy, vm, vd]
  simp only [Option.map_some]
  rw [if_neg ht.nonneg, decide_plain uk y m d v hms us]

/-- the same for `dt(<string>)` itself: the text passes `strip`, the `ambiguity` rewrite and `squeeze` unchanged (a text that starts
with four digits is not a day-month triple) -/
theorem iso_any_sep (uk : Bool) (y m d : Nat) (v : Valid y m d) (yy mm dd tm : List Char) (s1 s2 : Char) (hms us : Int)
    (hyy : IsNumeral 4 yy) (hy4 : yy.length = 4) (hmm : IsNumeral 2 mm) (hdd : IsNumeral 2 dd)
    (vy : digitsVal yy = y) (vm : digitsVal mm = m) (vd : digitsVal dd = d)
    (h1 : isDateSep s1 = true) (h2 : isDateSep s2 = true) (hdot : s1 = s2 ∨ (s1 ≠ '.' ∧ s2 ≠ '.')) (ht : TimeText tm hms us) :
    dtStr uk (String.ofList (yy ++ s1 :: (mm ++ s2 :: (dd ++ tm)))) = some (checkRange (mkDate y m d + hms + us)) := by
  unfold dtStr
  rw [String.toList_ofList, pre_iso_any yy mm dd tm s1 s2 hms us hyy hy4 hmm hdd h1 h2 ht]
  exact iso_any_sep_text uk y m d v yy mm dd tm s1 s2 hms us hyy hy4 hmm hdd vy vm vd h1 h2 hdot ht

/-- the date alone, zero-padded, one separator written twice: `2000/01/13`, `2000.01.13`, `2000 01 13`, `2000-01-13` all equal the date -/
theorem iso_any_sep_date (uk : Bool) (y m d : Nat) (v : Valid y m d) (s : Char) (hs : isDateSep s = true) :
    dtStr uk (String.ofList (pad4 y ++ s :: (pad2 m ++ s :: (pad2 d ++ [])))) = some (.ok (mkDate y m d)) := by
  have hv := v; unfold Valid at hv
  have hb := dim_bounds y m hv.2.2.1 hv.2.2.2.1
  rw [iso_any_sep uk y m d v (pad4 y) (pad2 m) (pad2 d) [] s s 0 0 (isNumeral_pad4 y) rfl (isNumeral_pad2 m) (isNumeral_pad2 d)
    (val_pad4 y (by omega)) (val_pad2 m (by omega)) (val_pad2 d (by omega)) hs hs (Or.inl rfl) TimeText.none]
  simp only [Int.add_zero]; rw [checkRange_mkDate y m d v]

/-- year-first texts are NEVER swapped: when (year, month, day) as written is not a calendar date — month 13, 30 February — the
answer is ValueError in both dialects, whatever the separators (`dt('2000/13/01')` is not 13 January) -/
theorem iso_any_sep_impossible (uk : Bool) (yy mm dd tm : List Char) (s1 s2 : Char) (hms us : Int)
    (hyy : IsNumeral 4 yy) (hy4 : yy.length = 4) (hmm : IsNumeral 2 mm) (hdd : IsNumeral 2 dd)
    (h1 : isDateSep s1 = true) (h2 : isDateSep s2 = true) (hdot : s1 = s2 ∨ (s1 ≠ '.' ∧ s2 ≠ '.')) (ht : TimeText tm hms us)
    (hbad : ¬ Valid (digitsVal yy) (digitsVal mm) (digitsVal dd)) :
    dtStr uk (String.ofList (yy ++ s1 :: (mm ++ s2 :: (dd ++ tm)))) = some (.error .value) := by
  unfold dtStr
  rw [String.toList_ofList, pre_iso_any yy mm dd tm s1 s2 hms us hyy hy4 hmm hdd h1 h2 ht]
  unfold dtCs
  rw [parse_iso_any_text yy mm dd tm s1 s2 hms us hyy hy4 hmm hdd h1 h2 hdot ht]
  simp only [Option.map_some]
  rw [if_neg ht.nonneg]
  have : mkDateChecked (digitsVal yy : Nat) (digitsVal mm : Nat) (digitsVal dd : Nat) = .error .value := by
    unfold mkDateChecked
    rw [if_neg]
    intro h
    apply hbad
    unfold Valid
    simp only [Int.toNat_natCast] at h
    omega
  rw [this]; rfl

/-- `ymd` of such a text is the date -/
theorem ymd_of_iso_any_sep (uk : Bool) (y m d : Nat) (v : Valid y m d) (yy mm dd tm : List Char) (s1 s2 : Char) (hms us : Int)
    (hyy : IsNumeral 4 yy) (hy4 : yy.length = 4) (hmm : IsNumeral 2 mm) (hdd : IsNumeral 2 dd)
    (vy : digitsVal yy = y) (vm : digitsVal mm = m) (vd : digitsVal dd = d)
    (h1 : isDateSep s1 = true) (h2 : isDateSep s2 = true) (hdot : s1 = s2 ∨ (s1 ≠ '.' ∧ s2 ≠ '.')) (ht : TimeText tm hms us) (h0 : 0 ≤ hms + us ∧ hms + us < DAYUS) :
    ymdCs uk (yy ++ s1 :: (mm ++ s2 :: (dd ++ tm))) = some (.ok (mkDate y m d)) := by
  have hm := mkDate_day_in_range y m d v
  apply ymd_of_text uk _ y m d v (hms + us) h0
  rw [iso_any_sep_text uk y m d v yy mm dd tm s1 s2 hms us hyy hy4 hmm hdd vy vm vd h1 h2 hdot ht]
  congr 1; rw [checkRange_ok]; exact ⟨by omega, by omega⟩

example : dtStr true "2000/1/13 10:30" = some (.ok (mkDate 2000 1 13 + 37800000000)) ∧ dtStr false "2000.01.13" = some (.ok (mkDate 2000 1 13))
    ∧ dtStr true "2000 01 13" = some (.ok (mkDate 2000 1 13)) :=
  ⟨eq_of_okView (by decide +kernel), eq_of_okView (by decide +kernel), eq_of_okView (by decide +kernel)⟩
example : dtStr true "2000/13/01" = some (.error .value) ∧ dtStr false "2000.2.30" = some (.error .value) :=
  ⟨eq_of_isValueError (by decide +kernel), eq_of_isValueError (by decide +kernel)⟩

/-- **the `'yyyymmdd'` string** (the clause itself; until now only the midnight arm of `dt2str_roundtrip_str`): for every calendar date
of the years 0001 … 9999 (`Valid`), in both dialects, `dt('yyyymmdd')` — four-digit year, two-digit month and day, no separator —
is the date, and so is `ymd('yyyymmdd')` -/
theorem compact_str (uk : Bool) (y m d : Nat) (v : Valid y m d) :
    dtStr uk (String.ofList (pad4 y ++ pad2 m ++ pad2 d)) = some (.ok (mkDate y m d)) ∧
    ymdCs uk (squeeze (slashes (strip (pad4 y ++ pad2 m ++ pad2 d)))) = some (.ok (mkDate y m d)) := by
  have hv := v; unfold Valid at hv
  have hb := dim_bounds y m hv.2.2.1 hv.2.2.2.1
  have hcs : dtCs uk (pad4 y ++ pad2 m ++ pad2 d) = some (.ok (mkDate y m d)) := by
    unfold dtCs
    rw [parse_compact y m d (by omega) (by omega) (by omega)]
    simp only [Option.map_some]
    rw [if_neg (by omega), decide_plain uk y m d v 0 0]
    simp only [Int.add_zero]; rw [checkRange_mkDate y m d v]
  refine ⟨?_, ?_⟩
  · unfold dtStr; rw [String.toList_ofList, pre_compact]; exact hcs
  · rw [pre_compact]
    have := ymd_of_text uk (pad4 y ++ pad2 m ++ pad2 d) y m d v 0 (by unfold DAYUS; omega) (by simpa using hcs)
    exact this

/-- … and it is the text `dt2str` writes for a date: `dt2str(datetime(y, m, d)) = 'yyyymmdd'` -/
theorem dt2str_of_date (y m d : Nat) (v : Valid y m d) : dt2str (mkDate y m d) = String.ofList (pad4 y ++ pad2 m ++ pad2 d) := by
  unfold dt2str dt2strCs
  have hf := fields_of_date y m d v
  have ht : todOf (mkDate y m d) = 0 := by unfold todOf mkDate ofOrd DAYUS; omega
  simp only [hf, ht]
  rfl

example : dtStr true "20000113" = some (.ok (mkDate 2000 1 13)) ∧ dtStr false "22991231" = some (.ok (mkDate 2299 12 31)) :=
  ⟨(compact_str true 2000 1 13 (by decide)).1, (compact_str false 2299 12 31 (by decide)).1⟩

end Pyg.Props.C04
