/-
  C07 — cmp is a total preorder over mixed types; sort / dictable.sort follow it stably.
  Property theorems only (helper lemmas live in PygProofs/Lemmas).
-/
import PygModel.Sort
import PygProofs.Lemmas.CmpLemmas
import PygProofs.Lemmas.NativeLemmas

namespace Pyg.Props.C07
open Pyg

/-- `cmp` is defined on every pair of values and returns -1, 0 or 1 (the model is a total
function into `Ordering`; `ordInt` is what the driver prints). -/
theorem cmp_total (a b : Val) : ordInt (cmp a b) = -1 ∨ ordInt (cmp a b) = 0 ∨ ordInt (cmp a b) = 1 := by
  cases cmp a b <;> simp [ordInt]

/-- antisymmetry: `cmp(x,y) == -cmp(y,x)` -/
theorem cmp_antisymm (a b : Val) : cmp a b = (cmp b a).swap := cmpN_swap _ _

theorem cmp_antisymm_int (a b : Val) : ordInt (cmp a b) = - ordInt (cmp b a) := by
  rw [cmp_antisymm a b]; cases cmp b a <;> simp [ordInt, Ordering.swap]

theorem cmp_refl (a : Val) : cmp a a = .eq := by
  have h := cmp_antisymm a a
  cases h' : cmp a a <;> rw [h'] at h <;> simp [Ordering.swap] at h ⊢

/-- transitivity of `≤` -/
theorem cmp_trans (a b c : Val) : (cmp a b).isLE → (cmp b c).isLE → (cmp a c).isLE :=
  tri_isLE (cmpN_tri _ _ _)

/-- equality under `cmp` is transitive, and a congruence for the order -/
theorem cmp_eq_trans (a b c : Val) : cmp a b = .eq → cmp b c = .eq → cmp a c = .eq :=
  tri_eq (cmpN_tri _ _ _)

theorem cmp_lt_trans (a b c : Val) : cmp a b = .lt → cmp b c = .lt → cmp a c = .lt := by
  have h := cmpN_tri a.norm b.norm c.norm
  unfold cmp
  revert h
  cases cmpN a.norm b.norm <;> cases cmpN b.norm c.norm <;> cases cmpN a.norm c.norm <;> decide

/-- numerically equal ints and floats compare equal (`flt q` is `q/4`) -/
theorem cmp_int_float (n : Int) : cmp (.cell (.int n)) (.cell (.flt (4 * n))) = .eq := by
  simp [cmp, Val.norm, cmpN, Cell.cmp, Cell.cmpSame, Cell.rank, Cell.num, Cell.skey]

/-- NaN ranks above every finite number -/
theorem nan_top_int (n : Int) : cmp (.cell (.int n)) (.cell .nan) = .lt := rfl

theorem nan_top_flt (q : Int) : cmp (.cell (.flt q)) (.cell .nan) = .lt := rfl

/-- two NaNs are equal under `cmp` whatever their identity (identity is not in the model) -/
theorem nan_eq_nan : cmp (.cell .nan) (.cell .nan) = .eq := cmp_refl _

/-- two empty dicts compare equal (the unrepaired code raised here, finding F2) -/
theorem empty_dict : cmp (.dict []) (.dict []) = .eq := cmp_refl _

theorem cmpLe_trans (a b c : Val) : cmpLe a b = true → cmpLe b c = true → cmpLe a c = true :=
  cmp_trans a b c

theorem cmpLe_total (a b : Val) : (cmpLe a b || cmpLe b a) = true := by
  unfold cmpLe; rw [cmp_antisymm a b]; cases cmp b a <;> decide

/-! ### sort -/

theorem sort_perm (xs : List Val) : (sort xs).Perm xs := List.mergeSort_perm xs cmpLe

theorem sort_sorted (xs : List Val) : (sort xs).Pairwise (fun a b => cmpLe a b = true) :=
  List.pairwise_mergeSort cmpLe_trans cmpLe_total xs

/-- stability: elements that are `≤` keep their relative order -/
theorem sort_stable (xs : List Val) (a b : Val) (hab : cmpLe a b = true)
    (h : [a, b].Sublist xs) : [a, b].Sublist (sort xs) :=
  List.pair_sublist_mergeSort cmpLe_trans cmpLe_total hab h

/-- more generally every already-ordered sub-sequence survives in order -/
theorem sort_stable_sublist (xs c : List Val) (hc : c.Pairwise (fun a b => cmpLe a b = true))
    (h : c.Sublist xs) : c.Sublist (sort xs) :=
  List.sublist_mergeSort cmpLe_trans cmpLe_total hc h

theorem sort_idem (xs : List Val) : sort (sort xs) = sort xs :=
  List.mergeSort_of_pairwise (sort_sorted xs)

/-- a list that is already non-decreasing is returned unchanged -/
theorem sort_of_sorted (xs : List Val) (h : xs.Pairwise (fun a b => cmpLe a b = true)) :
    sort xs = xs := List.mergeSort_of_pairwise h

/-! ### native order vs cmp (`sort` tries `sorted(values)` first) -/

/-- wherever python's own `<`/`>` is defined between two bool-free scalars (same kind, or int against float, NaN excluded:
`Cell.native` is `none` where python raises TypeError) it gives exactly the outcome of `cmp`.  Hence a native `sorted()`
that does not raise and the `Cmp`-keyed fallback order such values alike. -/
theorem native_agrees (a b : Cell) (ha : a.isBool = false) (hb : b.isBool = false) (o : Ordering)
    (h : a.native b = some o) : cmp (.cell a) (.cell b) = o := Cell.native_agrees a b ha hb o h

/-- the same for equal-length tuples of bool-free scalars (python compares tuples by their first `!=` pair; `cmp` compares
type, length, then `cmparr`): this covers the `(key..., row number)` tuples that `dictable.sort` / `_listby` sort natively -/
theorem native_agrees_tuple (xs ys : List Cell) (hlen : xs.length = ys.length)
    (hx : ∀ c ∈ xs, c.isBool = false) (hy : ∀ c ∈ ys, c.isBool = false) (o : Ordering)
    (h : nativeArr xs ys = some o) :
    cmp (.tuple (xs.map .cell)) (.tuple (ys.map .cell)) = o := by
  simp only [cmp, Val.norm, normList_map_cell, cmpN, List.length_map, hlen]
  have : compare ys.length ys.length = .eq := by simp
  rw [this]
  exact cmpArr_cells_native xs ys hlen hx hy o h

/-- bools are where the two orders part (`True` is `1` natively, `cmp` ranks bools below all numbers): the reason why
bools take part in the cmp laws only -/
theorem native_differs_on_bool :
    (Cell.bool true).native (.flt 2) = some .gt ∧ cmp (.cell (.bool true)) (.cell (.flt 2)) = .lt := by decide

/-! ### dictable.sort: decorate with the row index, sort, undecorate -/

theorem cmp_keyId (a b : Val × Nat) :
    cmp (keyId a) (keyId b) = (cmp a.1 b.1).then (compare a.2 b.2) := by
  obtain ⟨ka, ia⟩ := a; obtain ⟨kb, ib⟩ := b
  simp only [keyId, cmp, Val.norm, normList, cmpN, cmpArr, Cell.cmp,
    Cell.cmpSame, Cell.rank, Cell.num, Cell.skey]
  have : compare (4 * (ia : Int)) (4 * (ib : Int)) = compare ia ib := by
    cases h : compare ia ib
    · rw [Nat.compare_eq_lt] at h; rw [Int.compare_eq_lt]; omega
    · rw [Nat.compare_eq_eq] at h; rw [Int.compare_eq_eq]; omega
    · rw [Nat.compare_eq_gt] at h; rw [Int.compare_eq_gt]; omega
  rw [this]
  cases cmpN ka.norm kb.norm <;> cases compare ia ib <;> rfl

theorem keyId_le (a b : Val × Nat) :
    cmpLe (keyId a) (keyId b) = List.zipIdxLE cmpLe a b := by
  have hs := cmp_antisymm b.1 a.1
  unfold List.zipIdxLE cmpLe
  rw [cmp_keyId, hs]
  cases h : cmp a.1 b.1 <;> simp [Ordering.swap, Ordering.then]
  cases h2 : compare a.2 b.2
  · rw [Nat.compare_eq_lt] at h2; simp; omega
  · rw [Nat.compare_eq_eq] at h2; simp; omega
  · rw [Nat.compare_eq_gt] at h2; simp; omega

/-- the keys in sorted-row order are the stable sort of the keys -/
theorem sortIdx_keys (keys : List Val) :
    ((keys.zipIdx.mergeSort (fun a b => cmpLe (keyId a) (keyId b))).map (·.1)) = sort keys := by
  have : (fun a b : Val × Nat => cmpLe (keyId a) (keyId b)) = List.zipIdxLE cmpLe := by
    funext a b; exact keyId_le a b
  rw [this]; exact List.mergeSort_zipIdx

/-- the row permutation of `dictable.sort` is a permutation of `0..n-1` -/
theorem sortIdx_perm (keys : List Val) : (sortIdx keys).Perm (List.range keys.length) := by
  unfold sortIdx
  have h := (List.mergeSort_perm keys.zipIdx (fun a b => cmpLe (keyId a) (keyId b))).map (·.2)
  refine h.trans ?_
  rw [List.zipIdx_map_snd]
  simp [List.range_eq_range']

/-- every sorted row index points at the key it was sorted by: the keys read in sorted-row
order are exactly the stable sort of the keys -/
theorem sortIdx_gather (keys : List Val) :
    (sortIdx keys).map (fun i => keys[i]?) = (sort keys).map some := by
  rw [← sortIdx_keys]
  unfold sortIdx
  simp only [List.map_map]
  apply List.map_congr_left
  intro p hp
  have hp' : p ∈ keys.zipIdx := (List.mergeSort_perm _ _).mem_iff.1 hp
  simpa using List.mem_zipIdx_iff_getElem?.1 hp'

/-- `dictable.sort` orders the rows by key and ties keep the original order: for any two
positions of the result, the earlier row's key is strictly smaller under `cmp`, or the keys
are `cmp`-equal and the earlier row also came first in the input. -/
theorem sortIdx_ordered (keys : List Val) :
    (sortIdx keys).Pairwise (fun a b => ∃ ka kb, keys[a]? = some ka ∧ keys[b]? = some kb ∧
      (cmp ka kb = .lt ∨ (cmp ka kb = .eq ∧ a < b))) := by
  have hle : (fun a b : Val × Nat => cmpLe (keyId a) (keyId b)) = List.zipIdxLE cmpLe := by
    funext a b; exact keyId_le a b
  have hnd : (sortIdx keys).Pairwise (· ≠ ·) :=
    ((sortIdx_perm keys).nodup_iff.2 List.nodup_range)
  unfold sortIdx at *
  rw [hle] at *
  have hs := List.pairwise_mergeSort (le := List.zipIdxLE cmpLe)
    (List.zipIdxLE_trans cmpLe_trans) (List.zipIdxLE_total cmpLe_total) keys.zipIdx
  rw [List.pairwise_map] at hnd ⊢
  have hmem : ∀ p ∈ keys.zipIdx.mergeSort (List.zipIdxLE cmpLe), keys[p.2]? = some p.1 := by
    intro p hp
    exact List.mem_zipIdx_iff_getElem?.1 ((List.mergeSort_perm _ _).mem_iff.1 hp)
  refine ((hs.and hnd).imp_of_mem ?_)
  intro a b ha hb ⟨hab, hne⟩
  refine ⟨a.1, b.1, hmem a ha, hmem b hb, ?_⟩
  have hsw := cmp_antisymm b.1 a.1
  simp only [List.zipIdxLE] at hab
  split at hab
  · rename_i h1
    split at hab
    · rename_i h2
      simp only [cmpLe] at h1 h2
      rw [hsw] at h2
      have hab' : a.2 ≤ b.2 := by simpa using hab
      cases h : cmp a.1 b.1 <;> simp [h, Ordering.swap] at h1 h2 ⊢
      omega
    · rename_i h2
      simp only [cmpLe] at h1 h2
      rw [hsw] at h2
      cases h : cmp a.1 b.1 <;> simp [h, Ordering.swap] at h1 h2 ⊢
  · simp at hab

/-- the statement "a stable permutation of the rows ordered by the keys" determines the result:
ANY permutation of the row numbers that is ordered by key with ties in original order is the
one the model returns.  (So nothing is assumed about the sorting algorithm the code uses.) -/
theorem sortIdx_unique (keys : List Val) (l : List Nat) (hp : l.Perm (List.range keys.length))
    (hs : l.Pairwise (fun a b => ∃ ka kb, keys[a]? = some ka ∧ keys[b]? = some kb ∧
      (cmp ka kb = .lt ∨ (cmp ka kb = .eq ∧ a < b)))) : l = sortIdx keys := by
  refine List.Perm.eq_of_pairwise ?_ hs (sortIdx_ordered keys) (hp.trans (sortIdx_perm keys).symm)
  rintro a b _ _ ⟨ka, kb, ha, hb, h1⟩ ⟨kb', ka', hb', ha', h2⟩
  rw [hb] at hb'; rw [ha] at ha'
  cases hb'; cases ha'
  have hsw := cmp_antisymm kb ka
  rcases h1 with h1 | ⟨h1, h1'⟩ <;> rcases h2 with h2 | ⟨h2, h2'⟩ <;>
    simp [hsw, h1, Ordering.swap] at h2
  omega

/-- idempotence: sorting a table that is already in sorted order leaves every row in place -/
theorem sortIdx_idem (keys : List Val) (h : keys.Pairwise (fun a b => cmpLe a b = true)) :
    sortIdx keys = List.range keys.length := by
  have hle : (fun a b : Val × Nat => cmpLe (keyId a) (keyId b)) = List.zipIdxLE cmpLe := by
    funext a b; exact keyId_le a b
  unfold sortIdx
  rw [hle, List.mergeSort_of_pairwise, List.zipIdx_map_snd]
  · simp [List.range_eq_range']
  · rw [List.pairwise_iff_getElem] at h ⊢
    intro i j hi hj hij
    simp only [List.length_zipIdx] at hi hj
    have := h i j hi hj hij
    simp only [List.getElem_zipIdx, List.zipIdxLE, this, if_true]
    split <;> simp <;> omega

/-- idempotence as the property states it: sorting the sorted table again moves no row.
(`(sortIdx keys).map (keys[·])` is the key column of the sorted table.) -/
theorem sortIdx_twice (keys : List Val) :
    sortIdx ((sortIdx keys).map fun i => keys[i]?.getD default) = List.range keys.length := by
  have h := sortIdx_gather keys
  have h2 : ((sortIdx keys).map fun i => keys[i]?.getD default) = sort keys := by
    have := congrArg (List.map (fun o : Option Val => o.getD default)) h
    simpa [List.map_map, Function.comp_def] using this
  rw [h2, sortIdx_idem (sort keys) (sort_sorted keys), (sort_perm keys).length_eq]

/-! ### explicit value orders (`dictable.sort(col = [v0, v1, ...])`) -/

theorem lastIdxFrom_none (vals : List Cell) (x : Cell) (k : Nat) (h : ∀ v ∈ vals, v.pyEq x = false) :
    lastIdxFrom k vals x = Option.none := by
  induction vals generalizing k with
  | nil => rfl
  | cons v vs ih =>
    simp only [lastIdxFrom, ih (k + 1) (fun w hw => h w (List.mem_cons_of_mem _ hw)), h v (List.mem_cons_self ..)]
    simp

theorem lastIdxFrom_ge (vals : List Cell) (x : Cell) (k j : Nat) (h : lastIdxFrom k vals x = some j) :
    k ≤ j ∧ j < k + vals.length := by
  induction vals generalizing k with
  | nil => simp [lastIdxFrom] at h
  | cons v vs ih =>
    simp only [lastIdxFrom] at h
    cases h' : lastIdxFrom (k + 1) vs x with
    | some j' =>
      rw [h'] at h; simp at h; subst h
      have := ih (k + 1) h'; simp; omega
    | none =>
      rw [h'] at h
      by_cases hv : v.pyEq x = true
      · simp [hv] at h; subst h; simp
      · simp [hv] at h

/-- a listed value gets the position of its LAST occurrence as sort rank (for an order without repeats: its position) -/
theorem byvalRank_listed (vals : List Cell) (i : Nat) (hi : i < vals.length)
    (hrefl : vals[i].pyEq vals[i] = true)
    (hlast : ∀ j, i < j → (hj : j < vals.length) → vals[j].pyEq vals[i] = false) :
    byvalRank vals vals[i] = i := by
  suffices h : ∀ (vs : List Cell) (k i : Nat) (hi : i < vs.length) (x : Cell), vs[i].pyEq x = true →
      (∀ j, i < j → (hj : j < vs.length) → vs[j].pyEq x = false) → lastIdxFrom k vs x = some (k + i) by
    unfold byvalRank lastIdx?
    rw [h vals 0 i hi vals[i] hrefl hlast]; simp
  intro vs
  induction vs with
  | nil => intro k i hi; simp at hi
  | cons v vs ih =>
    intro k i hi x hx hl
    cases i with
    | zero =>
      have hn : lastIdxFrom (k + 1) vs x = Option.none := by
        apply lastIdxFrom_none
        intro w hw
        obtain ⟨n, hn, rfl⟩ := List.getElem_of_mem hw
        have := hl (n + 1) (by omega) (by simp; omega)
        simpa using this
      simp only [lastIdxFrom, hn]
      simp at hx; simp [hx]
    | succ i =>
      have hi' : i < vs.length := by simpa using hi
      have := ih (k + 1) i hi' x (by simpa using hx) (fun j hj hjl => by
        have := hl (j + 1) (by omega) (by simp; omega); simpa using this)
      simp only [lastIdxFrom, this]
      congr 1; omega

/-- an unlisted value gets the number of DISTINCT listed values as rank -/
theorem byvalRank_unlisted (vals : List Cell) (x : Cell) (h : ∀ v ∈ vals, v.pyEq x = false) :
    byvalRank vals x = (dedupPy vals).length := by
  unfold byvalRank lastIdx?
  rw [lastIdxFrom_none vals x 0 h]

theorem dedupPy_of_distinct (vals : List Cell) (h : vals.Pairwise (fun a b => a.pyEq b = false)) :
    dedupPy vals = vals := by
  induction vals with
  | nil => rfl
  | cons v vs ih =>
    rw [List.pairwise_cons] at h
    simp only [dedupPy, ih h.2]
    congr 1
    rw [List.filter_eq_self]
    intro w hw; simp [h.1 w hw]

/-- "unlisted ones last": for a value order without repeats every listed value ranks strictly below every unlisted one -/
theorem byval_unlisted_last (vals : List Cell) (hd : vals.Pairwise (fun a b => a.pyEq b = false))
    (x y : Cell) (hx : ∃ v ∈ vals, v.pyEq x = true) (hy : ∀ v ∈ vals, v.pyEq y = false) :
    byvalRank vals x < byvalRank vals y := by
  rw [byvalRank_unlisted vals y hy, dedupPy_of_distinct vals hd]
  unfold byvalRank lastIdx?
  cases h : lastIdxFrom 0 vals x with
  | some j => have := lastIdxFrom_ge vals x 0 j h; simp; omega
  | none =>
    obtain ⟨v, hv, hvx⟩ := hx
    exfalso
    clear hy hd
    suffices hh : ∀ (vs : List Cell) (k : Nat), v ∈ vs → lastIdxFrom k vs x ≠ Option.none from hh vals 0 hv h
    intro vs
    induction vs with
    | nil => intro k hv; simp at hv
    | cons w ws ih =>
      intro k hv hnone
      simp only [lastIdxFrom] at hnone
      cases hw : lastIdxFrom (k + 1) ws x with
      | some j => rw [hw] at hnone; simp at hnone
      | none =>
        rw [hw] at hnone
        rcases List.mem_cons.1 hv with rfl | hv'
        · simp [hvx] at hnone
        · exact ih (k + 1) hv' hw

/-- on single-column rank keys `cmp` is the order of the ranks, so rows sort by rank: listed
values in the given order, unlisted last, ties in original order (by `sortIdx_ordered`) -/
theorem cmp_rankKey (a b : Nat) :
    cmp (.list [.cell (.int a)]) (.list [.cell (.int b)]) = compare a b := by
  have h := cmp_keyId (.list [], a) (.list [], b)
  have : compare (4 * (a : Int)) (4 * (b : Int)) = compare a b := by
    cases h : compare a b
    · rw [Nat.compare_eq_lt] at h; rw [Int.compare_eq_lt]; omega
    · rw [Nat.compare_eq_eq] at h; rw [Int.compare_eq_eq]; omega
    · rw [Nat.compare_eq_gt] at h; rw [Int.compare_eq_gt]; omega
  simp only [cmp, Val.norm, normList, cmpN, cmpArr, Cell.cmp, Cell.cmpSame, Cell.rank, Cell.num,
    Cell.skey, this]
  cases compare a b <;> rfl

/-- explicit value orders, composed: in the result of `d.sort(col = vals)` the ranks of the rows are non-decreasing, and rows of
equal rank keep their original order; together with `byvalRank_listed` / `byval_unlisted_last` this is "listed values in
the given order, unlisted ones last, ties in original order". -/
theorem byval_sorted (vals : List Cell) (col : List Cell) :
    (sortIdx (col.map fun x => byvalKey [vals] [x])).Pairwise (fun a b =>
      ∃ xa xb, col[a]? = some xa ∧ col[b]? = some xb ∧
        (byvalRank vals xa < byvalRank vals xb ∨ (byvalRank vals xa = byvalRank vals xb ∧ a < b))) := by
  refine (sortIdx_ordered (col.map fun x => byvalKey [vals] [x])).imp ?_
  rintro a b ⟨ka, kb, ha, hb, h⟩
  simp only [List.getElem?_map, Option.map_eq_some_iff] at ha hb
  obtain ⟨xa, hxa, rfl⟩ := ha
  obtain ⟨xb, hxb, rfl⟩ := hb
  refine ⟨xa, xb, hxa, hxb, ?_⟩
  have hk : ∀ x, byvalKey [vals] [x] = .list [.cell (.int (byvalRank vals x))] := by
    intro x; simp [byvalKey]
  rw [hk, hk, cmp_rankKey] at h
  rcases h with h | ⟨h, hlt⟩
  · left; exact Nat.compare_eq_lt.1 h
  · right; exact ⟨Nat.compare_eq_eq.1 h, hlt⟩

/-! ### non-vacuity: concrete mixed-type values -/

example : cmp (.cell (.str "2")) (.cell (.int 2)) = .gt := by decide
example : cmp (.cell .none) (.cell (.flt 8)) = .lt := by decide
example : cmp (.list [.cell (.int 1), .cell (.int 2), .cell (.int 3)])
    (.list [.cell (.int 4), .cell (.int 5)]) = .gt := by decide
example : cmp (.dict [("a", .cell (.int 1)), ("b", .cell (.int 2))])
    (.dict [("b", .cell (.int 2)), ("a", .cell (.int 1))]) = .eq := by decide
example : cmp (.dict [("a", .cell (.int 1)), ("b", .cell (.int 2))])
    (.dict [("a", .cell (.int 1)), ("c", .cell (.int 2))]) = .lt := by decide
/-- the hypotheses of `sort_stable` are satisfiable on mixed-type data -/
example : cmpLe (.cell (.int 1)) (.cell (.flt 4)) = true ∧
    [.cell (.int 1), .cell (.flt 4)].Sublist
      [Val.cell (.str "x"), .cell (.int 1), .cell .none, .cell (.flt 4)] := by decide

/-- the hypothesis of `sortIdx_idem` is satisfiable on a mixed-type key column -/
example : [Val.cell .none, .cell (.int 1), .cell (.flt 4), .cell .nan, .cell (.str "a")].Pairwise
    (fun a b => cmpLe a b = true) := by decide

-- evaluation tests (tests, not theorems: `List.mergeSort` is defined by well-founded recursion
-- and does not reduce in the kernel)
#guard sort [.cell (.flt 8), .cell .nan, .cell (.int 1), .cell .none] ==
    [.cell .none, .cell (.int 1), .cell (.flt 8), .cell .nan]
#guard sortIdx [.cell (.str "b"), .cell (.int 1), .cell (.str "a"), .cell (.flt 4)] == [1, 3, 2, 0]

end Pyg.Props.C07
