/-
  C07 — cmp is a total preorder over mixed types; sort / dictable.sort follow it stably.
  Property theorems only (helper lemmas live in PygProofs/Lemmas).
-/
import PygModel.Sort
import PygProofs.Lemmas.CmpLemmas
import PygProofs.Lemmas.NativeLemmas
import PygModel.SortTable
import PygModel.SortCode

namespace Pyg.Props.C07
open Pyg

/-- `cmp` is defined on every pair of values and returns -1, 0 or 1 (the model is a total
function into `Ordering`; `ordInt` is what the driver prints). -/
theorem cmp_total (a b : Val) : ordInt (cmp a b) = -1 ∨ ordInt (cmp a b) = 0 ∨ ordInt (cmp a b) = 1 := by
  cases cmp a b <;> simp [ordInt]

/-- antisymmetry: `cmp(x,y) == -cmp(y,x)` -/
theorem cmp_antisymm (a b : Val) : cmp a b = (cmp b a).swap := cmpN_swap _ _

theorem cmp_antisymm_int (a b : Val) : ordInt (cmp a b) = - ordInt (cmp b a) := by
  rw [cmp_antisymm a b]; cases cmp b a <;> simp [ordInt, Ordering.swap]

theorem cmp_refl (a : Val) : cmp a a = .eq := by
  have h := cmp_antisymm a a
  cases h' : cmp a a <;> rw [h'] at h <;> simp [Ordering.swap] at h ⊢

/-- transitivity of `≤` -/
theorem cmp_trans (a b c : Val) : (cmp a b).isLE → (cmp b c).isLE → (cmp a c).isLE :=
  tri_isLE (cmpN_tri _ _ _)

/-- equality under `cmp` is transitive, and a congruence for the order -/
theorem cmp_eq_trans (a b c : Val) : cmp a b = .eq → cmp b c = .eq → cmp a c = .eq :=
  tri_eq (cmpN_tri _ _ _)

theorem cmp_lt_trans (a b c : Val) : cmp a b = .lt → cmp b c = .lt → cmp a c = .lt := by
  have h := cmpN_tri a.norm b.norm c.norm
  unfold cmp
  revert h
  cases cmpN a.norm b.norm <;> cases cmpN b.norm c.norm <;> cases cmpN a.norm c.norm <;> decide

/-- numerically equal ints and floats compare equal (`flt q` is `q/4`) -/
theorem cmp_int_float (n : Int) : cmp (.cell (.int n)) (.cell (.flt (4 * n))) = .eq := by
  simp [cmp, Val.norm, cmpN, Cell.cmp, Cell.cmpSame, Cell.rank, Cell.num, Cell.skey]

/-- NaN ranks above every finite number -/
theorem nan_top_int (n : Int) : cmp (.cell (.int n)) (.cell .nan) = .lt := rfl

theorem nan_top_flt (q : Int) : cmp (.cell (.flt q)) (.cell .nan) = .lt := rfl

/-- two NaNs are equal under `cmp` whatever their identity (identity is not in the model) -/
theorem nan_eq_nan : cmp (.cell .nan) (.cell .nan) = .eq := cmp_refl _

/-- two empty dicts compare equal (the unrepaired code raised here, finding F2) -/
theorem empty_dict : cmp (.dict []) (.dict []) = .eq := cmp_refl _

theorem cmpLe_trans (a b c : Val) : cmpLe a b = true → cmpLe b c = true → cmpLe a c = true :=
  cmp_trans a b c

theorem cmpLe_total (a b : Val) : (cmpLe a b || cmpLe b a) = true := by
  unfold cmpLe; rw [cmp_antisymm a b]; cases cmp b a <;> decide

/-! ### sort -/

theorem sort_perm (xs : List Val) : (sort xs).Perm xs := List.mergeSort_perm xs cmpLe

theorem sort_sorted (xs : List Val) : (sort xs).Pairwise (fun a b => cmpLe a b = true) :=
  List.pairwise_mergeSort cmpLe_trans cmpLe_total xs

/-- stability: elements that are `≤` keep their relative order -/
theorem sort_stable (xs : List Val) (a b : Val) (hab : cmpLe a b = true)
    (h : [a, b].Sublist xs) : [a, b].Sublist (sort xs) :=
  List.pair_sublist_mergeSort cmpLe_trans cmpLe_total hab h

/-- more generally every already-ordered sub-sequence survives in order -/
theorem sort_stable_sublist (xs c : List Val) (hc : c.Pairwise (fun a b => cmpLe a b = true))
    (h : c.Sublist xs) : c.Sublist (sort xs) :=
  List.sublist_mergeSort cmpLe_trans cmpLe_total hc h

theorem sort_idem (xs : List Val) : sort (sort xs) = sort xs :=
  List.mergeSort_of_pairwise (sort_sorted xs)

/-- a list that is already non-decreasing is returned unchanged -/
theorem sort_of_sorted (xs : List Val) (h : xs.Pairwise (fun a b => cmpLe a b = true)) :
    sort xs = xs := List.mergeSort_of_pairwise h

/-! ### native order vs cmp (`sort` tries `sorted(values)` first) -/

/-- wherever python's own `<`/`>` is defined between two bool-free scalars (same kind, or int against float, NaN excluded:
`Cell.native` is `none` where python raises TypeError) it gives exactly the outcome of `cmp`.  Hence a native `sorted()`
that does not raise and the `Cmp`-keyed fallback order such values alike. -/
theorem native_agrees (a b : Cell) (ha : a.isBool = false) (hb : b.isBool = false) (o : Ordering)
    (h : a.native b = some o) : cmp (.cell a) (.cell b) = o := Cell.native_agrees a b ha hb o h

/-- the same for equal-length tuples of bool-free scalars (python compares tuples by their first `!=` pair; `cmp` compares
type, length, then `cmparr`).  FLAT tuples only; the nested `((k0, .., kn), i)` tuples that `dictable.sort` / `_listby` hand to
`sorted()` are `native_agrees_keyId` below -/
theorem native_agrees_tuple (xs ys : List Cell) (hlen : xs.length = ys.length)
    (hx : ∀ c ∈ xs, c.isBool = false) (hy : ∀ c ∈ ys, c.isBool = false) (o : Ordering)
    (h : nativeArr xs ys = some o) :
    cmp (.tuple (xs.map .cell)) (.tuple (ys.map .cell)) = o := by
  simp only [cmp, Val.norm, normList_map_cell, cmpN, List.length_map, hlen]
  have : compare ys.length ys.length = .eq := by simp
  rw [this]
  exact cmpArr_cells_native xs ys hlen hx hy o h

/-- bools are where the two orders part (`True` is `1` natively, `cmp` ranks bools below all numbers): the reason why
bools take part in the cmp laws only -/
theorem native_differs_on_bool :
    (Cell.bool true).native (.flt 2) = some .gt ∧ cmp (.cell (.bool true)) (.cell (.flt 2)) = .lt := by decide

/-! ### dictable.sort: decorate with the row index, sort, undecorate -/

theorem cmp_keyId (a b : Val × Nat) :
    cmp (keyId a) (keyId b) = (cmp a.1 b.1).then (compare a.2 b.2) := by
  obtain ⟨ka, ia⟩ := a; obtain ⟨kb, ib⟩ := b
  simp only [keyId, cmp, Val.norm, normList, cmpN, cmpArr, Cell.cmp,
    Cell.cmpSame, Cell.rank, Cell.num, Cell.skey]
  have : compare (4 * (ia : Int)) (4 * (ib : Int)) = compare ia ib := by
    cases h : compare ia ib
    · rw [Nat.compare_eq_lt] at h; rw [Int.compare_eq_lt]; omega
    · rw [Nat.compare_eq_eq] at h; rw [Int.compare_eq_eq]; omega
    · rw [Nat.compare_eq_gt] at h; rw [Int.compare_eq_gt]; omega
  rw [this]
  cases cmpN ka.norm kb.norm <;> cases compare ia ib <;> rfl

theorem keyId_le (a b : Val × Nat) :
    cmpLe (keyId a) (keyId b) = List.zipIdxLE cmpLe a b := by
  have hs := cmp_antisymm b.1 a.1
  unfold List.zipIdxLE cmpLe
  rw [cmp_keyId, hs]
  cases h : cmp a.1 b.1 <;> simp [Ordering.swap, Ordering.then]
  cases h2 : compare a.2 b.2
  · rw [Nat.compare_eq_lt] at h2; simp; omega
  · rw [Nat.compare_eq_eq] at h2; simp; omega
  · rw [Nat.compare_eq_gt] at h2; simp; omega

/-- the keys in sorted-row order are the stable sort of the keys -/
theorem sortIdx_keys (keys : List Val) :
    ((keys.zipIdx.mergeSort (fun a b => cmpLe (keyId a) (keyId b))).map (·.1)) = sort keys := by
  have : (fun a b : Val × Nat => cmpLe (keyId a) (keyId b)) = List.zipIdxLE cmpLe := by
    funext a b; exact keyId_le a b
  rw [this]; exact List.mergeSort_zipIdx

/-- the row permutation of `dictable.sort` is a permutation of `0..n-1` -/
theorem sortIdx_perm (keys : List Val) : (sortIdx keys).Perm (List.range keys.length) := by
  unfold sortIdx
  have h := (List.mergeSort_perm keys.zipIdx (fun a b => cmpLe (keyId a) (keyId b))).map (·.2)
  refine h.trans ?_
  rw [List.zipIdx_map_snd]
  simp [List.range_eq_range']

/-- every sorted row index points at the key it was sorted by: the keys read in sorted-row
order are exactly the stable sort of the keys -/
theorem sortIdx_gather (keys : List Val) :
    (sortIdx keys).map (fun i => keys[i]?) = (sort keys).map some := by
  rw [← sortIdx_keys]
  unfold sortIdx
  simp only [List.map_map]
  apply List.map_congr_left
  intro p hp
  have hp' : p ∈ keys.zipIdx := (List.mergeSort_perm _ _).mem_iff.1 hp
  simpa using List.mem_zipIdx_iff_getElem?.1 hp'

/-- `dictable.sort` orders the rows by key and ties keep the original order: for any two
positions of the result, the earlier row's key is strictly smaller under `cmp`, or the keys
are `cmp`-equal and the earlier row also came first in the input. -/
theorem sortIdx_ordered (keys : List Val) :
    (sortIdx keys).Pairwise (fun a b => ∃ ka kb, keys[a]? = some ka ∧ keys[b]? = some kb ∧
      (cmp ka kb = .lt ∨ (cmp ka kb = .eq ∧ a < b))) := by
  have hle : (fun a b : Val × Nat => cmpLe (keyId a) (keyId b)) = List.zipIdxLE cmpLe := by
    funext a b; exact keyId_le a b
  have hnd : (sortIdx keys).Pairwise (· ≠ ·) :=
    ((sortIdx_perm keys).nodup_iff.2 List.nodup_range)
  unfold sortIdx at *
  rw [hle] at *
  have hs := List.pairwise_mergeSort (le := List.zipIdxLE cmpLe)
    (List.zipIdxLE_trans cmpLe_trans) (List.zipIdxLE_total cmpLe_total) keys.zipIdx
  rw [List.pairwise_map] at hnd ⊢
  have hmem : ∀ p ∈ keys.zipIdx.mergeSort (List.zipIdxLE cmpLe), keys[p.2]? = some p.1 := by
    intro p hp
    exact List.mem_zipIdx_iff_getElem?.1 ((List.mergeSort_perm _ _).mem_iff.1 hp)
  refine ((hs.and hnd).imp_of_mem ?_)
  intro a b ha hb ⟨hab, hne⟩
  refine ⟨a.1, b.1, hmem a ha, hmem b hb, ?_⟩
  have hsw := cmp_antisymm b.1 a.1
  simp only [List.zipIdxLE] at hab
  split at hab
  · rename_i h1
    split at hab
    · rename_i h2
      simp only [cmpLe] at h1 h2
      rw [hsw] at h2
      have hab' : a.2 ≤ b.2 := by simpa using hab
      cases h : cmp a.1 b.1 <;> simp [h, Ordering.swap] at h1 h2 ⊢
      omega
    · rename_i h2
      simp only [cmpLe] at h1 h2
      rw [hsw] at h2
      cases h : cmp a.1 b.1 <;> simp [h, Ordering.swap] at h1 h2 ⊢
  · simp at hab

/-- the statement "a stable permutation of the rows ordered by the keys" determines the result:
ANY permutation of the row numbers that is ordered by key with ties in original order is the
one the model returns.  (So nothing is assumed about the sorting algorithm the code uses.) -/
theorem sortIdx_unique (keys : List Val) (l : List Nat) (hp : l.Perm (List.range keys.length))
    (hs : l.Pairwise (fun a b => ∃ ka kb, keys[a]? = some ka ∧ keys[b]? = some kb ∧
      (cmp ka kb = .lt ∨ (cmp ka kb = .eq ∧ a < b)))) : l = sortIdx keys := by
  refine List.Perm.eq_of_pairwise ?_ hs (sortIdx_ordered keys) (hp.trans (sortIdx_perm keys).symm)
  rintro a b _ _ ⟨ka, kb, ha, hb, h1⟩ ⟨kb', ka', hb', ha', h2⟩
  rw [hb] at hb'; rw [ha] at ha'
  cases hb'; cases ha'
  have hsw := cmp_antisymm kb ka
  rcases h1 with h1 | ⟨h1, h1'⟩ <;> rcases h2 with h2 | ⟨h2, h2'⟩ <;>
    simp [hsw, h1, Ordering.swap] at h2
  omega

/-- idempotence: sorting a table that is already in sorted order leaves every row in place -/
theorem sortIdx_idem (keys : List Val) (h : keys.Pairwise (fun a b => cmpLe a b = true)) :
    sortIdx keys = List.range keys.length := by
  have hle : (fun a b : Val × Nat => cmpLe (keyId a) (keyId b)) = List.zipIdxLE cmpLe := by
    funext a b; exact keyId_le a b
  unfold sortIdx
  rw [hle, List.mergeSort_of_pairwise, List.zipIdx_map_snd]
  · simp [List.range_eq_range']
  · rw [List.pairwise_iff_getElem] at h ⊢
    intro i j hi hj hij
    simp only [List.length_zipIdx] at hi hj
    have := h i j hi hj hij
    simp only [List.getElem_zipIdx, List.zipIdxLE, this, if_true]
    split <;> simp <;> omega

/-- idempotence as the property states it: sorting the sorted table again moves no row.
(`(sortIdx keys).map (keys[·])` is the key column of the sorted table.) -/
theorem sortIdx_twice (keys : List Val) :
    sortIdx ((sortIdx keys).map fun i => keys[i]?.getD default) = List.range keys.length := by
  have h := sortIdx_gather keys
  have h2 : ((sortIdx keys).map fun i => keys[i]?.getD default) = sort keys := by
    have := congrArg (List.map (fun o : Option Val => o.getD default)) h
    simpa [List.map_map, Function.comp_def] using this
  rw [h2, sortIdx_idem (sort keys) (sort_sorted keys), (sort_perm keys).length_eq]

/-! ### explicit value orders (`dictable.sort(col = [v0, v1, ...])`) -/

theorem lastIdxFrom_none (vals : List Cell) (x : Cell) (k : Nat) (h : ∀ v ∈ vals, v.pyEq x = false) :
    lastIdxFrom k vals x = Option.none := by
  induction vals generalizing k with
  | nil => rfl
  | cons v vs ih =>
    simp only [lastIdxFrom, ih (k + 1) (fun w hw => h w (List.mem_cons_of_mem _ hw)), h v (List.mem_cons_self ..)]
    simp

theorem lastIdxFrom_ge (vals : List Cell) (x : Cell) (k j : Nat) (h : lastIdxFrom k vals x = some j) :
    k ≤ j ∧ j < k + vals.length := by
  induction vals generalizing k with
  | nil => simp [lastIdxFrom] at h
  | cons v vs ih =>
    simp only [lastIdxFrom] at h
    cases h' : lastIdxFrom (k + 1) vs x with
    | some j' =>
      rw [h'] at h; simp at h; subst h
      have := ih (k + 1) h'; simp; omega
    | none =>
      rw [h'] at h
      by_cases hv : v.pyEq x = true
      · simp [hv] at h; subst h; simp
      · simp [hv] at h

/-- a listed value gets the position of its LAST occurrence as sort rank (for an order without repeats: its position) -/
theorem byvalRank_listed (vals : List Cell) (i : Nat) (hi : i < vals.length)
    (hrefl : vals[i].pyEq vals[i] = true)
    (hlast : ∀ j, i < j → (hj : j < vals.length) → vals[j].pyEq vals[i] = false) :
    byvalRank vals vals[i] = i := by
  suffices h : ∀ (vs : List Cell) (k i : Nat) (hi : i < vs.length) (x : Cell), vs[i].pyEq x = true →
      (∀ j, i < j → (hj : j < vs.length) → vs[j].pyEq x = false) → lastIdxFrom k vs x = some (k + i) by
    unfold byvalRank lastIdx?
    rw [h vals 0 i hi vals[i] hrefl hlast]; simp
  intro vs
  induction vs with
  | nil => intro k i hi; simp at hi
  | cons v vs ih =>
    intro k i hi x hx hl
    cases i with
    | zero =>
      have hn : lastIdxFrom (k + 1) vs x = Option.none := by
        apply lastIdxFrom_none
        intro w hw
        obtain ⟨n, hn, rfl⟩ := List.getElem_of_mem hw
        have := hl (n + 1) (by omega) (by simp; omega)
        simpa using this
      simp only [lastIdxFrom, hn]
      simp at hx; simp [hx]
    | succ i =>
      have hi' : i < vs.length := by simpa using hi
      have := ih (k + 1) i hi' x (by simpa using hx) (fun j hj hjl => by
        have := hl (j + 1) (by omega) (by simp; omega); simpa using this)
      simp only [lastIdxFrom, this]
      congr 1; omega

/-- an unlisted value gets the number of DISTINCT listed values as rank -/
theorem byvalRank_unlisted (vals : List Cell) (x : Cell) (h : ∀ v ∈ vals, v.pyEq x = false) :
    byvalRank vals x = (dedupPy vals).length := by
  unfold byvalRank lastIdx?
  rw [lastIdxFrom_none vals x 0 h]

theorem dedupPy_of_distinct (vals : List Cell) (h : vals.Pairwise (fun a b => a.pyEq b = false)) :
    dedupPy vals = vals := by
  induction vals with
  | nil => rfl
  | cons v vs ih =>
    rw [List.pairwise_cons] at h
    simp only [dedupPy, ih h.2]
    congr 1
    rw [List.filter_eq_self]
    intro w hw; simp [h.1 w hw]

/-- "unlisted ones last": for a value order without repeats every listed value ranks strictly below every unlisted one -/
theorem byval_unlisted_last (vals : List Cell) (hd : vals.Pairwise (fun a b => a.pyEq b = false))
    (x y : Cell) (hx : ∃ v ∈ vals, v.pyEq x = true) (hy : ∀ v ∈ vals, v.pyEq y = false) :
    byvalRank vals x < byvalRank vals y := by
  rw [byvalRank_unlisted vals y hy, dedupPy_of_distinct vals hd]
  unfold byvalRank lastIdx?
  cases h : lastIdxFrom 0 vals x with
  | some j => have := lastIdxFrom_ge vals x 0 j h; simp; omega
  | none =>
    obtain ⟨v, hv, hvx⟩ := hx
    exfalso
    clear hy hd
    suffices hh : ∀ (vs : List Cell) (k : Nat), v ∈ vs → lastIdxFrom k vs x ≠ Option.none from hh vals 0 hv h
    intro vs
    induction vs with
    | nil => intro k hv; simp at hv
    | cons w ws ih =>
      intro k hv hnone
      simp only [lastIdxFrom] at hnone
      cases hw : lastIdxFrom (k + 1) ws x with
      | some j => rw [hw] at hnone; simp at hnone
      | none =>
        rw [hw] at hnone
        rcases List.mem_cons.1 hv with rfl | hv'
        · simp [hvx] at hnone
        · exact ih (k + 1) hv' hw

/-- on single-column rank keys `cmp` is the order of the ranks, so rows sort by rank: listed
values in the given order, unlisted last, ties in original order (by `sortIdx_ordered`) -/
theorem cmp_rankKey (a b : Nat) :
    cmp (.list [.cell (.int a)]) (.list [.cell (.int b)]) = compare a b := by
  have h := cmp_keyId (.list [], a) (.list [], b)
  have : compare (4 * (a : Int)) (4 * (b : Int)) = compare a b := by
    cases h : compare a b
    · rw [Nat.compare_eq_lt] at h; rw [Int.compare_eq_lt]; omega
    · rw [Nat.compare_eq_eq] at h; rw [Int.compare_eq_eq]; omega
    · rw [Nat.compare_eq_gt] at h; rw [Int.compare_eq_gt]; omega
  simp only [cmp, Val.norm, normList, cmpN, cmpArr, Cell.cmp, Cell.cmpSame, Cell.rank, Cell.num,
    Cell.skey, this]
  cases compare a b <;> rfl

/-- explicit value orders, composed: in the result of `d.sort(col = vals)` the ranks of the rows are non-decreasing, and rows of
equal rank keep their original order; together with `byvalRank_listed` / `byval_unlisted_last` this is "listed values in
the given order, unlisted ones last, ties in original order". -/
theorem byval_sorted (vals : List Cell) (col : List Cell) :
    (sortIdx (col.map fun x => byvalKey [vals] [x])).Pairwise (fun a b =>
      ∃ xa xb, col[a]? = some xa ∧ col[b]? = some xb ∧
        (byvalRank vals xa < byvalRank vals xb ∨ (byvalRank vals xa = byvalRank vals xb ∧ a < b))) := by
  refine (sortIdx_ordered (col.map fun x => byvalKey [vals] [x])).imp ?_
  rintro a b ⟨ka, kb, ha, hb, h⟩
  simp only [List.getElem?_map, Option.map_eq_some_iff] at ha hb
  obtain ⟨xa, hxa, rfl⟩ := ha
  obtain ⟨xb, hxb, rfl⟩ := hb
  refine ⟨xa, xb, hxa, hxb, ?_⟩
  have hk : ∀ x, byvalKey [vals] [x] = .list [.cell (.int (byvalRank vals x))] := by
    intro x; simp [byvalKey]
  rw [hk, hk, cmp_rankKey] at h
  rcases h with h | ⟨h, hlt⟩
  · left; exact Nat.compare_eq_lt.1 h
  · right; exact ⟨Nat.compare_eq_eq.1 h, hlt⟩

/-! ### non-vacuity: concrete mixed-type values -/

example : cmp (.cell (.str "2")) (.cell (.int 2)) = .gt := by decide
example : cmp (.cell .none) (.cell (.flt 8)) = .lt := by decide
example : cmp (.list [.cell (.int 1), .cell (.int 2), .cell (.int 3)])
    (.list [.cell (.int 4), .cell (.int 5)]) = .gt := by decide
example : cmp (.dict [("a", .cell (.int 1)), ("b", .cell (.int 2))])
    (.dict [("b", .cell (.int 2)), ("a", .cell (.int 1))]) = .eq := by decide
example : cmp (.dict [("a", .cell (.int 1)), ("b", .cell (.int 2))])
    (.dict [("a", .cell (.int 1)), ("c", .cell (.int 2))]) = .lt := by decide
/-- the hypotheses of `sort_stable` are satisfiable on mixed-type data -/
example : cmpLe (.cell (.int 1)) (.cell (.flt 4)) = true ∧
    [.cell (.int 1), .cell (.flt 4)].Sublist
      [Val.cell (.str "x"), .cell (.int 1), .cell .none, .cell (.flt 4)] := by decide

/-- the hypothesis of `sortIdx_idem` is satisfiable on a mixed-type key column -/
example : [Val.cell .none, .cell (.int 1), .cell (.flt 4), .cell .nan, .cell (.str "a")].Pairwise
    (fun a b => cmpLe a b = true) := by decide

-- evaluation tests (tests, not theorems: `List.mergeSort` is defined by well-founded recursion
-- and does not reduce in the kernel)
#guard sort [.cell (.flt 8), .cell .nan, .cell (.int 1), .cell .none] ==
    [.cell .none, .cell (.int 1), .cell (.flt 8), .cell .nan]
#guard sortIdx [.cell (.str "b"), .cell (.int 1), .cell (.str "a"), .cell (.flt 4)] == [1, 3, 2, 0]

/-! ## Round h2 (review s2): the nested decorated tuples and the list-level step; several value orders; the whole table -/

section round_h2

/-- the nested `((k0, .., kn), i)` tuples that `dictable.sort` sorts natively (review s2 7b: `native_agrees_tuple` is about FLAT
tuples): wherever python's comparison of two such tuples is defined — keys of equal length over bool-free cells — it is `cmp` of
the decorated keys `keyId` -/
theorem native_agrees_keyId (xs ys : List Cell) (i j : Nat) (hlen : xs.length = ys.length)
    (hx : ∀ c ∈ xs, c.isBool = false) (hy : ∀ c ∈ ys, c.isBool = false) (o : Ordering)
    (h : nativeKeyId (xs, i) (ys, j) = some o) :
    cmp (keyId (.tuple (xs.map .cell), i)) (keyId (.tuple (ys.map .cell), j)) = o := by
  rw [cmp_keyId]
  simp only [nativeKeyId] at h
  cases hn : nativeArr xs ys with
  | none => simp [hn] at h
  | some r =>
    have hc := native_agrees_tuple xs ys hlen hx hy r hn
    simp only [hc]
    cases r <;> simp_all [Ordering.then]

/-- THE LIST-LEVEL STEP (review s2 6b/7b: so far an informal argument): whatever algorithm `sorted()` runs, if its output — a
permutation `l` of the row numbers — is natively increasing from each decorated key to the NEXT one (adjacent pairs only; no
comparison raised), then `l` is exactly the permutation `sortIdx` of the model, i.e. the unique stable `cmp`-sort.  Assumed about
CPython: only that the output of `sorted()` on pairwise distinct elements is adjacent-wise `<`. -/
theorem native_sorted_is_sortIdx (rows : List (List Cell)) (w : Nat) (hw : ∀ r ∈ rows, r.length = w)
    (hb : ∀ r ∈ rows, ∀ c ∈ r, c.isBool = false) (l : List Nat) (hp : l.Perm (List.range rows.length))
    (hadj : Adjacent (fun a b => ∃ ra rb, rows[a]? = some ra ∧ rows[b]? = some rb ∧
      nativeKeyId (ra, a) (rb, b) = some .lt) l) :
    l = sortIdx (rows.map fun r => .tuple (r.map .cell)) := by
  -- neighbours are `cmp`-increasing on the decorated keys, and that relation is transitive
  have key := Adjacent.imp (S := fun a b => ∃ ra rb, rows[a]? = some ra ∧ rows[b]? = some rb ∧
      cmp (keyId (.tuple (ra.map .cell), a)) (keyId (.tuple (rb.map .cell), b)) = .lt) (fun a b ⟨ra, rb, ha, hb', hn⟩ => by
        have hma := List.mem_of_getElem? ha
        have hmb := List.mem_of_getElem? hb'
        exact ⟨ra, rb, ha, hb', native_agrees_keyId ra rb a b (by rw [hw ra hma, hw rb hmb]) (hb ra hma) (hb rb hmb) _ hn⟩) l hadj
  have hpw := Adjacent.pairwise (fun a b c ⟨ra, rb, ha, hb1, h1⟩ ⟨rb', rc, hb2, hc, h2⟩ => by
      rw [hb1] at hb2; cases hb2
      exact ⟨ra, rc, ha, hc, cmp_lt_trans _ _ _ h1 h2⟩) l key
  refine sortIdx_unique _ l (by simpa using hp) (hpw.imp ?_)
  rintro a b ⟨ra, rb, ha, hb', hc⟩
  refine ⟨.tuple (ra.map .cell), .tuple (rb.map .cell), by simp [ha], by simp [hb'], ?_⟩
  rw [cmp_keyId] at hc
  simp only at hc
  cases h1 : cmp (Val.tuple (ra.map .cell)) (Val.tuple (rb.map .cell)) <;> simp [h1, Ordering.then] at hc ⊢
  exact Nat.compare_eq_lt.1 hc

theorem cmpArr_ranks : ∀ (as bs : List Nat),
    cmpArr (as.map fun (a : Nat) => Val.cell (.int (a : Int))) (bs.map fun (b : Nat) => Val.cell (.int (b : Int))) = lexNat as bs
  | [], _ => by simp [cmpArr, lexNat]
  | _ :: _, [] => by simp [cmpArr, lexNat]
  | a :: as, b :: bs => by
    have h1 : cmpN (.cell (.int a)) (.cell (.int b)) = compare a b := by
      have := cmp_rankKey a b
      simp only [cmp, Val.norm, normList, cmpN, cmpArr] at this
      cases hc : Cell.cmp (.int a) (.int b) <;> simp_all [Ordering.then, cmpN]
    simp only [List.map_cons, cmpArr, lexNat, h1, cmpArr_ranks as bs]

/-- on rank vectors of equal length `cmp` IS the lexicographic order of the ranks -/
theorem cmp_rankKeys (as bs : List Nat) (h : as.length = bs.length) :
    cmp (.list (as.map fun (a : Nat) => Val.cell (.int (a : Int)))) (.list (bs.map fun (b : Nat) => Val.cell (.int (b : Int)))) = lexNat as bs := by
  have hn : ∀ xs : List Nat, normList (xs.map fun (a : Nat) => Val.cell (.int (a : Int))) = xs.map fun (a : Nat) => Val.cell (.int (a : Int)) := by
    intro xs; induction xs with
    | nil => rfl
    | cons x xs ih => simp [normList, Val.norm, ih]
  simp only [cmp, Val.norm, hn, cmpN, List.length_map, h, cmpArr_ranks]
  simp [Ordering.then]

theorem byvalKey_eq (orders : List (List Cell)) (row : List Cell) :
    byvalKey orders row = .list ((byvalRanks orders row).map fun (a : Nat) => Val.cell (.int (a : Int))) := by
  simp [byvalKey, byvalRanks, List.map_map, Function.comp_def]

/-- explicit value orders on SEVERAL columns (`rs.sort(key = [...], gender = [...])`, the docstring example; review s2 9c:
`byval_sorted` was single-column): rows of the width of the orders come out in lexicographic order of their rank vectors — first
column's order first — and rows with equal rank vectors keep their original order -/
theorem byval_sorted_multi (orders : List (List Cell)) (rows : List (List Cell))
    (hw : ∀ r ∈ rows, r.length = orders.length) :
    (sortIdx (rows.map (byvalKey orders))).Pairwise (fun a b =>
      ∃ ra rb, rows[a]? = some ra ∧ rows[b]? = some rb ∧
        (lexNat (byvalRanks orders ra) (byvalRanks orders rb) = .lt ∨
          (lexNat (byvalRanks orders ra) (byvalRanks orders rb) = .eq ∧ a < b))) := by
  refine (sortIdx_ordered (rows.map (byvalKey orders))).imp ?_
  rintro a b ⟨ka, kb, ha, hb, h⟩
  simp only [List.getElem?_map, Option.map_eq_some_iff] at ha hb
  obtain ⟨ra, hra, rfl⟩ := ha
  obtain ⟨rb, hrb, rfl⟩ := hb
  refine ⟨ra, rb, hra, hrb, ?_⟩
  have hl : (byvalRanks orders ra).length = (byvalRanks orders rb).length := by
    simp [byvalRanks, hw ra (List.mem_of_getElem? hra), hw rb (List.mem_of_getElem? hrb)]
  rw [byvalKey_eq, byvalKey_eq, cmp_rankKeys _ _ hl] at h
  exact h

/-- `lexNat` read off: the first column whose ranks differ decides -/
theorem lexNat_lt_iff : ∀ (as bs : List Nat), as.length = bs.length →
    (lexNat as bs = .lt ↔ ∃ i : Nat, (∀ j : Nat, j < i → as[j]? = bs[j]?) ∧ ∃ x y : Nat, as[i]? = some x ∧ bs[i]? = some y ∧ x < y)
  | [], [], _ => by simp [lexNat]
  | [], _ :: _, h => by simp at h
  | _ :: _, [], h => by simp at h
  | a :: as, b :: bs, h => by
    have ih := lexNat_lt_iff as bs (by simpa using h)
    simp only [lexNat]
    cases hc : compare a b with
    | lt =>
      rw [Nat.compare_eq_lt] at hc
      simp only [Ordering.then, true_iff]
      exact ⟨0, by simp, a, b, by simp, by simp, hc⟩
    | gt =>
      rw [Nat.compare_eq_gt] at hc
      simp only [Ordering.then, reduceCtorEq, false_iff]
      rintro ⟨i, hpre, x, y, hx, hy, hlt⟩
      cases i with
      | zero => simp at hx hy; omega
      | succ i => have := hpre 0 (by omega); simp at this; omega
    | eq =>
      rw [Nat.compare_eq_eq] at hc; subst hc
      simp only [Ordering.then, ih]
      constructor
      · rintro ⟨i, hpre, x, y, hx, hy, hlt⟩
        refine ⟨i + 1, ?_, x, y, by simpa using hx, by simpa using hy, hlt⟩
        intro j hj
        cases j with
        | zero => simp
        | succ j => simpa using hpre j (by omega)
      · rintro ⟨i, hpre, x, y, hx, hy, hlt⟩
        cases i with
        | zero => simp at hx hy; omega
        | succ i =>
          refine ⟨i, fun j hj => by simpa using hpre (j + 1) (by omega), x, y, by simpa using hx, by simpa using hy, hlt⟩

/-- the docstring example `rs.sort(key = ['c','a','f','d'], gender = ['f','m'])`, ranks of the rows (c,f) (f,m) (f,f) (g,f) -/
example : byvalRanks [[.str "c", .str "a", .str "f", .str "d"], [.str "f", .str "m"]] [.str "f", .str "m"] = [2, 1] ∧
    byvalRanks [[.str "c", .str "a", .str "f", .str "d"], [.str "f", .str "m"]] [.str "g", .str "f"] = [4, 0] ∧
    lexNat [2, 0] [2, 1] = .lt ∧ lexNat [2, 1] [4, 0] = .lt := by decide

end round_h2

section table
open Pyg.Table

theorem col?_gatherRows (t : Table) (idx : List Nat) (c : String) :
    (t.gatherRows idx).col? c = (t.col? c).map fun xs => idx.map fun i => xs.getD i .none := by
  induction t with
  | nil => simp [gatherRows, col?]
  | cons x t ih =>
    simp only [gatherRows, col?, List.map_cons, List.find?_cons] at ih ⊢
    by_cases h : (x.1 == c) = true
    · simp [h]
    · simp only [h]; exact ih

theorem nrows_gatherRows (t : Table) (idx : List Nat) (ht : t ≠ []) : (t.gatherRows idx).nrows = idx.length := by
  cases t with
  | nil => exact absurd rfl ht
  | cons x t => simp [gatherRows, nrows]

theorem sortCellAt_gatherRows (t : Table) (idx : List Nat) (c : String) (j : Nat) (hj : j < idx.length) (hc : c ∈ t.cols) :
    (t.gatherRows idx).sortCellAt c j = t.sortCellAt c idx[j] := by
  have : ∃ xs, t.col? c = some xs := by
    simp only [cols, List.mem_map] at hc
    obtain ⟨x, hx, rfl⟩ := hc
    cases h : t.col? x.1 with
    | some xs => exact ⟨xs, rfl⟩
    | none =>
      simp only [col?, Option.map_eq_none_iff, List.find?_eq_none] at h
      exact absurd (by simp) (h x hx)
  obtain ⟨xs, hxs⟩ := this
  simp [sortCellAt, col?_gatherRows, hxs, List.getD_eq_getElem?_getD, hj]

/-- the key tuples of the sorted table are the key tuples of `t`, gathered by the same permutation -/
theorem sortKeys_gatherRows (t : Table) (by_ : List String) (idx : List Nat) (ht : t ≠ [])
    (hby : ∀ c ∈ by_, c ∈ t.cols) (hidx : ∀ i ∈ idx, i < t.nrows) :
    (t.gatherRows idx).sortKeys by_ = idx.map fun i => (t.sortKeys by_)[i]?.getD default := by
  apply List.ext_getElem
  · simp [sortKeys, nrows_gatherRows t idx ht]
  · intro j h1 h2
    have hj : j < idx.length := by simpa [sortKeys, nrows_gatherRows t idx ht] using h1
    have hi := hidx idx[j] (List.getElem_mem hj)
    simp only [sortKeys, List.getElem_map, List.getElem_range, List.getElem?_map, List.getElem?_range hi, Option.map_some,
      Option.getD_some]
    congr 1
    apply List.map_congr_left
    intro c hc
    rw [sortCellAt_gatherRows t idx c j hj (hby c hc)]

theorem gatherRows_range (t : Table) (n : Nat) (hr : t.Rect n) : t.gatherRows (List.range n) = t := by
  unfold gatherRows
  conv => rhs; rw [← List.map_id t]
  apply List.map_congr_left
  intro c hc
  have hl := hr c hc
  refine Prod.ext rfl ?_
  apply List.ext_getElem
  · simp [hl]
  · intro i h1 h2
    have h3 : i < c.2.length := by simpa using h2
    simp [List.getD_eq_getElem?_getD, List.getElem?_eq_getElem h3]

/-- **`dictable.sort(*by)` on the whole table** (rectangular, `by` names columns): the result has the same columns; row `j` of the
result — every cell of it, key and non-key columns alike — is row `(sortIdx keys)[j]` of `t`; that permutation is ordered by the
key tuples with ties in original order (`sortIdx_ordered`) and is the only such permutation (`sortIdx_unique`) -/
theorem dictable_sort_spec (t : Table) (n : Nat) (by_ : List String) (hr : t.Rect n) (hn : t.nrows = n) (hn0 : n ≠ 0)
    (hby0 : by_ ≠ []) (hby : ∀ c ∈ by_, c ∈ t.cols) :
    ∃ r, t.sortBy by_ = .ok r ∧ r = t.gatherRows (sortIdx (t.sortKeys by_)) ∧ r.cols = t.cols ∧ r.Rect n ∧
      (sortIdx (t.sortKeys by_)).Perm (List.range n) ∧
      (∀ j (hj : j < (sortIdx (t.sortKeys by_)).length), r.row j = t.row (sortIdx (t.sortKeys by_))[j]) ∧
      r.sortKeys by_ = (sortIdx (t.sortKeys by_)).map fun i => (t.sortKeys by_)[i]?.getD default := by
  have hall : by_.all (t.cols.contains ·) = true := by
    rw [List.all_eq_true]; intro c hc; simpa using hby c hc
  have hlen : (t.sortKeys by_).length = n := by simp [sortKeys, hn]
  have hperm := sortIdx_perm (t.sortKeys by_)
  rw [hlen] at hperm
  have ht : t ≠ [] := by intro e; subst e; simp [nrows] at hn; exact hn0 hn.symm
  refine ⟨_, by simp only [sortBy, hn, hn0, hby0, or_self, if_false, hall, if_true, pure, Except.pure], rfl, cols_gatherRows _ _, ?_, hperm, ?_, ?_⟩
  · have := gatherRows_rect t (sortIdx (t.sortKeys by_)); rwa [hperm.length_eq, List.length_range] at this
  · intro j hj; exact row_gatherRows t _ j hj
  · refine sortKeys_gatherRows t by_ _ ht hby ?_
    intro i hi
    have := hperm.mem_iff.1 hi
    simpa [hn] using this

/-- **idempotent, at table level**: sorting the sorted table again returns it unchanged — all columns -/
theorem dictable_sort_idem (t : Table) (n : Nat) (by_ : List String) (hr : t.Rect n) (hn : t.nrows = n)
    (hby : ∀ c ∈ by_, c ∈ t.cols) (r : Table) (h : t.sortBy by_ = .ok r) : r.sortBy by_ = .ok r := by
  by_cases h0 : t.nrows = 0 ∨ by_ = []
  · simp only [sortBy, h0, if_true, pure, Except.pure, Except.ok.injEq] at h; subst h
    simp [sortBy, h0, pure, Except.pure]
  · have hn0 : n ≠ 0 := by intro e; apply h0; left; omega
    have hby0 : by_ ≠ [] := fun e => h0 (.inr e)
    obtain ⟨r', hr', rfl, hcols, hrect, hperm, _, hkeys⟩ := dictable_sort_spec t n by_ hr hn hn0 hby0 hby
    rw [h] at hr'; cases hr'
    have ht : t ≠ [] := by intro e; subst e; simp [nrows] at hn; exact hn0 hn.symm
    have hnr : (t.gatherRows (sortIdx (t.sortKeys by_))).nrows = n := by
      rw [nrows_gatherRows t _ ht, hperm.length_eq, List.length_range]
    have hall : by_.all ((t.gatherRows (sortIdx (t.sortKeys by_))).cols.contains ·) = true := by
      rw [List.all_eq_true]; intro c hc; rw [hcols]; simpa using hby c hc
    have hlen : (t.sortKeys by_).length = n := by simp [sortKeys, hn]
    simp only [sortBy, hnr, hn0, hby0, or_self, if_false, hall, if_true, pure, Except.pure, Except.ok.injEq]
    rw [hkeys, sortIdx_twice, hlen]
    exact gatherRows_range _ n hrect

end table

/-- non-vacuity: `nativeKeyId` is defined and `lt` on mixed int/float keys, undefined (`TypeError`) on int against str -/
example : nativeKeyId ([.int 1, .str "a"], 0) ([.flt 4, .str "b"], 1) = some .lt ∧
    nativeKeyId ([.int 1], 0) ([.flt 4], 1) = some .lt ∧ nativeKeyId ([.int 1], 1) ([.str "a"], 0) = Option.none := by decide
/-- the hypotheses of `native_sorted_is_sortIdx` on a concrete column: the output `[1, 2, 0]` of `sorted()` for keys 3, 1, 1.0 -/
example : Adjacent (fun a b => ∃ ra rb, [[Cell.int 3], [.int 1], [.flt 4]][a]? = some ra ∧ [[Cell.int 3], [.int 1], [.flt 4]][b]? = some rb ∧
    nativeKeyId (ra, a) (rb, b) = some .lt) [1, 2, 0] :=
  ⟨⟨_, _, rfl, rfl, by decide⟩, ⟨_, _, rfl, rfl, by decide⟩, trivial⟩
#guard sortIdx ([[Cell.int 3], [.int 1], [.flt 4]].map fun r => Val.tuple (r.map .cell)) == [1, 2, 0]
#guard (match Table.sortBy [("a", [.int 3, .int 1, .int 2, .int 1]), ("b", [.str "x", .str "y", .str "z", .str "w"])] ["a"] with
  | .ok r => r == [("a", [.int 1, .int 1, .int 2, .int 3]), ("b", [.str "y", .str "w", .str "z", .str "x"])]
  | _ => false)
/-- the hypotheses of `dictable_sort_spec` / `dictable_sort_idem` are satisfiable -/
example : let t : Table := [("a", [.int 3, .int 1]), ("b", [.str "x", .str "y"])]
    t.Rect 2 ∧ t.nrows = 2 ∧ (∀ c ∈ ["a"], c ∈ t.cols) := by decide

/-- the hypotheses of `native_agrees`, `native_agrees_tuple`, `byvalRank_listed`, `byval_unlisted_last` are satisfiable -/
example : (Cell.int 1).native (.flt 8) = some .lt ∧ nativeArr [.int 1, .str "a"] [.int 2, .none] = some .lt := by decide
example : byvalRank [.str "c", .str "a", .str "f"] (.str "a") = 1 :=
  byvalRank_listed [.str "c", .str "a", .str "f"] 1 (by decide) (by decide)
    (by intro j h1 hj; have : j = 2 := by simp at hj; omega
        subst this; rfl)
example : byvalRank [.str "c", .str "a"] (.str "a") < byvalRank [.str "c", .str "a"] (.str "zz") :=
  byval_unlisted_last _ (by decide) _ _ ⟨.str "a", by decide, by decide⟩ (by decide)

/-! ## Round i2 (review t2): missing dates, the numeric clauses at full strength, the list-level step for `sort` -/

section round_i2

/-- **"0 for numerically equal ints and floats", at full strength** (review t2: `cmp_int_float` covers only the pair `n`, `4n/4`):
an int against a float is compared EXACTLY, by the integers `4n` and `q` (`flt q` is `q/4`) - no rounding through float64
(the point of fix c8131a6) -/
theorem cmp_int_flt (n q : Int) : cmp (.cell (.int n)) (.cell (.flt q)) = compare (4 * n) q := by
  simp [cmp, Val.norm, cmpN, Cell.cmp, Cell.cmpSame, Cell.rank, Cell.num, Cell.skey]

theorem cmp_flt_int (q n : Int) : cmp (.cell (.flt q)) (.cell (.int n)) = compare q (4 * n) := by
  simp [cmp, Val.norm, cmpN, Cell.cmp, Cell.cmpSame, Cell.rank, Cell.num, Cell.skey]

/-- ... so it is 0 exactly for numerically equal values -/
theorem cmp_int_flt_eq_iff (n q : Int) : cmp (.cell (.int n)) (.cell (.flt q)) = .eq ↔ 4 * n = q := by
  rw [cmp_int_flt]; exact Int.compare_eq_eq

/-- the numbers: ints, finite floats, the infinities and NaN -/
def isNumCell : Cell → Bool
  | .int _ | .flt _ | .pinf | .ninf | .nan => true
  | _ => false

/-- **NaN ranks above every other number**, the infinities included (review t2: `nan_top_int/flt` say nothing about `+inf`) -/
theorem nan_top (c : Cell) (h : isNumCell c = true) (hn : c ≠ .nan) : cmp (.cell c) (.cell .nan) = .lt := by
  cases c <;> simp_all [isNumCell] <;> rfl

example : isNumCell .pinf = true ∧ Cell.pinf ≠ .nan ∧ cmp (.cell .pinf) (.cell .nan) = .lt := by decide

/-! ### the missing date (`pd.NaT`, `np.datetime64('NaT')`): review t2 V1 / V2 -/

/-- `cmpNaT` is `cmp` on values -/
theorem cmpNaT_val (a b : Val) : cmpNaT (.val a) (.val b) = cmp a b := rfl

/-- NaT is above every datetime ... -/
theorem nat_top (us : Int) : cmpNaT (.val (.cell (.dt us))) .nat = .lt := by
  simp [cmpNaT, Val.rank, Cell.rank]

/-- ... equal to NaT, whatever the identity or the spelling ... -/
theorem nat_eq_nat : cmpNaT .nat .nat = .eq := rfl

/-- ... and against anything else it is placed by its type rank, that of `datetime.datetime` (`.rank = 2`): above `None`, bools,
below dicts, numbers, lists, strings and tuples -/
theorem nat_vs_val (v : Val) : cmpNaT .nat (.val v) = if v.rank ≤ 2 then .gt else .lt := by
  simp only [cmpNaT]
  rcases Nat.lt_trichotomy 2 v.rank with h | h | h
  · rw [Nat.compare_eq_lt.2 h, if_neg (by omega)]; rfl
  · rw [← h]; simp
  · rw [Nat.compare_eq_gt.2 h, if_pos (by omega)]; rfl

/-- antisymmetry with the missing date among the values (false of the code before fix a949734: `cmp` of two
`np.datetime64('NaT')` was -1 both ways) -/
theorem cmpNaT_antisymm (a b : ValN) : cmpNaT a b = (cmpNaT b a).swap := by
  cases a <;> cases b <;> simp only [cmpNaT]
  · rfl
  · rename_i v; rw [swap_compare v.rank 2]; cases compare 2 v.rank <;> rfl
  · rename_i v; rw [swap_compare 2 v.rank]; cases compare v.rank 2 <;> rfl
  · exact cmp_antisymm _ _

/-- transitivity with the missing date among the values (false of the code between 7a44481 and fix cceb13a: `cmp(t, NaT) == 0 ==
cmp(NaT, t')` for all datetimes) -/
theorem cmpNaT_trans (a b c : ValN) : (cmpNaT a b).isLE → (cmpNaT b c).isLE → (cmpNaT a c).isLE := by
  have f1 : ∀ v : Val, (cmpNaT .nat (.val v)).isLE = true → 2 < v.rank := by
    intro v h; rw [nat_vs_val] at h; split at h
    · simp at h
    · omega
  have f1' : ∀ v : Val, 2 < v.rank → (cmpNaT .nat (.val v)).isLE = true := by
    intro v h; rw [nat_vs_val, if_neg (by omega)]; rfl
  have f2 : ∀ v : Val, (cmpNaT (.val v) .nat).isLE = true → v.rank ≤ 2 := by
    intro v h; rw [cmpNaT_antisymm, nat_vs_val] at h; split at h
    · assumption
    · simp [Ordering.swap] at h
  have f2' : ∀ v : Val, v.rank ≤ 2 → (cmpNaT (.val v) .nat).isLE = true := by
    intro v h; rw [cmpNaT_antisymm, nat_vs_val, if_pos h]; rfl
  intro h1 h2
  cases a <;> cases b <;> cases c
  · rfl
  · exact h2
  · rfl
  · rename_i v w; exact f1' _ (Nat.lt_of_lt_of_le (f1 _ h1) (cmp_rank_le _ _ h2))
  · exact h1
  · rename_i v w
    have := cmp_of_rank_lt v w (Nat.lt_of_le_of_lt (f2 _ h1) (f1 _ h2))
    simp [cmpNaT, this]
  · rename_i v w; exact f2' _ (Nat.le_trans (cmp_rank_le _ _ h1) (f2 _ h2))
  · exact cmp_trans _ _ _ h1 h2

/-- V1 of review t2 on the model: a datetime, NaT, a later datetime - consistent -/
example : cmpNaT (.val (.cell (.dt 5))) .nat = .lt ∧ cmpNaT .nat (.val (.cell (.dt 9))) = .gt ∧
    cmpNaT .nat (.val (.cell .none)) = .gt ∧ cmpNaT .nat (.val (.cell (.flt 4))) = .lt ∧ cmpNaT .nat (.val (.dict [])) = .lt := by decide

/-! ### the list-level step for `sort` (review t2 item 4; `native_sorted_is_sortIdx` is its `dictable.sort` counterpart) -/

/-- generic form: if a list is natively non-decreasing from each element to the NEXT one (no comparison raised), and the native
comparison agrees with `cmp` on its members, the list is non-decreasing under `cmp` on EVERY pair -/
theorem adjacent_native_pairwise {α : Type} (toV : α → Val) (P : α → Prop) (nat : α → α → Option Ordering)
    (hag : ∀ a b, P a → P b → ∀ o, nat a b = some o → cmp (toV a) (toV b) = o)
    (l : List α) (hP : ∀ a ∈ l, P a) (hadj : Adjacent (fun a b => ∃ o, nat a b = some o ∧ o ≠ .gt) l) :
    (l.map toV).Pairwise (fun a b => cmpLe a b = true) := by
  have key := Adjacent.imp (S := fun a b => cmpLe (toV a) (toV b) = true) (fun a b ⟨ha, hb, o, ho, hne⟩ => by
      have := hag a b ha hb o ho
      unfold cmpLe; rw [this]; cases o <;> simp_all) l (Adjacent.and_mem l hP hadj)
  have hpw := Adjacent.pairwise (R := fun a b => cmpLe (toV a) (toV b) = true)
    (fun a b c h1 h2 => cmpLe_trans (toV a) (toV b) (toV c) h1 h2) l key
  exact List.pairwise_map.2 hpw

/-- **`sort` on its native path returns a list that is non-decreasing under `cmp`**: whatever algorithm `sorted()` runs, if its
output `l` - a permutation of the bool-free scalars `xs` - is natively `≤` from each element to the next (no comparison raised),
then `l` is a permutation of `xs` ordered under `cmp` on every pair: the clause "returns a permutation of xs that is
non-decreasing under cmp" for the path `sort` takes when it can.  Assumed about CPython: only that the output of `sorted()` is
a permutation, adjacent-wise `≤`.  (So far this clause was proved for `List.mergeSort cmpLe` - the model's own definition - and
bridged to the code pairwise only.) -/
theorem native_sorted_is_sorted (xs l : List Cell) (hb : ∀ c ∈ xs, c.isBool = false) (hp : l.Perm xs)
    (hadj : Adjacent (fun a b => ∃ o, a.native b = some o ∧ o ≠ .gt) l) :
    (l.map Val.cell).Perm (xs.map Val.cell) ∧ (l.map Val.cell).Pairwise (fun a b => cmpLe a b = true) ∧
      sort (l.map Val.cell) = l.map Val.cell :=
  have hpw := adjacent_native_pairwise Val.cell (fun c => c.isBool = false) Cell.native
    (fun a b ha hb' o h => native_agrees a b ha hb' o h) l (fun c hc => hb c (hp.mem_iff.1 hc)) hadj
  ⟨hp.map _, hpw, sort_of_sorted _ hpw⟩

/-- the same for equal-length tuples of bool-free scalars -/
theorem native_sorted_is_sorted_tuple (xs l : List (List Cell)) (w : Nat) (hw : ∀ r ∈ xs, r.length = w)
    (hb : ∀ r ∈ xs, ∀ c ∈ r, c.isBool = false) (hp : l.Perm xs)
    (hadj : Adjacent (fun a b => ∃ o, nativeArr a b = some o ∧ o ≠ .gt) l) :
    (l.map fun r => Val.tuple (r.map .cell)).Perm (xs.map fun r => Val.tuple (r.map .cell)) ∧
      (l.map fun r => Val.tuple (r.map .cell)).Pairwise (fun a b => cmpLe a b = true) ∧
      sort (l.map fun r => Val.tuple (r.map .cell)) = l.map fun r => Val.tuple (r.map .cell) :=
  have hpw := adjacent_native_pairwise (fun r => Val.tuple (r.map .cell)) (fun r => r.length = w ∧ ∀ c ∈ r, c.isBool = false) nativeArr
    (fun a b ha hb' o h => native_agrees_tuple a b (by rw [ha.1, hb'.1]) ha.2 hb'.2 o h) l
    (fun r hr => ⟨hw r (hp.mem_iff.1 hr), hb r (hp.mem_iff.1 hr)⟩) hadj
  ⟨hp.map _, hpw, sort_of_sorted _ hpw⟩

/-- the hypotheses on a concrete list: `sorted([3, 1, 1.0])` = `[1, 1.0, 3]` -/
example : Adjacent (fun a b => ∃ o, Cell.native a b = some o ∧ o ≠ .gt) [Cell.int 1, .flt 4, .int 3] :=
  ⟨⟨.eq, by decide, by decide⟩, ⟨.lt, by decide, by decide⟩, trivial⟩

end round_i2

/-! ### round k2: `sort` as the code runs it - the three branch predicates and the TypeError fallback (review v2 item 4) -/
section round_k2
open List List.MergeSort.Internal

theorem merge_congr {α} (le1 le2 : α → α → Bool) : ∀ (xs ys : List α),
    (∀ a ∈ xs, ∀ b ∈ ys, le1 a b = le2 a b) → List.merge xs ys le1 = List.merge xs ys le2
  | [], ys, _ => by simp
  | x :: xs, [], _ => by simp
  | x :: xs, y :: ys, h => by
      rw [List.cons_merge_cons, List.cons_merge_cons, h x (by simp) y (by simp)]
      split
      · rw [merge_congr le1 le2 xs (y :: ys) (fun a ha b hb => h a (by simp [ha]) b hb)]
      · rw [merge_congr le1 le2 (x :: xs) ys (fun a ha b hb => h a ha b (by simp [hb]))]

/-- a merge sort only looks at its comparison on the members of the list -/
theorem mergeSort_congr {α} (le1 le2 : α → α → Bool) : ∀ (l : List α),
    (∀ a ∈ l, ∀ b ∈ l, le1 a b = le2 a b) → l.mergeSort le1 = l.mergeSort le2
  | [], _ => by simp
  | [a], _ => by simp
  | a :: b :: xs, h => by
    have h1 : (splitInTwo ⟨a :: b :: xs, rfl⟩).1.1.length < xs.length + 1 + 1 := by simp [splitInTwo_fst]; omega
    have h2 : (splitInTwo ⟨a :: b :: xs, rfl⟩).2.1.length < xs.length + 1 + 1 := by simp [splitInTwo_snd]; omega
    have happ := splitInTwo_fst_append_splitInTwo_snd (⟨a :: b :: xs, rfl⟩ : { l : List α // l.length = xs.length + 1 + 1 })
    have m1 : ∀ x ∈ (splitInTwo ⟨a :: b :: xs, rfl⟩).1.1, x ∈ a :: b :: xs := fun x hx => by
      have : x ∈ (⟨a :: b :: xs, rfl⟩ : { l : List α // l.length = xs.length + 1 + 1 }).val := happ ▸ List.mem_append_left _ hx
      exact this
    have m2 : ∀ x ∈ (splitInTwo ⟨a :: b :: xs, rfl⟩).2.1, x ∈ a :: b :: xs := fun x hx => by
      have : x ∈ (⟨a :: b :: xs, rfl⟩ : { l : List α // l.length = xs.length + 1 + 1 }).val := happ ▸ List.mem_append_right _ hx
      exact this
    rw [mergeSort, mergeSort]
    rw [mergeSort_congr le1 le2 _ (fun x hx y hy => h x (m1 x hx) y (m1 y hy)),
        mergeSort_congr le1 le2 _ (fun x hx y hy => h x (m2 x hx) y (m2 y hy))]
    exact merge_congr le1 le2 _ _ (fun x hx y hy =>
      h x (m1 x (List.mem_mergeSort.1 hx)) y (m2 y (List.mem_mergeSort.1 hy)))
termination_by l => l.length

/-- `cmp` on spelled scalars is `cmp` on the cells they denote -/
theorem cmpPy_of_cell (a b : PyCell) (x y : Cell) (ha : a.cell? = some x) (hb : b.cell? = some y) :
    cmpPy a b = cmp (.cell x) (.cell y) := by
  cases a <;> cases b <;> simp_all [PyCell.cell?, cmpPy, PyCell.prim, cmpNaT]

/-- **wherever the native comparison `sorted()` performs is defined, it is `cmp`** (bool-free members; through `native_agrees`) -/
theorem nativeKey_agrees (a b : PyCell) (ha : a.isBool = false) (hb : b.isBool = false) (o : Ordering)
    (h : a.nativeKey b = some o) : cmpPy a b = o := by
  unfold PyCell.nativeKey at h
  cases hx : a.cell? with
  | none => simp [hx] at h
  | some x =>
    cases hy : b.cell? with
    | none => simp [hx, hy] at h
    | some y =>
      simp only [hx, hy] at h
      rw [cmpPy_of_cell a b x y hx hy]
      apply native_agrees x y _ _ o h
      · cases a <;> simp_all [PyCell.cell?, PyCell.isBool] <;> (subst hx; first | exact ha | rfl)
      · cases b <;> simp_all [PyCell.cell?, PyCell.isBool] <;> (subst hy; first | exact hb | rfl)

theorem cmpPyLe_trans (a b c : PyCell) : cmpPyLe a b = true → cmpPyLe b c = true → cmpPyLe a c = true := by
  unfold cmpPyLe cmpPy; exact fun h1 h2 => cmpNaT_trans _ _ _ h1 h2

theorem cmpPyLe_total (a b : PyCell) : (cmpPyLe a b || cmpPyLe b a) = true := by
  unfold cmpPyLe cmpPy
  rw [cmpNaT_antisymm a.prim b.prim]
  cases cmpNaT b.prim a.prim <;> rfl

/-- **THE BRANCHES OF `sort` ARE UNOBSERVABLE: whichever return statement a list of scalars reaches - `Cmp` key because of a NaN /
NaT, native sort of the `as_primitive` images because of a numpy number, native sort of the objects, `Cmp` key after a TypeError -
the result is the stable `cmp`-sort of the input.**  For all lists of spelled scalars without bools (python / numpy numbers incl.
NaN and ±inf, strings, datetimes, Timestamps, NaT, None).  `xs.mergeSort cmpPyLe` is an independent specification: it does not
mention the predicates or the native order. -/
theorem codeSort_eq_cmpSort (xs : List PyCell) (hb : ∀ c ∈ xs, c.isBool = false) :
    codeSort xs = xs.mergeSort cmpPyLe := by
  unfold codeSort
  split
  · rfl
  · cases hns : nativeSorted xs with
    | none => rfl
    | some l =>
      simp only
      unfold nativeSorted at hns
      by_cases hlen : xs.length ≤ 1
      · simp only [hlen, if_true, Option.some.injEq] at hns
        subst hns
        match xs, hlen with
        | [], _ => simp
        | [a], _ => simp
        | a :: b :: t, h => simp at h
      · simp only [hlen, if_false] at hns
        by_cases hall : allComparable xs = true
        · simp only [hall, if_true, Option.some.injEq] at hns
          subst hns
          apply mergeSort_congr
          intro a ha b hb'
          have hc : (a.nativeKey b).isSome = true := by
            simp only [allComparable, List.all_eq_true] at hall
            exact hall a ha b hb'
          obtain ⟨o, ho⟩ := Option.isSome_iff_exists.1 hc
          have := nativeKey_agrees a b (hb a ha) (hb b hb') o ho
          simp only [PyCell.nativeLe, ho, cmpPyLe, this]
          cases o <;> rfl
        · simp [hall] at hns

/-- `sort(xs)` is a permutation of `xs` ... -/
theorem codeSort_perm (xs : List PyCell) (hb : ∀ c ∈ xs, c.isBool = false) : (codeSort xs).Perm xs := by
  rw [codeSort_eq_cmpSort xs hb]; exact List.mergeSort_perm _ _

/-- ... non-decreasing under `cmp` on every pair, on every branch ... -/
theorem codeSort_sorted (xs : List PyCell) (hb : ∀ c ∈ xs, c.isBool = false) :
    (codeSort xs).Pairwise (fun a b => cmpPyLe a b = true) := by
  rw [codeSort_eq_cmpSort xs hb]; exact List.pairwise_mergeSort cmpPyLe_trans cmpPyLe_total xs

/-- ... and stable: members already in `cmp` order keep their relative positions (e.g. `1` before `1.0` before `np.int64(1)`) -/
theorem codeSort_stable (xs c : List PyCell) (hb : ∀ c ∈ xs, c.isBool = false)
    (hc : c.Pairwise (fun a b => cmpPyLe a b = true)) (hs : c.Sublist xs) : c.Sublist (codeSort xs) := by
  rw [codeSort_eq_cmpSort xs hb]; exact List.sublist_mergeSort cmpPyLe_trans cmpPyLe_total hc hs

/-! which lists take which branch -/

theorem codeBranch_cmpKey_iff (xs : List PyCell) : codeBranch xs = .cmpKey ↔ ∃ c ∈ xs, c.hasNan = true := by
  unfold codeBranch
  split
  · rename_i h; simpa using (List.any_eq_true.1 h)
  · rename_i h
    constructor
    · intro h'; split at h' <;> (try split at h') <;> cases h'
    · intro h'; exact absurd (List.any_eq_true.2 h') h

/-- the TypeError fallback: no NaN / NaT, two or more members, and two of them python cannot compare (`None` with anything - itself
included -, a number with a string, a string with a datetime ...) -/
theorem codeBranch_fallback_iff (xs : List PyCell) :
    codeBranch xs = .fallback ↔ (∀ c ∈ xs, c.hasNan = false) ∧ 2 ≤ xs.length ∧ ∃ a ∈ xs, ∃ b ∈ xs, a.nativeKey b = none := by
  unfold codeBranch nativeSorted
  by_cases hn : xs.any PyCell.hasNan = true
  · simp only [hn, if_true]
    constructor
    · intro h; cases h
    · rintro ⟨h, -⟩
      obtain ⟨c, hc, hc'⟩ := List.any_eq_true.1 hn
      rw [h c hc] at hc'; cases hc'
  · have hn' : ∀ c ∈ xs, c.hasNan = false := fun c hc => by
      cases h : c.hasNan
      · rfl
      · exact absurd (List.any_eq_true.2 ⟨c, hc, h⟩) hn
    simp only [hn, if_false, Bool.false_eq_true]
    by_cases hl : xs.length ≤ 1
    · simp only [hl, if_true]
      constructor
      · intro h; split at h <;> cases h
      · rintro ⟨-, h2, -⟩; omega
    · simp only [hl, if_false]
      by_cases ha : allComparable xs = true
      · simp only [ha, if_true]
        constructor
        · intro h; split at h <;> cases h
        · rintro ⟨-, -, a, ha', b, hb', hab⟩
          simp only [allComparable, List.all_eq_true] at ha
          have := ha a ha' b hb'
          rw [hab] at this; cases this
      · simp only [ha, if_false, Bool.false_eq_true, true_iff]
        refine ⟨hn', by omega, ?_⟩
        have ha2 : allComparable xs = false := by simpa using ha
        simp only [allComparable, List.all_eq_false] at ha2
        obtain ⟨a, ha', hab⟩ := ha2
        have hab2 : (xs.all fun b => (a.nativeKey b).isSome) = false := by simpa using hab
        obtain ⟨b, hb', hab3⟩ := List.all_eq_false.1 hab2
        refine ⟨a, ha', b, hb', ?_⟩
        cases h : a.nativeKey b
        · rfl
        · rw [h] at hab3; exact absurd rfl hab3

/-- python compares two present scalars exactly when both are numbers, both strings, or both datetimes (Timestamps included) -/
def sameNativeClass (a b : PyCell) : Bool :=
  match a.cell?, b.cell? with
  | some x, some y => (x.numKey?.isSome && y.numKey?.isSome) ||
      (match x, y with | .str _, .str _ => true | .dt _, .dt _ => true | _, _ => false)
  | _, _ => false

theorem nativeKey_isSome_iff (a b : PyCell) : (a.nativeKey b).isSome = sameNativeClass a b := by
  unfold PyCell.nativeKey sameNativeClass
  cases a.cell? with
  | none => rfl
  | some x =>
    cases b.cell? with
    | none => rfl
    | some y => cases x <;> cases y <;> simp [Cell.native, Cell.numKey?]

#guard codeBranch [.py (.int 3), .np (.int 2), .py (.int 1)] == .nativePrim
#guard codeBranch [.py (.int 3), .py .none] == .fallback
#guard codeBranch [.py .none] == .native
#guard codeBranch [.py (.int 3), .py (.flt 4), .ts 5] == .fallback
#guard codeBranch [.py (.dt 3), .ts 5, .nat] == .cmpKey
#guard codeBranch [.py (.dt 9), .ts 5] == .native
#guard (codeSort [.py (.int 3), .np (.int 2), .py .none, .py (.str "a"), .py (.flt 4)]).map PyCell.prim |>.map (fun v => match v with | .val v => v.render | .nat => "NAT")
   |> (· == ["N", "F:4", "I:2", "I:3", "S:61"])
/-- the hypothesis of the theorems on a list that takes the numpy branch: `sort([3, np.uint8(2), 1])` -/
example : ∀ c ∈ [PyCell.py (.int 3), .np (.int 2), .py (.int 1)], c.isBool = false := by decide

end round_k2

end Pyg.Props.C07
