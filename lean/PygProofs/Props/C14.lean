/-
  C14 — eq is a NaN-aware, type-strict equivalence on values, containers and pandas.
  Property theorems only (helper lemmas live in PygProofs/Lemmas/EqLemmas.lean).

  The model has no object identity, so "x and a structural copy of x that holds different NaN
  objects" are the same `EVal`: reflexivity *is* copy-equality.
-/
import PygModel.Eq
import PygProofs.Lemmas.EqLemmas
import PygProofs.Lemmas.EqDictLemmas
import PygProofs.Lemmas.EqSame
import PygModel.EqR
import PygProofs.Lemmas.EqRLemmas
import PygProofs.Lemmas.ResDec

namespace Pyg.Props.C14
open Pyg Pyg.EqM

/-- `eq` is defined on every pair and returns a boolean (the model is a total function into `Bool`;
the implementation side of "never raises" is observed by the correspondence check). -/
theorem eq_bool (a b : EVal) : eq a b = true ∨ eq a b = false := by
  cases eq a b <;> simp

/-- reflexivity, NaN at any depth included - in cells and (since fix C14-F4: axis labels are compared
one by one with `eq`) also in the index / column labels of pandas objects.  No hypothesis. -/
theorem eq_refl (a : EVal) : eq a a = true :=
  eqN_refl _

theorem eq_symm (a b : EVal) : eq a b = eq b a := eqN_symm _ _

theorem eq_trans (a b c : EVal) : eq a b = true → eq b c = true → eq a c = true :=
  eqN_trans _ _ _

/-- hence `eq` is a congruence: equal values are equal to the same things -/
theorem eq_congr (a b c : EVal) (h : eq a b = true) : eq a c = eq b c := by
  rw [Bool.eq_iff_iff]
  constructor
  · intro h1; exact eq_trans b a c (by rw [eq_symm]; exact h) h1
  · intro h1; exact eq_trans a b c h h1

/-- a float NaN equals exactly the float NaNs -/
theorem nan_eq (c : Cell) : eq (.cell .nan) (.cell c) = (c == .nan) := by
  cases c <;> simp [eq, EVal.norm, eqN, cellEq]

/-- NaT (`pd.NaT`, which `np.datetime64('NaT')` / `np.timedelta64('NaT')` are read as since C14-F6) equals exactly NaT: a copy of
itself, and nothing else - not the float NaN, not `None` -/
theorem nat_eq (b : EVal) : eq .nat b = true ↔ b = .nat := by
  cases b <;> simp [eq, EVal.norm, eqN]

/-- a duration (`timedelta`, `pd.Timedelta`, `np.timedelta64` in the units pandas holds: W, D, h, m, s, ms, us, ns - NOT years / months,
see `cdelta_eq`, and not ps / fs / as, see `ftd_eq`) equals exactly the same duration: never a number
(numpy's own `np.timedelta64(1, 'D') == 1` is gone with C14-F6), never a container -/
theorem tdelta_eq (d : Int) (b : EVal) : eq (.tdelta d) b = true ↔ b = .tdelta d := by
  cases b <;> simp [eq, EVal.norm, eqN] <;> exact eq_comm

/-- an `np.timedelta64` in YEARS or MONTHS (review t5; `cdelta m` = `m` months, a year is 12) equals exactly the year / month durations of as
many months: never a number (numpy: `1 == timedelta64(1,'Y') == timedelta64(12,'M') == 12`, the intransitive chain that fix C14-F9 removes),
never a `tdelta` (numpy has no common unit for months and days), never a container -/
theorem cdelta_eq (m : Int) (b : EVal) : eq (.cdelta m) b = true ↔ b = .cdelta m := by
  cases b <;> simp [eq, EVal.norm, eqN] <;> exact eq_comm

/-- the chain of the review on the model: one year is twelve months, and neither is the number that counts it -/
example : eq (.cell (.int 1)) (.cdelta 12) = false ∧ eq (.cdelta (12 * 1)) (.cdelta 12) = true ∧ eq (.cdelta 12) (.cell (.int 12)) = false
    ∧ eq (.cdelta 12) (.tdelta 12) = false ∧ eq (.arr [1] [.cdelta 12]) (.arr [1] [.cell (.int 12)]) = false := by decide

/-- an `np.datetime64` in `ps` / `fs` / `as` (review v5, fix C14-F10; `fdt a` = the instant in attoseconds) equals exactly the fine `np.datetime64` of the same
instant: never a `datetime` / `Timestamp` / coarser `np.datetime64` (the `dt` cell; before the fix `Timestamp.__eq__` truncated to ns, so `datetime(1970,1,1)`,
`Timestamp(0)` and `datetime64(0,'ps')` formed an intransitive chain and 0 ps and 1 ps were both `eq` to `Timestamp(0)`), never a number, a date or a container -/
theorem fdt_eq (a : Int) (b : EVal) : eq (.fdt a) b = true ↔ b = .fdt a := by
  cases b <;> simp [eq, EVal.norm, eqN] <;> exact eq_comm

/-- the chain of review v5 on the model: the Timestamp equals the datetime (one `dt` cell), neither equals the picosecond value at the same instant;
1 ps is 1000 fs; 0 ps and 1 ps differ; cell by cell in arrays and lists -/
example : eq (.cell (.dt 0)) (.fdt 0) = false ∧ eq (.fdt 0) (.cell (.dt 0)) = false ∧ eq (.fdt (1000000 * 1)) (.fdt (1000 * 1000)) = true
    ∧ eq (.fdt 0) (.fdt 1000000) = false ∧ eq (.fdt 0) (.cell (.int 0)) = false ∧ eq (.fdt 0) (.date 0) = false
    ∧ eq (.arr [1] [.fdt 0]) (.arr [1] [.cell (.dt 0)]) = false ∧ eq (.list [.fdt 0]) (.list [.fdt 0]) = true := by decide

/-- a date equals exactly that date: not the datetime (`Timestamp`, `np.datetime64` of any unit) at its midnight -/
theorem date_eq (d : Int) (b : EVal) : eq (.date d) b = true ↔ b = .date d := by
  cases b <;> simp [eq, EVal.norm, eqN] <;> exact eq_comm

/-- type strictness: `eq` is False whenever the container types differ — list vs tuple vs array vs
Series vs DataFrame vs dict, a dict vs a dict subclass (or two different subclasses), and a scalar
vs any container (`EVal.kind` = constructor and dict class; k5: a list / tuple SUBCLASS instance - namedtuple - vs the plain list / tuple and vs another
subclass (`kind = (7, cls)`), a `pd.Index` vs the list / array / Series of its labels). -/
theorem eq_type_strict (a b : EVal) (h : a.kind ≠ b.kind) : eq a b = false := by
  cases hab : eq a b
  · rfl
  · exact absurd (by simpa [kind_norm] using eqN_kind _ _ hab) h

/-- lists / tuples: equal iff same length and all elements equal -/
theorem eq_list (xs ys : List EVal) : eq (.list xs) (.list ys) = all2 eq xs ys := by
  simp only [eq, EVal.norm, eqN, eqArr_normList]; rfl

theorem eq_tuple (xs ys : List EVal) : eq (.tuple xs) (.tuple ys) = all2 eq xs ys := by
  simp only [eq, EVal.norm, eqN, eqArr_normList]; rfl

/-- arrays are equal only if (and if) shape and all cells match -/
theorem eq_arr (s t : List Nat) (xs ys : List EVal) :
    eq (.arr s xs) (.arr t ys) = (s == t && all2 eq xs ys) := by
  simp only [eq, EVal.norm, eqN, eqArr_normList]; rfl

/-- pandas objects are equal only if (and if) index, columns and all cells match -/
theorem eq_series (i j : List Cell) (xs ys : List EVal) :
    eq (.series i xs) (.series j ys) = (idxEq i j && all2 eq xs ys) := by
  simp only [eq, EVal.norm, eqN, eqArr_normList]; rfl

theorem eq_frame (i j c d : List Cell) (xs ys : List EVal) :
    eq (.frame i c xs) (.frame j d ys) = (idxEq i j && idxEq c d && all2 eq xs ys) := by
  simp only [eq, EVal.norm, eqN, eqArr_normList]; rfl

/-- matching labels: same number of labels, pairwise `eq` (`==`, or both NaN) -/
theorem idxEq_spec (i j : List Cell) (h : idxEq i j = true) :
    i.length = j.length ∧ ∀ k (h1 : k < i.length) (h2 : k < j.length), cellEq i[k] j[k] = true := by
  induction i generalizing j with
  | nil => cases j <;> simp_all [idxEq, all2]
  | cons x xs ih =>
    cases j with
    | nil => simp [idxEq, all2] at h
    | cons y ys =>
      simp only [idxEq, all2, Bool.and_eq_true] at h
      obtain ⟨hl, hk⟩ := ih ys h.2
      refine ⟨by simp [hl], ?_⟩
      intro k h1 h2
      cases k with
      | zero => simpa using h.1
      | succ k => simpa using hk k (by simpa using h1) (by simpa using h2)

/-- dicts are equal only if the exact classes, the sizes and the key sets agree -/
theorem eq_dict_class (c d : Nat) (a b : List (String × EVal)) (h : eq (.dict c a) (.dict d b) = true) :
    c = d ∧ a.length = b.length ∧ ∀ k, (k ∈ a.map (·.1) ↔ k ∈ b.map (·.1)) := by
  simp only [eq, EVal.norm, eqN, Bool.and_eq_true, beq_iff_eq, eqKeys_iff] at h
  obtain ⟨⟨hc, hk⟩, _⟩ := h
  have hlen := congrArg List.length hk
  simp only [List.length_map, length_sortK] at hlen
  have hn : ∀ l : List (String × EVal), (EVal.normKVs l).map (·.1) = l.map (·.1) := by
    intro l; induction l with
    | nil => rfl
    | cons x xs ih => obtain ⟨k, v⟩ := x; simp [EVal.normKVs, ih]
  have hl : ∀ l : List (String × EVal), (EVal.normKVs l).length = l.length := by
    intro l; have := congrArg List.length (hn l); simpa using this
  refine ⟨hc, by rw [← hl a, ← hl b]; exact hlen, fun k => ?_⟩
  have hm : ∀ l : List (String × EVal), k ∈ (sortK (EVal.normKVs l)).map (·.1) ↔ k ∈ l.map (·.1) := by
    intro l
    rw [← hn l]
    simp only [List.mem_map]
    constructor
    · rintro ⟨x, hx, rfl⟩; exact ⟨x, (mem_sortK x _).1 hx, rfl⟩
    · rintro ⟨x, hx, rfl⟩; exact ⟨x, (mem_sortK x _).2 hx, rfl⟩
  rw [← hm a, ← hm b, hk]


/-- dicts are equal exactly if they are the same mapping up to `eq`: same exact class, same size, and every item of the left is
found under its key on the right with an `eq` value - for ALL values (NaN, arrays, pandas objects, subclasses inside), whatever
the insertion orders.  (`eq_dict_class` is the class / size / key-set part; this adds the values.) -/
theorem eq_dict_iff (c d : Nat) (a b : List (String × EVal))
    (ha : (a.map (·.1)).Nodup) (hb : (b.map (·.1)).Nodup) :
    eq (.dict c a) (.dict d b) = true ↔
      c = d ∧ a.length = b.length ∧ ∀ x ∈ a, ∃ w, EVal.lookup x.1 b = some w ∧ eq x.2 w = true :=
  eq_dict_iff_aux c d a b ha hb

-- see the non-vacuity section for an instance
-- example : eq (.dict 1 [("b", nan), ("a", .arr [2] [i 1, nan])]) (.dict 1 [("a", .arr [2] [f 4, nan]), ("b", nan)]) = true := by decide


/-- **independent specification**: `eq` decides the relation `Same` (PygProofs/Lemmas/EqSame.lean), which is given by rules that
never mention `eq`, normalisation or sorting: scalars - NaN with NaN, otherwise python `==`; list / tuple / array / Series /
DataFrame - same constructor, same shape, same axis labels (NaN label with NaN label), the same thing at every position; dicts -
same exact class, same size and, as MAPPINGS, under every key of the left the right holds the same thing.  For all values of the
universe (NaN, arrays, pandas objects, dict subclasses at any depth) whose dicts have distinct keys, as every python dict has.
This extends `eq_agrees_pyeq` from NaN-free plain values to everything; a model that e.g. compared dict items in insertion
order, ignored a shape, or let a NaN label differ from itself could not satisfy it. -/
theorem eq_iff_same (a b : EVal) (ka : a.keysOk = true) (kb : b.keysOk = true) : eq a b = true ↔ Same a b :=
  eq_iff_same_aux _ a b (Nat.le_refl _) ka kb

/-- axis labels match iff there are equally many and the labels at every position are the same (`==`, or both NaN) -/
theorem idxEq_iff (i j : List Cell) : idxEq i j = true ↔ LabelsSame i j := idxEq_iff_same i j

/-- on NaN-free plain values `eq` agrees with Python `==` (`pyEqV`): for ALL values built from None,
bools, ints, floats other than NaN, strings, datetimes, dates and arbitrarily nested lists, tuples
and plain dicts (`EVal.plain`), every dict having distinct (string) keys as every python dict has
(`EVal.keysOk`).  On dicts `eq` compares the key-sorted item lists position by position while
python compares mappings (same size, every item of the left found on the right, whatever the
insertion orders); the two coincide because the key-sorted form of a mapping is unique. -/
theorem eq_agrees_pyeq (a b : EVal) (ha : a.plain = true) (hb : b.plain = true)
    (ka : a.keysOk = true) (kb : b.keysOk = true) : eq a b = pyEqV a b :=
  eq_pyEq_aux _ a b (Nat.le_refl _) ha hb ka kb

/-- special case without dicts (no key hypothesis needed): scalars, dates, nested lists / tuples -/
theorem eq_agrees_pyeq_seq (a b : EVal) (ha : a.seqPlain = true) (hb : b.seqPlain = true) :
    eq a b = pyEqV a b := eq_pyEq_seq_aux _ a b (Nat.le_refl _) ha hb

/-- the key hypothesis cannot be dropped: with a repeated key (not a python dict) the two differ -/
theorem eq_agrees_pyeq_needs_keysOk :
    let x := EVal.dict 0 [("a", .cell (.int 1)), ("a", .cell (.int 2))]
    x.plain = true ∧ eq x x = true ∧ pyEqV x x = false := by decide

/-- python `==` of two `collections.OrderedDict`s (class 3 on the wire; reference function, CPython `odict_richcompare`): equal as mappings AND
the keys in the same insertion order.  Python's `==` of an `OrderedDict` with a plain `dict` is the order-blind mapping comparison. -/
def pyEqOD (a b : List (String × EVal)) : Bool :=
  pyEqV (.dict 0 a) (.dict 0 b) && (a.map (·.1) == b.map (·.1))

/-- review v5 (declared, not a defect: the clause "agrees with ==" is about NaN-free PLAIN values and `EVal.plain` means the exact class `dict`): an
`OrderedDict` is a dict subclass, `eq` compares its key-SORTED items like those of every dict, so two OrderedDicts holding the same items in another
insertion order are `eq` (`eq_dict_iff`: class, size, every item found under its key) while python's `==` tells them apart - `eq_agrees_pyeq` cannot be
extended to class-3 dicts.  Generated as `(DC 3 ..)`; model and code agree (True), the `python==` law is not applied to it. -/
theorem eq_ordered_dict_ignores_order :
    let a : List (String × EVal) := [("a", .cell (.int 1)), ("b", .cell (.int 2))]
    let b : List (String × EVal) := [("b", .cell (.int 2)), ("a", .cell (.int 1))]
    eq (.dict 3 a) (.dict 3 b) = true ∧ pyEqOD a b = false ∧ pyEqOD a a = true ∧ eq (.dict 3 a) (.dict 0 a) = false := by decide

/-! ### in_ -/

/-- membership built on `eq`: an element of the sequence is found … -/
theorem in_of_mem (x : EVal) (s : List EVal) (h : x ∈ s) : in_ x s = true := by
  simp only [in_, List.any_eq_true]
  exact ⟨x, h, eq_refl x⟩

/-- … `in_` is exactly "some element is `eq`" and respects `eq` on the probe -/
theorem in_iff (x : EVal) (s : List EVal) : in_ x s = true ↔ ∃ y ∈ s, eq x y = true := by
  simp [in_, List.any_eq_true]

theorem in_congr (x y : EVal) (s : List EVal) (h : eq x y = true) : in_ x s = in_ y s := by
  simp only [in_]
  congr 1
  funext z
  exact eq_congr x y z h

/-! ### non-vacuity -/

private def nan : EVal := .cell .nan
private def i (n : Int) : EVal := .cell (.int n)
private def f (q : Int) : EVal := .cell (.flt q)

-- NaN at depth, int == float, dict order
example : eq (.list [i 1, .tuple [nan, .dict 0 [("b", nan), ("a", f 8)]]])
    (.list [f 4, .tuple [nan, .dict 0 [("a", i 2), ("b", nan)]]]) = true := by decide
-- the hypotheses of eq_trans / eq_type_strict are satisfiable on non-trivial values
example : eq (.arr [2] [i 1, nan]) (.arr [2] [f 4, nan]) = true ∧
    eq (.arr [2] [f 4, nan]) (.arr [2] [.cell (.bool true), nan]) = true := by decide
example : (EVal.list [i 1]).kind ≠ (EVal.tuple [i 1]).kind := by decide
example : (EVal.dict 0 [("a", i 1)]).kind ≠ (EVal.dict 1 [("a", i 1)]).kind := by decide
example : (i 1).kind ≠ (EVal.arr [] [i 1]).kind := by decide
-- eq_dict_iff on a dict subclass holding NaN and an array, items reordered
example : eq (.dict 1 [("b", nan), ("a", .arr [2] [i 1, nan])]) (.dict 1 [("a", .arr [2] [f 4, nan]), ("b", nan)]) = true := by decide
-- `Same` is inhabited on non-trivial values (through eq_iff_same) and refuted on others
example : Same (.dict 1 [("b", nan), ("a", .series [.nan, .int 1] [i 1, nan])]) (.dict 1 [("a", .series [.nan, .flt 4] [f 4, nan]), ("b", nan)]) :=
  (eq_iff_same _ _ (by decide) (by decide)).1 (by decide)
example : ¬ Same (.arr [2, 1] [i 1, i 2]) (.arr [1, 2] [i 1, i 2]) :=
  fun h => absurd ((eq_iff_same _ _ (by decide) (by decide)).2 h) (by decide)
-- shapes matter although the cells agree
example : eq (.arr [2, 1] [i 1, i 2]) (.arr [1, 2] [i 1, i 2]) = false := by decide
example : eq (.series [.int 0, .int 1] [i 1, i 2]) (.series [.int 1, .int 2] [i 1, i 2]) = false := by decide
example : eq (.frame [.int 0] [.str "a"] [i 1]) (.frame [.int 0] [.str "b"] [i 1]) = false := by decide
-- NaT inside containers: a structural copy is eq; NaT is not NaN
example : eq (.arr [2] [.cell (.dt 5), .nat]) (.arr [2] [.cell (.dt 5), .nat]) = true := by decide
example : eq .nat (.cell .nan) = false ∧ eq (.cell .nan) .nat = false ∧ eq (.tdelta 1) (.cell (.int 1)) = false := by decide
-- a date is not the datetime at its midnight
example : eq (.date 5) (.cell (.dt 5)) = false := by decide
-- the hypotheses of eq_agrees_pyeq / eq_agrees_pyeq_seq, and an instance with reordered dict items
example : (EVal.list [i 1, .tuple [f 10, .cell (.str "a")]]).seqPlain = true := by decide
private def d1 : EVal := .dict 0 [("b", .list [i 1, .dict 0 [("y", f 8), ("x", .date 3)]]), ("a", .tuple [])]
private def d2 : EVal := .dict 0 [("a", .tuple []), ("b", .list [f 4, .dict 0 [("x", .date 3), ("y", i 2)]])]
example : d1.plain = true ∧ d2.plain = true ∧ d1.keysOk = true ∧ d2.keysOk = true := by decide
example : eq d1 d2 = true ∧ pyEqV d1 d2 = true := by decide
-- NaN labels are labels like any other; a string label is not the datetime it spells
example : eq (.series [.nan] [i 1]) (.series [.nan] [i 1]) = true := by decide
example : eq (.series [.str "2020-01-01"] [i 1]) (.series [.dt 63713433600000000] [i 1]) = false := by decide

/-! ## "never raises", on a reading of `eq` that CAN raise

`eqR : EVal → EVal → Res Bool` (PygModel/EqR.lean) is the repaired `eq` with the python operations that raise on some
operands as explicit error outcomes: `min` of an empty list (`minR`), `np.vectorize(eq)` on operands that cannot be
broadcast together or on a result of size 0 (`veqShape`), unpacking `zip(*items)` of an empty dict (`unzipR`), and — in
the pinned ndarray branch only — `len()` of a 0-d array (`lenR`).  The guards are the code's own
(`len(x) == 0 or …`, `x.shape == y.shape and (0 in x.shape or …)`, `if len(x) == 0: return True`). -/
open Pyg.EqRM

/-- **eq never raises**: for ALL pairs of values — whatever shapes, lengths, nesting — no error branch of `eqR` is
taken: every raising primitive is reached only on operands its guard has let through. -/
theorem eqR_never_raises (a b : EVal) : ∃ v, eqR a b = .ok v :=
  eqNR_total a.norm b.norm

/-- **… and returns what the boolean model returns**, for all values whose cells fit their shape (`EVal.sized`: an
ndarray has as many cells as its shape says, a Series one per index label, a DataFrame one per index × column label —
true of every numpy / pandas object) -/
theorem eqR_eq (a b : EVal) (ha : a.sized = true) (hb : b.sized = true) : eqR a b = .ok (eq a b) :=
  eqNR_eq a.norm b.norm (norm_sized a ha) (norm_sized b hb)

/-- so every theorem about `eq` above (equivalence, NaN, type-strictness, `Same`) is a theorem about the outcome of
the raising reading -/
theorem eqR_true_iff_same (a b : EVal) (ha : a.sized = true) (hb : b.sized = true) :
    eqR a b = .ok true ↔ eq a b = true := by
  rw [eqR_eq a b ha hb]
  constructor
  · intro h; cases h' : eq a b <;> simp_all
  · intro h; rw [h]

/-- the hypothesis of `eqR_eq` cannot be dropped: a "Series" with more cells than labels is compared cell by cell by
the boolean model, while the code (and `eqR`) would never look at cells of an empty-index object — such a value is not
a pandas object -/
theorem eqR_eq_needs_sized :
    ∃ a b : EVal, eqR a b = .ok true ∧ eq a b = false := by
  refine ⟨.series [] [.cell (.int 1)], .series [] [.cell (.int 2)], by decide, by decide⟩

/-- non-vacuity: an object array holding a dict, an empty list and NaN; shapes (2,2) vs (4,) -/
example :
    let x : EVal := .arr [2, 2] [.dict 0 [("b", .cell .nan), ("a", .list [])], .cell (.int 1), .tuple [], .arr [0, 3] []]
    let y : EVal := .arr [2, 2] [.dict 0 [("a", .list []), ("b", .cell .nan)], .cell (.flt 4), .tuple [], .arr [0, 3] []]
    x.sized = true ∧ y.sized = true ∧ eqR x y = .ok true ∧
    eqR x (.arr [4] [.cell (.int 1), .cell (.int 1), .cell (.int 1), .cell (.int 1)]) = .ok false := by
  decide

/-! ### the pinned ndarray branch DID raise (finding F6c, fixed by 75a5baf)

`eqPinned` has the ndarray branch of the pinned tree: `len(x) == len(y)` instead of a shape test, then `veq` with numpy
broadcasting.  Each behaviour below was reproduced on the pinned `_eq.py`; the repaired `eqR` returns a boolean on the
same operands. -/

/-- `eq(np.array(1), np.array(1))` raised `TypeError` (`len()` of a 0-d array); repaired: True -/
theorem pinned_raises_0d :
    eqPinned (.arr [] [.cell (.int 1)]) (.arr [] [.cell (.int 1)]) = .error .type ∧
    eqR (.arr [] [.cell (.int 1)]) (.arr [] [.cell (.int 1)]) = .ok true := by
  decide

/-- shapes (2,3) and (2,): same `len`, not broadcastable — `ValueError`; repaired: False -/
theorem pinned_raises_not_broadcastable :
    let x : EVal := .arr [2, 3] [.cell (.int 1), .cell (.int 2), .cell (.int 3), .cell (.int 1), .cell (.int 2), .cell (.int 3)]
    let y : EVal := .arr [2] [.cell (.int 1), .cell (.int 2)]
    eqPinned x y = .error .value ∧ eqR x y = .ok false := by
  decide

/-- shapes (2,1) and (2,0): broadcast to size 0, `np.vectorize` raises `ValueError`; repaired: False -/
theorem pinned_raises_vectorize_size0 :
    let x : EVal := .arr [2, 1] [.cell (.int 1), .cell (.int 2)]
    let y : EVal := .arr [2, 0] []
    eqPinned x y = .error .value ∧ eqR x y = .ok false := by
  decide

/-- and where it did not raise it compared after broadcasting: `[[1,2],[1,2]]` equalled `[1,2]`, empty arrays of shapes
(0,3) and (0,5) were equal — "arrays are equal only if shape and all cells match" -/
theorem pinned_broadcasts :
    let x : EVal := .arr [2, 2] [.cell (.int 1), .cell (.int 2), .cell (.int 1), .cell (.int 2)]
    let y : EVal := .arr [2] [.cell (.int 1), .cell (.int 2)]
    eqPinned x y = .ok true ∧ eqR x y = .ok false ∧
    eqPinned (.arr [0, 3] []) (.arr [0, 5] []) = .ok true ∧ eqR (.arr [0, 3] []) (.arr [0, 5] []) = .ok false := by
  decide

/-- the guards are what keeps the primitives from raising: each primitive does raise on the operands its guard
excludes -/
theorem primitives_raise :
    minR [] = .error .value ∧ lenR [] = .error .type ∧ veqShape [2, 3] [2] = .error .value ∧
    veqShape [0, 3] [0, 3] = .error .value ∧ unzipR ([] : List (String × Nat)) = .error .value := by
  decide


/-! ## k5: values the model could not spell so far - fine `np.timedelta64`, list / tuple SUBCLASSES (namedtuples), `pd.Index` as a value -/

/-- an `np.timedelta64` in `ps` / `fs` / `as` (`ftd a` = the duration in attoseconds; repaired with C14-F9, spelled on the wire since k5) equals exactly the
fine `np.timedelta64` of the same duration: never a `timedelta` / `pd.Timedelta` / coarser `np.timedelta64` (`1000 ps` is not `eq` to `1 ns`: pandas holds the one,
not the other), never a year / month duration, never the number that counts it, never a fine `np.datetime64` -/
theorem ftd_eq (a : Int) (b : EVal) : eq (.ftd a) b = true ↔ b = .ftd a := by
  cases b <;> simp [eq, EVal.norm, eqN] <;> exact eq_comm

example : eq (.ftd (1000000 * 1)) (.ftd (1000 * 1000)) = true ∧ eq (.ftd 1000000000) (.tdelta 0) = false ∧ eq (.ftd 0) (.tdelta 0) = false
    ∧ eq (.ftd 1) (.cell (.int 1)) = false ∧ eq (.cell (.int 1)) (.ftd 1) = false ∧ eq (.ftd 0) (.cdelta 0) = false ∧ eq (.ftd 0) (.fdt 0) = false
    ∧ eq (.arr [1] [.ftd 1000000]) (.arr [1] [.ftd 1000000]) = true ∧ eq (.arr [1] [.ftd 1]) (.arr [1] [.cell (.int 1)]) = false := by decide

/-- instances of list / tuple subclasses (namedtuples, `class L(list)`): the unfolding equation - same class, same length, all elements `eq` -/
theorem eq_sub (c d : Nat) (xs ys : List EVal) : eq (.sub c xs) (.sub d ys) = (c == d && all2 eq xs ys) := by
  simp only [eq, EVal.norm, eqN, eqArr_normList]; rfl

/-- **list / tuple subclasses, as an iff through observations**: an instance of subclass `c` is `eq` to exactly the instances of THE SAME class with
the same length and an `eq` element at every position - never to a plain list or tuple holding the same elements (`eq(P(1,2), (1,2))` is False although
python's `==` is True), never to an instance of another subclass, an array, a scalar. -/
theorem eq_sub_iff (c : Nat) (xs : List EVal) (b : EVal) :
    eq (.sub c xs) b = true ↔ ∃ ys, b = .sub c ys ∧ xs.length = ys.length ∧ ∀ k (h1 : k < xs.length) (h2 : k < ys.length), eq xs[k] ys[k] = true := by
  cases b <;> try (simp [eq, EVal.norm, eqN]; done)
  rename_i d ys
  rw [eq_sub, Bool.and_eq_true, beq_iff_eq, all2_iff_get]
  constructor
  · rintro ⟨rfl, h⟩; exact ⟨ys, rfl, h⟩
  · rintro ⟨ys', he, h⟩; cases he; exact ⟨rfl, h⟩

/-- the same for the plain containers (the clause "False whenever container types differ (list vs tuple ...)" as an iff) -/
theorem eq_list_iff (xs : List EVal) (b : EVal) :
    eq (.list xs) b = true ↔ ∃ ys, b = .list ys ∧ xs.length = ys.length ∧ ∀ k (h1 : k < xs.length) (h2 : k < ys.length), eq xs[k] ys[k] = true := by
  cases b <;> try (simp [eq, EVal.norm, eqN]; done)
  rename_i ys
  rw [eq_list, all2_iff_get]
  constructor
  · intro h; exact ⟨ys, rfl, h⟩
  · rintro ⟨ys', he, h⟩; cases he; exact h

theorem eq_tuple_iff (xs : List EVal) (b : EVal) :
    eq (.tuple xs) b = true ↔ ∃ ys, b = .tuple ys ∧ xs.length = ys.length ∧ ∀ k (h1 : k < xs.length) (h2 : k < ys.length), eq xs[k] ys[k] = true := by
  cases b <;> try (simp [eq, EVal.norm, eqN]; done)
  rename_i ys
  rw [eq_tuple, all2_iff_get]
  constructor
  · intro h; exact ⟨ys, rfl, h⟩
  · rintro ⟨ys', he, h⟩; cases he; exact h

-- a namedtuple `P(1, nan)` (class 1): eq to a copy with another NaN object and with `1.0` for `1`, not to the tuple, not to `Q(1, nan)` (class 2),
-- not to the list subclass instance (class 3); an empty list-subclass instance is not the empty list
example : eq (.sub 1 [.cell (.int 1), .cell .nan]) (.sub 1 [.cell (.flt 4), .cell .nan]) = true
    ∧ eq (.sub 1 [.cell (.int 1), .cell .nan]) (.tuple [.cell (.int 1), .cell .nan]) = false
    ∧ eq (.tuple [.cell (.int 1), .cell .nan]) (.sub 1 [.cell (.int 1), .cell .nan]) = false
    ∧ eq (.sub 1 [.cell (.int 1), .cell .nan]) (.sub 2 [.cell (.int 1), .cell .nan]) = false
    ∧ eq (.sub 3 []) (.list []) = false ∧ eq (.sub 3 []) (.sub 3 []) = true ∧ eq (.sub 3 []) (.sub 4 []) = false
    ∧ eq (.sub 1 [.cell (.int 1)]) (.sub 1 [.cell (.int 1), .cell (.int 2)]) = false := by decide

/-- a `pd.Index` as a value: the unfolding equation - the labels one by one (NaN-aware; a string label is no datetime label) -/
theorem eq_index (i j : List Cell) : eq (.index i) (.index j) = idxEq i j := by
  simp only [eq, EVal.norm, eqN]

/-- **`pd.Index` as a value, as an iff**: an Index is `eq` to exactly the Index objects with the same number of labels and the same label at every position
(`LabelsSame`: NaN with NaN, otherwise python `==`) - never to the list, tuple, array or Series of its labels, never to a scalar.  The SUBCLASS of the Index
(`RangeIndex`, `DatetimeIndex`, ...) is not part of the value: the branch tests `isinstance(y, pd.Index)`, which is what makes a Series over a `RangeIndex`
`eq` to the same Series over `Index([0, 1, ...])`. -/
theorem eq_index_iff (i : List Cell) (b : EVal) : eq (.index i) b = true ↔ ∃ j, b = .index j ∧ LabelsSame i j := by
  cases b <;> try (simp [eq, EVal.norm, eqN]; done)
  rename_i j
  rw [eq_index, idxEq_iff]
  constructor
  · intro h; exact ⟨j, rfl, h⟩
  · rintro ⟨j', he, h⟩; cases he; exact h

/-- two Series / two DataFrames are `eq` only if their axes are `eq` AS VALUES: the axis comparison inside the pandas branch is the `pd.Index` branch -/
theorem eq_series_index (i j : List Cell) (xs ys : List EVal) (h : eq (.series i xs) (.series j ys) = true) : eq (.index i) (.index j) = true := by
  rw [eq_series, Bool.and_eq_true] at h; rw [eq_index]; exact h.1

theorem eq_frame_index (i j c d : List Cell) (xs ys : List EVal) (h : eq (.frame i c xs) (.frame j d ys) = true) :
    eq (.index i) (.index j) = true ∧ eq (.index c) (.index d) = true := by
  rw [eq_frame, Bool.and_eq_true, Bool.and_eq_true] at h; rw [eq_index, eq_index]; exact h.1

example : eq (.index [.int 1, .nan]) (.index [.flt 4, .nan]) = true ∧ eq (.index [.int 1]) (.list [.cell (.int 1)]) = false
    ∧ eq (.list [.cell (.int 1)]) (.index [.int 1]) = false ∧ eq (.index [.int 1]) (.arr [1] [.cell (.int 1)]) = false
    ∧ eq (.index [.int 0]) (.series [.int 0] [.cell (.int 0)]) = false ∧ eq (.cell (.int 1)) (.index [.int 1]) = false
    ∧ eq (.index []) (.index []) = true ∧ eq (.index [.int 1, .int 2]) (.index [.int 1]) = false
    ∧ eq (.index [.str "2020-01-01"]) (.index [.dt 63713433600000000]) = false := by decide

end Pyg.Props.C14
