/-
  C15 — tree flatten/rebuild are inverse; tree_update is a non-destructive deep merge.
  Property theorems only (helper lemmas: PygProofs/Lemmas/TreeLemmas.lean).
  The value model (PygModel/Tree.lean) is purely functional; "neither t nor u is modified" is stated on the HEAP model
  (PygModel/TreeHeap.lean: dict nodes with real aliasing; `update_frame`, `update_result_fresh`, `table_to_tree_frame`), where it is
  not true by construction (`*_shallow_false` are the pre-fix codes); on the implementation it is observed with deep snapshots of
  both operands and by writing into the result afterwards (findings F7, C15-T1, fixed).
-/
import PygModel.Tree
import PygProofs.Lemmas.TreeLemmas
import PygProofs.Lemmas.TreeMerge
import PygProofs.Lemmas.TreeHeapLemmas
import PygProofs.Lemmas.TreeHeapAbs
import PygProofs.Lemmas.TreeTableLemmas
import PygProofs.Lemmas.TreeTableInv
import PygProofs.Lemmas.TreeTableRows

namespace Pyg.Props.C15
open Pyg Pyg.Tree Pyg.DA Pyg.TreeHeap

/-- `tree_keys` and `tree_values` are the paths and the leaves of `tree_items`, in the same order -/
theorem keys_values_of_items (t : Val) :
    keys t = (items t).map (·.1) ∧ values t = (items t).map (·.2) :=
  ⟨keys_eq t, values_eq t⟩

/-- `tree_getitem(t, path)` returns the leaf for every listed path (distinct keys per branch) -/
theorem getitem_paths (t : Val) (h : wf t = true) (p : Path) (v : Val) (hm : (p, v) ∈ items t) :
    getItem t p = .ok v := getItem_items t h p v hm

/-- ... also on a tree of `dictattr` / `Dict` nodes, whose item access falls back to dotted paths for MISSING keys: whenever
the plain walk finds a value (in particular for every listed path) the class-aware walk finds the same one -/
theorem getitem_dotted_of_getitem (b : Bool) : ∀ (p : Path) (t : Val) (v : Val), getItem t p = .ok v →
    getItemC b t p = .ok v
  | [], t, v, h => by cases t <;> simpa [getItem, getItemC] using h
  | k :: rest, .dict kvs, v, h => by
      simp only [getItem] at h
      simp only [getItemC]
      cases hl : lookup k kvs with
      | none => simp [hl, throw, throwThe, MonadExceptOf.throw] at h
      | some w => simp only [hl] at h ⊢; exact getitem_dotted_of_getitem b rest w v h
  | k :: rest, .cell _, v, h => by simp [getItem, throw, throwThe, MonadExceptOf.throw] at h
  | k :: rest, .list _, v, h => by simp [getItem, throw, throwThe, MonadExceptOf.throw] at h
  | k :: rest, .tuple _, v, h => by simp [getItem, throw, throwThe, MonadExceptOf.throw] at h

theorem getitem_paths_any_class (b : Bool) (t : Val) (h : wf t = true) (p : Path) (v : Val) (hm : (p, v) ∈ items t) :
    getItemC b t p = .ok v := getitem_dotted_of_getitem b p t v (getitem_paths t h p v hm)

/-- **the join / split round trip of dot-free keys** (review v2 C15: was a hypothesis): joining a non-empty list of keys none of
which holds a dot and splitting the string on dots (`splitDots` = core's `String.split '.'`, the function the model and the driver
op `gets` use) gives the list back.  From core's `String.toList_split_intercalate`. -/
theorem splitDots_intercalate (p : List String) (hp : p ≠ []) (hd : ∀ k ∈ p, '.' ∉ k.toList) :
    splitDots (".".intercalate p) = p := by
  have h := String.toList_split_intercalate (c := '.') (l := p) hd
  have e : String.singleton '.' = "." := by decide
  rw [e] at h
  simp only [splitDots, h, hp, if_false]

/-- **paths spelled as dotted STRINGS** (`tree_getitem(t, 'a.b.c')`, part of `observe_at`): the code splits the string on dots first
(`_tree.py`: `path.split('.')`; model / driver op `gets`: `splitDots`), so the string spelling `s` of a listed path `p` reads `p`'s
leaf whenever splitting gives `p` back (`hs`) ... -/
theorem getitem_string_paths (b : Bool) (t : Val) (h : wf t = true) (p : Path) (v : Val) (hm : (p, v) ∈ items t)
    (s : String) (hs : splitDots s = p) : getItemC b t (splitDots s) = .ok v := by
  rw [hs]; exact getitem_paths_any_class b t h p v hm

/-- ... which is the case for **every listed path whose keys are dot-free**: its dotted spelling `'.'.join(p)` reads its leaf.
No hypothesis about splitting is left (`splitDots_intercalate`); a listed path is non-empty because branches are (`wf`). -/
theorem getitem_dotted_spelling (b : Bool) (t : Val) (h : wf t = true) (p : Path) (v : Val) (hm : (p, v) ∈ items t)
    (hp : p ≠ []) (hd : ∀ k ∈ p, '.' ∉ k.toList) : getItemC b t (splitDots (".".intercalate p)) = .ok v :=
  getitem_string_paths b t h p v hm _ (splitDots_intercalate p hp hd)

example : getItemC true (.dict [("a", .dict [("b", .cell (.int 6))])]) (splitDots (".".intercalate ["a", "b"])) = .ok (.cell (.int 6)) :=
  getitem_dotted_spelling true _ (by decide) ["a", "b"] _ (by decide) (by simp) (by decide)

/-- ... and NOT otherwise: in `{'a.b': 5, 'a': {'b': 6}}` the path `('a.b',)` is listed with leaf 5, but its string spelling
`'a.b'` is split into the OTHER listed path `('a', 'b')` and reads 6 (real code: `tree_getitem({'a.b':5,'a':{'b':6}}, 'a.b') == 6`).
The clause "tree_getitem returns the leaf for every listed path" is a statement about LIST paths (`getitem_paths`); for string
spellings it holds for dot-free keys only. -/
theorem getitem_string_dotted_key_witness :
    wf (.dict [("a.b", .cell (.int 5)), ("a", .dict [("b", .cell (.int 6))])]) = true ∧
    items (.dict [("a.b", .cell (.int 5)), ("a", .dict [("b", .cell (.int 6))])]) =
      [(["a.b"], Val.cell (.int 5)), (["a", "b"], Val.cell (.int 6))] ∧
    getItemC true (.dict [("a.b", .cell (.int 5)), ("a", .dict [("b", .cell (.int 6))])]) ["a.b"] = .ok (.cell (.int 5)) ∧
    getItemC true (.dict [("a.b", .cell (.int 5)), ("a", .dict [("b", .cell (.int 6))])]) ["a", "b"] = .ok (.cell (.int 6)) := by
  refine ⟨by decide, by decide, ?_, ?_⟩ <;> simp [getItemC, lookup, pure, Except.pure]

#guard ".".intercalate ["a", "b", "c"] == "a.b.c" && splitDots "a.b.c" == ["a", "b", "c"] && splitDots "a" == ["a"] && splitDots "" == [""]
#guard splitDots "a..b." == "a..b.".splitOn "." && splitDots ".a" == ["", "a"]     -- python's 'a..b.'.split('.') == ['a', '', 'b', '']
#guard splitDots (".".intercalate ["a.b"]) == ["a", "b"]            -- a key holding a dot does not survive the round trip
#guard (match getItemC true (.dict [("a.b", .cell (.int 5)), ("a", .dict [("b", .cell (.int 6))])]) (splitDots "a.b") with
  | .ok v => v == .cell (.int 6) | _ => false)

/-- for plain dicts the class-aware walk IS the plain walk -/
theorem getitem_plain : ∀ (p : Path) (t : Val), getItemC false t p = getItem t p
  | [], t => by cases t <;> rfl
  | k :: rest, .dict kvs => by
      simp only [getItemC, getItem, Bool.false_and, Bool.false_eq_true, if_false]
      cases lookup k kvs with
      | none => rfl
      | some w => exact getitem_plain rest w
  | k :: rest, .cell _ => rfl
  | k :: rest, .list _ => rfl
  | k :: rest, .tuple _ => rfl

/-- `tree_get(t, path, default)` is `tree_getitem` with the default in place of every error -/
theorem tree_get_spec (d : Val) : ∀ (p : Path) (t : Val),
    treeGet t p d = match getItem t p with
      | .ok v => v
      | .error _ => d
  | [], t => by cases t <;> rfl
  | k :: rest, .dict kvs => by
      simp only [treeGet, getItem]
      cases lookup k kvs with
      | none => rfl
      | some w => exact tree_get_spec d rest w
  | k :: rest, .cell _ => rfl
  | k :: rest, .list _ => rfl
  | k :: rest, .tuple _ => rfl

/-- `tree_setitem(t, path, v)`: `ValueError` for an empty path, otherwise the path write `setKVs` — read back by
`setitem_get`, framed by `setitem_frame` / `setitem_frame_deep` -/
theorem tree_setitem_spec (kvs : List (String × Val)) (p : Path) (v : Val) (ig : List Val) :
    treeSetItem kvs p v ig = if p = [] then .error .value else .ok (setKVs kvs p v ig) := by
  cases p <;> simp [treeSetItem, throw, throwThe, MonadExceptOf.throw, pure, Except.pure]

/-- FRAME at any depth: a path write changes nothing that can be read through a path `q` branching off `p` (some position
holds different keys): every value of the tree outside the written path, at every depth, reads back as before -/
theorem setitem_frame_deep (v : Val) (ig : List Val) : ∀ (p q : Path) (kvs : List (String × Val)) (w : Val),
    (∃ i, i < p.length ∧ i < q.length ∧ p[i]? ≠ q[i]? ∧ p.take i = q.take i) →
    getItem (.dict kvs) q = .ok w → getItem (.dict (setKVs kvs p v ig)) q = .ok w
  | [], q, kvs, w, h, _ => by obtain ⟨i, hi, _⟩ := h; simp at hi
  | k :: rest, [], kvs, w, h, _ => by obtain ⟨i, _, hi, _⟩ := h; simp at hi
  | k :: rest, j :: qs, kvs, w, h, hr => by
      obtain ⟨i, hip, hiq, hne, htk⟩ := h
      by_cases e : j = k
      · subst e
        -- same head: the difference is further down
        cases i with
        | zero => simp at hne
        | succ i =>
          simp only [List.length_cons, Nat.add_lt_add_iff_right] at hip hiq
          simp only [List.getElem?_cons_succ, List.take_succ_cons, List.cons.injEq, true_and] at hne htk
          cases rest with
          | nil => simp at hip
          | cons k2 r2 =>
            rw [setKVs_deep]
            simp only [getItem, lookup_set, if_true]
            simp only [getItem] at hr
            cases hl : lookup j kvs with
            | none => simp [hl, throw, throwThe, MonadExceptOf.throw] at hr
            | some old =>
              simp only [hl] at hr
              cases old with
              | dict s =>
                have : subOf j kvs = s := by simp [subOf, hl]
                rw [this]
                exact setitem_frame_deep v ig (k2 :: r2) qs s w ⟨i, hip, hiq, hne, htk⟩ hr
              | _ => cases qs with
                | nil => simp at hiq
                | cons q1 qr => simp [getItem, throw, throwThe, MonadExceptOf.throw] at hr
      · have hj : (k :: rest).head? ≠ some j := by simp [Ne.symm e]
        simp only [getItem, lookup_setKVs_other (k :: rest) kvs v ig j hj]
        simpa [getItem] using hr

/-- the branching hypothesis is satisfiable: `a.b` and `a.c` part at position 1; writing `a.b` keeps `a.c` -/
example : ∃ i, i < ["a", "b"].length ∧ i < ["a", "c"].length ∧ ["a", "b"][i]? ≠ ["a", "c"][i]? ∧
    ["a", "b"].take i = ["a", "c"].take i := ⟨1, by decide, by decide, by decide, by decide⟩
example : getItem (.dict (setKVs [("a", .dict [("c", .cell (.int 1))])] ["a", "b"] (.cell (.int 2)) [])) ["a", "c"] =
    .ok (.cell (.int 1)) := rfl
-- the dotted fallback only matters for unlisted paths: `tree_getitem(dictattr(a = dictattr(b = 1)), ['a.b'])` is 1, a dict
-- raises KeyError
#guard (match getItemC true (.dict [("a", .dict [("b", .cell (.int 1))])]) ["a.b"] with | .ok (.cell (.int 1)) => true | _ => false)
#guard (match getItemC false (.dict [("a", .dict [("b", .cell (.int 1))])]) ["a.b"] with | .error .key => true | _ => false)

/-- path insertion creating branches on demand: what is written at a path is read back there … -/
theorem setitem_get (kvs : List (String × Val)) (p : Path) (v : Val) (hp : p ≠ []) :
    getItem (.dict (setKVs kvs p v [])) p = .ok v := getItem_setKVs p kvs v hp

/-- … and every other top-level key of the tree is left alone -/
theorem setitem_frame (kvs : List (String × Val)) (p : Path) (v : Val) (ig : List Val) (j : String)
    (hj : p.head? ≠ some j) : lookup j (setKVs kvs p v ig) = lookup j kvs :=
  lookup_setKVs_other p kvs v ig j hj

/-- the `ignore` rule: an existing leaf survives exactly when the new value is in `ignore`; a new
key is written whatever its value -/
theorem ignore_spec (kvs : List (String × Val)) (k : String) (v : Val) (ig : List Val) :
    lookup k (setKVs kvs [k] v ig) =
      match lookup k kvs with
      | some old => if ig.contains v then some old else some v
      | none => some v := setKVs_leaf kvs k v ig

/-- `tree_update(t, {}) == t` -/
theorem update_empty (kvs : List (String × Val)) (ig : List Val) :
    update (.dict kvs) (.dict []) ig = .ok (.dict kvs) := by
  simp [update, items, itemsKVs, itemsToTree, Except.map, pure, Except.pure]

/-- `items_to_tree(tree_items(t)) == t` for EVERY tree (a dict) with distinct keys in every branch
and no empty branch below the root, at any depth — whatever the `ignore` list. -/
theorem items_roundtrip (kvs : List (String × Val)) (ig : List Val)
    (hw : wf (.dict kvs) = true) (hn : noEmpty (.dict kvs) = true) :
    itemsToTree (items (.dict kvs)) [] ig = .ok kvs := by
  rw [itemsToTree_items ig [] kvs hw hn]
  simp only [wf, Bool.and_eq_true, decide_eq_true_eq] at hw
  rw [mergeKVs_fresh ig kvs hw.2 [] (by simpa using hw.1)]
  rfl

/-- the tree must be a dict: a bare leaf flattens to the keyless item `(leaf,)`, which
`items_to_tree` rejects (`ValueError`, as the code) -/
theorem items_roundtrip_leaf (v : Val) (hv : ∀ s, v ≠ .dict s) (base : List (String × Val)) (ig : List Val) :
    itemsToTree (items v) base ig = .error Err.value := by
  simp [items_leaf v hv, itemsToTree, throw, throwThe, MonadExceptOf.throw]

/-- the hypothesis "no empty branch" is needed: an empty branch has no items and is lost -/
theorem items_roundtrip_empty_branch_false :
    itemsToTree (items (.dict [("a", .dict [])])) [] [] = .ok [] := by rfl

/-- `tree_update(t, u) ==` the recursive merge (`u`'s leaves override unless ignored, branches on
both sides are merged, leaf-vs-branch conflicts go to `u`, the rest of `t` is kept), for EVERY dict
`t` (no hypothesis at all on `t`) and EVERY dict `u` with distinct keys and no empty branch. -/
theorem update_is_merge (a b : List (String × Val)) (ig : List Val)
    (hw : wf (.dict b) = true) (hn : noEmpty (.dict b) = true) :
    update (.dict a) (.dict b) ig = .ok (merge ig (.dict a) (.dict b)) := by
  simp only [update, itemsToTree_items ig a b hw hn, merge]
  rfl

/-- what the merge is, key by key (this pins the executable specification `merge` down): a key of
`u` holds `u`'s value merged into what `t` had there (`mergeAt`: a leaf of `u` overrides unless
ignored and the key existed; a branch of `u` is merged into `t`'s branch, or replaces `t`'s leaf,
or is hung as it is on a new key), every other key keeps `t`'s value. -/
theorem merge_lookup (ig : List Val) (k : String) : ∀ (b a : List (String × Val)),
    (b.map (·.1)).Nodup →
    lookup k (mergeKVs ig a b) =
      match lookup k b with
      | some v => some (mergeAt ig k a v)
      | none => lookup k a
  | [], a, _ => by simp [mergeKVs, lookup]
  | (k', v) :: b, a, hn => by
      simp only [List.map_cons, List.nodup_cons] at hn
      rw [mergeKVs_cons, merge_lookup ig k b _ hn.2]
      by_cases e : k = k'
      · subst e
        simp [lookup, lookup_eq_none k b hn.1, lookup_set]
      · simp only [lookup, if_neg e]
        cases lookup k b with
        | none => simp [lookup_set, e]
        | some w => simp [mergeAt, lookup_set, e]

theorem mergeAt_leaf (ig : List Val) (k : String) (a : List (String × Val)) (v : Val)
    (hv : ∀ s, v ≠ .dict s) :
    mergeAt ig k a v = match lookup k a with
      | some old => if ig.contains v then old else v
      | none => v := by
  simp only [mergeAt]
  cases lookup k a with
  | none => exact mergeNew_leaf ig v hv
  | some old => exact merge_leaf ig old v hv

theorem mergeAt_branch (ig : List Val) (k : String) (a s : List (String × Val)) :
    mergeAt ig k a (.dict s) = .dict (mergeKVs ig (subOf k a) s) := by
  simp only [mergeAt, subOf]
  cases lookup k a with
  | none => rfl
  | some old => cases old <;> rfl

/-- `tree_update(t, t) == t` (any ignore list) -/
theorem update_idem (a : List (String × Val)) (ig : List Val)
    (hw : wf (.dict a) = true) (hn : noEmpty (.dict a) = true) :
    update (.dict a) (.dict a) ig = .ok (.dict a) := by
  rw [update_is_merge a a ig hw hn, merge_self ig _ hw]

/-- the one-leaf case of `update_is_merge` (former `update_is_merge_partial`) -/
theorem update_one_leaf (kvs : List (String × Val)) (k : String) (v : Val) (ig : List Val)
    (hv : ∀ s, v ≠ .dict s) :
    update (.dict kvs) (.dict [(k, v)]) ig = .ok (merge ig (.dict kvs) (.dict [(k, v)])) := by
  apply update_is_merge
  · cases v with
    | dict s => exact absurd rfl (hv s)
    | _ => simp [wf, wfKVs]
  · cases v with
    | dict s => exact absurd rfl (hv s)
    | _ => simp [noEmpty, noEmptyKVs]

/-- the rest of `t` is kept by a one-leaf update -/
theorem update_leaf_other (kvs : List (String × Val)) (k j : String) (v : Val) (ig : List Val)
    (hj : j ≠ k) : lookup j (setKVs kvs [k] v ig) = lookup j kvs :=
  lookup_setKVs_other [k] kvs v ig j (by simp [Ne.symm hj])

/-! ### the heap model: "neither t nor u is modified at any depth" -/

/-- `update_frame`: in the heap model of the REPAIRED `tree_update` (dict nodes in a heap, `copy`,
`base()`, item assignments; PygModel/TreeHeap.lean), for ANY heap (sharing, cycles, dangling addresses
allowed), any addresses `t`, `u` and any fuel: if the call returns, every item assignment it made
targets a node allocated during the call, so every node that existed before the call — in particular
every node reachable from `t` or `u`, at any depth — is unchanged; the result is a new node. -/
theorem update_frame (f : Nat) (m : Mem) (t u : Nat) (ig : List Val) (m' : Mem) (r : Nat)
    (h : treeUpdateH f m t u ig = .ok (m', r)) :
    (∃ writes, m'.log = writes ++ m.log ∧ ∀ a ∈ writes, m.heap.length ≤ a) ∧
    (∀ a, a < m.heap.length → m'.heap[a]? = m.heap[a]?) ∧ r = m.heap.length := by
  simp only [treeUpdateH] at h
  split at h
  · cases h
  · next its _ =>
    obtain ⟨hr, hs, _⟩ := itemsToTreeH_safe f m its t ig m' r h
    exact ⟨hs.log, hs.same, hr⟩

/-- hence both operands read back as the same trees after the call -/
theorem update_operands_unchanged (f : Nat) (m : Mem) (t u : Nat) (ig : List Val) (m' : Mem) (r : Nat)
    (h : treeUpdateH f m t u ig = .ok (m', r)) (g : Nat) (x : Ref) (v : Val)
    (hx : readH m.heap g x = some v) : readH m'.heap g x = some v := by
  simp only [treeUpdateH] at h
  split at h
  · cases h
  · next its _ =>
    exact (itemsToTreeH_safe f m its t ig m' r h).2.1.readH (Nat.le_refl _) g x v hx

/-- the heap model refines the pure model: if `t` and `u` represent the pure trees `tv` (distinct
keys) and `uv` in the heap (`Own false`: sharing between branches allowed), the fuel covers their
depths, and the pure `tree_update` returns `w`, then the heap `tree_update` returns a new node that
represents `w` in tree shape — and reading that node back (`readH`) gives exactly `w`. -/
theorem update_abstraction (f : Nat) (m : Mem) (t u : Nat) (ig : List Val) (tv uv w : Val)
    (fpt fpu : List Nat) (ht : Own false m.heap tv (.ptr t) fpt) (hu : Own false m.heap uv (.ptr u) fpu)
    (hwt : wf tv = true) (hdt : depth tv ≤ f) (hdu : depth uv ≤ f)
    (hup : update tv uv ig = .ok w) :
    ∃ m' fp, treeUpdateH f m t u ig = .ok (m', m.heap.length) ∧
      Own true m'.heap w (.ptr m.heap.length) fp ∧
      ∀ g, depth w ≤ g → readH m'.heap g (.ptr m.heap.length) = some w := by
  obtain ⟨a, rfl⟩ := Own_ptr_dict ht
  simp only [update, itemsToTree] at hup
  split at hup
  · cases hup
  · next hnd =>
    split at hup
    · cases hup
    · next hne =>
      simp only [pure, Except.pure, Except.map, Except.ok.injEq] at hup
      subst hup
      obtain ⟨m1, fp1, hcopy, hown1, _⟩ := copyH_abs (.dict a) f m t fpt ht hdt hwt
      obtain ⟨fp2, hown2⟩ := setItemsH_abs ig m.heap.length (items uv) (items_snd_leaf uv) m1 a fp1 hown1
      refine ⟨setItemsH m1 m.heap.length (items uv) ig, fp2, ?_, hown2, fun g hg => readH_of_Own _ _ fp2 g hown2 hg⟩
      simp only [treeUpdateH, itemsH_of_Own uv (.ptr u) fpu f hu hdu, itemsToTreeH, hnd, hne, hcopy]
      rfl

/-- with `update_is_merge`: on the heap, `tree_update` builds the recursive merge in new nodes -/
theorem update_heap_is_merge (f : Nat) (m : Mem) (t u : Nat) (ig : List Val) (a b : List (String × Val))
    (fpt fpu : List Nat) (ht : Own false m.heap (.dict a) (.ptr t) fpt)
    (hu : Own false m.heap (.dict b) (.ptr u) fpu)
    (hwt : wf (.dict a) = true) (hwu : wf (.dict b) = true) (hnu : noEmpty (.dict b) = true)
    (hdt : depth (.dict a) ≤ f) (hdu : depth (.dict b) ≤ f) :
    ∃ m', treeUpdateH f m t u ig = .ok (m', m.heap.length) ∧
      ∀ g, depth (merge ig (.dict a) (.dict b)) ≤ g →
        readH m'.heap g (.ptr m.heap.length) = some (merge ig (.dict a) (.dict b)) := by
  obtain ⟨m', _, h1, _, h3⟩ := update_abstraction f m t u ig _ _ _ fpt fpu ht hu hwt hdt hdu
    (update_is_merge a b ig hwu hnu)
  exact ⟨m', h1, h3⟩

/-- non-vacuity of `update_abstraction` / `update_heap_is_merge`: an operand whose two branches are the
SAME dict object (node 0 is shared) is a representation (`Own false`) -/
example : Own false [[("b", .val (.cell (.int 1)))], [("x", .ptr 0), ("y", .ptr 0)]]
    (.dict [("x", .dict [("b", .cell (.int 1))]), ("y", .dict [("b", .cell (.int 1))])]) (.ptr 1) [1, 0, 0] := by
  simp only [Own, OwnKVs]
  refine ⟨1, _, [0, 0], rfl, rfl, rfl, by simp, .ptr 0, _, [0], [0], rfl, rfl, ?_, ?_, by simp⟩
  · exact ⟨0, _, [], rfl, rfl, rfl, by simp, _, _, [], [], rfl, rfl, ⟨rfl, rfl⟩, ⟨rfl, rfl⟩, by simp⟩
  · refine ⟨.ptr 0, _, [0], [], rfl, rfl, ?_, ⟨rfl, rfl⟩, by simp⟩
    exact ⟨0, _, [], rfl, rfl, rfl, by simp, _, _, [], [], rfl, rfl, ⟨rfl, rfl⟩, ⟨rfl, rfl⟩, by simp⟩

/-- end to end, for ALL pure trees (this also shows the hypotheses above are satisfiable for every pair
of trees): lay `t = dict a` (distinct keys) and `u = dict b` (distinct keys, no empty branch) out in
any heap, run the heap `tree_update` with enough fuel: it returns a new node that reads back as the
recursive merge, and `t` and `u` read back unchanged. -/
theorem update_on_heap (m0 : Mem) (a b : List (String × Val)) (ig : List Val)
    (hwt : wf (.dict a) = true) (hwu : wf (.dict b) = true) (hnu : noEmpty (.dict b) = true)
    (f : Nat) (hft : depth (.dict a) ≤ f) (hfu : depth (.dict b) ≤ f) :
    ∃ t u m', (allocTree m0 (.dict a)).2 = .ptr t ∧
      (allocTree (allocTree m0 (.dict a)).1 (.dict b)).2 = .ptr u ∧
      treeUpdateH f (allocTree (allocTree m0 (.dict a)).1 (.dict b)).1 t u ig =
        .ok (m', (allocTree (allocTree m0 (.dict a)).1 (.dict b)).1.heap.length) ∧
      (∀ g, depth (merge ig (.dict a) (.dict b)) ≤ g →
        readH m'.heap g (.ptr (allocTree (allocTree m0 (.dict a)).1 (.dict b)).1.heap.length) =
          some (merge ig (.dict a) (.dict b))) ∧
      readH m'.heap f (.ptr t) = some (.dict a) ∧ readH m'.heap f (.ptr u) = some (.dict b) := by
  obtain ⟨fp1, h1, _, _, _⟩ := allocTree_Own (.dict a) m0
  obtain ⟨fp2, h2, _, _, hsame2⟩ := allocTree_Own (.dict b) (allocTree m0 (.dict a)).1
  have hlt1 := Own.lt _ _ fp1 h1
  have h1' := Own.congr _ _ fp1 h1 fun x hx => hsame2 x (hlt1 x hx)
  generalize (allocTree (allocTree m0 (.dict a)).1 (.dict b)).1 = m2 at *
  cases hr1 : (allocTree m0 (.dict a)).2 with
  | val w => rw [hr1] at h1'; exact absurd rfl ((Own_val h1').2.2 a)
  | ptr t =>
    cases hr2 : (allocTree (allocTree m0 (.dict a)).1 (.dict b)).2 with
    | val w => rw [hr2] at h2; exact absurd rfl ((Own_val h2).2.2 b)
    | ptr u =>
      rw [hr1] at h1'
      rw [hr2] at h2
      obtain ⟨m', hrun, hread⟩ := update_heap_is_merge f m2 t u ig a b fp1 fp2
        (Own.weaken _ _ _ h1') (Own.weaken _ _ _ h2) hwt hwu hnu hft hfu
      exact ⟨t, u, m', rfl, rfl, hrun, hread,
        update_operands_unchanged f m2 t u ig m' _ hrun f _ _ (readH_of_Own _ _ fp1 f h1' hft),
        update_operands_unchanged f m2 t u ig m' _ hrun f _ _ (readH_of_Own _ _ fp2 f h2 hfu)⟩

/-- F7: the code before the fix (`copy(tree)`, one level) violates the frame property:
`t = {'a': {'b': 1}}; tree_update(t, {'a': {'c': 2}})` writes `c` into the node of `t['a']` -/
private def mF7 : Mem :=
  ⟨[[("b", .val (.cell (.int 1)))], [("a", .ptr 0)], [("c", .val (.cell (.int 2)))], [("a", .ptr 2)]], []⟩

theorem update_frame_shallow_false :
    ∃ m', treeUpdateShallow 3 mF7 1 3 [] = .ok (m', 4) ∧ m'.log = [0] ∧
      m'.heap[0]? = some [("b", .val (.cell (.int 1))), ("c", .val (.cell (.int 2)))] ∧
      readH mF7.heap 3 (.ptr 1) = some (.dict [("a", .dict [("b", .cell (.int 1))])]) ∧
      readH m'.heap 3 (.ptr 1) = some (.dict [("a", .dict [("b", .cell (.int 1)), ("c", .cell (.int 2))])]) :=
  ⟨_, rfl, rfl, rfl, rfl, rfl⟩

/-- the repaired code on the same heap: succeeds, writes only the new nodes 4 and 5 -/
example : ∃ m', treeUpdateH 3 mF7 1 3 [] = .ok (m', 4) ∧ m'.log = [5, 4] ∧
    readH m'.heap 3 (.ptr 1) = some (.dict [("a", .dict [("b", .cell (.int 1))])]) ∧
    readH m'.heap 3 (.ptr 4) = some (.dict [("a", .dict [("b", .cell (.int 1)), ("c", .cell (.int 2))])]) :=
  ⟨_, rfl, rfl, rfl, rfl⟩

/-! ### non-vacuity / evaluation of the full statement on concrete trees -/

private def i (n : Int) : Val := .cell (.int n)
private def t0 : Val := .dict [("a", .dict [("b", i 1), ("z", .dict [("q", i 5)])]), ("c", i 3)]
private def u0 : Val := .dict [("a", .dict [("c", i 2), ("z", i 7)]), ("c", .dict [("n", .cell .none)])]

example : wf t0 = true ∧ noEmpty t0 = true := by decide
example : wf u0 = true ∧ noEmpty u0 = true := by decide
example : (["a", "z", "q"], i 5) ∈ items t0 := by decide
example : ((itemsToTree (items t0) [] []).toOption.map Val.dict) = some t0 := by decide
-- overlapping branches, leaf over branch, branch over leaf; update = merge; update t t = t
example : (update t0 u0 []).toOption = some (merge [] t0 u0) := by decide
example : (update t0 u0 []).toOption = some (.dict [("a", .dict [("b", i 1), ("z", i 7), ("c", i 2)]),
    ("c", .dict [("n", .cell .none)])]) := by decide
example : (update t0 t0 []).toOption = some t0 := by decide
example : (update t0 (.dict [("c", .cell .none), ("d", .cell .none)]) [.cell .none]).toOption =
    some (.dict [("a", .dict [("b", i 1), ("z", .dict [("q", i 5)])]), ("c", i 3), ("d", .cell .none)]) := by decide

/-! ### table_to_tree / tree_to_table are inverse -/

section table
open Pyg.TreeTable

/-- `table_tree_inverse` — "table_to_tree and tree_to_table with the same pattern are inverse on rows with unique paths",
direction table → tree → table, for EVERY pattern (literal and wildcard segments anywhere, repeated names allowed, at
least two segments) and EVERY table: if the rows bind the pattern (`rowItem` succeeds: `its` are the items `(path, leaf)`
written for the rows), the paths are distinct and the leaves are not dicts, then `table_to_tree(None, P, rows)` returns a
tree `t` such that
* `tree_to_table(t, P)` is, up to row order, EXACTLY the table of the rows restricted to the names of `P`
  (`List.Perm`: nothing else comes out and every row comes out as often as it occurs — soundness and completeness;
  `restrict` is pinned down by `restrict_spec` below);
* every row's leaf is read back at the row's path (`tree_getitem`).
The row order is that of `tree_items` (rows sharing a first key are grouped), hence a permutation and not an equality. -/
theorem table_tree_inverse (P : List Seg) (rows : List Row) (its : List (Path × Val))
    (h2 : 2 ≤ P.length)
    (hits : rows.mapM (rowItem P) = .ok its)
    (hnd : (its.map (·.1)).Nodup)
    (hleaf : ∀ pv ∈ its, ∀ s, pv.2 ≠ .dict s) :
    ∃ t, toTree P rows = .ok t ∧
      (toTable P (.dict t)).Perm (rows.map (restrict P)) ∧
      (∀ pv ∈ its, getItem (.dict t) pv.1 = .ok pv.2) := by
  -- every item comes from a row: its path has `P.length - 1 ≥ 1` keys
  have hlen : ∀ pv ∈ its, pv.1.length + 1 = P.length := by
    intro pv hm
    obtain ⟨row, _, hrow⟩ := mem_of_mapM_ok (rowItem P) rows its hits pv hm
    exact rowItem_length P row pv hrow
  have hne : ∀ pv ∈ its, pv.1 ≠ [] := by
    intro pv hm e
    have := hlen pv hm
    rw [e] at this
    simp at this; omega
  have hbr : (its.map (·.1)).Pairwise Branch := by
    refine List.Pairwise.imp_of_mem ?_ hnd
    intro p q hp hq hpq
    obtain ⟨x, hx, rfl⟩ := List.mem_map.1 hp
    obtain ⟨y, hy, rfl⟩ := List.mem_map.1 hq
    exact branch_of_ne _ _ (by have := hlen x hx; have := hlen y hy; omega) hpq
  -- the tree built has exactly the items written (up to order) and uniform depth
  have hB := items_buildOn (P.length - 2) its [] (Uni_empty _)
    (fun pv hm => ⟨by have := hlen pv hm; omega, hleaf pv hm⟩) (by simpa [itemsKVs] using hnd)
  have hU : Uni (P.length - 1) (.dict (buildOn [] its)) := by
    have e : P.length - 1 = P.length - 2 + 1 := by omega
    rw [e]; exact hB.2
  refine ⟨buildOn [] its, toTree_eq_buildOn P rows its [] hits hne, ?_, buildOn_reads_back its [] hbr hne⟩
  rw [toTable_eq_filterMap P _ (by intro e; rw [e] at h2; simp at h2) hU, ← filterMap_rowOf_of_mapM P rows its hits]
  have := hB.1
  simp only [itemsKVs, List.nil_append] at this
  exact this.filterMap _

/-- (b) `rowOf P (rowItem P row) = row` on the pattern's names: the row `tree_to_table` makes of the item that
`table_to_tree` writes for `row` is `row` restricted to the names of `P` -/
theorem rowOf_rowItem_restrict (P : List Seg) (row : Row) (pv : Path × Val) (h : rowItem P row = .ok pv) :
    rowOf P pv.1 pv.2 = some (restrict P row) := rowOf_rowItem P row pv h

/-- what "restricted to the names of `P`" is: cell by cell the row's cell for a name of the pattern and nothing for any
other column, no column twice; and for a pattern with distinct names the columns are the names, last wildcard first
(the order in which `tree_to_table` updates its row dicts) -/
theorem restrict_spec (P : List Seg) (row : Row) :
    (∀ m, lookup m (restrict P row) = if m ∈ names P then lookup m row else none) ∧
    ((restrict P row).map (·.1)).Nodup ∧
    ((names P).Nodup → restrict P row = (names P).reverse.filterMap fun n => (lookup n row).map fun x => (n, x)) :=
  ⟨fun m => restrict_lookup row m P, restrict_keys_nodup row P, restrict_eq_of_nodup row P⟩

/-- the former `table_tree_inverse_partial` (completeness half), now a corollary: the row of every item written is in
`tree_to_table(t, P)` -/
theorem table_tree_rows_complete (P : List Seg) (rows : List Row) (its : List (Path × Val))
    (h2 : 2 ≤ P.length) (hits : rows.mapM (rowItem P) = .ok its) (hnd : (its.map (·.1)).Nodup)
    (hleaf : ∀ pv ∈ its, ∀ s, pv.2 ≠ .dict s) :
    ∃ t, toTree P rows = .ok t ∧ ∀ pv ∈ its, ∀ r, rowOf P pv.1 pv.2 = some r → r ∈ toTable P (.dict t) := by
  obtain ⟨t, ht, hp, _⟩ := table_tree_inverse P rows its h2 hits hnd hleaf
  refine ⟨t, ht, ?_⟩
  intro pv hm r hr
  obtain ⟨row, hrow, hi⟩ := mem_of_mapM_ok (rowItem P) rows its hits pv hm
  rw [rowOf_rowItem P row pv hi] at hr
  cases hr
  exact hp.mem_iff.2 (List.mem_map.2 ⟨row, hrow, rfl⟩)

/-- non-vacuity: `'markets/%market/weight/%weight'` with two rows (columns in a different order, an extra column) -/
private def exP : List Seg := [.lit "markets", .wild "market", .lit "weight", .wild "weight"]
private def exRows : List Row :=
  [[("market", .cell (.str "TY")), ("weight", .cell (.int 3)), ("zzz", .cell .none)],
   [("weight", .cell (.int 7)), ("market", .cell (.str "ES"))]]
example : exRows.mapM (rowItem exP) = .ok [(["markets", "TY", "weight"], .cell (.int 3)), (["markets", "ES", "weight"], .cell (.int 7))] := rfl
example : rowOf exP ["markets", "ES", "weight"] (.cell (.int 7)) = some [("weight", .cell (.int 7)), ("market", .cell (.str "ES"))] := rfl
example : toTree exP exRows = .ok [("markets", .dict [("TY", .dict [("weight", .cell (.int 3))]), ("ES", .dict [("weight", .cell (.int 7))])])] := rfl
example : exRows.map (restrict exP) = [[("weight", .cell (.int 3)), ("market", .cell (.str "TY"))],
    [("weight", .cell (.int 7)), ("market", .cell (.str "ES"))]] := rfl

/-- the hypothesis "distinct paths" is needed: two rows with one path, the later leaf overwrites the earlier -/
theorem table_tree_inverse_dup_path_false :
    let P : List Seg := [.wild "a", .wild "b"]
    let rows : List Row := [[("a", .cell (.str "x")), ("b", .cell (.int 1))], [("a", .cell (.str "x")), ("b", .cell (.int 2))]]
    (toTree P rows).map (fun t => toTable P (.dict t)) = .ok [[("b", .cell (.int 2)), ("a", .cell (.str "x"))]] := rfl

/-- the hypothesis "leaves are not dicts" is needed: a dict leaf is a branch for `tree_to_table`, the last wildcard
then binds its KEYS -/
theorem table_tree_inverse_dict_leaf_false :
    let P : List Seg := [.wild "a", .wild "b"]
    let rows : List Row := [[("a", .cell (.str "x")), ("b", .dict [("k", .cell (.int 1))])]]
    (toTree P rows).map (fun t => toTable P (.dict t)) = .ok [[("b", .cell (.str "k")), ("a", .cell (.str "x"))]] := rfl

/-- `tree_table_inverse` — the other direction, tree → table → tree, for EVERY pattern of at least two segments with
distinct names and EVERY tree (a dict) with distinct keys in every branch, no empty branch below the root, ALL of whose
items match the pattern (`rowOf` is defined on them): `table_to_tree(None, P, tree_to_table(t, P)) == t` (same key
order).  Each hypothesis is needed: see the three `…_false` witnesses below. -/
theorem tree_table_inverse (P : List Seg) (kvs : List (String × Val))
    (h2 : 2 ≤ P.length) (hn : (names P).Nodup)
    (hw : wf (.dict kvs) = true) (hne : noEmpty (.dict kvs) = true)
    (hm : ∀ pv ∈ items (.dict kvs), (rowOf P pv.1 pv.2).isSome = true) :
    toTree P (toTable P (.dict kvs)) = .ok kvs := by
  have hlen : ∀ pv ∈ items (.dict kvs), pv.1.length = P.length - 1 := by
    intro pv hpv
    have := hm pv hpv
    cases hr : rowOf P pv.1 pv.2 with
    | none => simp [hr] at this
    | some r => have := rowOf_length P pv.1 pv.2 r hr; omega
  have hU : Uni (P.length - 1) (.dict kvs) :=
    Uni_of_items (P.length - 1) (.dict kvs) hw hne hlen (fun e => by omega)
  have hP : P ≠ [] := by intro e; rw [e] at h2; simp at h2
  rw [toTable_eq_filterMap P _ hP hU]
  -- the rows, mapped back, are the items of the tree in `tree_items` order
  have hmap : ((items (.dict kvs)).filterMap fun pv => rowOf P pv.1 pv.2).mapM (rowItem P) = .ok (items (.dict kvs)) := by
    apply mapM_filterMap_inv
    intro pv hpv
    cases hr : rowOf P pv.1 pv.2 with
    | none => have := hm pv hpv; simp [hr] at this
    | some r => exact ⟨r, rfl, rowItem_rowOf P pv.1 pv.2 r hn hr⟩
  have hne' : ∀ pv ∈ items (.dict kvs), pv.1 ≠ [] := fun pv hpv => itemsKVs_path_ne kvs pv (by simpa [items] using hpv)
  have h1 := toTree_eq_buildOn P _ (items (.dict kvs)) [] hmap hne'
  simp only [toTree]
  rw [h1]
  -- … and folding the items of a tree into the empty tree rebuilds it (`items_roundtrip`)
  have h3 := items_roundtrip kvs [] hw hne
  have hnd := items_nodup (.dict kvs) hw
  have hemp := itemsKVs_any_empty kvs
  simp only [items] at hnd
  simp only [itemsToTree, items, hnd, not_true_eq_false, if_false, hemp, Bool.false_eq_true, pure, Except.pure,
    Except.ok.injEq] at h3
  simp only [items, buildOn]
  rw [h3]

/-- non-vacuity of `tree_table_inverse` -/
private def exT : List (String × Val) :=
  [("markets", .dict [("TY", .dict [("weight", .cell (.int 3))]), ("ES", .dict [("weight", .cell (.int 7))])])]
example : wf (.dict exT) = true ∧ noEmpty (.dict exT) = true ∧ (names exP).Nodup ∧
    ∀ pv ∈ items (.dict exT), (rowOf exP pv.1 pv.2).isSome = true := by decide
example : toTree exP (toTable exP (.dict exT)) = .ok exT := rfl

/-- "all items match" is needed: a sibling key that does not match the literal is lost
(`{'a': 1, 'b': 2}` with `'a/%x'` comes back as `{'a': 1}`) -/
theorem tree_table_inverse_sibling_false :
    let P : List Seg := [.lit "a", .wild "x"]
    toTree P (toTable P (.dict [("a", .cell (.int 1)), ("b", .cell (.int 2))])) = .ok [("a", .cell (.int 1))] := rfl

/-- "distinct names" is needed: with `'%a/%a/%b'` the item `x/y/1` has a row (`rowOf` is defined: the outer key wins the
column `a`), but that row is written back at `x/x` -/
theorem tree_table_inverse_dup_names_false :
    (∀ pv ∈ items (.dict [("x", .dict [("y", .cell (.int 1))])]),
      (rowOf [.wild "a", .wild "a", .wild "b"] pv.1 pv.2).isSome = true) ∧
    toTree [.wild "a", .wild "a", .wild "b"] (toTable [.wild "a", .wild "a", .wild "b"]
      (.dict [("x", .dict [("y", .cell (.int 1))])])) = .ok [("x", .dict [("x", .cell (.int 1))])] := by
  refine ⟨?_, rfl⟩
  decide

/-- "no empty branch" is needed: an empty branch has no items, hence no rows -/
theorem tree_table_inverse_empty_branch_false :
    let P : List Seg := [.wild "a", .wild "b"]
    toTree P (toTable P (.dict [("x", .dict [])])) = .ok [] := rfl

end table

/-! ## Round h2 (review s2): result freshness, `table_to_tree` on a base tree -/

section round_h2
open Pyg.TreeTable

/-- FRESHNESS of the result of `tree_update` (review s2: proved in the lemmas, not stated): the result is a new node and every
dict node allocated by the call — the result and everything reachable from it — only points to nodes allocated by the call: the
result shares NO dict node with `t` or `u`, at any depth -/
theorem update_result_fresh (f : Nat) (m : Mem) (t u : Nat) (ig : List Val) (m' : Mem) (r : Nat)
    (h : treeUpdateH f m t u ig = .ok (m', r)) :
    r = m.heap.length ∧
    ∀ x, m.heap.length ≤ x → ∀ k b, lookup k (node m' x) = some (.ptr b) → m.heap.length ≤ b := by
  simp only [treeUpdateH] at h
  split at h
  · cases h
  · next its _ =>
    obtain ⟨hr, _, hc⟩ := itemsToTreeH_safe f m its t ig m' r h
    exact ⟨hr, hc⟩

/-- ... hence an item assignment into the result (or into any node reachable from it: all of them are new) AFTER the call does not
change what `t`, `u` or any other tree that existed before the call read back as -/
theorem update_result_write_safe (f : Nat) (m : Mem) (t u : Nat) (ig : List Val) (m' : Mem) (r : Nat)
    (h : treeUpdateH f m t u ig = .ok (m', r)) (a : Nat) (ha : m.heap.length ≤ a) (k : String) (x : Ref)
    (g : Nat) (y : Ref) (v : Val) (hy : readH m.heap g y = some v) : readH (store m' a k x).heap g y = some v := by
  simp only [treeUpdateH] at h
  split at h
  · cases h
  · next its _ =>
    obtain ⟨_, hs, _⟩ := itemsToTreeH_safe f m its t ig m' r h
    exact (hs.trans (Safe_store _ m' a k x ha)).readH (Nat.le_refl _) g y v hy

/-- `table_to_tree(tree, pattern, rows, base = type(tree))` on the heap (repaired code, the sibling of `update_frame`): every item
assignment targets a node allocated during the call, every node that existed before — the caller's tree at any depth — is unchanged,
the result is a new node sharing no dict node with the caller's tree -/
theorem table_to_tree_frame (f : Nat) (m : Mem) (its : List (Path × Val)) (t : Nat) (m' : Mem) (r : Nat)
    (h : tableToTreeH f m its t = .ok (m', r)) :
    (∃ writes, m'.log = writes ++ m.log ∧ ∀ a ∈ writes, m.heap.length ≤ a) ∧
    (∀ a, a < m.heap.length → m'.heap[a]? = m.heap[a]?) ∧ r = m.heap.length ∧
    (∀ x, m.heap.length ≤ x → ∀ k b, lookup k (node m' x) = some (.ptr b) → m.heap.length ≤ b) ∧
    ∀ g y v, readH m.heap g y = some v → readH m'.heap g y = some v := by
  obtain ⟨hr, hs, hc⟩ := tableToTreeH_safe f m its t m' r h
  exact ⟨hs.log, hs.same, hr, hc, fun g y v hy => hs.readH (Nat.le_refl _) g y v hy⟩

/-- the code before the fix (`copy(tree)`, one level) violates it: `t = {'m': {'TY': {'w': 1}}}`,
`table_to_tree(t, 'm/%k/w/%w', [dict(k = 'TY', w = 9)])` writes `w = 9` into the node of `t['m']['TY']` -/
private def mT : Mem := ⟨[[("w", .val (.cell (.int 1)))], [("TY", .ptr 0)], [("m", .ptr 1)]], []⟩

theorem table_to_tree_frame_shallow_false :
    ∃ m', tableToTreeShallow mT [(["m", "TY", "w"], .cell (.int 9))] 2 = .ok (m', 3) ∧ m'.log = [0] ∧
      readH mT.heap 4 (.ptr 2) = some (.dict [("m", .dict [("TY", .dict [("w", .cell (.int 1))])])]) ∧
      readH m'.heap 4 (.ptr 2) = some (.dict [("m", .dict [("TY", .dict [("w", .cell (.int 9))])])]) :=
  ⟨_, rfl, rfl, rfl, rfl⟩

/-- the repaired code on the same heap writes only new nodes and leaves the caller's tree as it was -/
example : ∃ m', tableToTreeH 4 mT [(["m", "TY", "w"], .cell (.int 9))] 2 = .ok (m', 3) ∧ (∀ a ∈ m'.log, 3 ≤ a) ∧
    readH m'.heap 4 (.ptr 2) = some (.dict [("m", .dict [("TY", .dict [("w", .cell (.int 1))])])]) ∧
    readH m'.heap 4 (.ptr 3) = some (.dict [("m", .dict [("TY", .dict [("w", .cell (.int 9))])])]) :=
  ⟨_, rfl, by decide, rfl, rfl⟩

/-- `table_to_tree(None, …)` is the base-tree form on the empty tree -/
theorem toTree_eq_toTreeOn (P : List Seg) (rows : List Row) : toTree P rows = toTreeOn [] P rows := rfl

/-- `table_to_tree(tree, P, rows)` as a VALUE: when the rows bind the pattern (items `its`, none with an empty path — patterns of
at least two segments) it is the sequence of path writes of the items into the base tree; with pairwise branching paths every
item is read back at its path, and every leaf of the base tree whose path branches off all written paths is still there -/
theorem table_to_tree_on_base (base : List (String × Val)) (P : List Seg) (rows : List Row) (its : List (Path × Val))
    (hits : rows.mapM (rowItem P) = .ok its) (hne : ∀ pv ∈ its, pv.1 ≠ []) :
    toTreeOn base P rows = .ok (buildOn base its) ∧
    ((its.map (·.1)).Pairwise Branch → ∀ pv ∈ its, getItem (.dict (buildOn base its)) pv.1 = .ok pv.2) ∧
    ∀ p w, (∀ pv ∈ its, Branch pv.1 p) → getItem (.dict base) p = .ok w → getItem (.dict (buildOn base its)) p = .ok w :=
  ⟨toTree_eq_buildOn P rows its base hits hne, fun hp => buildOn_reads_back its base hp hne,
   fun p w hb hg => buildOn_keeps p w its base hb hg⟩

/-- why `update_is_merge` asks for `noEmpty u`: an empty branch of `u` has no item, so `tree_update` ignores it while the
recursive merge would hang it in -/
theorem update_is_merge_empty_branch_false :
    update (.dict [("a", .cell (.int 1))]) (.dict [("a", .dict [])]) [] = .ok (.dict [("a", .cell (.int 1))]) ∧
    merge [] (.dict [("a", .cell (.int 1))]) (.dict [("a", .dict [])]) = .dict [("a", .dict [])] :=
  ⟨rfl, by decide⟩

end round_h2

end Pyg.Props.C15
