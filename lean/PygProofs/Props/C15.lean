/-
  C15 — tree flatten/rebuild are inverse; tree_update is a non-destructive deep merge.
  Property theorems only (helper lemmas: PygProofs/Lemmas/TreeLemmas.lean).
  The model is purely functional: "neither t nor u is modified" cannot fail in it; on the
  implementation it is observed with deep snapshots of both operands (finding F7, fixed).
-/
import PygModel.Tree
import PygProofs.Lemmas.TreeLemmas

namespace Pyg.Props.C15
open Pyg Pyg.Tree Pyg.DA

/-- `tree_keys` and `tree_values` are the paths and the leaves of `tree_items`, in the same order -/
theorem keys_values_of_items (t : Val) :
    keys t = (items t).map (·.1) ∧ values t = (items t).map (·.2) :=
  ⟨keys_eq t, values_eq t⟩

/-- `tree_getitem(t, path)` returns the leaf for every listed path (distinct keys per branch) -/
theorem getitem_paths (t : Val) (h : wf t = true) (p : Path) (v : Val) (hm : (p, v) ∈ items t) :
    getItem t p = .ok v := getItem_items t h p v hm

/-- path insertion creating branches on demand: what is written at a path is read back there … -/
theorem setitem_get (kvs : List (String × Val)) (p : Path) (v : Val) (hp : p ≠ []) :
    getItem (.dict (setKVs kvs p v [])) p = .ok v := getItem_setKVs p kvs v hp

/-- … and every other top-level key of the tree is left alone -/
theorem setitem_frame (kvs : List (String × Val)) (p : Path) (v : Val) (ig : List Val) (j : String)
    (hj : p.head? ≠ some j) : lookup j (setKVs kvs p v ig) = lookup j kvs :=
  lookup_setKVs_other p kvs v ig j hj

/-- the `ignore` rule: an existing leaf survives exactly when the new value is in `ignore`; a new
key is written whatever its value -/
theorem ignore_spec (kvs : List (String × Val)) (k : String) (v : Val) (ig : List Val) :
    lookup k (setKVs kvs [k] v ig) =
      match lookup k kvs with
      | some old => if ig.contains v then some old else some v
      | none => some v := setKVs_leaf kvs k v ig

/-- `tree_update(t, {}) == t` -/
theorem update_empty (kvs : List (String × Val)) (ig : List Val) :
    update (.dict kvs) (.dict []) ig = .ok (.dict kvs) := by
  simp [update, items, itemsKVs, itemsToTree, Except.map, pure, Except.pure]

/-- PARTIAL (`items_to_tree(tree_items(t)) == t`): proved for trees of depth one (every value a
leaf, distinct keys).  Not proved: arbitrary depth (needs: folding the items of a non-empty subtree
hung on a fresh key appends exactly that subtree).  The general statement is checked by
correspondence (op `fromitems` against `items`) and by the round-trip law on the implementation. -/
theorem items_roundtrip_partial (kvs : List (String × Val)) (hn : (kvs.map (·.1)).Nodup)
    (hl : ∀ kv ∈ kvs, ∀ s, kv.2 ≠ .dict s) :
    itemsToTree (items (.dict kvs)) [] [] = .ok kvs := by
  have hi : itemsKVs kvs = kvs.map fun kv => ([kv.1], kv.2) := by
    induction kvs with
    | nil => rfl
    | cons kv kvs ih =>
      obtain ⟨k, v⟩ := kv
      simp only [List.map_cons, List.nodup_cons] at hn
      have hv : ∀ s, v ≠ .dict s := hl (k, v) (by simp)
      have : items v = [([], v)] := by
        cases v with
        | dict s => exact absurd rfl (hv s)
        | _ => rfl
      simp only [itemsKVs, this, List.map_cons, List.map_nil, List.singleton_append]
      rw [ih hn.2 fun kv h => hl kv (by simp [h])]
  have hp : ((itemsKVs kvs).map (·.1)).Nodup := by
    rw [hi, List.map_map]
    have : ((fun (x : Path × Val) => x.1) ∘ fun (kv : String × Val) => ([kv.1], kv.2)) =
        (fun s => [s]) ∘ (fun kv : String × Val => kv.1) := rfl
    rw [this, ← List.map_map]
    exact List.Pairwise.map (fun s => [s]) (fun a b h => by simpa using h) hn
  have he : (itemsKVs kvs).any (·.1.isEmpty) = false := by
    rw [hi]; simp [List.any_eq_false]
  simp only [itemsToTree, items, hp, not_true_eq_false, if_false, he, Bool.false_eq_true]
  rw [hi, foldl_setKVs_flat, setAll_nil_of_nodup kvs hn]
  rfl

/-- PARTIAL (`tree_update` = recursive merge): proved for a one-leaf update `{k: v}` — `u`'s leaf
overrides unless ignored, everything else of `t` is kept (`update_leaf_other`).  Not proved: the
general equation `update t u ig = merge ig t u` for `wf` trees and `u` without empty branches, and
its corollary `tree_update(t, t) == t`; both are checked on every run against the executable
`merge` (driver op `merge`) by the harness's reference merge and by the idempotence law. -/
theorem update_is_merge_partial (kvs : List (String × Val)) (k : String) (v : Val) (ig : List Val)
    (hv : ∀ s, v ≠ .dict s) :
    update (.dict kvs) (.dict [(k, v)]) ig = .ok (merge ig (.dict kvs) (.dict [(k, v)])) := by
  have : items v = [([], v)] := by
    cases v with
    | dict s => exact absurd rfl (hv s)
    | _ => rfl
  simp only [update, items, itemsKVs, this, List.map_cons, List.map_nil, List.append_nil,
    itemsToTree, List.nodup_cons, List.not_mem_nil, not_false_eq_true, List.nodup_nil, and_self,
    not_true_eq_false, if_false, List.any_cons, List.isEmpty_cons, List.any_nil, Bool.or_self,
    Bool.false_eq_true, List.foldl_cons, List.foldl_nil, Except.map, pure, Except.pure, merge, mergeKVs]
  congr 2
  cases hl : lookup k kvs with
  | none =>
    have : mergeNew ig v = v := by
      cases v with
      | dict s => exact absurd rfl (hv s)
      | _ => rfl
    simp [setKVs, hl, this]
  | some old =>
    have hm : merge ig old v = if ig.contains v then old else v := by
      cases v with
      | dict s => exact absurd rfl (hv s)
      | _ => cases old <;> rfl
    simp only [setKVs, hl, Option.isSome_some, Bool.true_and, hm]
    -- re-assigning the old value changes nothing
    have hset : ∀ (l : List (String × Val)), lookup k l = some old → DA.set k old l = l := by
      intro l
      induction l with
      | nil => simp [lookup]
      | cons x xs ih =>
        obtain ⟨a, b⟩ := x
        simp only [lookup, DA.set]
        by_cases e : k = a
        · rw [if_pos e, if_pos e]; intro h; cases h; rfl
        · rw [if_neg e, if_neg e]; intro h; rw [ih h]
    by_cases hi : ig.contains v = true
    · rw [if_pos hi, if_pos hi]; exact (hset kvs hl).symm
    · rw [if_neg hi, if_neg hi]

/-- the rest of `t` is kept by a one-leaf update -/
theorem update_leaf_other (kvs : List (String × Val)) (k j : String) (v : Val) (ig : List Val)
    (hj : j ≠ k) : lookup j (setKVs kvs [k] v ig) = lookup j kvs :=
  lookup_setKVs_other [k] kvs v ig j (by simp [Ne.symm hj])

/-! ### non-vacuity / evaluation of the full statement on concrete trees -/

private def i (n : Int) : Val := .cell (.int n)
private def t0 : Val := .dict [("a", .dict [("b", i 1), ("z", .dict [("q", i 5)])]), ("c", i 3)]
private def u0 : Val := .dict [("a", .dict [("c", i 2), ("z", i 7)]), ("c", .dict [("n", .cell .none)])]

example : wf t0 = true ∧ noEmpty t0 = true := by decide
example : (["a", "z", "q"], i 5) ∈ items t0 := by decide
example : ((itemsToTree (items t0) [] []).toOption.map Val.dict) = some t0 := by decide
-- overlapping branches, leaf over branch, branch over leaf; update = merge; update t t = t
example : (update t0 u0 []).toOption = some (merge [] t0 u0) := by decide
example : (update t0 u0 []).toOption = some (.dict [("a", .dict [("b", i 1), ("z", i 7), ("c", i 2)]),
    ("c", .dict [("n", .cell .none)])]) := by decide
example : (update t0 t0 []).toOption = some t0 := by decide
example : (update t0 (.dict [("c", .cell .none), ("d", .cell .none)]) [.cell .none]).toOption =
    some (.dict [("a", .dict [("b", i 1), ("z", .dict [("q", i 5)])]), ("c", i 3), ("d", .cell .none)]) := by decide

end Pyg.Props.C15
