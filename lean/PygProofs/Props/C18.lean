/-
  C18 — decorators are transparent: same results, same signature, no double wrapping.
  Property theorems only (helper lemmas live in PygProofs/Lemmas).
-/
import PygModel.Bind
import PygModel.Cache
import PygModel.Wrap

namespace Pyg.Props.C18
open Pyg

/-- `getargspec(W(f))` is the specification of `f`, for every sequence of decorators -/
theorem spec_forwarded_mk (env : Nat → Sig) (cls : Cls) (kw : PDict) (fn : Fn) :
    specOf env (mk cls kw fn) = specOf env fn := rfl

end Pyg.Props.C18
