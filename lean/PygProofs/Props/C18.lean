/-
  C18 — decorators are transparent: same results, same signature, no double wrapping.
  Property theorems only (helper lemmas live in PygProofs/Lemmas).
-/
import PygModel.Bind
import PygModel.Cache
import PygModel.Wrap
import PygProofs.Lemmas.BindLemmas
import PygProofs.Lemmas.ResDec
import PygProofs.Lemmas.WrapLemmas
import PygProofs.Lemmas.CacheLemmas
import PygProofs.Lemmas.CacheKeyLemmas
import PygModel.WrapHist
import PygProofs.Lemmas.WrapHistSharp
import PygModel.Try
import PygProofs.Lemmas.WrapHistLemmas
import PygProofs.Lemmas.Pd2npLemmas
import PygModel.WrapLoops
import PygProofs.Lemmas.WrapLoopsLemmas

namespace Pyg.Props.C18
open Pyg

/-! ## argument binding

`bindRef s c` is python's own binding of the call `c = f(*args, **kw)` for a function with signature `s`
(the model's assumption, compared with `inspect.getcallargs` and with real calls on every run);
`getcallargs` and `recall` are the library's code.  A *valid call* is one python can bind:
`bindRef s c = .ok b`.  Dicts are compared like python dicts (`PDict.Eqv`: same value under every key). -/

/-- **getcallargs agrees with inspect.getcallargs on every valid call** — every signature (any number of
parameters, trailing defaults, with/without `*args` and `**kwargs`), every way of passing the arguments. -/
theorem getcallargs_agrees (s : Sig) (hs : s.WF) (c : Call) (hkw : (c.kw.map (·.1)).Nodup) (b : PDict)
    (h : bindRef s c = .ok b) : ∃ b', getcallargs s c = .ok b' ∧ PDict.Eqv b' b :=
  getcallargs_agrees_aux s hs c hkw b h

/-- **call_with_callargs(f, getcallargs(f, *a, **k)) == f(*a, **k)**: on a valid call `getcallargs` succeeds,
`call_with_callargs` makes a call, python binds that call to exactly the original binding — so any function
body computes (or raises) the same. -/
theorem call_with_callargs_roundtrip (s : Sig) (hs : s.WF) (c : Call) (hkw : (c.kw.map (·.1)).Nodup)
    (b : PDict) (h : bindRef s c = .ok b) :
    ∃ b' c', getcallargs s c = .ok b' ∧ recall s b' = .ok c' ∧ bindRef s c' = .ok b ∧
      ∀ body : PDict → Res Val, applyFn s body c' = applyFn s body c := by
  obtain ⟨b', hg, he⟩ := getcallargs_agrees_aux s hs c hkw b h
  obtain ⟨_, _, _, _, hb⟩ := bindRef_ok s c b h
  have hr := recall_of_eqv s hs c b' (nodup_getcallargs s hs c b' hg) (hb ▸ he)
  have hb' := bindRef_recalled s c b h
  exact ⟨b', recalled s c, hg, hr, hb', fun body => by simp [applyFn, hb', h]⟩

/-- non-vacuity: `f(a, b=2, *args, **kw)` called as `f(1, 2, 3, x=4)` and as `f(b=5, a=1)` -/
example :
    let s : Sig := { params := ["a", "b"], defaults := [.cell (.int 2)], varargs := some "args", varkw := some "kw" }
    s.WF ∧
    bindRef s { args := [.cell (.int 1), .cell (.int 2), .cell (.int 3)], kw := [("x", .cell (.int 4))] } =
      .ok [("a", .cell (.int 1)), ("b", .cell (.int 2)), ("args", .tuple [.cell (.int 3)]),
           ("kw", .dict [("x", .cell (.int 4))])] ∧
    bindRef s { args := [], kw := [("b", .cell (.int 5)), ("a", .cell (.int 1))] } =
      .ok [("a", .cell (.int 1)), ("b", .cell (.int 5)), ("args", .tuple []), ("kw", .dict [])] ∧
    getcallargs s { args := [], kw := [("b", .cell (.int 5)), ("a", .cell (.int 1))] } =
      .ok [("b", .cell (.int 5)), ("args", .tuple []), ("kw", .dict []), ("a", .cell (.int 1))] := by
  refine ⟨⟨by decide, by decide, ?_, ?_, ?_⟩, by decide, by decide, by decide⟩
  · intro n h; cases h; decide
  · intro n h; cases h; decide
  · intro n m h1 h2; cases h1; cases h2; decide

/-! ## kwargs_support, try_* -/

/-- **kwargs_support makes a function ignore exactly the keywords it does not declare**: undeclared keywords
make no difference to the call that reaches `f`, and every declared keyword still reaches it. -/
theorem kwargs_support_ignores_exactly (s : Sig) (c : Call) (junk : PDict) (hj : ∀ p ∈ junk, p.1 ∉ s.params) :
    kwFilter s { c with kw := c.kw ++ junk } = kwFilter s c ∧
    ∀ p ∈ c.kw, p.1 ∈ s.params → p ∈ (kwFilter s c).kw := by
  constructor
  · simp only [kwFilter, List.filter_append, Call.mk.injEq, true_and]
    have : junk.filter (fun p => s.params.contains p.1) = [] := by
      rw [List.filter_eq_nil_iff]
      intro p hp
      simpa using hj p hp
    rw [this, List.append_nil]
  · intro p hp hd
    simp only [kwFilter, List.mem_filter]
    exact ⟨hp, by simpa using hd⟩

/-- for a function WITHOUT `**kwargs` the wrapper is transparent on every valid call … -/
theorem kwargs_support_transparent (s : Sig) (hv : s.varkw = none) (c : Call) (b : PDict)
    (h : bindRef s c = .ok b) : kwFilter s c = c := by
  obtain ⟨_, _, hC, _, _⟩ := bindRef_ok s c b h
  have hex : extraKw s c.kw = [] := by
    by_cases he : extraKw s c.kw = []
    · exact he
    · exact absurd ⟨hv, he⟩ hC
  unfold extraKw at hex
  rw [List.filter_eq_nil_iff] at hex
  have : c.kw.filter (fun p => s.params.contains p.1) = c.kw := by
    apply List.filter_eq_self.2
    intro p hp
    simpa using hex p hp
  cases c
  simp only [kwFilter, Call.mk.injEq, true_and]
  exact this

/-- **the clause at the level of results**: for a function without `**kwargs`, `kwargs_support(f)` called with a
valid call of `f` PLUS any undeclared keywords returns (or raises) exactly what `f` returns on the valid call —
the undeclared keywords are ignored, every declared one reaches `f`. -/
theorem kwargs_support_result (s : Sig) (hv : s.varkw = none) (body : PDict → Res Val) (c : Call) (b : PDict)
    (h : bindRef s c = .ok b) (junk : PDict) (hj : ∀ p ∈ junk, p.1 ∉ s.params) (p : PDict) :
    evalChain s body [(.kwargsSupport, p)] { c with kw := c.kw ++ junk } = applyFn s body c := by
  simp only [evalChain]
  rw [(kwargs_support_ignores_exactly s c junk hj).1, kwargs_support_transparent s hv c b h]

/-- non-vacuity: `f(a, b=2)` called as `kwargs_support(f)(1, b=5, zz=9)` -/
example :
    let s : Sig := { params := ["a", "b"], defaults := [.cell (.int 2)], varargs := none, varkw := none }
    evalChain s recBody [(.kwargsSupport, [])] { args := [.cell (.int 1)], kw := [("b", .cell (.int 5)), ("zz", .cell (.int 9))] } =
      .ok (.dict [("a", .cell (.int 1)), ("b", .cell (.int 5))]) ∧
    applyFn s recBody { args := [.cell (.int 1)], kw := [("b", .cell (.int 5)), ("zz", .cell (.int 9))] } = .error .type := by
  decide

/-- … but NOT for a function with `**kwargs` (finding K1): `kwargs_support(lambda **kw: kw)(zz=9)` returns `{}`.
The transparency clause of the property is false of the code there; this is the witness. -/
theorem kwargs_support_not_transparent_varkw :
    ∃ (s : Sig) (c : Call) (b : PDict), s.WF ∧ bindRef s c = .ok b ∧
      applyFn s recBody (kwFilter s c) ≠ applyFn s recBody c := by
  refine ⟨{ params := [], defaults := [], varargs := none, varkw := some "kw" },
    { args := [], kw := [("zz", .cell (.int 9))] }, [("kw", .dict [("zz", .cell (.int 9))])], ?_, by decide, ?_⟩
  · refine ⟨by decide, by decide, ?_, ?_, ?_⟩
    · intro n h; cases h
    · intro n h; simp
    · intro n m h; cases h
  · simp [applyFn, bindRef, kwFilter, extraKw, starEntries, recBody, raisesOf, List.findSome?]

/-- **try_value returns its fallback exactly when f raises**, and f's result otherwise -/
theorem try_fallback_iff (s : Sig) (body : PDict → Res Val) (p : PDict) (rest : List (Cls × PDict)) (c : Call)
    (hp : returnsValue p = true) :
    (∀ v, evalChain s body rest c = .ok v → evalChain s body ((.tryValue, p) :: rest) c = .ok v) ∧
    (∀ e, evalChain s body rest c = .error e →
      evalChain s body ((.tryValue, p) :: rest) c = .ok ((p.lookup "value").getD (.cell .none))) := by
  constructor <;> intro x hx <;> simp [evalChain, hx, hp]

/-- `try_back` returns the first argument exactly when f raises -/
theorem try_back_fallback_iff (s : Sig) (body : PDict → Res Val) (p : PDict) (rest : List (Cls × PDict))
    (c : Call) :
    (∀ v, evalChain s body rest c = .ok v → evalChain s body ((.tryBack, p) :: rest) c = .ok v) ∧
    (∀ e, evalChain s body rest c = .error e →
      evalChain s body ((.tryBack, p) :: rest) c = .ok (firstArg s c)) := by
  constructor <;> intro x hx <;> simp [evalChain, hx]

/-! ### the `try_*` clause against an independent reading

`tryValueCode` / `tryBackCode` (PygModel/Try.lean) are the statements of `try_value.wrapped` / `try_back.wrapped`
over an ARBITRARY wrapped function `f : A → Except E V` — no signature, no binding, no chain.  The clause "try_*
wrappers return their fallback exactly when f raises" is: the wrapped call returns
`resultOr (f a) fallback = match f a with | ok v => v | error _ => fallback`. -/

/-- **try_value (any `repeat`, `return_value` true): f's result when f returns, the fallback when f raises** -/
theorem try_value_spec {A E V : Type} (f : A → Except E V) (rep : Nat) (value : V) (a : A) :
    tryValueCode f rep true value a = .ok (resultOr (f a) value) := by
  induction rep with
  | zero => unfold tryValueCode; cases f a <;> rfl
  | succ n ih => unfold tryValueCode; cases h : f a with
    | ok v => rfl
    | error e => simp only [ih, h]

/-- … "exactly when": the fallback is returned iff `f` raises (or returns the fallback itself) -/
theorem try_value_fallback_iff {A E V : Type} (f : A → Except E V) (rep : Nat) (value : V) (a : A) :
    tryValueCode f rep true value a = .ok value ↔ (∃ e, f a = .error e) ∨ f a = .ok value := by
  rw [try_value_spec]
  cases f a with
  | ok v => simp [resultOr]
  | error e => simp [resultOr]

/-- with `return_value = False` nothing is caught in the end: the wrapped call is `f`'s -/
theorem try_value_no_return_spec {A E V : Type} (f : A → Except E V) (rep : Nat) (value : V) (a : A) :
    tryValueCode f rep false value a = f a := by
  induction rep with
  | zero => unfold tryValueCode; rfl
  | succ n ih => unfold tryValueCode; cases h : f a with
    | ok v => rfl
    | error e => simp only [ih, h]

/-- **try_back: f's result when f returns, the first argument when f raises** -/
theorem try_back_spec {A E V : Type} (f : A → Except E V) (first : A → V) (a : A) :
    tryBackCode f first a = .ok (resultOr (f a) (first a)) := by
  unfold tryBackCode; cases f a <;> rfl

/-- **every preset of the code** (`try_nan`, `try_zero`, `try_none`, `try_true`, `try_false`, `try_list`): f's result,
else the preset value -/
theorem try_presets_spec {A E : Type} (f : A → Except E Val) (a : A) :
    ∀ nv ∈ tryPresets, tryValueCode f 0 true nv.2 a = .ok (resultOr (f a) nv.2) :=
  fun nv _ => try_value_spec f 0 nv.2 a

/-- the `try_value` layer of a stack IS that code, run on the stack below it … -/
theorem evalChain_tryValue_eq (s : Sig) (body : PDict → Res Val) (p : PDict) (rest : List (Cls × PDict)) (c : Call) :
    evalChain s body ((.tryValue, p) :: rest) c =
      tryValueCode (evalChain s body rest) (repeatOf p)
        (returnsValue p) ((p.lookup "value").getD (.cell .none)) c := by
  cases hp : returnsValue p
  · simp only [try_value_no_return_spec, evalChain, hp]
    cases evalChain s body rest c <;> simp
  · simp only [try_value_spec, evalChain, hp]
    cases evalChain s body rest c <;> simp [resultOr]

/-- … and so is the `try_back` layer -/
theorem evalChain_tryBack_eq (s : Sig) (body : PDict → Res Val) (p : PDict) (rest : List (Cls × PDict)) (c : Call) :
    evalChain s body ((.tryBack, p) :: rest) c = tryBackCode (evalChain s body rest) (firstArg s) c := by
  simp only [evalChain, tryBackCode]
  cases evalChain s body rest c <;> rfl

/-- **try_value in a stack** (`return_value` not False): what the stack below returns, else the fallback -/
theorem try_value_stack_spec (s : Sig) (body : PDict → Res Val) (p : PDict) (rest : List (Cls × PDict)) (c : Call)
    (hp : returnsValue p = true) :
    evalChain s body ((.tryValue, p) :: rest) c =
      .ok (resultOr (evalChain s body rest c) ((p.lookup "value").getD (.cell .none))) := by
  rw [evalChain_tryValue_eq, hp, try_value_spec]

/-- non-vacuity: `try_zero(f)` on a raising and on a returning call, `repeat = 2` -/
example :
    tryValueCode (fun n : Nat => if n = 0 then Except.error "boom" else Except.ok (10 / n)) 2 true 0 0 = .ok 0 ∧
    tryValueCode (fun n : Nat => if n = 0 then (Except.error "boom" : Except String Nat) else .ok (10 / n)) 2 true 0 5 = .ok 2 :=
  ⟨rfl, rfl⟩

/-- `loops` is NOT transparent for a keyword argument called `axis` (finding K4): it is consumed by the decorator
even when the first argument is not a container, `loop(list)(lambda a, axis=0: (a, axis))(1, axis=5) == (1, 0)`.
The transparency clause of the property is false of the code there; this is the witness. -/
theorem loops_swallows_axis :
    ∃ (s : Sig) (c : Call) (b : PDict), s.WF ∧ bindRef s c = .ok b ∧
      evalChain s recBody [(.loops, [])] c ≠ applyFn s recBody c := by
  refine ⟨{ params := ["a", "axis"], defaults := [.cell (.int 0)], varargs := none, varkw := none },
    { args := [.cell (.int 1)], kw := [("axis", .cell (.int 5))] },
    [("a", .cell (.int 1)), ("axis", .cell (.int 5))], ?_, by decide, by decide⟩
  refine ⟨by decide, by decide, ?_, ?_, ?_⟩
  · intro n h; cases h
  · intro n h; cases h
  · intro n m h; cases h

/-- `pd2np` is NOT transparent for an int ndarray argument (finding K6): on non-pandas input it still runs
`_int2float` over the arguments, so f receives a float array (`~arr:f:…`) where an int array (`~arr:…`) was passed —
documented ("will also convert int numpy arrays into floaters"), but the transparency clause of the property is false
of the code there; this is the witness: `pd2np(lambda a: a)(np.array([1, 2]))` has dtype float. -/
theorem pd2np_converts_int_array :
    ∃ (s : Sig) (c : Call) (b : PDict), s.WF ∧ bindRef s c = .ok b ∧ (∀ p ∈ c.kw, p.1 ∈ s.params) ∧
      evalChain s recBody [(.pd2np, [])] c ≠ applyFn s recBody c ∧
      evalChain s recBody [(.pd2np, [])] c = applyFn s recBody (pd2npCall [] c) ∧
      applyFn s recBody c = .ok (.dict [("a", .cell (.str "~arr:1,2"))]) ∧
      evalChain s recBody [(.pd2np, [])] c = .ok (.dict [("a", .cell (.str "~arr:f:1,2"))]) := by
  refine ⟨{ params := ["a"], defaults := [], varargs := none, varkw := none },
    { args := [.cell (.str "~arr:1,2")], kw := [] }, [("a", .cell (.str "~arr:1,2"))], ?_, by decide +kernel,
    by simp, by decide +kernel, rfl, by decide +kernel, by decide +kernel⟩
  refine ⟨by decide, by decide, ?_, ?_, ?_⟩
  · intro n h; cases h
  · intro n h; cases h
  · intro n m h; cases h

/-- … and that is the only thing it does: a keyword named in `exc` keeps its int array -/
example :
    let s : Sig := { params := ["a", "b"], defaults := [], varargs := none, varkw := none }
    evalChain s recBody [(.pd2np, [("exc", .list [.cell (.str "b")])])]
        { args := [.list [.cell (.str "~arr:1,2"), .cell (.int 3)]], kw := [("b", .cell (.str "~arr:4"))] } =
      .ok (.dict [("a", .list [.cell (.str "~arr:f:1,2"), .cell (.int 3)]), ("b", .cell (.str "~arr:4"))]) := by
  decide +kernel

/-- **Transparency of every stack.** On a valid call that passes only declared keywords, none of them called
`axis` (see `loops_swallows_axis`), and no int ndarray among the arguments (see `pd2np_converts_int_array`), any stack
of `try_value / try_back / kwargs_support / cache (first call) / loops (non-container) / pd2np (non-pandas)` returns
what `f` returns. -/
theorem stack_transparent (s : Sig) (body : PDict → Res Val) :
    ∀ (chain : List (Cls × PDict)) (c : Call) (v : Val), (∀ p ∈ c.kw, p.1 ∈ s.params) →
      (∀ p ∈ c.kw, p.1 ≠ "axis") → c.hasIntArr = false → applyFn s body c = .ok v →
      evalChain s body chain c = .ok v
  | [], c, v, _, _, _, h => by simpa [evalChain] using h
  | (cls, p) :: rest, c, v, hd, hax, hia, h => by
      have ih := stack_transparent s body rest c v hd hax hia h
      have hk : kwFilter s c = c := by
        cases c with
        | mk args kw =>
          simp only [kwFilter, Call.mk.injEq, true_and]
          apply List.filter_eq_self.2
          intro q hq
          simpa using hd q hq
      have hl : evalChain s body rest (loopsCall s c) = .ok v :=
        stack_transparent s body rest (loopsCall s c) v
          (fun q hq => hd q (loopsCall_kw_sub s c q hq)) (fun q hq => hax q (loopsCall_kw_sub s c q hq))
          (loopsCall_hasIntArr s c hia) (by simpa [applyFn, loopsCall_bind s c hax] using h)
      have hp : pd2npCall (excOf p) c = c := pd2npCall_of_no _ c hia
      cases cls <;> simp [evalChain, ih, hk, hl, hp]

/-- for a function without `**kwargs` that is every valid call (without a keyword called `axis`, without an int
ndarray argument) -/
theorem stack_transparent_no_varkw (s : Sig) (hv : s.varkw = none) (body : PDict → Res Val) (c : Call)
    (v : Val) (hax : ∀ p ∈ c.kw, p.1 ≠ "axis") (hia : c.hasIntArr = false) (h : applyFn s body c = .ok v)
    (chain : List (Cls × PDict)) :
    evalChain s body chain c = .ok v := by
  apply stack_transparent s body chain c v _ hax hia h
  cases hb : bindRef s c with
  | error e => simp [applyFn, hb] at h
  | ok b =>
    have := kwargs_support_transparent s hv c b hb
    intro p hp
    rw [← this] at hp
    simp only [kwFilter, List.mem_filter] at hp
    simpa using hp.2

/-- for a function with `**kwargs`, every stack that does not contain `kwargs_support` is transparent on
every valid call (what remains is finding K1) -/
theorem stack_transparent_without_kwargs_support (s : Sig) (body : PDict → Res Val) :
    ∀ (chain : List (Cls × PDict)) (c : Call) (v : Val), (∀ p ∈ c.kw, p.1 ≠ "axis") → c.hasIntArr = false →
      applyFn s body c = .ok v → (∀ w ∈ chain, w.1 ≠ .kwargsSupport) → evalChain s body chain c = .ok v
  | [], c, v, _, _, h, _ => by simpa [evalChain] using h
  | (cls, p) :: rest, c, v, hax, hia, h, hc => by
      have hr : ∀ w ∈ rest, w.1 ≠ .kwargsSupport := fun w hw => hc w (by simp [hw])
      have ih := stack_transparent_without_kwargs_support s body rest c v hax hia h hr
      have hl : evalChain s body rest (loopsCall s c) = .ok v :=
        stack_transparent_without_kwargs_support s body rest (loopsCall s c) v
          (fun q hq => hax q (loopsCall_kw_sub s c q hq)) (loopsCall_hasIntArr s c hia)
          (by simpa [applyFn, loopsCall_bind s c hax] using h) hr
      have hp : pd2npCall (excOf p) c = c := pd2npCall_of_no _ c hia
      have : cls ≠ .kwargsSupport := hc (cls, p) (by simp)
      cases cls <;> simp_all [evalChain]

/-- a stack without `try_*` also raises what `f` raises -/
theorem stack_transparent_raise (s : Sig) (body : PDict → Res Val) :
    ∀ (chain : List (Cls × PDict)) (c : Call), (∀ p ∈ c.kw, p.1 ∈ s.params) → (∀ p ∈ c.kw, p.1 ≠ "axis") →
      c.hasIntArr = false →
      (∀ w ∈ chain, w.1 ≠ .tryValue ∧ w.1 ≠ .tryBack) → evalChain s body chain c = applyFn s body c
  | [], c, _, _, _, _ => by simp [evalChain]
  | (cls, p) :: rest, c, hd, hax, hia, hc => by
      have hr : ∀ w ∈ rest, w.1 ≠ .tryValue ∧ w.1 ≠ .tryBack := fun w hw => hc w (by simp [hw])
      have ih := stack_transparent_raise s body rest c hd hax hia hr
      have hk : kwFilter s c = c := by
        cases c with
        | mk args kw =>
          simp only [kwFilter, Call.mk.injEq, true_and]
          apply List.filter_eq_self.2
          intro q hq
          simpa using hd q hq
      have hl : evalChain s body rest (loopsCall s c) = applyFn s body c := by
        rw [stack_transparent_raise s body rest (loopsCall s c)
          (fun q hq => hd q (loopsCall_kw_sub s c q hq)) (fun q hq => hax q (loopsCall_kw_sub s c q hq))
          (loopsCall_hasIntArr s c hia) hr]
        simp [applyFn, loopsCall_bind s c hax]
      have hp : pd2npCall (excOf p) c = c := pd2npCall_of_no _ c hia
      have := hc (cls, p) (by simp)
      cases cls <;> simp_all [evalChain]

/-! ## no double wrapping

A decorated function is a chain of wrappers with pairwise distinct classes — the invariant the constructor
maintains (`mk_keeps_distinct`) and that holds for a plain function.  `WFn.Eqv` is python's `==` on wrappers
without the memo field. -/

/-- the constructor keeps the classes of a chain distinct: no wrapper class ever occurs twice -/
theorem mk_keeps_distinct (ds : List (Cls × PDict)) (base : Nat) :
    (classes (mkMany ds { chain := [], base := base }).chain).Nodup :=
  mkMany_nodup ds _ (by simp [classes])

/-- **Wrapping twice with the same decorator through a chain of other decorators equals wrapping once**:
`W(D₁(…Dₙ(W(f))…)) == W(D₁(…Dₙ(f)…))` for any decorated `f` and any other decorators `D₁ … Dₙ`. -/
theorem wrap_chain_idem (cls : Cls) (kw : PDict) (hn : (kw.map (·.1)).Nodup) (ds : List (Cls × PDict))
    (hds : ∀ d ∈ ds, d.1 ≠ cls) (fn : WFn) (h : (classes fn.chain).Nodup) :
    WFn.Eqv (mk cls kw (mkMany ds (mk cls kw fn))) (mk cls kw (mkMany ds fn)) := by
  have hg := mk_nodup cls kw fn h
  have hY := mkMany_nodup ds _ hg
  have hZ := mkMany_nodup ds _ h
  have hgc := mk_chain cls kw fn h
  -- the tails coincide
  have hsg : stripAll cls (mk cls kw fn).chain = stripAll cls fn.chain := by
    rw [hgc]
    simp only [stripAll, List.filter, bne_self_eq_false]
    exact stripAll_idem cls fn.chain
  have htail : stripAll cls (mkMany ds (mk cls kw fn)).chain = stripAll cls (mkMany ds fn).chain := by
    rw [stripAll_mkMany_ne cls ds hds _ hg, stripAll_mkMany_ne cls ds hds _ h, hsg]
    rfl
  -- the heads are equal as dicts
  have hpY : paramsOf cls (mkMany ds (mk cls kw fn)).chain = some (newParams cls kw fn.chain) := by
    rw [paramsOf_mkMany_ne cls ds hds _ hg, hgc]
    simp [paramsOf, List.find?]
  have hpZ : paramsOf cls (mkMany ds fn).chain = paramsOf cls fn.chain := paramsOf_mkMany_ne cls ds hds _ h
  have hhead : PDict.Eqv (newParams cls kw (mkMany ds (mk cls kw fn)).chain) (newParams cls kw (mkMany ds fn).chain) := by
    have e1 : newParams cls kw (mkMany ds (mk cls kw fn)).chain = (newParams cls kw fn.chain).update kw := by
      simp only [newParams, hpY]
    have e2 : newParams cls kw (mkMany ds fn).chain = newParams cls kw fn.chain := by
      simp only [newParams, hpZ]
    rw [e1, e2]
    exact newParams_twice cls kw hn fn.chain
  refine ⟨?_, ?_, ?_⟩
  · simp only [mk_base, mkMany_base]
  · rw [mk_chain cls kw _ hY, mk_chain cls kw _ hZ, htail]
    rfl
  · intro i x y hx hy
    rw [mk_chain cls kw _ hY] at hx
    rw [mk_chain cls kw _ hZ] at hy
    cases i with
    | zero =>
      simp only [List.getElem?_cons_zero, Option.some.injEq] at hx hy
      subst hx hy
      exact hhead
    | succ i =>
      simp only [List.getElem?_cons_succ] at hx hy
      rw [htail] at hx
      rw [hx] at hy
      cases hy
      intro k; rfl

/-- **Wrapping twice with the same decorator equals wrapping once**: `W(W(f)) == W(f)` -/
theorem wrap_idem (cls : Cls) (kw : PDict) (hn : (kw.map (·.1)).Nodup) (fn : WFn) (h : (classes fn.chain).Nodup) :
    WFn.Eqv (mk cls kw (mk cls kw fn)) (mk cls kw fn) :=
  wrap_chain_idem cls kw hn [] (by simp) fn h

/-- what a (re-)applied decorator does to a decorated function: it goes on top, any earlier wrapper of its class
is cut out, every other wrapper stays in place -/
theorem mk_shape (cls : Cls) (kw : PDict) (fn : WFn) (h : (classes fn.chain).Nodup) :
    classes (mk cls kw fn).chain = cls :: (classes fn.chain).filter (· != cls) ∧
    (mk cls kw fn).base = fn.base := by
  rw [mk_chain cls kw fn h]
  simp only [classes, List.map_cons]
  exact ⟨by rw [← classes, ← classes, classes_stripAll], rfl⟩

/-- non-vacuity: `try_none(kwargs_support(cache(f)))` re-wrapped with `cache` -/
example :
    let f : WFn := mkMany [(.cache, []), (.kwargsSupport, []), (.tryValue, [("value", .cell .none)])] { chain := [], base := 0 }
    classes f.chain = [.tryValue, .kwargsSupport, .cache] ∧ (classes f.chain).Nodup ∧
    classes (mk .cache [] f).chain = [.cache, .tryValue, .kwargsSupport] := by
  decide

/-- **The wrapper reports f's argument specification** — whatever is stacked on it -/
theorem spec_forwarded (env : Nat → Sig) (ds : List (Cls × PDict)) (fn : WFn) :
    specOf env (mkMany ds fn) = specOf env fn := by
  unfold mkMany
  induction ds generalizing fn with
  | nil => rfl
  | cons d ds ih => simp only [List.foldl_cons]; rw [ih]; rfl

/-! ### the specification survives the memo fields

`spec_forwarded` above is about the chain; the mechanism that could break it is the memo each wrapper object
keeps (`function_fullargspec`), which is filled at one moment and read later, after the chain below or above
it has been rebuilt.  Operations on the memos of a chain: a specification request at any depth (`fillMemos` on a
suffix), a constructor (`mkMemos`: new empty memo on top, any objects below cut out).
`MemoOk base ms` (WrapLemmas): every filled memo holds the plain function's specification — the invariant. -/

/-- the operations on the memo fields of a chain -/
inductive MemoOp where
  | request (depth : Nat)            -- `getargspec` of the object `depth` levels below the top
  | construct (keep : List Bool)     -- a constructor applied on top (objects with `keep = false` are cut out)

def MemoOp.run (base : Sig) : MemoOp → Memos → Memos
  | .request d, ms => ms.take d ++ fillMemos base (ms.drop d)
  | .construct keep, ms => mkMemos keep ms

/-- **The wrapper reports f's argument specification, whatever was requested and re-wrapped before**: after any
sequence of constructions and specification requests (at any depth, in any order) on a plain function, the
reported specification is the plain function's — a stale memo cannot exist. -/
theorem spec_forwarded_memo (base : Sig) (ops : List MemoOp) :
    specWalk base (ops.foldl (fun ms op => op.run base ms) []) = base := by
  apply specWalk_of_ok
  suffices ∀ ms, MemoOk base ms → MemoOk base (ops.foldl (fun ms op => op.run base ms) ms) from
    this [] (by intro s hs; simp at hs)
  induction ops with
  | nil => intro ms h; exact h
  | cons op ops ih =>
    intro ms h
    simp only [List.foldl_cons]
    apply ih
    cases op with
    | request d =>
      simp only [MemoOp.run]
      exact fill_below_ok base _ _ (by rw [List.take_append_drop]; exact h)
    | construct keep => exact mkMemos_ok base keep ms h

/-- non-vacuity: wrap, request the specification of the inner object, re-wrap cutting it out, wrap again -/
example :
    let base : Sig := { params := ["a"], defaults := [], varargs := none, varkw := none }
    let ops := [MemoOp.construct [], .construct [true], .request 1, .construct [true, false], .request 0]
    (ops.foldl (fun ms op => op.run base ms) []).length = 2 ∧
    specWalk base (ops.foldl (fun ms op => op.run base ms) []) = base := by
  refine ⟨by decide, spec_forwarded_memo _ _⟩

/-! ## cache

`callKey c` is the cache key of a call "as passed" (`_prehash((args, kwargs))` up to python's `==`): two calls
are the same combination iff their keys are equal.  `runCache f {} calls` runs a history on a fresh cached
function; `.evals` logs the key of every evaluation of `f`. -/

/-- **A cached non-raising function is evaluated exactly once per distinct combination of positional and
keyword arguments as passed, and returns the first result thereafter** — for every call history:
the evaluation log has no repetition, it holds exactly the keys that were called, and every reply is `f` of the
first call of the history with that key. -/
theorem cache_once (g : Call → Val) (calls : List Call) :
    let r := runCache (fun c => .ok (g c)) {} calls
    r.1.evals.Nodup ∧ (∀ k, k ∈ r.1.evals ↔ k ∈ calls.map callKey) ∧
    r.2 = calls.map fun c => Except.ok (g ((firstWith calls (callKey c)).getD c)) := by
  have inv0 : CacheInv g {} [] := ⟨rfl, by simp, by simp, by intro k v h; simp at h⟩
  obtain ⟨inv, hr⟩ := runCache_inv g calls {} [] inv0
  simp only [List.nil_append] at inv hr
  refine ⟨?_, ?_, hr⟩
  · rw [inv.evals_eq]; exact inv.nodup
  · intro k; rw [inv.evals_eq]; exact inv.keys k

/-- in particular a repeated call is answered from the cache: same reply, no new evaluation -/
theorem cache_repeat (g : Call → Val) (calls : List Call) (c : Call) (hc : c ∈ calls) :
    let r := runCache (fun c => .ok (g c)) {} calls
    let r' := runCache (fun c => .ok (g c)) {} (calls ++ [c])
    r'.1.evals.length = r.1.evals.length ∧ r'.2.getLast? = some (.ok (g ((firstWith calls (callKey c)).getD c))) := by
  have inv0 : CacheInv g {} [] := ⟨rfl, by simp, by simp, by intro k v h; simp at h⟩
  obtain ⟨inv, _⟩ := runCache_inv g calls {} [] inv0
  obtain ⟨inv', hr'⟩ := runCache_inv g (calls ++ [c]) {} [] inv0
  simp only [List.nil_append] at inv inv' hr'
  constructor
  · -- both logs are duplicate-free lists with the same members
    have h1 : ∀ k, k ∈ (runCache (fun c => .ok (g c)) {} (calls ++ [c])).1.evals ↔
        k ∈ (runCache (fun c => .ok (g c)) {} calls).1.evals := by
      intro k
      rw [inv.evals_eq, inv'.evals_eq, inv.keys, inv'.keys]
      simp only [List.map_append, List.map_cons, List.map_nil, List.mem_append, List.mem_singleton]
      constructor
      · rintro (h | h)
        · exact h
        · subst h; exact List.mem_map.2 ⟨c, hc, rfl⟩
      · exact Or.inl
    have n1 : (runCache (fun c => .ok (g c)) {} (calls ++ [c])).1.evals.Nodup := by
      rw [inv'.evals_eq]; exact inv'.nodup
    have n2 : (runCache (fun c => .ok (g c)) {} calls).1.evals.Nodup := by
      rw [inv.evals_eq]; exact inv.nodup
    exact Nat.le_antisymm
      (List.Nodup.length_le_of_subset n1 fun k hk => (h1 k).1 hk)
      (List.Nodup.length_le_of_subset n2 fun k hk => (h1 k).2 hk)
  · rw [hr']
    simp only [List.map_append, List.map_cons, List.map_nil, List.getLast?_append, List.getLast?_singleton,
      Option.some_or]
    obtain ⟨p, hp, hk⟩ : ∃ p, p ∈ calls ∧ (callKey p == callKey c) = true := ⟨c, hc, by simp⟩
    have hs : ∃ c0, firstWith calls (callKey c) = some c0 := by
      cases hf : firstWith calls (callKey c) with
      | some c0 => exact ⟨c0, rfl⟩
      | none =>
        rw [firstWith_none_iff] at hf
        exact absurd (List.mem_map.2 ⟨c, hc, rfl⟩) hf
    obtain ⟨c0, hc0⟩ := hs
    rw [firstWith_prefix calls [c] (callKey c) c0 hc0, hc0]

/-! ### "distinct combination of arguments as passed", independently of the library's key

`sameComb c c'` is python's `==` on what was passed: as many positional arguments, pairwise equal; the same
keyword names with equal values (order irrelevant).  Equality of values is `SameVal` (CacheKeyLemmas): numbers by
value (`1 == 1.0 == True`), a list only equals a list, a tuple a tuple, a dict a dict with the same keys —
stated through length / element / lookup, not through `_prehash`.  `Call.ok`: python dicts have distinct keys. -/

def sameComb (c c' : Call) : Prop :=
  c.args.length = c'.args.length ∧
  (∀ (i : Nat) (x y : Val), c.args[i]? = some x → c'.args[i]? = some y → SameVal x y) ∧
  (∀ k, (c.kw.lookup k).isSome = (c'.kw.lookup k).isSome) ∧
  (∀ (k : String) (v w : Val), c.kw.lookup k = some v → c'.kw.lookup k = some w → SameVal v w)

def Call.ok (c : Call) : Prop :=
  keysOkList c.args = true ∧ (c.kw.map (·.1)).Nodup ∧ keysOkKVs c.kw = true

/-- **the cache key of the (repaired) code identifies exactly the python-equal calls**: no two different
combinations share an entry, no combination has two entries -/
theorem callKey_eq_iff (c c' : Call) (h : Call.ok c) (h' : Call.ok c') : callKey c = callKey c' ↔ sameComb c c' := by
  have e : callKey c = callKey c' ↔
      normKey (.tuple c.args) = normKey (.tuple c'.args) ∧ normKey (.dict c.kw) = normKey (.dict c'.kw) := by
    simp [callKey, normKey, normKeyList]
  rw [e, normKey_eq_iff _ _ (by simpa [Val.keysOk] using h.1) (by simpa [Val.keysOk] using h'.1),
    normKey_eq_iff _ _ (by simpa [Val.keysOk] using h.2) (by simpa [Val.keysOk] using h'.2)]
  constructor
  · rintro ⟨h1, h2⟩
    cases h1 with
    | tuple hl he =>
      cases h2 with
      | dict hs hv => exact ⟨hl, he, hs, hv⟩
  · rintro ⟨hl, he, hs, hv⟩
    exact ⟨.tuple hl he, .dict hs hv⟩

/-- the pinned code did merge different combinations (finding P3, repaired): with its key — lists and tuples
both to tuples — `f([1])` and `f((1,))` were one entry although they are not the same combination -/
theorem list_tuple_not_sameComb :
    ¬ sameComb { args := [.list [.cell (.int 1)]], kw := [] } { args := [.tuple [.cell (.int 1)]], kw := [] } := by
  rintro ⟨_, he, _, _⟩
  have := he 0 _ _ rfl rfl
  cases this

/-- **Exactly once per distinct combination, the first result thereafter** — in terms of `sameComb` only.
For every history `pre` and every next call `c`:
* if no earlier call is the same combination, `f` is evaluated (once) and the reply is `f c`;
* otherwise `f` is not evaluated and the reply is `f` of the FIRST earlier call that is the same combination. -/
theorem cache_once_per_combination (g : Call → Val) (pre : List Call) (c : Call)
    (hok : ∀ x ∈ pre, Call.ok x) (hc : Call.ok c) :
    let r := runCache (fun c => .ok (g c)) {} pre
    let r' := runCache (fun c => .ok (g c)) {} (pre ++ [c])
    r'.2 = r.2 ++ [r'.2.getLast?.getD (.ok (g c))] ∧
    ((∀ x ∈ pre, ¬ sameComb x c) →
      r'.1.evals.length = r.1.evals.length + 1 ∧ r'.2.getLast? = some (.ok (g c))) ∧
    ((∃ x ∈ pre, sameComb x c) →
      r'.1.evals.length = r.1.evals.length ∧
      ∃ pre1 c0 pre2, pre = pre1 ++ c0 :: pre2 ∧ sameComb c0 c ∧ (∀ x ∈ pre1, ¬ sameComb x c) ∧
        r'.2.getLast? = some (.ok (g c0))) := by
  have inv0 : CacheInv g {} [] := ⟨rfl, by simp, by simp, by intro k v h; simp at h⟩
  obtain ⟨inv, _⟩ := runCache_inv g pre {} [] inv0
  simp only [List.nil_append] at inv
  have happ := runCache_append (fun c => Except.ok (g c)) {} pre [c]
  simp only [runCache] at happ
  have hkey : ∀ x ∈ pre, (callKey x = callKey c ↔ sameComb x c) := fun x hx => callKey_eq_iff x c (hok x hx) hc
  intro r r'
  have hr' : r' = ((cacheCall (fun c => .ok (g c)) r.1 c).1, r.2 ++ [(cacheCall (fun c => .ok (g c)) r.1 c).2]) := happ
  cases hl : r.1.cache.lookup (callKey c) with
  | some v =>
    obtain ⟨c0, hc0, hv⟩ := inv.first _ v hl
    have hcc := cacheCall_hit (fun c => Except.ok (g c)) r.1 c v hl
    rw [hcc] at hr'
    have hin : ∃ x ∈ pre, sameComb x c := by
      simp only [firstWith] at hc0
      have := List.mem_of_find?_eq_some hc0
      have hp := List.find?_some hc0
      exact ⟨c0, this, (hkey c0 this).1 (by simpa using hp)⟩
    refine ⟨by rw [hr']; simp, fun hno => ?_, fun _ => ?_⟩
    · obtain ⟨x, hx, hs⟩ := hin
      exact absurd hs (hno x hx)
    · refine ⟨by rw [hr'], ?_⟩
      simp only [firstWith] at hc0
      obtain ⟨hp, pre1, pre2, hsplit, hbefore⟩ := List.find?_eq_some_iff_append.1 hc0
      have hmem0 : c0 ∈ pre := by rw [hsplit]; simp
      refine ⟨pre1, c0, pre2, hsplit, (hkey c0 hmem0).1 (by simpa using hp), fun x hx hs => ?_, ?_⟩
      · have hxm : x ∈ pre := by rw [hsplit]; simp [hx]
        have := hbefore x hx
        exact absurd ((hkey x hxm).2 hs) (by simpa using this)
      · rw [hr', hv]; simp
  | none =>
    have hcc := cacheCall_miss g r.1 c hl
    rw [hcc] at hr'
    have hnot : callKey c ∉ pre.map callKey := by
      rw [← inv.keys]; exact (lookup_none_iff_not_mem _ _).1 hl
    refine ⟨by rw [hr']; simp, fun _ => ⟨by rw [hr']; simp, by rw [hr']; simp⟩, fun ⟨x, hx, hs⟩ => ?_⟩
    exact absurd (List.mem_map.2 ⟨x, hx, (hkey x hx).2 hs⟩) hnot

/-- non-vacuity: `f([1], b=2)`, then the tuple twin `f((1,), b=2)` (a new combination: evaluated), then
`f([1.0], b=True + 1)`-like twin `f([1.0], b=2.0)` (the same combination as the first: not evaluated) -/
example :
    let c1 : Call := { args := [.list [.cell (.int 1)]], kw := [("b", .cell (.int 2))] }
    let c2 : Call := { args := [.tuple [.cell (.int 1)]], kw := [("b", .cell (.int 2))] }
    let c3 : Call := { args := [.list [.cell (.flt 4)]], kw := [("b", .cell (.flt 8))] }
    Call.ok c1 ∧ Call.ok c2 ∧ Call.ok c3 ∧
    (runCache (fun c => .ok (.tuple c.args)) {} [c1, c2, c3]).1.evals.length = 2 ∧
    (runCache (fun c => .ok (.tuple c.args)) {} [c1, c2, c3]).2 =
      [.ok (.tuple c1.args), .ok (.tuple c2.args), .ok (.tuple c1.args)] := by
  refine ⟨⟨by decide, by decide, by decide⟩, ⟨by decide, by decide, by decide⟩, ⟨by decide, by decide, by decide⟩,
    by decide +kernel, by decide +kernel⟩

/-! ## call histories through a stack that contains `cache`

`runH s body unh chain {} calls` (PygModel/WrapHist.lean) runs a history of calls on one decorated function whose
stack `chain = above ++ (cache, p) :: below` holds one cache layer — the only shape the constructor builds
(`mk_keeps_distinct`): the state is the dict of that layer plus the log `.evals` of every execution of the plain
function.  `reach s above c` is the call as the cache layer receives it; on valid calls it is `c` itself unless
`loops` sits above the cache, which passes a first argument given by keyword positionally (`stack_cache_seen`).
`ValidCall s body c v` (WrapHistLemmas): python binds `c`, `f` returns `v`, only declared keywords, none called
`axis` (K4), no int ndarray (K6) — the hypotheses of `stack_transparent`. -/

/-- the hypotheses on one call of a history: a valid call of a non-raising `f`, hashable (K5), with python dicts
as arguments -/
def HistCall (s : Sig) (body : PDict → Res Val) (unh : Call → Bool) (above : List (Cls × PDict)) (c : Call) : Prop :=
  (∃ v, ValidCall s body c v) ∧ unh (reach s above c) = false ∧ Call.ok (reach s above c)

/-- **A stack with a cache layer, over any call history**: for every stack `above ++ cache :: below` (any layers of
the other five classes above and below the cache), every history `pre` of valid calls of a non-raising `f` and every
next call `c`:
* if no earlier call is the same combination, the plain function is executed exactly once more and the reply is
  what `f` returns on `c`;
* otherwise the plain function is not executed and the reply is what `f` returned on the FIRST earlier call that
  is the same combination.
"The same combination" is `sameComb` (python `==` of what was passed) on the calls as the cache layer receives them.
Proof: the stack refines the plain cache (`runH_refines`, which uses transparency of the layers above and below:
`evalH_through`, `evalH_below`), then `cache_once_per_combination`. -/
theorem stack_cache_history (s : Sig) (body : PDict → Res Val) (unh : Call → Bool) (p : PDict)
    (above below : List (Cls × PDict)) (ha : noCache above) (hb : noCache below)
    (pre : List Call) (c : Call) (hpre : ∀ x ∈ pre, HistCall s body unh above x) (hc : HistCall s body unh above c) :
    let chain := above ++ (Cls.cache, p) :: below
    let seen := reach s above
    let r := runH s body unh chain {} pre
    let r' := runH s body unh chain {} (pre ++ [c])
    r'.2 = r.2 ++ [r'.2.getLast?.getD (applyFn s body c)] ∧
    ((∀ x ∈ pre, ¬ sameComb (seen x) (seen c)) →
      r'.1.evals.length = r.1.evals.length + 1 ∧ r'.2.getLast? = some (applyFn s body c)) ∧
    ((∃ x ∈ pre, sameComb (seen x) (seen c)) →
      r'.1.evals.length = r.1.evals.length ∧
      ∃ pre1 c0 pre2, pre = pre1 ++ c0 :: pre2 ∧ sameComb (seen c0) (seen c) ∧
        (∀ x ∈ pre1, ¬ sameComb (seen x) (seen c)) ∧ r'.2.getLast? = some (applyFn s body c0)) := by
  intro chain seen r r'
  have hv : ∀ x ∈ pre, (∃ v, ValidCall s body x v) ∧ unh (reach s above x) = false :=
    fun x hx => ⟨(hpre x hx).1, (hpre x hx).2.1⟩
  have hv' : ∀ x ∈ pre ++ [c], (∃ v, ValidCall s body x v) ∧ unh (reach s above x) = false := by
    intro x hx
    rcases List.mem_append.1 hx with hx | hx
    · exact hv x hx
    · simp only [List.mem_singleton] at hx; subst hx; exact ⟨hc.1, hc.2.1⟩
  obtain ⟨_, hr2, hr3⟩ := runH_refines s body unh p above below ha hb pre {} {} rfl hv
  obtain ⟨_, hr2', hr3'⟩ := runH_refines s body unh p above below ha hb (pre ++ [c]) {} {} rfl hv'
  rw [List.map_append, List.map_cons, List.map_nil] at hr2' hr3'
  simp only [List.length_nil, Nat.add_zero, Nat.zero_add] at hr3 hr3'
  -- what `f` returns on a valid call is the value the plain cache stores for the call the cache layer sees
  have hres : ∀ x, (∃ v, ValidCall s body x v) → Except.ok (resultOf s body (seen x)) = applyFn s body x := by
    rintro x ⟨v, h⟩
    rw [(ValidCall.reach above h).resultOf_eq, h.ok]
  obtain ⟨h1, h2, h3⟩ := cache_once_per_combination (resultOf s body) (pre.map seen) (seen c)
    (by intro y hy; obtain ⟨x, hx, rfl⟩ := List.mem_map.1 hy; exact (hpre x hx).2.2) hc.2.2
  have e2 : r.2 = (runCache (fun c => Except.ok (resultOf s body c)) {} (List.map seen pre)).2 := hr2
  have e2' : r'.2 = (runCache (fun c => Except.ok (resultOf s body c)) {} (List.map seen pre ++ [seen c])).2 := hr2'
  have e3 : r.1.evals.length =
      (runCache (fun c => Except.ok (resultOf s body c)) {} (List.map seen pre)).1.evals.length := hr3
  have e3' : r'.1.evals.length =
      (runCache (fun c => Except.ok (resultOf s body c)) {} (List.map seen pre ++ [seen c])).1.evals.length := hr3'
  refine ⟨?_, fun hno => ?_, fun hex => ?_⟩
  · rw [e2', e2, ← hres c hc.1]; exact h1
  · have := h2 (by
      intro y hy; obtain ⟨x, hx, rfl⟩ := List.mem_map.1 hy; exact hno x hx)
    rw [e3', e3, e2', ← hres c hc.1]; exact this
  · obtain ⟨x, hx, hs⟩ := hex
    obtain ⟨hl, p1, c0', p2, hsplit, hs0, hbefore, hlast⟩ := h3 ⟨seen x, List.mem_map.2 ⟨x, hx, rfl⟩, hs⟩
    obtain ⟨l1, l2, hpre12, hm1, hm2⟩ := List.map_eq_append_iff.1 hsplit
    obtain ⟨c0, l2', hl2, hc0, hm2'⟩ := List.map_eq_cons_iff.1 hm2
    subst hl2 hc0 hm1
    refine ⟨by rw [e3', e3]; exact hl, l1, c0, l2', hpre12, hs0,
      fun y hy => hbefore (seen y) (List.mem_map.2 ⟨y, hy, rfl⟩), ?_⟩
    rw [e2', ← hres c0 ((hpre c0 (by rw [hpre12]; simp)).1)]; exact hlast

/-- the whole history at once: the replies are `f` of the first call of the history that the cache layer sees under
the same key, and the plain function is executed as many times as there are distinct keys -/
theorem stack_cache_history_all (s : Sig) (body : PDict → Res Val) (unh : Call → Bool) (p : PDict)
    (above below : List (Cls × PDict)) (ha : noCache above) (hb : noCache below)
    (calls : List Call) (hcalls : ∀ x ∈ calls, (∃ v, ValidCall s body x v) ∧ unh (reach s above x) = false) :
    let seen := reach s above
    let r := runH s body unh (above ++ (Cls.cache, p) :: below) {} calls
    (∀ (i : Nat) (c : Call), calls[i]? = some c →
      ∃ pre1 c0 pre2, calls = pre1 ++ c0 :: pre2 ∧ callKey (seen c0) = callKey (seen c) ∧
        (∀ x ∈ pre1, callKey (seen x) ≠ callKey (seen c)) ∧ r.2[i]? = some (applyFn s body c0)) ∧
    ∃ keys : List Val, keys.Nodup ∧ (∀ k, k ∈ keys ↔ k ∈ calls.map fun c => callKey (seen c)) ∧
      r.1.evals.length = keys.length := by
  intro seen r
  obtain ⟨_, hr2, hr3⟩ := runH_refines s body unh p above below ha hb calls {} {} rfl hcalls
  simp only [List.length_nil, Nat.add_zero, Nat.zero_add] at hr3
  obtain ⟨hnd, hkeys, hrep⟩ := cache_once (resultOf s body) (calls.map seen)
  refine ⟨fun i c hi => ?_, ⟨_, hnd, fun k => by rw [hkeys k, List.map_map]; rfl, hr3⟩⟩
  have e2 : r.2 = (runCache (fun c => Except.ok (resultOf s body c)) {} (List.map seen calls)).2 := hr2
  -- the first call of the mapped history with the key of `seen c`
  have hmem : c ∈ calls := List.mem_of_getElem? hi
  cases hf : firstWith (calls.map seen) (callKey (seen c)) with
  | none =>
    rw [firstWith_none_iff] at hf
    exact absurd (List.mem_map.2 ⟨seen c, List.mem_map.2 ⟨c, hmem, rfl⟩, rfl⟩) hf
  | some c0' =>
    simp only [firstWith] at hf
    obtain ⟨hk0, p1, p2, hsplit, hbefore⟩ := List.find?_eq_some_iff_append.1 hf
    obtain ⟨l1, l2, hc12, hm1, hm2⟩ := List.map_eq_append_iff.1 hsplit
    obtain ⟨c0, l2', hl2, hc0, _⟩ := List.map_eq_cons_iff.1 hm2
    subst hl2 hc0 hm1
    have hc0mem : c0 ∈ calls := by rw [hc12]; simp
    have hk0' : callKey (seen c0) = callKey (seen c) := by simpa using hk0
    have hnot1 : ∀ y ∈ l1, callKey (seen y) ≠ callKey (seen c) := by
      intro y hy
      have := hbefore (seen y) (List.mem_map.2 ⟨y, hy, rfl⟩)
      simpa using this
    refine ⟨l1, c0, l2', hc12, hk0', hnot1, ?_⟩
    rw [e2, hrep]
    simp only [List.map_map, List.getElem?_map, hi, Option.map_some, Function.comp]
    have : firstWith (List.map seen calls) (callKey (seen c)) = some (seen c0) := by
      simp only [firstWith]; exact hf
    rw [this]
    obtain ⟨v, hv⟩ := (hcalls c0 hc0mem).1
    simp only [Option.getD_some]
    rw [(ValidCall.reach above hv).resultOf_eq, hv.ok]

/-- the combination the cache layer sees: the call itself, unless `loops` sits above the cache — then a first
argument given by keyword has become positional (`loopsCall`) -/
theorem stack_cache_seen (s : Sig) (body : PDict → Res Val) (above : List (Cls × PDict)) (c : Call) (v : Val)
    (h : ValidCall s body c v) :
    reach s above c = if Cls.loops ∈ classes above then loopsCall s c else c :=
  reach_valid_eq s body above c v h

/-- so without `loops` above the cache the statement is about the calls exactly as passed to the stack -/
theorem stack_cache_history_as_passed (s : Sig) (body : PDict → Res Val) (unh : Call → Bool) (p : PDict)
    (above below : List (Cls × PDict)) (ha : noCache above) (hb : noCache below) (hl : Cls.loops ∉ classes above)
    (pre : List Call) (c : Call)
    (hpre : ∀ x ∈ pre, (∃ v, ValidCall s body x v) ∧ unh x = false ∧ Call.ok x)
    (hc : (∃ v, ValidCall s body c v) ∧ unh c = false ∧ Call.ok c) :
    let chain := above ++ (Cls.cache, p) :: below
    let r := runH s body unh chain {} pre
    let r' := runH s body unh chain {} (pre ++ [c])
    ((∀ x ∈ pre, ¬ sameComb x c) →
      r'.1.evals.length = r.1.evals.length + 1 ∧ r'.2.getLast? = some (applyFn s body c)) ∧
    ((∃ x ∈ pre, sameComb x c) →
      r'.1.evals.length = r.1.evals.length ∧
      ∃ pre1 c0 pre2, pre = pre1 ++ c0 :: pre2 ∧ sameComb c0 c ∧
        (∀ x ∈ pre1, ¬ sameComb x c) ∧ r'.2.getLast? = some (applyFn s body c0)) := by
  have hseen : ∀ x, (∃ v, ValidCall s body x v) → reach s above x = x := by
    rintro x ⟨v, h⟩
    rw [reach_valid_eq s body above x v h, if_neg hl]
  have hpre' : ∀ x ∈ pre, HistCall s body unh above x := by
    intro x hx
    obtain ⟨h1, h2, h3⟩ := hpre x hx
    exact ⟨h1, by rw [hseen x h1]; exact h2, by rw [hseen x h1]; exact h3⟩
  have hc' : HistCall s body unh above c :=
    ⟨hc.1, by rw [hseen c hc.1]; exact hc.2.1, by rw [hseen c hc.1]; exact hc.2.2⟩
  obtain ⟨_, h2, h3⟩ := stack_cache_history s body unh p above below ha hb pre c hpre' hc'
  simp only [hseen c hc.1] at h2 h3
  refine ⟨fun hno => h2 fun x hx => by rw [hseen x (hpre x hx).1]; exact hno x hx, fun ⟨x, hx, hs⟩ => ?_⟩
  obtain ⟨hlen, pre1, c0, pre2, hsplit, hs0, hbefore, hlast⟩ := h3 ⟨x, hx, by rw [hseen x (hpre x hx).1]; exact hs⟩
  have hc0 : c0 ∈ pre := by rw [hsplit]; simp
  refine ⟨hlen, pre1, c0, pre2, hsplit, by rw [← hseen c0 (hpre c0 hc0).1]; exact hs0, fun y hy => ?_, hlast⟩
  have hym : y ∈ pre := by rw [hsplit]; simp [hy]
  rw [← hseen y (hpre y hym).1]; exact hbefore y hy

/-- with `loops` above the cache two DIFFERENT combinations as passed to the stack — `g(a=1)` and `g(1)` — are one
combination for the cache layer: one execution of `f`, both replies are `f`'s (not a violation: the cached function
is called with `(1)` both times; `loops` has made the first argument positional) -/
theorem loops_above_cache_merges :
    ∃ (s : Sig) (c1 c2 : Call), ¬ sameComb c1 c2 ∧
      (runH s recBody Call.hasArr [(.loops, []), (.cache, [])] {} [c1, c2]).1.evals.length = 1 ∧
      (runH s recBody Call.hasArr [(.loops, []), (.cache, [])] {} [c1, c2]).2 = [applyFn s recBody c1, applyFn s recBody c2] := by
  refine ⟨{ params := ["a"], defaults := [], varargs := none, varkw := none },
    { args := [], kw := [("a", .cell (.int 1))] }, { args := [.cell (.int 1)], kw := [] }, ?_,
    by decide +kernel, by decide +kernel⟩
  rintro ⟨hl, _⟩
  simp at hl

/-- a call with an unhashable argument (ndarray, pandas: finding K5) inside a history through a stack: in ANY state
of the cache the plain function is executed exactly once, the reply is what `f` returns, and the cache is left as it
was — so such calls are re-evaluated every time but never disturb the other calls -/
theorem stack_cache_unhashable_call (s : Sig) (body : PDict → Res Val) (unh : Call → Bool) (p : PDict)
    (above below : List (Cls × PDict)) (ha : noCache above) (hb : noCache below) (st : HSt) (c : Call) (v : Val)
    (h : ValidCall s body c v) (hu : unh (reach s above c) = true) :
    let r := evalH s body unh (above ++ (Cls.cache, p) :: below) st c
    r.2 = applyFn s body c ∧ r.1.cache = st.cache ∧ r.1.evals.length = st.evals.length + 1 := by
  intro r
  have := evalH_through_unh s body unh p below hb above st c v ha h hu
  refine ⟨by rw [show r = _ from this, h.ok], by rw [show r = _ from this], by rw [show r = _ from this]; simp⟩

/-- **the first call of a history is the single-call model**: on an empty cache the stack returns what `evalChain`
returns — for every stack and every call, valid or not, raising or not -/
theorem stack_history_first_call (s : Sig) (body : PDict → Res Val) (unh : Call → Bool)
    (chain : List (Cls × PDict)) (c : Call) :
    (evalH s body unh chain {} c).2 = evalChain s body chain c :=
  (evalH_fresh s body unh chain {} c rfl).1

/-- every stack the constructor builds has no cache layer or exactly one, so one of `stack_cache_history` /
`stack_history_without_cache` applies to it -/
theorem constructed_stack_shape (ds : List (Cls × PDict)) (base : Nat) :
    let chain := (mkMany ds { chain := [], base := base }).chain
    noCache chain ∨ ∃ above p below, chain = above ++ (Cls.cache, p) :: below ∧ noCache above ∧ noCache below :=
  split_at_cache _ (mk_keeps_distinct ds base)

/-- a stack without a cache layer: every valid call is answered by `f` and executes it once -/
theorem stack_history_without_cache (s : Sig) (body : PDict → Res Val) (unh : Call → Bool)
    (chain : List (Cls × PDict)) (hn : noCache chain) (calls : List Call)
    (hv : ∀ c ∈ calls, ∃ v, ValidCall s body c v) :
    (runH s body unh chain {} calls).2 = calls.map (applyFn s body) ∧
    (runH s body unh chain {} calls).1.evals.length = calls.length := by
  obtain ⟨h1, h2⟩ := runH_noCache s body unh chain hn calls {} hv
  exact ⟨h1, by rw [h2]; simp⟩

/-- non-vacuity: `try_value(repeat=2)(loops(cache(kwargs_support(f))))` for `f(a, b=2)`, called with `(1)`, `(a=1)`,
`(1.0)`, `(1, b=3)`, `(1)`: two executions, the third reply is the FIRST result (`a = 1`, not `1.0`) -/
example :
    let s : Sig := { params := ["a", "b"], defaults := [.cell (.int 2)], varargs := none, varkw := none }
    let chain : List (Cls × PDict) :=
      [(.tryValue, [("repeat", .cell (.int 2))]), (.loops, []), (.cache, []), (.kwargsSupport, [])]
    let c1 : Call := { args := [.cell (.int 1)], kw := [] }
    let c2 : Call := { args := [], kw := [("a", .cell (.int 1))] }
    let c3 : Call := { args := [.cell (.flt 4)], kw := [] }
    let c4 : Call := { args := [.cell (.int 1)], kw := [("b", .cell (.int 3))] }
    let ab (b : Int) : Res Val := .ok (.dict [("a", .cell (.int 1)), ("b", .cell (.int b))])
    ValidCall s recBody c2 (.dict [("a", .cell (.int 1)), ("b", .cell (.int 2))]) ∧
    (runH s recBody Call.hasArr chain {} [c1, c2, c3, c4, c1]).2 = [ab 2, ab 2, ab 2, ab 3, ab 2] ∧
    (runH s recBody Call.hasArr chain {} [c1, c2, c3, c4, c1]).1.evals.length = 2 := by
  refine ⟨⟨?_, ?_, by decide +kernel, by decide +kernel⟩, by decide +kernel, by decide +kernel⟩
  · intro p hp; simp at hp; subst hp; simp
  · intro p hp; simp at hp; subst hp; simp

/-! ### unhashable arguments (finding K5)

`runCacheH unh` is the code with its `except` path: a call whose key is unhashable (`unh c`: an ndarray or a
pandas object among the arguments) is evaluated and nothing is stored. -/

/-- without unhashable arguments it is the cache above -/
theorem runCacheH_hashable (f : Call → Res Val) (unh : Call → Bool) :
    ∀ (calls : List Call) (st : CacheSt), (∀ c ∈ calls, unh c = false) →
      runCacheH unh f st calls = runCache f st calls
  | [], _, _ => rfl
  | c :: cs, st, h => by
      have hc : unh c = false := h c (by simp)
      simp only [runCacheH, runCache, cacheCallH, hc, Bool.false_eq_true, if_false]
      rw [runCacheH_hashable f unh cs _ fun x hx => h x (by simp [hx])]

/-- calls with an unhashable argument do not disturb the others: the replies to the hashable calls, and the
cache, are those of the history without the unhashable calls; an unhashable call is answered by `f` itself -/
theorem cache_unhashable_transparent (f : Call → Res Val) (unh : Call → Bool) :
    ∀ (calls : List Call) (st : CacheSt),
      (runCacheH unh f st calls).1.cache = (runCache f st (calls.filter fun c => !unh c)).1.cache ∧
      (∀ (i : Nat) (c : Call), calls[i]? = some c → unh c = true → (runCacheH unh f st calls).2[i]? = some (f c))
  | [], _ => ⟨rfl, fun i c h => by simp at h⟩
  | c :: cs, st => by
      cases hc : unh c
      · have ih := cache_unhashable_transparent f unh cs (cacheCall f st c).1
        simp only [runCacheH, cacheCallH, hc, Bool.false_eq_true, if_false, List.filter_cons, Bool.not_false,
          if_true, runCache]
        refine ⟨ih.1, fun i x hx hu => ?_⟩
        cases i with
        | zero => simp at hx; subst hx; rw [hc] at hu; cases hu
        | succ i => simpa using ih.2 i x (by simpa using hx) hu
      · have ih := cache_unhashable_transparent f unh cs { st with evals := st.evals ++ [callKey c] }
        simp only [runCacheH, cacheCallH, hc, if_true, List.filter_cons, Bool.not_true, Bool.false_eq_true,
          if_false]
        refine ⟨?_, fun i x hx hu => ?_⟩
        · rw [ih.1]
          exact runCache_cache_indep f _ _ st rfl
        · cases i with
          | zero => simp at hx; subst hx; simp
          | succ i => simpa using ih.2 i x (by simpa using hx) hu

/-- … but they ARE evaluated on every call: the clause "exactly once per distinct combination" is false of the
code for unhashable arguments (finding K5, by design: tests/test_cache.py::test_cache_revert_to_no_cache).
Witness: the same call twice, two evaluations. -/
theorem cache_unhashable_reevaluated :
    ∃ (c : Call), sameComb c c ∧
      (runCacheH Call.hasArr (fun c => .ok (.tuple c.args)) {} [c, c]).1.evals.length = 2 := by
  refine ⟨{ args := [.cell (.str "~arr:1,2")], kw := [] }, ⟨rfl, ?_, fun _ => rfl, ?_⟩, by decide +kernel⟩
  · intro i x y hx hy
    rw [hx] at hy; cases hy
    cases i with
    | zero => simp at hx; subst hx; exact .cell rfl
    | succ i => simp at hx
  · intro k v w hv; simp at hv

/-- what "the same combination" means: `1`, `1.0` and `True` coincide and keyword order is irrelevant; a list
and the tuple of its elements, a dict and the tuple of its pairs are different arguments (finding P3: the
pinned `_prehash` merged them), and positional versus keyword passing is a different combination -/
example :
    callKey { args := [.cell (.int 1)], kw := [] } = callKey { args := [.cell (.flt 4)], kw := [] } ∧
    callKey { args := [.cell (.int 1)], kw := [] } = callKey { args := [.cell (.bool true)], kw := [] } ∧
    callKey { args := [.list [.cell (.int 1)]], kw := [] } ≠ callKey { args := [.tuple [.cell (.int 1)]], kw := [] } ∧
    callKey { args := [.dict [("a", .cell (.int 1))]], kw := [] } ≠
      callKey { args := [.tuple [.tuple [.cell (.str "a"), .cell (.int 1)]]], kw := [] } ∧
    callKey { args := [], kw := [("a", .cell (.int 1)), ("b", .cell (.int 2))] } =
      callKey { args := [], kw := [("b", .cell (.int 2)), ("a", .cell (.int 1))] } ∧
    callKey { args := [.cell (.int 1)], kw := [] } ≠ callKey { args := [], kw := [("a", .cell (.int 1))] } := by
  decide +kernel

/-! ## round h6: every exclusion only for the decorator that causes it; `kwargs_support` inside a stack -/

/-- **Transparency of every stack, each exclusion only for the decorator that causes it.**  A valid call returns through
the stack what `f` returns; an undeclared keyword is excluded only when `kwargs_support` is in the stack (K1), a keyword
called `axis` only when `loops` is (K4), an int ndarray argument only when `pd2np` is (K6).  So `cache(f)(np.array([1,2]))`,
`try_value(cache(f))(1, axis=5)`, `try_back(f)(1, zz=2)` for `f(a, **kw)` are covered.  Subsumes `stack_transparent` and
`stack_transparent_without_kwargs_support`. -/
theorem stack_transparent_sharp (s : Sig) (body : PDict → Res Val) :
    ∀ (chain : List (Cls × PDict)) (c : Call) (v : Val),
      (Cls.kwargsSupport ∈ classes chain → ∀ p ∈ c.kw, p.1 ∈ s.params) →
      (Cls.loops ∈ classes chain → ∀ p ∈ c.kw, p.1 ≠ "axis") →
      (Cls.pd2np ∈ classes chain → c.hasIntArr = false) →
      applyFn s body c = .ok v → evalChain s body chain c = .ok v
  | [], c, v, _, _, _, h => by simpa [evalChain] using h
  | (cls, p) :: rest, c, v, hd, hax, hia, h => by
      have hd' : Cls.kwargsSupport ∈ classes rest → ∀ p ∈ c.kw, p.1 ∈ s.params :=
        fun hm => hd (by simp [classes] at hm ⊢; exact Or.inr hm)
      have hax' : Cls.loops ∈ classes rest → ∀ p ∈ c.kw, p.1 ≠ "axis" :=
        fun hm => hax (by simp [classes] at hm ⊢; exact Or.inr hm)
      have hia' : Cls.pd2np ∈ classes rest → c.hasIntArr = false :=
        fun hm => hia (by simp [classes] at hm ⊢; exact Or.inr hm)
      have ih := stack_transparent_sharp s body rest c v hd' hax' hia' h
      cases cls with
      | tryValue => simp [evalChain, ih]
      | tryBack => simp [evalChain, ih]
      | cache => simp [evalChain, ih]
      | kwargsSupport =>
        have hdd := hd (by simp [classes])
        have hk : kwFilter s c = c := by
          cases c with
          | mk args kw =>
            simp only [kwFilter, Call.mk.injEq, true_and]
            apply List.filter_eq_self.2
            intro q hq
            simpa using hdd q hq
        simp [evalChain, hk, ih]
      | loops =>
        have haa := hax (by simp [classes])
        have hl : evalChain s body rest (loopsCall s c) = .ok v :=
          stack_transparent_sharp s body rest (loopsCall s c) v
            (fun hm q hq => hd' hm q (loopsCall_kw_sub s c q hq))
            (fun hm q hq => hax' hm q (loopsCall_kw_sub s c q hq))
            (fun hm => loopsCall_hasIntArr s c (hia' hm))
            (by simpa [applyFn, loopsCall_bind s c haa] using h)
        simp [evalChain, hl]
      | pd2np =>
        have hii := hia (by simp [classes])
        have hp : pd2npCall (excOf p) c = c := pd2npCall_of_no _ c hii
        simp [evalChain, hp, ih]

/-- … and a stack without `try_*` raises what `f` raises, under the same per-decorator conditions (a function with `**kw`
called with extra keywords through `cache` / `loops` / `pd2np` included) -/
theorem stack_transparent_raise_sharp (s : Sig) (body : PDict → Res Val) :
    ∀ (chain : List (Cls × PDict)) (c : Call),
      (Cls.kwargsSupport ∈ classes chain → ∀ p ∈ c.kw, p.1 ∈ s.params) →
      (Cls.loops ∈ classes chain → ∀ p ∈ c.kw, p.1 ≠ "axis") →
      (Cls.pd2np ∈ classes chain → c.hasIntArr = false) →
      (∀ w ∈ chain, w.1 ≠ .tryValue ∧ w.1 ≠ .tryBack) → evalChain s body chain c = applyFn s body c
  | [], c, _, _, _, _ => by simp [evalChain]
  | (cls, p) :: rest, c, hd, hax, hia, hc => by
      have hr : ∀ w ∈ rest, w.1 ≠ .tryValue ∧ w.1 ≠ .tryBack := fun w hw => hc w (by simp [hw])
      have hd' : Cls.kwargsSupport ∈ classes rest → ∀ p ∈ c.kw, p.1 ∈ s.params :=
        fun hm => hd (by simp [classes] at hm ⊢; exact Or.inr hm)
      have hax' : Cls.loops ∈ classes rest → ∀ p ∈ c.kw, p.1 ≠ "axis" :=
        fun hm => hax (by simp [classes] at hm ⊢; exact Or.inr hm)
      have hia' : Cls.pd2np ∈ classes rest → c.hasIntArr = false :=
        fun hm => hia (by simp [classes] at hm ⊢; exact Or.inr hm)
      have ih := stack_transparent_raise_sharp s body rest c hd' hax' hia' hr
      have hne := hc (cls, p) (by simp)
      cases cls with
      | tryValue => exact absurd rfl hne.1
      | tryBack => exact absurd rfl hne.2
      | cache => simp [evalChain, ih]
      | kwargsSupport =>
        have hdd := hd (by simp [classes])
        have hk : kwFilter s c = c := by
          cases c with
          | mk args kw =>
            simp only [kwFilter, Call.mk.injEq, true_and]
            apply List.filter_eq_self.2
            intro q hq
            simpa using hdd q hq
        simp [evalChain, hk, ih]
      | loops =>
        have haa := hax (by simp [classes])
        have hl : evalChain s body rest (loopsCall s c) = applyFn s body c := by
          rw [stack_transparent_raise_sharp s body rest (loopsCall s c)
            (fun hm q hq => hd' hm q (loopsCall_kw_sub s c q hq))
            (fun hm q hq => hax' hm q (loopsCall_kw_sub s c q hq))
            (fun hm => loopsCall_hasIntArr s c (hia' hm)) hr]
          simp [applyFn, loopsCall_bind s c haa]
        simp [evalChain, hl]
      | pd2np =>
        have hii := hia (by simp [classes])
        have hp : pd2npCall (excOf p) c = c := pd2npCall_of_no _ c hii
        simp [evalChain, hp, ih]

/-- **`kwargs_support` anywhere in a stack** (clause "kwargs_support makes a function without `**kwargs` ignore exactly the
keywords it does not declare", at the level of results and not only for the one-layer stack of `kwargs_support_result`): a
valid call of `f` PLUS any undeclared keywords `junk`, through ANY stack that contains `kwargs_support`, returns what `f`
returns on the valid call.  `loops` in the stack: no keyword called `axis` (K4); `pd2np` in the stack: no int ndarray (K6).
`try_value(kwargs_support(f))(1, zz=2)`, `kwargs_support(cache(f))(1, zz=2)`, `cache(kwargs_support(f))(…)` are instances. -/
theorem kwargs_support_in_stack (s : Sig) (hv : s.varkw = none) (body : PDict → Res Val) (junk : PDict)
    (hj : ∀ p ∈ junk, p.1 ∉ s.params) :
    ∀ (chain : List (Cls × PDict)) (c : Call) (v : Val),
      Cls.kwargsSupport ∈ classes chain →
      (Cls.loops ∈ classes chain → ∀ p ∈ c.kw ++ junk, p.1 ≠ "axis") →
      (Cls.pd2np ∈ classes chain → ({ c with kw := c.kw ++ junk } : Call).hasIntArr = false) →
      applyFn s body c = .ok v → evalChain s body chain { c with kw := c.kw ++ junk } = .ok v
  | [], _, _, hk, _, _, _ => by simp [classes] at hk
  | (cls, p) :: rest, c, v, hk, hax, hia, h => by
      have hax' : Cls.loops ∈ classes rest → ∀ p ∈ c.kw ++ junk, p.1 ≠ "axis" :=
        fun hm => hax (by simp [classes] at hm ⊢; exact Or.inr hm)
      have hia' : Cls.pd2np ∈ classes rest → ({ c with kw := c.kw ++ junk } : Call).hasIntArr = false :=
        fun hm => hia (by simp [classes] at hm ⊢; exact Or.inr hm)
      obtain ⟨b, hb⟩ : ∃ b, bindRef s c = .ok b := by
        cases hb : bindRef s c with
        | error e => simp [applyFn, hb] at h
        | ok b => exact ⟨b, rfl⟩
      have hdecl : ∀ p ∈ c.kw, p.1 ∈ s.params := by
        have := kwargs_support_transparent s hv c b hb
        intro p hp
        rw [← this] at hp
        simp only [kwFilter, List.mem_filter] at hp
        simpa using hp.2
      cases cls with
      | kwargsSupport =>
        simp only [evalChain]
        rw [(kwargs_support_ignores_exactly s c junk hj).1, kwargs_support_transparent s hv c b hb]
        exact stack_transparent_sharp s body rest c v (fun _ => hdecl)
          (fun hm q hq => hax' hm q (by simp [hq]))
          (fun hm => hasIntArr_append_left c junk (hia' hm)) h
      | tryValue =>
        have hk' : Cls.kwargsSupport ∈ classes rest := by simpa [classes] using hk
        simp [evalChain, kwargs_support_in_stack s hv body junk hj rest c v hk' hax' hia' h]
      | tryBack =>
        have hk' : Cls.kwargsSupport ∈ classes rest := by simpa [classes] using hk
        simp [evalChain, kwargs_support_in_stack s hv body junk hj rest c v hk' hax' hia' h]
      | cache =>
        have hk' : Cls.kwargsSupport ∈ classes rest := by simpa [classes] using hk
        simp [evalChain, kwargs_support_in_stack s hv body junk hj rest c v hk' hax' hia' h]
      | pd2np =>
        have hk' : Cls.kwargsSupport ∈ classes rest := by simpa [classes] using hk
        have hii := hia (by simp [classes])
        simp only [evalChain, pd2npCall_of_no _ _ hii]
        exact kwargs_support_in_stack s hv body junk hj rest c v hk' hax' hia' h
      | loops =>
        have hk' : Cls.kwargsSupport ∈ classes rest := by simpa [classes] using hk
        have haa := hax (by simp [classes])
        have haxk : ∀ p ∈ c.kw, p.1 ≠ "axis" := fun p hp => haa p (by simp [hp])
        simp only [evalChain]
        rw [loopsCall_append s c junk hj haa]
        have := kwargs_support_in_stack s hv body junk hj rest (loopsCall s c) v hk'
          (fun hm q hq => by
            rcases List.mem_append.1 hq with hq | hq
            · exact haa q (by simp [loopsCall_kw_sub s c q hq])
            · exact haa q (by simp [hq]))
          (fun hm => by
            have := loopsCall_hasIntArr s _ (hia' hm)
            rw [loopsCall_append s c junk hj haa] at this
            exact this)
          (by simpa [applyFn, loopsCall_bind s c haxk] using h)
        exact this


/-- non-vacuity: `try_value(kwargs_support(cache(f)))(1, b=5, zz=9)` for `f(a, b=2)`; and the converse witness: the same stack
WITHOUT `kwargs_support` raises python's TypeError (here turned into the fallback by `try_value`; bare: `.error .type`) -/
example :
    let s : Sig := { params := ["a", "b"], defaults := [.cell (.int 2)], varargs := none, varkw := none }
    let c : Call := { args := [.cell (.int 1)], kw := [("b", .cell (.int 5)), ("zz", .cell (.int 9))] }
    evalChain s recBody [(.tryValue, []), (.kwargsSupport, []), (.cache, [])] c =
      .ok (.dict [("a", .cell (.int 1)), ("b", .cell (.int 5))]) ∧
    evalChain s recBody [(.cache, []), (.loops, [])] c = .error .type := by
  decide

/-- non-vacuity of the sharp form: an int ndarray through `try_value(cache(f))`, a keyword `axis` through `cache`, an extra
keyword of a `**kw` function through `try_back` -/
example :
    let s : Sig := { params := ["a", "axis"], defaults := [.cell (.int 0)], varargs := none, varkw := some "kw" }
    evalChain s recBody [(.tryValue, []), (.cache, [])] { args := [.cell (.str "~arr:1,2")], kw := [("axis", .cell (.int 5)), ("zz", .cell (.int 1))] } =
      applyFn s recBody { args := [.cell (.str "~arr:1,2")], kw := [("axis", .cell (.int 5)), ("zz", .cell (.int 1))] } := by
  decide +kernel


/-! ## round h6: wrapping twice with DIFFERENT parameters

In the code every subclass `__init__` passes its complete parameter set to `wrapper.__init__` (`try_value`: `repeat, sleep,
return_value, value, verbose` - `_decorators.py:229-230`; `loops`: `types`; `pd2np`: `exc`; the others none), so `kw.update(kwargs)`
overwrites EVERY parameter of the wrapper that is unwrapped / cut out: `try_value(value=1)(try_value(value=2, repeat=3)(f))` has
`repeat=0`.  The model's `mk` takes an arbitrary `kwargs`; it is faithful to the code for complete parameter dicts (`Covers`: the
new dict has every key of the old ones - the harness only sends such), and there the outer application wins: -/

/-- **`W_p(D₁(…Dₙ(W_q(f)))) == W_p(D₁(…Dₙ(f)))`** for parameter dicts `p`, `q` of the same decorator with `p` complete
(`wrap_chain_idem` is the case `p = q`; no hypothesis ties `p` to `q` beyond the key sets) -/
theorem wrap_twice_params (cls : Cls) (kw1 kw2 : PDict) (hn1 : (kw1.map (·.1)).Nodup) (hn2 : (kw2.map (·.1)).Nodup)
    (hk : Covers kw2 kw1) (ds : List (Cls × PDict)) (hds : ∀ d ∈ ds, d.1 ≠ cls) (fn : WFn)
    (h : (classes fn.chain).Nodup) (hp : ∀ p, paramsOf cls fn.chain = some p → Covers kw2 p) :
    WFn.Eqv (mk cls kw2 (mkMany ds (mk cls kw1 fn))) (mk cls kw2 (mkMany ds fn)) := by
  have hg := mk_nodup cls kw1 fn h
  have hY := mkMany_nodup ds _ hg
  have hZ := mkMany_nodup ds _ h
  have hgc := mk_chain cls kw1 fn h
  have hsg : stripAll cls (mk cls kw1 fn).chain = stripAll cls fn.chain := by
    rw [hgc]
    simp only [stripAll, List.filter, bne_self_eq_false]
    exact stripAll_idem cls fn.chain
  have htail : stripAll cls (mkMany ds (mk cls kw1 fn)).chain = stripAll cls (mkMany ds fn).chain := by
    rw [stripAll_mkMany_ne cls ds hds _ hg, stripAll_mkMany_ne cls ds hds _ h, hsg]
    rfl
  have hpY : paramsOf cls (mkMany ds (mk cls kw1 fn)).chain = some (newParams cls kw1 fn.chain) := by
    rw [paramsOf_mkMany_ne cls ds hds _ hg, hgc]
    simp [paramsOf, List.find?]
  have hpZ : paramsOf cls (mkMany ds fn).chain = paramsOf cls fn.chain := paramsOf_mkMany_ne cls ds hds _ h
  have hcov : Covers kw2 (newParams cls kw1 fn.chain) := by
    unfold newParams
    cases hq : paramsOf cls fn.chain with
    | none => exact hk
    | some p => exact covers_update kw2 p kw1 hn1 (hp p hq) hk
  have hhead : PDict.Eqv (newParams cls kw2 (mkMany ds (mk cls kw1 fn)).chain) (newParams cls kw2 (mkMany ds fn).chain) := by
    have e1 : newParams cls kw2 (mkMany ds (mk cls kw1 fn)).chain = (newParams cls kw1 fn.chain).update kw2 := by
      simp only [newParams, hpY]
    have e2 : PDict.Eqv (newParams cls kw2 (mkMany ds fn).chain) kw2 := by
      simp only [newParams, hpZ]
      cases hq : paramsOf cls fn.chain with
      | none => intro k; rfl
      | some p => exact update_covered_eqv p kw2 hn2 (hp p hq)
    rw [e1]
    intro k
    exact (update_covered_eqv _ kw2 hn2 hcov k).trans (e2 k).symm
  refine ⟨?_, ?_, ?_⟩
  · simp only [mk_base, mkMany_base]
  · rw [mk_chain cls kw2 _ hY, mk_chain cls kw2 _ hZ, htail]
    rfl
  · intro i x y hx hy
    rw [mk_chain cls kw2 _ hY] at hx
    rw [mk_chain cls kw2 _ hZ] at hy
    cases i with
    | zero =>
      simp only [List.getElem?_cons_zero, Option.some.injEq] at hx hy
      subst hx hy
      exact hhead
    | succ i =>
      simp only [List.getElem?_cons_succ] at hx hy
      rw [htail] at hx
      rw [hx] at hy
      cases hy
      intro k; rfl

/-- … and the parameters the outer application ends up with are exactly its own -/
theorem wrap_twice_outer_params (cls : Cls) (kw1 kw2 : PDict) (hn1 : (kw1.map (·.1)).Nodup) (hn2 : (kw2.map (·.1)).Nodup)
    (hk : Covers kw2 kw1) (fn : WFn) (h : (classes fn.chain).Nodup)
    (hp : ∀ p, paramsOf cls fn.chain = some p → Covers kw2 p) :
    ∃ p rest, (mk cls kw2 (mk cls kw1 fn)).chain = (cls, p) :: rest ∧ PDict.Eqv p kw2 := by
  have hg := mk_nodup cls kw1 fn h
  refine ⟨_, _, mk_chain cls kw2 _ hg, ?_⟩
  have hgc := mk_chain cls kw1 fn h
  have : paramsOf cls (mk cls kw1 fn).chain = some (newParams cls kw1 fn.chain) := by
    rw [hgc]; simp [paramsOf, List.find?]
  simp only [newParams, this]
  apply update_covered_eqv _ kw2 hn2
  cases hq : paramsOf cls fn.chain with
  | none => exact hk
  | some p => exact covers_update kw2 p kw1 hn1 (hp p hq) hk

/-- non-vacuity (`try_value(repeat=0, value=1)` over `try_value(repeat=3, value=2)`: `repeat` is reset), and why completeness is
needed: with a partial dict the model keeps the inner `repeat=3`, which no constructor of the code can do -/
example :
    let f : WFn := { chain := [], base := 0 }
    let q : PDict := [("repeat", .cell (.int 3)), ("value", .cell (.int 2))]
    let p : PDict := [("repeat", .cell (.int 0)), ("value", .cell (.int 1))]
    (mk .tryValue p (mk .tryValue q f)).chain = [(.tryValue, p)] ∧
    (mk .tryValue [("value", .cell (.int 1))] (mk .tryValue q f)).chain = [(.tryValue, [("repeat", .cell (.int 3)), ("value", .cell (.int 1))])] := by
  decide



/-! ## round h6: histories through a stack, each exclusion only for the decorator that causes it -/

/-- the hypotheses on one call of a history, relative to the classes `K` of the stack: a valid call of a non-raising `f` -
undeclared keywords excluded only when `kwargs_support ∈ K`, a keyword `axis` only when `loops ∈ K`, an int ndarray only when
`pd2np ∈ K` (`ValidFor`) -, hashable for the cache layer -/
def HistCallFor (K : List Cls) (s : Sig) (body : PDict → Res Val) (unh : Call → Bool) (above : List (Cls × PDict))
    (c : Call) : Prop :=
  (∃ v, ValidFor K s body c v) ∧ unh (reach s above c) = false ∧ Call.ok (reach s above c)

/-- the unconditional hypotheses of `stack_cache_history` imply these, for every stack -/
theorem HistCall.toFor {s body unh above c} (h : HistCall s body unh above c) (K : List Cls) :
    HistCallFor K s body unh above c :=
  ⟨h.1.imp fun _ hv => hv.toFor K, h.2⟩

/-- **`stack_cache_history` with the hypotheses of `stack_transparent_sharp`**: the same statement for calls that are valid
for the classes that ARE in the stack - `try_value(cache(f))` for `f(a, **kw)` called with extra keywords, `cache(f)` with a
parameter called `axis` passed by keyword, `try_back(cache(f))` on an int ndarray ... (hashable for the cache layer:
`unh (reach …) = false`).  Implies `stack_cache_history` (`HistCall.toFor`). -/
theorem stack_cache_history_sharp (s : Sig) (body : PDict → Res Val) (unh : Call → Bool) (p : PDict)
    (above below : List (Cls × PDict)) (ha : noCache above) (hb : noCache below)
    (pre : List Call) (c : Call)
    (hpre : ∀ x ∈ pre, HistCallFor (classes (above ++ (Cls.cache, p) :: below)) s body unh above x)
    (hc : HistCallFor (classes (above ++ (Cls.cache, p) :: below)) s body unh above c) :
    let chain := above ++ (Cls.cache, p) :: below
    let seen := reach s above
    let r := runH s body unh chain {} pre
    let r' := runH s body unh chain {} (pre ++ [c])
    r'.2 = r.2 ++ [r'.2.getLast?.getD (applyFn s body c)] ∧
    ((∀ x ∈ pre, ¬ sameComb (seen x) (seen c)) →
      r'.1.evals.length = r.1.evals.length + 1 ∧ r'.2.getLast? = some (applyFn s body c)) ∧
    ((∃ x ∈ pre, sameComb (seen x) (seen c)) →
      r'.1.evals.length = r.1.evals.length ∧
      ∃ pre1 c0 pre2, pre = pre1 ++ c0 :: pre2 ∧ sameComb (seen c0) (seen c) ∧
        (∀ x ∈ pre1, ¬ sameComb (seen x) (seen c)) ∧ r'.2.getLast? = some (applyFn s body c0)) := by
  intro chain seen r r'
  have hKa : Within (classes (above ++ (Cls.cache, p) :: below)) above :=
    fun w hw => within_classes _ w (by simp [hw])
  have hKb : Within (classes (above ++ (Cls.cache, p) :: below)) below :=
    fun w hw => within_classes _ w (by simp [hw])
  have hv : ∀ x ∈ pre, (∃ v, ValidFor (classes (above ++ (Cls.cache, p) :: below)) s body x v) ∧
      unh (reach s above x) = false :=
    fun x hx => ⟨(hpre x hx).1, (hpre x hx).2.1⟩
  have hv' : ∀ x ∈ pre ++ [c], (∃ v, ValidFor (classes (above ++ (Cls.cache, p) :: below)) s body x v) ∧
      unh (reach s above x) = false := by
    intro x hx
    rcases List.mem_append.1 hx with hx | hx
    · exact hv x hx
    · simp only [List.mem_singleton] at hx; subst hx; exact ⟨hc.1, hc.2.1⟩
  obtain ⟨_, hr2, hr3⟩ := runH_refines_for _ s body unh p above below ha hb hKa hKb pre {} {} rfl hv
  obtain ⟨_, hr2', hr3'⟩ := runH_refines_for _ s body unh p above below ha hb hKa hKb (pre ++ [c]) {} {} rfl hv'
  rw [List.map_append, List.map_cons, List.map_nil] at hr2' hr3'
  simp only [List.length_nil, Nat.add_zero, Nat.zero_add] at hr3 hr3'
  have hres : ∀ x, (∃ v, ValidFor (classes (above ++ (Cls.cache, p) :: below)) s body x v) →
      Except.ok (resultOf s body (seen x)) = applyFn s body x := by
    rintro x ⟨v, h⟩
    rw [(ValidFor.reach above hKa h).resultOf_eq, h.ok]
  obtain ⟨h1, h2, h3⟩ := cache_once_per_combination (resultOf s body) (pre.map seen) (seen c)
    (by intro y hy; obtain ⟨x, hx, rfl⟩ := List.mem_map.1 hy; exact (hpre x hx).2.2) hc.2.2
  have e2 : r.2 = (runCache (fun c => Except.ok (resultOf s body c)) {} (List.map seen pre)).2 := hr2
  have e2' : r'.2 = (runCache (fun c => Except.ok (resultOf s body c)) {} (List.map seen pre ++ [seen c])).2 := hr2'
  have e3 : r.1.evals.length =
      (runCache (fun c => Except.ok (resultOf s body c)) {} (List.map seen pre)).1.evals.length := hr3
  have e3' : r'.1.evals.length =
      (runCache (fun c => Except.ok (resultOf s body c)) {} (List.map seen pre ++ [seen c])).1.evals.length := hr3'
  refine ⟨?_, fun hno => ?_, fun hex => ?_⟩
  · rw [e2', e2, ← hres c hc.1]; exact h1
  · have := h2 (by
      intro y hy; obtain ⟨x, hx, rfl⟩ := List.mem_map.1 hy; exact hno x hx)
    rw [e3', e3, e2', ← hres c hc.1]; exact this
  · obtain ⟨x, hx, hs⟩ := hex
    obtain ⟨hl, p1, c0', p2, hsplit, hs0, hbefore, hlast⟩ := h3 ⟨seen x, List.mem_map.2 ⟨x, hx, rfl⟩, hs⟩
    obtain ⟨l1, l2, hpre12, hm1, hm2⟩ := List.map_eq_append_iff.1 hsplit
    obtain ⟨c0, l2', hl2, hc0, hm2'⟩ := List.map_eq_cons_iff.1 hm2
    subst hl2 hc0 hm1
    refine ⟨by rw [e3', e3]; exact hl, l1, c0, l2', hpre12, hs0,
      fun y hy => hbefore (seen y) (List.mem_map.2 ⟨y, hy, rfl⟩), ?_⟩
    rw [e2', ← hres c0 ((hpre c0 (by rw [hpre12]; simp)).1)]; exact hlast

/-- non-vacuity: `try_value(cache(f))` for `f(a, axis=0, **kw)` called with the keyword `axis` AND an extra keyword AND an int
ndarray - outside `HistCall` (all three exclusions), inside `HistCallFor` for this stack -/
example :
    let s : Sig := { params := ["a", "axis"], defaults := [.cell (.int 0)], varargs := none, varkw := some "kw" }
    let c : Call := { args := [.cell (.int 1)], kw := [("axis", .cell (.int 5)), ("zz", .cell (.int 9))] }
    HistCallFor (classes ([(Cls.tryValue, [])] ++ (Cls.cache, []) :: [])) s recBody (fun _ => false) [(Cls.tryValue, [])] c ∧
    ¬ (∀ p ∈ c.kw, p.1 ≠ "axis") := by
  refine ⟨⟨⟨_, ⟨fun h => ?_, fun h => ?_, fun h => ?_, rfl⟩⟩, rfl, ?_⟩, by decide⟩
  · revert h; decide
  · revert h; decide
  · revert h; decide
  · exact ⟨by decide +kernel, by decide +kernel, by decide +kernel⟩


/-! ## round h6: the memo fields tied to the constructor -/

/-- **The wrapper reports f's argument specification — memo fields and constructor in ONE model.**  Start from a plain function
and apply any sequence of decorator applications (`mk`: unwrapping / cutting out same-class wrappers, whose memo fields vanish
with them: `keepOf`) and specification requests at any depth (which fill the memo fields they pass): the specification
reported at the end is the plain function's, every wrapper object of the resulting chain has exactly one memo field, and the
chain is the one `mkMany` builds from the decorator applications alone (requests never change it).  This ties the memo model
of `spec_forwarded_memo` (arbitrary `construct keep`) to the constructor `mk`. -/
theorem spec_forwarded_through_mk (base : Sig) (b : Nat) (ops : List WOp) :
    let f := ops.foldl (fun f op => op.run base f) { fn := { chain := [], base := b }, memos := [] }
    specWalk base f.memos = base ∧ f.memos.length = f.fn.chain.length ∧
    f.fn = mkMany (ops.filterMap WOp.wrapOf) { chain := [], base := b } := by
  intro f
  refine ⟨?_, ?_, foldl_fn base ops _⟩
  all_goals
    have inv : ∀ (ops : List WOp) (g : WFnM), MemoOk base g.memos → g.memos.length = g.fn.chain.length →
        (classes g.fn.chain).Nodup →
        MemoOk base (ops.foldl (fun f op => op.run base f) g).memos ∧
        (ops.foldl (fun f op => op.run base f) g).memos.length = (ops.foldl (fun f op => op.run base f) g).fn.chain.length := by
      intro ops
      induction ops with
      | nil => intro g h1 h2 _; exact ⟨h1, h2⟩
      | cons op ops ih =>
        intro g h1 h2 h3
        simp only [List.foldl_cons]
        cases op with
        | wrap cls kw =>
          apply ih
          · exact mkMemos_ok base _ _ h1
          · simp only [WOp.run, mkMemos, List.length_cons, List.length_map, mk_chain cls kw g.fn h3, keepOf, stripAll]
            rw [kept_length (fun w => w.1 != cls) g.fn.chain g.memos h2]
          · exact mk_nodup cls kw g.fn h3
        | request d =>
          apply ih
          · exact fill_below_ok base _ _ (by rw [List.take_append_drop]; exact h1)
          · simp only [WOp.run, List.length_append, fillMemos_length, List.length_take, List.length_drop]
            omega
          · exact h3
    have := inv ops { fn := { chain := [], base := b }, memos := [] } (by intro s hs; simp at hs) rfl (by simp [classes])
  · exact specWalk_of_ok base _ this.1
  · exact this.2

/-- non-vacuity: `cache`, `try_value` on top, request the inner object's specification, re-wrap with `cache` (the inner cache
object and its filled memo are cut out), request the top -/
example :
    let base : Sig := { params := ["a"], defaults := [], varargs := none, varkw := none }
    let ops := [WOp.wrap .cache [], .wrap .tryValue [], .request 1, .wrap .cache [], .request 0]
    let f := ops.foldl (fun f op => op.run base f) { fn := { chain := [], base := 0 }, memos := [] }
    classes f.fn.chain = [.cache, .tryValue] ∧ f.memos.length = 2 ∧ specWalk base f.memos = base := by
  intro base ops f
  exact ⟨by decide +kernel, (spec_forwarded_through_mk base 0 ops).2.1.trans (by decide +kernel), (spec_forwarded_through_mk base 0 ops).1⟩

/-! ## a constructor does not destroy its operand (review t5, defect P7)

`stepM` / `runMulti` (WrapHist.lean) keep EVERY object built so far callable.  The clause "wrapping twice equals wrapping once
- directly or through a chain" is about the object the constructor returns; the objects it was given must keep answering as
before.  The pinned code cut same-class wrappers out of its operand's inner objects in place (`stackhist3` lines and law 7
report it); the model is of the repaired constructor, which rebuilds the chain.  What the model is compared with the code on is
therefore exactly the statements below. -/

/-- the world with further objects appended (what any number of constructor applications do to it) -/
def plus (w : MWorld) (extra : List MObj) : MWorld := { w with objs := w.objs ++ extra }

/-- a construction step adds ONE object at the end and changes nothing else: no existing object, no cache dict, no execution -/
theorem construction_keeps_objects (s : Sig) (body : PDict → Res Val) (unh : Call → Bool) (w w' : MWorld)
    (cls : Cls) (p : PDict) (src : Nat) (out : Option (Res Val × Nat))
    (h : stepM s body unh w (.wrap cls p src) = some (w', out)) :
    out = none ∧ ∃ o, w.objs[src]? = some o ∧ w' = plus w [mkObj cls p o] := by
  simp only [stepM] at h
  cases ho : w.objs[src]? with
  | none => simp [ho] at h
  | some o =>
    simp only [ho, Option.some.injEq, Prod.mk.injEq] at h
    exact ⟨h.2.symm, o, rfl, h.1.symm⟩

/-- a call of an EXISTING object in a world with further objects: the same reply, the same executions, the same effect on the
cache dicts - the further objects are not touched and do not matter -/
theorem call_ignores_later_objects (s : Sig) (body : PDict → Res Val) (unh : Call → Bool) (w : MWorld)
    (extra : List MObj) (j : Nat) (c : Call) (hj : j < w.objs.length) :
    stepM s body unh (plus w extra) (.call j c) =
      (stepM s body unh w (.call j c)).map fun r => (plus r.1 extra, r.2) := by
  simp only [stepM, plus, List.getElem?_append_left hj]
  cases ho : w.objs[j]? with
  | none => rfl
  | some o =>
    simp only
    split
    · simp only [Option.map_some, List.set_append_left _ _ hj]
    · simp only [Option.map_some]

theorem call_keeps_length (s : Sig) (body : PDict → Res Val) (unh : Call → Bool) (w w1 : MWorld) (j : Nat) (c : Call)
    (out : Option (Res Val × Nat)) (h : stepM s body unh w (.call j c) = some (w1, out)) :
    w1.objs.length = w.objs.length := by
  simp only [stepM] at h
  cases ho : w.objs[j]? with
  | none => simp [ho] at h
  | some o =>
    simp only [ho] at h
    split at h
    · simp only [Option.some.injEq, Prod.mk.injEq] at h
      rw [← h.1]; simp
    · simp only [Option.some.injEq, Prod.mk.injEq] at h
      rw [← h.1]

/-- **objects built earlier answer as before**: any history of calls of the objects that exist in `w` gives the same replies and
the same numbers of executions of `f` whether or not further objects (`extra`: the results of ANY constructor applications) have
been built in between -/
theorem older_objects_ignore_later_objects (s : Sig) (body : PDict → Res Val) (unh : Call → Bool) (extra : List MObj) :
    ∀ (calls : List (Nat × Call)) (w : MWorld), (∀ x ∈ calls, x.1 < w.objs.length) →
      runMulti s body unh (plus w extra) (calls.map fun x => .call x.1 x.2) =
        runMulti s body unh w (calls.map fun x => .call x.1 x.2)
  | [], _, _ => rfl
  | (j, c) :: rest, w, h => by
    have hj : j < w.objs.length := h (j, c) (by simp)
    simp only [List.map_cons, runMulti, call_ignores_later_objects s body unh w extra j c hj]
    cases hs : stepM s body unh w (.call j c) with
    | none => rfl
    | some r =>
      obtain ⟨w1, out⟩ := r
      have hl := call_keeps_length s body unh w w1 j c out hs
      simp only [Option.map_some]
      rw [older_objects_ignore_later_objects s body unh extra rest w1
        (fun x hx => by rw [hl]; exact h x (by simp [hx]))]

/-- ... in particular after one constructor application on any of them (the shape of the defect: `y = W(x)`, then `x` again) -/
theorem older_objects_answer_as_before (s : Sig) (body : PDict → Res Val) (unh : Call → Bool) (w w' : MWorld)
    (cls : Cls) (p : PDict) (src : Nat) (out : Option (Res Val × Nat))
    (h : stepM s body unh w (.wrap cls p src) = some (w', out))
    (calls : List (Nat × Call)) (hc : ∀ x ∈ calls, x.1 < w.objs.length) :
    runMulti s body unh w (.wrap cls p src :: calls.map fun x => .call x.1 x.2) =
      runMulti s body unh w (calls.map fun x => .call x.1 x.2) := by
  obtain ⟨hout, o, _, hw⟩ := construction_keeps_objects s body unh w w' cls p src out h
  subst hout
  simp only [runMulti, h]
  rw [hw, older_objects_ignore_later_objects s body unh _ calls w hc]
  cases runMulti s body unh w (calls.map fun x => MStep.call x.1 x.2) <;> rfl

theorem noCache_of_hasCacheLayer {ch : List (Cls × PDict)} (h : hasCacheLayer ch = false) : noCache ch := by
  intro x hx hc
  have : hasCacheLayer ch = true := by
    simp only [hasCacheLayer, List.any_eq_true]
    exact ⟨x, hx, by simp [hc]⟩
  rw [h] at this; cases this

/-- an object WITHOUT a cache layer is transparent in every world - whatever was built before or after it, on top of it or not,
whatever the cache dicts hold: a valid call returns what `f` returns and executes it exactly once (clause 1 for older objects) -/
theorem uncached_object_transparent_in_any_world (s : Sig) (body : PDict → Res Val) (unh : Call → Bool) (w : MWorld)
    (j : Nat) (o : MObj) (c : Call) (v : Val) (ho : w.objs[j]? = some o) (hn : hasCacheLayer o.chain = false)
    (hv : ValidCall s body c v) :
    stepM s body unh w (.call j c) =
      some ({ w with evals := w.evals ++ [reach s o.chain c] }, some (.ok v, w.evals.length + 1)) := by
  simp only [stepM, ho, hn, Bool.false_eq_true, if_false,
    evalH_below s body unh o.chain _ c v (noCache_of_hasCacheLayer hn) hv, List.length_append, List.length_cons, List.length_nil]

/-- non-vacuity and the reviewer's two witnesses on the model: `x = kwargs_support(pd2np(try_zero(f)))`, a raising call gives the
fallback `0` before and after `try_none(x)`; `x = try_none(kwargs_support(cache(f)))` called twice, `cache_func(x)`, called twice
again: one execution in all -/
example :
    let s : Sig := { params := ["a"], defaults := [], varargs := none, varkw := none }
    let body : PDict → Res Val := fun b => if b.lookup "a" = some (.cell (.str "!")) then .error Err.type else .ok (.dict b)
    let tv (v : Val) : PDict := [("repeat", .cell (.int 0)), ("return_value", .cell (.bool true)), ("value", v)]
    let bad : Call := { args := [.cell (.str "!")], kw := [] }
    let one : Call := { args := [.cell (.int 1)], kw := [] }
    runMulti s body (fun _ => false) {} [.wrap .tryValue (tv (.cell (.int 0))) 0, .wrap .pd2np [] 1, .wrap .kwargsSupport [] 2,
        .call 3 bad, .wrap .tryValue (tv (.cell .none)) 3, .call 3 bad, .call 4 bad]
      = some [(.ok (.cell (.int 0)), 1), (.ok (.cell (.int 0)), 2), (.ok (.cell .none), 3)] ∧
    runMulti s body (fun _ => false) {} [.wrap .cache [] 0, .wrap .kwargsSupport [] 1, .wrap .tryValue (tv (.cell .none)) 2,
        .call 3 one, .call 3 one, .wrap .cache [] 3, .call 3 one, .call 3 one, .call 4 one]
      = some [(.ok (.dict [("a", .cell (.int 1))]), 1), (.ok (.dict [("a", .cell (.int 1))]), 1),
              (.ok (.dict [("a", .cell (.int 1))]), 1), (.ok (.dict [("a", .cell (.int 1))]), 1), (.ok (.dict [("a", .cell (.int 1))]), 1)] := by
  decide +kernel

/-! ## the domain of the stack model: "loops on non-container input" (review t5)

`evalChain` / `evalH` forward ONE call through a `loops` layer.  The code does that exactly when the argument the layer dispatches
on is not a list / tuple / dict of one of its `types`; otherwise it makes one call per element (C19) and the theorems above say
nothing about the code.  `inDomain` (Wrap.lean) is that side condition; the driver declines lines outside it and the harness
checks the driver's verdict against an independently written python predicate on generated container arguments. -/

/-- a layer of another class in front: the decomposition of the stack goes through it -/
theorem exists_loops_cons (s : Sig) (w : Cls × PDict) (hw : w.1 ≠ Cls.loops) (rest : List (Cls × PDict)) (c c' : Call)
    (hr : ∀ above, reach s (w :: above) c = reach s above c') :
    (∃ above p below, w :: rest = above ++ (Cls.loops, p) :: below ∧ loopsPasses s p (reach s above c) = false) ↔
    (∃ above p below, rest = above ++ (Cls.loops, p) :: below ∧ loopsPasses s p (reach s above c') = false) := by
  constructor
  · rintro ⟨above, p, below, he, hp⟩
    rcases List.cons_eq_append_iff.mp he with ⟨h1, h2⟩ | ⟨above', h1, h2⟩
    · simp only [List.cons.injEq] at h2
      exact absurd (by rw [← h2.1]) hw
    · subst h1
      exact ⟨above', p, below, h2, by rw [← hr]; exact hp⟩
  · rintro ⟨above, p, below, he, hp⟩
    exact ⟨w :: above, p, below, by rw [he]; rfl, by rw [hr]; exact hp⟩

/-- **the domain, through `reach`**: a call is outside the domain of the stack model iff SOME `loops` layer of the stack receives -
as the layers above it forward the call - a list / tuple / dict of one of its own looped types as the argument it dispatches on -/
theorem inDomain_false_iff (s : Sig) : ∀ (chain : List (Cls × PDict)) (c : Call),
    inDomain s chain c = false ↔
      ∃ above p below, chain = above ++ (Cls.loops, p) :: below ∧ loopsPasses s p (reach s above c) = false
  | [], c => by simp [inDomain]
  | (.tryValue, q) :: rest, c => by
      rw [exists_loops_cons s _ (by simp) rest c c (fun _ => rfl), ← inDomain_false_iff s rest c]; simp [inDomain]
  | (.tryBack, q) :: rest, c => by
      rw [exists_loops_cons s _ (by simp) rest c c (fun _ => rfl), ← inDomain_false_iff s rest c]; simp [inDomain]
  | (.cache, q) :: rest, c => by
      rw [exists_loops_cons s _ (by simp) rest c c (fun _ => rfl), ← inDomain_false_iff s rest c]; simp [inDomain]
  | (.kwargsSupport, q) :: rest, c => by
      rw [exists_loops_cons s _ (by simp) rest c (kwFilter s c) (fun _ => rfl), ← inDomain_false_iff s rest _]; simp [inDomain]
  | (.pd2np, q) :: rest, c => by
      rw [exists_loops_cons s _ (by simp) rest c (pd2npCall (excOf q) c) (fun _ => rfl), ← inDomain_false_iff s rest _]; simp [inDomain]
  | (.loops, q) :: rest, c => by
      have ih := inDomain_false_iff s rest (loopsCall s c)
      simp only [inDomain, Bool.and_eq_false_iff]
      constructor
      · rintro (h | h)
        · exact ⟨[], q, rest, rfl, h⟩
        · obtain ⟨above, p, below, he, hp⟩ := ih.mp h
          exact ⟨(Cls.loops, q) :: above, p, below, by rw [he]; rfl, hp⟩
      · rintro ⟨above, p, below, he, hp⟩
        rcases List.cons_eq_append_iff.mp he with ⟨h1, h2⟩ | ⟨above', h1, h2⟩
        · subst h1
          simp only [List.cons.injEq, Prod.mk.injEq, true_and] at h2
          left; rw [← h2.1]; exact hp
        · subst h1
          right; exact ih.mpr ⟨above', p, below, h2, hp⟩

/-- scalars are always inside: a call whose arguments are all cells is in the domain of every stack (the calls of every
generated `stack` / `stackhist` line but the container-first-argument ones) -/
theorem loopsPasses_of_cell (s : Sig) (p : PDict) (c : Call) (h : ∀ a, loopsArg s c = some a → ∃ x, a = .cell x) :
    loopsPasses s p c = true := by
  unfold loopsPasses
  cases ha : loopsArg s c with
  | none => rfl
  | some a => obtain ⟨x, hx⟩ := h a ha; subst hx; rfl

/-- the reviewer's witness: `loops(types=[list])(f)([1, 2])` is outside (the code returns `[f(1), f(2)]`, not `f([1, 2])`), the same
call on a stack whose `loops` has `types=[tuple]` is inside, and so is a scalar call -/
example :
    let s : Sig := { params := ["a"], defaults := [], varargs := none, varkw := none }
    let l12 : Call := { args := [.list [.cell (.int 1), .cell (.int 2)]], kw := [] }
    inDomain s [(.tryBack, []), (.loops, [("types", .list [.cell (.str "list")])])] l12 = false ∧
    inDomain s [(.tryBack, []), (.loops, [("types", .list [.cell (.str "tuple")])])] l12 = true ∧
    inDomain s [(.loops, [("types", .list [.cell (.str "list")])])] { args := [], kw := [("a", .cell (.int 1))] } = true := by
  decide +kernel

/-! ## round j6 (review v5): what the `pd2np` layer does to a call, through observations

`stack_transparent_sharp` uses `pd2npCall exc c = c` for calls without int ndarray.  The theorems below characterise the layer
independently of `int2float`'s own equations: it is the identity EXACTLY on the calls that hold no int ndarray, no int ndarray is
left after it, the number of positional arguments and the keyword names (in order) are kept, a keyword named in `exc` arrives as
passed and any other keyword arrives `int2float`-ed.  Since repo 5e104ce (P8) the CLASS of a container argument is kept as well
(the code passes the object itself when no member changes; container classes are not in `Val`: sampled by the `~dd / ~d2 / ~l1`
cells of the harness). -/

/-- no int ndarray among the arguments: the `pd2np` layer forwards the call it received, whatever `exc` is -/
theorem pd2np_identity_without_int_array (exc : List String) (c : Call) (h : c.hasIntArr = false) :
    pd2npCall exc c = c := pd2npCall_of_no exc c h

/-- … and only then (no `exc`): the layer changes the call iff some argument holds an int ndarray -/
theorem pd2np_identity_iff_no_int_array (c : Call) : pd2npCall [] c = c ↔ c.hasIntArr = false :=
  pd2np_identity_iff c

/-- after the layer no int ndarray is left among the arguments (no `exc`), so applying it twice is applying it once -/
theorem pd2np_leaves_no_int_array (c : Call) :
    (pd2npCall [] c).hasIntArr = false ∧ pd2npCall [] (pd2npCall [] c) = pd2npCall [] c := by
  have h : (pd2npCall [] c).hasIntArr = false := by
    simp [pd2npCall, Call.hasIntArr, int2floatKw_nil, int2floatList_no_int, int2floatKVs_no_int]
  exact ⟨h, pd2npCall_of_no [] _ h⟩

/-- the shape of the call is kept: as many positional arguments, the same keyword names in the same order; a keyword named in
`exc` arrives as passed, any other one converted -/
theorem pd2np_keeps_shape (exc : List String) (c : Call) :
    (pd2npCall exc c).args.length = c.args.length ∧ (pd2npCall exc c).kw.map Prod.fst = c.kw.map Prod.fst ∧
    (∀ k, k ∈ exc → (pd2npCall exc c).kw.lookup k = c.kw.lookup k) ∧
    (∀ k, k ∉ exc → (pd2npCall exc c).kw.lookup k = (c.kw.lookup k).map int2float) := by
  refine ⟨int2floatList_length _, int2floatKw_keys exc _, ?_, ?_⟩
  · intro k hk
    simp [pd2npCall, int2floatKw_lookup, hk]
  · intro k hk
    simp [pd2npCall, int2floatKw_lookup, hk]

/-- a value is left as it is exactly when it holds no int ndarray (any depth of list / tuple / dict) -/
theorem int2float_identity_iff (v : Val) : int2float v = v ↔ v.hasIntArr = false := int2float_eq_self_iff v

example :
    let c : Call := { args := [.list [.cell (.str "~arr:1,2"), .cell (.int 3)]], kw := [("b", .cell (.str "~arr:4")), ("c", .cell (.str "~arr:f:5"))] }
    (pd2npCall ["b"] c).args = [.list [.cell (.str "~arr:f:1,2"), .cell (.int 3)]] ∧ (pd2npCall ["b"] c).kw = c.kw ∧
    c.hasIntArr = true ∧ (pd2npCall [] c).hasIntArr = false := by
  decide +kernel


/-! ## round k6: histories that start from a NON-EMPTY cache -/

/-- the dict `d` of a cache layer holds results of `g`: its keys are distinct, they are the keys of the calls `seen0`, and under
each key it stores `g` of the FIRST call of `seen0` with that key -/
def CacheHolds (g : Call → Val) (d : List (Val × Val)) (seen0 : List Call) : Prop :=
  CacheInv g { cache := d, evals := d.map (·.1) } seen0

/-- the empty dict -/
theorem cacheHolds_empty (g : Call → Val) : CacheHolds g [] [] :=
  ⟨rfl, by simp, by simp, by intro k v h; simp at h⟩

/-- a dict written entry by entry from calls with pairwise different keys -/
theorem cacheHolds_of_entries (g : Call → Val) (cs : List Call) (hn : (cs.map callKey).Nodup) :
    CacheHolds g (cs.map fun c => (callKey c, g c)) cs := by
  refine ⟨rfl, by simpa [List.map_map, Function.comp_def] using hn, by intro k; simp [List.map_map, Function.comp_def], ?_⟩
  intro k v h
  induction cs with
  | nil => simp at h
  | cons c cs ih =>
    simp only [List.map_cons, List.nodup_cons] at hn
    simp only [List.map_cons, List.lookup_cons] at h
    by_cases hk : k = callKey c
    · subst hk
      simp only [beq_self_eq_true] at h
      cases h
      exact ⟨c, by simp [firstWith], rfl⟩
    · have hb : (k == callKey c) = false := by simpa using hk
      rw [hb] at h
      obtain ⟨c0, h0, hv⟩ := ih hn.2 h
      refine ⟨c0, ?_, hv⟩
      simp only [firstWith, List.find?_cons] at h0 ⊢
      have : (callKey c == k) = false := by simpa using fun e => hk e.symm
      rw [this]; exact h0

/-- what a history of calls of a non-raising function leaves in the dict, from the empty dict -/
theorem cacheHolds_of_runCache (g : Call → Val) (pre0 : List Call) :
    CacheHolds g (runCache (fun c => .ok (g c)) {} pre0).1.cache pre0 := by
  have inv0 : CacheInv g {} [] := ⟨rfl, by simp, by simp, by intro k v h; simp at h⟩
  obtain ⟨inv, _⟩ := runCache_inv g pre0 {} [] inv0
  simp only [List.nil_append] at inv
  exact ⟨rfl, inv.nodup, inv.keys, inv.first⟩

/-- **The bare cache from ANY dict that holds results of `g`** (`cache_once_per_combination` is the case of the empty dict):
the calls `seen0` behind the stored entries count as earlier calls. -/
theorem cache_once_per_combination_from (g : Call → Val) (st : CacheSt) (seen0 pre : List Call) (c : Call)
    (inv : CacheInv g st seen0) (hok : ∀ x ∈ seen0 ++ pre, Call.ok x) (hc : Call.ok c) :
    let hist := seen0 ++ pre
    let r := runCache (fun c => .ok (g c)) st pre
    let r' := runCache (fun c => .ok (g c)) st (pre ++ [c])
    r'.2 = r.2 ++ [r'.2.getLast?.getD (.ok (g c))] ∧
    ((∀ x ∈ hist, ¬ sameComb x c) →
      r'.1.evals.length = r.1.evals.length + 1 ∧ r'.2.getLast? = some (.ok (g c))) ∧
    ((∃ x ∈ hist, sameComb x c) →
      r'.1.evals.length = r.1.evals.length ∧
      ∃ pre1 c0 pre2, hist = pre1 ++ c0 :: pre2 ∧ sameComb c0 c ∧ (∀ x ∈ pre1, ¬ sameComb x c) ∧
        r'.2.getLast? = some (.ok (g c0))) := by
  obtain ⟨inv, _⟩ := runCache_inv g pre st seen0 inv
  have happ := runCache_append (fun c => Except.ok (g c)) st pre [c]
  simp only [runCache] at happ
  intro hist r r'
  have hkey : ∀ x ∈ hist, (callKey x = callKey c ↔ sameComb x c) := fun x hx => callKey_eq_iff x c (hok x hx) hc
  have hr' : r' = ((cacheCall (fun c => .ok (g c)) r.1 c).1, r.2 ++ [(cacheCall (fun c => .ok (g c)) r.1 c).2]) := happ
  cases hl : r.1.cache.lookup (callKey c) with
  | some v =>
    obtain ⟨c0, hc0, hv⟩ := inv.first _ v hl
    have hcc := cacheCall_hit (fun c => Except.ok (g c)) r.1 c v hl
    rw [hcc] at hr'
    have hin : ∃ x ∈ hist, sameComb x c := by
      simp only [firstWith] at hc0
      have := List.mem_of_find?_eq_some hc0
      have hp := List.find?_some hc0
      exact ⟨c0, this, (hkey c0 this).1 (by simpa using hp)⟩
    refine ⟨by rw [hr']; simp, fun hno => ?_, fun _ => ?_⟩
    · obtain ⟨x, hx, hs⟩ := hin
      exact absurd hs (hno x hx)
    · refine ⟨by rw [hr'], ?_⟩
      simp only [firstWith] at hc0
      obtain ⟨hp, pre1, pre2, hsplit, hbefore⟩ := List.find?_eq_some_iff_append.1 hc0
      have hmem0 : c0 ∈ hist := by show c0 ∈ seen0 ++ pre; rw [hsplit]; simp
      refine ⟨pre1, c0, pre2, hsplit, (hkey c0 hmem0).1 (by simpa using hp), fun x hx hs => ?_, ?_⟩
      · have hxm : x ∈ hist := by show x ∈ seen0 ++ pre; rw [hsplit]; simp [hx]
        have := hbefore x hx
        exact absurd ((hkey x hxm).2 hs) (by simpa using this)
      · rw [hr', hv]; simp
  | none =>
    have hcc := cacheCall_miss g r.1 c hl
    rw [hcc] at hr'
    have hnot : callKey c ∉ hist.map callKey := by
      rw [← inv.keys]; exact (lookup_none_iff_not_mem _ _).1 hl
    refine ⟨by rw [hr']; simp, fun _ => ⟨by rw [hr']; simp, by rw [hr']; simp⟩, fun ⟨x, hx, hs⟩ => ?_⟩
    exact absurd (List.mem_map.2 ⟨x, hx, (hkey x hx).2 hs⟩) hnot


/-- **A stack with a cache layer, from ANY state whose dict holds results of `f`** - the dict a `cache_func` constructor took
over from the wrapper it unwrapped, filled through another stack (`stack_cache_history_rewrapped`), a dict handed in by the
caller (`cache_func(f, cache = d)`), the state after an earlier part of the history.  `seen0` are the calls behind the stored
entries (as the cache layer that stored them received them); they count as earlier calls:
* no call of `seen0` and no earlier call of the history is the same combination: one more execution, the reply is `f c`;
* otherwise no execution and the reply is the stored result of the FIRST such call (`resultOf s body c0` = what `f` returns on it). -/
theorem stack_cache_history_from (s : Sig) (body : PDict → Res Val) (unh : Call → Bool) (p : PDict)
    (above below : List (Cls × PDict)) (ha : noCache above) (hb : noCache below)
    (st0 : HSt) (seen0 : List Call) (h0 : CacheHolds (resultOf s body) st0.cache seen0) (hok0 : ∀ x ∈ seen0, Call.ok x)
    (pre : List Call) (c : Call)
    (hpre : ∀ x ∈ pre, HistCallFor (classes (above ++ (Cls.cache, p) :: below)) s body unh above x)
    (hc : HistCallFor (classes (above ++ (Cls.cache, p) :: below)) s body unh above c) :
    let chain := above ++ (Cls.cache, p) :: below
    let seen := reach s above
    let hist := seen0 ++ pre.map seen
    let r := runH s body unh chain st0 pre
    let r' := runH s body unh chain st0 (pre ++ [c])
    r'.2 = r.2 ++ [r'.2.getLast?.getD (applyFn s body c)] ∧
    ((∀ y ∈ hist, ¬ sameComb y (seen c)) →
      r'.1.evals.length = r.1.evals.length + 1 ∧ r'.2.getLast? = some (applyFn s body c)) ∧
    ((∃ y ∈ hist, sameComb y (seen c)) →
      r'.1.evals.length = r.1.evals.length ∧
      ∃ h1 y0 h2, hist = h1 ++ y0 :: h2 ∧ sameComb y0 (seen c) ∧
        (∀ y ∈ h1, ¬ sameComb y (seen c)) ∧ r'.2.getLast? = some (.ok (resultOf s body y0))) := by
  intro chain seen hist r r'
  have hKa : Within (classes (above ++ (Cls.cache, p) :: below)) above :=
    fun w hw => within_classes _ w (by simp [hw])
  have hKb : Within (classes (above ++ (Cls.cache, p) :: below)) below :=
    fun w hw => within_classes _ w (by simp [hw])
  have hv : ∀ x ∈ pre, (∃ v, ValidFor (classes (above ++ (Cls.cache, p) :: below)) s body x v) ∧
      unh (reach s above x) = false :=
    fun x hx => ⟨(hpre x hx).1, (hpre x hx).2.1⟩
  have hv' : ∀ x ∈ pre ++ [c], (∃ v, ValidFor (classes (above ++ (Cls.cache, p) :: below)) s body x v) ∧
      unh (reach s above x) = false := by
    intro x hx
    rcases List.mem_append.1 hx with hx | hx
    · exact hv x hx
    · simp only [List.mem_singleton] at hx; subst hx; exact ⟨hc.1, hc.2.1⟩
  let cst0 : CacheSt := { cache := st0.cache, evals := st0.cache.map (·.1) }
  obtain ⟨_, hr2, hr3⟩ := runH_refines_for _ s body unh p above below ha hb hKa hKb pre st0 cst0 rfl hv
  obtain ⟨_, hr2', hr3'⟩ := runH_refines_for _ s body unh p above below ha hb hKa hKb (pre ++ [c]) st0 cst0 rfl hv'
  rw [List.map_append, List.map_cons, List.map_nil] at hr2' hr3'
  have hres : ∀ x, (∃ v, ValidFor (classes (above ++ (Cls.cache, p) :: below)) s body x v) →
      Except.ok (resultOf s body (seen x)) = applyFn s body x := by
    rintro x ⟨v, h⟩
    rw [(ValidFor.reach above hKa h).resultOf_eq, h.ok]
  obtain ⟨h1, h2, h3⟩ := cache_once_per_combination_from (resultOf s body) cst0 seen0 (pre.map seen) (seen c) h0
    (by
      intro y hy
      rcases List.mem_append.1 hy with hy | hy
      · exact hok0 y hy
      · obtain ⟨x, hx, rfl⟩ := List.mem_map.1 hy; exact (hpre x hx).2.2) hc.2.2
  have e2 : r.2 = (runCache (fun c => Except.ok (resultOf s body c)) cst0 (List.map seen pre)).2 := hr2
  have e2' : r'.2 = (runCache (fun c => Except.ok (resultOf s body c)) cst0 (List.map seen pre ++ [seen c])).2 := hr2'
  have e3 : r.1.evals.length + cst0.evals.length = st0.evals.length +
      (runCache (fun c => Except.ok (resultOf s body c)) cst0 (List.map seen pre)).1.evals.length := hr3
  have e3' : r'.1.evals.length + cst0.evals.length = st0.evals.length +
      (runCache (fun c => Except.ok (resultOf s body c)) cst0 (List.map seen pre ++ [seen c])).1.evals.length := hr3'
  refine ⟨?_, fun hno => ?_, fun hex => ?_⟩
  · rw [e2', e2, ← hres c hc.1]; exact h1
  · obtain ⟨hl, hlast⟩ := h2 hno
    refine ⟨by omega, ?_⟩
    rw [e2', ← hres c hc.1]; exact hlast
  · obtain ⟨hl, p1, c0', p2, hsplit, hs0, hbefore, hlast⟩ := h3 hex
    refine ⟨by omega, p1, c0', p2, hsplit, hs0, hbefore, ?_⟩
    rw [e2']; exact hlast

/-- what the stored result is in terms of `f`: for an entry stored on behalf of a valid call `x` through a stack whose layers
above the cache are `above`, it is what `f` returns on `x` -/
theorem stored_result_is_f (s : Sig) (body : PDict → Res Val) (K : List Cls) (above : List (Cls × PDict))
    (hK : Within K above) (x : Call) (v : Val) (h : ValidFor K s body x v) :
    Except.ok (resultOf s body (reach s above x)) = applyFn s body x := by
  rw [(ValidFor.reach above hK h).resultOf_eq, h.ok]

/-- **The cache survives re-wrapping**: a history `pre0` through one stack, then - the dict taken over by the constructor
(`runSteps`) - a history `pre` and a call `c` through ANOTHER stack over the same function.  The calls of both histories, each as
its own cache layer received it, are the earlier calls. -/
theorem stack_cache_history_rewrapped (s : Sig) (body : PDict → Res Val) (unh : Call → Bool) (p0 p : PDict)
    (above0 below0 above below : List (Cls × PDict))
    (ha0 : noCache above0) (hb0 : noCache below0) (ha : noCache above) (hb : noCache below)
    (pre0 pre : List Call) (c : Call)
    (hpre0 : ∀ x ∈ pre0, HistCallFor (classes (above0 ++ (Cls.cache, p0) :: below0)) s body unh above0 x)
    (hpre : ∀ x ∈ pre, HistCallFor (classes (above ++ (Cls.cache, p) :: below)) s body unh above x)
    (hc : HistCallFor (classes (above ++ (Cls.cache, p) :: below)) s body unh above c) :
    let chain := above ++ (Cls.cache, p) :: below
    let seen := reach s above
    let st0 := (runH s body unh (above0 ++ (Cls.cache, p0) :: below0) {} pre0).1
    let hist := pre0.map (reach s above0) ++ pre.map seen
    let r := runH s body unh chain st0 pre
    let r' := runH s body unh chain st0 (pre ++ [c])
    r'.2 = r.2 ++ [r'.2.getLast?.getD (applyFn s body c)] ∧
    ((∀ y ∈ hist, ¬ sameComb y (seen c)) →
      r'.1.evals.length = r.1.evals.length + 1 ∧ r'.2.getLast? = some (applyFn s body c)) ∧
    ((∃ y ∈ hist, sameComb y (seen c)) →
      r'.1.evals.length = r.1.evals.length ∧
      ∃ h1 y0 h2, hist = h1 ++ y0 :: h2 ∧ sameComb y0 (seen c) ∧
        (∀ y ∈ h1, ¬ sameComb y (seen c)) ∧ r'.2.getLast? = some (.ok (resultOf s body y0))) := by
  intro chain seen st0 hist r r'
  have hK0a : Within (classes (above0 ++ (Cls.cache, p0) :: below0)) above0 :=
    fun w hw => within_classes _ w (by simp [hw])
  have hK0b : Within (classes (above0 ++ (Cls.cache, p0) :: below0)) below0 :=
    fun w hw => within_classes _ w (by simp [hw])
  obtain ⟨hcache, _, _⟩ := runH_refines_for _ s body unh p0 above0 below0 ha0 hb0 hK0a hK0b pre0 {} {} rfl
    (fun x hx => ⟨(hpre0 x hx).1, (hpre0 x hx).2.1⟩)
  have h0 : CacheHolds (resultOf s body) st0.cache (pre0.map (reach s above0)) := by
    show CacheHolds (resultOf s body) (runH s body unh (above0 ++ (Cls.cache, p0) :: below0) {} pre0).1.cache _
    rw [hcache]
    exact cacheHolds_of_runCache (resultOf s body) (pre0.map (reach s above0))
  exact stack_cache_history_from s body unh p above below ha hb st0 (pre0.map (reach s above0)) h0
    (by intro y hy; obtain ⟨x, hx, rfl⟩ := List.mem_map.1 hy; exact (hpre0 x hx).2.2) pre c hpre hc


/-- `stack_cache_unhashable_call` with the hypotheses conditional on the classes of the stack -/
theorem stack_cache_unhashable_call_sharp (s : Sig) (body : PDict → Res Val) (unh : Call → Bool) (p : PDict)
    (above below : List (Cls × PDict)) (ha : noCache above) (hb : noCache below) (st : HSt) (c : Call) (v : Val)
    (h : ValidFor (classes (above ++ (Cls.cache, p) :: below)) s body c v) (hu : unh (reach s above c) = true) :
    let r := evalH s body unh (above ++ (Cls.cache, p) :: below) st c
    r.2 = applyFn s body c ∧ r.1.cache = st.cache ∧ r.1.evals.length = st.evals.length + 1 := by
  intro r
  have hKa : Within (classes (above ++ (Cls.cache, p) :: below)) above :=
    fun w hw => within_classes _ w (by simp [hw])
  have hKb : Within (classes (above ++ (Cls.cache, p) :: below)) below :=
    fun w hw => within_classes _ w (by simp [hw])
  have := evalH_through_unh_for _ s body unh p below hb hKb above st c v ha hKa h hu
  refine ⟨by rw [show r = _ from this, h.ok], by rw [show r = _ from this], by rw [show r = _ from this]; simp⟩

/-- **Histories with hashable AND unhashable calls (finding K5 woven into the history statement).**  Any stack
`above ++ cache :: below`, any history `pre` of valid calls of a non-raising `f` - each hashable or not for the cache layer -
and any next valid call `c`:
* `c` unhashable: one more execution, the reply is `f c`, the dict is untouched;
* `c` hashable: what `stack_cache_history_sharp` says, with the HASHABLE earlier calls as the earlier calls - unhashable calls
  before it, however many, neither answer it nor make it evaluated again. -/
theorem stack_cache_history_mixed (s : Sig) (body : PDict → Res Val) (unh : Call → Bool) (p : PDict)
    (above below : List (Cls × PDict)) (ha : noCache above) (hb : noCache below)
    (pre : List Call) (c : Call)
    (hpre : ∀ x ∈ pre, (∃ v, ValidFor (classes (above ++ (Cls.cache, p) :: below)) s body x v) ∧
      (unh (reach s above x) = false → Call.ok (reach s above x)))
    (hc : ∃ v, ValidFor (classes (above ++ (Cls.cache, p) :: below)) s body c v)
    (hcok : unh (reach s above c) = false → Call.ok (reach s above c)) :
    let chain := above ++ (Cls.cache, p) :: below
    let seen := reach s above
    let hashable := pre.filter fun x => !unh (seen x)
    let r := runH s body unh chain {} pre
    let r' := runH s body unh chain {} (pre ++ [c])
    r'.2 = r.2 ++ [r'.2.getLast?.getD (applyFn s body c)] ∧
    (unh (seen c) = true →
      r'.1.evals.length = r.1.evals.length + 1 ∧ r'.2.getLast? = some (applyFn s body c) ∧ r'.1.cache = r.1.cache) ∧
    (unh (seen c) = false →
      ((∀ x ∈ hashable, ¬ sameComb (seen x) (seen c)) →
        r'.1.evals.length = r.1.evals.length + 1 ∧ r'.2.getLast? = some (applyFn s body c)) ∧
      ((∃ x ∈ hashable, sameComb (seen x) (seen c)) →
        r'.1.evals.length = r.1.evals.length ∧
        ∃ pre1 c0 pre2, hashable = pre1 ++ c0 :: pre2 ∧ sameComb (seen c0) (seen c) ∧
          (∀ x ∈ pre1, ¬ sameComb (seen x) (seen c)) ∧ r'.2.getLast? = some (applyFn s body c0))) := by
  intro chain seen hashable r r'
  have hKa : Within (classes (above ++ (Cls.cache, p) :: below)) above :=
    fun w hw => within_classes _ w (by simp [hw])
  have hKb : Within (classes (above ++ (Cls.cache, p) :: below)) below :=
    fun w hw => within_classes _ w (by simp [hw])
  have happ : r' = ((evalH s body unh chain r.1 c).1, r.2 ++ [(evalH s body unh chain r.1 c).2]) := by
    show runH s body unh chain {} (pre ++ [c]) = _
    rw [runH_append]; simp [runH]; exact ⟨rfl, rfl, rfl⟩
  have hlast : r'.2.getLast? = some (evalH s body unh chain r.1 c).2 := by rw [happ]; simp
  have h1 : r'.2 = r.2 ++ [r'.2.getLast?.getD (applyFn s body c)] := by rw [hlast]; rw [happ]; simp
  refine ⟨h1, fun hu => ?_, fun hu => ?_⟩
  · obtain ⟨v, hv⟩ := hc
    have e := evalH_through_unh_for _ s body unh p below hb hKb above r.1 c v ha hKa hv hu
    have e' : evalH s body unh chain r.1 c = _ := e
    refine ⟨by rw [happ, e']; simp, by rw [hlast, e', hv.ok], by rw [happ, e']⟩
  · have hcache := runH_cache_mixed_for _ s body unh p above below ha hb hKa hKb pre {} {} rfl (fun x hx => (hpre x hx).1)
    have h0 : CacheHolds (resultOf s body) r.1.cache (hashable.map seen) := by
      show CacheHolds (resultOf s body) (runH s body unh chain {} pre).1.cache _
      rw [show (runH s body unh chain {} pre).1.cache = _ from hcache]
      exact cacheHolds_of_runCache (resultOf s body) _
    have hmemh : ∀ x ∈ hashable, x ∈ pre ∧ unh (seen x) = false := by
      intro x hx
      have := List.mem_filter.1 hx
      exact ⟨this.1, by simpa using this.2⟩
    have hok0 : ∀ y ∈ hashable.map seen, Call.ok y := by
      intro y hy
      obtain ⟨x, hx, rfl⟩ := List.mem_map.1 hy
      exact (hpre x (hmemh x hx).1).2 (hmemh x hx).2
    obtain ⟨_, g2, g3⟩ := stack_cache_history_from s body unh p above below ha hb r.1 (hashable.map seen) h0 hok0 [] c
      (by intro x hx; simp at hx) ⟨hc, hu, hcok hu⟩
    simp only [List.map_nil, List.append_nil, List.nil_append, runH] at g2 g3
    have e1 : (evalH s body unh (above ++ (Cls.cache, p) :: below) r.1 c).1 = r'.1 := by rw [happ]
    have e2 : [(evalH s body unh (above ++ (Cls.cache, p) :: below) r.1 c).2].getLast? = r'.2.getLast? := by
      rw [hlast]; simp; rfl
    rw [e1, e2] at g2 g3
    refine ⟨fun hno => g2 (by
      intro y hy; obtain ⟨x, hx, rfl⟩ := List.mem_map.1 hy; exact hno x hx), fun ⟨x, hx, hs⟩ => ?_⟩
    obtain ⟨hl, p1, y0, p2, hsplit, hs0, hbefore, hrep⟩ := g3 ⟨seen x, List.mem_map.2 ⟨x, hx, rfl⟩, hs⟩
    obtain ⟨l1, l2, hpre12, hm1, hm2⟩ := List.map_eq_append_iff.1 hsplit
    obtain ⟨c0, l2', hl2, hc0, hm2'⟩ := List.map_eq_cons_iff.1 hm2
    subst hl2 hc0 hm1
    have hc0mem : c0 ∈ hashable := by rw [hpre12]; simp
    obtain ⟨v0, hv0⟩ := (hpre c0 (hmemh c0 hc0mem).1).1
    refine ⟨hl, l1, c0, l2', hpre12, hs0, fun y hy => hbefore (seen y) (List.mem_map.2 ⟨y, hy, rfl⟩), ?_⟩
    rw [hrep, stored_result_is_f s body _ above hKa c0 v0 hv0]

/-- non-vacuity: `try_none(cache(f))`; `g(1)`, `g(array)`, `g(array)`, `g(1)`: the array calls are executed each time
(3 executions in all), the last call is answered from the dict -/
example :
    let s : Sig := { params := ["a"], defaults := [], varargs := none, varkw := none }
    let chain : List (Cls × PDict) := [(.tryValue, []), (.cache, [])]
    let c1 : Call := { args := [.cell (.int 1)], kw := [] }
    let ca : Call := { args := [.cell (.str "~arr:f:1,2")], kw := [] }
    (runH s recBody Call.hasArr chain {} [c1, ca, ca, c1]).1.evals.length = 3 ∧
    (runH s recBody Call.hasArr chain {} [c1, ca, ca, c1]).2 = [applyFn s recBody c1, applyFn s recBody ca, applyFn s recBody ca, applyFn s recBody c1] := by
  refine ⟨by decide +kernel, by decide +kernel⟩

/-- non-vacuity of `stack_cache_history_rewrapped`: `g1 = cache(f); g1(1); g2 = cache(try_none(g1)); g2(1)` - the second stack
is `cache :: try_value`, the dict is g1's: `f` is not executed again -/
example :
    let s : Sig := { params := ["a"], defaults := [], varargs := none, varkw := none }
    let c1 : Call := { args := [.cell (.int 1)], kw := [] }
    let st0 := (runH s recBody Call.hasArr [(.cache, [])] {} [c1]).1
    (mk .cache [] (mk .tryValue [] { chain := [(.cache, [])], base := 0 })).chain = [(.cache, []), (.tryValue, [])] ∧
    st0.evals.length = 1 ∧
    (runH s recBody Call.hasArr [(.cache, []), (.tryValue, [])] st0 [c1]).1.evals.length = 1 ∧
    (runH s recBody Call.hasArr [(.cache, []), (.tryValue, [])] st0 [c1]).2 = [applyFn s recBody c1] := by
  refine ⟨by decide +kernel, by decide +kernel, by decide +kernel, by decide +kernel⟩


/-! ### the remaining history variants with the conditional hypotheses -/

/-- `stack_cache_history_as_passed` with the hypotheses conditional on the classes of the stack -/
theorem stack_cache_history_as_passed_sharp (s : Sig) (body : PDict → Res Val) (unh : Call → Bool) (p : PDict)
    (above below : List (Cls × PDict)) (ha : noCache above) (hb : noCache below) (hl : Cls.loops ∉ classes above)
    (pre : List Call) (c : Call)
    (hpre : ∀ x ∈ pre, (∃ v, ValidFor (classes (above ++ (Cls.cache, p) :: below)) s body x v) ∧ unh x = false ∧ Call.ok x)
    (hc : (∃ v, ValidFor (classes (above ++ (Cls.cache, p) :: below)) s body c v) ∧ unh c = false ∧ Call.ok c) :
    let chain := above ++ (Cls.cache, p) :: below
    let r := runH s body unh chain {} pre
    let r' := runH s body unh chain {} (pre ++ [c])
    ((∀ x ∈ pre, ¬ sameComb x c) →
      r'.1.evals.length = r.1.evals.length + 1 ∧ r'.2.getLast? = some (applyFn s body c)) ∧
    ((∃ x ∈ pre, sameComb x c) →
      r'.1.evals.length = r.1.evals.length ∧
      ∃ pre1 c0 pre2, pre = pre1 ++ c0 :: pre2 ∧ sameComb c0 c ∧
        (∀ x ∈ pre1, ¬ sameComb x c) ∧ r'.2.getLast? = some (applyFn s body c0)) := by
  have hKa : Within (classes (above ++ (Cls.cache, p) :: below)) above :=
    fun w hw => within_classes _ w (by simp [hw])
  have hseen : ∀ x, (∃ v, ValidFor (classes (above ++ (Cls.cache, p) :: below)) s body x v) → reach s above x = x := by
    rintro x ⟨v, h⟩
    exact reach_eq_self_for above hKa h hl
  have hpre' : ∀ x ∈ pre, HistCallFor (classes (above ++ (Cls.cache, p) :: below)) s body unh above x := by
    intro x hx
    obtain ⟨h1, h2, h3⟩ := hpre x hx
    exact ⟨h1, by rw [hseen x h1]; exact h2, by rw [hseen x h1]; exact h3⟩
  have hc' : HistCallFor (classes (above ++ (Cls.cache, p) :: below)) s body unh above c :=
    ⟨hc.1, by rw [hseen c hc.1]; exact hc.2.1, by rw [hseen c hc.1]; exact hc.2.2⟩
  obtain ⟨_, h2, h3⟩ := stack_cache_history_sharp s body unh p above below ha hb pre c hpre' hc'
  simp only [hseen c hc.1] at h2 h3
  refine ⟨fun hno => h2 fun x hx => by rw [hseen x (hpre x hx).1]; exact hno x hx, fun ⟨x, hx, hs⟩ => ?_⟩
  obtain ⟨hlen, pre1, c0, pre2, hsplit, hs0, hbefore, hlast⟩ := h3 ⟨x, hx, by rw [hseen x (hpre x hx).1]; exact hs⟩
  have hc0 : c0 ∈ pre := by rw [hsplit]; simp
  refine ⟨hlen, pre1, c0, pre2, hsplit, by rw [← hseen c0 (hpre c0 hc0).1]; exact hs0, fun y hy => ?_, hlast⟩
  have hym : y ∈ pre := by rw [hsplit]; simp [hy]
  rw [← hseen y (hpre y hym).1]; exact hbefore y hy

/-- `stack_cache_history_all` with the hypotheses conditional on the classes of the stack -/
theorem stack_cache_history_all_sharp (s : Sig) (body : PDict → Res Val) (unh : Call → Bool) (p : PDict)
    (above below : List (Cls × PDict)) (ha : noCache above) (hb : noCache below)
    (calls : List Call)
    (hcalls : ∀ x ∈ calls, (∃ v, ValidFor (classes (above ++ (Cls.cache, p) :: below)) s body x v) ∧
      unh (reach s above x) = false) :
    let seen := reach s above
    let r := runH s body unh (above ++ (Cls.cache, p) :: below) {} calls
    (∀ (i : Nat) (c : Call), calls[i]? = some c →
      ∃ pre1 c0 pre2, calls = pre1 ++ c0 :: pre2 ∧ callKey (seen c0) = callKey (seen c) ∧
        (∀ x ∈ pre1, callKey (seen x) ≠ callKey (seen c)) ∧ r.2[i]? = some (applyFn s body c0)) ∧
    ∃ keys : List Val, keys.Nodup ∧ (∀ k, k ∈ keys ↔ k ∈ calls.map fun c => callKey (seen c)) ∧
      r.1.evals.length = keys.length := by
  intro seen r
  have hKa : Within (classes (above ++ (Cls.cache, p) :: below)) above :=
    fun w hw => within_classes _ w (by simp [hw])
  have hKb : Within (classes (above ++ (Cls.cache, p) :: below)) below :=
    fun w hw => within_classes _ w (by simp [hw])
  obtain ⟨_, hr2, hr3⟩ := runH_refines_for _ s body unh p above below ha hb hKa hKb calls {} {} rfl hcalls
  simp only [List.length_nil, Nat.add_zero, Nat.zero_add] at hr3
  obtain ⟨hnd, hkeys, hrep⟩ := cache_once (resultOf s body) (calls.map seen)
  refine ⟨fun i c hi => ?_, ⟨_, hnd, fun k => by rw [hkeys k, List.map_map]; rfl, hr3⟩⟩
  have e2 : r.2 = (runCache (fun c => Except.ok (resultOf s body c)) {} (List.map seen calls)).2 := hr2
  have hmem : c ∈ calls := List.mem_of_getElem? hi
  cases hf : firstWith (calls.map seen) (callKey (seen c)) with
  | none =>
    rw [firstWith_none_iff] at hf
    exact absurd (List.mem_map.2 ⟨seen c, List.mem_map.2 ⟨c, hmem, rfl⟩, rfl⟩) hf
  | some c0' =>
    simp only [firstWith] at hf
    obtain ⟨hk0, p1, p2, hsplit, hbefore⟩ := List.find?_eq_some_iff_append.1 hf
    obtain ⟨l1, l2, hc12, hm1, hm2⟩ := List.map_eq_append_iff.1 hsplit
    obtain ⟨c0, l2', hl2, hc0, _⟩ := List.map_eq_cons_iff.1 hm2
    subst hl2 hc0 hm1
    have hc0mem : c0 ∈ calls := by rw [hc12]; simp
    have hk0' : callKey (seen c0) = callKey (seen c) := by simpa using hk0
    have hnot1 : ∀ y ∈ l1, callKey (seen y) ≠ callKey (seen c) := by
      intro y hy
      have := hbefore (seen y) (List.mem_map.2 ⟨y, hy, rfl⟩)
      simpa using this
    refine ⟨l1, c0, l2', hc12, hk0', hnot1, ?_⟩
    rw [e2, hrep]
    simp only [List.map_map, List.getElem?_map, hi, Option.map_some, Function.comp]
    have : firstWith (List.map seen calls) (callKey (seen c)) = some (seen c0) := by
      simp only [firstWith]; exact hf
    rw [this]
    obtain ⟨v, hv⟩ := (hcalls c0 hc0mem).1
    simp only [Option.getD_some]
    rw [(ValidFor.reach above hKa hv).resultOf_eq, hv.ok]

/-! ## round k6: try_* and exceptions that are not `Exception`s (finding K8) -/

/-- when every exception is an `Exception` the code is `tryValueCode` / `tryBackCode` of the theorems above -/
theorem tryValueCodeB_all {A E V : Type} (f : A → Except E V) (rep : Nat) (rv : Bool) (value : V) (a : A) :
    tryValueCodeB (fun _ => true) f rep rv value a = tryValueCode f rep rv value a := by
  induction rep with
  | zero => unfold tryValueCodeB tryValueCode; cases f a <;> simp
  | succ n ih => unfold tryValueCodeB tryValueCode; cases f a <;> simp [ih]

theorem tryBackCodeB_all {A E V : Type} (f : A → Except E V) (first : A → V) (a : A) :
    tryBackCodeB (fun _ => true) f first a = tryBackCode f first a := by
  unfold tryBackCodeB tryBackCode; cases f a <;> simp

/-- **try_value with `except Exception`** (any `repeat`, `return_value` true): f's result when f returns, the fallback when f
raises an `Exception`, and the exception itself when f raises anything else -/
theorem try_value_base_spec {A E V : Type} (catches : E → Bool) (f : A → Except E V) (rep : Nat) (value : V) (a : A) :
    tryValueCodeB catches f rep true value a = resultOrB catches (f a) value := by
  induction rep with
  | zero => unfold tryValueCodeB resultOrB; cases f a <;> simp
  | succ n ih =>
    unfold tryValueCodeB
    cases h : f a with
    | ok v => simp [resultOrB]
    | error e =>
      simp only [ih, h]
      cases hc : catches e <;> simp [resultOrB, hc]

/-- "exactly when", as the code has it: the fallback is returned iff f raises an `Exception` (or returns the fallback itself) … -/
theorem try_value_fallback_iff_base {A E V : Type} (catches : E → Bool) (f : A → Except E V) (rep : Nat) (value : V) (a : A) :
    tryValueCodeB catches f rep true value a = .ok value ↔
      (∃ e, f a = .error e ∧ catches e = true) ∨ f a = .ok value := by
  rw [try_value_base_spec]
  cases f a with
  | ok v => simp [resultOrB]
  | error e => cases hc : catches e <;> simp [resultOrB, hc]

/-- … and the wrapped call raises iff f raises something that is not an `Exception` - then that very exception -/
theorem try_value_raises_iff {A E V : Type} (catches : E → Bool) (f : A → Except E V) (rep : Nat) (value : V) (a : A) (e : E) :
    tryValueCodeB catches f rep true value a = .error e ↔ f a = .error e ∧ catches e = false := by
  rw [try_value_base_spec]
  cases f a with
  | ok v => simp [resultOrB]
  | error e' =>
    cases hc : catches e' with
    | false => simp [resultOrB, hc]; rintro rfl; exact hc
    | true => simp [resultOrB, hc]; rintro rfl; exact hc

theorem try_value_no_return_base_spec {A E V : Type} (catches : E → Bool) (f : A → Except E V) (rep : Nat) (value : V)
    (a : A) : tryValueCodeB catches f rep false value a = f a := by
  induction rep with
  | zero => unfold tryValueCodeB; rfl
  | succ n ih =>
    unfold tryValueCodeB
    cases h : f a with
    | ok v => rfl
    | error e => cases hc : catches e <;> simp [ih, h]

theorem try_back_base_spec {A E V : Type} (catches : E → Bool) (f : A → Except E V) (first : A → V) (a : A) :
    tryBackCodeB catches f first a = resultOrB catches (f a) (first a) := by
  unfold tryBackCodeB resultOrB; cases f a <;> rfl

/-- **Finding K8: "return their fallback exactly when f raises" is false of the code for a `BaseException` that is not an
`Exception`**: `try_none(f)` where `f` raises `KeyboardInterrupt` (exception `false`, not caught) raises it, for every `repeat`;
an ordinary exception (`true`) gives the fallback. -/
theorem try_value_base_exception_propagates (rep : Nat) :
    tryValueCodeB (fun e : Bool => e) (fun _ : Unit => (.error false : Except Bool Nat)) rep true 0 () = .error false ∧
    tryValueCodeB (fun e : Bool => e) (fun _ : Unit => (.error true : Except Bool Nat)) rep true 0 () = .ok 0 := by
  constructor
  · exact (try_value_raises_iff _ _ rep 0 () false).2 ⟨rfl, rfl⟩
  · exact (try_value_fallback_iff_base _ _ rep 0 ()).2 (Or.inl ⟨true, rfl, rfl⟩)

/-! ## round k6: `inDomain` as a hypothesis that MATTERS - the stack model whose `loops` layers loop -/

/-- **Inside the domain the looping model is the forwarding model.**  When every `loops` layer of the stack receives an argument
that is not a list / tuple / dict of one of its types (`inDomain`), `evalChainL` - whose `loops` arm is the code of
`loops._wrapped`, one call of the next layer per element - returns what `evalChain` returns, for every stack and every call,
valid or not, raising or not.  So every theorem about `evalChain` is, under `inDomain`, a theorem about `evalChainL`. -/
theorem evalChainL_in_domain (s : Sig) (body : PDict → Res Val) :
    ∀ (chain : List (Cls × PDict)) (c : Call), inDomain s chain c = true →
      evalChainL s body chain c = evalChain s body chain c
  | [], c, _ => by simp [evalChainL, evalChain]
  | (.tryValue, p) :: rest, c, h => by
      simp only [inDomain] at h
      simp only [evalChainL, evalChain, evalChainL_in_domain s body rest c h]
      cases evalChain s body rest c <;> rfl
  | (.tryBack, p) :: rest, c, h => by
      simp only [inDomain] at h
      simp only [evalChainL, evalChain, evalChainL_in_domain s body rest c h]
      cases evalChain s body rest c <;> rfl
  | (.kwargsSupport, p) :: rest, c, h => by
      simp only [inDomain] at h
      simp only [evalChainL, evalChain, evalChainL_in_domain s body rest _ h]
  | (.cache, p) :: rest, c, h => by
      simp only [inDomain] at h
      simp only [evalChainL, evalChain, evalChainL_in_domain s body rest c h]
  | (.pd2np, p) :: rest, c, h => by
      simp only [inDomain] at h
      simp only [evalChainL, evalChain, evalChainL_in_domain s body rest _ h]
  | (.loops, p) :: rest, c, h => by
      simp only [inDomain, Bool.and_eq_true] at h
      obtain ⟨hp, hr⟩ := h
      have ih := evalChainL_in_domain s body rest (loopsCall s c) hr
      cases c with
      | mk args kw =>
        cases args with
        | cons a as =>
          have hl : isLooped (typesOf p) a = false := by simpa [loopsPasses, loopsArg] using hp
          simp only [evalChainL, evalChain, liftT_not_looped _ _ a as kw hl]
          simpa [loopsCall, dropAxis_eq_popAxis] using ih
        | nil =>
          cases hps : s.params with
          | nil =>
            simp only [evalChainL, evalChain, hps]
            simpa [loopsCall, hps] using ih
          | cons top ps =>
            cases hlk : kw.lookup top with
            | none =>
              simp only [evalChainL, evalChain, hps, hlk]
              simpa [loopsCall, hps, hlk] using ih
            | some arg =>
              have hl : isLooped (typesOf p) arg = false := by simpa [loopsPasses, loopsArg, hps, hlk] using hp
              simp only [evalChainL, evalChain, hps, hlk, liftT_not_looped _ _ arg [] _ hl]
              simpa [loopsCall, hps, hlk, dropAxis_eq_popAxis] using ih

/-- **Transparency of every stack, with the domain as a hypothesis** - about the model whose `loops` layers really loop: a valid
call on which every `loops` layer receives a non-looped argument returns what `f` returns (exclusions as in
`stack_transparent_sharp`) … -/
theorem stack_transparent_in_domain (s : Sig) (body : PDict → Res Val) (chain : List (Cls × PDict)) (c : Call) (v : Val)
    (hdom : inDomain s chain c = true)
    (hd : Cls.kwargsSupport ∈ classes chain → ∀ p ∈ c.kw, p.1 ∈ s.params)
    (hax : Cls.loops ∈ classes chain → ∀ p ∈ c.kw, p.1 ≠ "axis")
    (hia : Cls.pd2np ∈ classes chain → c.hasIntArr = false)
    (h : applyFn s body c = .ok v) : evalChainL s body chain c = .ok v := by
  rw [evalChainL_in_domain s body chain c hdom]
  exact stack_transparent_sharp s body chain c v hd hax hia h

/-- … and a stack without try_* raises what `f` raises -/
theorem stack_transparent_raise_in_domain (s : Sig) (body : PDict → Res Val) (chain : List (Cls × PDict)) (c : Call)
    (hdom : inDomain s chain c = true)
    (hd : Cls.kwargsSupport ∈ classes chain → ∀ p ∈ c.kw, p.1 ∈ s.params)
    (hax : Cls.loops ∈ classes chain → ∀ p ∈ c.kw, p.1 ≠ "axis")
    (hia : Cls.pd2np ∈ classes chain → c.hasIntArr = false)
    (hc : ∀ w ∈ chain, w.1 ≠ .tryValue ∧ w.1 ≠ .tryBack) : evalChainL s body chain c = applyFn s body c := by
  rw [evalChainL_in_domain s body chain c hdom]
  exact stack_transparent_raise_sharp s body chain c hd hax hia hc

/-- **The hypothesis cannot be dropped** (the reviewer's witness): `loops(types=[list])(f)([1, 2])` for `f(a)` - a valid call of
`f`, no keyword, no array - is outside the domain and the looping model returns `[f(1), f(2)]`, not `f([1, 2])`; the forwarding
model `evalChain` says `f([1, 2])`, which is why its theorems speak about the code only inside the domain.  With
`types=[tuple]` the same call is inside and transparent. -/
theorem loops_outside_domain_not_transparent :
    let s : Sig := { params := ["a"], defaults := [], varargs := none, varkw := none }
    let c : Call := { args := [.list [.cell (.int 1), .cell (.int 2)]], kw := [] }
    let chain (t : String) : List (Cls × PDict) := [(.loops, [("types", .list [.cell (.str t)])])]
    inDomain s (chain "list") c = false ∧
    evalChainL s recBody (chain "list") c =
      .ok (.list [.dict [("a", .cell (.int 1))], .dict [("a", .cell (.int 2))]]) ∧
    applyFn s recBody c = .ok (.dict [("a", .list [.cell (.int 1), .cell (.int 2)])]) ∧
    evalChain s recBody (chain "list") c = applyFn s recBody c ∧
    inDomain s (chain "tuple") c = true ∧ evalChainL s recBody (chain "tuple") c = applyFn s recBody c := by
  refine ⟨by decide +kernel, by decide +kernel, by decide +kernel, by decide +kernel, by decide +kernel, by decide +kernel⟩


/-- `kwargs_support_in_stack` with the domain as a hypothesis, about the looping model -/
theorem kwargs_support_in_stack_in_domain (s : Sig) (hv : s.varkw = none) (body : PDict → Res Val) (junk : PDict)
    (hj : ∀ p ∈ junk, p.1 ∉ s.params) (chain : List (Cls × PDict)) (c : Call) (v : Val)
    (hdom : inDomain s chain { c with kw := c.kw ++ junk } = true)
    (hk : Cls.kwargsSupport ∈ classes chain)
    (hax : Cls.loops ∈ classes chain → ∀ p ∈ c.kw ++ junk, p.1 ≠ "axis")
    (hia : Cls.pd2np ∈ classes chain → ({ c with kw := c.kw ++ junk } : Call).hasIntArr = false)
    (h : applyFn s body c = .ok v) : evalChainL s body chain { c with kw := c.kw ++ junk } = .ok v := by
  rw [evalChainL_in_domain s body chain _ hdom]
  exact kwargs_support_in_stack s hv body junk hj chain c v hk hax hia h

/-- **Outside the domain the `loops` layer is property C19's lifting**: with list, tuple and dict among its types, a `loops`
layer called with a first positional argument is `Pyg.wrapped` (the model the C19 theorems `lift_sub`, `lift_leaves`,
`lift_shape_*`, `select_statement` … are about) of "call the rest of the stack" - so those theorems describe what a decorated
function returns on a container, whatever else is in the stack below. -/
theorem loops_layer_is_lifting (s : Sig) (body : PDict → Res Val) (p : PDict) (rest : List (Cls × PDict))
    (a : Val) (as : List Val) (kw : PDict)
    (hl : (typesOf p).contains "list" = true) (ht : (typesOf p).contains "tuple" = true)
    (hd : (typesOf p).contains "dict" = true) :
    evalChainL s body ((.loops, p) :: rest) { args := a :: as, kw := kw } =
      wrapped (fun leaf args kw => evalChainL s body rest { args := leaf :: args, kw := kw }) a as kw := by
  simp only [evalChainL]
  exact liftT_all_eq_wrapped _ _ hl ht hd a as kw

/-! ## round k6: a CACHED object in a world where other objects share its dict -/

/-- **One call of a stack with a cache layer in ANY state whose dict holds results of `f`**: the dict still holds results of `f`
afterwards (with the call added to the calls behind it), and the call is executed iff no call behind the dict is the same
combination - else answered with the stored result of the first such call. -/
theorem stack_cache_step_from (s : Sig) (body : PDict → Res Val) (unh : Call → Bool) (p : PDict)
    (above below : List (Cls × PDict)) (ha : noCache above) (hb : noCache below)
    (st0 : HSt) (seen0 : List Call) (h0 : CacheHolds (resultOf s body) st0.cache seen0) (hok0 : ∀ x ∈ seen0, Call.ok x)
    (c : Call) (hc : HistCallFor (classes (above ++ (Cls.cache, p) :: below)) s body unh above c) :
    let seen := reach s above
    let e := evalH s body unh (above ++ (Cls.cache, p) :: below) st0 c
    CacheHolds (resultOf s body) e.1.cache (seen0 ++ [seen c]) ∧
    ((∀ y ∈ seen0, ¬ sameComb y (seen c)) → e.1.evals.length = st0.evals.length + 1 ∧ e.2 = applyFn s body c) ∧
    ((∃ y ∈ seen0, sameComb y (seen c)) → e.1.evals.length = st0.evals.length ∧
      ∃ h1 y0 h2, seen0 = h1 ++ y0 :: h2 ∧ sameComb y0 (seen c) ∧ (∀ y ∈ h1, ¬ sameComb y (seen c)) ∧
        e.2 = .ok (resultOf s body y0)) := by
  intro seen e
  have hKa : Within (classes (above ++ (Cls.cache, p) :: below)) above :=
    fun w hw => within_classes _ w (by simp [hw])
  have hKb : Within (classes (above ++ (Cls.cache, p) :: below)) below :=
    fun w hw => within_classes _ w (by simp [hw])
  obtain ⟨_, g2, g3⟩ := stack_cache_history_from s body unh p above below ha hb st0 seen0 h0 hok0 [] c
    (by intro x hx; simp at hx) hc
  simp only [List.map_nil, List.append_nil, List.nil_append, runH, List.getLast?_singleton, Option.some.injEq] at g2 g3
  refine ⟨?_, g2, g3⟩
  let cst0 : CacheSt := { cache := st0.cache, evals := st0.cache.map (·.1) }
  obtain ⟨hcache, _, _⟩ := runH_refines_for _ s body unh p above below ha hb hKa hKb [c] st0 cst0 rfl
    (by intro x hx; simp at hx; subst hx; exact ⟨hc.1, hc.2.1⟩)
  simp only [runH, List.map_cons, List.map_nil] at hcache
  obtain ⟨inv, _⟩ := runCache_inv (resultOf s body) [seen c] cst0 seen0 h0
  show CacheHolds (resultOf s body) (evalH s body unh (above ++ (Cls.cache, p) :: below) st0 c).1.cache _
  rw [hcache]
  exact ⟨rfl, inv.nodup, inv.keys, inv.first⟩


/-- the dict the cache layer of object `o` holds in world `w` (empty when it has not been created yet) -/
def dictOf (w : MWorld) (o : MObj) : List (Val × Val) :=
  match o.cid with
  | some i => w.caches[i]?.getD []
  | Option.none => []

/-- **A cached object in ANY world** - whatever objects were built from it or it was built from, whichever of them share its
dict and were called before: if the dict of its cache layer holds results of `f` (calls `seen0` behind the entries), a valid
hashable call is executed iff no call behind the dict is the same combination, otherwise it is answered with the stored result
of the first such call; and afterwards the dict (now an item of this object: `cid`) still holds results of `f`, the call added.
The last conclusion is the hypothesis again, for the next call of ANY object whose cache layer holds this dict (the objects
built from this one after its first call, and the ones it was built from): an invariant along every history of valid calls. -/
theorem cached_object_call_in_any_world (s : Sig) (body : PDict → Res Val) (unh : Call → Bool) (w : MWorld)
    (j : Nat) (o : MObj) (c : Call) (p : PDict) (above below : List (Cls × PDict))
    (ho : w.objs[j]? = some o) (hch : o.chain = above ++ (Cls.cache, p) :: below)
    (ha : noCache above) (hb : noCache below) (hwf : ∀ i, o.cid = some i → i < w.caches.length)
    (seen0 : List Call) (h0 : CacheHolds (resultOf s body) (dictOf w o) seen0) (hok0 : ∀ x ∈ seen0, Call.ok x)
    (hc : HistCallFor (classes (above ++ (Cls.cache, p) :: below)) s body unh above c) :
    let seen := reach s above
    ∃ w' r n o', stepM s body unh w (.call j c) = some (w', some (r, n)) ∧
      w'.objs[j]? = some o' ∧ o'.chain = o.chain ∧
      CacheHolds (resultOf s body) (dictOf w' o') (seen0 ++ [seen c]) ∧
      ((∀ y ∈ seen0, ¬ sameComb y (seen c)) → n = w.evals.length + 1 ∧ r = applyFn s body c) ∧
      ((∃ y ∈ seen0, sameComb y (seen c)) → n = w.evals.length ∧
        ∃ h1 y0 h2, seen0 = h1 ++ y0 :: h2 ∧ sameComb y0 (seen c) ∧ (∀ y ∈ h1, ¬ sameComb y (seen c)) ∧
          r = .ok (resultOf s body y0)) := by
  intro seen
  have hcl : hasCacheLayer o.chain = true := by simp [hasCacheLayer, hch]
  have hj : j < w.objs.length := (List.getElem?_eq_some_iff.1 ho).1
  cases hcid : o.cid with
  | none =>
    have hd : dictOf w o = [] := by simp [dictOf, hcid]
    rw [hd] at h0
    obtain ⟨k1, k2, k3⟩ := stack_cache_step_from s body unh p above below ha hb
      { cache := [], evals := w.evals } seen0 h0 hok0 c hc
    let e := evalH s body unh o.chain { cache := [], evals := w.evals } c
    have he : e = evalH s body unh (above ++ (Cls.cache, p) :: below) { cache := [], evals := w.evals } c := by
      show evalH s body unh o.chain _ c = _; rw [hch]
    refine ⟨{ objs := w.objs.set j { o with cid := some w.caches.length },
              caches := (w.caches ++ [[]]).set w.caches.length e.1.cache, evals := e.1.evals },
            e.2, e.1.evals.length, { o with cid := some w.caches.length }, ?_, by simp [hj], rfl, ?_, ?_, ?_⟩
    · simp only [stepM, ho, hcl, if_true, hcid]
      simp [e]
    · simp only [dictOf]
      simpa [he] using k1
    · intro hno; simpa [he] using k2 hno
    · intro hex; simpa [he] using k3 hex
  | some i =>
    have hi := hwf i hcid
    have hd : dictOf w o = w.caches[i]?.getD [] := by simp [dictOf, hcid]
    rw [hd] at h0
    obtain ⟨k1, k2, k3⟩ := stack_cache_step_from s body unh p above below ha hb
      { cache := w.caches[i]?.getD [], evals := w.evals } seen0 h0 hok0 c hc
    let e := evalH s body unh o.chain { cache := w.caches[i]?.getD [], evals := w.evals } c
    have he : e = evalH s body unh (above ++ (Cls.cache, p) :: below) { cache := w.caches[i]?.getD [], evals := w.evals } c := by
      show evalH s body unh o.chain _ c = _; rw [hch]
    refine ⟨{ objs := w.objs.set j { o with cid := some i },
              caches := w.caches.set i e.1.cache, evals := e.1.evals },
            e.2, e.1.evals.length, { o with cid := some i }, ?_, by simp [hj], rfl, ?_, ?_, ?_⟩
    · simp only [stepM, ho, hcl, if_true, hcid]
      simp [e]
    · simp only [dictOf]
      simpa [he, hi] using k1
    · intro hno; simpa [he] using k2 hno
    · intro hex; simpa [he] using k3 hex

/-! ## round k6: the world invariant - every dict of every reachable world holds results of `f` -/

/-- a well-formed world: chains as the constructor builds them, every `cid` names an existing dict, and every dict holds results of
`g` (for some calls `seen` behind its entries, all with python dicts as arguments) -/
structure WorldOk (g : Call → Val) (w : MWorld) : Prop where
  chains : ∀ o ∈ w.objs, (classes o.chain).Nodup
  cids : ∀ o ∈ w.objs, ∀ i, o.cid = some i → i < w.caches.length
  holds : ∀ (i : Nat) (d : List (Val × Val)), w.caches[i]? = some d → ∃ seen, CacheHolds g d seen ∧ ∀ x ∈ seen, Call.ok x

/-- the world before anything is built: the plain function, no dict -/
theorem worldOk_init (g : Call → Val) : WorldOk g {} :=
  ⟨by intro o ho; simp at ho; subst ho; simp [classes], by intro o ho i hi; simp at ho; subst ho; simp at hi,
   by intro i d h; simp at h⟩

/-- a step the theorems speak about: a call of an object WITH a cache layer is valid and hashable for that object's stack -/
def StepValid (s : Sig) (body : PDict → Res Val) (unh : Call → Bool) (w : MWorld) : MStep → Prop
  | .wrap _ _ _ => True
  | .call j c => ∀ o above p below, w.objs[j]? = some o → o.chain = above ++ (Cls.cache, p) :: below →
      HistCallFor (classes (above ++ (Cls.cache, p) :: below)) s body unh above c

theorem hasCacheLayer_not_noCache {ch : List (Cls × PDict)} (h : hasCacheLayer ch = true) (hn : noCache ch) : False := by
  simp only [hasCacheLayer, List.any_eq_true] at h
  obtain ⟨x, hx, hc⟩ := h
  exact hn x hx (by simpa using hc)

/-- the new world after a call of a cached object, explicitly -/
theorem stepM_call_cached (s : Sig) (body : PDict → Res Val) (unh : Call → Bool) (w : MWorld) (j : Nat) (o : MObj) (c : Call)
    (ho : w.objs[j]? = some o) (hcl : hasCacheLayer o.chain = true) :
    let i := o.cid.getD w.caches.length
    let caches := if o.cid.isSome then w.caches else w.caches ++ [[]]
    let e := evalH s body unh o.chain { cache := caches[i]?.getD [], evals := w.evals } c
    stepM s body unh w (.call j c) =
      some ({ objs := w.objs.set j { o with cid := some i }, caches := caches.set i e.1.cache, evals := e.1.evals },
            some (e.2, e.1.evals.length)) := by
  cases hcid : o.cid with
  | none => simp [stepM, ho, hcl, hcid]
  | some i => simp [stepM, ho, hcl, hcid]

/-- the invariant after a call of a cached object, for the dict list `caches` and index `i` the call works with -/
theorem worldOk_after_call (s : Sig) (body : PDict → Res Val) (unh : Call → Bool) (w : MWorld) (j : Nat) (o : MObj) (c : Call)
    (hw : WorldOk (resultOf s body) w) (hom : o ∈ w.objs)
    (above below : List (Cls × PDict)) (p : PDict) (hch : o.chain = above ++ (Cls.cache, p) :: below)
    (ha : noCache above) (hb : noCache below)
    (hc : HistCallFor (classes (above ++ (Cls.cache, p) :: below)) s body unh above c)
    (caches : List (List (Val × Val))) (i : Nat) (hlen : w.caches.length ≤ caches.length) (hi : i < caches.length)
    (hrest : ∀ (k : Nat) (d : List (Val × Val)), k ≠ i → caches[k]? = some d → w.caches[k]? = some d)
    (seen0 : List Call) (h0 : CacheHolds (resultOf s body) (caches[i]?.getD []) seen0) (hok0 : ∀ x ∈ seen0, Call.ok x) :
    let e := evalH s body unh o.chain { cache := caches[i]?.getD [], evals := w.evals } c
    WorldOk (resultOf s body)
      { objs := w.objs.set j { o with cid := some i }, caches := caches.set i e.1.cache, evals := e.1.evals } := by
  intro e
  have hstep := stack_cache_step_from s body unh p above below ha hb
    { cache := caches[i]?.getD [], evals := w.evals } seen0 h0 hok0 c hc
  rw [← hch] at hstep
  refine ⟨?_, ?_, ?_⟩
  · intro x hx
    rcases List.mem_or_eq_of_mem_set hx with hx | rfl
    · exact hw.chains x hx
    · exact hw.chains o hom
  · intro x hx k hk
    simp only [List.length_set]
    rcases List.mem_or_eq_of_mem_set hx with hx | rfl
    · exact Nat.lt_of_lt_of_le (hw.cids x hx k hk) hlen
    · simp only [Option.some.injEq] at hk; subst hk; exact hi
  · intro k d hk
    have hk' : (caches.set i e.1.cache)[k]? = some d := hk
    by_cases hik : i = k
    · subst hik
      have h2 : (caches.set i e.1.cache)[i]? = some e.1.cache := by simp [hi]
      rw [h2] at hk'
      simp only [Option.some.injEq] at hk'; subst hk'
      refine ⟨seen0 ++ [reach s above c], hstep.1, ?_⟩
      intro x hx
      rcases List.mem_append.1 hx with hx | hx
      · exact hok0 x hx
      · simp only [List.mem_singleton] at hx; subst hx; exact hc.2.2
    · have h2 : (caches.set i e.1.cache)[k]? = caches[k]? := by simp [hik]
      rw [h2] at hk'
      exact hw.holds k d (hrest k d (fun e' => hik e'.symm) hk')

/-- **The invariant is kept by every valid step** -/
theorem worldOk_step (s : Sig) (body : PDict → Res Val) (unh : Call → Bool) (w w' : MWorld) (st : MStep)
    (out : Option (Res Val × Nat)) (hw : WorldOk (resultOf s body) w) (hv : StepValid s body unh w st)
    (hs : stepM s body unh w st = some (w', out)) : WorldOk (resultOf s body) w' := by
  cases st with
  | wrap cls p src =>
    simp only [stepM] at hs
    cases ho : w.objs[src]? with
    | none => simp [ho] at hs
    | some o =>
      simp only [ho, Option.some.injEq, Prod.mk.injEq] at hs
      obtain ⟨rfl, _⟩ := hs
      have hom : o ∈ w.objs := List.mem_of_getElem? ho
      refine ⟨?_, ?_, hw.holds⟩
      · intro x hx
        rcases List.mem_append.1 hx with hx | hx
        · exact hw.chains x hx
        · simp only [List.mem_singleton] at hx; subst hx
          exact mk_nodup cls p { chain := o.chain, base := 0 } (hw.chains o hom)
      · intro x hx i hi
        rcases List.mem_append.1 hx with hx | hx
        · exact hw.cids x hx i hi
        · simp only [List.mem_singleton] at hx; subst hx
          simp only [mkObj] at hi
          split at hi
          · exact hw.cids o hom i hi
          · cases hi
  | call j c =>
    cases ho : w.objs[j]? with
    | none => simp [stepM, ho] at hs
    | some o =>
      have hom : o ∈ w.objs := List.mem_of_getElem? ho
      cases hcl : hasCacheLayer o.chain with
      | false =>
        simp only [stepM, ho, hcl, Bool.false_eq_true, if_false, Option.some.injEq, Prod.mk.injEq] at hs
        obtain ⟨rfl, _⟩ := hs
        exact ⟨hw.chains, hw.cids, hw.holds⟩
      | true =>
        obtain hnc | ⟨above, p, below, hch, ha, hb⟩ := split_at_cache o.chain (hw.chains o hom)
        · exact (hasCacheLayer_not_noCache hcl hnc).elim
        have hc := hv o above p below ho hch
        rw [stepM_call_cached s body unh w j o c ho hcl] at hs
        cases hcid : o.cid with
        | none =>
          simp only [hcid, Option.isSome_none, Bool.false_eq_true, if_false, Option.getD_none, Option.some.injEq,
            Prod.mk.injEq] at hs
          obtain ⟨rfl, _⟩ := hs
          apply worldOk_after_call s body unh w j o c hw hom above below p hch ha hb hc (w.caches ++ [[]]) w.caches.length
            (by simp) (by simp) ?_ [] (by simpa using cacheHolds_empty _) (by simp)
          intro k d hk hkd
          rw [List.getElem?_append] at hkd
          split at hkd
          · exact hkd
          · rename_i hkl
            have h1 : 1 ≤ k - w.caches.length := by omega
            simp [List.getElem?_eq_none (l := ([[]] : List (List (Val × Val)))) (by simpa using h1)] at hkd
        | some i =>
          have hi := hw.cids o hom i hcid
          simp only [hcid, Option.isSome_some, if_true, Option.getD_some, Option.some.injEq, Prod.mk.injEq] at hs
          obtain ⟨rfl, _⟩ := hs
          obtain ⟨seen0, h1, h2⟩ := hw.holds i w.caches[i] (by simp [hi])
          exact worldOk_after_call s body unh w j o c hw hom above below p hch ha hb hc w.caches i (Nat.le_refl _) hi
            (fun k d _ h => h) seen0 (by simpa [hi] using h1) h2

/-- the worlds reachable by valid steps -/
inductive Reachable (s : Sig) (body : PDict → Res Val) (unh : Call → Bool) : MWorld → MWorld → Prop where
  | refl (w : MWorld) : Reachable s body unh w w
  | step {w w1 w2 : MWorld} (st : MStep) (out : Option (Res Val × Nat)) (hv : StepValid s body unh w st)
      (hs : stepM s body unh w st = some (w1, out)) (r : Reachable s body unh w1 w2) : Reachable s body unh w w2

/-- **Every world reachable by valid steps is well-formed**: its dicts hold results of `f`, so `cached_object_call_in_any_world`
applies to every later call - what a decorated function answers depends only on the calls behind the dict of its cache layer,
whichever objects made them -/
theorem worldOk_reachable (s : Sig) (body : PDict → Res Val) (unh : Call → Bool) (w w' : MWorld)
    (r : Reachable s body unh w w') (hw : WorldOk (resultOf s body) w) : WorldOk (resultOf s body) w' := by
  induction r with
  | refl w => exact hw
  | step st out hv hs _ ih => exact ih (worldOk_step s body unh _ _ st out hw hv hs)

/-- … in particular every world built from the plain function alone -/
theorem worldOk_from_init (s : Sig) (body : PDict → Res Val) (unh : Call → Bool) (w' : MWorld)
    (r : Reachable s body unh {} w') : WorldOk (resultOf s body) w' :=
  worldOk_reachable s body unh {} w' r (worldOk_init _)

end Pyg.Props.C18
