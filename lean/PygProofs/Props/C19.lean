/-
  C19 — container lifting maps leaf-wise, preserves shape, and is schedule independent.
  Property theorems only (helper lemmas live in PygProofs/Lemmas).
-/
import PygModel.Lift
import PygModel.Zip
import PygModel.Waiter
import PygProofs.Lemmas.LiftLemmas
import PygProofs.Lemmas.ZipLemmas
import PygProofs.Lemmas.WaiterLemmas

namespace Pyg.Props.C19
open Pyg

/-! ## loop(list, tuple, dict)

`wrapped f v args kw` is the model of `loop(list, tuple, dict)(f)(v, *args, **kw)`.  The vocabulary of the
statement: `v.at p` is the sub-value of `v` at path `p`; `select v p c` is the part of companion `c` that
travels to position `p` of `v` (`itemByI` / `itemByKey` at every step). -/

/-- Compositionality: the result at any position `p` of `v` is the lifted call on the sub-structure at `p`,
with every positional and every keyword companion replaced by its selected part — the same `select` for
both ways of passing. -/
theorem lift_sub (f : LeafFn) : ∀ (p : Path) (v : Val) (args : List Val) (kw : KW) (r v' : Val),
    wrapped f v args kw = .ok r → v.at p = some v' →
    ∃ r', r.at p = some r' ∧
      wrapped f v' (args.map (select v p)) (mapKW (select v p) (dropAxis kw)) = .ok r'
  | [], v, args, kw, r, v', h, hp => by
      simp [Val.at] at hp
      subst hp
      refine ⟨r, by simp [Val.at], ?_⟩
      have : (select v []) = fun c => c := by funext c; simp [select]
      rw [this, mapKW_id, List.map_id', wrapped_dropAxis]
      exact h
  | s :: p, v, args, kw, r, v', h, hp => by
      simp only [Val.at] at hp
      split at hp
      case h_2 => cases hp
      case h_1 c hc =>
      have hsel : ∀ g : Val → Val, (∀ x, g x = selStep v s x) →
          (select v (s :: p)) = (select c p) ∘ g := by
        intro g hg; funext x; simp [select, hc, hg]
      cases v with
      | cell a => simp [Val.child] at hc
      | list xs =>
        cases s with
        | key k => simp [Val.child] at hc
        | idx i =>
          simp only [Val.child] at hc
          rw [wrapped] at h
          split at h
          · cases h
          · rename_i ys hys
            cases h
            obtain ⟨_, hget⟩ := wrappedSeq_get xs 0 args (dropAxis kw) ys hys
            obtain ⟨y, hy1, hy2⟩ := hget i c hc
            obtain ⟨r', hr1, hr2⟩ := lift_sub f p c _ _ y v' hy2 hp
            refine ⟨r', by simp [Val.at, Val.child, hy1, hr1], ?_⟩
            rw [hsel (itemByI i xs.length) (by intro x; simp [selStep])]
            rw [← mapKW_mapKW, ← List.map_map]
            simpa [dropAxis_mapKW, dropAxis_idem] using hr2
      | tuple xs =>
        cases s with
        | key k => simp [Val.child] at hc
        | idx i =>
          simp only [Val.child] at hc
          rw [wrapped] at h
          split at h
          · cases h
          · rename_i ys hys
            cases h
            obtain ⟨_, hget⟩ := wrappedSeq_get xs 0 args (dropAxis kw) ys hys
            obtain ⟨y, hy1, hy2⟩ := hget i c hc
            obtain ⟨r', hr1, hr2⟩ := lift_sub f p c _ _ y v' hy2 hp
            refine ⟨r', by simp [Val.at, Val.child, hy1, hr1], ?_⟩
            rw [hsel (itemByI i xs.length) (by intro x; simp [selStep])]
            rw [← mapKW_mapKW, ← List.map_map]
            simpa [dropAxis_mapKW, dropAxis_idem] using hr2
      | dict kvs =>
        cases s with
        | idx i => simp [Val.child] at hc
        | key k =>
          simp only [Val.child] at hc
          rw [wrapped] at h
          split at h
          · cases h
          · rename_i ys hys
            cases h
            obtain ⟨_, hget⟩ := wrappedKVs_lookup kvs args (dropAxis kw) ys hys
            obtain ⟨y, hy1, hy2⟩ := hget k c hc
            obtain ⟨r', hr1, hr2⟩ := lift_sub f p c _ _ y v' hy2 hp
            refine ⟨r', by simp [Val.at, Val.child, hy1, hr1], ?_⟩
            rw [hsel (itemByKey k (sortStr (keysOf kvs))) (by intro x; simp [selStep])]
            rw [← mapKW_mapKW, ← List.map_map]
            simpa [dropAxis_mapKW, dropAxis_idem] using hr2


/-- **Leaves.** The leaf of the result at position `p` is `f` applied to the original leaf, to the selected
parts of the positional companions and to the selected parts of the keyword companions (a keyword called
`axis` is consumed by the decorator). -/
theorem lift_leaves (f : LeafFn) (v : Val) (args : List Val) (kw : KW) (r : Val) (p : Path) (c : Cell)
    (h : wrapped f v args kw = .ok r) (hp : v.at p = some (.cell c)) :
    ∃ y, f (.cell c) (args.map (select v p)) (mapKW (select v p) (dropAxis kw)) = .ok y ∧
      r.at p = some y := by
  obtain ⟨r', h1, h2⟩ := lift_sub f p v args kw r _ h hp
  refine ⟨r', ?_, h1⟩
  simpa [wrapped, dropAxis_mapKW, dropAxis_idem] using h2

/-- **Shape.** Wherever the argument holds a list, the result holds a list of the same length … -/
theorem lift_shape_list (f : LeafFn) (v : Val) (args : List Val) (kw : KW) (r : Val) (p : Path)
    (xs : List Val) (h : wrapped f v args kw = .ok r) (hp : v.at p = some (.list xs)) :
    ∃ ys, r.at p = some (.list ys) ∧ ys.length = xs.length := by
  obtain ⟨r', h1, h2⟩ := lift_sub f p v args kw r _ h hp
  rw [wrapped] at h2
  split at h2
  · cases h2
  · rename_i ys hys
    cases h2
    exact ⟨ys, h1, (wrappedSeq_get xs 0 _ _ ys hys).1⟩

/-- … wherever it holds a tuple, a tuple of the same length … -/
theorem lift_shape_tuple (f : LeafFn) (v : Val) (args : List Val) (kw : KW) (r : Val) (p : Path)
    (xs : List Val) (h : wrapped f v args kw = .ok r) (hp : v.at p = some (.tuple xs)) :
    ∃ ys, r.at p = some (.tuple ys) ∧ ys.length = xs.length := by
  obtain ⟨r', h1, h2⟩ := lift_sub f p v args kw r _ h hp
  rw [wrapped] at h2
  split at h2
  · cases h2
  · rename_i ys hys
    cases h2
    exact ⟨ys, h1, (wrappedSeq_get xs 0 _ _ ys hys).1⟩

/-- … and wherever it holds a dict, a dict with the same keys in the same order. -/
theorem lift_shape_dict (f : LeafFn) (v : Val) (args : List Val) (kw : KW) (r : Val) (p : Path)
    (kvs : KW) (h : wrapped f v args kw = .ok r) (hp : v.at p = some (.dict kvs)) :
    ∃ rs, r.at p = some (.dict rs) ∧ keysOf rs = keysOf kvs := by
  obtain ⟨r', h1, h2⟩ := lift_sub f p v args kw r _ h hp
  rw [wrapped] at h2
  split at h2
  · cases h2
  · rename_i ys hys
    cases h2
    exact ⟨ys, h1, (wrappedKVs_lookup kvs _ _ ys hys).1⟩

/-! ### what `select` does: element by element, by key, broadcast -/

/-- one level of descent -/
theorem select_step (v v' : Val) (s : Step) (p : Path) (c : Val) (h : v.child s = some v') :
    select v (s :: p) c = select v' p (selStep v s c) := by
  simp [select, h]

/-- a companion that is a list or tuple of the same length as the list/tuple being looped over is matched
element by element -/
theorem selStep_same_length (xs cs : List Val) (i : Nat) (h : cs.length = xs.length) :
    selStep (.list xs) (.idx i) (.list cs) = getIdx cs i ∧
    selStep (.list xs) (.idx i) (.tuple cs) = getIdx cs i ∧
    selStep (.tuple xs) (.idx i) (.list cs) = getIdx cs i ∧
    selStep (.tuple xs) (.idx i) (.tuple cs) = getIdx cs i := by
  simp [selStep, itemByI, h]

/-- a companion dict with the same key set (in any order) is matched by key -/
theorem selStep_same_keys (kvs cs : KW) (k : String) (h : sortStr (keysOf cs) = sortStr (keysOf kvs)) :
    selStep (.dict kvs) (.key k) (.dict cs) = getKey cs k := by
  simp [selStep, itemByKey, h]

/-- scalars and strings are broadcast to every leaf -/
theorem select_scalar : ∀ (p : Path) (v : Val) (a : Cell), select v p (.cell a) = .cell a
  | [], v, a => by simp [select]
  | s :: p, v, a => by
      simp only [select]
      split
      · rename_i v' hv
        have : selStep v s (.cell a) = .cell a := by
          cases v <;> cases s <;> simp [selStep, itemByI, itemByKey]
        rw [this]; exact select_scalar p v' a
      · rfl

/-- a dict companion is passed whole through a list/tuple level, a list/tuple companion whole through a
dict level (`_item_by_i` only looks into sequences, `_item_by_key` only into dicts) -/
theorem selStep_other_kind (xs cs : List Val) (kvs ckvs : KW) (i : Nat) (k : String) :
    selStep (.list xs) (.idx i) (.dict ckvs) = .dict ckvs ∧
    selStep (.tuple xs) (.idx i) (.dict ckvs) = .dict ckvs ∧
    selStep (.dict kvs) (.key k) (.list cs) = .list cs ∧
    selStep (.dict kvs) (.key k) (.tuple cs) = .tuple cs := by
  simp [selStep, itemByI, itemByKey]

/-- a sequence of another length is searched element by element (the code's reading of "everything else
is broadcast": an inner sequence of the matching length is still matched) -/
theorem selStep_other_length (xs cs : List Val) (i : Nat) (h : cs.length ≠ xs.length) :
    selStep (.list xs) (.idx i) (.list cs) = .list (cs.map (itemByI i xs.length)) ∧
    selStep (.list xs) (.idx i) (.tuple cs) = .tuple (cs.map (itemByI i xs.length)) := by
  simp [selStep, itemByI, h, itemByIList_eq_map]

/-- **Everything else is broadcast** (sequences): a companion that holds no list or tuple of the looped
length, at any depth, is passed whole to every element — whatever else it holds. -/
theorem selStep_broadcast_seq (xs : List Val) (i : Nat) (c : Val)
    (h : ∀ q cs, (c.at q = some (.list cs) ∨ c.at q = some (.tuple cs)) → cs.length ≠ xs.length) :
    selStep (.list xs) (.idx i) c = c ∧ selStep (.tuple xs) (.idx i) c = c := by
  simp only [selStep]
  exact ⟨itemByI_no_match i xs.length _ c (Nat.le_refl _) h, itemByI_no_match i xs.length _ c (Nat.le_refl _) h⟩

example : selStep (.list [.cell (.int 1), .cell (.int 2)]) (.idx 1)
    (.list [.cell (.int 7), .dict [("k", .tuple [.cell (.int 8)])], .cell (.str "ab")]) =
    .list [.cell (.int 7), .dict [("k", .tuple [.cell (.int 8)])], .cell (.str "ab")] := by decide +kernel

/-- **Everything else is broadcast** (dicts): a companion that holds no dict with the key set of the looped dict,
at any depth, is passed whole to every value — whatever else it holds (`c.KeysNodup`: python dicts). -/
theorem selStep_broadcast_dict (kvs : KW) (k : String) (c : Val) (hc : c.KeysNodup)
    (h : ∀ q cs, c.at q = some (.dict cs) → sortStr (keysOf cs) ≠ sortStr (keysOf kvs)) :
    selStep (.dict kvs) (.key k) c = c := by
  simp only [selStep]
  exact itemByKey_no_match k _ _ c (Nat.le_refl _) hc h

example : selStep (.dict [("a", .cell (.int 1)), ("b", .cell (.int 2))]) (.key "b")
    (.dict [("a", .cell (.int 7)), ("z", .dict [("b", .cell (.int 8))])]) =
    .dict [("a", .cell (.int 7)), ("z", .dict [("b", .cell (.int 8))])] := by decide +kernel

/-- … but a companion of another length / with other keys that HOLDS a matching container further inside is not
broadcast: the code looks inside it (finding K3).  "Everything else is broadcast" is false of the code there; this
is the witness: `loop(list)(f)([1, 2], [[10, 20], [30, 40], [50, 60]])` gives the first leaf `[10, 30, 50]`, and
`loop(dict)(f)({'a': 1}, {'z': {'a': 5}})` gives the leaf `{'z': 5}`. -/
theorem broadcast_searched_inside :
    (∃ (xs cs : List Val) (i : Nat), cs.length ≠ xs.length ∧ selStep (.list xs) (.idx i) (.list cs) ≠ .list cs) ∧
    (∃ (kvs cs : KW) (k : String), sortStr (keysOf cs) ≠ sortStr (keysOf kvs) ∧
      selStep (.dict kvs) (.key k) (.dict cs) ≠ .dict cs) := by
  refine ⟨⟨[.cell (.int 1), .cell (.int 2)],
      [.list [.cell (.int 10), .cell (.int 20)], .list [.cell (.int 30), .cell (.int 40)],
       .list [.cell (.int 50), .cell (.int 60)]], 0, by decide, by decide +kernel⟩,
    ⟨[("a", .cell (.int 1))], [("z", .dict [("a", .cell (.int 5))])], "a", by decide +kernel, by decide +kernel⟩⟩

/-! ### same shape ⇒ element by element, through every level

`Matches v c`: the companion `c` has the shape of `v` as far as it goes — a scalar (broadcast from there on), or a
list/tuple of the same length / a dict with the same key set whose members match the members of `v`.
`follow c p` walks `c` along the path `p` until it reaches a scalar. -/

def seqItems : Val → Option (List Val)
  | .list xs => some xs
  | .tuple xs => some xs
  | _ => Option.none

inductive Matches : Val → Val → Prop
  | scalar (v : Val) (a : Cell) : Matches v (.cell a)
  | seq {v c : Val} {xs cs : List Val} : seqItems v = some xs → seqItems c = some cs → cs.length = xs.length →
      (∀ (i : Nat) (x y : Val), xs[i]? = some x → cs[i]? = some y → Matches x y) → Matches v c
  | dict {kvs cs : KW} : sortStr (keysOf cs) = sortStr (keysOf kvs) →
      (∀ (k : String) (x y : Val), kvs.lookup k = some x → cs.lookup k = some y → Matches x y) →
      Matches (.dict kvs) (.dict cs)

def follow : Val → Path → Val
  | c, [] => c
  | .cell a, _ :: _ => .cell a
  | c, s :: p => match c.child s with
    | some c' => follow c' p
    | Option.none => c

/-- **Companions of the same shape are matched element by element (dicts by key) at every level**: the leaf of
`v` at path `p` receives the part of `c` at the same path (or the scalar at which `c` stops on the way). -/
theorem select_matches : ∀ (p : Path) (v c : Val), Matches v c → (v.at p).isSome → select v p c = follow c p
  | [], v, c, _, _ => by simp [select, follow]
  | s :: p, v, c, h, hp => by
      cases hv : v.child s with
      | none => simp [Val.at, hv] at hp
      | some v' =>
        have hp' : (v'.at p).isSome := by simpa [Val.at, hv] using hp
        rw [select_step v v' s p c hv]
        cases h with
        | scalar _ a =>
          have : selStep v s (.cell a) = .cell a := by
            cases v <;> cases s <;> simp [selStep, itemByI, itemByKey]
          rw [this, select_scalar]
          simp [follow]
        | @seq _ _ xs cs hxs hcs hl hm =>
          -- `v` is a list or a tuple, so the step is an index below the common length
          obtain ⟨i, rfl, hxi⟩ : ∃ i, s = .idx i ∧ xs[i]? = some v' := by
            cases v <;> cases s <;> simp_all [seqItems, Val.child]
          have hi : i < cs.length := by
            have := (List.getElem?_eq_some_iff.1 hxi).1; omega
          have hci : cs[i]? = some cs[i] := List.getElem?_eq_getElem hi
          have hget : getIdx cs i = cs[i] := by simp [getIdx, hi]
          have hsel : selStep v (.idx i) c = cs[i] := by
            rw [← hget]
            cases v <;> cases c <;> simp_all [seqItems, selStep, itemByI]
          have hch : c.child (.idx i) = some cs[i] := by
            cases c <;> simp_all [seqItems, Val.child]
          rw [hsel, select_matches p v' cs[i] (hm i v' cs[i] hxi hci) hp']
          cases c <;> simp_all [follow, seqItems]
        | @dict kvs cs hk hm =>
          obtain ⟨k, rfl, hxk⟩ : ∃ k, s = .key k ∧ kvs.lookup k = some v' := by
            cases s <;> simp_all [Val.child]
          have hmem : k ∈ keysOf cs := by
            rw [← mem_sortStr, hk, mem_sortStr]; exact mem_keys_of_lookup k v' kvs hxk
          obtain ⟨y, hy⟩ := lookup_isSome_of_mem_keys k cs hmem
          have hsel : selStep (.dict kvs) (.key k) (.dict cs) = y := by
            simp [selStep, itemByKey, hk, getKey, hy]
          rw [hsel, select_matches p v' y (hm k v' y hxk hy) hp']
          simp [follow, Val.child, hy]

/-- non-vacuity: a two-level structure, a companion of the same shape (tuple for list, keys in another order,
a scalar standing for a whole sub-list) -/
example :
    let v : Val := .list [.dict [("a", .cell (.int 1)), ("b", .list [.cell (.int 2), .cell (.int 3)])], .cell (.int 4)]
    let c : Val := .tuple [.dict [("b", .cell (.str "s")), ("a", .cell (.int 10))], .cell (.int 40)]
    select v [.idx 0, .key "b", .idx 1] c = .cell (.str "s") ∧ follow c [.idx 0, .key "b", .idx 1] = .cell (.str "s") ∧
    select v [.idx 0, .key "a"] c = .cell (.int 10) := by
  decide +kernel

/-- the first argument may be passed by keyword under the name of the function's first parameter -/
theorem call_first_by_keyword (f : LeafFn) (top : String) (v : Val) (kw : KW)
    (h : top ∉ keysOf kw) :
    callLifted f top [] ((top, v) :: kw) = callLifted f top [v] kw := by
  have : kw.filter (fun p => p.1 != top) = kw := by
    apply List.filter_eq_self.2
    intro p hp
    have : p.1 ≠ top := by
      intro e; apply h; simp only [keysOf, List.mem_map]; exact ⟨p, hp, e⟩
    simpa using this
  simp [callLifted, List.lookup, this]


/-- **Exceptions.** If the lifted call raises, then some leaf call raised that exception (dict keys distinct, as
in python) … -/
theorem lift_error (f : LeafFn) (v : Val) (hv : v.KeysNodup) (args : List Val) (kw : KW) (e : Err)
    (h : wrapped f v args kw = .error e) :
    ∃ p c, v.at p = some (.cell c) ∧
      f (.cell c) (args.map (select v p)) (mapKW (select v p) (dropAxis kw)) = .error e :=
  lift_error_aux f _ v (Nat.le_refl _) hv args kw e h

/-- … hence the lifted call returns exactly when every leaf call returns (with `lift_leaves`: and then its
leaves are those results). -/
theorem lift_total (f : LeafFn) (v : Val) (hv : v.KeysNodup) (args : List Val) (kw : KW) :
    (∃ r, wrapped f v args kw = .ok r) ↔
    ∀ p c, v.at p = some (.cell c) →
      ∃ y, f (.cell c) (args.map (select v p)) (mapKW (select v p) (dropAxis kw)) = .ok y := by
  constructor
  · rintro ⟨r, h⟩ p c hp
    obtain ⟨y, hy, _⟩ := lift_leaves f v args kw r p c h hp
    exact ⟨y, hy⟩
  · intro hall
    cases h : wrapped f v args kw with
    | ok r => exact ⟨r, rfl⟩
    | error e =>
      obtain ⟨p, c, hp, he⟩ := lift_error f v hv args kw e h
      obtain ⟨y, hy⟩ := hall p c hp
      rw [he] at hy; cases hy

/-- **Positional = keyword passing.** If `f` binds the positional argument after `args` to the parameter
`name` (python's calling convention for a function with that parameter list), then passing a companion
positionally or under that name gives the same result — for every structure and every companion.
(`axis` is excluded: the decorator consumes a keyword of that name.)  False of the unrepaired code: F9. -/
theorem pos_kw_agree (f : LeafFn) (name : String) (hname : name ≠ "axis") (v : Val) (args : List Val)
    (kw : KW) (c : Val) (hf : BindsNext f args.length name) (hk : name ∉ keysOf kw) :
    wrapped f v (args ++ [c]) kw = wrapped f v args (kw ++ [(name, c)]) :=
  pos_kw_aux f args.length name hname hf _ v (Nat.le_refl _) args kw c rfl hk

/-! ### non-vacuity of the lifting theorems -/

/-- `def g(a, b = None): return (a, b)` as a `LeafFn`: binds its first companion to `b` -/
def exG : LeafFn := fun a args kw =>
  match args, kw with
  | [b], [] => .ok (.tuple [a, b])
  | [], [("b", b)] => .ok (.tuple [a, b])
  | _, _ => .error .type

example : BindsNext exG 0 "b" := by
  intro x as kw c hl hk
  cases as with
  | cons _ _ => simp at hl
  | nil =>
    cases kw with
    | nil => simp [exG]
    | cons p kw =>
      obtain ⟨k, v⟩ := p
      have hkb : k ≠ "b" := by intro e; apply hk; simp [keysOf, e]
      cases kw <;> simp [exG]

/-- the F9 input: `loop(list)(f)([[1,2]], 5)` gives every inner leaf its companion -/
example : wrapped recorderPure (.list [.list [.cell (.int 1), .cell (.int 2)]]) [.cell (.int 5)] [] =
    .ok (.list [.list [.tuple [.cell (.int 1), .tuple [.cell (.int 5)], .dict []],
                       .tuple [.cell (.int 2), .tuple [.cell (.int 5)], .dict []]]]) := by decide +kernel

/-- hypotheses of `lift_leaves` / `lift_shape_*` on a nested value with a same-shape keyword companion and a
dict companion given in another key order -/
example :
    let v : Val := .dict [("x", .cell (.int 1)), ("y", .tuple [.cell (.str "s"), .cell (.int 2)])]
    let c : Val := .dict [("y", .list [.cell (.int 10), .cell (.int 20)]), ("x", .cell (.int 30))]
    v.at [.key "y", .idx 1] = some (.cell (.int 2)) ∧ v.KeysNodup ∧
    select v [.key "y", .idx 1] c = .cell (.int 20) ∧
    select v [.key "x"] c = .cell (.int 30) ∧
    wrapped recorderPure v [] [("b", c)] = .ok (.dict
      [("x", .tuple [.cell (.int 1), .tuple [], .dict [("b", .cell (.int 30))]]),
       ("y", .tuple [.tuple [.cell (.str "s"), .tuple [], .dict [("b", .cell (.int 10))]],
                     .tuple [.cell (.int 2), .tuple [], .dict [("b", .cell (.int 20))]]])]) := by
  refine ⟨by decide +kernel, ?_, by decide +kernel, by decide +kernel, by decide +kernel⟩
  intro p kvs hp
  match p, hp with
  | [], hp => simp [Val.at] at hp; subst hp; decide
  | [.key k], hp =>
    simp only [Val.at, Val.child] at hp
    split at hp
    · rename_i c' hc
      simp [List.lookup] at hc
      split at hc
      · cases hc; cases hp
      · split at hc
        · cases hc; cases hp
        · cases hc
    · cases hp
  | .idx _ :: _, hp => simp [Val.at, Val.child] at hp
  | .key k :: s :: q, hp =>
    exfalso
    simp only [Val.at, Val.child] at hp
    split at hp
    · rename_i c' hc
      simp [List.lookup] at hc
      split at hc
      · cases hc; simp at hp
      · split at hc
        · cases hc
          cases s with
          | key _ => simp at hp
          | idx i =>
            simp only at hp
            match i, hp with
            | 0, hp => cases q <;> simp [Val.at, Val.child] at hp
            | 1, hp => cases q <;> simp [Val.at, Val.child] at hp
            | _ + 2, hp => simp at hp
        · cases hc
    · cases hp

/-- an exception in a leaf propagates (here: the second leaf raises `ValueError`) -/
example : wrapped recorder (.list [.cell (.int 1), .cell (.str "!v")]) [] [] = .error .value := by
  decide +kernel


/-! ## zzipper, zlens, as_list, as_tuple

`items v` is what `zip` iterates over: the elements of a list/tuple, the keys of a dict, and `[v]` for a scalar
or string — so scalars count as length-1 sequences. -/

/-- **zzipper zips equal-length sequences and broadcasts scalars and length-1 sequences**: if every argument
has length `n` or 1 (`n` being the length of some argument, or 1), the result is the `n` rows whose `j`-th
entry is the `i`-th element of argument `j`, or its only element. -/
theorem zipper_spec (vs : List Val) (n : Nat) (hne : vs ≠ [])
    (hall : ∀ v ∈ vs, (items v).length = n ∨ (items v).length = 1)
    (hn : n = 1 ∨ ∃ v ∈ vs, (items v).length = n) :
    zzipper vs = .ok ((List.range n).map fun i => .tuple (vs.map fun v =>
      if (items v).length = 1 then (items v).getD 0 (.cell .none)
      else (items v).getD i (.cell .none))) := by
  have hl : lensOf ((vs.map items).map List.length) = .ok n := by
    apply lensOf_ok
    · simpa using hne
    · intro l hl
      simp only [List.map_map, List.mem_map, Function.comp] at hl
      obtain ⟨v, hv, rfl⟩ := hl
      exact hall v hv
    · rcases hn with h | ⟨v, hv, h⟩
      · exact Or.inl h
      · refine Or.inr ?_
        simp only [List.map_map, List.mem_map, Function.comp]
        exact ⟨v, hv, h⟩
  unfold zzipper
  simp only [hl]
  by_cases h1 : n > 1
  · simp only [h1, ↓reduceIte, zipN]
    have hm : minLen ((vs.map items).map (zbcast n)) = n := by
      apply minLen_eq
      · simpa using hne
      · intro c hc
        simp only [List.map_map, List.mem_map, Function.comp] at hc
        obtain ⟨v, hv, rfl⟩ := hc
        exact zbcast_length n _ (hall v hv)
    rw [hm, List.map_map]
    congr 1
    apply List.map_congr_left
    intro i hi
    have hi' : i < n := by simpa using hi
    simp only [Function.comp, List.map_map, Val.tuple.injEq]
    apply List.map_congr_left
    intro v _
    simp only [Function.comp]
    exact bcast_getD n i hi' (items v) _
  · simp only [h1, ↓reduceIte, zipN]
    have hn01 : n = 0 ∨ n = 1 := by omega
    rcases hn01 with h0 | h1'
    · subst h0
      have : minLen (vs.map items) = 0 := by
        rcases hn with h | ⟨v, hv, h⟩
        · cases h
        · have := minLen_le (vs.map items) (items v) (List.mem_map.2 ⟨v, hv, rfl⟩)
          omega
      simp [this]
    · subst h1'
      have hm : minLen (vs.map items) = 1 := by
        apply minLen_eq
        · simpa using hne
        · intro c hc
          obtain ⟨v, hv, rfl⟩ := List.mem_map.1 hc
          rcases hall v hv with h | h <;> exact h
      rw [hm, List.map_map]
      congr 1
      apply List.map_congr_left
      intro i hi
      have hi' : i = 0 := by simpa using hi
      subst hi'
      simp only [Function.comp, List.map_map, Val.tuple.injEq]
      apply List.map_congr_left
      intro v _
      simp

/-- **zzipper raises ValueError exactly when two arguments have different lengths neither of which is 1**
(and it raises nothing else). -/
theorem zipper_raises_iff (vs : List Val) (e : Err) :
    zzipper vs = .error e ↔ e = .value ∧ ∃ a ∈ vs, ∃ b ∈ vs,
      (items a).length ≠ (items b).length ∧ (items a).length ≠ 1 ∧ (items b).length ≠ 1 := by
  have key := lensOf_error_iff ((vs.map items).map List.length) e
  have hz : zzipper vs = .error e ↔ lensOf ((vs.map items).map List.length) = .error e := by
    cases hr : lensOf ((vs.map items).map List.length) with
    | error e' => simp only [zzipper, hr]; constructor <;> (intro h; cases h; rfl)
    | ok n => simp only [zzipper, hr]; simp
  rw [hz, key]
  constructor
  · rintro ⟨he, a, ha, b, hb, h⟩
    simp only [List.map_map, List.mem_map, Function.comp] at ha hb
    obtain ⟨va, hva, rfl⟩ := ha
    obtain ⟨vb, hvb, rfl⟩ := hb
    exact ⟨he, va, hva, vb, hvb, h⟩
  · rintro ⟨he, a, ha, b, hb, h⟩
    refine ⟨he, (items a).length, ?_, (items b).length, ?_, h⟩ <;>
      simp only [List.map_map, List.mem_map, Function.comp]
    · exact ⟨a, ha, rfl⟩
    · exact ⟨b, hb, rfl⟩

/-- `zzipper()` is empty; `zlens()` is 0 -/
theorem zipper_nil : zzipper [] = .ok [] ∧ zlens [] = .ok 0 := by decide +kernel

/-- `zlens` of sequences that all have length `n` or 1 is `n`; `zlens` raises under the same condition as
`zzipper` (on `len0`: here scalars and strings count 0) -/
theorem lens_spec (vs : List Val) (n : Nat) (hne : vs ≠ []) (hall : ∀ v ∈ vs, len0 v = n ∨ len0 v = 1)
    (hn : n = 1 ∨ ∃ v ∈ vs, len0 v = n) : zlens vs = .ok n := by
  apply lensOf_ok
  · simpa using hne
  · intro l hl
    obtain ⟨v, hv, rfl⟩ := List.mem_map.1 hl
    exact hall v hv
  · rcases hn with h | ⟨v, hv, h⟩
    · exact Or.inl h
    · exact Or.inr (List.mem_map.2 ⟨v, hv, h⟩)

/-- hypotheses of `zipper_spec` on `zzipper([1,2,3], [4], 'ab', (5,6,7))` -/
example : zzipper [.list [.cell (.int 1), .cell (.int 2), .cell (.int 3)], .list [.cell (.int 4)],
      .cell (.str "ab"), .tuple [.cell (.int 5), .cell (.int 6), .cell (.int 7)]] =
    .ok [.tuple [.cell (.int 1), .cell (.int 4), .cell (.str "ab"), .cell (.int 5)],
         .tuple [.cell (.int 2), .cell (.int 4), .cell (.str "ab"), .cell (.int 6)],
         .tuple [.cell (.int 3), .cell (.int 4), .cell (.str "ab"), .cell (.int 7)]] := by
  decide +kernel

example : zzipper [.list [.cell (.int 1), .cell (.int 2), .cell (.int 3)],
    .list [.cell (.int 4), .cell (.int 5)]] = .error .value := by decide +kernel

/-- `as_list` is an idempotent normaliser -/
theorem as_list_idem (v : Val) : asList (.list (asList v)) = asList v := rfl

/-- `as_tuple` applied twice equals `as_tuple` applied once exactly when the first result is not a 1-tuple
holding a list … -/
theorem as_tuple_idem_iff (v : Val) :
    asTuple (.tuple (asTuple v)) = asTuple v ↔ ∀ xs, asTuple v ≠ [.list xs] := by
  constructor
  · intro h xs hx
    rw [hx] at h
    simp only [asTuple] at h
    have := congrArg sizeOf h
    simp at this
    omega
  · intro h
    generalize asTuple v = ys at h
    match ys, h with
    | [], _ => rfl
    | [.list xs], h => exact absurd rfl (h xs)
    | [.cell _], _ | [.tuple _], _ | [.dict _], _ => rfl
    | a :: _ :: _, _ => cases a <;> rfl

/-- … so `as_tuple` is NOT an idempotent normaliser (finding K2): `as_tuple([[1,2]]) = ([1,2],)` and
`as_tuple(([1,2],)) = (1,2)`.  The clause of the property is false of the code; this is the witness. -/
theorem as_tuple_not_idem :
    ∃ v, asTuple (.tuple (asTuple v)) ≠ asTuple v :=
  ⟨.list [.list [.cell (.int 1), .cell (.int 2)]], by decide +kernel⟩

/-- it is idempotent on everything that is not a list holding exactly one list (or a 1-tuple of such) -/
theorem as_tuple_idem_partial (v : Val) (h : ∀ xs, asTuple v ≠ [.list xs]) :
    asTuple (.tuple (asTuple v)) = asTuple v := (as_tuple_idem_iff v).2 h

example : ∀ xs, asTuple (.tuple [.cell (.int 1), .list [.cell (.int 2)]]) ≠ [.list xs] := by
  intro xs h; simp [asTuple] at h

/-! ## waiter

`runEvents w evs` is the task tree of `await waiter(w)` after the completion events `evs`; `.result` is what
the awaiting caller has received (`none`: still suspended).  `res i` is the result of awaitable `i`. -/

/-- **Commutation of slot writes**: completion events of two different awaitables commute on every task tree
(reachable or not). -/
theorem complete_comm (i j : Nat) (a b : Val) (hij : i ≠ j) (t : Task) :
    complete i a (complete j b t) = complete j b (complete i a t) :=
  complete_comm_aux i j a b hij _ t (Nat.le_refl _)

/-- **Confluence.** The whole task tree — not only the final answer — depends only on the *set* of awaitables
that have completed so far, not on the order (or repetition) of the completion events. -/
theorem waiter_order_irrelevant (w : W) (res : Nat → Val) (σ τ : List Nat) (h : ∀ i, i ∈ σ ↔ i ∈ τ) :
    runEvents w (σ.map fun i => (i, res i)) = runEvents w (τ.map fun i => (i, res i)) := by
  rw [runEvents_eq, runEvents_eq]
  congr 1
  funext j
  have := h j
  by_cases hs : j ∈ σ <;> simp [hs, ← this]

/-- Once every awaitable of the structure has completed — in whatever order, possibly interleaved with
events for other awaitables — `waiter` has returned the structure with every awaitable replaced by its
result. -/
theorem waiter_any_schedule (w : W) (res : Nat → Val) (σ : List Nat) (h : ∀ i ∈ awaitables w, i ∈ σ) :
    (runEvents w (σ.map fun i => (i, res i))).result = some (resolve res w) := by
  rw [runEvents_eq, stateOf_done res _ _ w (Nat.le_refl _)]
  · rfl
  · intro i hi; simpa using h i hi

/-- **Schedule independence**, as stated: for every permutation `σ` of the awaitables. -/
theorem waiter_confluent (w : W) (res : Nat → Val) (σ : List Nat) (h : σ.Perm (awaitables w)) :
    (runEvents w (σ.map fun i => (i, res i))).result = some (resolve res w) :=
  waiter_any_schedule w res σ fun _ hi => h.symm.subset hi

/-- … and not before: while some awaitable is pending the caller is still suspended. -/
theorem waiter_suspended (w : W) (res : Nat → Val) (σ : List Nat) (h : ∃ i ∈ awaitables w, i ∉ σ) :
    (runEvents w (σ.map fun i => (i, res i))).result = none := by
  rw [runEvents_eq]
  apply stateOf_pending res _ _ w (Nat.le_refl _)
  obtain ⟨i, hi, hn⟩ := h
  exact ⟨i, hi, by simpa using hn⟩

/-- a structure without awaitables is returned as it is, immediately -/
theorem waiter_plain (w : W) (res : Nat → Val) (h : awaitables w = []) :
    (runEvents w []).result = some (resolve res w) := by
  have := waiter_any_schedule w res [] (by simp [h])
  simpa using this

/-- non-vacuity: a nested structure, three awaitables, completing in the order 2, 0, 1 -/
example :
    let w : W := .list [.aw 0, .val (.int 5), .dict [("k", .tuple [.aw 1, .aw 2])]]
    [2, 0, 1].Perm (awaitables w) ∧
    (runEvents w [(2, .cell (.int 12)), (0, .cell (.int 10))]).result = none ∧
    (runEvents w [(2, .cell (.int 12)), (0, .cell (.int 10)), (1, .cell (.int 11))]).result =
      some (.list [.cell (.int 10), .cell (.int 5),
        .dict [("k", .tuple [.cell (.int 11), .cell (.int 12)])]]) := by
  refine ⟨?_, by decide +kernel, by decide +kernel⟩
  show [2, 0, 1].Perm [0, 1, 2]
  exact (List.Perm.swap 0 2 [1]).trans (List.Perm.cons 0 (List.Perm.swap 1 2 []))

end Pyg.Props.C19
