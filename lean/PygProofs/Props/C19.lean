/-
  C19 — container lifting maps leaf-wise, preserves shape, and is schedule independent.
  Property theorems only (helper lemmas live in PygProofs/Lemmas).
-/
import PygModel.Lift
import PygModel.Zip
import PygModel.Waiter

namespace Pyg.Props.C19
open Pyg

/-- `as_list` is an idempotent normaliser -/
theorem as_list_idem (v : Val) : asList (.list (asList v)) = asList v := rfl

end Pyg.Props.C19
