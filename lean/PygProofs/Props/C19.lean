/-
  C19 — container lifting maps leaf-wise, preserves shape, and is schedule independent.
  Property theorems only (helper lemmas live in PygProofs/Lemmas).
-/
import PygModel.Lift
import PygModel.Zip
import PygModel.Waiter
import PygProofs.Lemmas.LiftLemmas
import PygProofs.Lemmas.ZipLemmas
import PygProofs.Lemmas.WaiterLemmas
import PygModel.LiftX
import PygModel.Txt
import PygProofs.Lemmas.TxtLemmas
import PygProofs.Lemmas.LiftXLemmas
import PygProofs.Lemmas.LiftXRecLemmas
import PygModel.WaiterF
import PygProofs.Lemmas.WaiterFLemmas
import PygModel.WaiterLog
import PygProofs.Lemmas.WaiterLogLemmas

namespace Pyg.Props.C19
open Pyg

/-! ## loop(list, tuple, dict)

`wrapped f v args kw` is the model of `loop(list, tuple, dict)(f)(v, *args, **kw)`.  The vocabulary of the
statement: `v.at p` is the sub-value of `v` at path `p`; `select v p c` is the part of companion `c` that
travels to position `p` of `v` (`itemByI` / `itemByKey` at every step). -/

/-- Compositionality: the result at any position `p` of `v` is the lifted call on the sub-structure at `p`,
with every positional and every keyword companion replaced by its selected part — the same `select` for
both ways of passing. -/
theorem lift_sub (f : LeafFn) : ∀ (p : Path) (v : Val) (args : List Val) (kw : KW) (r v' : Val),
    wrapped f v args kw = .ok r → v.at p = some v' →
    ∃ r', r.at p = some r' ∧
      wrapped f v' (args.map (select v p)) (mapKW (select v p) (dropAxis kw)) = .ok r'
  | [], v, args, kw, r, v', h, hp => by
      simp [Val.at] at hp
      subst hp
      refine ⟨r, by simp [Val.at], ?_⟩
      have : (select v []) = fun c => c := by funext c; simp [select]
      rw [this, mapKW_id, List.map_id', wrapped_dropAxis]
      exact h
  | s :: p, v, args, kw, r, v', h, hp => by
      simp only [Val.at] at hp
      split at hp
      case h_2 => cases hp
      case h_1 c hc =>
      have hsel : ∀ g : Val → Val, (∀ x, g x = selStep v s x) →
          (select v (s :: p)) = (select c p) ∘ g := by
        intro g hg; funext x; simp [select, hc, hg]
      cases v with
      | cell a => simp [Val.child] at hc
      | list xs =>
        cases s with
        | key k => simp [Val.child] at hc
        | idx i =>
          simp only [Val.child] at hc
          rw [wrapped] at h
          split at h
          · cases h
          · rename_i ys hys
            cases h
            obtain ⟨_, hget⟩ := wrappedSeq_get xs 0 args (dropAxis kw) ys hys
            obtain ⟨y, hy1, hy2⟩ := hget i c hc
            obtain ⟨r', hr1, hr2⟩ := lift_sub f p c _ _ y v' hy2 hp
            refine ⟨r', by simp [Val.at, Val.child, hy1, hr1], ?_⟩
            rw [hsel (itemByI i xs.length) (by intro x; simp [selStep])]
            rw [← mapKW_mapKW, ← List.map_map]
            simpa [dropAxis_mapKW, dropAxis_idem] using hr2
      | tuple xs =>
        cases s with
        | key k => simp [Val.child] at hc
        | idx i =>
          simp only [Val.child] at hc
          rw [wrapped] at h
          split at h
          · cases h
          · rename_i ys hys
            cases h
            obtain ⟨_, hget⟩ := wrappedSeq_get xs 0 args (dropAxis kw) ys hys
            obtain ⟨y, hy1, hy2⟩ := hget i c hc
            obtain ⟨r', hr1, hr2⟩ := lift_sub f p c _ _ y v' hy2 hp
            refine ⟨r', by simp [Val.at, Val.child, hy1, hr1], ?_⟩
            rw [hsel (itemByI i xs.length) (by intro x; simp [selStep])]
            rw [← mapKW_mapKW, ← List.map_map]
            simpa [dropAxis_mapKW, dropAxis_idem] using hr2
      | dict kvs =>
        cases s with
        | idx i => simp [Val.child] at hc
        | key k =>
          simp only [Val.child] at hc
          rw [wrapped] at h
          split at h
          · cases h
          · rename_i ys hys
            cases h
            obtain ⟨_, hget⟩ := wrappedKVs_lookup kvs args (dropAxis kw) ys hys
            obtain ⟨y, hy1, hy2⟩ := hget k c hc
            obtain ⟨r', hr1, hr2⟩ := lift_sub f p c _ _ y v' hy2 hp
            refine ⟨r', by simp [Val.at, Val.child, hy1, hr1], ?_⟩
            rw [hsel (itemByKey k (sortStr (keysOf kvs))) (by intro x; simp [selStep])]
            rw [← mapKW_mapKW, ← List.map_map]
            simpa [dropAxis_mapKW, dropAxis_idem] using hr2


/-- **Leaves.** The leaf of the result at position `p` is `f` applied to the original leaf, to the selected
parts of the positional companions and to the selected parts of the keyword companions (a keyword called
`axis` is consumed by the decorator). -/
theorem lift_leaves (f : LeafFn) (v : Val) (args : List Val) (kw : KW) (r : Val) (p : Path) (c : Cell)
    (h : wrapped f v args kw = .ok r) (hp : v.at p = some (.cell c)) :
    ∃ y, f (.cell c) (args.map (select v p)) (mapKW (select v p) (dropAxis kw)) = .ok y ∧
      r.at p = some y := by
  obtain ⟨r', h1, h2⟩ := lift_sub f p v args kw r _ h hp
  refine ⟨r', ?_, h1⟩
  simpa [wrapped, dropAxis_mapKW, dropAxis_idem] using h2

/-- **Shape.** Wherever the argument holds a list, the result holds a list of the same length … -/
theorem lift_shape_list (f : LeafFn) (v : Val) (args : List Val) (kw : KW) (r : Val) (p : Path)
    (xs : List Val) (h : wrapped f v args kw = .ok r) (hp : v.at p = some (.list xs)) :
    ∃ ys, r.at p = some (.list ys) ∧ ys.length = xs.length := by
  obtain ⟨r', h1, h2⟩ := lift_sub f p v args kw r _ h hp
  rw [wrapped] at h2
  split at h2
  · cases h2
  · rename_i ys hys
    cases h2
    exact ⟨ys, h1, (wrappedSeq_get xs 0 _ _ ys hys).1⟩

/-- … wherever it holds a tuple, a tuple of the same length … -/
theorem lift_shape_tuple (f : LeafFn) (v : Val) (args : List Val) (kw : KW) (r : Val) (p : Path)
    (xs : List Val) (h : wrapped f v args kw = .ok r) (hp : v.at p = some (.tuple xs)) :
    ∃ ys, r.at p = some (.tuple ys) ∧ ys.length = xs.length := by
  obtain ⟨r', h1, h2⟩ := lift_sub f p v args kw r _ h hp
  rw [wrapped] at h2
  split at h2
  · cases h2
  · rename_i ys hys
    cases h2
    exact ⟨ys, h1, (wrappedSeq_get xs 0 _ _ ys hys).1⟩

/-- … and wherever it holds a dict, a dict with the same keys in the same order. -/
theorem lift_shape_dict (f : LeafFn) (v : Val) (args : List Val) (kw : KW) (r : Val) (p : Path)
    (kvs : KW) (h : wrapped f v args kw = .ok r) (hp : v.at p = some (.dict kvs)) :
    ∃ rs, r.at p = some (.dict rs) ∧ keysOf rs = keysOf kvs := by
  obtain ⟨r', h1, h2⟩ := lift_sub f p v args kw r _ h hp
  rw [wrapped] at h2
  split at h2
  · cases h2
  · rename_i ys hys
    cases h2
    exact ⟨ys, h1, (wrappedKVs_lookup kvs _ _ ys hys).1⟩

/-! ### what `select` does: element by element, by key, broadcast -/

/-- one level of descent -/
theorem select_step (v v' : Val) (s : Step) (p : Path) (c : Val) (h : v.child s = some v') :
    select v (s :: p) c = select v' p (selStep v s c) := by
  simp [select, h]

/-- a companion that is a list or tuple of the same length as the list/tuple being looped over is matched
element by element -/
theorem selStep_same_length (xs cs : List Val) (i : Nat) (h : cs.length = xs.length) :
    selStep (.list xs) (.idx i) (.list cs) = getIdx cs i ∧
    selStep (.list xs) (.idx i) (.tuple cs) = getIdx cs i ∧
    selStep (.tuple xs) (.idx i) (.list cs) = getIdx cs i ∧
    selStep (.tuple xs) (.idx i) (.tuple cs) = getIdx cs i := by
  simp [selStep, itemByI, h]

/-- a companion dict with the same key set (in any order) is matched by key -/
theorem selStep_same_keys (kvs cs : KW) (k : String) (h : sortStr (keysOf cs) = sortStr (keysOf kvs)) :
    selStep (.dict kvs) (.key k) (.dict cs) = getKey cs k := by
  simp [selStep, itemByKey, h]

/-- scalars and strings are broadcast to every leaf -/
theorem select_scalar : ∀ (p : Path) (v : Val) (a : Cell), select v p (.cell a) = .cell a
  | [], v, a => by simp [select]
  | s :: p, v, a => by
      simp only [select]
      split
      · rename_i v' hv
        have : selStep v s (.cell a) = .cell a := by
          cases v <;> cases s <;> simp [selStep, itemByI, itemByKey]
        rw [this]; exact select_scalar p v' a
      · rfl

/-- a dict companion is passed whole through a list/tuple level, a list/tuple companion whole through a
dict level (`_item_by_i` only looks into sequences, `_item_by_key` only into dicts) -/
theorem selStep_other_kind (xs cs : List Val) (kvs ckvs : KW) (i : Nat) (k : String) :
    selStep (.list xs) (.idx i) (.dict ckvs) = .dict ckvs ∧
    selStep (.tuple xs) (.idx i) (.dict ckvs) = .dict ckvs ∧
    selStep (.dict kvs) (.key k) (.list cs) = .list cs ∧
    selStep (.dict kvs) (.key k) (.tuple cs) = .tuple cs := by
  simp [selStep, itemByI, itemByKey]

/-- a sequence of another length is searched element by element (the code's reading of "everything else
is broadcast": an inner sequence of the matching length is still matched) -/
theorem selStep_other_length (xs cs : List Val) (i : Nat) (h : cs.length ≠ xs.length) :
    selStep (.list xs) (.idx i) (.list cs) = .list (cs.map (itemByI i xs.length)) ∧
    selStep (.list xs) (.idx i) (.tuple cs) = .tuple (cs.map (itemByI i xs.length)) := by
  simp [selStep, itemByI, h, itemByIList_eq_map]

/-- **Everything else is broadcast** (sequences): a companion that holds no list or tuple of the looped
length, at any depth, is passed whole to every element — whatever else it holds. -/
theorem selStep_broadcast_seq (xs : List Val) (i : Nat) (c : Val)
    (h : ∀ q cs, (c.at q = some (.list cs) ∨ c.at q = some (.tuple cs)) → cs.length ≠ xs.length) :
    selStep (.list xs) (.idx i) c = c ∧ selStep (.tuple xs) (.idx i) c = c := by
  simp only [selStep]
  exact ⟨itemByI_no_match i xs.length _ c (Nat.le_refl _) h, itemByI_no_match i xs.length _ c (Nat.le_refl _) h⟩

example : selStep (.list [.cell (.int 1), .cell (.int 2)]) (.idx 1)
    (.list [.cell (.int 7), .dict [("k", .tuple [.cell (.int 8)])], .cell (.str "ab")]) =
    .list [.cell (.int 7), .dict [("k", .tuple [.cell (.int 8)])], .cell (.str "ab")] := by decide +kernel

/-- **Everything else is broadcast** (dicts): a companion that holds no dict with the key set of the looped dict,
at any depth, is passed whole to every value — whatever else it holds (`c.KeysNodup`: python dicts). -/
theorem selStep_broadcast_dict (kvs : KW) (k : String) (c : Val) (hc : c.KeysNodup)
    (h : ∀ q cs, c.at q = some (.dict cs) → sortStr (keysOf cs) ≠ sortStr (keysOf kvs)) :
    selStep (.dict kvs) (.key k) c = c := by
  simp only [selStep]
  exact itemByKey_no_match k _ _ c (Nat.le_refl _) hc h

example : selStep (.dict [("a", .cell (.int 1)), ("b", .cell (.int 2))]) (.key "b")
    (.dict [("a", .cell (.int 7)), ("z", .dict [("b", .cell (.int 8))])]) =
    .dict [("a", .cell (.int 7)), ("z", .dict [("b", .cell (.int 8))])] := by decide +kernel

/-- … but a companion of another length / with other keys that HOLDS a matching container further inside is not
broadcast: the code looks inside it (finding K3).  "Everything else is broadcast" is false of the code there; this
is the witness: `loop(list)(f)([1, 2], [[10, 20], [30, 40], [50, 60]])` gives the first leaf `[10, 30, 50]`, and
`loop(dict)(f)({'a': 1}, {'z': {'a': 5}})` gives the leaf `{'z': 5}`. -/
theorem broadcast_searched_inside :
    (∃ (xs cs : List Val) (i : Nat), cs.length ≠ xs.length ∧ selStep (.list xs) (.idx i) (.list cs) ≠ .list cs) ∧
    (∃ (kvs cs : KW) (k : String), sortStr (keysOf cs) ≠ sortStr (keysOf kvs) ∧
      selStep (.dict kvs) (.key k) (.dict cs) ≠ .dict cs) := by
  refine ⟨⟨[.cell (.int 1), .cell (.int 2)],
      [.list [.cell (.int 10), .cell (.int 20)], .list [.cell (.int 30), .cell (.int 40)],
       .list [.cell (.int 50), .cell (.int 60)]], 0, by decide, by decide +kernel⟩,
    ⟨[("a", .cell (.int 1))], [("z", .dict [("a", .cell (.int 5))])], "a", by decide +kernel, by decide +kernel⟩⟩

/-! ### same shape ⇒ element by element, through every level

`Matches v c`: the companion `c` has the shape of `v` as far as it goes — a scalar (broadcast from there on), or a
list/tuple of the same length / a dict with the same key set whose members match the members of `v`.
`follow c p` walks `c` along the path `p` until it reaches a scalar. -/

def seqItems : Val → Option (List Val)
  | .list xs => some xs
  | .tuple xs => some xs
  | _ => Option.none

inductive Matches : Val → Val → Prop
  | scalar (v : Val) (a : Cell) : Matches v (.cell a)
  /-- `v` stops here: whatever of the companion was matched down to this leaf - a scalar or a whole container - is what the leaf
  receives (`f([1,2], [[10,20],[30,40]])`: the leaf `1` receives the list `[10,20]`) -/
  | leaf (a : Cell) (c : Val) : Matches (.cell a) c
  | seq {v c : Val} {xs cs : List Val} : seqItems v = some xs → seqItems c = some cs → cs.length = xs.length →
      (∀ (i : Nat) (x y : Val), xs[i]? = some x → cs[i]? = some y → Matches x y) → Matches v c
  | dict {kvs cs : KW} : sortStr (keysOf cs) = sortStr (keysOf kvs) →
      (∀ (k : String) (x y : Val), kvs.lookup k = some x → cs.lookup k = some y → Matches x y) →
      Matches (.dict kvs) (.dict cs)

def follow : Val → Path → Val
  | c, [] => c
  | .cell a, _ :: _ => .cell a
  | c, s :: p => match c.child s with
    | some c' => follow c' p
    | Option.none => c

/-- **Companions of the same shape are matched element by element (dicts by key) at every level**: the leaf of
`v` at path `p` receives the part of `c` at the same path (or the scalar at which `c` stops on the way). -/
theorem select_matches : ∀ (p : Path) (v c : Val), Matches v c → (v.at p).isSome → select v p c = follow c p
  | [], v, c, _, _ => by simp [select, follow]
  | s :: p, v, c, h, hp => by
      cases hv : v.child s with
      | none => simp [Val.at, hv] at hp
      | some v' =>
        have hp' : (v'.at p).isSome := by simpa [Val.at, hv] using hp
        rw [select_step v v' s p c hv]
        cases h with
        | scalar _ a =>
          have : selStep v s (.cell a) = .cell a := by
            cases v <;> cases s <;> simp [selStep, itemByI, itemByKey]
          rw [this, select_scalar]
          simp [follow]
        | leaf a c => simp [Val.child] at hv
        | @seq _ _ xs cs hxs hcs hl hm =>
          -- `v` is a list or a tuple, so the step is an index below the common length
          obtain ⟨i, rfl, hxi⟩ : ∃ i, s = .idx i ∧ xs[i]? = some v' := by
            cases v <;> cases s <;> simp_all [seqItems, Val.child]
          have hi : i < cs.length := by
            have := (List.getElem?_eq_some_iff.1 hxi).1; omega
          have hci : cs[i]? = some cs[i] := List.getElem?_eq_getElem hi
          have hget : getIdx cs i = cs[i] := by simp [getIdx, hi]
          have hsel : selStep v (.idx i) c = cs[i] := by
            rw [← hget]
            cases v <;> cases c <;> simp_all [seqItems, selStep, itemByI]
          have hch : c.child (.idx i) = some cs[i] := by
            cases c <;> simp_all [seqItems, Val.child]
          rw [hsel, select_matches p v' cs[i] (hm i v' cs[i] hxi hci) hp']
          cases c <;> simp_all [follow, seqItems]
        | @dict kvs cs hk hm =>
          obtain ⟨k, rfl, hxk⟩ : ∃ k, s = .key k ∧ kvs.lookup k = some v' := by
            cases s <;> simp_all [Val.child]
          have hmem : k ∈ keysOf cs := by
            rw [← mem_sortStr, hk, mem_sortStr]; exact mem_keys_of_lookup k v' kvs hxk
          obtain ⟨y, hy⟩ := lookup_isSome_of_mem_keys k cs hmem
          have hsel : selStep (.dict kvs) (.key k) (.dict cs) = y := by
            simp [selStep, itemByKey, hk, getKey, hy]
          rw [hsel, select_matches p v' y (hm k v' y hxk hy) hp']
          simp [follow, Val.child, hy]

/-- non-vacuity: a two-level structure, a companion of the same shape (tuple for list, keys in another order,
a scalar standing for a whole sub-list) -/
example :
    let v : Val := .list [.dict [("a", .cell (.int 1)), ("b", .list [.cell (.int 2), .cell (.int 3)])], .cell (.int 4)]
    let c : Val := .tuple [.dict [("b", .cell (.str "s")), ("a", .cell (.int 10))], .cell (.int 40)]
    select v [.idx 0, .key "b", .idx 1] c = .cell (.str "s") ∧ follow c [.idx 0, .key "b", .idx 1] = .cell (.str "s") ∧
    select v [.idx 0, .key "a"] c = .cell (.int 10) := by
  decide +kernel

/-- the first argument may be passed by keyword under the name of the function's first parameter -/
theorem call_first_by_keyword (f : LeafFn) (top : String) (v : Val) (kw : KW)
    (h : top ∉ keysOf kw) :
    callLifted f top [] ((top, v) :: kw) = callLifted f top [v] kw := by
  have : kw.filter (fun p => p.1 != top) = kw := by
    apply List.filter_eq_self.2
    intro p hp
    have : p.1 ≠ top := by
      intro e; apply h; simp only [keysOf, List.mem_map]; exact ⟨p, hp, e⟩
    simpa using this
  simp [callLifted, List.lookup, this]


/-- **Exceptions.** If the lifted call raises, then some leaf call raised that exception (dict keys distinct, as
in python) … -/
theorem lift_error (f : LeafFn) (v : Val) (hv : v.KeysNodup) (args : List Val) (kw : KW) (e : Err)
    (h : wrapped f v args kw = .error e) :
    ∃ p c, v.at p = some (.cell c) ∧
      f (.cell c) (args.map (select v p)) (mapKW (select v p) (dropAxis kw)) = .error e :=
  lift_error_aux f _ v (Nat.le_refl _) hv args kw e h

/-- … hence the lifted call returns exactly when every leaf call returns (with `lift_leaves`: and then its
leaves are those results). -/
theorem lift_total (f : LeafFn) (v : Val) (hv : v.KeysNodup) (args : List Val) (kw : KW) :
    (∃ r, wrapped f v args kw = .ok r) ↔
    ∀ p c, v.at p = some (.cell c) →
      ∃ y, f (.cell c) (args.map (select v p)) (mapKW (select v p) (dropAxis kw)) = .ok y := by
  constructor
  · rintro ⟨r, h⟩ p c hp
    obtain ⟨y, hy, _⟩ := lift_leaves f v args kw r p c h hp
    exact ⟨y, hy⟩
  · intro hall
    cases h : wrapped f v args kw with
    | ok r => exact ⟨r, rfl⟩
    | error e =>
      obtain ⟨p, c, hp, he⟩ := lift_error f v hv args kw e h
      obtain ⟨y, hy⟩ := hall p c hp
      rw [he] at hy; cases hy

/-- **Positional = keyword passing.** If `f` binds the positional argument after `args` to the parameter
`name` (python's calling convention for a function with that parameter list), then passing a companion
positionally or under that name gives the same result — for every structure and every companion.
(`axis` is excluded: the decorator consumes a keyword of that name.)  False of the unrepaired code: F9. -/
theorem pos_kw_agree (f : LeafFn) (name : String) (hname : name ≠ "axis") (v : Val) (args : List Val)
    (kw : KW) (c : Val) (hf : BindsNext f args.length name) (hk : name ∉ keysOf kw) :
    wrapped f v (args ++ [c]) kw = wrapped f v args (kw ++ [(name, c)]) :=
  pos_kw_aux f args.length name hname hf _ v (Nat.le_refl _) args kw c rfl hk

/-! ### non-vacuity of the lifting theorems -/

/-- `def g(a, b = None): return (a, b)` as a `LeafFn`: binds its first companion to `b` -/
def exG : LeafFn := fun a args kw =>
  match args, kw with
  | [b], [] => .ok (.tuple [a, b])
  | [], [("b", b)] => .ok (.tuple [a, b])
  | _, _ => .error .type

example : BindsNext exG 0 "b" := by
  intro x as kw c hl hk
  cases as with
  | cons _ _ => simp at hl
  | nil =>
    cases kw with
    | nil => simp [exG]
    | cons p kw =>
      obtain ⟨k, v⟩ := p
      have hkb : k ≠ "b" := by intro e; apply hk; simp [keysOf, e]
      cases kw <;> simp [exG]

/-- the F9 input: `loop(list)(f)([[1,2]], 5)` gives every inner leaf its companion -/
example : wrapped recorderPure (.list [.list [.cell (.int 1), .cell (.int 2)]]) [.cell (.int 5)] [] =
    .ok (.list [.list [.tuple [.cell (.int 1), .tuple [.cell (.int 5)], .dict []],
                       .tuple [.cell (.int 2), .tuple [.cell (.int 5)], .dict []]]]) := by decide +kernel

/-- hypotheses of `lift_leaves` / `lift_shape_*` on a nested value with a same-shape keyword companion and a
dict companion given in another key order -/
example :
    let v : Val := .dict [("x", .cell (.int 1)), ("y", .tuple [.cell (.str "s"), .cell (.int 2)])]
    let c : Val := .dict [("y", .list [.cell (.int 10), .cell (.int 20)]), ("x", .cell (.int 30))]
    v.at [.key "y", .idx 1] = some (.cell (.int 2)) ∧ v.KeysNodup ∧
    select v [.key "y", .idx 1] c = .cell (.int 20) ∧
    select v [.key "x"] c = .cell (.int 30) ∧
    wrapped recorderPure v [] [("b", c)] = .ok (.dict
      [("x", .tuple [.cell (.int 1), .tuple [], .dict [("b", .cell (.int 30))]]),
       ("y", .tuple [.tuple [.cell (.str "s"), .tuple [], .dict [("b", .cell (.int 10))]],
                     .tuple [.cell (.int 2), .tuple [], .dict [("b", .cell (.int 20))]]])]) := by
  refine ⟨by decide +kernel, ?_, by decide +kernel, by decide +kernel, by decide +kernel⟩
  intro p kvs hp
  match p, hp with
  | [], hp => simp [Val.at] at hp; subst hp; decide
  | [.key k], hp =>
    simp only [Val.at, Val.child] at hp
    split at hp
    · rename_i c' hc
      simp [List.lookup] at hc
      split at hc
      · cases hc; cases hp
      · split at hc
        · cases hc; cases hp
        · cases hc
    · cases hp
  | .idx _ :: _, hp => simp [Val.at, Val.child] at hp
  | .key k :: s :: q, hp =>
    exfalso
    simp only [Val.at, Val.child] at hp
    split at hp
    · rename_i c' hc
      simp [List.lookup] at hc
      split at hc
      · cases hc; simp at hp
      · split at hc
        · cases hc
          cases s with
          | key _ => simp at hp
          | idx i =>
            simp only at hp
            match i, hp with
            | 0, hp => cases q <;> simp [Val.at, Val.child] at hp
            | 1, hp => cases q <;> simp [Val.at, Val.child] at hp
            | _ + 2, hp => simp at hp
        · cases hc
    · cases hp

/-- an exception in a leaf propagates (here: the second leaf raises `ValueError`) -/
example : wrapped recorder (.list [.cell (.int 1), .cell (.str "!v")]) [] [] = .error .value := by
  decide +kernel


/-! ## zzipper, zlens, as_list, as_tuple

`items v` is what `zip` iterates over: the elements of a list/tuple, the keys of a dict, and `[v]` for a scalar
or string — so scalars count as length-1 sequences. -/

/-- **zzipper zips equal-length sequences and broadcasts scalars and length-1 sequences**: if every argument
has length `n` or 1 (`n` being the length of some argument, or 1), the result is the `n` rows whose `j`-th
entry is the `i`-th element of argument `j`, or its only element. -/
theorem zipper_spec (vs : List Val) (n : Nat) (hne : vs ≠ [])
    (hall : ∀ v ∈ vs, (items v).length = n ∨ (items v).length = 1)
    (hn : n = 1 ∨ ∃ v ∈ vs, (items v).length = n) :
    zzipper vs = .ok ((List.range n).map fun i => .tuple (vs.map fun v =>
      if (items v).length = 1 then (items v).getD 0 (.cell .none)
      else (items v).getD i (.cell .none))) := by
  have hl : lensOf ((vs.map items).map List.length) = .ok n := by
    apply lensOf_ok
    · simpa using hne
    · intro l hl
      simp only [List.map_map, List.mem_map, Function.comp] at hl
      obtain ⟨v, hv, rfl⟩ := hl
      exact hall v hv
    · rcases hn with h | ⟨v, hv, h⟩
      · exact Or.inl h
      · refine Or.inr ?_
        simp only [List.map_map, List.mem_map, Function.comp]
        exact ⟨v, hv, h⟩
  unfold zzipper
  simp only [hl]
  by_cases h1 : n > 1
  · simp only [h1, ↓reduceIte, zipN]
    have hm : minLen ((vs.map items).map (zbcast n)) = n := by
      apply minLen_eq
      · simpa using hne
      · intro c hc
        simp only [List.map_map, List.mem_map, Function.comp] at hc
        obtain ⟨v, hv, rfl⟩ := hc
        exact zbcast_length n _ (hall v hv)
    rw [hm, List.map_map]
    congr 1
    apply List.map_congr_left
    intro i hi
    have hi' : i < n := by simpa using hi
    simp only [Function.comp, List.map_map, Val.tuple.injEq]
    apply List.map_congr_left
    intro v _
    simp only [Function.comp]
    exact bcast_getD n i hi' (items v) _
  · simp only [h1, ↓reduceIte, zipN]
    have hn01 : n = 0 ∨ n = 1 := by omega
    rcases hn01 with h0 | h1'
    · subst h0
      have : minLen (vs.map items) = 0 := by
        rcases hn with h | ⟨v, hv, h⟩
        · cases h
        · have := minLen_le (vs.map items) (items v) (List.mem_map.2 ⟨v, hv, rfl⟩)
          omega
      simp [this]
    · subst h1'
      have hm : minLen (vs.map items) = 1 := by
        apply minLen_eq
        · simpa using hne
        · intro c hc
          obtain ⟨v, hv, rfl⟩ := List.mem_map.1 hc
          rcases hall v hv with h | h <;> exact h
      rw [hm, List.map_map]
      congr 1
      apply List.map_congr_left
      intro i hi
      have hi' : i = 0 := by simpa using hi
      subst hi'
      simp only [Function.comp, List.map_map, Val.tuple.injEq]
      apply List.map_congr_left
      intro v _
      simp

/-- **zzipper raises ValueError exactly when two arguments have different lengths neither of which is 1**
(and it raises nothing else). -/
theorem zipper_raises_iff (vs : List Val) (e : Err) :
    zzipper vs = .error e ↔ e = .value ∧ ∃ a ∈ vs, ∃ b ∈ vs,
      (items a).length ≠ (items b).length ∧ (items a).length ≠ 1 ∧ (items b).length ≠ 1 := by
  have key := lensOf_error_iff ((vs.map items).map List.length) e
  have hz : zzipper vs = .error e ↔ lensOf ((vs.map items).map List.length) = .error e := by
    cases hr : lensOf ((vs.map items).map List.length) with
    | error e' => simp only [zzipper, hr]; constructor <;> (intro h; cases h; rfl)
    | ok n => simp only [zzipper, hr]; simp
  rw [hz, key]
  constructor
  · rintro ⟨he, a, ha, b, hb, h⟩
    simp only [List.map_map, List.mem_map, Function.comp] at ha hb
    obtain ⟨va, hva, rfl⟩ := ha
    obtain ⟨vb, hvb, rfl⟩ := hb
    exact ⟨he, va, hva, vb, hvb, h⟩
  · rintro ⟨he, a, ha, b, hb, h⟩
    refine ⟨he, (items a).length, ?_, (items b).length, ?_, h⟩ <;>
      simp only [List.map_map, List.mem_map, Function.comp]
    · exact ⟨a, ha, rfl⟩
    · exact ⟨b, hb, rfl⟩

/-- `zzipper()` is empty; `zlens()` is 0 -/
theorem zipper_nil : zzipper [] = .ok [] ∧ zlens [] = .ok 0 := by decide +kernel

/-- `zlens` of sequences that all have length `n` or 1 is `n`; `zlens` raises under the same condition as
`zzipper` (on `len0`: here scalars and strings count 0) -/
theorem lens_spec (vs : List Val) (n : Nat) (hne : vs ≠ []) (hall : ∀ v ∈ vs, len0 v = n ∨ len0 v = 1)
    (hn : n = 1 ∨ ∃ v ∈ vs, len0 v = n) : zlens vs = .ok n := by
  apply lensOf_ok
  · simpa using hne
  · intro l hl
    obtain ⟨v, hv, rfl⟩ := List.mem_map.1 hl
    exact hall v hv
  · rcases hn with h | ⟨v, hv, h⟩
    · exact Or.inl h
    · exact Or.inr (List.mem_map.2 ⟨v, hv, h⟩)

/-- hypotheses of `zipper_spec` on `zzipper([1,2,3], [4], 'ab', (5,6,7))` -/
example : zzipper [.list [.cell (.int 1), .cell (.int 2), .cell (.int 3)], .list [.cell (.int 4)],
      .cell (.str "ab"), .tuple [.cell (.int 5), .cell (.int 6), .cell (.int 7)]] =
    .ok [.tuple [.cell (.int 1), .cell (.int 4), .cell (.str "ab"), .cell (.int 5)],
         .tuple [.cell (.int 2), .cell (.int 4), .cell (.str "ab"), .cell (.int 6)],
         .tuple [.cell (.int 3), .cell (.int 4), .cell (.str "ab"), .cell (.int 7)]] := by
  decide +kernel

example : zzipper [.list [.cell (.int 1), .cell (.int 2), .cell (.int 3)],
    .list [.cell (.int 4), .cell (.int 5)]] = .error .value := by decide +kernel

/-- `as_list` is an idempotent normaliser -/
theorem as_list_idem (v : Val) : asList (.list (asList v)) = asList v := rfl

/-- `as_tuple` applied twice equals `as_tuple` applied once exactly when the first result is not a 1-tuple
holding a list … -/
theorem as_tuple_idem_iff (v : Val) :
    asTuple (.tuple (asTuple v)) = asTuple v ↔ ∀ xs, asTuple v ≠ [.list xs] := by
  constructor
  · intro h xs hx
    rw [hx] at h
    simp only [asTuple] at h
    have := congrArg sizeOf h
    simp at this
    omega
  · intro h
    generalize asTuple v = ys at h
    match ys, h with
    | [], _ => rfl
    | [.list xs], h => exact absurd rfl (h xs)
    | [.cell _], _ | [.tuple _], _ | [.dict _], _ => rfl
    | a :: _ :: _, _ => cases a <;> rfl

/-- … so `as_tuple` is NOT an idempotent normaliser (finding K2): `as_tuple([[1,2]]) = ([1,2],)` and
`as_tuple(([1,2],)) = (1,2)`.  The clause of the property is false of the code; this is the witness. -/
theorem as_tuple_not_idem :
    ∃ v, asTuple (.tuple (asTuple v)) ≠ asTuple v :=
  ⟨.list [.list [.cell (.int 1), .cell (.int 2)]], by decide +kernel⟩

/-- it is idempotent on everything that is not a list holding exactly one list (or a 1-tuple of such) -/
theorem as_tuple_idem_partial (v : Val) (h : ∀ xs, asTuple v ≠ [.list xs]) :
    asTuple (.tuple (asTuple v)) = asTuple v := (as_tuple_idem_iff v).2 h

example : ∀ xs, asTuple (.tuple [.cell (.int 1), .list [.cell (.int 2)]]) ≠ [.list xs] := by
  intro xs h; simp [asTuple] at h

/-- **the K2 input class** (review t5: it lived only in the python matcher `_k2`): the first result is a 1-tuple holding a list
exactly for a list holding one list and for a 1-tuple holding such a list -/
theorem as_tuple_k2_class (v : Val) (xs : List Val) :
    asTuple v = [.list xs] ↔ v = .list [.list xs] ∨ v = .tuple [.list [.list xs]] := by
  constructor
  · intro h
    unfold asTuple at h
    split at h
    · cases h
    · right; subst h; rfl
    · rename_i ys hne
      subst h
      exact absurd rfl (hne xs)
    · left; subst h; rfl
    · rename_i h1 h2 h3 h4
      simp only [List.cons.injEq, and_true] at h
      exact absurd h (h4 xs)
  · rintro (rfl | rfl) <;> rfl

/-- ... so, in terms of the INPUT: `as_tuple` is idempotent on `v` iff `v` is neither `[[…]]` (a list holding exactly one list) nor
`([[…]],)` - the matcher of finding K2 accepts exactly these inputs -/
theorem as_tuple_idem_iff_input (v : Val) :
    asTuple (.tuple (asTuple v)) = asTuple v ↔ ∀ xs, v ≠ .list [.list xs] ∧ v ≠ .tuple [.list [.list xs]] := by
  rw [as_tuple_idem_iff]
  constructor
  · intro h xs
    have := h xs
    rw [Ne, as_tuple_k2_class] at this
    exact ⟨fun e => this (Or.inl e), fun e => this (Or.inr e)⟩
  · intro h xs hx
    rcases (as_tuple_k2_class v xs).mp hx with e | e
    · exact (h xs).1 e
    · exact (h xs).2 e

example : asTuple (.tuple (asTuple (.tuple [.list [.list [.cell (.int 1)]]]))) ≠ asTuple (.tuple [.list [.list [.cell (.int 1)]]]) := by
  decide +kernel

/-! ## waiter

`runEvents w evs` is the task tree of `await waiter(w)` after the completion events `evs`; `.result` is what
the awaiting caller has received (`none`: still suspended).  `res i` is the result of awaitable `i`. -/

/-- **Commutation of slot writes**: completion events of two different awaitables commute on every task tree
(reachable or not). -/
theorem complete_comm (i j : Nat) (a b : Val) (hij : i ≠ j) (t : Task) :
    complete i a (complete j b t) = complete j b (complete i a t) :=
  complete_comm_aux i j a b hij _ t (Nat.le_refl _)

/-- **Confluence.** The whole task tree — not only the final answer — depends only on the *set* of awaitables
that have completed so far, not on the order (or repetition) of the completion events. -/
theorem waiter_order_irrelevant (w : W) (res : Nat → Val) (σ τ : List Nat) (h : ∀ i, i ∈ σ ↔ i ∈ τ) :
    runEvents w (σ.map fun i => (i, res i)) = runEvents w (τ.map fun i => (i, res i)) := by
  rw [runEvents_eq, runEvents_eq]
  congr 1
  funext j
  have := h j
  by_cases hs : j ∈ σ <;> simp [hs, ← this]

/-- Once every awaitable of the structure has completed — in whatever order, possibly interleaved with
events for other awaitables — `waiter` has returned the structure with every awaitable replaced by its
result. -/
theorem waiter_any_schedule (w : W) (res : Nat → Val) (σ : List Nat) (h : ∀ i ∈ awaitables w, i ∈ σ) :
    (runEvents w (σ.map fun i => (i, res i))).result = some (resolve res w) := by
  rw [runEvents_eq, stateOf_done res _ _ w (Nat.le_refl _)]
  · rfl
  · intro i hi; simpa using h i hi

/-- **Schedule independence**, as stated: for every permutation `σ` of the awaitables. -/
theorem waiter_confluent (w : W) (res : Nat → Val) (σ : List Nat) (h : σ.Perm (awaitables w)) :
    (runEvents w (σ.map fun i => (i, res i))).result = some (resolve res w) :=
  waiter_any_schedule w res σ fun _ hi => h.symm.subset hi

/-- … and not before: while some awaitable is pending the caller is still suspended. -/
theorem waiter_suspended (w : W) (res : Nat → Val) (σ : List Nat) (h : ∃ i ∈ awaitables w, i ∉ σ) :
    (runEvents w (σ.map fun i => (i, res i))).result = none := by
  rw [runEvents_eq]
  apply stateOf_pending res _ _ w (Nat.le_refl _)
  obtain ⟨i, hi, hn⟩ := h
  exact ⟨i, hi, by simpa using hn⟩

/-- a structure without awaitables is returned as it is, immediately -/
theorem waiter_plain (w : W) (res : Nat → Val) (h : awaitables w = []) :
    (runEvents w []).result = some (resolve res w) := by
  have := waiter_any_schedule w res [] (by simp [h])
  simpa using this

/-- non-vacuity: a nested structure, three awaitables, completing in the order 2, 0, 1 -/
example :
    let w : W := .list [.aw 0, .val (.int 5), .dict [("k", .tuple [.aw 1, .aw 2])]]
    [2, 0, 1].Perm (awaitables w) ∧
    (runEvents w [(2, .cell (.int 12)), (0, .cell (.int 10))]).result = none ∧
    (runEvents w [(2, .cell (.int 12)), (0, .cell (.int 10)), (1, .cell (.int 11))]).result =
      some (.list [.cell (.int 10), .cell (.int 5),
        .dict [("k", .tuple [.cell (.int 11), .cell (.int 12)])]]) := by
  refine ⟨?_, by decide +kernel, by decide +kernel⟩
  show [2, 0, 1].Perm [0, 1, 2]
  exact (List.Perm.swap 0 2 [1]).trans (List.Perm.cons 0 (List.Perm.swap 1 2 []))

/-! ## MODEL EXTENSION — beyond the property text ("any nesting of lists, tuples and dicts")

`wrappedX T f` (PygModel/LiftX.lean) models `loops(types = T)._wrapped` with ALL its branches: dict subclasses
(class tag), Series, DataFrame (by column or, with `axis`, by row), 2-d ndarray (by its last axis), and the pandas /
numpy branches of the companion selection.  The property text does not speak of these: a disagreement of the real
code with the theorems below is a DIVERGENCE, not a violation — unless it is about plain lists / tuples / dicts,
where `liftx_refines` makes the extended model coincide with the model of the statement. -/

/-- **Refinement.** On plain values (lists, tuples, `dict`s, cells) the extended model, for ANY type set holding
list, tuple and dict (`loop(list, tuple, dict)`, `loops(types = (list, tuple, dict))`, `loop_all`), is the model
`wrapped` that the theorems of the statement are about. -/
theorem liftx_refines (T : LoopTypes) (f' : XLeafFn) (f : LeafFn) (hl : T.list = true) (ht : T.tuple = true)
    (hd : T.dicts.contains 0 = true) (hf : Extends f' f) (v : Val) (args : List Val) (kw : KW) :
    wrappedX T f' v.emb (Val.embList args) (Val.embKVs kw) = (wrapped f v args kw).map Val.emb :=
  wrappedX_embed_aux T f' f hl ht hd hf v args kw

/-- the three decorators of the library satisfy the hypotheses, and the recording functions of the two drivers are
related by `Extends` up to the record constructor (non-vacuity: the identity leaf) -/
example : Extends identX (fun a _ _ => .ok a) := by intro a args kw; simp [identX, Except.map]
example : LoopTypes.ltd.list = true ∧ LoopTypes.ltd.tuple = true ∧ LoopTypes.ltd.dicts.contains 0 = true ∧
    LoopTypes.ltdPlain.dicts.contains 0 = true ∧ LoopTypes.all.dicts.contains 0 = true := by decide

/-- `loops.wrapped` (first argument positional or by keyword) refines too -/
theorem liftx_call_refines (T : LoopTypes) (f' : XLeafFn) (f : LeafFn) (hl : T.list = true) (ht : T.tuple = true)
    (hd : T.dicts.contains 0 = true) (hf : Extends f' f) (top : String) (args : List Val) (kw : KW) :
    callLiftedX T f' top (Val.embList args) (Val.embKVs kw) = (callLifted f top args kw).map Val.emb := by
  have htop : ∀ (v : Val) (as : List Val) (k : KW),
      topX T f' v.emb (Val.embList as) (Val.embKVs k) = (wrapped f v as k).map Val.emb := by
    intro v as k
    have := wrappedX_embed_aux T f' f hl ht hd hf v as k
    cases v <;> simpa [topX, Val.emb] using this
  cases args with
  | cons a rest => simpa [callLiftedX, callLifted, Val.embList] using htop a rest kw
  | nil =>
    have hlk : (Val.embKVs kw).lookup top = (kw.lookup top).map Val.emb := by
      induction kw with
      | nil => simp [Val.embKVs]
      | cons p kw ih =>
        obtain ⟨k, v⟩ := p
        by_cases hk : top = k
        · subst hk; simp [Val.embKVs, List.lookup]
        · have : (top == k) = false := by simpa using hk
          simp [Val.embKVs, List.lookup, this, ih]
    have hfl : (Val.embKVs kw).filter (fun p => p.1 != top) = Val.embKVs (kw.filter fun p => p.1 != top) := by
      simp [embKVs_eq_map, List.filter_map, Function.comp_def]
    simp only [callLiftedX, callLifted, Val.embList, hlk]
    cases h : kw.lookup top with
    | none => simp [Except.map]
    | some v =>
      simp only [Option.map, hfl]
      have := htop v [] (kw.filter fun p => p.1 != top)
      simpa [Val.embList] using this

/-- **Compositionality of the extended model**: the result at any position `p` (a path through containers that
`T` loops over) is the lifted call on the sub-structure at `p` with the selected companions; `axis` is consumed by
the outermost level (`kwAt`). -/
theorem liftx_sub (T : LoopTypes) (f : XLeafFn) : ∀ (p : Path) (v : XVal) (args : List XVal) (kw : XKW) (r v' : XVal),
    wrappedX T f v args kw = .ok r → v.atT T p = some v' →
    ∃ r', r.atT T p = some r' ∧
      wrappedX T f v' (args.map (selectX T v p)) (mapXKW (selectX T v p) (kwAt p kw)) = .ok r'
  | [], v, args, kw, r, v', h, hp => by
      simp [XVal.atT] at hp
      subst hp
      refine ⟨r, by simp [XVal.atT], ?_⟩
      have : (selectX T v []) = fun c => c := by funext c; simp [selectX]
      rw [this, mapXKW_id, List.map_id']
      exact h
  | s :: p, v, args, kw, r, v', h, hp => by
      simp only [XVal.atT] at hp
      split at hp
      case h_2 => cases hp
      case h_1 c hc =>
      have hsel : ∀ g : XVal → XVal, (∀ x, g x = selStepX v s x) →
          (selectX T v (s :: p)) = (selectX T c p) ∘ g := by
        intro g hg; funext x; simp [selectX, hc, hg]
      have hkw : ∀ (g : XVal → XVal), mapXKW (selectX T c p) (kwAt p (mapXKW g (dropAxisX kw)))
          = mapXKW (selectX T c p) (mapXKW g (dropAxisX kw)) := by
        intro g
        cases p with
        | nil => rfl
        | cons _ _ => simp [kwAt, dropAxisX_mapXKW, dropAxisX_idem]
      cases v with
      | cell a => simp [XVal.childT] at hc
      | obj a => simp [XVal.childT] at hc
      | arr1 a => simp [XVal.childT] at hc
      | arr2 a b => simp [XVal.childT] at hc
      | ser a b => simp [XVal.childT] at hc
      | frame a b c => simp [XVal.childT] at hc
      | list xs =>
        cases s with
        | key k => simp [XVal.childT] at hc
        | idx i =>
          simp only [XVal.childT] at hc
          split at hc
          case isFalse => cases hc
          case isTrue hl =>
          rw [wrappedX] at h
          simp only [hl, if_true] at h
          split at h
          · cases h
          · rename_i ys hys
            cases h
            obtain ⟨_, hget⟩ := wrappedXSeq_get xs 0 args (dropAxisX kw) ys hys
            obtain ⟨y, hy1, hy2⟩ := hget i c hc
            obtain ⟨r', hr1, hr2⟩ := liftx_sub T f p c _ _ y v' hy2 hp
            refine ⟨r', by simp [XVal.atT, XVal.childT, hl, hy1, hr1], ?_⟩
            rw [hsel (itemByIX i xs.length) (by intro x; simp [selStepX])]
            rw [← mapXKW_mapXKW, ← List.map_map]
            rw [hkw] at hr2
            simpa [kwAt] using hr2
      | tuple xs =>
        cases s with
        | key k => simp [XVal.childT] at hc
        | idx i =>
          simp only [XVal.childT] at hc
          split at hc
          case isFalse => cases hc
          case isTrue hl =>
          rw [wrappedX] at h
          simp only [hl, if_true] at h
          split at h
          · cases h
          · rename_i ys hys
            cases h
            obtain ⟨_, hget⟩ := wrappedXSeq_get xs 0 args (dropAxisX kw) ys hys
            obtain ⟨y, hy1, hy2⟩ := hget i c hc
            obtain ⟨r', hr1, hr2⟩ := liftx_sub T f p c _ _ y v' hy2 hp
            refine ⟨r', by simp [XVal.atT, XVal.childT, hl, hy1, hr1], ?_⟩
            rw [hsel (itemByIX i xs.length) (by intro x; simp [selStepX])]
            rw [← mapXKW_mapXKW, ← List.map_map]
            rw [hkw] at hr2
            simpa [kwAt] using hr2
      | dict cls kvs =>
        cases s with
        | idx i => simp [XVal.childT] at hc
        | key k =>
          simp only [XVal.childT] at hc
          split at hc
          case isFalse => cases hc
          case isTrue hl =>
          rw [wrappedX] at h
          simp only [hl, if_true] at h
          split at h
          · cases h
          · rename_i ys hys
            cases h
            obtain ⟨_, hget⟩ := wrappedXKVs_lookup kvs args (dropAxisX kw) ys hys
            obtain ⟨y, hy1, hy2⟩ := hget k c hc
            obtain ⟨r', hr1, hr2⟩ := liftx_sub T f p c _ _ y v' hy2 hp
            have hl' : cls ∈ T.dicts := by simpa using hl
            refine ⟨r', by simp [XVal.atT, XVal.childT, hl', hy1, hr1], ?_⟩
            rw [hsel (itemByKeyX k (sortStr (xkeysOf kvs)) Option.none) (by intro x; simp [selStepX])]
            rw [← mapXKW_mapXKW, ← List.map_map]
            rw [hkw] at hr2
            simpa [kwAt] using hr2

/-- **Dict subclasses keep their class** (`type(arg)(res)`, _loop.py:211): wherever the argument holds a dict of a
class the decorator loops over — for the `loop` factory that is `dict`, `Dict`, `dictattr`, `OrderedDict` — the
result holds a dict of the SAME class with the same keys in the same order. -/
theorem lift_keeps_class (T : LoopTypes) (f : XLeafFn) (v : XVal) (args : List XVal) (kw : XKW) (r : XVal) (p : Path)
    (cls : Nat) (kvs : XKW) (h : wrappedX T f v args kw = .ok r) (hp : v.atT T p = some (.dict cls kvs))
    (hc : T.dicts.contains cls = true) :
    ∃ rs, r.atT T p = some (.dict cls rs) ∧ xkeysOf rs = xkeysOf kvs := by
  obtain ⟨r', h1, h2⟩ := liftx_sub T f p v args kw r _ h hp
  rw [wrappedX] at h2
  simp only [hc, if_true] at h2
  split at h2
  · cases h2
  · rename_i ys hys
    cases h2
    exact ⟨ys, h1, (wrappedXKVs_lookup kvs _ _ ys hys).1⟩

/-- … lists stay lists and tuples stay tuples, of the same length (the extended model keeps the shape clauses) … -/
theorem liftx_shape_seq (T : LoopTypes) (f : XLeafFn) (v : XVal) (args : List XVal) (kw : XKW) (r : XVal) (p : Path)
    (xs : List XVal) (h : wrappedX T f v args kw = .ok r) :
    (T.list = true → v.atT T p = some (.list xs) → ∃ ys, r.atT T p = some (.list ys) ∧ ys.length = xs.length) ∧
    (T.tuple = true → v.atT T p = some (.tuple xs) → ∃ ys, r.atT T p = some (.tuple ys) ∧ ys.length = xs.length) := by
  constructor
  · intro hl hp
    obtain ⟨r', h1, h2⟩ := liftx_sub T f p v args kw r _ h hp
    rw [wrappedX] at h2
    simp only [hl, if_true] at h2
    split at h2
    · cases h2
    · rename_i ys hys
      cases h2
      exact ⟨ys, h1, (wrappedXSeq_get xs 0 _ _ ys hys).1⟩
  · intro hl hp
    obtain ⟨r', h1, h2⟩ := liftx_sub T f p v args kw r _ h hp
    rw [wrappedX] at h2
    simp only [hl, if_true] at h2
    split at h2
    · cases h2
    · rename_i ys hys
      cases h2
      exact ⟨ys, h1, (wrappedXSeq_get xs 0 _ _ ys hys).1⟩

/-- **Leaves of the extended model**: a value the decorator does not loop over — in particular a dict of a class
that is not among the looped types (a user subclass, `defaultdict`; every subclass for `loops(types = (…, dict))`
used without the factory) — is handed to `f` WHOLE, with the selected companions. -/
theorem liftx_leaves (T : LoopTypes) (f : XLeafFn) (v : XVal) (args : List XVal) (kw : XKW) (r : XVal) (p : Path)
    (v' : XVal) (h : wrappedX T f v args kw = .ok r) (hp : v.atT T p = some v') (hleaf : v'.leafFor T = true) :
    ∃ y, f v' (args.map (selectX T v p)) (mapXKW (selectX T v p) (dropAxisX kw)) = .ok y ∧ r.atT T p = some y := by
  obtain ⟨r', h1, h2⟩ := liftx_sub T f p v args kw r _ h hp
  refine ⟨r', ?_, h1⟩
  have hk : dropAxisX (kwAt p kw) = dropAxisX kw := by
    cases p <;> simp [kwAt, dropAxisX_idem]
  cases v' <;> simp_all [wrappedX, XVal.leafFor, dropAxisX_mapXKW]

/-- the factory (`_dict.py:163-173`): `loop(list, tuple, dict)` loops over `Dict`, `dictattr` and `OrderedDict` too and
keeps their class; `loops(types = (list, tuple, dict))` and user subclasses: leaves -/
theorem loop_factory_classes :
    (∀ cls, LoopTypes.ltd.dicts.contains cls = true ↔ cls = 0 ∨ cls = 1 ∨ cls = 2 ∨ cls = 3) ∧
    (∀ cls, LoopTypes.ltdPlain.dicts.contains cls = true ↔ cls = 0) ∧
    LoopTypes.all.dicts = LoopTypes.ltd.dicts := by
  refine ⟨?_, ?_, rfl⟩
  · intro cls; simp [LoopTypes.ltd]; omega
  · intro cls; simp [LoopTypes.ltdPlain]

/-- non-vacuity of `lift_keeps_class` / `liftx_leaves`: `[Dict(b = 1, a = MyDict(x = 2))]` -/
example :
    let v : XVal := .list [.dict 1 [("b", .cell (.int 1)), ("a", .dict 4 [("x", .cell (.int 2))])]]
    v.atT .ltd [.idx 0] = some (.dict 1 [("b", .cell (.int 1)), ("a", .dict 4 [("x", .cell (.int 2))])]) ∧
      v.atT .ltd [.idx 0, .key "a"] = some (.dict 4 [("x", .cell (.int 2))]) ∧
      (XVal.dict 4 [("x", .cell (.int 2))]).leafFor .ltd = true ∧ v.atT .ltd [.idx 0, .key "a", .key "x"] = Option.none := by
  refine ⟨?_, ?_, ?_, ?_⟩ <;> rfl

/-! ### Series, DataFrame, ndarray as the looped argument -/

/-- **A Series that is not a timeseries is looped by label** (`loops.wrapped`, top level only): the result is a
Series with the same labels in the same order whose value at label `k` is the lifted call on the value at `k`, with
the companions selected BY KEY (`_item_by_key` without a position). -/
theorem liftx_series (T : LoopTypes) (f : XLeafFn) (top : String) (ks : List String) (xs args : List XVal) (kw : XKW)
    (r : XVal) (hT : T.series = true) (hwf : ks.length = xs.length)
    (h : callLiftedX T f top (.ser ks xs :: args) kw = .ok r) :
    ∃ ys, r = .ser ks ys ∧ ys.length = xs.length ∧ ∀ (j : Nat) (k : String) (x : XVal), ks[j]? = some k → xs[j]? = some x →
      ∃ y, ys[j]? = some y ∧
        wrappedX T f x (args.map (itemByKeyX k (sortStr ks) Option.none))
          (mapXKW (itemByKeyX k (sortStr ks) Option.none) kw) = .ok y := by
  simp only [callLiftedX, topX, hT, if_true] at h
  split at h
  · cases h
  · rename_i ys hys
    cases h
    obtain ⟨h1, h2⟩ := serCalls_get ks xs args kw ys hwf hys
    exact ⟨ys, rfl, h1, h2⟩

/-- below the top level (and when `pd.Series` is not among the types) a Series is a leaf -/
theorem liftx_series_leaf (T : LoopTypes) (f : XLeafFn) (ks : List String) (xs args : List XVal) (kw : XKW) :
    wrappedX T f (.ser ks xs) args kw = f (.ser ks xs) args (dropAxisX kw) := by
  simp [wrappedX]

/-- every leaf call returns an opaque object (the recording function does) -/
def OpaqueResults (f : XLeafFn) : Prop := ∀ a args kw y, f a args kw = .ok y → y.isObj = true

theorem all_isObj_of_get {ys : List XVal} (h : ∀ (j : Nat) (y : XVal), ys[j]? = some y → y.isObj = true) : ys.all XVal.isObj = true := by
  rw [List.all_eq_true]
  intro y hy
  obtain ⟨j, hj⟩ := List.getElem?_of_mem hy
  exact h j y hj

/-- **A DataFrame is looped by column** (`axis` absent or not 1 / -1): one leaf call per column, in column order,
on the column as a Series; companions selected by the column LABEL and its POSITION.  With a function that returns
opaque results the result is a Series labelled by the columns. -/
theorem liftx_frame_by_column (T : LoopTypes) (f : XLeafFn) (idx cols : List String) (rows : List (List Cell))
    (args : List XVal) (kw : XKW) (r : XVal) (hT : T.frame = true) (hax : axisIs1 kw = false) (hne : cols ≠ [])
    (hf : OpaqueResults f) (h : wrappedX T f (.frame idx cols rows) args kw = .ok r) :
    ∃ ys, r = .ser cols ys ∧ ys.length = cols.length ∧ ∀ (j : Nat) (c : String), cols[j]? = some c →
      ∃ y, ys[j]? = some y ∧
        f (frameCol idx rows j) (args.map (itemByKeyX c (sortStr cols) (some j)))
          (mapXKW (itemByKeyX c (sortStr cols) (some j)) (dropAxisX kw)) = .ok y := by
  simp only [wrappedX, hT, if_true, hax, loopFrame, Bool.false_eq_true, if_false] at h
  split at h
  · cases h
  · split at h
    · cases h
    · rename_i ys hys
      obtain ⟨h1, h2⟩ := frameCalls_get cols 0 args (dropAxisX kw) ys hys
      have hobj : ys.all XVal.isObj = true := by
        apply all_isObj_of_get
        intro j y hj
        have hlt : j < cols.length := by
          have := (List.getElem?_eq_some_iff.1 hj).1; omega
        obtain ⟨y', hy1, hy2⟩ := h2 j cols[j] (List.getElem?_eq_getElem hlt)
        rw [hj] at hy1; cases hy1
        exact hf _ _ _ _ hy2
      have hemp : ys.isEmpty = false := by
        cases ys with
        | nil => cases cols with
          | nil => exact absurd rfl hne
          | cons _ _ => simp at h1
        | cons _ _ => rfl
      simp only [toFrame, hemp, hobj, if_true] at h
      cases h
      refine ⟨ys, rfl, h1, ?_⟩
      intro j c hc
      obtain ⟨y, hy1, hy2⟩ := h2 j c hc
      exact ⟨y, hy1, by simpa [frameCol] using hy2⟩

/-- **… or by row** (`axis = 1` or `-1`): the frame AND every companion are transposed (`loops.T`), the rows are
looped like columns, and the result is labelled by the index. -/
theorem liftx_frame_by_row (T : LoopTypes) (f : XLeafFn) (idx cols : List String) (rows : List (List Cell))
    (args : List XVal) (kw : XKW) (r : XVal) (hT : T.frame = true) (hax : axisIs1 kw = true) (hne : idx ≠ [])
    (hf : OpaqueResults f) (h : wrappedX T f (.frame idx cols rows) args kw = .ok r) :
    ∃ ys, r = .ser idx ys ∧ ys.length = idx.length ∧ ∀ (j : Nat) (i : String), idx[j]? = some i →
      ∃ y, ys[j]? = some y ∧
        f (frameCol cols (transposeRows cols.length rows) j) ((args.map tX).map (itemByKeyX i (sortStr idx) (some j)))
          (mapXKW (itemByKeyX i (sortStr idx) (some j)) (mapXKW tX (dropAxisX kw))) = .ok y := by
  simp only [wrappedX, hT, if_true, hax, loopFrameT] at h
  split at h
  · cases h
  · rename_i r0 hr0
    cases h
    have hw : wrappedX T f (.frame cols idx (transposeRows cols.length rows)) (tXList args) (tXKVs (dropAxisX kw)) = .ok r0 := by
      simp only [wrappedX, hT, if_true]
      have : axisIs1 (tXKVs (dropAxisX kw)) = false := by
        rw [tXKVs_eq_map, ← dropAxisX_mapXKW]; exact axisIs1_dropAxisX _
      simp only [this]
      have e : dropAxisX (tXKVs (dropAxisX kw)) = tXKVs (dropAxisX kw) := by
        rw [tXKVs_eq_map, dropAxisX_mapXKW, dropAxisX_idem]
      rw [e]; exact hr0
    have hax0 : axisIs1 (tXKVs (dropAxisX kw)) = false := by
      rw [tXKVs_eq_map, ← dropAxisX_mapXKW]; exact axisIs1_dropAxisX _
    obtain ⟨ys, rfl, h1, h2⟩ := liftx_frame_by_column T f cols idx _ _ _ r0 hT hax0 hne hf hw
    refine ⟨ys, by simp [tX, relabel, h1], h1, ?_⟩
    intro j i hi
    obtain ⟨y, hy1, hy2⟩ := h2 j i hi
    refine ⟨y, hy1, ?_⟩
    rw [tXList_eq_map, tXKVs_eq_map, dropAxisX_mapXKW, dropAxisX_idem] at hy2
    exact hy2

/-- **A 2-d ndarray is looped by its last axis**: one leaf call per column, on the column as a 1-d array (for a
one-column array: on the squeezed column, see `itemByIX`), companions selected BY POSITION with `_item_by_i`; with
opaque results the result is a 1-d array of them.  A 1-d array is a leaf. -/
theorem liftx_array_by_column (T : LoopTypes) (f : XLeafFn) (nc : Nat) (rows : List (List Cell))
    (args : List XVal) (kw : XKW) (r : XVal) (hT : T.array = true) (hax : axisIs1 kw = false)
    (hf : OpaqueResults f) (h : wrappedX T f (.arr2 nc rows) args kw = .ok r) :
    ∃ ys, r = .arr1 ys ∧ ys.length = nc ∧ ∀ j, j < nc →
      ∃ y, ys[j]? = some y ∧
        f (itemByIX j nc (.arr2 nc rows)) (args.map (itemByIX j nc)) (mapXKW (itemByIX j nc) (dropAxisX kw)) = .ok y := by
  simp only [wrappedX, hT, if_true, hax, loopArr, Bool.false_eq_true, if_false] at h
  split at h
  · cases h
  · rename_i ys hys
    obtain ⟨h1, h2⟩ := arrCalls_get nc 0 args (dropAxisX kw) ys hys
    have hobj : ys.all XVal.isObj = true := by
      apply all_isObj_of_get
      intro j y hj
      have hlt : j < nc := by
        have := (List.getElem?_eq_some_iff.1 hj).1; omega
      obtain ⟨y', hy1, hy2⟩ := h2 j hlt
      rw [hj] at hy1; cases hy1
      exact hf _ _ _ _ hy2
    simp only [toArr, hobj, if_true] at h
    cases h
    refine ⟨ys, rfl, h1, ?_⟩
    intro j hj
    obtain ⟨y, hy1, hy2⟩ := h2 j hj
    exact ⟨y, hy1, by simpa using hy2⟩

theorem liftx_array_column (nc : Nat) (rows : List (List Cell)) (j : Nat) (h : nc ≠ 1) :
    itemByIX j nc (.arr2 nc rows) = .arr1 (colOf rows j) := by
  simp [itemByIX, h]

theorem liftx_array1_leaf (T : LoopTypes) (f : XLeafFn) (xs args : List XVal) (kw : XKW) :
    wrappedX T f (.arr1 xs) args kw = f (.arr1 xs) args (dropAxisX kw) := by
  simp [wrappedX]

/-- the recording function returns opaque results; non-vacuity of the three theorems above on a 2x2 frame -/
theorem recorderX_opaque : OpaqueResults recorderX := by
  intro a args kw y h
  simp only [recorderX] at h
  split at h
  · split at h
    · cases h
    · split at h
      · cases h
      · split at h
        · cases h
        · cases h; rfl
  · cases h; rfl

/-- the hypotheses of the three theorems are satisfiable (the recording function, `loop_all`, `axis = 1`); concrete
evaluations of the model are what the correspondence run compares with pandas / numpy -/
example : OpaqueResults recorderX ∧ axisIs1 [("axis", .cell (.int 1))] = true ∧ axisIs1 [("b", .cell (.int 1))] = false ∧
    LoopTypes.all.frame = true ∧ LoopTypes.all.array = true ∧ LoopTypes.all.series = true :=
  ⟨recorderX_opaque, rfl, rfl, rfl, rfl, rfl⟩

/-! ### companion selection: pandas / numpy companions of the looped length are INDEXED, not broadcast -/

/-- `_item_by_i`: a 1-d array or a (non-timeseries) Series of the looped length gives its `i`-th element, a 2-d
array / DataFrame with that many columns (and more than one) its `i`-th column — for a looped list or tuple just
as for a looped array … -/
theorem sel_by_position_indexed (i n : Nat) (xs : List XVal) (ks idx cols : List String) (nc : Nat)
    (rows : List (List Cell)) (hx : xs.length = n) (hnc : nc = n) (hcols : cols.length = n) (h1 : n ≠ 1) :
    itemByIX i n (.arr1 xs) = xgetIdx xs i ∧ itemByIX i n (.ser ks xs) = xgetIdx xs i ∧
    itemByIX i n (.arr2 nc rows) = .arr1 (colOf rows i) ∧
    itemByIX i n (.frame idx cols rows) = .ser idx (colOf rows i) := by
  subst hnc
  simp [itemByIX, hx, hcols, h1]

/-- … of any other length it is passed whole … -/
theorem sel_by_position_other (i n : Nat) (xs : List XVal) (ks idx cols : List String) (nc : Nat)
    (rows : List (List Cell)) (hx : xs.length ≠ n) (hnc : nc ≠ n) (hcols : cols.length ≠ n) (h1 : nc ≠ 1)
    (h2 : cols.length ≠ 1) :
    itemByIX i n (.arr1 xs) = .arr1 xs ∧ itemByIX i n (.ser ks xs) = .ser ks xs ∧
    itemByIX i n (.arr2 nc rows) = .arr2 nc rows ∧
    itemByIX i n (.frame idx cols rows) = .frame idx cols rows := by
  simp [itemByIX, hx, hnc, hcols, h1, h2]

/-- … except that a ONE-column DataFrame / 2-d array is squeezed first: with the looped number of rows it is
indexed by row, otherwise it arrives as its column (a Series / 1-d array — not the object that was passed). -/
theorem sel_by_position_squeezed (i n : Nat) (idx : List String) (c : String) (rows : List (List Cell)) :
    (rows.length = n → itemByIX i n (.frame idx [c] rows) = xgetIdx (colOf rows 0) i ∧
                        itemByIX i n (.arr2 1 rows) = xgetIdx (colOf rows 0) i) ∧
    (rows.length ≠ n → itemByIX i n (.frame idx [c] rows) = .ser idx (colOf rows 0) ∧
                        itemByIX i n (.arr2 1 rows) = .arr1 (colOf rows 0)) := by
  constructor <;> intro h <;> simp [itemByIX, h]

/-- `_item_by_key`: a Series with the looped labels is matched by label, a DataFrame with the looped labels as its
columns gives the column, as its index the row — in dict, Series and DataFrame loops alike … -/
theorem sel_by_key_labels (k : String) (keys ks idx cols : List String) (pos : Option Nat) (xs : List XVal)
    (rows : List (List Cell)) :
    (sortStr ks = keys → itemByKeyX k keys pos (.ser ks xs) = xgetIdx xs (ks.idxOf k)) ∧
    (sortStr cols = sortStr keys → itemByKeyX k keys pos (.frame idx cols rows) = .ser idx (colOf rows (cols.idxOf k))) ∧
    (sortStr cols ≠ sortStr keys → sortStr idx = sortStr keys →
      itemByKeyX k keys pos (.frame idx cols rows) = .ser cols (rowOf rows (idx.idxOf k))) := by
  refine ⟨?_, ?_, ?_⟩ <;> intro h <;> simp [itemByKeyX, h]

/-- … and ONLY the DataFrame loop hands the position on: there a list / tuple / 1-d array of the looped length is
indexed by position and a 2-d array with that many columns gives its column, whereas in a dict or Series loop
(`pos = none`) lists, tuples and arrays are passed whole whatever their length. -/
theorem sel_by_key_position (k : String) (keys : List String) (i : Nat) (xs : List XVal) (nc : Nat)
    (rows : List (List Cell)) (hx : xs.length = keys.length) (hnc : nc = keys.length) :
    itemByKeyX k keys (some i) (.list xs) = xgetIdx xs i ∧ itemByKeyX k keys (some i) (.tuple xs) = xgetIdx xs i ∧
    itemByKeyX k keys (some i) (.arr1 xs) = xgetIdx xs i ∧ itemByKeyX k keys (some i) (.arr2 nc rows) = .arr1 (colOf rows i) ∧
    itemByKeyX k keys Option.none (.list xs) = .list xs ∧ itemByKeyX k keys Option.none (.tuple xs) = .tuple xs ∧
    itemByKeyX k keys Option.none (.arr1 xs) = .arr1 xs ∧ itemByKeyX k keys Option.none (.arr2 nc rows) = .arr2 nc rows := by
  simp [itemByKeyX, hx, hnc]

/-- a Series / DataFrame of the looped LENGTH whose labels are not the looped ones makes the DataFrame loop raise
KeyError (`value[i]` with an integer on string labels), before any leaf call -/
theorem frame_loop_keyerror (T : LoopTypes) (f : XLeafFn) (idx cols : List String) (rows : List (List Cell))
    (c : XVal) (args : List XVal) (kw : XKW) (hT : T.frame = true) (hax : axisIs1 kw = false) (hne : cols ≠ [])
    (hc : keySelRaises (sortStr cols) c = true) :
    wrappedX T f (.frame idx cols rows) (c :: args) kw = .error .key := by
  have : cols.isEmpty = false := by cases cols <;> simp_all
  simp [wrappedX, hT, hax, loopFrame, this, hc]

example : keySelRaises (sortStr ["x", "y"]) (.ser ["p", "q"] [.cell (.int 1), .cell (.int 2)]) = true := by decide +kernel


/-! ### closed text helpers: `lower`, `upper`, `strip` (lifting model + leaf model, ASCII) -/

/-- the text helpers never raise (their leaf functions return every non-string as it is) … -/
theorem text_helper_total (g : String → String) (v : Val) (hv : v.KeysNodup) :
    ∃ r, wrapped (textLeaf g) v [] [] = .ok r := by
  rw [lift_total (textLeaf g) v hv [] []]
  intro p c _
  cases c <;> simp [textLeaf, mapKW, dropAxis]

/-- … return the same shape (`lift_shape_list / _tuple / _dict` apply as they stand) and map the leaves: a string
leaf becomes `g` of it, any other leaf is unchanged. -/
theorem text_helper_leaves (g : String → String) (v r : Val) (p : Path) (c : Cell)
    (h : wrapped (textLeaf g) v [] [] = .ok r) (hp : v.at p = some (.cell c)) :
    r.at p = some (match c with | .str s => .cell (.str (g s)) | c => .cell c) := by
  obtain ⟨y, hy, hr⟩ := lift_leaves (textLeaf g) v [] [] r p c h hp
  rw [hr]
  cases c <;> simp_all [textLeaf, mapKW, dropAxis]

/-- `pyg_base.lower / upper / strip` as closed models -/
theorem lib_lower_spec (v r : Val) (p : Path) (s : String) (h : libLower v = .ok r) (hp : v.at p = some (.cell (.str s))) :
    r.at p = some (.cell (.str (asciiLower s))) :=
  text_helper_leaves asciiLower v r p (.str s) h hp

theorem lib_upper_spec (v r : Val) (p : Path) (s : String) (h : libUpper v = .ok r) (hp : v.at p = some (.cell (.str s))) :
    r.at p = some (.cell (.str (asciiUpper s))) :=
  text_helper_leaves asciiUpper v r p (.str s) h hp

theorem lib_strip_spec (v r : Val) (p : Path) (s : String) (h : libStrip v = .ok r) (hp : v.at p = some (.cell (.str s))) :
    r.at p = some (.cell (.str (asciiStrip s))) :=
  text_helper_leaves asciiStrip v r p (.str s) h hp

/-- handing the leaf function of a text helper any further argument is python's TypeError -/
theorem text_helper_extra_argument (g : String → String) (a c : Val) (args : List Val) (kw : KW) :
    textLeaf g a (c :: args) kw = .error .type := by
  simp [textLeaf]

/-- `lower` / `upper` keep the length and act character by character -/
theorem lower_upper_chars (cs : List Char) (i : Nat) :
    (lowerChars cs).length = cs.length ∧ (upperChars cs).length = cs.length ∧
    (lowerChars cs)[i]? = cs[i]?.map lowerChar ∧ (upperChars cs)[i]? = cs[i]?.map upperChar := by
  simp [lowerChars, upperChars]

/-- `strip()`: the result is the text without a margin of white space on either side … -/
theorem strip_margins (cs : List Char) :
    ∃ a b, cs = a ++ stripChars cs ++ b ∧ (∀ c ∈ a, isPyWs c = true) ∧ (∀ c ∈ b, isPyWs c = true) := by
  refine ⟨cs.takeWhile isPyWs, (((cs.dropWhile isPyWs).reverse).takeWhile isPyWs).reverse, ?_, ?_, ?_⟩
  · have h1 := List.takeWhile_append_dropWhile (p := isPyWs) (l := cs)
    have h2 := List.takeWhile_append_dropWhile (p := isPyWs) (l := (cs.dropWhile isPyWs).reverse)
    have h3 : cs.dropWhile isPyWs = stripChars cs ++ (((cs.dropWhile isPyWs).reverse).takeWhile isPyWs).reverse := by
      simp only [stripChars]
      rw [← List.reverse_append, h2, List.reverse_reverse]
    rw [List.append_assoc, ← h3, h1]
  · intro c hc; exact List.all_eq_true.1 List.all_takeWhile c hc
  · intro c hc; exact List.all_eq_true.1 List.all_takeWhile c (List.mem_reverse.1 hc)

/-- … and neither its first nor its last character is white space (so the margins are maximal). -/
theorem strip_ends (cs : List Char) (c : Char) :
    ((stripChars cs).head? = some c → isPyWs c = false) ∧ ((stripChars cs).getLast? = some c → isPyWs c = false) := by
  constructor
  · intro h
    obtain ⟨a, b, hab, _, _⟩ := strip_margins cs
    have h3 : cs.dropWhile isPyWs = stripChars cs ++ (((cs.dropWhile isPyWs).reverse).takeWhile isPyWs).reverse := by
      have h2 := List.takeWhile_append_dropWhile (p := isPyWs) (l := (cs.dropWhile isPyWs).reverse)
      simp only [stripChars]
      rw [← List.reverse_append, h2, List.reverse_reverse]
    have hd : (cs.dropWhile isPyWs).head? = some c := by
      rw [h3]
      cases hs : stripChars cs with
      | nil => simp [hs] at h
      | cons x xs => simp [hs] at h ⊢; exact h
    have := List.head?_dropWhile_not isPyWs cs
    rw [hd] at this
    simpa using this
  · intro h
    have : ((cs.dropWhile isPyWs).reverse.dropWhile isPyWs).head? = some c := by
      simpa [stripChars, List.getLast?_reverse] using h
    have h2 := List.head?_dropWhile_not isPyWs (cs.dropWhile isPyWs).reverse
    rw [this] at h2
    simpa using h2

example : asciiLower "Hello World" = "hello world" ∧ asciiUpper "aBc-9" = "ABC-9" ∧ asciiStrip " \t pad \n" = "pad" ∧
    libLower (.list [.cell (.str "Ab"), .dict [("k", .tuple [.cell (.int 3), .cell (.str "X y")])]])
      = .ok (.list [.cell (.str "ab"), .dict [("k", .tuple [.cell (.int 3), .cell (.str "x y")])]]) := by
  decide +kernel


/-! ### failing awaitables (model extension: the statement speaks of results only)

`runEventsF` (PygModel/WaiterF.lean): an awaitable may end with a result or with an exception; `asyncio.gather`
propagates the first exception raised to the awaiting task at once. -/

/-- **The first failure wins, at once and for good.**  Let the awaitables complete in any order; as long as they
return results the caller stays suspended or gets the resolved structure, and the FIRST awaitable of the structure
that raises (`id`, exception `e`) makes `await waiter(...)` raise `e` at that moment — without waiting for the
awaitables still pending — and whatever happens afterwards (`post`: results, further failures) changes nothing. -/
theorem waiter_first_failure_wins (w : W) (pre post : List (Nat × Outcome)) (id e : Nat)
    (hid : id ∈ awaitables w) (hpre : ∀ ev ∈ pre, ev.1 ≠ id ∧ ∃ v, ev.2 = .ok v) :
    (runEventsF w (pre ++ (id, .error e) :: post)).outcome = some (.error e) := by
  obtain ⟨hc, hw⟩ := run_ok_invariant id pre (startF w) (startF_clean w) (startF_waits id w hid) hpre
  simp only [runEventsF, List.foldl_append, List.foldl_cons]
  rw [completeF_fail id e _ hc hw, fail_absorbing]
  rfl

/-- hence the outcome DEPENDS on the completion order when two awaitables fail: "whatever order the awaitables
complete in" does not extend to exceptions (`waiter([a0, a1])`, both failing: the caller sees the exception of
whichever failed first). -/
theorem waiter_failure_order_matters :
    (runEventsF (.list [.aw 0, .aw 1]) [(0, .error 7), (1, .error 8)]).outcome = some (.error 7) ∧
    (runEventsF (.list [.aw 0, .aw 1]) [(1, .error 8), (0, .error 7)]).outcome = some (.error 8) :=
  ⟨waiter_first_failure_wins _ [] [(1, .error 8)] 0 7 (by simp [awaitables, awaitablesList]) (by simp),
   waiter_first_failure_wins _ [] [(0, .error 7)] 1 8 (by simp [awaitables, awaitablesList]) (by simp)⟩

/-- non-vacuity with a non-empty prefix of results: `waiter({'k': (a1, 5), 'j': a2})`, `a2` returns, then `a1` raises -/
example : (runEventsF (.dict [("k", .tuple [.aw 1, .val (.int 5)]), ("j", .aw 2)])
    ([(2, .ok (.cell (.int 100)))] ++ (1, .error 9) :: [])).outcome = some (.error 9) :=
  waiter_first_failure_wins _ _ _ 1 9 (by simp [awaitables, awaitablesList, awaitablesKVs]) (by simp)


/-! ## round h6 (review s5): leaf against container, key SETS, sharper "everything else is broadcast", the keyword `axis` -/

/-- the commonest per-element use, which `Matches` did not cover before the `leaf` constructor: a flat list and a companion
list of the same length whose members are containers - each leaf receives its member WHOLE -/
example :
    let v : Val := .list [.cell (.int 1), .cell (.int 2)]
    let c : Val := .list [.list [.cell (.int 10), .cell (.int 20)], .list [.cell (.int 30), .cell (.int 40)]]
    Matches v c ∧ select v [.idx 0] c = .list [.cell (.int 10), .cell (.int 20)] ∧
    follow c [.idx 0] = .list [.cell (.int 10), .cell (.int 20)] := by
  refine ⟨?_, by decide +kernel, by decide +kernel⟩
  refine Matches.seq (xs := [.cell (.int 1), .cell (.int 2)])
    (cs := [.list [.cell (.int 10), .cell (.int 20)], .list [.cell (.int 30), .cell (.int 40)]]) rfl rfl rfl ?_
  intro i x y hx hy
  match i, hx, hy with
  | 0, hx, hy => simp at hx hy; subst hx; exact Matches.leaf _ _
  | 1, hx, hy => simp at hx hy; subst hx; exact Matches.leaf _ _
  | n + 2, hx, _ => simp at hx

/-- **"the same keys" is the same key SET, not the code's sorting**: the test the code makes on two key lists
(`sorted(value.keys()) == keys`) succeeds exactly when one is a permutation of the other - for python dicts (distinct keys)
exactly when they have the same keys in any order.  (`insertStr` commutes, `sortStr` is a permutation.) -/
theorem sortStr_eq_iff_perm (a b : List String) : sortStr a = sortStr b ↔ a.Perm b :=
  ⟨perm_of_sortStr_eq a b, sortStr_eq_of_perm⟩

/-- … so a companion dict is matched by key exactly when it has the keys of the looped dict: -/
theorem selStep_same_keys_perm (kvs cs : KW) (k : String) (h : (keysOf cs).Perm (keysOf kvs)) :
    selStep (.dict kvs) (.key k) (.dict cs) = getKey cs k :=
  selStep_same_keys kvs cs k (sortStr_eq_of_perm h)

/-- `Matches` for dicts, stated with the key sets -/
theorem Matches.dict_of_perm {kvs cs : KW} (h : (keysOf cs).Perm (keysOf kvs))
    (hm : ∀ (k : String) (x y : Val), kvs.lookup k = some x → cs.lookup k = some y → Matches x y) :
    Matches (.dict kvs) (.dict cs) :=
  Matches.dict (sortStr_eq_of_perm h) hm

/-- … and a companion dict with OTHER keys is not matched at this level (it is searched value by value: K3, or passed whole) -/
theorem selStep_other_keys (kvs cs : KW) (k : String) (h : ¬ (keysOf cs).Perm (keysOf kvs)) :
    selStep (.dict kvs) (.key k) (.dict cs) = .dict (itemByKeyKVs k (sortStr (keysOf kvs)) cs) := by
  have : sortStr (keysOf cs) ≠ sortStr (keysOf kvs) := fun e => h (perm_of_sortStr_eq _ _ e)
  simp [selStep, itemByKey, this]

/-- **Everything else is broadcast** (sequences), with the hypothesis the code needs and no more: `_item_by_i` descends
through lists and tuples only, so only sequences reachable from `c` through sequences matter - a list of the looped length
hidden inside a DICT of the companion does not prevent broadcasting (`rec([1,2], [{'k': [10,20]}, 5, 6])` passes the companion
whole).  `selStep_broadcast_seq` is the special case "no such sequence anywhere". -/
theorem selStep_broadcast_seq_sharp (xs : List Val) (i : Nat) (c : Val)
    (h : ∀ q cs, IdxPath q → (c.at q = some (.list cs) ∨ c.at q = some (.tuple cs)) → cs.length ≠ xs.length) :
    selStep (.list xs) (.idx i) c = c ∧ selStep (.tuple xs) (.idx i) c = c := by
  simp only [selStep]
  exact ⟨itemByI_no_match_seq i xs.length _ c (Nat.le_refl _) h, itemByI_no_match_seq i xs.length _ c (Nat.le_refl _) h⟩

example :
    let c : Val := .list [.dict [("k", .list [.cell (.int 10), .cell (.int 20)])], .cell (.int 5), .cell (.int 6)]
    selStep (.list [.cell (.int 1), .cell (.int 2)]) (.idx 0) c = c ∧
    c.at [.idx 0, .key "k"] = some (.list [.cell (.int 10), .cell (.int 20)]) := by decide +kernel

/-- **Everything else is broadcast** (dicts): only dicts reachable from `c` through dict VALUES matter (`_item_by_key` does not
look into lists or tuples) -/
theorem selStep_broadcast_dict_sharp (kvs : KW) (k : String) (c : Val) (hc : c.KeysNodup)
    (h : ∀ q cs, KeyPath q → c.at q = some (.dict cs) → ¬ (keysOf cs).Perm (keysOf kvs)) :
    selStep (.dict kvs) (.key k) c = c := by
  simp only [selStep]
  exact itemByKey_no_match_dict k _ _ c (Nat.le_refl _) hc
    (fun q cs hq hd e => h q cs hq hd (perm_of_sortStr_eq _ _ e))

example :
    let c : Val := .dict [("z", .list [.dict [("a", .cell (.int 5))]])]
    selStep (.dict [("a", .cell (.int 1))]) (.key "a") c = c := by decide +kernel

/-- `def g(a, axis='d'): return (a, axis)` as a `LeafFn` -/
def exAxis : LeafFn := fun a args kw =>
  match args, kw with
  | [], [] => .ok (.tuple [a, .cell (.str "d")])
  | [b], [] => .ok (.tuple [a, b])
  | [], [("axis", b)] => .ok (.tuple [a, b])
  | _, _ => .error .type

/-- **A keyword called `axis` never reaches the lifted function (finding K7): "whether passed positionally or by keyword" is
false of the code for that name.**  `g` binds its next positional parameter to the name `axis` (`BindsNext`), yet
`loop(list, tuple, dict)(g)([1, 2], 5)` gives every leaf the companion and `…([1, 2], axis=5)` gives every leaf the default:
`loops._wrapped` pops `axis` at every level (`dropAxis`), for every type set.  This is why `pos_kw_agree` excludes the name. -/
theorem axis_keyword_swallowed :
    ∃ (f : LeafFn) (v c : Val), BindsNext f 0 "axis" ∧ wrapped f v [c] [] ≠ wrapped f v [] [("axis", c)] ∧
      wrapped f v [c] [] = .ok (.list [.tuple [.cell (.int 1), c], .tuple [.cell (.int 2), c]]) ∧
      wrapped f v [] [("axis", c)] = wrapped f v [] [] := by
  refine ⟨exAxis, .list [.cell (.int 1), .cell (.int 2)], .cell (.int 5), ?_, by decide +kernel, by decide +kernel, by decide +kernel⟩
  intro x as kw c hl hk
  cases as with
  | cons _ _ => simp at hl
  | nil =>
    cases kw with
    | nil => simp [exAxis]
    | cons p kw =>
      obtain ⟨k, v⟩ := p
      have hkb : k ≠ "axis" := by intro e; apply hk; simp [keysOf, e]
      cases kw <;> simp [exAxis]

/-! ## round h6: clauses 4 + 5 once, through every level, with finding K3 as the exact complement -/

theorem levelMatch_seq_cases {n : Nat} {c : Val} (h : isSeqOfLen n c = true) :
    ∃ cs, (c = .list cs ∨ c = .tuple cs) ∧ cs.length = n := by
  cases c with
  | list cs => exact ⟨cs, Or.inl rfl, by simpa [isSeqOfLen] using h⟩
  | tuple cs => exact ⟨cs, Or.inr rfl, by simpa [isSeqOfLen] using h⟩
  | cell a => simp [isSeqOfLen] at h
  | dict kvs => simp [isSeqOfLen] at h

/-- sequences: one level of the code = one level of the statement unless the companion is of the K3 class -/
theorem itemByI_statement (n i : Nat) (hi : i < n) (c : Val) (h : isSeqOfLen n c = false → ¬ HoldsSeq n c) :
    itemByI i n c = if isSeqOfLen n c then (c.child (.idx i)).getD c else c := by
  cases hm : isSeqOfLen n c with
  | true =>
    obtain ⟨cs, hc, hl⟩ := levelMatch_seq_cases hm
    have hg : getIdx cs i = cs[i]'(by omega) := by simp [getIdx, List.getD, hl, hi]
    rcases hc with rfl | rfl <;> simp [itemByI, hl, hg, Val.child, hi]
  | false =>
    simp only [Bool.false_eq_true, ↓reduceIte]
    apply itemByI_no_match_seq i n _ c (Nat.le_refl _)
    intro q cs hq hat hlen
    exact h hm ⟨q, cs, hq, hat, hlen⟩

/-- **Clauses 4 + 5 at one level, with finding K3 as the exact complement.**  Descending into child `s` of `v`, the code hands
down `pickLevel v s c` - the member of a companion that is a sequence of the same length / a dict of the same keys, and otherwise
the companion WHOLE ("everything else is broadcast") - unless the companion is of the K3 class (`SearchedStep`: it does not
match the level but holds a matching container further inside, reachable through sequences resp. dict values) … -/
theorem selStep_statement (v v' : Val) (s : Step) (c : Val) (hv : v.child s = some v') (hc : c.KeysNodup)
    (h : ¬ SearchedStep v c) : selStep v s c = pickLevel v s c := by
  cases v with
  | cell a => simp [Val.child] at hv
  | list xs =>
    cases s with
    | key k => simp [Val.child] at hv
    | idx i =>
      have hi : i < xs.length := (List.getElem?_eq_some_iff.1 (by simpa [Val.child] using hv)).1
      simp only [selStep, pickLevel, levelMatch]
      exact itemByI_statement xs.length i hi c (fun hm hh => h ⟨by simpa [levelMatch] using hm, hh⟩)
  | tuple xs =>
    cases s with
    | key k => simp [Val.child] at hv
    | idx i =>
      have hi : i < xs.length := (List.getElem?_eq_some_iff.1 (by simpa [Val.child] using hv)).1
      simp only [selStep, pickLevel, levelMatch]
      exact itemByI_statement xs.length i hi c (fun hm hh => h ⟨by simpa [levelMatch] using hm, hh⟩)
  | dict kvs =>
    cases s with
    | idx i => simp [Val.child] at hv
    | key k =>
      have hk : kvs.lookup k = some v' := by simpa [Val.child] using hv
      simp only [selStep, pickLevel]
      cases hm : levelMatch (.dict kvs) c with
      | true =>
        cases c with
        | dict cs =>
          have hp : (keysOf cs).Perm (keysOf kvs) := by simpa [levelMatch] using hm
          have hmem : k ∈ keysOf cs := hp.symm.subset (mem_keys_of_lookup k v' kvs hk)
          obtain ⟨y, hy⟩ := lookup_isSome_of_mem_keys k cs hmem
          simp [itemByKey, sortStr_eq_of_perm hp, getKey, hy, Val.child]
        | cell a => simp [levelMatch] at hm
        | list cs => simp [levelMatch] at hm
        | tuple cs => simp [levelMatch] at hm
      | false =>
        simp only [Bool.false_eq_true, ↓reduceIte]
        apply itemByKey_no_match_dict k _ _ c (Nat.le_refl _) hc
        intro q cs hq hat e
        exact h ⟨hm, ⟨q, cs, hq, hat, perm_of_sortStr_eq _ _ e⟩⟩

/-- … and on the K3 class the code does NOT do what the statement says: it hands down something else than the whole companion -/
theorem selStep_searched (v v' : Val) (s : Step) (c : Val) (hv : v.child s = some v') (h : SearchedStep v c) :
    selStep v s c ≠ pickLevel v s c := by
  obtain ⟨hm, hh⟩ := h
  simp only [pickLevel, hm, Bool.false_eq_true, ↓reduceIte]
  cases v with
  | cell a => simp [Val.child] at hv
  | list xs =>
    cases s with
    | key k => simp [Val.child] at hv
    | idx i =>
      obtain ⟨q, cs, hq, hat, hl⟩ := hh
      exact itemByI_searched i xs.length q c cs hq hat hl
  | tuple xs =>
    cases s with
    | key k => simp [Val.child] at hv
    | idx i =>
      obtain ⟨q, cs, hq, hat, hl⟩ := hh
      exact itemByI_searched i xs.length q c cs hq hat hl
  | dict kvs =>
    cases s with
    | idx i => simp [Val.child] at hv
    | key k =>
      obtain ⟨q, cs, hq, hat, hp⟩ := hh
      exact itemByKey_searched k _ q c cs hq hat (sortStr_eq_of_perm hp)

/-- the boundary of finding K3, exactly -/
theorem selStep_eq_pickLevel_iff (v v' : Val) (s : Step) (c : Val) (hv : v.child s = some v') (hc : c.KeysNodup) :
    selStep v s c = pickLevel v s c ↔ ¬ SearchedStep v c :=
  ⟨fun e hs => selStep_searched v v' s c hv hs e, selStep_statement v v' s c hv hc⟩

theorem pickLevel_KeysNodup (v : Val) (s : Step) (c : Val) (hc : c.KeysNodup) : (pickLevel v s c).KeysNodup := by
  unfold pickLevel
  split
  · cases hch : c.child s with
    | none => simpa using hc
    | some c' => simpa using KeysNodup_child hc hch
  · exact hc

/-- **Clauses 4 + 5 through every level**: for ANY companion - scalar, same shape, deeper than `v`, shallower, of another shape -
the leaf of `v` at path `p` receives what the STATEMENT selects (`pickAlong`: at every level the member of a matching container,
else the whole), provided no level on the way is of the K3 class.  `select_matches`, `select_scalar` and the
`selStep_broadcast_*` theorems are special cases. -/
theorem select_statement : ∀ (p : Path) (v c : Val), c.KeysNodup → (v.at p).isSome → NotSearched v p c →
    select v p c = pickAlong v p c
  | [], v, c, _, _, _ => by simp [select, pickAlong]
  | s :: p, v, c, hc, hp, hn => by
      cases hv : v.child s with
      | none => simp [Val.at, hv] at hp
      | some v' =>
        have hp' : (v'.at p).isSome := by simpa [Val.at, hv] using hp
        simp only [NotSearched, hv] at hn
        rw [select_step v v' s p c hv, selStep_statement v v' s c hv hc hn.1]
        simp only [pickAlong, hv]
        exact select_statement p v' (pickLevel v s c) (pickLevel_KeysNodup v s c hc) hp' hn.2

/-- non-vacuity: a companion DEEPER than `v` (the leaf receives a dict), and one of another shape that hides a list of the looped
length inside a dict (not searched: passed whole) -/
example :
    let v : Val := .list [.list [.cell (.int 1), .cell (.int 2)], .list [.cell (.int 3), .cell (.int 4)]]
    let deeper : Val := .list [.list [.list [.cell (.int 10)], .dict [("k", .cell (.int 20))]], .cell (.int 30)]
    let other : Val := .list [.dict [("k", .list [.cell (.int 10), .cell (.int 20)])], .cell (.int 5), .cell (.int 6)]
    NotSearched v [.idx 0, .idx 1] deeper ∧ pickAlong v [.idx 0, .idx 1] deeper = .dict [("k", .cell (.int 20))] ∧
    NotSearched v [.idx 0, .idx 1] other ∧ pickAlong v [.idx 0, .idx 1] other = other := by
  intro v deeper other
  have hno : ¬ HoldsSeq 2 other := by
    rintro ⟨q, cs, hq, hat, hl⟩
    cases q with
    | nil =>
      rcases hat with hat | hat <;> simp [Val.at, other] at hat
      subst hat; simp at hl
    | cons s q =>
      obtain ⟨j, rfl⟩ := hq s (by simp)
      match j with
      | 0 =>
        cases q with
        | nil => rcases hat with hat | hat <;> simp [Val.at, Val.child, other] at hat
        | cons t q =>
          obtain ⟨j', rfl⟩ := hq t (by simp)
          rcases hat with hat | hat <;> simp [Val.at, Val.child, other] at hat
      | 1 =>
        cases q with
        | nil => rcases hat with hat | hat <;> simp [Val.at, Val.child, other] at hat
        | cons t q => rcases hat with hat | hat <;> simp [Val.at, Val.child, other] at hat
      | 2 =>
        cases q with
        | nil => rcases hat with hat | hat <;> simp [Val.at, Val.child, other] at hat
        | cons t q => rcases hat with hat | hat <;> simp [Val.at, Val.child, other] at hat
      | n + 3 => rcases hat with hat | hat <;> simp [Val.at, Val.child, other] at hat
  refine ⟨⟨fun h => ?_, ⟨fun h => ?_, trivial⟩⟩, by decide +kernel, ⟨fun h => hno h.2, ⟨fun h => ?_, trivial⟩⟩, by decide +kernel⟩
  · have := h.1; revert this; decide +kernel
  · have := h.1; revert this; decide +kernel
  · have h2 := h.2
    have : pickLevel v (.idx 0) other = other := by decide +kernel
    rw [this] at h2
    exact hno h2

/-! ## round k6: open items of the four reviews

### the multi-level converse of `select_statement` -/

/-- **Clauses 4 + 5 through every level, as an iff (the multi-level converse of `select_statement`).** -/
theorem select_statement_iff : ∀ (p : Path) (v c : Val), c.KeysNodup → (v.at p).isSome →
    ((∀ q, q <+: p → select v q c = pickAlong v q c) ↔ NotSearched v p c)
  | [], v, c, _, _ => by
      simp only [NotSearched, iff_true]
      intro q hq
      have : q = [] := List.prefix_nil.1 hq
      subst this; simp [select, pickAlong]
  | s :: p, v, c, hc, hp => by
      cases hv : v.child s with
      | none => simp [Val.at, hv] at hp
      | some v' =>
        have hp' : (v'.at p).isSome := by simpa [Val.at, hv] using hp
        have ih := select_statement_iff p v' (pickLevel v s c) (pickLevel_KeysNodup v s c hc) hp'
        simp only [NotSearched, hv]
        constructor
        · intro h
          have h1 : selStep v s c = pickLevel v s c := by
            have := h [s] (by simp)
            simpa [select, pickAlong, hv] using this
          refine ⟨(selStep_eq_pickLevel_iff v v' s c hv hc).1 h1, ih.1 ?_⟩
          intro q hq
          have := h (s :: q) (by simpa using hq)
          simpa [select, pickAlong, hv, h1] using this
        · rintro ⟨h1, h2⟩ q hq
          cases q with
          | nil => simp [select, pickAlong]
          | cons t q =>
            obtain ⟨rfl, hq'⟩ : t = s ∧ q <+: p := by simpa using hq
            have e1 := selStep_statement v v' t c hv hc h1
            simp only [select, pickAlong, hv, e1]
            exact ih.2 h2 q hq'

/-- the FIRST level of the K3 class on a path is where code and statement part -/
theorem select_searched_first : ∀ (p : Path) (s : Step) (v vp v' c : Val), c.KeysNodup → v.at p = some vp →
    vp.child s = some v' → NotSearched v p c → SearchedStep vp (pickAlong v p c) →
    select v (p ++ [s]) c ≠ pickAlong v (p ++ [s]) c
  | [], s, v, vp, v', c, _, hp, hs, _, hk => by
      have : vp = v := by simpa [Val.at] using hp.symm
      subst this
      simp only [List.nil_append, select, pickAlong, hs]
      exact selStep_searched vp v' s c hs (by simpa [pickAlong] using hk)
  | t :: p, s, v, vp, v', c, hc, hp, hs, hn, hk => by
      cases hv : v.child t with
      | none => simp [Val.at, hv] at hp
      | some v1 =>
        have hp1 : v1.at p = some vp := by simpa [Val.at, hv] using hp
        simp only [NotSearched, hv] at hn
        have e1 := selStep_statement v v1 t c hv hc hn.1
        simp only [List.cons_append, select, pickAlong, hv, e1]
        apply select_searched_first p s v1 vp v' (pickLevel v t c) (pickLevel_KeysNodup v t c hc) hp1 hs hn.2
        simpa [pickAlong, hv] using hk


/-- non-vacuity of `select_searched_first`: `rec([[1,2],3], [[[10,20],[30,40],[50,60]], 7])`.  The outer level matches (the
companion has the looped length 2) and hands `[[10,20],[30,40],[50,60]]` down to `[1,2]`; that level is of the K3 class (length 3,
not 2, but lists of length 2 inside): the leaf `2` receives `[20,40,60]`, the statement says the whole list -/
example :
    let v : Val := .list [.list [.cell (.int 1), .cell (.int 2)], .cell (.int 3)]
    let c : Val := .list [.list [.list [.cell (.int 10), .cell (.int 20)], .list [.cell (.int 30), .cell (.int 40)],
                                 .list [.cell (.int 50), .cell (.int 60)]], .cell (.int 7)]
    NotSearched v [.idx 0] c ∧ select v [.idx 0, .idx 1] c ≠ pickAlong v [.idx 0, .idx 1] c ∧
    select v [.idx 0, .idx 1] c = .list [.cell (.int 20), .cell (.int 40), .cell (.int 60)] ∧
    pickAlong v [.idx 0, .idx 1] c = .list [.list [.cell (.int 10), .cell (.int 20)], .list [.cell (.int 30), .cell (.int 40)],
                                 .list [.cell (.int 50), .cell (.int 60)]] := by
  intro v c
  refine ⟨⟨fun h => ?_, trivial⟩, by decide +kernel, by decide +kernel, by decide +kernel⟩
  have := h.1; revert this; decide +kernel

/-! ### `replace` / `split`: the companion clause for the public signatures -/

/-- the call the public `replace(text, old, new)` makes: `_replace(text, old = old, new = new)` (_txt.py:84-95), and
`split(text, sep, dedup)`: `_split(text, sep = sep, dedup = dedup)` (_txt.py:186-215) -/
def replaceCall (f : LeafFn) (text old new : Val) : Res Val := wrapped f text [] [("old", old), ("new", new)]
def splitCall (f : LeafFn) (text sep dedup : Val) : Res Val := wrapped f text [] [("sep", sep), ("dedup", dedup)]

theorem two_keyword_companions (f : LeafFn) (k1 k2 : String) (h1 : k1 ≠ "axis") (h2 : k2 ≠ "axis")
    (v c d r : Val) (p : Path) (a : Cell)
    (h : wrapped f v [] [(k1, c), (k2, d)] = .ok r) (hp : v.at p = some (.cell a)) :
    ∃ y, f (.cell a) [] [(k1, select v p c), (k2, select v p d)] = .ok y ∧ r.at p = some y := by
  obtain ⟨y, hy, hr⟩ := lift_leaves f v [] [(k1, c), (k2, d)] r p a h hp
  refine ⟨y, ?_, hr⟩
  have hd : dropAxis [(k1, c), (k2, d)] = [(k1, c), (k2, d)] := by simp [dropAxis, h1, h2]
  simpa [hd, mapKW] using hy

/-- **`replace` / `split`: the companion clause for the two public signatures.**  For ANY leaf function, any nested text
structure and any `old` / `new` (`sep` / `dedup`): the leaf at path `p` is the leaf function applied to the text leaf with the
keywords `old` / `new` (`sep` / `dedup`) holding what the STATEMENT selects for that position (`pickAlong`: the member of a
matching container at every level, else the whole) - provided no level is of the K3 class. -/
theorem replace_companions (f : LeafFn) (text old new r : Val) (p : Path) (a : Cell)
    (ho : old.KeysNodup) (hn : new.KeysNodup)
    (h : replaceCall f text old new = .ok r) (hp : text.at p = some (.cell a))
    (so : NotSearched text p old) (sn : NotSearched text p new) :
    ∃ y, f (.cell a) [] [("old", pickAlong text p old), ("new", pickAlong text p new)] = .ok y ∧ r.at p = some y := by
  have hp' : (text.at p).isSome := by simp [hp]
  rw [← select_statement p text old ho hp' so, ← select_statement p text new hn hp' sn]
  exact two_keyword_companions f "old" "new" (by decide) (by decide) text old new r p a h hp

theorem split_companions (f : LeafFn) (text sep dedup r : Val) (p : Path) (a : Cell)
    (hs : sep.KeysNodup) (hd : dedup.KeysNodup)
    (h : splitCall f text sep dedup = .ok r) (hp : text.at p = some (.cell a))
    (ss : NotSearched text p sep) (sd : NotSearched text p dedup) :
    ∃ y, f (.cell a) [] [("sep", pickAlong text p sep), ("dedup", pickAlong text p dedup)] = .ok y ∧ r.at p = some y := by
  have hp' : (text.at p).isSome := by simp [hp]
  rw [← select_statement p text sep hs hp' ss, ← select_statement p text dedup hd hp' sd]
  exact two_keyword_companions f "sep" "dedup" (by decide) (by decide) text sep dedup r p a h hp

/-- the instance the docstring of `replace` contradicts: `n` texts and a list of `n` strings to replace are PAIRED (text `i` has
only `olds[i]` removed), while a list of another length is applied whole to every text -/
theorem replace_pairs_elementwise (f : LeafFn) (xs cs : List Val) (new : Cell) (r : Val) (i : Nat) (a : Cell)
    (hl : cs.length = xs.length) (hx : xs[i]? = some (.cell a))
    (h : replaceCall f (.list xs) (.list cs) (.cell new) = .ok r) :
    ∃ y, f (.cell a) [] [("old", getIdx cs i), ("new", .cell new)] = .ok y ∧ r.at [.idx i] = some y := by
  have hp : (Val.list xs).at [.idx i] = some (.cell a) := by simp [Val.at, Val.child, hx]
  obtain ⟨y, hy, hr⟩ := two_keyword_companions f "old" "new" (by decide) (by decide) _ _ _ r _ a h hp
  refine ⟨y, ?_, hr⟩
  have e1 : select (.list xs) [.idx i] (.list cs) = getIdx cs i := by
    simp [select, Val.child, hx, (selStep_same_length xs cs i hl).1]
  have e2 : select (.list xs) [.idx i] (.cell new) = .cell new := by
    simp [select, Val.child, hx, selStep, itemByI]
  simpa [e1, e2] using hy

example : replaceCall recorderPure (.list [.cell (.str "a-b"), .cell (.str "c-d")])
      (.list [.cell (.str "a"), .cell (.str "d")]) (.cell (.str "")) =
    .ok (.list [.tuple [.cell (.str "a-b"), .tuple [], .dict [("old", .cell (.str "a")), ("new", .cell (.str ""))]],
                .tuple [.cell (.str "c-d"), .tuple [], .dict [("old", .cell (.str "d")), ("new", .cell (.str ""))]]]) := by
  decide +kernel


/-! ### the waiter extension without failure events IS the model of the statement -/

/-- **`WaiterF` refines `Waiter`.**  Run on result events only, the extended task machine (failing awaitables, `TaskF`) is in
the state of the machine of the statement, embedded (`Task.toF`) - for every structure and every sequence of events, complete
or not, in any order, with repetitions.  So `waiter_first_failure_wins` and the `waiter_*` theorems speak about ONE machine. -/
theorem waiterF_without_failures (w : W) (evs : List (Nat × Val)) :
    runEventsF w (evs.map fun e => (e.1, (Except.ok e.2 : Outcome))) = (runEvents w evs).toF := by
  simp only [runEventsF, runEvents, startF_toF]
  exact foldF_toF evs _

/-- … hence what the caller sees is the same -/
theorem waiterF_outcome_without_failures (w : W) (evs : List (Nat × Val)) :
    (runEventsF w (evs.map fun e => (e.1, (Except.ok e.2 : Outcome)))).outcome = (runEvents w evs).result.map Except.ok := by
  rw [waiterF_without_failures]
  cases runEvents w evs <;> simp [Task.toF, TaskF.outcome, Task.result]

/-- … and schedule independence holds of the extended machine as long as nothing fails -/
theorem waiterF_confluent (w : W) (res : Nat → Val) (σ : List Nat) (h : σ.Perm (awaitables w)) :
    (runEventsF w (σ.map fun i => (i, (Except.ok (res i) : Outcome)))).outcome = some (.ok (resolve res w)) := by
  have := waiterF_outcome_without_failures w (σ.map fun i => (i, res i))
  simp only [List.map_map] at this
  rw [waiter_confluent w res σ h] at this
  simpa [Function.comp_def] using this


/-! ### the waiter with a LOG-BASED gather (PygModel/WaiterLog.lean): "positional" is a lemma, not the construction -/

/-- **`asyncio.gather` returns its children's results positionally** - proved of a gather node that only keeps a log of
completions in ARRIVAL order `(child index, result)`: for any log that is a permutation of the children's completion records
(any arrival order), once all children are done the log holds one record per child and the results read off it are the
children's results in the order of the children. -/
theorem gather_positional (children : List TaskL) (vs : List Val) (log : List (Nat × Val))
    (hall : allRet (TaskL.toTaskList children) = some vs) (hp : log.Perm (doneLog 0 children)) :
    log.length = children.length ∧ logResults children.length log = vs :=
  logResults_positional children vs log hall hp

example : logResults 3 [(2, .cell (.int 30)), (0, .cell (.int 10)), (1, .cell (.int 20))] =
    [.cell (.int 10), .cell (.int 20), .cell (.int 30)] := by decide +kernel

/-- **The log machine refines the slot machine**: for every structure and every sequence of completion events (any order,
incomplete, with repetitions), forgetting the logs of the log-based task tree gives the task tree of `PygModel.Waiter` - so what
the awaiting caller sees is the same, and `waiter_order_irrelevant`, `waiter_any_schedule`, `waiter_confluent`,
`waiter_suspended` are theorems about the log-based machine too. -/
theorem waiterL_refines (w : W) (evs : List (Nat × Val)) : (runEventsL w evs).toTask = runEvents w evs := by
  obtain ⟨h1, h2⟩ := startL_refines w
  have := (foldL_refines evs (startL w) h2).1
  simpa [runEventsL, runEvents, h1] using this

theorem waiterL_result (w : W) (evs : List (Nat × Val)) : (runEventsL w evs).result = (runEvents w evs).result := by
  rw [← waiterL_refines, toTask_result]

/-- schedule independence of the log-based machine: every completion order gives the resolved structure … -/
theorem waiterL_confluent (w : W) (res : Nat → Val) (σ : List Nat) (h : σ.Perm (awaitables w)) :
    (runEventsL w (σ.map fun i => (i, res i))).result = some (resolve res w) := by
  rw [waiterL_result]; exact waiter_confluent w res σ h

/-- … and not before the last awaitable is done -/
theorem waiterL_suspended (w : W) (res : Nat → Val) (σ : List Nat) (h : ∃ i ∈ awaitables w, i ∉ σ) :
    (runEventsL w (σ.map fun i => (i, res i))).result = none := by
  rw [waiterL_result]; exact waiter_suspended w res σ h


/-! ### `liftx_refines` for the recording function of the extended driver -/

/-- **Refinement up to the leaf results.**  `liftx_refines` wants a leaf function that returns, on plain arguments, exactly the
embedded result of the plain one (`Extends`; instantiated for the identity).  The recording function of the `liftx` driver
returns an opaque record OBJECT where the plain recorder returns a tuple, so they are related only up to a map `g` of the
results that goes through lists, tuples and dicts: then the extended model, mapped, is the model of the statement. -/
theorem liftx_refines_upto (g : XVal → XVal) (hg : ThroughContainers g) (T : LoopTypes) (f' : XLeafFn) (f : LeafFn)
    (hl : T.list = true) (ht : T.tuple = true) (hd : T.dicts.contains 0 = true) (hf : ExtendsUpTo g f' f)
    (v : Val) (args : List Val) (kw : KW) :
    (wrappedX T f' v.emb (Val.embList args) (Val.embKVs kw)).map g = (wrapped f v args kw).map Val.emb :=
  wrappedX_embed_upto g hg T f' f hl ht hd hf v args kw

/-- … and the two recording functions ARE so related (`XVal.unobj` reads a record object as the tuple of its fields and leaves
plain values alone): what the `liftx` lines compare on plain lists / tuples / dicts is what the `lift call` lines compare. -/
theorem liftx_refines_recorder (T : LoopTypes) (hl : T.list = true) (ht : T.tuple = true) (hd : T.dicts.contains 0 = true)
    (v : Val) (args : List Val) (kw : KW) :
    (wrappedX T recorderX v.emb (Val.embList args) (Val.embKVs kw)).map XVal.unobj =
      (wrapped recorder v args kw).map Val.emb :=
  liftx_refines_upto XVal.unobj unobj_through T recorderX recorder hl ht hd recorderX_extends v args kw


/-! ### `split` as a closed model (one-character separator) -/

/-- **`text.split(sep)`, characterised**: the words are exactly the way to write the text as separator-free words joined by the
separator (`sep.join(text.split(sep)) == text`, no word holds the separator - and there is no other such list) -/
theorem split_iff (sep : Char) (cs w : List Char) (ws : List (List Char)) :
    splitChars sep cs = w :: ws ↔ sep ∉ w ∧ (∀ x ∈ ws, sep ∉ x) ∧ joinChars sep w ws = cs := by
  constructor
  · intro h
    simp only [splitChars, List.cons.injEq] at h
    obtain ⟨rfl, rfl⟩ := h
    exact ⟨(splitAux_no_sep sep cs).1, (splitAux_no_sep sep cs).2, splitAux_join sep cs⟩
  · rintro ⟨h1, h2, h3⟩
    simp [splitChars, splitAux_unique sep cs w ws h1 h2 h3]

/-- one word more than there are separators in the text -/
theorem split_count (sep : Char) (cs : List Char) : (splitChars sep cs).length = cs.count sep + 1 := by
  simp [splitChars, splitAux_length]

example : splitChars ',' "a,,b".toList = ["a".toList, [], "b".toList] ∧ splitChars ',' [] = [[]] := by decide

/-- **`pyg_base.split` on nested text (closed model: lifting + leaf)**: the text leaf at `p` is replaced by the list of its words,
without the empty ones when `dedup` -/
theorem lib_split_spec (v r : Val) (c : Char) (dedup : Bool) (p : Path) (t : String)
    (h : libSplit v (String.singleton c) dedup = .ok r) (hp : v.at p = some (.cell (.str t))) :
    r.at p = some (.list ((if dedup then (splitChars c t.toList).filter (fun w => !w.isEmpty) else splitChars c t.toList).map
      fun w => .cell (.str (String.ofList w)))) := by
  obtain ⟨y, hy, hr⟩ := two_keyword_companions splitLeaf "sep" "dedup" (by decide) (by decide) v _ _ r p (.str t) h hp
  rw [hr]
  simp only [select_scalar] at hy
  have hs : (String.singleton c).toList = [c] := String.toList_singleton c
  simp only [splitLeaf, hs] at hy
  cases hy
  rfl


/-! ### `replace` of one character as a closed model -/

/-- **`text.replace(old, new)` through an independent reading**: it is `new.join(text.split(old))` - the text cut at every `old`,
the pieces glued with `new` … -/
theorem replace_eq_join_split (old : Char) (new cs : List Char) :
    ∃ w ws, splitChars old cs = w :: ws ∧ replaceChars old new cs = joinStr new w ws :=
  ⟨_, _, rfl, replaceChars_eq_join_split old new cs⟩

/-- … the result holds no `old` (which is why the `while` loop of `_replace` stops after one round), and a text without `old`
is returned as it is -/
theorem replace_removes_old (old : Char) (new cs : List Char) (hn : old ∉ new) : old ∉ replaceChars old new cs :=
  replaceChars_no_old old new hn cs

theorem replace_absent (old : Char) (new cs : List Char) (h : old ∉ cs) : replaceChars old new cs = cs :=
  replaceChars_absent old new cs h

example : replaceChars ',' "--".toList "a,,b".toList = "a----b".toList := by decide

/-- **`pyg_base.replace` on nested text (closed model: lifting + leaf)**, `old` one character, `new` a string that does not hold
it: the text leaf at `p` has every `old` replaced; when `new` holds `old` the call raises ValueError as soon as there is a text
leaf (`lib_replace_raises`) -/
theorem lib_replace_spec (v r : Val) (c : Char) (n : String) (p : Path) (t : String) (hn : n.toList.contains c = false)
    (h : libReplace v (String.singleton c) (.cell (.str n)) = .ok r) (hp : v.at p = some (.cell (.str t))) :
    r.at p = some (.cell (.str (String.ofList (replaceChars c n.toList t.toList)))) := by
  obtain ⟨y, hy, hr⟩ := two_keyword_companions replaceLeaf "old" "new" (by decide) (by decide) v _ _ r p (.str t) h hp
  rw [hr]
  simp only [select_scalar] at hy
  have hs : (String.singleton c).toList = [c] := String.toList_singleton c
  simp only [replaceLeaf, hs, hn, Bool.false_eq_true, if_false] at hy
  cases hy
  rfl

/-- `new = None` removes the character -/
theorem lib_replace_none_spec (v r : Val) (c : Char) (p : Path) (t : String)
    (h : libReplace v (String.singleton c) (.cell .none) = .ok r) (hp : v.at p = some (.cell (.str t))) :
    r.at p = some (.cell (.str (String.ofList (replaceChars c [] t.toList)))) := by
  obtain ⟨y, hy, hr⟩ := two_keyword_companions replaceLeaf "old" "new" (by decide) (by decide) v _ _ r p (.str t) h hp
  rw [hr]
  simp only [select_scalar] at hy
  have hs : (String.singleton c).toList = [c] := String.toList_singleton c
  simp only [replaceLeaf, hs, List.contains_nil, Bool.false_eq_true, if_false] at hy
  cases hy
  rfl

/-- "cannot replace indefinitely": with a text leaf anywhere and `new` holding `old` the call does not return -/
theorem lib_replace_raises (v : Val) (c : Char) (n : String) (p : Path) (t : String) (hn : n.toList.contains c = true)
    (hp : v.at p = some (.cell (.str t))) : ∀ r, libReplace v (String.singleton c) (.cell (.str n)) ≠ .ok r := by
  intro r h
  obtain ⟨y, hy, _⟩ := two_keyword_companions replaceLeaf "old" "new" (by decide) (by decide) v _ _ r p (.str t) h hp
  simp only [select_scalar] at hy
  have hs : (String.singleton c).toList = [c] := String.toList_singleton c
  have hm : c ∈ n.toList := by simpa using hn
  simp [replaceLeaf, hs, hm] at hy

end Pyg.Props.C19
