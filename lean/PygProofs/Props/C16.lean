/-
  C16 — ulist, dictattr and Dict implement ordered set / key algebra without side effects.
  Property theorems only (helper lemmas: PygProofs/Lemmas/USetLemmas.lean, DictCallLemmas.lean).
  The models are pure functions, so "the operand is unchanged" holds by construction in the model;
  on the implementation it is observed by snapshots (see harness/pv/props/c16.py).
-/
import PygModel.USet
import PygModel.DictCall
import PygProofs.Lemmas.USetLemmas
import PygProofs.Lemmas.DictCallLemmas
import PygProofs.Lemmas.DictCallOrder
import PygProofs.Lemmas.DAHeapLemmas
import PygModel.DictAdd
import PygProofs.Lemmas.TreeMerge
import PygModel.DADotted

namespace Pyg.Props.C16
open Pyg Pyg.USet Pyg.DA Pyg.DictCall

section ulist
variable {α : Type} [DecidableEq α]

/-- the constructor keeps exactly the elements, each once, in first-occurrence order -/
theorem ulist_mk (xs : List α) :
    (mk xs).Nodup ∧ (∀ a, a ∈ mk xs ↔ a ∈ xs) ∧ (mk xs).Sublist xs :=
  ⟨mk_nodup xs, fun a => mem_mk a xs, mk_sublist xs⟩

/-- first-occurrence order, compositional form: elements of a prefix come first -/
theorem ulist_first_occurrence (xs ys : List α) :
    mk (xs ++ ys) = mk xs ++ (mk ys).filter (· ∉ xs) := mk_append xs ys

theorem ulist_mk_of_nodup (xs : List α) (h : xs.Nodup) : mk xs = xs := mk_of_nodup xs h

omit [DecidableEq α] in
private theorem getD_nodup (heap : List (List α)) (inv : ∀ u ∈ heap, u.Nodup) (h : Nat) :
    (heap.getD h []).Nodup := by
  rw [List.getD_eq_getElem?_getD]
  cases e : heap[h]? with
  | none => simp
  | some u => exact inv u (List.mem_of_getElem? e)

/-- invariant over ANY history of operations (including the trusted `unique=True` fast path used by
`copy`, `u + x` for a present `x` and `u & x`, and the inherited IN-PLACE list operations `append extend += insert
u[i] = x *=`): no handle ever holds a duplicate -/
theorem ulist_nodup (ops : List (Op α)) : ∀ u ∈ run ops, u.Nodup := by
  suffices h : ∀ (ops : List (Op α)) (heap : List (List α)), (∀ u ∈ heap, u.Nodup) →
      ∀ u ∈ ops.foldl step heap, u.Nodup from h ops [] (by simp)
  intro ops
  induction ops with
  | nil => intro heap inv; simpa using inv
  | cons op ops ih =>
    intro heap inv
    simp only [List.foldl_cons]
    apply ih
    have g := getD_nodup heap inv
    have hin : ∀ (h : Nat) (op : Op α), ∀ u ∈ stepIn heap h op, u.Nodup := by
      intro h op u hu
      unfold stepIn at hu
      cases hh : heap[h]? with
      | none => simp only [hh] at hu; exact inv u hu
      | some w =>
        simp only [hh] at hu
        cases hi : inplace w op with
        | none => simp only [hi] at hu; exact inv u hu
        | some w' =>
          simp only [hi] at hu
          rcases List.mem_or_eq_of_mem_set hu with hu | rfl
          · exact inv u hu
          · cases op <;> simp only [inplace, Option.some.injEq, reduceCtorEq] at hi <;>
              first
                | (subst hi; exact mk_nodup _)
                | (split at hi <;> first | (cases hi; exact mk_nodup _) | cases hi)
    intro u hu
    cases op
    case append h x => exact hin h (.append h x) u hu
    case extend h xs => exact hin h (.extend h xs) u hu
    case iadd h xs => exact hin h (.iadd h xs) u hu
    case insert h i x => exact hin h (.insert h i x) u hu
    case setI h i x => exact hin h (.setI h i x) u hu
    case imul h n => exact hin h (.imul h n) u hu
    all_goals
      simp only [step, List.mem_append, List.mem_singleton] at hu
      rcases hu with hu | rfl <;> first
        | exact inv u hu
        | exact mk_nodup _
        | exact g _
        | (unfold addElem; split <;> first | exact g _ | exact mk_nodup _)
        | (unfold andElem; split <;> first | (simp [mkTrusted]) | exact mk_nodup _)
        | (unfold subElem; split <;> first | exact g _ | exact mk_nodup _)

/-- what the in-place operations leave in their target: the plain list operation followed by the constructor's
first-occurrence rule — `u.append(x)` / `u += xs` / `u.extend(xs)` are the ordered union (as `u + x`), `u *= n` keeps `u`
(`n ≥ 1`) or empties it -/
theorem ulist_inplace (u xs : List α) (x : α) (n : Nat) (hu : u.Nodup) :
    inplace u (.append 0 x) = some (addList u [x]) ∧ inplace u (.extend 0 xs) = some (addList u xs) ∧
    inplace u (.iadd 0 xs) = some (addList u xs) ∧ inplace u (.imul 0 (n + 1)) = some u ∧
    inplace u (.imul 0 0) = some [] := by
  refine ⟨rfl, rfl, rfl, ?_, rfl⟩
  simp only [inplace, Option.some.injEq]
  induction n with
  | zero => simp [repeatN, mk_of_nodup u hu]
  | succ n ih =>
    have : repeatN u (n + 1 + 1) = u ++ repeatN u (n + 1) := rfl
    rw [this, mk_append, ih, mk_of_nodup u hu]
    simp

/-- earlier handles are never changed by a later operation, except the target of an in-place operation (the frame
property the harness re-checks on the real objects after every operation) -/
theorem ulist_frame (heap : List (List α)) (op : Op α) (i : Nat) (hi : i < heap.length)
    (ht : op.target ≠ some i) : (step heap op)[i]? = heap[i]? := by
  have hin : ∀ (h : Nat) (op : Op α), h ≠ i → (stepIn heap h op)[i]? = heap[i]? := by
    intro h op hne
    unfold stepIn
    cases heap[h]? with
    | none => rfl
    | some w =>
      dsimp only
      cases inplace w op with
      | none => rfl
      | some w' => exact List.getElem?_set_ne hne
  cases op
  case append h x => exact hin h (.append h x) (fun e => ht (by simp [Op.target, e]))
  case extend h xs => exact hin h (.extend h xs) (fun e => ht (by simp [Op.target, e]))
  case iadd h xs => exact hin h (.iadd h xs) (fun e => ht (by simp [Op.target, e]))
  case insert h j x => exact hin h (.insert h j x) (fun e => ht (by simp [Op.target, e]))
  case setI h j x => exact hin h (.setI h j x) (fun e => ht (by simp [Op.target, e]))
  case imul h n => exact hin h (.imul h n) (fun e => ht (by simp [Op.target, e]))
  all_goals simp [step, List.getElem?_append_left hi]

/-- `u + xs` / `u | xs` is the ordered union -/
theorem ulist_union (u xs : List α) (hu : u.Nodup) :
    addList u xs = u ++ (mk xs).filter (· ∉ u) := by
  rw [addList, mk_append, mk_of_nodup u hu]

/-- `u - xs` is the ordered difference, `u & xs` the ordered intersection -/
theorem ulist_diff (u xs : List α) (hu : u.Nodup) : subList u xs = u.filter (· ∉ xs) :=
  mk_of_nodup _ (hu.sublist List.filter_sublist)

theorem ulist_inter (u xs : List α) (hu : u.Nodup) : andList u xs = u.filter (· ∈ xs) :=
  mk_of_nodup _ (hu.sublist List.filter_sublist)

private theorem filter_singleton (u : List α) (x : α) (hu : u.Nodup) (h : x ∈ u) :
    u.filter (· ∈ [x]) = [x] := by
  induction u with
  | nil => simp at h
  | cons y ys ih =>
    rw [List.nodup_cons] at hu
    by_cases e : y = x
    · subst e
      have : ys.filter (· ∈ [y]) = [] := by
        rw [List.filter_eq_nil_iff]; intro a ha
        simp only [List.mem_singleton, decide_eq_true_eq]
        rintro rfl; exact hu.1 ha
      rw [List.filter_cons_of_pos (by simp), this]
    · have hx : x ∈ ys := by
        rcases List.mem_cons.1 h with h | h
        · exact absurd h.symm e
        · exact h
      rw [List.filter_cons_of_neg (by simpa using e)]
      exact ih hu.2 hx

/-- a single element behaves as the one-element list -/
theorem ulist_elem (u : List α) (x : α) (hu : u.Nodup) :
    addElem u x = addList u [x] ∧ subElem u x = subList u [x] ∧ andElem u x = andList u [x] := by
  refine ⟨?_, ?_, ?_⟩
  · rw [ulist_union u [x] hu]
    simp only [addElem, copy, mkTrusted]
    split
    · rename_i h; simp [mk, h]
    · rename_i h; rw [mk_append, mk_of_nodup u hu]
  · rw [ulist_diff u [x] hu]
    simp only [subElem, copy, mkTrusted]
    split
    · rename_i h
      symm; rw [List.filter_eq_self]
      intro a ha; simp only [List.mem_singleton, decide_eq_true_eq]; rintro rfl; exact h ha
    · exact mk_of_nodup _ (hu.sublist List.filter_sublist)
  · rw [ulist_inter u [x] hu]
    simp only [andElem, mkTrusted]
    split
    · rename_i h; exact (filter_singleton u x hu h).symm
    · rename_i h
      symm; simp only [mk]; rw [List.filter_eq_nil_iff]
      intro a ha; simp only [List.mem_singleton, decide_eq_true_eq]; rintro rfl; exact h ha

end ulist

section dictattr
variable {V : Type}

/-- every operation returns a mapping of the receiver's class -/
theorem class_preserved (d : D V) (k : String) (ks : List String) (o : List (String × V))
    (m : List (String × String)) :
    (subKey d k).cls = d.cls ∧ (subKeys d ks).cls = d.cls ∧ (andKeys d ks).cls = d.cls ∧
    (add d o).cls = d.cls ∧ (relabel d m).cls = d.cls ∧
    (∀ r, getList d ks = .ok r → r.cls = d.cls) := by
  refine ⟨rfl, ?_, rfl, rfl, rfl, ?_⟩
  · induction ks generalizing d with
    | nil => rfl
    | cons j js ih => simp only [subKeys, List.foldl_cons] at ih ⊢; rw [ih (subKey d j)]; rfl
  · intro r h
    simp only [getList, bind, Except.bind] at h
    split at h
    · cases h
    · cases h; rfl

/-- `d - key` -/
theorem sub_key (d : D V) (j : String) :
    keys (subKey d j) = (keys d).filter (· ≠ j) ∧
    ∀ k, lookup k (subKey d j).items = if k = j then none else lookup k d.items := by
  constructor
  · simp only [keys, subKey, List.filter_map]; rfl
  · intro k; exact lookup_filter_ne k j d.items

/-- `d - keys`: exactly the other keys, in order, values untouched (`(d - k).keys() == d.keys() - k`) -/
theorem sub_keys (d : D V) (ks : List String) :
    keys (subKeys d ks) = (keys d).filter (· ∉ ks) ∧
    ∀ k, lookup k (subKeys d ks).items = if k ∈ ks then none else lookup k d.items := by
  induction ks generalizing d with
  | nil =>
    refine ⟨?_, fun k => by simp [subKeys]⟩
    simp only [subKeys, List.foldl_nil, List.not_mem_nil, not_false_eq_true, decide_true]
    exact (List.filter_eq_self.2 fun _ _ => rfl).symm
  | cons j js ih =>
    have e : subKeys d (j :: js) = subKeys (subKey d j) js := rfl
    rw [e]
    obtain ⟨h1, h2⟩ := ih (subKey d j)
    constructor
    · rw [h1, (sub_key d j).1, List.filter_filter]
      apply List.filter_congr
      intro a _
      simp only [List.mem_cons, not_or, ne_eq, decide_not, Bool.decide_and, Bool.and_comm]
    · intro k
      rw [h2 k, (sub_key d j).2 k]
      simp only [List.mem_cons]
      by_cases hk : k = j <;> by_cases hm : k ∈ js <;> simp [hk, hm]

/-- `d & keys`: exactly the listed keys that are present, in the order of `d`, values untouched -/
theorem and_keys (d : D V) (ks : List String) (hd : (keys d).Nodup) :
    keys (andKeys d ks) = (keys d).filter (· ∈ ks) ∧
    ∀ k, lookup k (andKeys d ks).items = if k ∈ ks then lookup k d.items else none := by
  have hm : (d.items.filter (·.1 ∈ ks)).map (·.1) = (keys d).filter (· ∈ ks) := by
    simp only [keys, List.filter_map]; rfl
  have hn : ((d.items.filter (·.1 ∈ ks)).map (·.1)).Nodup := by
    rw [hm]; exact hd.sublist List.filter_sublist
  have e : (andKeys d ks).items = d.items.filter (·.1 ∈ ks) := setAll_nil_of_nodup _ hn
  constructor
  · simp only [keys, e]; exact hm
  · intro k; rw [e]; exact lookup_filter_mem k ks d.items

/-- `d + other` / `d | other` is `{**d, **other}`: the (last) value of `other` wins, everything else
of `d` is kept -/
theorem add_lookup (d : D V) (o : List (String × V)) (k : String) :
    lookup k (add d o).items = (lookup k o.reverse <|> lookup k d.items) :=
  lookup_setAll k o d.items

theorem add_keys (d : D V) (o : List (String × V)) (k : String) :
    k ∈ keys (add d o) ↔ k ∈ keys d ∨ k ∈ o.map (·.1) := by
  simp only [keys, ← lookup_isSome_iff, add_lookup]
  have : (lookup k o.reverse).isSome = true ↔ (lookup k o).isSome = true := by
    rw [lookup_isSome_iff, lookup_isSome_iff]; simp
  cases h1 : lookup k o.reverse <;> cases h2 : lookup k o <;> simp_all

/-- `d[k1, k2, …]` is the list of those values, `KeyError` as soon as one key is absent -/
theorem getitem_tuple (d : D V) (ks : List String) :
    (∀ vs, getTuple d ks = .ok vs ↔ ks.map (fun k => lookup k d.items) = vs.map some) ∧
    (getTuple d ks = .error .key ↔ ∃ k ∈ ks, lookup k d.items = none) := by
  induction ks with
  | nil =>
    constructor
    · intro vs; cases vs <;> simp [getTuple, pure, Except.pure]
    · simp [getTuple, pure, Except.pure]
  | cons k ks ih =>
    have e : getTuple d (k :: ks) = (match lookup k d.items with
        | some v => (getTuple d ks).map (v :: ·)
        | none => .error .key) := by
      simp only [getTuple, List.mapM_cons, bind, Except.bind]
      cases lookup k d.items with
      | none => rfl
      | some v =>
        simp only [pure, Except.pure, Except.map]
    rw [e]
    cases hk : lookup k d.items with
    | none =>
      constructor
      · intro vs; cases vs <;> simp [hk]
      · simp [hk]
    | some v =>
      simp only [List.map_cons, hk, List.mem_cons, exists_eq_or_imp]
      cases hr : getTuple d ks with
      | error e' =>
        have h2 := ih.2
        rw [hr] at h2
        constructor
        · intro vs
          simp only [Except.map, reduceCtorEq, false_iff]
          intro hv
          cases vs with
          | nil => simp at hv
          | cons w ws =>
            simp only [List.map_cons, List.cons.injEq] at hv
            have := (ih.1 ws).2 hv.2
            rw [hr] at this; cases this
        · simp only [Except.map, reduceCtorEq, false_or]
          exact h2
      | ok ws =>
        have h1 := ih.1
        have h2 := ih.2
        rw [hr] at h1 h2
        constructor
        · intro vs
          simp only [Except.map, Except.ok.injEq]
          constructor
          · rintro rfl; simp [(h1 ws).1 rfl]
          · intro hv
            cases vs with
            | nil => simp at hv
            | cons w us =>
              simp only [List.map_cons, List.cons.injEq, Option.some.injEq] at hv
              have := (h1 us).2 hv.2
              simp only [Except.ok.injEq] at this
              rw [hv.1, this]
        · simp only [Except.map, reduceCtorEq, false_or, false_iff]
          simpa using h2

/-- `d[[k1, k2, …]]`: a mapping with exactly the listed keys and the values of `d` -/
theorem getitem_list (d : D V) (ks : List String) (r : D V) (h : getList d ks = .ok r) (k : String) :
    lookup k r.items = if k ∈ ks then lookup k d.items else none := by
  simp only [getList, bind, Except.bind] at h
  split at h
  · cases h
  · rename_i vs hvs
    cases h
    simp only [lookup_setAll, lookup]
    -- vs pairs every listed key with its value in d
    have key : ∀ (ks : List String) (vs : List (String × V)),
        (ks.mapM fun k => match lookup k d.items with
          | some v => (pure (k, v) : Res (String × V))
          | none => throw Err.key) = .ok vs →
        ∀ k, lookup k vs.reverse = if k ∈ ks then lookup k d.items else none := by
      intro ks
      induction ks with
      | nil => intro vs h k; simp [pure, Except.pure] at h; subst h; simp [lookup]
      | cons j js ih =>
        intro vs h k
        simp only [List.mapM_cons, bind, Except.bind] at h
        cases hj : lookup j d.items with
        | none => simp [hj, throw, throwThe, MonadExceptOf.throw] at h
        | some v =>
          simp only [hj, pure, Except.pure] at h
          split at h
          · cases h
          · rename_i ws hws
            cases h
            have := ih ws hws k
            have happ : ∀ (xs ys : List (String × V)), lookup k (xs ++ ys) = (lookup k xs <|> lookup k ys) := by
              intro xs ys
              induction xs with
              | nil => simp [lookup]
              | cons x xs ih => obtain ⟨l, w⟩ := x; simp only [List.cons_append, lookup]; split <;> simp [ih]
            rw [List.reverse_cons, happ, this]
            simp only [lookup, List.mem_cons]
            by_cases hkj : k = j
            · subst hkj; by_cases hm : k ∈ js <;> simp [hm, hj]
            · by_cases hm : k ∈ js <;> simp [hm, hkj]
    rw [key ks vs hvs k]
    cases (if k ∈ ks then lookup k d.items else none) <;> rfl

/-- `relabel` with new names that do not collide: same values under the new keys, in the same order -/
theorem relabel_keys (d : D V) (m : List (String × String))
    (hn : ((keys d).map fun k => (lookup k m).getD k).Nodup) :
    (relabel d m).items = d.items.map fun kv => ((lookup kv.1 m).getD kv.1, kv.2) := by
  apply setAll_nil_of_nodup
  simpa [keys, List.map_map, Function.comp_def] using hn

/-- `relabel` for ANY relabelling, collisions included (review t2: `relabel_keys` needs distinct new names, nothing was stated
otherwise): stated through the observation `lookup` - under a name `k'` the result holds the value of the LAST item of `d` whose
key is renamed to `k'` (python's dict construction: the later assignment wins), and nothing under a name no key is renamed to.
With a collision a value of `d` is therefore lost (`relabel_collision_loses`): the property's "exactly the expected keys and
untouched values" can only be read for collision-free relabellings, which is `relabel_keys`. -/
theorem relabel_lookup (d : D V) (m : List (String × String)) (k' : String) :
    lookup k' (relabel d m).items =
      lookup k' (d.items.map fun kv => ((lookup kv.1 m).getD kv.1, kv.2)).reverse := by
  simp only [relabel, lookup_setAll]
  cases lookup k' (d.items.map fun kv => ((lookup kv.1 m).getD kv.1, kv.2)).reverse <;> rfl

/-- ... and the keys of the result are exactly the new names -/
theorem relabel_mem_keys (d : D V) (m : List (String × String)) (k' : String) :
    k' ∈ keys (relabel d m) ↔ ∃ k ∈ keys d, (lookup k m).getD k = k' := by
  have h1 : k' ∈ keys (relabel d m) ↔ (lookup k' (relabel d m).items).isSome = true := by
    rw [lookup_isSome_iff]; rfl
  rw [h1, relabel_lookup, lookup_isSome_iff]
  simp only [keys, List.map_reverse, List.mem_reverse, List.map_map, List.mem_map, Function.comp_def]
  constructor
  · rintro ⟨kv, hkv, rfl⟩; exact ⟨kv.1, ⟨kv, hkv, rfl⟩, rfl⟩
  · rintro ⟨k, ⟨kv, hkv, rfl⟩, rfl⟩; exact ⟨kv, hkv, rfl⟩

/-- witness: relabelling `a` onto the existing key `b` loses `a`'s value - `dictattr(a=1, b=2).relabel(a='b') == {'b': 2}` -/
theorem relabel_collision_loses :
    (relabel (⟨2, [("a", (1 : Nat)), ("b", 2)]⟩ : D Nat) [("a", "b")]).items = [("b", 2)] := by decide

/-- `(d - ks).keys() == d.keys() - ks`, composed: the key list of the difference is the ulist difference of the key list -/
theorem sub_keys_ulist (d : D V) (ks : List String) (hd : (keys d).Nodup) :
    keys (subKeys d ks) = USet.subList (keys d) ks := by
  rw [(sub_keys d ks).1, ulist_diff _ _ hd]

/-- likewise `(d & ks).keys() == d.keys() & ks` -/
theorem and_keys_ulist (d : D V) (ks : List String) (hd : (keys d).Nodup) :
    keys (andKeys d ks) = USet.andList (keys d) ks := by
  rw [(and_keys d ks hd).1, ulist_inter _ _ hd]

/-- `d + other` for a receiver that is neither `Dict` nor a subclass of `Dict` (`isDictLike`: they inherit `Dict.__add__` =
`tree_update`; review s2 F1: `class D2(Dict)` merges, so the earlier hypothesis `d.cls ≠ 1` claimed too much) — dictattr
proper and its other subclasses — is `{**d, **other}` for ALL value types: also dict values are simply replaced -/
theorem add_class (d : D V) [TreeAdd V] (o : List (String × V)) (hc : isDictLike d.cls = false) : addC d o = .ok (add d o) := by
  simp [addC, hc, pure, Except.pure]

/-- the class tags of the harness: plain dict (0), `dictattr` (2), a bare subclass of `dictattr` (3) -/
theorem add_class_tags (d : D V) [TreeAdd V] (o : List (String × V)) (hc : d.cls = 0 ∨ d.cls = 2 ∨ d.cls = 3) :
    addC d o = .ok (add d o) :=
  add_class d o (by rcases hc with h | h | h <;> simp [isDictLike, h])

end dictattr

section dictadd
open Pyg.Tree

private theorem itemsKVs_flat : ∀ (o : List (String × Val)), (∀ kv ∈ o, ∀ s, kv.2 ≠ .dict s) →
    itemsKVs o = o.map fun kv => ([kv.1], kv.2)
  | [], _ => rfl
  | (k, v) :: o, h => by
      have hv : ∀ s, v ≠ .dict s := h (k, v) (by simp)
      simp only [itemsKVs, items_leaf v hv, List.map_cons, List.map_nil, List.singleton_append]
      rw [itemsKVs_flat o fun kv hm => h kv (by simp [hm])]

private theorem foldl_setKVs_keys_nodup (ig : List Val) : ∀ (its : List (Path × Val)) (a : List (String × Val)),
    (a.map (·.1)).Nodup → ((its.foldl (fun acc pv => setKVs acc pv.1 pv.2 ig) a).map (·.1)).Nodup
  | [], a, h => h
  | pv :: its, a, h => by
      simp only [List.foldl_cons]
      apply foldl_setKVs_keys_nodup ig its
      obtain ⟨p, v⟩ := pv
      cases p with
      | nil => simpa [setKVs] using h
      | cons k rest =>
        cases rest with
        | nil =>
          simp only [setKVs]
          split
          · exact h
          · exact set_keys_nodup k v a h
        | cons k2 r2 => simp only [setKVs]; exact set_keys_nodup k _ a h

private theorem wfKVs_lookup : ∀ (o : List (String × Val)), wfKVs o = true → ∀ k v, lookup k o = some v → wf v = true
  | [], _, _, _, h => by simp [lookup] at h
  | (l, w) :: o, hw, k, v, h => by
      simp only [wfKVs, Bool.and_eq_true] at hw
      simp only [lookup] at h
      split at h
      · cases h; exact hw.1
      · exact wfKVs_lookup o hw.2 k v h

/-- `Dict.__add__` keeps the keys of its result distinct (what the heap invariant `da_keys_nodup` needs) -/
instance : LawfulTreeAdd Val where
  keys_nodup a b r ha h := by
    simp only [TreeAdd.treeAdd, itemsToTree] at h
    split at h
    · cases h
    · split at h
      · cases h
      · cases h; exact foldl_setKVs_keys_nodup [] _ a ha

/-- THE C16 LAW FOR `Dict`: when no value of `other` is a dict (`other` a python dict: distinct keys), `Dict + other`
is `{**d, **other}` like for every other class — whatever `d` holds (a dict value of `d` is then replaced as a whole). -/
theorem dict_add_flat (d : D Val) (o : List (String × Val)) (ho : ∀ kv ∈ o, ∀ s, kv.2 ≠ .dict s)
    (hn : (o.map (·.1)).Nodup) : addC d o = .ok (add d o) := by
  by_cases hc : isDictLike d.cls = true
  · have hp : ((o.map fun kv => (([kv.1] : Path), kv.2)).map (·.1)).Nodup := by
      rw [List.map_map]
      have : ((fun x : Path × Val => x.1) ∘ fun kv : String × Val => ([kv.1], kv.2)) = fun kv => [kv.1] := rfl
      rw [this]
      have h := List.Pairwise.map (S := fun (a b : Path) => a ≠ b) (fun k : String => [k])
        (fun a b (e : a ≠ b) h => e (by simpa using h)) hn
      simpa [List.Nodup, List.map_map, Function.comp_def] using h
    have he : (o.map fun kv => (([kv.1] : Path), kv.2)).any (·.1.isEmpty) = false := by
      rw [List.any_eq_false]; intro x hx
      obtain ⟨kv, _, rfl⟩ := List.mem_map.1 hx
      simp
    simp only [addC, hc, if_true, TreeAdd.treeAdd, itemsToTree, items, itemsKVs_flat o ho, hp, not_true_eq_false,
      if_false, he, Bool.false_eq_true, foldl_setKVs_flat, pure, Except.pure, Except.map, add]
  · exact add_class d o (by simpa using hc)

/-- ... and with dict values `Dict + other` is C15's recursive merge (`other` with distinct keys and no empty branch at
any depth): `Tree.mergeKVs`, characterised key by key by `C15.merge_lookup` / `mergeAt_leaf` / `mergeAt_branch` — a dict
under the same key on both sides is merged, not replaced, so `d + o == {**d, **o}` does NOT hold there (see the examples
below); the property text of C15 governs this case. -/
theorem dict_add_is_merge (d : D Val) (o : List (String × Val)) (hc : d.cls = 1)
    (hw : wf (.dict o) = true) (hn : noEmpty (.dict o) = true) :
    addC d o = .ok ⟨1, mergeKVs [] d.items o⟩ := by
  have h1 : isDictLike d.cls = true := by simp [isDictLike, hc]
  obtain ⟨c, its⟩ := d
  simp only at hc; subst hc
  simp only [addC, h1, if_true, TreeAdd.treeAdd, itemsToTree_items [] its o hw hn, Except.map]

/-- the same for `Dict` AND every subclass of `Dict` (`class D2(Dict)` inherits `__add__`): the result keeps the receiver's
class and is the recursive merge -/
theorem dictlike_add_is_merge (d : D Val) (o : List (String × Val)) (hc : isDictLike d.cls = true)
    (hw : wf (.dict o) = true) (hn : noEmpty (.dict o) = true) :
    addC d o = .ok ⟨d.cls, mergeKVs [] d.items o⟩ := by
  simp only [addC, hc, if_true, TreeAdd.treeAdd, itemsToTree_items [] d.items o hw hn, Except.map]

/-- key by key: `Dict + other` differs from `{**d, **other}` only under keys that hold a dict on BOTH sides (there the
dicts are merged) — a leaf of `other`, or a dict of `other` over a leaf / a missing key of `d`, is taken as it is -/
theorem dict_add_lookup (d : D Val) (o : List (String × Val)) (hc : d.cls = 1)
    (hw : wf (.dict o) = true) (hn : noEmpty (.dict o) = true) (k : String) :
    ∃ r, addC d o = .ok r ∧ r.cls = 1 ∧
      lookup k r.items = match lookup k o, lookup k d.items with
        | some (.dict b), some (.dict a) => some (.dict (mergeKVs [] a b))
        | some v, _ => some v
        | none, x => x := by
  refine ⟨_, dict_add_is_merge d o hc hw hn, rfl, ?_⟩
  have hnd : (o.map (·.1)).Nodup := by
    simp only [wf, Bool.and_eq_true, decide_eq_true_eq] at hw; exact hw.1
  have hwk : wfKVs o = true := by
    simp only [wf, Bool.and_eq_true, decide_eq_true_eq] at hw; exact hw.2
  -- the merge, key by key (the C15 lemma `merge_lookup`, restated here because it lives in Props/C15)
  have ml : ∀ (b a : List (String × Val)), (b.map (·.1)).Nodup →
      lookup k (mergeKVs [] a b) = match lookup k b with
        | some v => some (mergeAt [] k a v)
        | none => lookup k a := by
    intro b
    induction b with
    | nil => intro a _; simp [mergeKVs, lookup]
    | cons kv b ih =>
      intro a hn
      obtain ⟨k', v⟩ := kv
      simp only [List.map_cons, List.nodup_cons] at hn
      rw [mergeKVs_cons, ih _ hn.2]
      by_cases e : k = k'
      · subst e
        simp [lookup, lookup_eq_none k b hn.1, lookup_set]
      · simp only [lookup, if_neg e]
        cases lookup k b with
        | none => simp [lookup_set, e]
        | some w => simp [mergeAt, lookup_set, e]
  rw [ml o d.items hnd]
  cases hl : lookup k o with
  | none => rfl
  | some v =>
    have hvw : wf v = true := wfKVs_lookup o hwk k v hl
    simp only [mergeAt]
    cases hd : lookup k d.items with
    | none => simp [mergeNew_self [] v hvw]
    | some old =>
      cases v with
      | dict b =>
        cases old with
        | dict a => simp [merge]
        | _ =>
          have hb : (b.map (·.1)).Nodup ∧ wfKVs b = true := by simpa [wf] using hvw
          simp only [merge]; rw [mergeKVs_fresh [] b hb.2 [] (by simpa using hb.1)]; simp
      | _ => cases old <;> simp [merge]

end dictadd

section dictcall
open Pyg.DictCall
variable {V : Type}

/-- a circular definition raises `ValueError`: if no pending callable is free of pending arguments
(and at least two are pending) the call fails at once … -/
theorem call_no_independent_raises (d consts : Env V) (cs : List (String × Fn V)) (h2 : 2 ≤ cs.length)
    (h : ∀ c ∈ cs, independent (cs.map (·.1)) c = false) : call d consts cs = .error .value := by
  unfold call
  obtain ⟨n, hn⟩ : ∃ n, cs.length = n + 1 := ⟨cs.length - 1, by omega⟩
  rw [hn]
  have hnle : ¬ cs.length ≤ 1 := by omega
  have hemp : cs.filter (independent (cs.map (·.1))) = [] := by
    rw [List.filter_eq_nil_iff]; intro c hc; simp [h c hc]
  simp only [loop, hnle, if_false, hemp, List.isEmpty_nil, if_true]
  rfl

/-- … and in general: whenever some set `S` of at least two pending keys is closed under "reads a
member of `S`" (the keys on any dependency cycle of length ≥ 2 are such a set), whatever else is
pending and in whatever keyword order, the call never returns: it raises `ValueError`, unless an
earlier round already failed with `TypeError` for an argument that is no key at all. -/
theorem call_cycle_raises (d consts : Env V) (cs : List (String × Fn V)) (S : List String)
    (a b : String) (ha : a ∈ S) (hb : b ∈ S) (hab : a ≠ b) (hS : Closed S cs) :
    call d consts cs = .error .value ∨ call d consts cs = .error .type :=
  loop_closed_raises S a b ha hb hab _ _ cs (Nat.le_refl _) hS

/-- the callables that are ready in a round, and those left for later rounds, are the same sets for
every keyword order (first step of `call_keyword_order_independent`) -/
theorem call_rounds_order_independent (cs cs' : List (String × Fn V)) (h : cs.Perm cs') :
    (cs.filter (independent (cs.map (·.1)))).Perm (cs'.filter (independent (cs'.map (·.1)))) ∧
    (cs.filter fun c => !independent (cs.map (·.1)) c).Perm
      (cs'.filter fun c => !independent (cs'.map (·.1)) c) := by
  have hk : (cs.map (·.1)).Perm (cs'.map (·.1)) := h.map _
  have e : independent (cs.map (·.1)) = independent (V := V) (cs'.map (·.1)) := by
    funext c; exact independent_perm _ _ hk c
  rw [e]
  exact ⟨h.filter _, h.filter _⟩

/-- KEYWORD ORDER.  For every mapping `d` and every two orders of the same keyword list (keyword
names are distinct; `consts` the plain values, `cs` the callables) `d(**kwargs)` has the same
outcome: the same error kind, or mappings that hold the same value under every key (`ResEq`; python
`==` on dicts does not compare insertion order).  No acyclicity is needed for this part: circular
or ill-scoped definitions fail the same way in every order. -/
theorem call_keyword_order_independent (d consts consts' : Env V) (cs cs' : List (String × Fn V))
    (hcn : (consts.map (·.1)).Nodup) (hc : consts.Perm consts')
    (hn : (cs.map (·.1)).Nodup) (hp : cs.Perm cs') :
    ResEq (call d consts cs) (call d consts' cs') := by
  unfold call
  rw [← hp.length_eq]
  exact loop_perm _ _ _ cs cs' (Nat.le_refl _) hn hp (setAll_perm d hcn hc)

/-- DEPENDENCY ORDER.  If the dependency graph of the callables (edges: declared argument names that
are themselves pending callables) is acyclic and has no self-loop, then
(a) the definitions can be put in dependency order,
(b) for EVERY permutation of the keyword list, `d(**kwargs)` has the outcome of plain sequential
    evaluation `for k, f in ts: res[k] = res.apply(f)` in ANY dependency order `ts` (in particular all
    dependency orders agree, and `ValueError` is never raised), and
(c) all keyword orders agree. -/
theorem call_order_independent (d consts consts' : Env V) (cs cs' : List (String × Fn V))
    (hcn : (consts.map (·.1)).Nodup) (hc : consts.Perm consts')
    (hn : (cs.map (·.1)).Nodup) (hp : cs.Perm cs') (hac : Acyclic cs) :
    (∃ ts, ts.Perm cs ∧ Topo ts) ∧
    (∀ ts, ts.Perm cs → Topo ts →
      ResEq (call d consts' cs') (evalAll (setAll d consts) ts)) ∧
    ResEq (call d consts' cs') (call d consts cs) := by
  have hperm := call_keyword_order_independent d consts consts' cs cs' hcn hc hn hp
  refine ⟨(acyclic_iff_exists_topo cs hn).1 hac, fun ts hts ht => ?_, hperm.symm⟩
  exact hperm.symm.trans (loop_eq_topo _ _ cs ts (Nat.le_refl _) hn hts ht)

/-- WHAT IS COMPUTED.  Over an acyclic set of definitions the returned mapping is THE solution of
the definitions: keys that are not derived keep the value of `{**d, **consts}`, and every derived
key holds its function applied to the FINAL values of its declared arguments (so a dependent of a
callable that redefines an existing key of `d` sees the new value); that solution is unique.  The
call fails exactly when some declared argument is neither a derived key nor a key of
`{**d, **consts}`, and then with `TypeError`. -/
theorem call_spec (d consts : Env V) (cs : List (String × Fn V)) (hn : (cs.map (·.1)).Nodup)
    (hac : Acyclic cs) :
    (∀ r, call d consts cs = .ok r →
      Spec (setAll d consts) cs r ∧ ∀ r', Spec (setAll d consts) cs r' → EnvEq r r') ∧
    (∀ e, call d consts cs = .error e ↔ e = .type ∧ Missing (setAll d consts) cs) := by
  obtain ⟨ts, hts, ht⟩ := (acyclic_iff_exists_topo cs hn).1 hac
  have hnt : (ts.map (·.1)).Nodup := (hts.map _).nodup_iff.2 hn
  have hm : ∀ c, c ∈ ts ↔ c ∈ cs := fun c => hts.mem_iff
  have hres : ResEq (call d consts cs) (evalAll (setAll d consts) ts) :=
    loop_eq_topo _ _ cs ts (Nat.le_refl _) hn hts ht
  constructor
  · intro r hr
    obtain ⟨r0, hr0, he⟩ := hres.ok_left hr
    have hs0 : Spec (setAll d consts) ts r := (evalAll_topo_spec ts _ r0 hnt ht hr0).of_envEq he
    refine ⟨hs0.congr (EnvEq.refl _) hm, fun r' hs' => ?_⟩
    exact Spec.unique ht (EnvEq.refl _) hm hs0 hs'
  · intro e
    rw [hres.error_iff e]
    constructor
    · intro he
      exact ⟨evalAll_err ts _ e he,
        ((evalAll_topo_error_iff ts _ ht).1 ⟨e, he⟩).congr (EnvEq.refl _) hm⟩
    · rintro ⟨rfl, hmiss⟩
      obtain ⟨e', he'⟩ := (evalAll_topo_error_iff ts _ ht).2
        (hmiss.congr (EnvEq.refl _) fun c => (hm c).symm)
      rw [he', evalAll_err ts _ e' he']

/-- CIRCULAR DEFINITIONS, iff form.  `ValueError` is raised only if some set of at least two pending
keys is closed under "reads a member of the set"; conversely (`call_cycle_raises`) such a set makes
the call fail, and with `ValueError` when every declared argument is in scope (`WellScoped`: a
pending key other than the callable's own, or a key of `{**d, **consts}`), because then no round
can raise `TypeError`.  Under `WellScoped` the call therefore returns a mapping exactly when there
is no such set. -/
theorem call_cycle_raises_iff (d consts : Env V) (cs : List (String × Fn V))
    (hn : (cs.map (·.1)).Nodup) :
    (call d consts cs = .error .value →
      ∃ (S : List String) (a b : String), a ∈ S ∧ b ∈ S ∧ a ≠ b ∧ Closed S cs) ∧
    (WellScoped (setAll d consts) cs →
      ((call d consts cs = .error .value ↔
        ∃ (S : List String) (a b : String), a ∈ S ∧ b ∈ S ∧ a ≠ b ∧ Closed S cs) ∧
       ((∃ r, call d consts cs = .ok r) ↔
        ¬ ∃ (S : List String) (a b : String), a ∈ S ∧ b ∈ S ∧ a ≠ b ∧ Closed S cs))) := by
  have h1 := loop_value_closed cs.length (setAll d consts) cs hn
  refine ⟨h1, fun hw => ?_⟩
  have hnt := loop_no_type_error cs.length (setAll d consts) cs (Nat.le_refl _) hw
  have h2 : (∃ (S : List String) (a b : String), a ∈ S ∧ b ∈ S ∧ a ≠ b ∧ Closed S cs) →
      call d consts cs = .error .value := by
    rintro ⟨S, a, b, ha, hb, hab, hS⟩
    rcases call_cycle_raises d consts cs S a b ha hb hab hS with h | h
    · exact h
    · exact absurd h hnt
  refine ⟨⟨h1, h2⟩, ?_⟩
  constructor
  · rintro ⟨r, hr⟩ hS
    have := h2 hS
    rw [hr] at this; cases this
  · intro hno
    cases hr : call d consts cs with
    | ok r => exact ⟨r, rfl⟩
    | error e =>
      rcases loop_err _ _ _ e hr with rfl | rfl
      · exact absurd (h1 hr) hno
      · exact absurd hr hnt

/-- a single callable is evaluated on the values found by name -/
theorem call_single (d : Env V) (k : String) (f : Fn V) :
    call d [] [(k, f)] = (apply d f).map fun v => set k v d := by
  simp only [call, loop, setAll, List.foldl_nil, List.length_cons, List.length_nil, Nat.le_refl,
    if_true, evalAll, bind, Except.bind, Except.map]
  cases apply d f <;> rfl

end dictcall

section daheap
open Pyg.DAHeap
variable {V : Type} [TreeAdd V]

/-- FRAME.  No operation changes an existing handle other than the target of an in-place operation
(`d[k] = v`, `d.k = v`, `del d[k]`, `del d.k`): every operator (`copy - & + [[..]] relabel`) and
every read leaves all existing objects exactly as they were, and a failing operation changes
nothing at all. -/
theorem da_frame (heap : Heap V) (op : DAHeap.Op V) (i : Nat) (hi : i < heap.length)
    (ht : op.target ≠ some i) : (exec heap op)[i]? = heap[i]? := by
  unfold exec
  cases h : DAHeap.step heap op with
  | error e => rfl
  | ok r =>
    obtain ⟨heap', out⟩ := r
    rcases step_shape heap heap' op out h with ⟨d, rfl, _, _⟩ | ⟨t, d, d', htg, _, rfl, _, _⟩ | ⟨rfl, _⟩
    · exact List.getElem?_append_left hi
    · have : t ≠ i := fun e => ht (e ▸ htg)
      exact List.getElem?_set_ne this
    · rfl

/-- an operator allocates exactly one handle (its result, at the end of the heap) when it succeeds;
in-place operations and reads allocate nothing; an in-place operation keeps the class of its target -/
theorem da_alloc (heap : Heap V) (op : DAHeap.Op V) :
    ((exec heap op).length = heap.length ∨
      (op.target = none ∧ (exec heap op).length = heap.length + 1)) ∧
    ∀ t, op.target = some t → ((exec heap op)[t]?).map (·.cls) = (heap[t]?).map (·.cls) := by
  unfold exec
  cases h : DAHeap.step heap op with
  | error e => exact ⟨Or.inl rfl, fun _ _ => rfl⟩
  | ok r =>
    obtain ⟨heap', out⟩ := r
    rcases step_shape heap heap' op out h with ⟨d, rfl, _, hn⟩ | ⟨t, d, d', htg, hd, rfl, hc, _⟩ | ⟨rfl, hn⟩
    · exact ⟨Or.inr ⟨hn, by simp⟩, fun t ht => by simp [hn] at ht⟩
    · refine ⟨Or.inl (by simp), fun t' ht' => ?_⟩
      rw [htg] at ht'; cases ht'
      have hlt : t < heap.length := by
        rcases Nat.lt_or_ge t heap.length with h | h
        · exact h
        · rw [List.getElem?_eq_none h] at hd; cases hd
      simp only [List.getElem?_set_self hlt, hd, Option.map_some, hc]
    · exact ⟨Or.inl rfl, fun t ht => by simp [hn] at ht⟩

/-- ATTRIBUTE ACCESS MIRRORS ITEM ACCESS: `d.k = v` is `d[k] = v`, `del d.k` is `del d[k]`, and — for a name `k` that is
not an attribute of the object's class (`shadowed`, the real hypothesis: python looks a name up on the class before it
asks `__getattr__`; names with a leading underscore are private instance attributes and never items) — `d.k` is `d[k]`: same result, same effect on the heap, except that a missing key is reported as
`AttributeError` instead of `KeyError` (`asAttr`). -/
theorem da_attr_mirrors_item (heap : Heap V) (h : Nat) (k : String) (v : V)
    (hk : ∀ d, heap[h]? = some d → shadowed d.cls k = false) (hp : k.startsWith "_" = false) :
    DAHeap.step heap (.getAttr h k) = asAttr (DAHeap.step heap (.getItem h k)) ∧
    DAHeap.step heap (.setAttr h k v) = DAHeap.step heap (.setItem h k v) ∧
    DAHeap.step heap (.delAttr h k) = asAttr (DAHeap.step heap (.delItem h k)) := by
  refine ⟨?_, by simp [DAHeap.step, hp], ?_⟩
  · simp only [DAHeap.step, bind, Except.bind, pure, Except.pure, deref]
    cases hh : heap[h]? with
    | none => rfl
    | some d =>
      dsimp only
      rw [hk d hh]
      simp only [Bool.false_eq_true, if_false]
      cases getKey d k with
      | error e => cases e <;> rfl
      | ok v => rfl
  · simp only [DAHeap.step, bind, Except.bind, pure, Except.pure, deref]
    cases heap[h]? with
    | none => rfl
    | some d =>
      dsimp only
      cases delKey d k with
      | error e => cases e <;> rfl
      | ok v => rfl

/-- ... and the hypothesis is needed (known finding K1 of C16): for a key that is also the name of a method of the class,
attribute access returns the bound method whatever the mapping holds, so `d.keys` differs from `d['keys']`, while
`d.keys = v` still writes the item -/
theorem da_attr_shadowed (heap : Heap V) (h : Nat) (k : String) (d : D V) (hd : heap[h]? = some d)
    (hk : shadowed d.cls k = true) :
    DAHeap.step heap (.getAttr h k) = .ok (heap, .method) := by
  simp [DAHeap.step, bind, Except.bind, pure, Except.pure, deref, hd, hk]

/-- item assignment and deletion write exactly one key of exactly one object -/
theorem da_setitem (heap : Heap V) (h : Nat) (k : String) (v : V) (d : D V) (hd : heap[h]? = some d) :
    ∃ d', (exec heap (.setItem h k v))[h]? = some d' ∧ d'.cls = d.cls ∧
      ∀ j, lookup j d'.items = if j = k then some v else lookup j d.items := by
  have hlt : h < heap.length := by
    rcases Nat.lt_or_ge h heap.length with h' | h'
    · exact h'
    · rw [List.getElem?_eq_none h'] at hd; cases hd
  refine ⟨{ d with items := set k v d.items }, ?_, rfl, fun j => lookup_set j k v d.items⟩
  simp [exec, DAHeap.step, deref, hd, bind, Except.bind, pure, Except.pure, List.getElem?_set_self hlt]

theorem da_delitem (heap : Heap V) (h : Nat) (k : String) (d : D V) (hd : heap[h]? = some d) :
    (lookup k d.items = none → DAHeap.step heap (.delItem h k) = .error .key) ∧
    (lookup k d.items ≠ none → ∃ d', (exec heap (.delItem h k))[h]? = some d' ∧ d'.cls = d.cls ∧
      ∀ j, lookup j d'.items = if j = k then none else lookup j d.items) := by
  have hlt : h < heap.length := by
    rcases Nat.lt_or_ge h heap.length with h' | h'
    · exact h'
    · rw [List.getElem?_eq_none h'] at hd; cases hd
  constructor
  · intro hn
    simp [DAHeap.step, deref, hd, delKey, hn, bind, Except.bind, pure, Except.pure, throw, throwThe,
      MonadExceptOf.throw]
  · intro hs
    refine ⟨subKey d k, ?_, rfl, fun j => lookup_filter_ne j k d.items⟩
    cases hl : lookup k d.items with
    | none => exact absurd hl hs
    | some w =>
      simp [exec, DAHeap.step, deref, hd, delKey, hl, bind, Except.bind, pure, Except.pure,
        List.getElem?_set_self hlt]

/-- invariant over ANY history: the keys of every object are distinct -/
theorem da_keys_nodup [LawfulTreeAdd V] (ops : List (DAHeap.Op V)) : ∀ d ∈ DAHeap.run ops, (keys d).Nodup := by
  suffices h : ∀ (ops : List (DAHeap.Op V)) (heap : Heap V), (∀ d ∈ heap, (keys d).Nodup) →
      ∀ d ∈ ops.foldl exec heap, (keys d).Nodup from h ops [] (by simp)
  intro ops
  induction ops with
  | nil => intro heap inv; simpa using inv
  | cons op ops ih =>
    intro heap inv
    simp only [List.foldl_cons]
    apply ih
    unfold exec
    cases h : DAHeap.step heap op with
    | error e => exact inv
    | ok r => exact step_keys_nodup heap r.1 op r.2 inv h

end daheap

/-! ### non-vacuity -/

example : mk [1, 3, 2, 1, 3, 4] = [1, 3, 2, 4] := by decide
example : addList [1, 3, 2] [4, 1, 5] = [1, 3, 2, 4, 5] ∧ subList [1, 3, 2] [1, 3, 4] = [2] ∧
    andList [1, 3, 2] [1, 3, 4] = [1, 3] := by decide
example : ([1, 3, 2] : List Nat).Nodup := by decide
example : run [Op.new [1, 1, 2], .addE 0 3, .subL 1 [1, 9], .andH 1 2, .copy 3] =
    [[1, 2], [1, 2, 3], [2, 3], [2, 3], [2, 3]] := by decide
private def fp : Fn Int := ⟨["q"], fun _ => 0⟩
private def fq : Fn Int := ⟨["a", "p"], fun _ => 0⟩
/-- a two-cycle p ↔ q next to an innocent r: `Closed ["p","q"]` holds -/
example : DictCall.Closed ["p", "q"] [("r", (⟨["a"], fun _ => 0⟩ : Fn Int)), ("p", fp), ("q", fq)] := by
  intro k hk
  simp only [List.mem_cons, List.not_mem_nil, or_false] at hk
  rcases hk with rfl | rfl
  · exact ⟨("p", fp), by simp, rfl, "q", by simp [fp], by simp⟩
  · exact ⟨("q", fq), by simp, rfl, "p", by simp [fq], by simp⟩

/-- `Dict(a = 1, b = 2)(c = 10, y = lambda x, c: x + c, x = lambda a, b: a + b, a = lambda b: 100 + b)`:
`a` redefines a key of the mapping, `x` must see the NEW `a`, `y` the new `x` -/
private def sumFn (as : List String) (k : Int) : Fn Int := ⟨as, fun vs => vs.foldl (· + ·) k⟩
private def exD : Env Int := [("a", 1), ("b", 2)]
private def exCs : List (String × Fn Int) :=
  [("y", sumFn ["x", "c"] 0), ("x", sumFn ["a", "b"] 0), ("a", sumFn ["b"] 100)]
private def exTs : List (String × Fn Int) :=
  [("a", sumFn ["b"] 100), ("x", sumFn ["a", "b"] 0), ("y", sumFn ["x", "c"] 0)]

example : Topo exTs := by
  refine ⟨?_, ?_, ?_, trivial⟩ <;> simp [sumFn]
example : exTs.Perm exCs := (List.reverse_perm exTs).symm
example : Acyclic exCs :=
  (acyclic_iff_exists_topo exCs (by decide)).2
    ⟨exTs, (List.reverse_perm exTs).symm, by refine ⟨?_, ?_, ?_, trivial⟩ <;> simp [sumFn]⟩
example : call exD [("c", 10)] exCs =
    .ok [("a", 102), ("b", 2), ("c", 10), ("x", 104), ("y", 114)] := rfl
example : evalAll (setAll exD [("c", 10)]) exTs =
    .ok [("a", 102), ("b", 2), ("c", 10), ("x", 104), ("y", 114)] := rfl
example : WellScoped (setAll exD [("c", 10)]) exCs := by
  intro c hc a ha
  simp only [exCs, List.mem_cons, List.not_mem_nil, or_false] at hc
  rcases hc with rfl | rfl | rfl <;> simp [sumFn] at ha <;> rcases ha with rfl | rfl <;> decide
/-- an argument that is nowhere: `Missing`, and the call raises `TypeError` -/
example : Missing exD [("x", sumFn ["a", "zz"] 0)] :=
  ⟨("x", sumFn ["a", "zz"] 0), by simp, "zz", by simp [sumFn], by simp, by decide⟩
example : call exD [] [("y", sumFn ["x"] 0), ("x", sumFn ["a", "zz"] 0)] = .error .type := rfl

/-- a dictattr history: operators allocate, in-place writes hit their target only -/
private def vi (n : Int) : Val := .cell (.int n)
example : DAHeap.run [.new 2 [("a", vi 1), ("b", vi 2)], .copy 0, .setItem 1 "c" (vi 3), .subK 0 "a", .delItem 1 "a",
      .delAttr 0 "zz", .addH 2 1] =
    [⟨2, [("a", vi 1), ("b", vi 2)]⟩, ⟨2, [("b", vi 2), ("c", vi 3)]⟩, ⟨2, [("b", vi 2)]⟩,
     ⟨2, [("b", vi 2), ("c", vi 3)]⟩] := rfl
example : (DAHeap.Op.subK 0 "a" : DAHeap.Op Int).target ≠ some 0 := by decide
/-- in-place ulist operations keep the members unique: `u = ulist([1, 2]); u += [1, 2, 3]; u.append(1); u.insert(0, 3)` -/
example : run [Op.new [1, 2], .iadd 0 [1, 2, 3], .append 0 1, .insert 0 0 3, .setI 0 5 9, .imul 0 2] = [[3, 1, 2]] := by decide
/-- `Dict(a = {'x': 1}, b = 2) + {'a': {'y': 2}}` merges the two dicts under `a` (C15), a dictattr replaces the value -/
example : addC ⟨1, [("a", .dict [("x", vi 1)]), ("b", vi 2)]⟩ [("a", Val.dict [("y", vi 2)])] =
    .ok ⟨1, [("a", .dict [("x", vi 1), ("y", vi 2)]), ("b", vi 2)]⟩ := rfl
example : addC ⟨2, [("a", .dict [("x", vi 1)]), ("b", vi 2)]⟩ [("a", Val.dict [("y", vi 2)])] =
    .ok ⟨2, [("a", .dict [("y", vi 2)]), ("b", vi 2)]⟩ := rfl
/-- `class D2(Dict): pass; D2(a = {'x': 1}, b = 2) + {'a': {'y': 2}}` merges too (tag 4), and stays a `D2` -/
example : addC ⟨4, [("a", .dict [("x", vi 1)]), ("b", vi 2)]⟩ [("a", Val.dict [("y", vi 2)])] =
    .ok ⟨4, [("a", .dict [("x", vi 1), ("y", vi 2)]), ("b", vi 2)]⟩ := rfl
example : isDictLike 4 = true ∧ isDictLike 3 = false ∧ isDictLike 2 = false := by decide
/-- K1: the key `keys` of a dictattr: `d['keys']` is 1, `d.keys` is the bound method -/
example : DAHeap.step [⟨2, [("keys", vi 1)]⟩] (.getItem 0 "keys") = .ok ([⟨2, [("keys", vi 1)]⟩], .val (vi 1)) ∧
    DAHeap.step [⟨2, [("keys", vi 1)]⟩] (.getAttr 0 "keys") = .ok ([⟨2, [("keys", vi 1)]⟩], .method) :=
  ⟨rfl, da_attr_shadowed _ 0 "keys" _ rfl (by decide)⟩


/-! ## Round h2 (review s2) -/

section ulist_inplace
variable {α : Type} [DecidableEq α]
open Pyg.USet

/-- `u[i] = x` for an `x` that is new to `u`: the plain list assignment (the new element lands at index `i`, nothing else moves) -/
theorem ulist_setI_fresh (u : List α) (i : Nat) (x : α) (hu : u.Nodup) (hi : i < u.length) (hx : x ∉ u) :
    inplace u (.setI 0 i x) = some (u.set i x) := by
  simp only [inplace, hi, if_true, mk_of_nodup _ (nodup_set_fresh u i x hu hx)]

theorem ulist_setI_same (u : List α) (i : Nat) (hu : u.Nodup) (hi : i < u.length) :
    inplace u (.setI 0 i u[i]) = some u := by
  simp only [inplace, hi, if_true, List.set_getElem_self, mk_of_nodup u hu]

theorem ulist_setI_index (u : List α) (i : Nat) (x : α) (hi : ¬ i < u.length) : inplace u (.setI 0 i x) = none := by
  simp [inplace, hi]

theorem ulist_insert_fresh (u : List α) (i : Nat) (x : α) (hu : u.Nodup) (hx : x ∉ u) :
    inplace u (.insert 0 i x) = some (insertAt u i x) := by
  simp only [inplace, mk_of_nodup _ (nodup_insertAt_fresh u i x hu hx)]
/-- every in-place operation: it raises exactly when the list operation raises; otherwise the target holds no duplicate, holds
exactly the members of the list operation's result, in the order of their first occurrences there -/
theorem ulist_inplace_spec (u : List α) (op : Op α) :
    (inplace u op = none ↔ listOp u op = none) ∧
    ∀ r l, inplace u op = some r → listOp u op = some l →
      r.Nodup ∧ (∀ y, y ∈ r ↔ y ∈ l) ∧ r.Sublist l ∧ r = mk l := by
  cases op <;> simp only [inplace, listOp, reduceCtorEq, Option.some.injEq, true_and, iff_self, implies_true, and_true,
    false_implies] <;> try (intro r l hr hl; subst hr; subst hl; exact ⟨mk_nodup _, fun y => mem_mk y _, mk_sublist _, rfl⟩)
  case setI h i x =>
    by_cases hi : i < u.length
    · simp only [hi, if_true, reduceCtorEq, Option.some.injEq, true_and]
      intro r l hr hl; subst hr; subst hl; exact ⟨mk_nodup _, fun y => mem_mk y _, mk_sublist _, rfl⟩
    · simp [hi]
  case imul h n =>
    intro r l hr hl; subst hr; subst hl; rw [repeatN_eq]
    exact ⟨mk_nodup _, fun y => mem_mk y _, mk_sublist _, rfl⟩
end ulist_inplace

section dictattr_order
variable {V : Type}

/-- the key ORDER of `d + other` (dictattr proper, `{**d, **other}`): `d`'s keys in `d`'s order, then the keys new in `other`
in the order of their first occurrence there -/
theorem add_keys_order (d : D V) (o : List (String × V)) (hd : (keys d).Nodup) :
    keys (add d o) = keys d ++ (mk (o.map (·.1))).filter (· ∉ keys d) := by
  simp only [keys, add] at hd ⊢
  rw [keys_setAll o d.items hd, mk_append, mk_of_nodup _ hd]
  congr 1

/-- `d[[k1, k2, …]]` at full strength: it raises (`KeyError`, nothing else) iff a listed key is absent; otherwise the result has
the receiver's class, its keys are the listed keys in the order of their first occurrence in the LIST, each with `d`'s value -/
theorem getitem_list_full (d : D V) (ks : List String) :
    (getList d ks = .error .key ↔ ∃ k ∈ ks, lookup k d.items = none) ∧
    (∀ e, getList d ks = .error e → e = .key) ∧
    ∀ r, getList d ks = .ok r → r.cls = d.cls ∧ keys r = mk ks ∧
      ∀ k, lookup k r.items = if k ∈ ks then lookup k d.items else none := by
  have key : ∀ (ks : List String),
      (∀ vs, (ks.mapM fun k => match lookup k d.items with
          | some v => (pure (k, v) : Res (String × V))
          | none => throw Err.key) = .ok vs → vs.map (·.1) = ks ∧ ∀ k ∈ ks, lookup k d.items ≠ none) ∧
      (∀ e, (ks.mapM fun k => match lookup k d.items with
          | some v => (pure (k, v) : Res (String × V))
          | none => throw Err.key) = .error e → e = .key ∧ ∃ k ∈ ks, lookup k d.items = none) := by
    intro ks
    induction ks with
    | nil => simp [pure, Except.pure]
    | cons k ks ih =>
      simp only [List.mapM_cons, bind, Except.bind]
      cases hk : lookup k d.items with
      | none => simp [throw, throwThe, MonadExceptOf.throw, hk]
      | some v =>
        simp only [pure, Except.pure]
        cases hm : (ks.mapM fun k => match lookup k d.items with
          | some v => (Except.ok (k, v) : Res (String × V))
          | none => throw Err.key) with
        | error e =>
          have := ih.2 e (by simpa [pure, Except.pure] using hm)
          simp only [reduceCtorEq, false_implies, implies_true, Except.error.injEq, true_and]
          rintro e' rfl
          exact ⟨this.1, by obtain ⟨k', hk', h⟩ := this.2; exact ⟨k', List.mem_cons_of_mem _ hk', h⟩⟩
        | ok vs =>
          have := ih.1 vs (by simpa [pure, Except.pure] using hm)
          simp only [Except.ok.injEq, reduceCtorEq, false_implies, implies_true, and_true]
          rintro vs' rfl
          refine ⟨by simp [this.1], ?_⟩
          intro k' hk'
          rcases List.mem_cons.1 hk' with rfl | h
          · simp [hk]
          · exact this.2 k' h
  simp only [getList, bind, Except.bind]
  cases hm : (ks.mapM fun k => match lookup k d.items with
      | some v => (pure (k, v) : Res (String × V))
      | none => throw Err.key) with
  | error e =>
    obtain ⟨rfl, hex⟩ := (key ks).2 e hm
    simp [hex]
  | ok vs =>
    obtain ⟨hfst, hall⟩ := (key ks).1 vs hm
    simp only [reduceCtorEq, false_iff, not_exists, not_and, false_implies, implies_true, true_and, pure, Except.pure,
      Except.ok.injEq]
    refine ⟨fun k hk => hall k hk, ?_⟩
    rintro r rfl
    refine ⟨rfl, ?_, ?_⟩
    · simp only [keys]; rw [keys_setAll vs [] (by simp)]; simp [hfst]
    · intro k
      refine getitem_list d ks _ ?_ k
      exact congrArg (fun m : Res (List (String × V)) => m >>= fun vs => (pure { d with items := setAll [] vs } : Res (D V))) hm
end dictattr_order

section dotted
open Pyg.Tree

/-- a present key is returned as it is (dots or not) -/
theorem getKeyD_present (d : D Val) (k : String) (v : Val) (h : lookup k d.items = some v) : getKeyD d k = .ok v := by
  simp [getKeyD, h, pure, Except.pure]

/-- on a key that `split('.')` leaves whole (no dot) the class-aware read is the plain `d[k]` of `getKey`: `KeyError` when absent -/
theorem getKeyD_single (d : D Val) (k : String) (hs : Tree.splitDots k = [k]) : getKeyD d k = getKey d k := by
  unfold getKeyD getKey
  cases h : lookup k d.items with
  | some v => rfl
  | none => simp [hs, getDotted, h, throw, throwThe, MonadExceptOf.throw]

/-- WHEN the dotted walk succeeds it returns what C15's path lookup `tree_getitem(t, parts)` returns (an independent
definition: `getItem` knows nothing of `dict(leaf)`), and conversely -/
theorem getDotted_ok_iff : ∀ (p : List String) (t v : Val), getDotted t p = .ok v ↔ getItem t p = .ok v
  | [], t, v => by cases t <;> simp [getDotted, getItem]
  | k :: rest, t, v => by
    cases t with
    | dict kvs =>
      simp only [getDotted, getItem]
      cases lookup k kvs with
      | none => simp [throw, throwThe, MonadExceptOf.throw]
      | some w => exact getDotted_ok_iff rest w v
    | cell c =>
      cases c <;> simp [getDotted, getItem, throw, throwThe, MonadExceptOf.throw]
      split <;> simp
    | list xs =>
      simp only [getItem, throw, throwThe, MonadExceptOf.throw, reduceCtorEq, iff_false]
      unfold getDotted
      split <;> simp_all [throw, throwThe, MonadExceptOf.throw]
    | tuple xs =>
      simp only [getItem, throw, throwThe, MonadExceptOf.throw, reduceCtorEq, iff_false]
      unfold getDotted
      split <;> simp_all [throw, throwThe, MonadExceptOf.throw]

/-- `d[k]` returns `v` iff `k` is a key holding `v`, or `k` is absent and its dot-separated parts are a path of the nested
mappings leading to `v` -/
theorem getKeyD_ok_iff (d : D Val) (k : String) (v : Val) :
    getKeyD d k = .ok v ↔ lookup k d.items = some v ∨
      (lookup k d.items = none ∧ getItem (.dict d.items) (Tree.splitDots k) = .ok v) := by
  unfold getKeyD
  cases h : lookup k d.items with
  | some w => simp [pure, Except.pure]
  | none => simp [getDotted_ok_iff]

/-- with all listed keys present the dotted reads are the plain ones (`getitem_tuple`, `getitem_list_full` apply) -/
theorem getD_conservative (d : D Val) (ks : List String) (h : ∀ k ∈ ks, lookup k d.items ≠ none) :
    getTupleD d ks = getTuple d ks ∧ getListD d ks = getList d ks := by
  have e : ∀ k ∈ ks, getKeyD d k = getKey d k := by
    intro k hk
    unfold getKeyD getKey
    cases hl : lookup k d.items with
    | some v => rfl
    | none => exact absurd hl (h k hk)
  constructor
  · unfold getTupleD getTuple
    exact mapM_congr_res _ _ ks (fun k hk => by rw [e k hk]; rfl)
  · unfold getListD getList
    congr 1
    apply mapM_congr_res
    intro k hk
    rw [e k hk]; unfold getKey
    cases lookup k d.items <;> rfl

end dotted

section path
open Pyg.Tree

/-- a one-key path is the plain key deletion -/
theorem subPath_single (d : D Val) (k : String) : subPath d [k] = .ok (subKey d k) := by
  simp [subPath, delPath, subKey, Except.map, pure, Except.pure]

/-- a path of two or more keys leaves the top-level keys — and their order — alone; only the value under the first key
may change -/
theorem delPath_frame (kvs : List (String × Val)) (k k' : String) (rest : List String) (r : List (String × Val))
    (h : delPath kvs (k :: k' :: rest) = .ok r) :
    r.map (·.1) = kvs.map (·.1) ∧ ∀ j, j ≠ k → lookup j r = lookup j kvs := by
  simp only [delPath] at h
  split at h
  · cases h; exact ⟨rfl, fun _ _ => rfl⟩
  · rename_i sub hl
    cases hs : delPath sub (k' :: rest) with
    | error e => simp [hs, bind, Except.bind] at h
    | ok sub' =>
      simp only [hs, bind, Except.bind, pure, Except.pure, Except.ok.injEq] at h
      subst h
      exact ⟨map_fst_set_mem k _ kvs _ hl, fun j hj => by rw [lookup_set]; simp [hj]⟩
  · cases h; exact ⟨rfl, fun _ _ => rfl⟩

/-- after `d - path` nothing can be read at `path` any more -/
theorem delPath_gone : ∀ (p : List String) (kvs r : List (String × Val)), p ≠ [] → delPath kvs p = .ok r →
    ∀ v, getItem (.dict r) p ≠ .ok v
  | [], _, _, hp, _ => absurd rfl hp
  | [k], kvs, r, _, h => by
    simp only [delPath, pure, Except.pure, Except.ok.injEq] at h
    subst h
    intro v
    have : lookup k (kvs.filter (·.1 ≠ k)) = none := by
      have := lookup_filter_ne k k kvs
      simpa using this
    simp only [getItem]
    rw [this]
    simp [throw, throwThe, MonadExceptOf.throw]
  | k :: k' :: rest, kvs, r, _, h => by
    intro v
    simp only [delPath] at h
    split at h
    · rename_i hl; cases h; simp [getItem, hl, throw, throwThe, MonadExceptOf.throw]
    · rename_i sub hl
      cases hs : delPath sub (k' :: rest) with
      | error e => simp [hs, bind, Except.bind] at h
      | ok sub' =>
        simp only [hs, bind, Except.bind, pure, Except.pure, Except.ok.injEq] at h
        subst h
        simp only [getItem, lookup_set, if_true]
        exact delPath_gone (k' :: rest) sub sub' (by simp) hs v
    · rename_i w hnd hl
      cases h
      cases w with
      | dict sub => exact absurd rfl (hnd sub)
      | _ => simp [getItem, hl, throw, throwThe, MonadExceptOf.throw]

end path

/-- `d = dictattr(a = {'x': 1, 'y': 2}, b = 2)`: `d - ('a', 'x')`, `d['a.x']`, `d['b.x']` (TypeError), `d['a.q']` (KeyError),
`d[['a.x']]` -/
example : subPath ⟨2, [("a", .dict [("x", vi 1), ("y", vi 2)]), ("b", vi 2)]⟩ ["a", "x"] =
    .ok ⟨2, [("a", .dict [("y", vi 2)]), ("b", vi 2)]⟩ := rfl
#guard (match getKeyD ⟨2, [("a", .dict [("x", vi 1)]), ("b", vi 2)]⟩ "a.x" with | .ok (.cell (.int 1)) => true | _ => false)
#guard (match getKeyD ⟨2, [("a", .dict [("x", vi 1)]), ("b", vi 2)]⟩ "b.x" with | .error .type => true | _ => false)
#guard (match getKeyD ⟨2, [("a", .dict [("x", vi 1)]), ("b", vi 2)]⟩ "a.q" with | .error .key => true | _ => false)
#guard (match getListD ⟨2, [("a", .dict [("x", vi 1)]), ("b", vi 2)]⟩ ["a.x"] with | .ok ⟨2, [("a.x", .cell (.int 1))]⟩ => true | _ => false)
example : ulist_setI_fresh [1, 2, 3] 1 9 (by decide) (by decide) (by decide) = (rfl : inplace [1, 2, 3] (.setI 0 1 9) = some [1, 9, 3]) := rfl
example : listOp [1, 2] (.imul 0 2) = some [1, 2, 1, 2] ∧ inplace [1, 2] (.imul 0 2 : Op Nat) = some [1, 2] := by decide

/-- `d - [k1, k2, …]` with string members only is the fold of single deletions, whichever of the two list forms the driver takes
(`subMixed` is the member-by-member form that also takes tuple paths: seeded change C16-u2) -/
theorem subMixed_strings (d : D Val) (ks : List String) : subMixed d (ks.map Sum.inl) = .ok (subKeys d ks) := by
  induction ks generalizing d with
  | nil => rfl
  | cons k ks ih =>
    simp only [subMixed, List.map_cons, List.foldlM_cons, subKeys, List.foldl_cons] at *
    exact ih (subKey d k)

/-- a list holding one path is that path's deletion -/
theorem subMixed_single_path (d : D Val) (p : List String) : subMixed d [Sum.inr p] = subPath d p := by
  simp only [subMixed, List.foldlM_cons, List.foldlM_nil]
  cases subPath d p <;> rfl


/-! ### round k2: `relabel` in every documented form (callable / prefix / suffix / dict / list of names / keywords) and the general
collision statement (review v2 items 6 / clause table C16 `relabel`) -/
section relabel_forms
variable {V : Type}

theorem lookup_append (k : String) : ∀ (xs ys : List (String × V)), lookup k (xs ++ ys) = (lookup k xs <|> lookup k ys)
  | [], ys => by simp [lookup]
  | (l, w) :: xs, ys => by
      simp only [List.cons_append, lookup]
      split
      · simp
      · exact lookup_append k xs ys

theorem lookup_map_fn (g : String → String) (k : String) : ∀ (ks : List String),
    lookup k (ks.map fun x => (x, g x)) = if k ∈ ks then some (g k) else none
  | [] => by simp [lookup]
  | x :: xs => by
      simp only [List.map_cons, lookup, List.mem_cons]
      by_cases h : k = x
      · subst h; simp
      · simp [h, lookup_map_fn g k xs]

/-- the NEW name of key `k` under a relabelling map -/
def newName (m : List (String × String)) (k : String) : String := (lookup k m).getD k

/-- **the last colliding item wins** (general statement; `relabel_collision_loses` was one instance): under a name `k'` the
result of ANY relabelling holds the value of the item of `d` at position `i` whenever that item is renamed to `k'` and no LATER
item is.  Stated through the observation `lookup`, for all `d`, all maps, all positions. -/
theorem relabel_collision_last_wins (d : D V) (m : List (String × String)) (k' : String) (i : Nat) (hi : i < d.items.length)
    (hk : newName m d.items[i].1 = k')
    (hlast : ∀ j, (hj : j < d.items.length) → i < j → newName m d.items[j].1 ≠ k') :
    lookup k' (relabel d m).items = some d.items[i].2 := by
  rw [relabel_lookup]
  have key : ∀ (l : List (String × V)) (i : Nat) (hi : i < l.length), newName m l[i].1 = k' →
      (∀ j, (hj : j < l.length) → i < j → newName m l[j].1 ≠ k') →
      lookup k' (l.map fun kv => ((lookup kv.1 m).getD kv.1, kv.2)).reverse = some l[i].2 := by
    intro l
    induction l with
    | nil => intro i hi; simp at hi
    | cons x xs ih =>
      intro i hi hk hlast
      rw [List.map_cons, List.reverse_cons, lookup_append]
      cases i with
      | zero =>
        have hnone : lookup k' (xs.map fun kv => ((lookup kv.1 m).getD kv.1, kv.2)).reverse = none := by
          cases hl : lookup k' (xs.map fun kv => ((lookup kv.1 m).getD kv.1, kv.2)).reverse with
          | none => rfl
          | some v =>
            exfalso
            have hs : (lookup k' (xs.map fun kv => ((lookup kv.1 m).getD kv.1, kv.2)).reverse).isSome = true := by rw [hl]; rfl
            rw [lookup_isSome_iff] at hs
            simp only [List.map_reverse, List.mem_reverse, List.map_map, List.mem_map, Function.comp_def] at hs
            obtain ⟨kv, hkv, hkv'⟩ := hs
            obtain ⟨j, hj, rfl⟩ := List.getElem_of_mem hkv
            exact hlast (j + 1) (by simp; omega) (by omega) (by simpa [newName] using hkv')
        rw [hnone]
        simp only [List.getElem_cons_zero] at hk ⊢
        simp [lookup, newName] at hk ⊢
        simp [hk]
      | succ i =>
        have hi' : i < xs.length := by simpa using hi
        have := ih i hi' (by simpa using hk) (fun j hj hij => by
          have := hlast (j + 1) (by simp; omega) (by omega)
          simpa using this)
        rw [this]; simp
  exact key d.items i hi hk hlast


/-- the new name of a key of `d` under each documented form of the positional argument (no keywords) -/
theorem newName_fn (ks : List String) (f : String → String) (k : String) (hk : k ∈ ks) :
    newName (relabelMap ks (.fn f) []) k = f k := by
  simp [newName, relabelMap, lookup_map_fn, hk]

theorem newName_prefix (ks : List String) (p k : String) (hk : k ∈ ks) (h1 : p.startsWith "_" = false)
    (h2 : p.endsWith "_" = true) : newName (relabelMap ks (.affix p) []) k = p ++ k := by
  simp [newName, relabelMap, affixMap, h1, h2, lookup_map_fn, hk]

theorem newName_suffix (ks : List String) (p k : String) (hk : k ∈ ks) (h1 : p.startsWith "_" = true) :
    newName (relabelMap ks (.affix p) []) k = k ++ p := by
  simp [newName, relabelMap, affixMap, h1, lookup_map_fn, hk]

/-- a string that neither starts nor ends with `_` relabels nothing -/
theorem newName_plain_string (ks : List String) (p k : String) (h1 : p.startsWith "_" = false)
    (h2 : p.endsWith "_" = false) : newName (relabelMap ks (.affix p) []) k = k := by
  simp [newName, relabelMap, affixMap, h1, h2, lookup]

/-- a keyword overrides whatever the positional argument says (`res.update(relabels)` runs last) -/
theorem newName_kw (ks : List String) (arg : RelArg) (kw : List (String × String)) (k n : String)
    (h : lookup k kw = some n) : newName (relabelMap ks arg kw) k = n := by
  simp [newName, relabelMap, lookup_append, h]

/-- ... and a key no keyword names is relabelled by the positional argument alone -/
theorem newName_no_kw (ks : List String) (arg : RelArg) (kw : List (String × String)) (k : String)
    (h : lookup k kw = none) : newName (relabelMap ks arg kw) k = newName (relabelMap ks arg []) k := by
  simp [newName, relabelMap, lookup_append, h]

/-- a dict argument is the keyword form -/
theorem relabelA_dict (d : D V) (m : List (String × String)) : relabelA d (.dict m) [] = relabel d m := by
  simp [relabelA, relabelMap]

/-- **`relabel` in any form, collision-free: exactly the renamed keys, untouched values, same order, same class** - stated
through `newName`, which the theorems above read off for a callable / prefix / suffix / keyword -/
theorem relabelA_items (d : D V) (arg : RelArg) (kw : List (String × String))
    (hn : ((keys d).map (newName (relabelMap (keys d) arg kw))).Nodup) :
    (relabelA d arg kw).items = d.items.map (fun kv => (newName (relabelMap (keys d) arg kw) kv.1, kv.2)) ∧
      (relabelA d arg kw).cls = d.cls :=
  ⟨relabel_keys d _ hn, rfl⟩

/-- `d.relabel(f)` for a callable that is injective on the keys of `d`: every item keeps its value and its place under `f key` -/
theorem relabel_fn_items (d : D V) (f : String → String) (hd : (keys d).Nodup)
    (hinj : ∀ a ∈ keys d, ∀ b ∈ keys d, f a = f b → a = b) :
    (relabelA d (.fn f) []).items = d.items.map fun kv => (f kv.1, kv.2) := by
  have hnn : ∀ k ∈ keys d, newName (relabelMap (keys d) (.fn f) []) k = f k := fun k hk => newName_fn _ f k hk
  have hmap : (keys d).map (newName (relabelMap (keys d) (.fn f) [])) = (keys d).map f :=
    List.map_congr_left hnn
  have hn : ((keys d).map (newName (relabelMap (keys d) (.fn f) []))).Nodup := by
    rw [hmap]
    exact List.pairwise_map.2 (List.Pairwise.imp_of_mem (fun ha hb hab h => hab (hinj _ ha _ hb h)) hd)
  rw [(relabelA_items d _ _ hn).1]
  apply List.map_congr_left
  intro kv hkv
  rw [hnn kv.1 (List.mem_map.2 ⟨kv, hkv, rfl⟩)]

/-- `d.relabel('p_')`: prefixing is injective, so nothing is ever lost -/
theorem relabel_prefix_items (d : D V) (p : String) (hd : (keys d).Nodup) (h1 : p.startsWith "_" = false)
    (h2 : p.endsWith "_" = true) :
    (relabelA d (.affix p) []).items = d.items.map fun kv => (p ++ kv.1, kv.2) := by
  have e : relabelA d (.affix p) [] = relabelA d (.fn (p ++ ·)) [] := by
    simp [relabelA, relabelMap, affixMap, h1, h2]
  rw [e]
  exact relabel_fn_items d _ hd (fun a _ b _ h => by
    have := congrArg String.toList h
    simp only [String.toList_append] at this
    exact String.ext (List.append_cancel_left this))

/-- `d.relabel('_s')`: suffixing likewise -/
theorem relabel_suffix_items (d : D V) (p : String) (hd : (keys d).Nodup) (h1 : p.startsWith "_" = true) :
    (relabelA d (.affix p) []).items = d.items.map fun kv => (kv.1 ++ p, kv.2) := by
  have e : relabelA d (.affix p) [] = relabelA d (.fn (· ++ p)) [] := by
    simp [relabelA, relabelMap, affixMap, h1]
  rw [e]
  exact relabel_fn_items d _ hd (fun a _ b _ h => by
    have := congrArg String.toList h
    simp only [String.toList_append] at this
    exact String.ext (List.append_cancel_right this))

/-- a CONSTANT callable collapses `d` to one key holding the value of the LAST item (review v2: `d.relabel(lambda k: 'z')`) -/
theorem relabel_fn_const (d : D V) (c : String) (hne : d.items ≠ []) :
    keys (relabelA d (.fn fun _ => c) []) = [c] ∧
      lookup c (relabelA d (.fn fun _ => c) []).items = (d.items.getLast hne |>.2) := by
  have hnn : ∀ k ∈ keys d, newName (relabelMap (keys d) (.fn fun _ => c) []) k = c := fun k hk => newName_fn _ _ k hk
  have hlen : 0 < d.items.length := List.length_pos_iff.2 hne
  constructor
  · -- every key of the result is `c`, the result has distinct keys and is not empty
    have hone : ∀ (pairs base : List (String × V)), (∀ kv ∈ pairs, kv.1 = c) → base.map (·.1) = [c] →
        (setAll base pairs).map (·.1) = [c] := by
      intro pairs
      induction pairs with
      | nil => intro base _ hb; simpa [setAll] using hb
      | cons q qs ih =>
        intro base hq hb
        have e : setAll base (q :: qs) = setAll (set q.1 q.2 base) qs := by simp [setAll]
        rw [e]
        apply ih _ (fun kv hkv => hq kv (List.mem_cons_of_mem _ hkv))
        match base, hb with
        | [(l, w)], hb =>
          have hl : l = c := by simpa using hb
          have hq1 : q.1 = c := hq q (List.mem_cons_self)
          simp [DA.set, hl, hq1]
    have hitems : (relabelA d (.fn fun _ => c) []).items = setAll [] (d.items.map fun kv => (c, kv.2)) := by
      simp only [relabelA, relabel]
      congr 1
      apply List.map_congr_left
      intro kv hkv
      have := hnn kv.1 (List.mem_map.2 ⟨kv, hkv, rfl⟩)
      simp only [newName] at this
      rw [this]
    simp only [keys, hitems]
    match hd : d.items, hne with
    | x :: xs, _ =>
      have e : setAll [] ((x :: xs).map fun kv => (c, kv.2)) = setAll [(c, x.2)] (xs.map fun kv => (c, kv.2)) := by
        simp [setAll, DA.set]
      rw [e]
      exact hone _ _ (fun kv hkv => by obtain ⟨a, _, rfl⟩ := List.mem_map.1 hkv; rfl) rfl
  · have := relabel_collision_last_wins d (relabelMap (keys d) (.fn fun _ => c) []) c (d.items.length - 1) (by omega)
      (hnn _ (List.mem_map.2 ⟨_, List.getElem_mem _, rfl⟩)) (fun j hj hij => by omega)
    rw [relabelA, this, List.getLast_eq_getElem]

#guard (relabelA (⟨2, [("a", 1), ("b", 2)]⟩ : D Nat) (.affix "x_") []).items == [("x_a", 1), ("x_b", 2)]
#guard (relabelA (⟨2, [("a", 1), ("b", 2)]⟩ : D Nat) (.affix "_x") []).items == [("a_x", 1), ("b_x", 2)]
#guard (relabelA (⟨2, [("a", 1), ("b", 2)]⟩ : D Nat) (.affix "x") []).items == [("a", 1), ("b", 2)]
#guard (relabelA (⟨2, [("a", 1), ("b", 2)]⟩ : D Nat) (.fn fun k => k ++ k) [("b", "other")]).items == [("aa", 1), ("other", 2)]
#guard (relabelA (⟨2, [("a", 1), ("b", 2), ("c", 3)]⟩ : D Nat) (.names ["A", "B", "C"]) []).items == [("A", 1), ("B", 2), ("C", 3)]
#guard (relabelA (⟨2, [("a", 1), ("b", 2), ("c", 3)]⟩ : D Nat) (.names ["A", "B"]) []).items == [("a", 1), ("b", 2), ("c", 3)]
#guard (relabelA (⟨2, [("a", 1), ("b", 2), ("c", 3)]⟩ : D Nat) (.fn fun _ => "z") []).items == [("z", 3)]
#guard (relabelA (⟨2, [("a", 1), ("b", 2), ("c", 3)]⟩ : D Nat) (.dict [("a", "b")]) []).items == [("b", 2), ("c", 3)]
/-- the hypotheses of `relabel_collision_last_wins` on `dictattr(a=1, b=2, c=3).relabel(a='c')`: position 2 is the last item named `c` -/
example : lookup "c" (relabel (⟨2, [("a", (1 : Nat)), ("b", 2), ("c", 3)]⟩ : D Nat) [("a", "c")]).items = some 3 :=
  relabel_collision_last_wins _ _ "c" 2 (by decide) (by decide) (fun j hj hij => by simp at hj; omega)

end relabel_forms

end Pyg.Props.C16
