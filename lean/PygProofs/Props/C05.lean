/-
  C05 — Calendar business-day arithmetic agrees with day-by-day counting.
  Property theorems only (helper lemmas: PygProofs/Lemmas/CalendarLemmas.lean).

  Vocabulary: days are day numbers (`Int`); `c.bd a b` is the increasing list of business days in `[a, b]`,
  `cnt c a b` its length ("day-by-day counting"), `K c x = cnt c c.t0 (x-1)` the number of business days of the
  calendar before `x`, `InRange c s n` the guard "the business day `s` and the position `n` further are inside the
  calendar's table".  On the table path (`|n| ≥ 2`) this is exactly the condition under which the lookup does not raise
  `KeyError` (`add_table_ok_iff`, both directions; otherwise the answer is `KeyError`: `add_table_error_key`).  On the loop path
  (`|n| ≤ 1`) the code never raises (`add_one_total`) and `InRange` is only SUFFICIENT for the loop to land on the table's
  next entry: it is stronger than "does not raise" there (`add_paths_split`).  `inRange_of_margin` restates the guard by
  day-by-day counting (`|n|` business days exist on the relevant side of `s` inside `[t0, t1]`), `inRange_iff_margin` exactly.
  Every theorem holds for every holiday list, weekend list, range, convention and month function, unless it says
  otherwise (`adjust_m_calendar_month` is about the driver's month function `ymKey`; the `…_nearest` theorems assume the
  holidays are listed inside the calendar's range and the weekend leaves one weekday, `NonDeg`).
-/
import PygModel.Calendar
import PygProofs.Lemmas.CalendarLemmas
import PygProofs.Lemmas.CalendarEdge
import PygProofs.Lemmas.CalendarObj

namespace Pyg.Props.C05
open Pyg Pyg.Calendar
open Pyg.Civil (wd)

/-! ### is_bday / is_holiday -/

/-- `is_bday(t)` holds exactly when `t` is neither a weekend day nor a holiday -/
theorem isB_spec (c : Cal) (t : Int) : c.isB t = true ↔ wd t ∉ c.weekend ∧ t ∉ c.hol := by
  simp [Cal.isB]

/-- `is_holiday` is its negation -/
theorem isHol_spec (c : Cal) (t : Int) : c.isHol t = !c.isB t := isHol_eq_not_isB c t

/-! ### adjust -/

/-- `adjust(t,'f')`: never moves backwards and steps over non-business days only (unconditionally); whenever a
business day exists in `[t, t1]` the result is the nearest business day on or after `t` -/
theorem adjust_f_least (c : Cal) (t : Int) :
    t ≤ c.adjust .f t ∧ (∀ s, t ≤ s → s < c.adjust .f t → c.isB s = false) ∧
    ((∃ b, t ≤ b ∧ b ≤ c.t1 ∧ c.isB b = true) →
      c.isB (c.adjust .f t) = true ∧ c.adjust .f t ≤ c.t1 ∧ ∀ b, t ≤ b → c.isB b = true → c.adjust .f t ≤ b) := by
  have h := adjF_spec c t
  refine ⟨h.1, h.2.1, fun hb => ?_⟩
  have := adjF_least c t hb
  exact ⟨this.1, this.2.2.1, this.2.2.2⟩

/-- `adjust(t,'p')`: the nearest business day on or before `t` -/
theorem adjust_p_greatest (c : Cal) (t : Int) :
    c.adjust .p t ≤ t ∧ (∀ s, s ≤ t → c.adjust .p t < s → c.isB s = false) ∧
    ((∃ b, b ≤ t ∧ c.t0 ≤ b ∧ c.isB b = true) →
      c.isB (c.adjust .p t) = true ∧ c.t0 ≤ c.adjust .p t ∧ ∀ b, b ≤ t → c.isB b = true → b ≤ c.adjust .p t) := by
  have h := adjP_spec c t
  refine ⟨h.1, h.2.1, fun hb => ?_⟩
  have := adjP_greatest c t hb
  exact ⟨this.1, this.2.2.1, this.2.2.2⟩

/-- `'m'` equals `'f'` unless that leaves `t`'s month, when it equals `'p'` -/
theorem adjust_m (c : Cal) (t : Int) :
    c.adjust .m t = if c.month (c.adjust .f t) = c.month t then c.adjust .f t else c.adjust .p t := by
  simp only [Cal.adjust]
  by_cases h : c.month (c.adjust .f t) = c.month t <;> simp_all [Cal.adjust]

/-- the same as an equivalence, for every month function: `'m'` is `'f'` exactly when the following business day
has `t`'s month (when it has not, `'m'` is `'p'`, which differs from `'f'` because `'p' ≤ t ≤ 'f'` and `t` itself
has `t`'s month) -/
theorem adjust_m_iff (c : Cal) (t : Int) :
    (c.adjust .m t = c.adjust .f t ↔ c.month (c.adjust .f t) = c.month t) ∧
    (c.month (c.adjust .f t) ≠ c.month t → c.adjust .m t = c.adjust .p t) := by
  have hf := (adjF_spec c t).1
  have hp := (adjP_spec c t).1
  refine ⟨⟨fun h => ?_, fun h => ?_⟩, fun h => ?_⟩
  · by_cases hm : c.month (c.adjF t) = c.month t
    · exact hm
    · have hm' : c.month (c.adjF t) ≠ c.month t := hm
      simp only [Cal.adjust, hm', ne_eq, not_false_eq_true, if_true] at h
      have : c.adjF t = t := by omega
      rw [this] at hm
      exact absurd rfl hm
  · simp only [Cal.adjust] at h ⊢
    simp [h]
  · simp only [Cal.adjust] at h ⊢
    simp [h]

/-- "month" has its calendar meaning in the model the check runs: the driver's month function `ymKey` takes the same
value on two days exactly when they lie in the same month of the same year -/
theorem ymKey_eq_iff (a b : Int) :
    ymKey a = ymKey b ↔ Civil.year a = Civil.year b ∧ Civil.month a = Civil.month b := ymKey_eq_iff' a b

/-- … and `Civil.month` is a month number -/
theorem civil_month_range (n : Int) : 1 ≤ Civil.month n ∧ Civil.month n ≤ 12 := month_range n

/-- for the calendars the driver builds (`month = ymKey`): `'m'` equals `'f'` exactly when the following business day
lies in the same calendar month of the same year as `t`, otherwise it equals `'p'` -/
theorem adjust_m_calendar_month (c : Cal) (hm : c.month = ymKey) (t : Int) :
    (c.adjust .m t = c.adjust .f t ↔
      Civil.year (c.adjust .f t) = Civil.year t ∧ Civil.month (c.adjust .f t) = Civil.month t) ∧
    (¬ (Civil.year (c.adjust .f t) = Civil.year t ∧ Civil.month (c.adjust .f t) = Civil.month t) →
      c.adjust .m t = c.adjust .p t) := by
  have h := adjust_m_iff c t
  rw [hm, ymKey_eq_iff] at h
  exact ⟨h.1, fun hn => h.2 (by rw [ne_eq, ymKey_eq_iff]; exact hn)⟩

/-- only Sunday is a working day and the 53 Sundays 2020-01-19 … 2021-01-17 are holidays: a calendar with a holiday run
longer than 12 months (2019-01-01 … 2022-01-01), with the month NUMBER as month function - what the pinned code
compared (`t.month != date.month`, defect C05-D1) -/
def sundayHols : List Int := (List.range 53).map fun (i : Nat) => 737443 + 7 * (i : Int)
def sundaysByNumber : Cal :=
  { t0 := 737060, t1 := 738156, weekend := [0, 1, 2, 3, 4, 5], hol := sundayHols, adj := .m, month := Civil.month }

/-- why a month number is not "t's month": with `month = Civil.month` the following business day of Sun 2020-01-19 is
Sun 2021-01-24 - another year - and `'m'` keeps it … -/
theorem month_number_keeps_next_year :
    Civil.year (sundaysByNumber.adjust .f 737443) ≠ Civil.year 737443 ∧
    sundaysByNumber.adjust .m 737443 = sundaysByNumber.adjust .f 737443 := by decide +kernel

/-- … whereas with the year-month key the same calendar falls back to the previous business day (Sun 2020-01-12) -/
theorem ymKey_falls_back :
    ({ sundaysByNumber with month := ymKey } : Cal).adjust .m 737443 = 737436 ∧
    ({ sundaysByNumber with month := ymKey } : Cal).adjust .p 737443 = 737436 := by decide +kernel

/-! ### adjust at the ends of the range

The first pair of loops of `adjust` stops at `t1` (`t0`); the second pair only steps over WEEKEND days beyond it and
never looks at the holiday list.  So: when every listed holiday lies inside the range (the docstring: "Calendar is
restricted to operate between cal.t0 and cal.t1") `adjust 'f'/'p'` is the nearest business day without any further
condition (`adjust_f_nearest`, `adjust_p_nearest`); when no business day is left in the range the result is the first
non-weekend day beyond it (`adjust_f_outside`), which is a holiday if the caller listed one there
(`adjust_f_outside_holiday`, a proved instance). -/

/-- holidays inside the range, some weekday not a weekend day: `adjust(t,'f')` IS the nearest business day on or after
`t`, for every `t` (no existence guard) -/
theorem adjust_f_nearest (c : Cal) (hnd : NonDeg c) (hin : ∀ h ∈ c.hol, h ≤ c.t1) (t : Int) :
    c.isB (c.adjust .f t) = true ∧ t ≤ c.adjust .f t ∧ ∀ b, t ≤ b → c.isB b = true → c.adjust .f t ≤ b := by
  obtain ⟨h1, h2, h3⟩ := adjF_spec c t
  have hb := (adjF_beyond c hnd t).1
  show c.isB (c.adjF t) = true ∧ t ≤ c.adjF t ∧ ∀ b, t ≤ b → c.isB b = true → c.adjF t ≤ b
  refine ⟨?_, h1, fun b hb1 hB => ?_⟩
  · by_cases hle : c.adjF t ≤ c.t1
    · exact h3 hle
    · rcases hb with hb | hb
      · exact absurd hb hle
      · have hh : c.adjF t ∉ c.hol := fun hm => hle (hin _ hm)
        simp [Cal.isB, hb, hh]
  · by_cases hlt : b < c.adjF t
    · have := h2 b hb1 hlt; rw [hB] at this; cases this
    · omega

theorem adjust_p_nearest (c : Cal) (hnd : NonDeg c) (hin : ∀ h ∈ c.hol, c.t0 ≤ h) (t : Int) :
    c.isB (c.adjust .p t) = true ∧ c.adjust .p t ≤ t ∧ ∀ b, b ≤ t → c.isB b = true → b ≤ c.adjust .p t := by
  obtain ⟨h1, h2, h3⟩ := adjP_spec c t
  have hb := (adjP_beyond c hnd t).1
  show c.isB (c.adjP t) = true ∧ c.adjP t ≤ t ∧ ∀ b, b ≤ t → c.isB b = true → b ≤ c.adjP t
  refine ⟨?_, h1, fun b hb1 hB => ?_⟩
  · by_cases hle : c.t0 ≤ c.adjP t
    · exact h3 hle
    · rcases hb with hb | hb
      · exact absurd hb hle
      · have hh : c.adjP t ∉ c.hol := fun hm => hle (hin _ hm)
        simp [Cal.isB, hb, hh]
  · by_cases hlt : c.adjP t < b
    · have := h2 b hb1 hlt; rw [hB] at this; cases this
    · omega

/-- no business day left in `[t, t1]`: the result lies beyond `t1`, is not a weekend day, and every day beyond `t1`
before it is a weekend day - the first non-weekend day after the range, whatever the holiday list says about it -/
theorem adjust_f_outside (c : Cal) (hnd : NonDeg c) (t : Int) (h : ∀ b, t ≤ b → b ≤ c.t1 → c.isB b = false) :
    c.t1 < c.adjust .f t ∧ wd (c.adjust .f t) ∉ c.weekend ∧
    ∀ s, t ≤ s → c.t1 < s → s < c.adjust .f t → wd s ∈ c.weekend := by
  obtain ⟨h1, _, h3⟩ := adjF_spec c t
  obtain ⟨hb, hs⟩ := adjF_beyond c hnd t
  show c.t1 < c.adjF t ∧ wd (c.adjF t) ∉ c.weekend ∧ ∀ s, t ≤ s → c.t1 < s → s < c.adjF t → wd s ∈ c.weekend
  have hgt : c.t1 < c.adjF t := by
    by_cases hle : c.adjF t ≤ c.t1
    · have := h _ h1 hle; rw [h3 hle] at this; cases this
    · omega
  refine ⟨hgt, ?_, hs⟩
  rcases hb with hb | hb
  · omega
  · exact hb

theorem adjust_p_outside (c : Cal) (hnd : NonDeg c) (t : Int) (h : ∀ b, b ≤ t → c.t0 ≤ b → c.isB b = false) :
    c.adjust .p t < c.t0 ∧ wd (c.adjust .p t) ∉ c.weekend ∧
    ∀ s, s ≤ t → s < c.t0 → c.adjust .p t < s → wd s ∈ c.weekend := by
  obtain ⟨h1, _, h3⟩ := adjP_spec c t
  obtain ⟨hb, hs⟩ := adjP_beyond c hnd t
  show c.adjP t < c.t0 ∧ wd (c.adjP t) ∉ c.weekend ∧ ∀ s, s ≤ t → s < c.t0 → c.adjP t < s → wd s ∈ c.weekend
  have hgt : c.adjP t < c.t0 := by
    by_cases hle : c.t0 ≤ c.adjP t
    · have := h _ h1 hle; rw [h3 hle] at this; cases this
    · omega
  refine ⟨hgt, ?_, hs⟩
  rcases hb with hb | hb
  · omega
  · exact hb

/-- January 2000 (Sat 2000-01-01 = 730120 … Mon 2000-01-31 = 730150), Sat-Sun weekend, holidays Mon 31 Jan and
Tue 1 Feb - the second one listed BEYOND the range -/
def janEnd : Cal := { t0 := 730120, t1 := 730150, weekend := [5, 6], hol := [730150, 730151], adj := .f, month := ymKey }

theorem janEnd_nonDeg : NonDeg janEnd := ⟨0, by decide, by decide, by decide⟩

/-- a holiday listed beyond the range is returned as "business day": for a day inside the range of `janEnd`,
`adjust(2000-01-31,'f')` = 2000-02-01 and `is_bday` of it is false.  (Outside the statement: see the section header.) -/
theorem adjust_f_outside_holiday :
    ∃ c t, NonDeg c ∧ c.t0 ≤ t ∧ t ≤ c.t1 ∧ c.adjust .f t = 730151 ∧ c.isB (c.adjust .f t) = false :=
  ⟨janEnd, 730150, janEnd_nonDeg, by decide, by decide, by decide, by decide⟩

theorem adjust_p_outside_holiday :
    ∃ c t, NonDeg c ∧ c.t0 ≤ t ∧ t ≤ c.t1 ∧ c.isB (c.adjust .p t) = false :=
  ⟨{ janEnd with t0 := 730122, hol := [730119, 730122] }, 730122, ⟨0, by decide, by decide, by decide⟩,
    by decide, by decide, by decide⟩

/-- a business day of the range is a fixed point of every convention -/
theorem adjust_bday (c : Cal) (a : Adj) (t : Int) (h0 : c.t0 ≤ t) (h1 : t ≤ c.t1) (hB : c.isB t = true) :
    c.adjust a t = t := Calendar.adjust_bday c a t h0 h1 hB

/-! ### the table (`dt2int` / `int2dt`) -/

theorem mem_bdays (c : Cal) (x : Int) : x ∈ c.bdays ↔ c.t0 ≤ x ∧ x ≤ c.t1 ∧ c.isB x = true := mem_bd c _ _ x

theorem bdays_increasing (c : Cal) : c.bdays.Pairwise (· < ·) := pairwise_bd c _ _

/-- the next entry of the table is the least business day after the current one — the lemma that makes the
single-step loop and the indexed lookup agree -/
theorem table_next (c : Cal) (a : Int) (i : Nat) (hi : c.bdays[i]? = some a) (hn : i + 1 < c.bdays.length) :
    ∃ r, c.bdays[i + 1]? = some r ∧ c.isB r = true ∧ a < r ∧
      ∀ b, a < b → c.isB b = true → b ≤ c.t1 → r ≤ b := by
  obtain ⟨_, a0, a1, aB, aK⟩ := atIdx_ok c i a (atIdx_of_getElem? c i a hi)
  refine ⟨c.bdays[i + 1], List.getElem?_eq_getElem hn, ?_⟩
  obtain ⟨_, r0, r1, rB, rK⟩ := atIdx_ok c (i + 1 : Nat) _ (atIdx_of_getElem? c (i + 1) _ (List.getElem?_eq_getElem hn))
  generalize c.bdays[i + 1] = r at *
  have hlt : a < r := by
    by_cases hle : r ≤ a
    · have := K_mono c r a r0 hle; omega
    · omega
  refine ⟨rB, hlt, fun b hb bB _ => ?_⟩
  by_cases hbr : b < r
  · have h1 := K_lt c a b a0 hb aB
    have h2 := K_lt c b r (by omega) hbr bB
    omega
  · omega

/-! ### add -/

/-- forward: `add(t, n)` is the `n`-th business day counted from `s = adjust(t)` — a business day `r ≥ s` with
exactly `n` business days in `(s, r]` — whichever of the two code paths computes it -/
theorem add_nth_fwd (c : Cal) (a : Adj) (t : Int) (n : Nat) (h : InRange c (c.adjust a t) n) :
    ∃ r, c.add a t n = .ok r ∧ c.isB r = true ∧ c.adjust a t ≤ r ∧ r ≤ c.t1 ∧ cnt c (c.adjust a t + 1) r = n := by
  obtain ⟨r, hr, rB, r0, r1, rK⟩ := add_spec c a t n h
  obtain ⟨s0, s1, sB, _, _⟩ := h
  generalize c.adjust a t = s at *
  have hle : s ≤ r := by
    by_cases hlt : r < s
    · have := K_lt c r s r0 hlt rB; omega
    · omega
  refine ⟨r, hr, rB, hle, r1, ?_⟩
  have e1 := K_add c s (r + 1) s0 (by omega)
  have e2 := K_add c r (r + 1) r0 (by omega)
  have : r + 1 - 1 = r := by omega
  rw [this] at e1 e2
  rw [cnt_self, rB] at e2
  rw [cnt_split c s s r (by omega) hle, cnt_self, sB] at e1
  omega

/-- backward: `add(t, -n)` is the business day `r ≤ s` with exactly `n` business days in `[r, s)` -/
theorem add_nth_bwd (c : Cal) (a : Adj) (t : Int) (n : Nat) (h : InRange c (c.adjust a t) (-(n : Int))) :
    ∃ r, c.add a t (-(n : Int)) = .ok r ∧ c.isB r = true ∧ r ≤ c.adjust a t ∧ c.t0 ≤ r ∧ cnt c r (c.adjust a t - 1) = n := by
  obtain ⟨r, hr, rB, r0, r1, rK⟩ := add_spec c a t _ h
  obtain ⟨s0, s1, sB, _, _⟩ := h
  generalize c.adjust a t = s at *
  have hle : r ≤ s := by
    by_cases hlt : s < r
    · have := K_lt c s r s0 hlt sB; omega
    · omega
  refine ⟨r, hr, rB, hle, r0, ?_⟩
  have e1 := K_add c r s r0 hle
  omega

/-- "the n-th business day from `s`" is unique: two business days at or after `s` with the same count coincide -/
theorem nth_unique (c : Cal) (s r r' : Int) (hr : s ≤ r) (hr' : s ≤ r') (rB : c.isB r = true) (rB' : c.isB r' = true)
    (h : cnt c (s + 1) r = cnt c (s + 1) r') : r = r' := by
  by_cases h1 : r < r'
  · have := cnt_split c (s + 1) r r' (by omega) (by omega)
    have := cnt_pos c (r + 1) r' r' (by omega) (by omega) rB'
    omega
  · by_cases h2 : r' < r
    · have := cnt_split c (s + 1) r' r (by omega) (by omega)
      have := cnt_pos c (r' + 1) r r (by omega) (by omega) rB
      omega
    · omega

/-- composition: bumping by `x` and then by `y` (under any convention — the intermediate result is a business
day) is bumping by `x + y`; no sign restriction -/
theorem add_add (c : Cal) (a a' : Adj) (t x y : Int)
    (hx : InRange c (c.adjust a t) x) (hxy : InRange c (c.adjust a t) (x + y)) :
    ∃ r, c.add a t x = .ok r ∧ c.add a' r y = c.add a t (x + y) := by
  obtain ⟨r1, h1, r1B, r10, r11, r1K⟩ := add_spec c a t x hx
  refine ⟨r1, h1, ?_⟩
  have hfix := Calendar.adjust_bday c a' r1 r10 r11 r1B
  have hin : InRange c (c.adjust a' r1) y := by
    rw [hfix]; exact ⟨r10, r11, r1B, by have := hxy.2.2.2.1; omega, by have := hxy.2.2.2.2; omega⟩
  obtain ⟨r2, h2, r2B, r20, _, r2K⟩ := add_spec c a' r1 y hin
  obtain ⟨r3, h3, r3B, r30, _, r3K⟩ := add_spec c a t (x + y) hxy
  rw [hfix] at r2K
  have : r2 = r3 := K_inj c r2 r3 r20 r30 r2B r3B (by omega)
  rw [h2, h3, this]

/-- the single-step path and the indexed path agree: `add(add(t, 1), 1) == add(t, 2)` -/
theorem add_paths_agree (c : Cal) (a a' : Adj) (t : Int) (h : InRange c (c.adjust a t) 2) :
    ∃ r, c.add a t 1 = .ok r ∧ c.add a' r 1 = c.add a t 2 := by
  have h1 : InRange c (c.adjust a t) 1 := ⟨h.1, h.2.1, h.2.2.1, by omega, by have := h.2.2.2.2; omega⟩
  exact add_add c a a' t 1 1 h1 h

theorem add_paths_agree_bwd (c : Cal) (a a' : Adj) (t : Int) (h : InRange c (c.adjust a t) (-2)) :
    ∃ r, c.add a t (-1) = .ok r ∧ c.add a' r (-1) = c.add a t (-2) := by
  have hK := K_lt_length c _ h.1 h.2.1 h.2.2.1
  have h1 : InRange c (c.adjust a t) (-1) := ⟨h.1, h.2.1, h.2.2.1, by have := h.2.2.2.1; omega, by omega⟩
  exact add_add c a a' t (-1) (-1) h1 h

/-- why the guard `InRange` is needed: at the end of the range the two paths really differ.  In `janEnd` the single
steps go on (Thu 27 Jan → Fri 28 Jan → Wed 2 Feb, the loop runs past `t1`) while the table lookup `add(27 Jan, 2)`
raises `KeyError` -/
theorem add_paths_split :
    ∃ (c : Cal) (t : Int), (∃ r, c.add .f t 1 = .ok r ∧ ∃ r', c.add .f r 1 = .ok r') ∧ c.add .f t 2 = .error .key :=
  ⟨janEnd, 730146, ⟨730147, by rfl, 730152, by rfl⟩, by rfl⟩

/-- the single-step path never raises: `add(t, ±1)` and `add(t, 0)` always return (in the model; the real loop of
`add(t, 0)` does not end on a non-business adjusted day, which the driver refuses) -/
theorem add_one_total (c : Cal) (a : Adj) (t : Int) :
    (∃ r, c.add a t 1 = .ok r ∧ c.adjust a t < r) ∧ (∃ r, c.add a t (-1) = .ok r ∧ r < c.adjust a t) := by
  refine ⟨⟨loopUp c.isHol c.addFuel (c.adjust a t + 1), by simp [Cal.add, Cal.addT], ?_⟩,
    ⟨loopDown c.isHol c.addFuel (c.adjust a t - 1), by simp [Cal.add, Cal.addT], ?_⟩⟩
  · have := loopUp_ge c.isHol c.addFuel (c.adjust a t + 1); omega
  · have := loopDown_le c.isHol c.addFuel (c.adjust a t - 1); omega

/-! ### round i3 (review t3 §C05 improvement 2): the single-step path returns THE next / previous business day, unguarded -/

/-- pigeonhole: among `x, x+7, …, x+7n` one day is not in a list of `n` days -/
theorem exists_week_not_mem (x : Int) : ∀ (n : Nat) (l : List Int), l.length = n → ∃ i : Nat, i ≤ n ∧ x + 7 * (i : Int) ∉ l := by
  intro n
  induction n with
  | zero => intro l hl; exact ⟨0, Nat.le_refl _, by rw [List.length_eq_zero_iff.mp hl]; simp⟩
  | succ n ih =>
    intro l hl
    by_cases h : x + 7 * ((n + 1 : Nat) : Int) ∈ l
    · obtain ⟨i, hi, hni⟩ := ih (l.erase (x + 7 * ((n + 1 : Nat) : Int))) (by rw [List.length_erase_of_mem h]; omega)
      refine ⟨i, by omega, fun hmem => hni ?_⟩
      exact (List.mem_erase_of_ne (by omega)).mpr hmem
    · exact ⟨n + 1, Nat.le_refl _, h⟩

/-- with one weekday outside the weekend there is a business day within `7·(#holidays + 1)` days after any day … -/
theorem exists_isB_after (c : Cal) (hnd : NonDeg c) (r : Int) :
    ∃ b, r ≤ b ∧ b < r + 7 * (c.hol.length + 1) ∧ c.isB b = true := by
  obtain ⟨d, d0, d7, hd⟩ := hnd
  obtain ⟨b0, h1, h2, h3⟩ := wd_hit_up r d d0 d7
  obtain ⟨i, hi, hni⟩ := exists_week_not_mem b0 c.hol.length c.hol rfl
  refine ⟨b0 + 7 * (i : Int), by omega, by omega, ?_⟩
  have hw : wd (b0 + 7 * (i : Int)) = d := by unfold wd at *; omega
  simp [Cal.isB, hw, hd, hni]

/-- … and before it -/
theorem exists_isB_before (c : Cal) (hnd : NonDeg c) (r : Int) :
    ∃ b, b ≤ r ∧ r < b + 7 * (c.hol.length + 1) ∧ c.isB b = true := by
  obtain ⟨d, d0, d7, hd⟩ := hnd
  obtain ⟨b0, h1, h2, h3⟩ := wd_hit_down r d d0 d7
  obtain ⟨i, hi, hni⟩ := exists_week_not_mem (b0 - 7 * (c.hol.length : Int)) c.hol.length c.hol rfl
  refine ⟨b0 - 7 * (c.hol.length : Int) + 7 * (i : Int), by omega, by omega, ?_⟩
  have hw : wd (b0 - 7 * (c.hol.length : Int) + 7 * (i : Int)) = d := by unfold wd at *; omega
  simp [Cal.isB, hw, hd, hni]

/-- **`add(t, 1)` is THE next business day after `adjust(t)`** — for every `t`, inside or beyond the calendar's range, whatever the
holiday list (no `InRange` guard; only: the weekend leaves one weekday, without which the real loop never ends): it returns a
business day strictly after `adjust(t)` and every day in between is a non-business day.  "Business day" is the statement's own
predicate (`isB_spec`: neither a weekend day nor a listed holiday), not a table lookup. -/
theorem add_one_next (c : Cal) (hnd : NonDeg c) (a : Adj) (t : Int) :
    ∃ r, c.add a t 1 = .ok r ∧ c.isB r = true ∧ c.adjust a t < r ∧
      ∀ b, c.adjust a t < b → b < r → c.isB b = false := by
  refine ⟨loopUp c.isHol c.addFuel (c.adjust a t + 1), by simp [Cal.add, Cal.addT], ?_, ?_, ?_⟩
  · obtain ⟨b, b1, b2, bB⟩ := exists_isB_after c hnd (c.adjust a t + 1)
    have hb : c.isHol b = false := by rw [isHol_eq_not_isB, bB]; rfl
    have := (loopUp_stops c.isHol c.addFuel (c.adjust a t + 1) b b1 (by unfold Cal.addFuel; omega) hb).2
    rw [isHol_eq_not_isB] at this
    simpa using this
  · have := loopUp_ge c.isHol c.addFuel (c.adjust a t + 1); omega
  · intro b h1 h2
    have := loopUp_skipped c.isHol c.addFuel (c.adjust a t + 1) b (by omega) h2
    rw [isHol_eq_not_isB] at this
    simpa using this

/-- mirror image: `add(t, -1)` is THE previous business day before `adjust(t)` -/
theorem add_one_prev (c : Cal) (hnd : NonDeg c) (a : Adj) (t : Int) :
    ∃ r, c.add a t (-1) = .ok r ∧ c.isB r = true ∧ r < c.adjust a t ∧
      ∀ b, r < b → b < c.adjust a t → c.isB b = false := by
  refine ⟨loopDown c.isHol c.addFuel (c.adjust a t - 1), by simp [Cal.add, Cal.addT], ?_, ?_, ?_⟩
  · obtain ⟨b, b1, b2, bB⟩ := exists_isB_before c hnd (c.adjust a t - 1)
    have hb : c.isHol b = false := by rw [isHol_eq_not_isB, bB]; rfl
    have := (loopDown_stops c.isHol c.addFuel (c.adjust a t - 1) b b1 (by unfold Cal.addFuel; omega) hb).2
    rw [isHol_eq_not_isB] at this
    simpa using this
  · have := loopDown_le c.isHol c.addFuel (c.adjust a t - 1); omega
  · intro b h1 h2
    have := loopDown_skipped c.isHol c.addFuel (c.adjust a t - 1) b (by omega) h1
    rw [isHol_eq_not_isB] at this
    simpa using this

/-- the result of `add_one_next` is unique: two business days `r, r'` after `s` with no business day strictly between `s` and
each of them are equal — so the theorem pins the VALUE of `add(t, 1)`, not just a property of it -/
theorem next_bday_unique (c : Cal) (s r r' : Int) (hr : c.isB r = true) (hr' : c.isB r' = true) (h : s < r) (h' : s < r')
    (hn : ∀ b, s < b → b < r → c.isB b = false) (hn' : ∀ b, s < b → b < r' → c.isB b = false) : r = r' := by
  rcases Int.lt_trichotomy r r' with hlt | heq | hgt
  · have := hn' r h hlt; rw [hr] at this; cases this
  · exact heq
  · have := hn r' h' hgt; rw [hr'] at this; cases this

/-- `NonDeg` is satisfiable and the theorem bites beyond the range end: in `janEnd` (the calendar of `add_paths_split`, where the
table lookup raises `KeyError`) the single step from Fri 28 Jan 2000 lands on Wed 2 Feb 2000, past `t1` -/
example : NonDeg janEnd := ⟨0, by decide, by decide, by decide⟩
example : janEnd.add .f 730147 1 = .ok 730152 ∧ janEnd.isB 730152 = true := ⟨by rfl, by rfl⟩

/-! ### the guard is exact on the table path, and what it says by day-by-day counting -/

/-- the CONVERSE of `add_spec` on the table path: for `|n| ≥ 2` the lookup `add(t, n)` returns (does not raise `KeyError`)
exactly when `InRange` holds of the adjusted day — the guard of `add_nth_fwd/bwd`, `bdays_add`, `add_add`, `add_inverse` is not
stronger than "the code answers" there -/
theorem add_table_ok_iff (c : Cal) (a : Adj) (t n : Int) (hn : 2 ≤ n.natAbs) :
    (∃ r, c.add a t n = .ok r) ↔ InRange c (c.adjust a t) n := by
  constructor
  · intro ⟨r, h⟩
    unfold Cal.add Cal.addT at h
    have hn' : n.natAbs > 1 := by omega
    simp only [hn', if_true] at h
    cases hc : clockOfT c.bdays (c.adjust a t) with
    | error e => rw [hc] at h; cases h
    | ok i =>
      rw [hc] at h
      obtain ⟨s0, s1, sB, hi⟩ := clockOf_ok c _ i hc
      have h' : atIdxT c.bdays ((i : Int) + n) = .ok r := h
      obtain ⟨j0, r0, r1, rB, jK⟩ := atIdx_ok c _ r h'
      have := K_lt_length c r r0 r1 rB
      exact ⟨s0, s1, sB, by omega, by omega⟩
  · intro h
    obtain ⟨r, hr, _⟩ := add_spec c a t n h
    exact ⟨r, hr⟩

/-- … and when the guard fails the table path answers `KeyError`, nothing else -/
theorem add_table_error_key (c : Cal) (a : Adj) (t n : Int) (hn : 2 ≤ n.natAbs)
    (h : ¬ InRange c (c.adjust a t) n) : c.add a t n = .error .key := by
  have hno : ¬ ∃ r, c.add a t n = .ok r := fun hx => h ((add_table_ok_iff c a t n hn).1 hx)
  unfold Cal.add Cal.addT at hno ⊢
  have hn' : n.natAbs > 1 := by omega
  simp only [hn', if_true] at hno ⊢
  cases hc : clockOfT c.bdays (c.adjust a t) with
  | error e =>
    unfold clockOfT at hc
    split at hc
    · cases hc
    · cases hc; rfl
  | ok i =>
    rw [hc] at hno
    show atIdxT c.bdays ((i : Int) + n) = .error .key
    have hno' : ¬ ∃ r, atIdxT c.bdays ((i : Int) + n) = .ok r := hno
    unfold atIdxT at hno' ⊢
    split
    · rfl
    · split
      · next r hr => exfalso; apply hno'; simp [*]
      · rfl

-- both sides occur: in `janEnd` the lookup two on from Thu 27 Jan fails (guard false), two on from Tue 25 Jan succeeds
example : (2 : Nat) ≤ (2 : Int).natAbs ∧ ¬ InRange janEnd (janEnd.adjust .f 730146) 2 ∧ InRange janEnd (janEnd.adjust .f 730144) 2 := by
  unfold InRange; decide

/-- `bdays(t, add(t, n)) == n` -/
theorem bdays_add (c : Cal) (a : Adj) (t n : Int) (h : InRange c (c.adjust a t) n) :
    ∃ r, c.add a t n = .ok r ∧ c.bdaysBetween a t r = .ok n := by
  obtain ⟨r, hr, rB, r0, r1, rK⟩ := add_spec c a t n h
  refine ⟨r, hr, ?_⟩
  unfold Cal.bdaysBetween Cal.bdaysBetweenT
  rw [Calendar.adjust_bday c a r r0 r1 rB, clockOf_bday c r r0 r1 rB, clockOf_bday c _ h.1 h.2.1 h.2.2.1]
  show Except.ok _ = Except.ok _
  congr 1; omega

/-- `add(add(t, n), -n) == t` for a business day `t` -/
theorem add_inverse (c : Cal) (a a' : Adj) (t n : Int) (t0 : c.t0 ≤ t) (t1 : t ≤ c.t1) (tB : c.isB t = true)
    (h : InRange c t n) : ∃ r, c.add a t n = .ok r ∧ c.add a' r (-n) = .ok t := by
  have hfix := Calendar.adjust_bday c a t t0 t1 tB
  have hK := K_lt_length c t t0 t1 tB
  obtain ⟨r, hr, hc⟩ := add_add c a a' t n (-n) (by rw [hfix]; exact h)
    (by rw [hfix]; exact ⟨t0, t1, tB, by omega, by omega⟩)
  refine ⟨r, hr, ?_⟩
  rw [hc]
  have : n + -n = 0 := by omega
  rw [this]
  simp [Cal.add, Cal.addT, hfix]

/-! ### Calendar.drange(t0, t1, '1b') -/

/-- lists exactly the business days between the adjusted endpoints, in increasing order
(`c.bd` is the filtered day range; see `mem_bd`, `pairwise_bd`) -/
theorem drange_1b (c : Cal) (x y : Int)
    (hx : c.t0 ≤ c.adjust c.adj x ∧ c.adjust c.adj x ≤ c.t1 ∧ c.isB (c.adjust c.adj x) = true)
    (hy : c.t0 ≤ c.adjust c.adj y ∧ c.adjust c.adj y ≤ c.t1 ∧ c.isB (c.adjust c.adj y) = true) :
    c.drangeB x y 1 = .ok (c.bd (c.adjust c.adj x) (c.adjust c.adj y)) := by
  unfold Cal.drangeB Cal.drangeBT
  generalize c.adjust c.adj x = a0 at *
  generalize c.adjust c.adj y = a1 at *
  rw [clockOf_bday c a0 hx.1 hx.2.1 hx.2.2, clockOf_bday c a1 hy.1 hy.2.1 hy.2.2]
  have h10 : ¬ ((1 : Int) = 0) := by omega
  simp only [bind, Except.bind, h10, if_false]
  unfold pyRange
  have hpos : (1 : Int) > 0 := by omega
  simp only [hpos, if_true, Int.ediv_one]
  by_cases hle : a0 ≤ a1
  · have hlen : ((K c a1 : Int) + 1 - (K c a0 : Int) + 1 - 1).toNat = (c.bd a0 a1).length := by
      have e := K_add c a0 a1 hx.1 hle
      have e2 := cnt_split c a0 (a1 - 1) a1 (by omega) (by omega)
      have : a1 - 1 + 1 = a1 := by omega
      rw [this, cnt_self, hy.2.2] at e2
      simp only [if_true] at e2
      unfold cnt at e e2
      omega
    rw [hlen]
    have hsplit : c.bdays = c.bd c.t0 (a0 - 1) ++ c.bd a0 a1 ++ c.bd (a1 + 1) c.t1 := by
      unfold Cal.bdays
      rw [bd_split c c.t0 (a0 - 1) c.t1 (by omega) (by omega), bd_split c (a0 - 1 + 1) a1 c.t1 (by omega) hy.2.1]
      have : a0 - 1 + 1 = a0 := by omega
      rw [this, List.append_assoc]
    exact mapM_atIdx_slice c (c.bd a0 a1) (c.bd c.t0 (a0 - 1)) (c.bd (a1 + 1) c.t1) hsplit
  · have hlt := K_lt c a1 a0 hy.1 (by omega) hy.2.2
    have hz : ((K c a1 : Int) + 1 - (K c a0 : Int) + 1 - 1).toNat = 0 := by omega
    rw [hz, bd_empty c a0 a1 (by omega)]
    rfl

/-! ### the registry -/

/-- a calendar fetched by key reflects the holidays (and weekend, range) it was last registered with:
after `calendar(k, args)` registered the key, any history of calls that fetch `k` or register *other* keys leaves
`calendar(k)` returning the calendar built from `args` -/
theorem registry_last (month : Int → Int) (r : Registry) (k : String) (a : CalArgs)
    (hreg : a.isDefault = false ∨ r.get? k = none)
    (ops : List (String × CalArgs)) (hops : ∀ op ∈ ops, op.1 = k → op.2.isDefault = true) :
    let r' := runReg month ((r.calendar month k a).1) ops
    (r'.calendar month k ⟨none, none, none, none⟩).2 = mkCal month a ∧
    (r'.calendar month k ⟨none, none, none, none⟩).2.hol = a.hol.getD [] := by
  have h0 : ((r.calendar month k a).1).get? k = some (mkCal month a) := by
    unfold Registry.calendar
    rcases hreg with h | h
    · cases hg : r.get? k <;> simp [h, get?_set_same]
    · simp [h, get?_set_same]
  have inv : ∀ (ops : List (String × CalArgs)) (r0 : Registry), r0.get? k = some (mkCal month a) →
      (∀ op ∈ ops, op.1 = k → op.2.isDefault = true) → (runReg month r0 ops).get? k = some (mkCal month a) := by
    intro ops
    induction ops with
    | nil => intro r0 h _; exact h
    | cons op ops ih =>
      intro r0 h hop
      simp only [runReg, List.foldl_cons]
      apply ih
      · exact calendar_frame month r0 k op.1 op.2 _ h (hop op (List.mem_cons_self ..))
      · intro o ho; exact hop o (List.mem_cons_of_mem _ ho)
  have hfin := inv ops _ h0 hops
  have : ((runReg month ((r.calendar month k a).1) ops).calendar month k ⟨none, none, none, none⟩).2 = mkCal month a :=
    calendar_fetch month _ k _ hfin
  exact ⟨this, by rw [this]; rfl⟩

/-! ### non-vacuity -/

/-- 2020-01-01 (day 737425, a Wednesday) to 2020-02-15: New Year and Fri 31 Jan are holidays, Sat-Sun weekend -/
def jan : Cal := { t0 := 737425, t1 := 737470, weekend := [5, 6], hol := [737425, 737455], adj := .m, month := ymKey }

example : jan.adjust .f 737455 = 737458 ∧ jan.adjust .p 737455 = 737454 ∧ jan.adjust .m 737455 = 737454 := by decide
example : jan.isB 737454 = true ∧ jan.isB 737455 = false ∧ jan.isB 737456 = false := by decide
/-- the guard of `add_nth_fwd` / `add_paths_agree` / `bdays_add` is satisfiable: Fri 31 Jan adjusts (modified
following) to Thu 30 Jan, two business days on is Tue 4 Feb -/
example : InRange jan (jan.adjust .m 737455) 2 := by unfold InRange; decide
example : jan.add .m 737455 2 = .ok 737459 ∧ jan.add .m 737455 1 = .ok 737458 ∧ jan.add .m 737458 1 = .ok 737459 :=
  ⟨by rfl, by rfl, by rfl⟩
example : InRange jan 737458 (-3) := by unfold InRange; decide
/-- the hypotheses of `drange_1b` and `table_next` are satisfiable -/
example : jan.drangeB 737455 737461 1 = .ok [737454, 737458, 737459, 737460, 737461] := by rfl
example : jan.bdays[20]? = some 737454 ∧ 20 + 1 < jan.bdays.length := by decide
/-- the hypotheses of `adjust_f_nearest` / `adjust_p_nearest` / `adjust_m_calendar_month` (holidays inside the range,
Mon-Fri working, the driver's month key) and of `adjust_f_outside` (nothing but a holiday and a weekend left before `t1`) -/
example : NonDeg jan ∧ (∀ h ∈ jan.hol, h ≤ jan.t1) ∧ (∀ h ∈ jan.hol, jan.t0 ≤ h) ∧ jan.month = ymKey :=
  ⟨⟨0, by decide, by decide, by decide⟩, by decide, by decide, rfl⟩
example : ∀ b, 730150 ≤ b → b ≤ janEnd.t1 → janEnd.isB b = false := by
  intro b h1 h2
  have : b = 730150 := by simp [janEnd] at h2; omega
  subst this; decide
example : ∀ b, b ≤ 737425 → jan.t0 ≤ b → jan.isB b = false := by
  intro b h1 h2
  have : b = 737425 := by simp [jan] at h2; omega
  subst this; decide
/-- the hypotheses of `registry_last`: a registration with holidays, then a fetch and another key's registration -/
example : (CalArgs.mk (some [737455]) none none none).isDefault = false ∧
    ∀ op ∈ [("UK", CalArgs.mk none none none none), ("US", CalArgs.mk (some []) none none none)],
      op.1 = "UK" → op.2.isDefault = true := by decide

/-! ### Calendar.drange(t0, t1, 'kb') for other k (generated; the property text names '1b') -/

/-- any `k ≠ 0`, against the table: python's `range(i0, i1 + k, k)` many entries, the `i`-th one the table entry at
position `i0 + k·i`, where `i0`, `i1` are the table positions of the adjusted endpoints -/
theorem drange_kb (c : Cal) (x y k : Int) (lk : List Int) (h : c.drangeB x y k = .ok lk) :
    ∃ i0 i1 : Nat, c.bdays[i0]? = some (c.adjust c.adj x) ∧ c.bdays[i1]? = some (c.adjust c.adj y) ∧ k ≠ 0 ∧
      lk.length = pyRangeLen i0 (i1 + k) k ∧
      ∀ i : Nat, i < lk.length → 0 ≤ (i0 : Int) + i * k ∧ lk[i]? = c.bdays[((i0 : Int) + i * k).toNat]? := by
  obtain ⟨i0, i1, _, _, h0, h1, hk, len, get⟩ := drangeB_spec c x y k lk h
  exact ⟨i0, i1, h0, h1, hk, len, get⟩

/-- every k-th business day, k ≥ 1: at every position of the `'1b'` list, `l_k[i] = l_1[k·i]` (the `'kb'` list may have
one more entry, see `drange_kb_overshoot`) -/
theorem drange_kb_every_kth (c : Cal) (x y k : Int) (lk l1 : List Int) (hk : 1 ≤ k)
    (hK : c.drangeB x y k = .ok lk) (h1 : c.drangeB x y 1 = .ok l1) :
    ∀ i : Nat, k.toNat * i < l1.length → lk[i]? = l1[k.toNat * i]? := by
  obtain ⟨i0, i1, c0, c1, _, _, _, len, get⟩ := drangeB_spec c x y k lk hK
  obtain ⟨j0, j1, d0, d1, _, _, _, len1, get1⟩ := drangeB_spec c x y 1 l1 h1
  rw [c0] at d0; rw [c1] at d1
  cases d0; cases d1
  intro i hi
  have e : ((k.toNat * i : Nat) : Int) = (i : Int) * k := by
    rw [Int.natCast_mul, Int.toNat_of_nonneg (by omega), Int.mul_comm]
  have g1 := (get1 (k.toNat * i) hi).2
  have hlt : i < lk.length := by
    rw [len]
    rw [len1] at hi
    unfold pyRangeLen at hi ⊢
    have hk0 : k > 0 := by omega
    simp only [hk0, if_true]
    have h10 : (1 : Int) > 0 := by omega
    simp only [h10, if_true, Int.ediv_one] at hi
    have : ((i : Int) + 1) ≤ ((i1 : Int) + k - i0 + k - 1) / k := by
      rw [Int.le_ediv_iff_mul_le hk0, Int.add_mul]
      omega
    omega
  have g := (get i hlt).2
  rw [g, g1, e]
  simp


/-- `drange(x, y, '-1b')` walks the business days backwards: it is the reverse of `drange(y, x, '1b')` -/
theorem drange_neg1b_reverse (c : Cal) (x y : Int) (lr l1 : List Int)
    (hR : c.drangeB x y (-1) = .ok lr) (h1 : c.drangeB y x 1 = .ok l1) : lr = l1.reverse := by
  obtain ⟨i0, i1, c0, c1, _, _, _, len, get⟩ := drangeB_spec c x y (-1) lr hR
  obtain ⟨j0, j1, d0, d1, _, _, _, len1, get1⟩ := drangeB_spec c y x 1 l1 h1
  rw [c1] at d0; rw [c0] at d1
  cases d0; cases d1
  have hn : ¬ ((-1 : Int) > 0) := by omega
  have h10 : (1 : Int) > 0 := by omega
  unfold pyRangeLen at len len1
  simp only [hn, if_false, h10, if_true, Int.ediv_one, Int.neg_neg] at len len1
  apply List.ext_getElem?
  intro i
  by_cases hi : i < lr.length
  · have hi1 : l1.length - 1 - i < l1.length := by omega
    rw [List.getElem?_reverse (by omega), (get i hi).2, (get1 _ hi1).2]
    congr 1
    omega
  · rw [List.getElem?_eq_none (by omega), List.getElem?_eq_none (by simp; omega)]

/-- for k > 1 the list can end on a business day AFTER the adjusted right endpoint (`range(i0, i1 + k, k)` overshoots
when `k` does not divide `i1 - i0`): in `jan`, `drange(Mon 6 Jan, Thu 9 Jan, '2b')` = [6 Jan, 8 Jan, 10 Jan] -/
theorem drange_kb_overshoot :
    jan.drangeB 737430 737433 2 = .ok [737430, 737432, 737434] ∧ jan.adjust jan.adj 737433 = 737433 := ⟨by rfl, by decide⟩

/-- the hypotheses of `drange_kb_every_kth` / `drange_neg1b_reverse` are satisfiable -/
example : jan.drangeB 737430 737440 3 = .ok [737430, 737433, 737438, 737441] ∧
    jan.drangeB 737430 737440 1 = .ok [737430, 737431, 737432, 737433, 737434, 737437, 737438, 737439, 737440] :=
  ⟨by rfl, by rfl⟩
example : jan.drangeB 737440 737430 (-1) = .ok [737440, 737439, 737438, 737437, 737434, 737433, 737432, 737431, 737430] := by rfl

/-! ### the guard `InRange` in the statement's own vocabulary: day-by-day counts of business days on either side of `s` -/

/-- the table has one entry per business day of `[t0, t1]`: those before `s`, `s` itself, those after `s` -/
theorem bdays_length_split (c : Cal) (s : Int) (h0 : c.t0 ≤ s) (h1 : s ≤ c.t1) (hB : c.isB s = true) :
    c.bdays.length = cnt c c.t0 (s - 1) + 1 + cnt c (s + 1) c.t1 := by
  rw [bdays_split_at c s h0 h1 hB]; simp [cnt]; omega

/-- the guard by day-by-day counting, EXACTLY: `InRange c s n` says that `s` is a business day of `[t0, t1]`, that at least `n`
business days follow it up to `t1` (binding for `n > 0`) and at least `-n` precede it from `t0` (binding for `n < 0`) -/
theorem inRange_iff_margin (c : Cal) (s n : Int) :
    InRange c s n ↔ c.t0 ≤ s ∧ s ≤ c.t1 ∧ c.isB s = true ∧ n ≤ cnt c (s + 1) c.t1 ∧ -n ≤ cnt c c.t0 (s - 1) := by
  unfold InRange
  constructor
  · intro ⟨h0, h1, hB, a, b⟩
    have := bdays_length_split c s h0 h1 hB
    unfold K at a b
    exact ⟨h0, h1, hB, by omega, by omega⟩
  · intro ⟨h0, h1, hB, a, b⟩
    have := bdays_length_split c s h0 h1 hB
    unfold K
    exact ⟨h0, h1, hB, by omega, by omega⟩

/-- a sufficient form that does not look at the sign of `n`: `|n|` business days exist on either side of `s` inside the range -/
theorem inRange_of_margin (c : Cal) (s n : Int) (hs : c.t0 ≤ s ∧ s ≤ c.t1 ∧ c.isB s = true)
    (h : n.natAbs ≤ cnt c (s + 1) c.t1 ∧ n.natAbs ≤ cnt c c.t0 (s - 1)) : InRange c s n :=
  (inRange_iff_margin c s n).2 ⟨hs.1, hs.2.1, hs.2.2, by omega, by omega⟩

/-- one-sided: forward bumps need business days after `s` only, backward bumps before `s` only -/
theorem inRange_of_margin_fwd (c : Cal) (s : Int) (n : Nat) (hs : c.t0 ≤ s ∧ s ≤ c.t1 ∧ c.isB s = true)
    (h : n ≤ cnt c (s + 1) c.t1) : InRange c s n :=
  (inRange_iff_margin c s n).2 ⟨hs.1, hs.2.1, hs.2.2, by omega, by omega⟩

theorem inRange_of_margin_bwd (c : Cal) (s : Int) (n : Nat) (hs : c.t0 ≤ s ∧ s ≤ c.t1 ∧ c.isB s = true)
    (h : n ≤ cnt c c.t0 (s - 1)) : InRange c s (-(n : Int)) :=
  (inRange_iff_margin c s _).2 ⟨hs.1, hs.2.1, hs.2.2, by omega, by omega⟩

-- satisfiable: in `jan`, Thu 30 Jan (737454) has 11 business days after it and 20 before it
example : jan.t0 ≤ 737454 ∧ (737454 : Int) ≤ jan.t1 ∧ jan.isB 737454 = true ∧
    (2 : Int).natAbs ≤ cnt jan (737454 + 1) jan.t1 ∧ (2 : Int).natAbs ≤ cnt jan jan.t0 (737454 - 1) := by decide

/-- the n-th business day exists, in the statement's own vocabulary: if `n` business days follow `s = adjust(t)` inside the range,
`add(t, n)` returns the one with exactly `n` business days in `(s, r]` -/
theorem add_nth_fwd_of_margin (c : Cal) (a : Adj) (t : Int) (n : Nat)
    (hs : c.t0 ≤ c.adjust a t ∧ c.adjust a t ≤ c.t1 ∧ c.isB (c.adjust a t) = true) (h : n ≤ cnt c (c.adjust a t + 1) c.t1) :
    ∃ r, c.add a t n = .ok r ∧ c.isB r = true ∧ c.adjust a t ≤ r ∧ r ≤ c.t1 ∧ cnt c (c.adjust a t + 1) r = n :=
  add_nth_fwd c a t n (inRange_of_margin_fwd c _ n hs h)

theorem add_nth_bwd_of_margin (c : Cal) (a : Adj) (t : Int) (n : Nat)
    (hs : c.t0 ≤ c.adjust a t ∧ c.adjust a t ≤ c.t1 ∧ c.isB (c.adjust a t) = true) (h : n ≤ cnt c c.t0 (c.adjust a t - 1)) :
    ∃ r, c.add a t (-(n : Int)) = .ok r ∧ c.isB r = true ∧ r ≤ c.adjust a t ∧ c.t0 ≤ r ∧ cnt c r (c.adjust a t - 1) = n :=
  add_nth_bwd c a t n (inRange_of_margin_bwd c _ n hs h)

/-- on the table path the code answers exactly when enough business days exist on the side it bumps to -/
theorem add_table_ok_iff_margin (c : Cal) (a : Adj) (t n : Int) (hn : 2 ≤ n.natAbs) :
    (∃ r, c.add a t n = .ok r) ↔
      c.t0 ≤ c.adjust a t ∧ c.adjust a t ≤ c.t1 ∧ c.isB (c.adjust a t) = true ∧
      n ≤ cnt c (c.adjust a t + 1) c.t1 ∧ -n ≤ cnt c c.t0 (c.adjust a t - 1) := by
  rw [add_table_ok_iff c a t n hn, inRange_iff_margin]
/-! ### the object boundary (review s3 §3, review4 v3 §C05.3-1): holidays and range endpoints arrive as objects with a time of day and
`Calendar.__init__` floors them with `ymd` (defects C05-D2 `8faae3e`, C05-D3 `cff0dc3`).  The driver builds EVERY calendar through
`mkCalT`; the theorems state the flooring through membership / intervals, not through `floorDay` itself. -/

/-- the day an instant lies in, against the interval it is defined by (no division): `floorDay us = d` iff `d·DAYUS ≤ us < (d+1)·DAYUS` -/
theorem floorDay_iff (us d : Int) : floorDay us = d ↔ d * DAYUS ≤ us ∧ us < (d + 1) * DAYUS := by
  unfold floorDay DAYUS; omega

theorem mkCal_floors (month : Int → Int) (raw we : List Int) (r0 r1 : Int) :
    let c := mkCalT month { hol := some raw, weekend := some we, t0 := some r0, t1 := some r1 }
    (∀ d, d ∈ c.hol ↔ ∃ x ∈ raw, d * DAYUS ≤ x ∧ x < (d + 1) * DAYUS)
    ∧ (c.t0 * DAYUS ≤ r0 ∧ r0 < (c.t0 + 1) * DAYUS) ∧ (c.t1 * DAYUS ≤ r1 ∧ r1 < (c.t1 + 1) * DAYUS)
    ∧ c.weekend = we ∧ c.hol.length = raw.length := by
  intro c
  refine ⟨fun d => ?_, (floorDay_iff r0 _).mp rfl, (floorDay_iff r1 _).mp rfl, rfl, ?_⟩
  · show d ∈ raw.map floorDay ↔ _
    simp only [List.mem_map]
    constructor
    · rintro ⟨x, hx, e⟩; exact ⟨x, hx, (floorDay_iff x d).mp e⟩
    · rintro ⟨x, hx, e⟩; exact ⟨x, hx, (floorDay_iff x d).mpr e⟩
  · show (raw.map floorDay).length = _
    simp

/-- the time of day of a holiday / of a range endpoint does not matter (C05-D2, C05-D3): two argument lists that agree day by day
build the same calendar -/
theorem mkCalT_tod_irrelevant (month : Int → Int) (we days tods tods' : List Int) (d0 d1 s0 s1 s0' s1' : Int)
    (hl : tods.length = days.length) (hl' : tods'.length = days.length)
    (ht : ∀ s ∈ tods, 0 ≤ s ∧ s < DAYUS) (ht' : ∀ s ∈ tods', 0 ≤ s ∧ s < DAYUS)
    (h0 : 0 ≤ s0 ∧ s0 < DAYUS) (h1 : 0 ≤ s1 ∧ s1 < DAYUS) (h0' : 0 ≤ s0' ∧ s0' < DAYUS) (h1' : 0 ≤ s1' ∧ s1' < DAYUS) :
    mkCalT month { hol := some (List.zipWith (fun d s => d * DAYUS + s) days tods), weekend := some we, t0 := some (d0 * DAYUS + s0), t1 := some (d1 * DAYUS + s1) }
    = mkCalT month { hol := some (List.zipWith (fun d s => d * DAYUS + s) days tods'), weekend := some we, t0 := some (d0 * DAYUS + s0'), t1 := some (d1 * DAYUS + s1') }
    ∧ mkCalT month { hol := some (List.zipWith (fun d s => d * DAYUS + s) days tods), weekend := some we, t0 := some (d0 * DAYUS + s0), t1 := some (d1 * DAYUS + s1) }
    = mkCal month { hol := some days, weekend := some we, t0 := some d0, t1 := some d1 } := by
  have fl : ∀ d s : Int, 0 ≤ s ∧ s < DAYUS → floorDay (d * DAYUS + s) = d := fun d s h => (floorDay_iff _ d).mpr (by unfold DAYUS at *; omega)
  have key : ∀ (days tods : List Int), tods.length = days.length → (∀ s ∈ tods, 0 ≤ s ∧ s < DAYUS) →
      (List.zipWith (fun d s => d * DAYUS + s) days tods).map floorDay = days := by
    intro days
    induction days with
    | nil => intro tods _ _; simp
    | cons d ds ih =>
      intro tods hl ht
      match tods, hl, ht with
      | s :: ss, hl, ht =>
        simp only [List.zipWith_cons_cons, List.map_cons, List.cons.injEq]
        exact ⟨fl d s (ht s (by simp)), ih ss (by simpa using hl) (fun x hx => ht x (by simp [hx]))⟩
  have e : ∀ tods s0 s1, tods.length = days.length → (∀ s ∈ tods, 0 ≤ s ∧ s < DAYUS) → (0 ≤ s0 ∧ s0 < DAYUS) → (0 ≤ s1 ∧ s1 < DAYUS) →
      mkCalT month { hol := some (List.zipWith (fun d s => d * DAYUS + s) days tods), weekend := some we, t0 := some (d0 * DAYUS + s0), t1 := some (d1 * DAYUS + s1) }
      = mkCal month { hol := some days, weekend := some we, t0 := some d0, t1 := some d1 } := by
    intro tods s0 s1 hl ht h0 h1
    simp only [mkCalT, CalArgs.floor, Option.map_some, key days tods hl ht, fl d0 s0 h0, fl d1 s1 h1]
  exact ⟨(e tods s0 s1 hl ht h0 h1).trans (e tods' s0' s1' hl' ht' h0' h1').symm, e tods s0 s1 hl ht h0 h1⟩

/-- observed through `is_bday`: on a calendar built from objects with a time of day, `t` is a business day iff it is no weekend day and
NO holiday instant lies anywhere in the day `t` (a holiday is a DAY: C05-D2), and the business-day table runs from the day of `t0` to
the day of `t1` (C05-D3) -/
theorem isB_of_instants (month : Int → Int) (raw we : List Int) (r0 r1 t : Int) :
    let c := mkCalT month { hol := some raw, weekend := some we, t0 := some r0, t1 := some r1 }
    (c.isB t = true ↔ wd t ∉ we ∧ ∀ x ∈ raw, ¬ (t * DAYUS ≤ x ∧ x < (t + 1) * DAYUS))
    ∧ (t ∈ c.bdays ↔ (t + 1) * DAYUS > r0 ∧ t * DAYUS ≤ r1 ∧ c.isB t = true) := by
  intro c
  have hf := mkCal_floors month raw we r0 r1
  constructor
  · rw [isB_spec, hf.1 t]
    constructor
    · rintro ⟨h1, h2⟩; exact ⟨h1, fun x hx hh => h2 ⟨x, hx, hh⟩⟩
    · rintro ⟨h1, h2⟩; exact ⟨h1, fun ⟨x, hx, hh⟩ => h2 x hx hh⟩
  · rw [mem_bdays]
    have a := hf.2.1; have b := hf.2.2.1
    have e0 : c.t0 ≤ t ↔ (t + 1) * DAYUS > r0 := by
      change (mkCalT month _).t0 ≤ t ↔ _
      unfold DAYUS at *; constructor <;> intro h <;> omega
    have e1 : t ≤ c.t1 ↔ t * DAYUS ≤ r1 := by
      change t ≤ (mkCalT month _).t1 ↔ _
      unfold DAYUS at *; constructor <;> intro h <;> omega
    rw [e0, e1]

-- the instances of the two fixed defects: a holiday handed over at 09:30 / as the last microsecond of its day, a range that starts at 09:00
example :
    let c := mkCalT ymKey { hol := some [737425 * DAYUS + 34200000000, 737426 * DAYUS + (DAYUS - 1)], weekend := some [5, 6],
                            t0 := some (737394 * DAYUS + 32400000000), t1 := some (737456 * DAYUS + 63000000000) }
    c.hol = [737425, 737426] ∧ c.t0 = 737394 ∧ c.t1 = 737456 ∧ c.isB 737425 = false ∧ c.isB 737427 = true := by decide

/-! ### round k3: the converse of `drange_1b` (KeyError), and `Calendar.clock` -/

/-- "`s` is a key of the business-day table": a business day of the calendar's range -/
def InTable (c : Cal) (s : Int) : Prop := c.t0 ≤ s ∧ s ≤ c.t1 ∧ c.isB s = true

/-- `dt2int[s]` raises `KeyError` exactly when `s` is not a business day of the range (and never anything else) -/
theorem clockOf_error_iff (c : Cal) (s : Int) : clockOfT c.bdays s = .error .key ↔ ¬ InTable c s := by
  constructor
  · intro h hs
    rw [clockOf_bday c s hs.1 hs.2.1 hs.2.2] at h; cases h
  · intro h
    cases hc : clockOfT c.bdays s with
    | ok i => obtain ⟨a, b, d, _⟩ := clockOf_ok c s i hc; exact absurd ⟨a, b, d⟩ h
    | error e => unfold clockOfT at hc; split at hc <;> cases hc; rfl

/-- the CONVERSE of `drange_1b` (reviews t3 §5.4, v3 §C05-3.2): when an adjusted endpoint is not a business day of the
calendar's range, `Calendar.drange(x, y, 'kb')` raises `KeyError` — for EVERY step `k` (the look-ups come before the step is
used, also before the `ValueError` of `range(.., 0)`) -/
theorem drange_kb_error (c : Cal) (x y k : Int)
    (h : ¬ InTable c (c.adjust c.adj x) ∨ ¬ InTable c (c.adjust c.adj y)) : c.drangeB x y k = .error .key := by
  unfold Cal.drangeB Cal.drangeBT
  by_cases hx : InTable c (c.adjust c.adj x)
  · have hy : ¬ InTable c (c.adjust c.adj y) := by rcases h with h | h; exact absurd hx h; exact h
    rw [clockOf_bday c _ hx.1 hx.2.1 hx.2.2, (clockOf_error_iff c _).2 hy]; rfl
  · rw [(clockOf_error_iff c _).2 hx]; rfl

theorem drange_1b_error (c : Cal) (x y : Int)
    (h : ¬ InTable c (c.adjust c.adj x) ∨ ¬ InTable c (c.adjust c.adj y)) : c.drangeB x y 1 = .error .key :=
  drange_kb_error c x y 1 h

/-- `drange_1b` and its converse together: the call answers exactly when both adjusted endpoints are business days of the range;
then the answer is the list of `drange_1b`, otherwise `KeyError` -/
theorem drange_1b_ok_iff (c : Cal) (x y : Int) :
    (∃ l, c.drangeB x y 1 = .ok l) ↔ InTable c (c.adjust c.adj x) ∧ InTable c (c.adjust c.adj y) := by
  constructor
  · intro ⟨l, hl⟩
    by_cases hx : InTable c (c.adjust c.adj x)
    · by_cases hy : InTable c (c.adjust c.adj y)
      · exact ⟨hx, hy⟩
      · rw [drange_1b_error c x y (Or.inr hy)] at hl; cases hl
    · rw [drange_1b_error c x y (Or.inl hx)] at hl; cases hl
  · intro ⟨hx, hy⟩
    exact ⟨_, drange_1b c x y hx hy⟩

-- both sides occur in `jan`: Thu 6 Feb is in the table; a day after the range's end adjusts to a day beyond the range: KeyError
example : InTable jan (jan.adjust jan.adj 737461) ∧ ¬ InTable jan (jan.adjust jan.adj 737475) ∧
    jan.drangeB 737461 737475 1 = .error .key := by
  refine ⟨by unfold InTable; decide, by unfold InTable; decide, by rfl⟩

/-- `Calendar.clock(t)` — read literally in the model (`dt2int.get(t, dt2int[adjust(t)])`, default evaluated first) — is the table
position of `adjust(t)`: the `.get` on `t` itself never changes the answer, because a table key is its own adjustment -/
theorem clock_eq (c : Cal) (t : Int) : c.clock t = clockOfT c.bdays (c.adjust c.adj t) := by
  unfold Cal.clock Cal.clockT
  cases hd : clockOfT c.bdays (c.adjust c.adj t) with
  | error e => rfl
  | ok d =>
    cases hi : idxIn t c.bdays with
    | none => rfl
    | some i =>
      have hm := idxIn_some_mem t _ i hi
      rw [mem_bdays] at hm
      have hfix := Calendar.adjust_bday c c.adj t hm.1 hm.2.1 hm.2.2
      rw [hfix] at hd
      unfold clockOfT at hd
      rw [hi] at hd
      cases hd; rfl

/-- by day-by-day counting: `clock(t)` is the NUMBER OF BUSINESS DAYS of the range strictly before `adjust(t)` -/
theorem clock_counts (c : Cal) (t : Int) (h : InTable c (c.adjust c.adj t)) :
    c.clock t = .ok (cnt c c.t0 (c.adjust c.adj t - 1)) := by
  rw [clock_eq, clockOf_bday c _ h.1 h.2.1 h.2.2]; rfl

/-- `clock` answers exactly when `adjust(t)` is a business day of the range; otherwise `KeyError` -/
theorem clock_ok_iff (c : Cal) (t : Int) : (∃ i, c.clock t = .ok i) ↔ InTable c (c.adjust c.adj t) := by
  constructor
  · intro ⟨i, hi⟩
    rw [clock_eq] at hi
    obtain ⟨a, b, d, _⟩ := clockOf_ok c _ i hi
    exact ⟨a, b, d⟩
  · intro h; exact ⟨_, clock_counts c t h⟩

theorem clock_error (c : Cal) (t : Int) (h : ¬ InTable c (c.adjust c.adj t)) : c.clock t = .error .key := by
  rw [clock_eq]; exact (clockOf_error_iff c _).2 h

/-- `int2dt[clock(t)] == adjust(t)`: the clock is the inverse of the table -/
theorem clock_inverse (c : Cal) (t : Int) (i : Nat) (h : c.clock t = .ok i) : c.bdays[i]? = some (c.adjust c.adj t) := by
  rw [clock_eq] at h
  exact clockOfT_getElem? _ _ _ h

/-- the law `clock(add(t, n)) - clock(t) == n` (harness `law-clock`), for every `n` inside the guard -/
theorem clock_add (c : Cal) (t n : Int) (h : InRange c (c.adjust c.adj t) n) :
    ∃ r i j, c.add c.adj t n = .ok r ∧ c.clock t = .ok i ∧ c.clock r = .ok j ∧ (j : Int) - (i : Int) = n := by
  obtain ⟨r, hr, rB, r0, r1, rK⟩ := add_spec c c.adj t n h
  refine ⟨r, K c (c.adjust c.adj t), K c r, hr, ?_, ?_, by omega⟩
  · rw [clock_eq, clockOf_bday c _ h.1 h.2.1 h.2.2.1]
  · rw [clock_eq, Calendar.adjust_bday c c.adj r r0 r1 rB, clockOf_bday c r r0 r1 rB]

/-- the clock is strictly increasing along the business days of the range -/
theorem clock_strict_mono (c : Cal) (a b : Int) (ha : InTable c a) (hb : InTable c b) (hab : a < b) :
    ∃ i j, c.clock a = .ok i ∧ c.clock b = .ok j ∧ i < j := by
  refine ⟨K c a, K c b, ?_, ?_, K_lt c a b ha.1 hab ha.2.2⟩
  · rw [clock_eq, Calendar.adjust_bday c c.adj a ha.1 ha.2.1 ha.2.2, clockOf_bday c a ha.1 ha.2.1 ha.2.2]
  · rw [clock_eq, Calendar.adjust_bday c c.adj b hb.1 hb.2.1 hb.2.2, clockOf_bday c b hb.1 hb.2.1 hb.2.2]

-- Fri 31 Jan 2020 (a holiday of `jan`) adjusts to Thu 30 Jan, the 21st business day of the range (position 20)
example : jan.clock 737455 = .ok 20 ∧ jan.clock 737454 = .ok 20 ∧ jan.clock 737458 = .ok 21 ∧ jan.clock 737480 = .error .key :=
  ⟨by rfl, by rfl, by rfl, by rfl⟩

/-! ### round k3: registry histories with TABLE-BUILDING operations (reviews v3 §C05.1, notes j3 "NOT done")

`registry_last` quantifies over `calendar(k, args)` calls.  The registry holds OBJECTS whose business-day table is built once, by the
first `add(|n| ≥ 2)` / `bdays` / `drange` / `clock`, and kept (`CalObj`, `ObjRegistry`).  The history below may contain any such operation,
on any key, between the calls. -/

/-- the invariant of every history that does not re-register `k`: the object under `k` has the registered configuration and its
table — built or not — is not stale -/
theorem registry_object_invariant (month : Int → Int) (k : String) (c : Cal) (ops : List RegOp)
    (hops : ∀ op ∈ ops, ∀ a', op = .call k a' → a'.isDefault = true) :
    ∀ (r0 : ObjRegistry), (∃ o, r0.get? k = some o ∧ o.cal = c ∧ o.WF) →
      ∃ o, (runObj month r0 ops).get? k = some o ∧ o.cal = c ∧ o.WF := by
  induction ops with
  | nil => intro r0 h; exact h
  | cons op ops ih =>
    intro r0 ⟨o, hg, hc, hw⟩
    simp only [runObj, List.foldl_cons]
    apply ih (fun q hq => hops q (List.mem_cons_of_mem _ hq))
    cases op with
    | call k' a' =>
      refine ⟨o, ?_, hc, hw⟩
      exact ocalendar_frame month r0 k k' a' o hg (fun e => hops _ (List.mem_cons_self ..) a' (by rw [e]))
    | use k' u =>
      simp only [ObjRegistry.step, ObjRegistry.useAt]
      by_cases e : k' = k
      · subst e
        rw [ocalendar_fetch month r0 k' o hg]
        exact ⟨(o.use u).1, oget?_set_same _ _ _, by rw [CalObj.use_cal, hc], CalObj.use_wf o hw u⟩
      · refine ⟨o, ?_, hc, hw⟩
        rw [oget?_set_other _ k k' _ e]
        exact ocalendar_frame month r0 k k' _ o hg (fun e' => absurd e' e)

/-- **a calendar fetched by key reflects what it was last registered with — through every operation, after any history of calls AND
table-building operations**: after `calendar(k, args)` registered the key, let the history contain fetches, registrations of other keys
and `is_bday / adjust / add / bdays / drange / clock` on the calendars fetched under ANY key (`k` included: its table gets built on the
way).  Then `calendar(k)` is the calendar built from `args`, and every operation on it answers what that calendar answers from its
own table — no table built for an earlier registration or another key is ever read. -/
theorem registry_last_objects (month : Int → Int) (r : ObjRegistry) (k : String) (a : CalArgs)
    (hreg : a.isDefault = false ∨ r.get? k = none)
    (ops : List RegOp) (hops : ∀ op ∈ ops, ∀ a', op = .call k a' → a'.isDefault = true) (u : Use) :
    let r' := runObj month ((r.calendar month k a).1) ops
    (r'.calendar month k ⟨none, none, none, none⟩).2.cal = mkCal month a ∧
    (r'.calendar month k ⟨none, none, none, none⟩).2.cal.hol = a.hol.getD [] ∧
    (r'.useAt month k u).2 = (mkCal month a).use u := by
  have h0 : ∃ o, ((r.calendar month k a).1).get? k = some o ∧ o.cal = mkCal month a ∧ o.WF := by
    refine ⟨CalObj.fresh (mkCal month a), ?_, rfl, CalObj.fresh_wf _⟩
    unfold ObjRegistry.calendar
    rcases hreg with h | h
    · cases hg : r.get? k <;> simp [h, oget?_set_same]
    · simp [h, oget?_set_same]
  obtain ⟨o, hg, hc, hw⟩ := registry_object_invariant month k (mkCal month a) ops hops _ h0
  simp only
  rw [ocalendar_fetch month _ k o hg]
  refine ⟨hc, by rw [hc]; rfl, ?_⟩
  simp only [ObjRegistry.useAt]
  rw [ocalendar_fetch month _ k o hg, CalObj.use_ans o hw u, hc]

/-- the hypotheses are satisfiable on a history with table-building operations: register UK with a holiday, build its table (`add 2`),
register US, use it, fetch UK -/
example : (CalArgs.mk (some [737455]) none none none).isDefault = false ∧
    ∀ op ∈ [RegOp.use "UK" (.add .m 737455 2), .call "US" (CalArgs.mk (some []) none none none), .use "US" (.bdays .m 737455 737460),
            .call "UK" (CalArgs.mk none none none none), .use "UK" (.clock 737455)],
      ∀ a', op = .call "UK" a' → a'.isDefault = true := by
  refine ⟨by decide, ?_⟩
  intro op hop a' h
  simp only [List.mem_cons, List.not_mem_nil, or_false] at hop
  rcases hop with rfl | rfl | rfl | rfl | rfl
  · cases h
  · injection h with h1 h2; exact absurd h1 (by decide)
  · cases h
  · injection h with h1 h2; subst h2; decide
  · cases h

end Pyg.Props.C05
