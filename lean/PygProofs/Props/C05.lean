/-
  C05 — Calendar business-day arithmetic agrees with day-by-day counting.
-/
import PygModel.Calendar

namespace Pyg.Props.C05
open Pyg Pyg.Calendar Pyg.Civil

/-- `is_bday(t)` holds exactly when `t` is neither a weekend day nor a holiday -/
theorem isB_spec (c : Cal) (t : Int) : c.isB t = true ↔ wd t ∉ c.weekend ∧ t ∉ c.hol := by
  simp [Cal.isB]

end Pyg.Props.C05
