/-
  C02 — join is the relational inner/cross join and xor the anti-join; both terminate.
  Property theorems only (helper lemmas: PygProofs/Lemmas/JoinLemmas.lean).

  Vocabulary: `lk`, `rk` are the per-row keys of the two tables (what `dictable[lcols]` returns: one
  tuple per row); `keyAt ks i` is the key of row `i`; key equality is `cmp · · = .eq`, which by C07
  identifies an int with the same-valued float, `None` with `None` and NaN with NaN.
-/
import PygModel.Join
import PygModel.Native
import PygModel.JoinDriver
import PygProofs.Lemmas.JoinLemmas
import PygProofs.Lemmas.KeyEq
import PygProofs.Lemmas.JoinCols
import PygProofs.Lemmas.NativeLemmas

namespace Pyg.Props.C02
open Pyg

/-! ## termination of the sort-merge loop -/

/-- **progress**: while the loop condition `l<ls and r<rs` holds, one pass through the loop body
moves at least one cursor: the number of groups not yet passed strictly decreases.  The proof uses
only that `cmp` returns one of `lt / gt / eq` and that the match step tests `cmp == 0`. -/
theorem outer_progress {β} (e : Emit β) (lxs rxs : List Grp) (st : MState β)
    (h : st.l < lxs.length ∧ st.r < rxs.length) :
    (outer e lxs rxs st).measure lxs rxs < st.measure lxs rxs :=
  (outer_spec e lxs rxs st h).1

/-- **termination**: from any state, `measure` passes of the loop body reach a state in which the
loop condition is false, and additional fuel changes nothing (the fuel is only a bound). -/
theorem merge_terminates_from {β} (e : Emit β) (lxs rxs : List Grp) (st : MState β) (fuel : Nat)
    (h : st.measure lxs rxs ≤ fuel) :
    ¬ ((mergeLoop e lxs rxs fuel st).l < lxs.length ∧ (mergeLoop e lxs rxs fuel st).r < rxs.length) ∧
    ∀ k, mergeLoop e lxs rxs (fuel + k) st = mergeLoop e lxs rxs fuel st := by
  have := mergeLoop_spec e lxs rxs fuel st h
  exact ⟨this.1, this.2.2⟩

/-- the loop as `join` / `xor` run it (from `l = r = 0`, fuel `ls + rs`) exits through its condition -/
theorem merge_terminates {β} (e : Emit β) (lxs rxs : List Grp) :
    ¬ ((mergeRun e lxs rxs).l < lxs.length ∧ (mergeRun e lxs rxs).r < rxs.length) ∧
    ∀ k, mergeLoop e lxs rxs (lxs.length + rxs.length + k) ⟨0, 0, []⟩ = mergeRun e lxs rxs :=
  merge_terminates_from e lxs rxs ⟨0, 0, []⟩ _ (by simp [MState.measure])

/-- the loop computes the structural merge of the two group lists (no sortedness needed):
emitted values, and the unconsumed suffixes that `xor` appends afterwards -/
theorem merge_loop_is_merge {β} (e : Emit β) (lxs rxs : List Grp) :
    ((mergeRun e lxs rxs).res, lxs.drop (mergeRun e lxs rxs).l, rxs.drop (mergeRun e lxs rxs).r)
      = mergeG e lxs rxs :=
  mergeRun_eq e lxs rxs

/-- Python `==` on two key tuples of scalar cells (NaN ≠ NaN): the test of the unrepaired code -/
def tupEq : Val → Val → Bool
  | .tuple xs, .tuple ys =>
    xs.length == ys.length && (xs.zip ys).all fun p =>
      match p with
      | (.cell a, .cell b) => a.pyEq b
      | _ => false
  | _, _ => false

/-- **finding F1**: with the original match test `lxs[l] == rxs[r]` progress fails.  On one NaN key
per side `cmp` says equal (no inner loop moves) and `==` says different (the match step does not
move): the state is a fixed point of the loop body, so the loop never exits, whatever the fuel. -/
theorem orig_loop_stuck :
    let g : List Grp := [(.tuple [.cell .nan], [0])]
    let st : MState Match := ⟨0, 0, []⟩
    (st.l < g.length ∧ st.r < g.length) ∧ outerWith tupEq joinEmit g g st = st ∧
    ∀ n, mergeLoopWith tupEq joinEmit g g n st = st := by
  intro g st
  have hfix : outerWith tupEq joinEmit g g st = st := by rfl
  refine ⟨by decide, hfix, ?_⟩
  intro n
  induction n with
  | zero => rfl
  | succ n ih =>
    simp only [mergeLoopWith]
    rw [if_pos (by decide), hfix, ih]

/-! ## `_listby` -/

/-- the groups of `_listby`: concatenating the row-id lists gives the stable sort permutation of the
keys (so every row is in exactly one group), the group keys are strictly increasing under `cmp`
(so distinct groups have different keys), and every row's key is `cmp`-equal to its group's key. -/
theorem listby_groups (keys : List Val) :
    (listbyG keys).flatMap (·.2) = sortIdx keys ∧
    ((listbyG keys).flatMap (·.2)).Perm (List.range keys.length) ∧
    (listbyG keys).Pairwise (fun a b => cmp a.1 b.1 = .lt) ∧
    ∀ g ∈ listbyG keys, ∀ i ∈ g.2, i < keys.length ∧ cmp (keyAt keys i) g.1 = .eq := by
  refine ⟨listbyG_flat keys, listbyG_perm keys, listbyG_sorted keys, ?_⟩
  intro g hg i hi
  obtain ⟨k, hk, he⟩ := listbyG_keys keys g hg i hi
  exact ⟨(List.getElem?_eq_some_iff.1 hk).1, by rw [keyAt_of_get hk]; exact he⟩

/-! ## join -/

/-- **join, row level**: left row `i` and right row `j` are paired in the result iff both exist and
their keys are equal under `cmp` -/
theorem join_pairs_iff (lk rk : List Val) (i j : Nat) :
    (i, j) ∈ joinPairs lk rk ↔
      i < lk.length ∧ j < rk.length ∧ cmp (keyAt lk i) (keyAt rk j) = .eq :=
  mem_joinPairs

/-- **join, as a multiset**: the (left row, right row) pairs of the result are a permutation of the
index pairs with equal keys — each such pair exactly once, nothing else (many-to-many keys give the
full product of the two groups) -/
theorem join_pairs_spec (lk rk : List Val) :
    (joinPairs lk rk).Perm
      ((allPairs lk.length rk.length).filter fun p => cmp (keyAt lk p.1) (keyAt rk p.2) == .eq) :=
  joinPairs_perm lk rk

/-- **join, table level** (`lcols`, `rcols` given, at least one key column).  The result has the
columns `cols + lkeys + rkeys + jkeys`; its rows are `kp.map …` for a list `kp` of
`(key, left row, right row)` triples such that the `(left, right)` parts are exactly the key-equal
index pairs (as a multiset) and the key carried by a row is `cmp`-equal to the keys of both rows.
Same-named non-key columns are combined by `mode`. -/
theorem join_spec (x y : Table) (lc rc : List KeySpec) (mode : Mode)
    (cols : List String) (lk rk : List Val)
    (hlen : lc.length = rc.length) (hcols : joinColNames lc rc = .ok cols)
    (hnd : cols.Nodup) (hne : cols ≠ [])
    (hlk : x.keysOf lc = .ok lk) (hrk : y.keysOf rc = .ok rk) :
    ∃ kp : List (Val × Nat × Nat),
      join x y (some lc) (some rc) mode = some (.ok (joinTableOf x y cols mode kp)) ∧
      (kp.map (·.2)).Perm
        ((allPairs x.nrows y.nrows).filter fun p => cmp (keyAt lk p.1) (keyAt rk p.2) == .eq) ∧
      ∀ p ∈ kp, cmp p.1 (keyAt lk p.2.1) = .eq ∧ cmp p.1 (keyAt rk p.2.2) = .eq := by
  refine ⟨keyedPairs (joinMatches lk rk), ?_, ?_, keyedPairs_keys⟩
  · have hne' : cols.isEmpty = false := by cases cols <;> simp_all
    simp only [join, Option.getD_some, hlen, ne_eq, not_true_eq_false, if_false, hcols, hnd,
      hne', hlk, hrk, Bool.false_eq_true]
    simp only [bind, Except.bind, pure, Except.pure]
    rw [joinBody_rows]
  · rw [keyedPairs_snd, ← keysOf_length hlk, ← keysOf_length hrk]
    exact joinPairs_perm lk rk

/-- the result table is rectangular: every column has one cell per result row -/
theorem join_rect (x y : Table) (cols : List String) (mode : Mode) (kp : List (Val × Nat × Nat)) :
    ∀ c ∈ joinTableOf x y cols mode kp, c.2.length = kp.length := by
  intro c hc
  simp only [joinTableOf, List.mem_append, List.mem_map] at hc
  rcases hc with ((⟨a, _, rfl⟩ | ⟨a, _, rfl⟩) | ⟨a, _, rfl⟩) | ⟨a, _, rfl⟩ <;> simp

/-- omitted `lcols` / `rcols` mean the shared columns (in the left table's order) on both sides -/
theorem join_default_cols (x y : Table) (mode : Mode) :
    join x y none none mode =
      join x y (some ((linter x.cols y.cols).map .col)) (some ((linter x.cols y.cols).map .col)) mode ∧
    ∀ lc, join x y (some lc) none mode = join x y (some lc) (some lc) mode := by
  constructor <;> intros <;> simp [join]

theorem xor_default_cols (x y : Table) (mode : Nat) :
    xor x y none none mode =
      xor x y (some ((linter x.cols y.cols).map .col)) (some ((linter x.cols y.cols).map .col)) mode := by
  simp [xor]

/-- **cross join** (no key column): the full product of the two tables, row-major -/
theorem cross_spec (x y : Table) (mode : Mode) :
    join x y (some []) (some []) mode =
      some (.ok (joinTableOf x y [] mode
        ((allPairs x.nrows y.nrows).map fun p => (.cell .none, p.1, p.2)))) := by
  simp only [join, Option.getD_some, joinColNames, List.length_nil, ne_eq, not_true_eq_false,
    if_false, List.nodup_nil, List.isEmpty_nil, if_true]
  simp [joinBody, joinTableOf, expand_cross, List.map_map, Function.comp_def]

/-! ## xor -/

/-- **xor, as a multiset** (mode `'l'`): the selected left row ids are a permutation of the rows of
`x` whose key is equal to no key of `y`.  (`hk`: no left key is `cmp`-equal to the `None` placeholder
of `_listby`; keys built by `dictable[cols]` are tuples — `keysOf_tuple` — so this always holds.) -/
theorem xor_ids_spec (lk rk : List Val) (hk : ∀ k ∈ lk, cmp k (.cell .none) ≠ .eq) :
    (xorIds 0 lk rk).Perm
      ((List.range lk.length).filter fun i =>
        (List.range rk.length).all fun j => cmp (keyAt lk i) (keyAt rk j) != .eq) :=
  xorIds_perm hk

/-- **xor, table level**: `x.xor(y, lcols, rcols)` is `x` restricted to a list of row ids which is,
as a multiset, exactly the rows of `x` whose key matches no row of `y` -/
theorem xor_spec (x y : Table) (lc rc : List KeySpec) (lk rk : List Val)
    (hlen : lc.length = rc.length) (hne : lc ≠ [])
    (hlk : x.keysOf lc = .ok lk) (hrk : y.keysOf rc = .ok rk) :
    ∃ ids : List Nat,
      xor x y (some lc) (some rc) 0 = .ok (x.gatherRows ids) ∧
      ids.Perm ((List.range x.nrows).filter fun i =>
        (List.range y.nrows).all fun j => cmp (keyAt lk i) (keyAt rk j) != .eq) := by
  refine ⟨xorIds 0 lk rk, ?_, ?_⟩
  · have hne' : lc.isEmpty = false := by cases lc <;> simp_all
    simp [xor, hlen, hne', hlk, hrk, bind, Except.bind, pure, Except.pure]
  · rw [← keysOf_length hlk, ← keysOf_length hrk]
    exact xorIds_perm (keysOf_tuple hlk)

/-- **xor, mode 'r'**: the same statement with the roles exchanged — `x.xor(y, …, mode='r')` is `y`
restricted to (a permutation of) its rows whose key matches no row of `x` -/
theorem xor_spec_r (x y : Table) (lc rc : List KeySpec) (lk rk : List Val)
    (hlen : lc.length = rc.length) (hne : lc ≠ [])
    (hlk : x.keysOf lc = .ok lk) (hrk : y.keysOf rc = .ok rk) :
    ∃ ids : List Nat,
      xor x y (some lc) (some rc) 1 = .ok (y.gatherRows ids) ∧
      ids.Perm ((List.range y.nrows).filter fun j =>
        (List.range x.nrows).all fun i => cmp (keyAt lk i) (keyAt rk j) != .eq) := by
  refine ⟨xorIds 1 lk rk, ?_, ?_⟩
  · have hne' : lc.isEmpty = false := by cases lc <;> simp_all
    simp [xor, hlen, hne', hlk, hrk, bind, Except.bind, pure, Except.pure]
  · rw [← keysOf_length hlk, ← keysOf_length hrk]
    apply xorIds1_perm
    intro k hk he
    exact keysOf_tuple hrk k hk (cmp_eq_symm he)

/-- with no key column `xor` returns `x` itself -/
theorem xor_nokey (x y : Table) (mode : Nat) : xor x y (some []) (some []) mode = .ok x := by
  simp [xor]

/-! ## left join = x*y + x/y -/

/-- **partition**: every row of `x` lies in exactly one of `x / y` and the matched part of `x * y`;
`x / y` holds it once, and `x * y` holds it once per matching row of `y`. -/
theorem left_join_partition (lk rk : List Val) (hk : ∀ k ∈ lk, cmp k (.cell .none) ≠ .eq)
    (i : Nat) (hi : i < lk.length) :
    (i ∈ xorIds 0 lk rk ↔ ¬ ∃ j, (i, j) ∈ joinPairs lk rk) ∧
    (xorIds 0 lk rk).Nodup ∧
    ((joinPairs lk rk).filter (·.1 == i)).Perm
      (((List.range rk.length).filter fun j => cmp (keyAt lk i) (keyAt rk j) == .eq).map
        fun j => (i, j)) := by
  refine ⟨?_, xorIds_nodup lk rk, ?_⟩
  · rw [mem_xorIds hk]
    simp only [mem_joinPairs, hi, true_and, not_exists, not_and]
  · rw [List.perm_ext_iff_of_nodup ((joinPairs_nodup lk rk).sublist List.filter_sublist)]
    · rintro ⟨a, b⟩
      simp only [List.mem_filter, mem_joinPairs, List.mem_map, List.mem_range, beq_iff_eq,
        Prod.mk.injEq]
      constructor
      · rintro ⟨⟨_, hb, hc⟩, rfl⟩
        exact ⟨b, ⟨hb, hc⟩, rfl, rfl⟩
      · rintro ⟨j, ⟨hj, hc⟩, rfl, rfl⟩
        exact ⟨⟨hi, hj, hc⟩, rfl⟩
    · rw [List.nodup_iff_pairwise_ne, List.pairwise_map]
      apply (List.nodup_iff_pairwise_ne.1
        (List.nodup_range.sublist List.filter_sublist)).imp
      intro a b hne h
      exact hne (by simpa using h)

/-! ## the key equalities the statement singles out (inherited from C07) -/

theorem key_int_float (n : Int) :
    cmp (.tuple [.cell (.int n)]) (.tuple [.cell (.flt (4 * n))]) = .eq := by
  have h := Props.C07.cmp_int_float n
  simp only [cmp, Val.norm, normList, cmpN, cmpArr] at h ⊢
  simp [h]

theorem key_none_none : cmp (.tuple [.cell .none]) (.tuple [.cell .none]) = .eq := cmp_self _

theorem key_nan_nan : cmp (.tuple [.cell .nan]) (.tuple [.cell .nan]) = .eq := cmp_self _

/-! ## key equality, characterised against the statement's own wording

`keyEq` (PygProofs/Lemmas/KeyEq.lean) is written from the statement: two scalar keys are equal iff both are
`None`, both NaN, the same infinity, numbers of one value (int = same-valued float), the same string, the
same instant — and in no other case.  The model's `cmp` returns 0 on exactly these pairs, component by
component on key tuples.  So "`cmp · · = .eq`" in every theorem of this file means this relation, neither
more nor less: a `cmp` that matched 1 with '1' or `None` with NaN would falsify `key_eq_iff`. -/

theorem key_eq_iff (xs ys : List Cell) :
    cmp (.tuple (xs.map .cell)) (.tuple (ys.map .cell)) = .eq ↔ keysEq xs ys :=
  cmp_tuple_eq_iff xs ys

theorem key_eq_cell_iff (a b : Cell) :
    cmp (.tuple [.cell a]) (.tuple [.cell b]) = .eq ↔ keyEq a b = true := by
  have := key_eq_iff [a] [b]
  simp only [List.map_cons, List.map_nil] at this
  rw [this, keysEq]
  constructor
  · rintro ⟨_, h⟩; simpa using h 0 (by simp)
  · intro h
    refine ⟨rfl, fun i hi => ?_⟩
    have : i = 0 := by simpa using hi
    subst this; simpa using h

/-- what is NOT a match: a number and its spelling, `None` and NaN, NaN and an infinity, the two infinities,
different numbers, `None` and the empty string / zero -/
theorem key_distinct :
    cmp (.tuple [.cell (.int 1)]) (.tuple [.cell (.str "1")]) ≠ .eq ∧
    cmp (.tuple [.cell .none]) (.tuple [.cell .nan]) ≠ .eq ∧
    cmp (.tuple [.cell .pinf]) (.tuple [.cell .nan]) ≠ .eq ∧
    cmp (.tuple [.cell .pinf]) (.tuple [.cell .ninf]) ≠ .eq ∧
    cmp (.tuple [.cell (.int 1)]) (.tuple [.cell (.flt 5)]) ≠ .eq ∧
    cmp (.tuple [.cell .none]) (.tuple [.cell (.str "")]) ≠ .eq ∧
    cmp (.tuple [.cell .none]) (.tuple [.cell (.int 0)]) ≠ .eq ∧
    cmp (.tuple [.cell (.int 1), .cell (.int 2)]) (.tuple [.cell (.int 1)]) ≠ .eq := by
  refine ⟨?_, ?_, ?_, ?_, ?_, ?_, ?_, ?_⟩ <;> (try rw [key_eq_cell_iff]) <;> decide

/-- whatever the result carries as the key of a row whose key is a tuple of scalar cells is such a tuple,
`keyEq` to it component by component -/
theorem key_carried {v : Val} {ys : List Cell} (h : cmp v (.tuple (ys.map .cell)) = .eq) :
    ∃ xs : List Cell, v = .tuple (xs.map .cell) ∧ keysEq xs ys :=
  cmp_eq_tuple_cells h

/-! ## join and xor on named key columns, stated through the cells of the two tables

`x.keyCells ln i` are the cells of row `i` of `x` in the columns `ln`; nothing of the model's key extraction,
sorting, grouping or merging appears in the statement. -/

/-- **join on named columns**: the result rows are (as a multiset) exactly the pairs of a row of `x` and a row
of `y` whose key cells are `keyEq` column by column; each row carries a key tuple that is `keyEq`, component by
component, to the key cells of both its rows. -/
theorem join_named_spec (x y : Table) (ln rn : List String) (mode : Mode)
    (hlen : ln.length = rn.length) (hnd : ln.Nodup) (hne : ln ≠ [])
    (hx : ∀ k ∈ ln, k ∈ x.cols) (hy : ∀ k ∈ rn, k ∈ y.cols) :
    ∃ kp : List (Val × Nat × Nat),
      join x y (some (ln.map .col)) (some (rn.map .col)) mode
        = some (.ok (joinTableOf x y ln mode kp)) ∧
      (kp.map (·.2)).Perm
        ((allPairs x.nrows y.nrows).filter fun p =>
          keysEqB (x.keyCells ln p.1) (y.keyCells rn p.2)) ∧
      ∀ p ∈ kp, ∃ cs : List Cell, p.1 = .tuple (cs.map .cell) ∧
        keysEq cs (x.keyCells ln p.2.1) ∧ keysEq cs (y.keyCells rn p.2.2) := by
  obtain ⟨kp, hj, hp, hk⟩ := join_spec x y (ln.map .col) (rn.map .col) mode ln
    (x.rowKeys ln) (y.rowKeys rn) (by simpa using hlen) (joinColNames_named ln rn hlen) hnd hne
    (keysOf_named hx) (keysOf_named hy)
  have hf : ((allPairs x.nrows y.nrows).filter fun p =>
        cmp (keyAt (x.rowKeys ln) p.1) (keyAt (y.rowKeys rn) p.2) == .eq) =
      (allPairs x.nrows y.nrows).filter fun p => keysEqB (x.keyCells ln p.1) (y.keyCells rn p.2) := by
    apply List.filter_congr
    rintro ⟨i, j⟩ hm
    obtain ⟨hi, hj⟩ := mem_allPairs.1 hm
    exact cmp_rowKeys_eq hi hj
  rw [hf] at hp
  refine ⟨kp, hj, hp, ?_⟩
  intro p hpm
  have hm : p.2 ∈ (allPairs x.nrows y.nrows).filter fun p =>
      keysEqB (x.keyCells ln p.1) (y.keyCells rn p.2) :=
    hp.mem_iff.1 (List.mem_map.2 ⟨p, hpm, rfl⟩)
  obtain ⟨hi, hj⟩ := mem_allPairs.1 (List.mem_filter.1 hm).1
  obtain ⟨h1, h2⟩ := hk p hpm
  rw [keyAt_rowKeys hi] at h1
  rw [keyAt_rowKeys hj] at h2
  obtain ⟨cs, hcs, he⟩ := cmp_eq_tuple_cells h1
  refine ⟨cs, hcs, he, ?_⟩
  rw [hcs] at h2
  exact (cmp_tuple_eq_iff _ _).1 h2


/-- **xor on named columns**: `x.xor(y, ln, rn)` is `x` restricted to (a permutation of) its rows whose key
cells are `keyEq` to the key cells of no row of `y` -/
theorem xor_named_spec (x y : Table) (ln rn : List String)
    (hlen : ln.length = rn.length) (hne : ln ≠ [])
    (hx : ∀ k ∈ ln, k ∈ x.cols) (hy : ∀ k ∈ rn, k ∈ y.cols) :
    ∃ ids : List Nat,
      xor x y (some (ln.map .col)) (some (rn.map .col)) 0 = .ok (x.gatherRows ids) ∧
      ids.Perm ((List.range x.nrows).filter fun i =>
        (List.range y.nrows).all fun j => !keysEqB (x.keyCells ln i) (y.keyCells rn j)) := by
  obtain ⟨ids, h1, h2⟩ := xor_spec x y (ln.map .col) (rn.map .col) (x.rowKeys ln) (y.rowKeys rn)
    (by simpa using hlen) (by simpa using hne) (keysOf_named hx) (keysOf_named hy)
  refine ⟨ids, h1, ?_⟩
  have hf : ((List.range x.nrows).filter fun i => (List.range y.nrows).all fun j =>
        cmp (keyAt (x.rowKeys ln) i) (keyAt (y.rowKeys rn) j) != .eq) =
      (List.range x.nrows).filter fun i => (List.range y.nrows).all fun j =>
        !keysEqB (x.keyCells ln i) (y.keyCells rn j) := by
    apply List.filter_congr
    intro i hi
    rw [Bool.eq_iff_iff, List.all_eq_true, List.all_eq_true]
    constructor <;> intro h j hj
    · rw [← cmp_rowKeys_eq (List.mem_range.1 hi) (List.mem_range.1 hj)]; exact h j hj
    · have := h j hj
      rw [← cmp_rowKeys_eq (List.mem_range.1 hi) (List.mem_range.1 hj)] at this; exact this
  rw [← hf]; exact h2

/-- the same for mode 'r': the rows of `y` whose key cells match no row of `x` -/
theorem xor_named_spec_r (x y : Table) (ln rn : List String)
    (hlen : ln.length = rn.length) (hne : ln ≠ [])
    (hx : ∀ k ∈ ln, k ∈ x.cols) (hy : ∀ k ∈ rn, k ∈ y.cols) :
    ∃ ids : List Nat,
      xor x y (some (ln.map .col)) (some (rn.map .col)) 1 = .ok (y.gatherRows ids) ∧
      ids.Perm ((List.range y.nrows).filter fun j =>
        (List.range x.nrows).all fun i => !keysEqB (x.keyCells ln i) (y.keyCells rn j)) := by
  obtain ⟨ids, h1, h2⟩ := xor_spec_r x y (ln.map .col) (rn.map .col) (x.rowKeys ln) (y.rowKeys rn)
    (by simpa using hlen) (by simpa using hne) (keysOf_named hx) (keysOf_named hy)
  refine ⟨ids, h1, ?_⟩
  have hf : ((List.range y.nrows).filter fun j => (List.range x.nrows).all fun i =>
        cmp (keyAt (x.rowKeys ln) i) (keyAt (y.rowKeys rn) j) != .eq) =
      (List.range y.nrows).filter fun j => (List.range x.nrows).all fun i =>
        !keysEqB (x.keyCells ln i) (y.keyCells rn j) := by
    apply List.filter_congr
    intro j hj
    rw [Bool.eq_iff_iff, List.all_eq_true, List.all_eq_true]
    constructor <;> intro h i hi
    · rw [← cmp_rowKeys_eq (List.mem_range.1 hi) (List.mem_range.1 hj)]; exact h i hi
    · have := h i hi
      rw [← cmp_rowKeys_eq (List.mem_range.1 hi) (List.mem_range.1 hj)] at this; exact this
  rw [← hf]; exact h2

/-! ## which columns the result has, and what they hold

`join_spec` gives the result as `joinTableOf x y cols mode kp`; the theorems below read that table back by
column NAME (`vcol?` = first column of that name, as `dict` access), so they pin down the column bookkeeping
(`lkeys / rkeys / jkeys`) against the statement: "each row carries the key, every other column of both sides,
same-named non-key columns combined as the mode prescribes". -/

/-- the key column `cols[j]` holds component `j` of the key each row carries -/
theorem join_col_key (x y : Table) (cols : List String) (mode : Mode) (kp : List (Val × Nat × Nat))
    (hnd : cols.Nodup) {j : Nat} (hj : j < cols.length) :
    vcol? (joinTableOf x y cols mode kp) cols[j] = some (kp.map fun p => tupleGet j p.1) :=
  vcol_key x y cols mode kp hnd hj

/-- a column only `x` has (and that is not named like a key column of the result) is in the result and holds,
in every row, the cell of that row's `x` row -/
theorem join_col_left (x y : Table) (cols : List String) (mode : Mode) (kp : List (Val × Nat × Nat))
    {k : String} (hx : k ∈ x.cols) (hy : k ∉ y.cols) (hc : k ∉ cols) :
    vcol? (joinTableOf x y cols mode kp) k = some (kp.map fun p => .cell (x.jcellAt k p.2.1)) :=
  vcol_left x y cols mode kp hx hy hc

theorem join_col_right (x y : Table) (cols : List String) (mode : Mode) (kp : List (Val × Nat × Nat))
    {k : String} (hx : k ∉ x.cols) (hy : k ∈ y.cols) (hc : k ∉ cols) :
    vcol? (joinTableOf x y cols mode kp) k = some (kp.map fun p => .cell (y.jcellAt k p.2.2)) :=
  vcol_right x y cols mode kp hx hy hc

/-- a column both tables have is combined by `mode`: the pair / the left / the right cell / `f(l, r)` -/
theorem join_col_both (x y : Table) (cols : List String) (mode : Mode) (kp : List (Val × Nat × Nat))
    {k : String} (hx : k ∈ x.cols) (hy : k ∈ y.cols) (hc : k ∉ cols) :
    vcol? (joinTableOf x y cols mode kp) k =
      some (kp.map fun p => mode.apply (x.jcellAt k p.2.1) (y.jcellAt k p.2.2)) :=
  vcol_both x y cols mode kp hx hy hc

/-- the result has no column that is neither a key name nor a column of an operand -/
theorem join_col_none (x y : Table) (cols : List String) (mode : Mode) (kp : List (Val × Nat × Nat))
    {k : String} (hx : k ∉ x.cols) (hy : k ∉ y.cols) (hc : k ∉ cols) :
    vcol? (joinTableOf x y cols mode kp) k = none :=
  vcol_none x y cols mode kp hx hy hc

/-- **every other column of both sides** — under the side condition that no column of `x` outside its key
columns `lnames`, and no column of `y` outside its key columns `rnames`, is named like a key column of the
result.  Then every such column is in the result and holds that side's cell (combined by `mode` when both
sides have it).  Without the side condition the clause is FALSE of the code: `join_drops_column`. -/
theorem join_keeps_other_columns (x y : Table) (cols lnames rnames : List String) (mode : Mode)
    (kp : List (Val × Nat × Nat))
    (hside : ∀ k ∈ cols, (k ∈ x.cols → k ∈ lnames) ∧ (k ∈ y.cols → k ∈ rnames)) :
    (∀ k ∈ x.cols, k ∉ lnames →
      vcol? (joinTableOf x y cols mode kp) k = some (kp.map fun p =>
        if k ∈ y.cols then mode.apply (x.jcellAt k p.2.1) (y.jcellAt k p.2.2)
        else .cell (x.jcellAt k p.2.1))) ∧
    (∀ k ∈ y.cols, k ∉ rnames →
      vcol? (joinTableOf x y cols mode kp) k = some (kp.map fun p =>
        if k ∈ x.cols then mode.apply (x.jcellAt k p.2.1) (y.jcellAt k p.2.2)
        else .cell (y.jcellAt k p.2.2))) := by
  constructor
  · intro k hx hl
    have hc : k ∉ cols := fun h => hl ((hside k h).1 hx)
    by_cases hy : k ∈ y.cols
    · simp only [hy, if_true]; exact vcol_both x y cols mode kp hx hy hc
    · simp only [hy, if_false]; exact vcol_left x y cols mode kp hx hy hc
  · intro k hy hr
    have hc : k ∉ cols := fun h => hr ((hside k h).2 hy)
    by_cases hx : k ∈ x.cols
    · simp only [hx, if_true]; exact vcol_both x y cols mode kp hx hy hc
    · simp only [hx, if_false]; exact vcol_right x y cols mode kp hx hy hc

def dropX : Table := [("a", [.int 1, .int 2, .int 3]), ("v", [.int 10, .int 20, .int 30])]
def dropY : Table := [("k", [.int 1, .int 2, .int 4]), ("a", [.str "p", .str "q", .str "r"]),
  ("u", [.int 100, .int 200, .int 400])]

/-- **finding C02-K1** (the clause "every other column of both sides" fails): joining `dropX` on its column `a`
with `dropY` on its column `k`, the right table's NON-key column `a` is not in the result — the result has the
four columns `a, v, k, u`, and its only column named `a` is the key column (the key of each row), under every
mode.  The code subtracts the result key names from the columns of BOTH sides
(`rkeys = other.keys() - cols`, _dictable.py:1112); the model copies it and the correspondence agrees. -/
theorem join_drops_column (mode : Mode) :
    "a" ∈ dropY.cols ∧ "a" ∉ ["k"] ∧
    ∃ kp, join dropX dropY (some [.col "a"]) (some [.col "k"]) mode
        = some (.ok (joinTableOf dropX dropY ["a"] mode kp)) ∧
      (joinTableOf dropX dropY ["a"] mode kp).map (·.1) = ["a", "v", "k", "u"] ∧
      vcol? (joinTableOf dropX dropY ["a"] mode kp) "a" = some (kp.map fun p => tupleGet 0 p.1) := by
  refine ⟨by decide, by decide, ?_⟩
  obtain ⟨kp, h, _, _⟩ := join_named_spec dropX dropY ["a"] ["k"] mode rfl (by decide) (by decide)
    (by decide) (by decide)
  exact ⟨kp, h, rfl, join_col_key dropX dropY ["a"] mode kp (by decide) (j := 0) (by decide)⟩

/-! ## left join = x*y + x/y, at table level -/

/-- **partition, table level**: `x / y` is `x` restricted to `ids`, `x * y` has one row per entry of `kp`
(`p.2.1` = the row of `x` it comes from), and every row `i` of `x` is either in `ids` — exactly once, and then
in no row of the join — or the source of at least one join row — and then not in `ids`; the join rows that
come from row `i` are exactly its key-equal partners in `y`, each once. -/
theorem left_join_table (x y : Table) (lc rc : List KeySpec) (mode : Mode)
    (cols : List String) (lk rk : List Val)
    (hlen : lc.length = rc.length) (hcols : joinColNames lc rc = .ok cols)
    (hnd : cols.Nodup) (hne : cols ≠ [])
    (hlk : x.keysOf lc = .ok lk) (hrk : y.keysOf rc = .ok rk) :
    ∃ (ids : List Nat) (kp : List (Val × Nat × Nat)),
      xor x y (some lc) (some rc) 0 = .ok (x.gatherRows ids) ∧
      join x y (some lc) (some rc) mode = some (.ok (joinTableOf x y cols mode kp)) ∧
      ids.Nodup ∧
      ∀ i, i < x.nrows →
        (i ∈ ids ↔ ∀ p ∈ kp, p.2.1 ≠ i) ∧
        ((kp.map (·.2)).filter (·.1 == i)).Perm
          (((List.range y.nrows).filter fun j => cmp (keyAt lk i) (keyAt rk j) == .eq).map
            fun j => (i, j)) := by
  have hne' : cols.isEmpty = false := by cases cols <;> simp_all
  have hlne : lc.isEmpty = false := by
    cases lc with
    | nil => simp [joinColNames] at hcols; exact absurd hcols hne
    | cons _ _ => rfl
  refine ⟨xorIds 0 lk rk, keyedPairs (joinMatches lk rk), ?_, ?_, xorIds_nodup lk rk, ?_⟩
  · simp [xor, hlen, hlne, hlk, hrk, bind, Except.bind, pure, Except.pure]
  · simp only [join, Option.getD_some, hlen, ne_eq, not_true_eq_false, if_false, hcols, hnd,
      hne', hlk, hrk, Bool.false_eq_true]
    simp only [bind, Except.bind, pure, Except.pure]
    rw [joinBody_rows]
  · intro i hi
    have hi' : i < lk.length := by rw [keysOf_length hlk]; exact hi
    obtain ⟨h1, _, h3⟩ := left_join_partition lk rk (keysOf_tuple hlk) i hi'
    rw [keyedPairs_snd, ← keysOf_length hrk]
    refine ⟨?_, h3⟩
    rw [h1]
    constructor
    · intro h p hp e
      apply h
      refine ⟨p.2.2, ?_⟩
      have : p.2 ∈ (keyedPairs (joinMatches lk rk)).map (·.2) := List.mem_map.2 ⟨p, hp, rfl⟩
      rw [keyedPairs_snd] at this
      rw [← e]; exact this
    · rintro h ⟨j, hj⟩
      have : (i, j) ∈ (keyedPairs (joinMatches lk rk)).map (·.2) := by rw [keyedPairs_snd]; exact hj
      obtain ⟨p, hp, he⟩ := List.mem_map.1 this
      exact h p hp (by rw [he])

/-! ## the calls the code rejects -/

/-- key lists of different lengths: `ValueError`, for `join` and `xor` -/
theorem join_length_error (x y : Table) (lc rc : List KeySpec) (mode : Mode)
    (h : lc.length ≠ rc.length) : join x y (some lc) (some rc) mode = some (.error .value) := by
  simp [join, h]

theorem xor_length_error (x y : Table) (lc rc : List KeySpec) (mode : Nat)
    (h : lc.length ≠ rc.length) : xor x y (some lc) (some rc) mode = .error .value := by
  simp [xor, h]

/-- a formula on both sides of one key position: `ValueError` (the result key column would have no name) -/
theorem join_both_formula_error (x y : Table) (f g : RowDict → Res Val) (lc rc : List String)
    (mode : Mode) (hlen : lc.length = rc.length) :
    join x y (some (lc.map .col ++ [.fn f])) (some (rc.map .col ++ [.fn g])) mode
      = some (.error .value) := by
  have h : ∀ (l r : List String), l.length = r.length →
      joinColNames (l.map .col ++ [.fn f]) (r.map .col ++ [.fn g]) = .error .value := by
    intro l
    induction l with
    | nil => intro r hr; cases r <;> simp_all [joinColNames]
    | cons a l ih =>
      intro r hr
      cases r with
      | nil => simp at hr
      | cons b r =>
        simp only [List.map_cons, List.cons_append, joinColNames, ih r (by simpa using hr), bind,
          Except.bind]
  simp [join, hlen, h lc rc hlen]

/-- whatever the key extraction of the left table raises (a missing column: `KeyError`; a formula raising on
some row, e.g. `TypeError`) is what the call raises; the right table is looked at only afterwards -/
theorem join_key_error_left (x y : Table) (lc rc : List KeySpec) (mode : Mode) (cols : List String)
    (e : Err) (hlen : lc.length = rc.length) (hcols : joinColNames lc rc = .ok cols)
    (hnd : cols.Nodup) (hne : cols ≠ []) (hlk : x.keysOf lc = .error e) :
    join x y (some lc) (some rc) mode = some (.error e) := by
  have hne' : cols.isEmpty = false := by cases cols <;> simp_all
  simp [join, hlen, hcols, hnd, hne', hlk, bind, Except.bind]

theorem join_key_error_right (x y : Table) (lc rc : List KeySpec) (mode : Mode) (cols : List String)
    (lk : List Val) (e : Err) (hlen : lc.length = rc.length) (hcols : joinColNames lc rc = .ok cols)
    (hnd : cols.Nodup) (hne : cols ≠ []) (hlk : x.keysOf lc = .ok lk) (hrk : y.keysOf rc = .error e) :
    join x y (some lc) (some rc) mode = some (.error e) := by
  have hne' : cols.isEmpty = false := by cases cols <;> simp_all
  simp [join, hlen, hcols, hnd, hne', hlk, hrk, bind, Except.bind]

/-- a named key column that the left table does not have: `KeyError` -/
theorem join_missing_column (x y : Table) (ln rn : List String) (mode : Mode)
    (hlen : ln.length = rn.length) (hnd : ln.Nodup) (k : String) (hk : k ∈ ln) (hx : k ∉ x.cols) :
    join x y (some (ln.map .col)) (some (rn.map .col)) mode = some (.error .key) := by
  have hm : ∀ (names : List String), k ∈ names →
      (names.map KeySpec.col).mapM x.keyCol = .error .key := by
    intro names
    induction names with
    | nil => intro h; simp at h
    | cons a as ih =>
      intro h
      simp only [List.map_cons, List.mapM_cons, bind, Except.bind]
      cases ha : x.keyCol (.col a) with
      | error e =>
        simp only [Table.keyCol] at ha
        split at ha <;> simp_all
      | ok v =>
        have hak : a ≠ k := by
          rintro rfl
          simp only [Table.keyCol] at ha
          split at ha
          · rename_i xs hxs
            apply hx
            simp only [Table.col?, Option.map_eq_some_iff] at hxs
            obtain ⟨c, hc, _⟩ := hxs
            have := List.find?_some hc
            have hm := List.mem_of_find?_eq_some hc
            simp only [beq_iff_eq] at this
            exact List.mem_map.2 ⟨c, hm, this⟩
          · cases ha
        have : k ∈ as := by
          rcases List.mem_cons.1 h with rfl | h
          · exact absurd rfl hak
          · exact h
        simp [ih this]
  have hne : ln.isEmpty = false := by cases ln <;> simp_all
  simp [join, hlen, joinColNames_named ln rn hlen, hnd, hne, Table.keysOf, hm ln hk, bind,
    Except.bind]

/-! ## non-vacuity and evaluation tests -/

def exX : Table := [("a", [.int 1, .int 2, .int 2, .none, .nan]), ("v", [.int 10, .int 20, .int 30, .int 40, .int 50])]
def exY : Table := [("a", [.flt 8, .int 2, .none, .nan]), ("u", [.int 1, .int 2, .int 3, .int 4])]

/-- the hypotheses of `join_spec` / `xor_spec` hold on a table pair with many-to-many, int/float,
`None` and NaN keys -/
example : joinColNames [.col "a"] [.col "a"] = .ok ["a"] ∧ ["a"].Nodup ∧
    exX.keysOf [.col "a"] = .ok [.tuple [.cell (.int 1)], .tuple [.cell (.int 2)],
      .tuple [.cell (.int 2)], .tuple [.cell .none], .tuple [.cell .nan]] ∧
    exY.keysOf [.col "a"] = .ok [.tuple [.cell (.flt 8)], .tuple [.cell (.int 2)],
      .tuple [.cell .none], .tuple [.cell .nan]] := by
  refine ⟨rfl, by decide, rfl, rfl⟩

/-- the hypotheses of `join_named_spec` / `xor_named_spec` / `join_missing_column` hold on the same pair -/
example : ["a"].length = ["a"].length ∧ ["a"].Nodup ∧ ["a"] ≠ [] ∧ (∀ k ∈ ["a"], k ∈ exX.cols) ∧
    (∀ k ∈ ["a"], k ∈ exY.cols) ∧ "zz" ∉ exX.cols := by decide

/-- the hypothesis of `join_key_error_left` holds for a missing column -/
example : exX.keysOf [.col "zz"] = .error .key := rfl

/-- the side condition of `join_keeps_other_columns` holds for a join on a shared name (even with further
shared columns) and fails for the pair of `join_drops_column` -/
example : (∀ k ∈ ["a"], (k ∈ exX.cols → k ∈ ["a"]) ∧ (k ∈ exY.cols → k ∈ ["a"])) ∧
    ¬ (∀ k ∈ ["a"], (k ∈ dropX.cols → k ∈ ["a"]) ∧ (k ∈ dropY.cols → k ∈ ["k"])) := by decide

/-- the hypothesis of `outer_progress` holds in a state of a non-trivial merge -/
example : (⟨0, 1, []⟩ : MState Match).l < [((.cell (.int 1) : Val), [0]), (.cell (.int 3), [1])].length ∧
    (⟨0, 1, []⟩ : MState Match).r < [((.cell (.int 0) : Val), [0]), (.cell (.int 3), [1])].length := by
  decide

-- evaluation tests (`List.mergeSort` does not reduce in the kernel, hence `#guard`)
#guard joinPairs [.tuple [.cell (.int 1)], .tuple [.cell (.int 2)], .tuple [.cell (.int 2)],
      .tuple [.cell .none], .tuple [.cell .nan]]
    [.tuple [.cell (.flt 8)], .tuple [.cell (.int 2)], .tuple [.cell .none], .tuple [.cell .nan]]
  == [(3, 2), (1, 0), (1, 1), (2, 0), (2, 1), (4, 3)]
-- finding C02-K1 evaluated: the right table's column `a` is not in the result
#guard (match join dropX dropY (some [.col "a"]) (some [.col "k"]) .pair with
  | some (.ok r) => r.map (·.1) == ["a", "v", "k", "u"] && (r.map (·.2.length)) == [2, 2, 2, 2]
  | _ => false)
-- two key columns with one name: `x.join(y, ['a','a'], ['a','u'])` keeps one column `a`
#guard (match join exX exY (some [.col "a", .col "a"]) (some [.col "a", .col "a"]) .left with
  | some (.ok r) => r.map (·.1) == ["a", "v", "u"]
  | _ => false)
#guard xorIds 0 [.tuple [.cell (.int 1)], .tuple [.cell (.int 2)], .tuple [.cell .nan]]
    [.tuple [.cell (.flt 8)], .tuple [.cell .nan]] == [0]
#guard (listbyG [.tuple [.cell (.int 2)], .tuple [.cell .nan], .tuple [.cell (.flt 8)],
    .tuple [.cell .nan]]).map (·.2) == [[0, 2], [1, 3]]

/-! ## round h1: key columns that repeat a name, xor's key errors -/

/-- **join when two key columns carry ONE name** (`x.join(y, ['a','a'], ['a','b'])`, `[f, g]` against `['k','k']`: "any choice of key columns").
The branch `join_spec` excludes (`cols.Nodup`).  The call computes the SAME triples `kp` — the `(left, right)` parts are exactly the key-equal
index pairs as a multiset, the carried key is `cmp`-equal to both rows' keys — and the same table as the main branch, `joinTableOf`, except that
its key part is read as `dict(zip(names, columns))` (`dictOf`: a repeated name keeps the place of its first and the cells of its last
occurrence — whose components are `keyEq` to one another row by row, `key_carried`).  Nothing else differs: every non-key column is the one
`join_col_left/right/both` describe. -/
theorem join_dup_spec (x y : Table) (lc rc : List KeySpec) (mode : Mode)
    (cols : List String) (lk rk : List Val)
    (hlen : lc.length = rc.length) (hcols : joinColNames lc rc = .ok cols)
    (hnd : ¬ cols.Nodup)
    (hlk : x.keysOf lc = .ok lk) (hrk : y.keysOf rc = .ok rk) :
    ∃ (kp : List (Val × Nat × Nat)) (body : VTable),
      join x y (some lc) (some rc) mode =
        some (.ok (dictOf (cols.zipIdx.map fun c => (c.1, kp.map fun p => tupleGet c.2 p.1)) ++ body)) ∧
      joinTableOf x y cols mode kp = (cols.zipIdx.map fun c => (c.1, kp.map fun p => tupleGet c.2 p.1)) ++ body ∧
      (kp.map (·.2)).Perm
        ((allPairs x.nrows y.nrows).filter fun p => cmp (keyAt lk p.1) (keyAt rk p.2) == .eq) ∧
      ∀ p ∈ kp, cmp p.1 (keyAt lk p.2.1) = .eq ∧ cmp p.1 (keyAt rk p.2.2) = .eq := by
  refine ⟨keyedPairs (joinMatches lk rk), joinBody x y cols mode (joinMatches lk rk), ?_, ?_, ?_, keyedPairs_keys⟩
  · simp only [join, Option.getD_some, hlen, ne_eq, not_true_eq_false, if_false, hcols, hnd, not_false_eq_true, if_true,
      joinDup, hlk, hrk, bind, Except.bind, pure, Except.pure, keyRows_eq_map, List.map_map, Function.comp_def]
  · rw [← joinBody_rows]
    simp only [keyRows_eq_map, List.map_map, Function.comp_def]
  · rw [keyedPairs_snd, ← keysOf_length hlk, ← keysOf_length hrk]
    exact joinPairs_perm lk rk

/-- non-vacuity: `x.join(y, ['a','a'], ['a','u'])` on `exX`, `exY` — one key column `a` in the result (the dict keeps one) -/
example : ¬ (["a", "a"] : List String).Nodup := by decide
#guard (match join exX exY (some [.col "a", .col "a"]) (some [.col "a", .col "u"]) .pair with
  | some (.ok t) => t.map (·.1) == ["a", "v", "u"]
  | _ => false)

/-- **xor: whatever the key extraction raises is what the call raises** (a missing column: `KeyError`; a formula raising on some row), the
left table first — as for `join` (`join_key_error_left/right`) -/
theorem xor_key_error_left (x y : Table) (lc rc : List KeySpec) (mode : Nat) (e : Err)
    (hlen : lc.length = rc.length) (hne : lc ≠ []) (hlk : x.keysOf lc = .error e) :
    xor x y (some lc) (some rc) mode = .error e := by
  have hne' : lc.isEmpty = false := by cases lc <;> simp_all
  simp [xor, hlen, hne', hlk, bind, Except.bind]

theorem xor_key_error_right (x y : Table) (lc rc : List KeySpec) (mode : Nat) (lk : List Val) (e : Err)
    (hlen : lc.length = rc.length) (hne : lc ≠ []) (hlk : x.keysOf lc = .ok lk) (hrk : y.keysOf rc = .error e) :
    xor x y (some lc) (some rc) mode = .error e := by
  have hne' : lc.isEmpty = false := by cases lc <;> simp_all
  simp [xor, hlen, hne', hlk, hrk, bind, Except.bind]


/-! ## the keys the theorems are about vs. the keys `pyg_base.sort` orders as the model does (review t1, C02 fidelity)

`join_spec`, `xor_spec`, `left_join_table` hold in the model for ALL `Val` keys.  The model sorts the decorated keys with the stable merge sort by
`cmp`; the code calls `pyg_base.sort`, i.e. python's native `sorted()` unless that raises.  The two coincide on the property's key universe (scalar
key columns: `keysOf_cols_scalar`, `join_keys_native_agree`), and do NOT on computed keys that are lists / tuples of different lengths
(`native_order_is_not_cmp_order_on_unequal_lists`, `merge_over_native_order_loses_pair`): there the real `join` loses pairs and `xor` keeps matched
rows.  Such keys are outside C02's quantifier; the harness generates them as a divergence class only. -/

theorem mapM_keyCol_cols (t : Table) : ∀ (names : List String) (cols : List (List Val)),
    (names.map KeySpec.col).mapM t.keyCol = .ok cols →
    ∃ cc : List (List Cell), cols = cc.map (·.map .cell) ∧ cc.length = names.length
  | [], cols, h => by
    simp only [List.map_nil, List.mapM_nil, pure, Except.pure, Except.ok.injEq] at h
    exact ⟨[], by simp [← h], rfl⟩
  | n :: ns, cols, h => by
    simp only [List.map_cons, List.mapM_cons, bind, Except.bind] at h
    split at h
    · cases h
    · rename_i c hc
      split at h
      · cases h
      · rename_i cs hcs
        simp only [pure, Except.pure, Except.ok.injEq] at h
        obtain ⟨cc, rfl, hl⟩ := mapM_keyCol_cols t ns cs hcs
        simp only [Table.keyCol] at hc
        split at hc
        · rename_i xs _
          simp only [Except.ok.injEq] at hc
          exact ⟨xs :: cc, by simp [← h, ← hc], by simp [hl]⟩
        · cases hc

/-- keys read from COLUMNS (`lcols` / `rcols` given as names — the property's quantifier: keys drawn from scalars) are tuples of scalar
cells, all of the same length (one entry per key column) -/
theorem keysOf_cols_scalar (t : Table) (names : List String) (ks : List Val)
    (h : t.keysOf (names.map .col) = .ok ks) :
    ∀ k ∈ ks, ∃ cs : List Cell, k = .tuple (cs.map .cell) ∧ cs.length = names.length := by
  simp only [Table.keysOf, bind, Except.bind] at h
  split at h
  · cases h
  · rename_i cols hcols
    simp only [pure, Except.pure, Except.ok.injEq] at h
    subst h
    obtain ⟨cc, rfl, hl⟩ := mapM_keyCol_cols t names cols hcols
    intro k hk
    simp only [zipCols, List.mem_map, List.mem_range] at hk
    obtain ⟨i, _, rfl⟩ := hk
    refine ⟨cc.map (·.getD i .none), ?_, by simp [hl]⟩
    simp only [List.map_map, Function.comp_def, List.getD_eq_getElem?_getD, List.getElem?_map]
    congr 1
    apply List.map_congr_left
    intro c _
    cases c[i]? <;> rfl

/-- the reviewer's witness (t1, C02): left rows with the COMPUTED keys `[3]` (row 0) and `[1,2]` (row 1), grouped and put in python's NATIVE order
(`[1,2] < [3]`, lexicographic) - what `pyg_base.sort` returns, since `sorted()` does not raise on lists -/
def lstKeyL : List Grp := [(.tuple [.list [.cell (.int 1), .cell (.int 2)]], [1]), (.tuple [.list [.cell (.int 3)]], [0])]
def lstKeyR : List Grp := [(.tuple [.list [.cell (.int 3)]], [0])]

/-- **the sort assumption fails on container keys of different lengths** (computed keys; OUTSIDE the quantifier "keys drawn from None, ints, floats,
strings, datetimes"): natively `[1,2] < [3]`, under `cmp` (length first) `[1,2] > [3]`, also inside the one-entry key tuples -/
theorem native_order_is_not_cmp_order_on_unequal_lists :
    nativeArr [.int 1, .int 2] [.int 3] = some .lt ∧
    cmp (.list [.cell (.int 1), .cell (.int 2)]) (.list [.cell (.int 3)]) = .gt ∧
    cmp (.tuple [.list [.cell (.int 1), .cell (.int 2)]]) (.tuple [.list [.cell (.int 3)]]) = .gt := by decide

/-- the merge loop of `join`, run over group lists in that NATIVE order, steps over the matching `[3]` group: no pair is emitted.  This is what the real
code does on such keys; `join_spec` / `xor_spec` / `left_join_table` speak of the MODEL, whose groups are `cmp`-sorted (`model_join_finds_pair`), and
model = code only where native order = `cmp` order: `join_keys_native_agree` -/
theorem merge_over_native_order_loses_pair :
    (mergeRun joinEmit lstKeyL lstKeyR).res = [] := by decide

/-- on the keys of the property's quantifier (key COLUMNS on both sides: equal-length tuples of scalars) python's native tuple order - which
`pyg_base.sort` uses whenever it does not raise - IS `cmp` wherever it is defined (bools apart: `C07.native_differs_on_bool`), so a natively
sorted key list is the `cmp`-sorted one the model's `sortedKeyIds` stands for.  (`C07.native_agrees_tuple` applied to the keys of a join.) -/
theorem join_keys_native_agree (x y : Table) (ln rn : List String) (lk rk : List Val)
    (hlen : ln.length = rn.length)
    (hlk : x.keysOf (ln.map .col) = .ok lk) (hrk : y.keysOf (rn.map .col) = .ok rk) :
    ∀ a ∈ lk ++ rk, ∀ b ∈ lk ++ rk, ∃ xs ys : List Cell, a = .tuple (xs.map .cell) ∧ b = .tuple (ys.map .cell) ∧
      xs.length = ys.length ∧
      ((∀ c ∈ xs, c.isBool = false) → (∀ c ∈ ys, c.isBool = false) → ∀ o, nativeArr xs ys = some o → cmp a b = o) := by
  have key : ∀ a ∈ lk ++ rk, ∃ cs : List Cell, a = .tuple (cs.map .cell) ∧ cs.length = ln.length := by
    intro a ha
    rcases List.mem_append.mp ha with h | h
    · exact keysOf_cols_scalar x ln lk hlk a h
    · obtain ⟨cs, h1, h2⟩ := keysOf_cols_scalar y rn rk hrk a h
      exact ⟨cs, h1, by omega⟩
  intro a ha b hb
  obtain ⟨xs, rfl, hx⟩ := key a ha
  obtain ⟨ys, rfl, hy⟩ := key b hb
  have hl : xs.length = ys.length := by omega
  refine ⟨xs, ys, rfl, rfl, hl, ?_⟩
  intro hbx hby o h
  simp only [cmp, Val.norm, normList_map_cell, cmpN, List.length_map, hl]
  have : compare ys.length ys.length = .eq := by simp
  rw [this]
  exact cmpArr_cells_native xs ys hl hbx hby o h

/-! ### computed keys (review 4 v1, item 4): `join_keys_native_agree` for ANY key specs whose formulas return scalars

The statement's "computed keys" (callables; the generator's `id` / `dbl` / `const` return a cell of the row, its double, `0`) are `KeySpec.fn f`
with `f` returning any `Val`.  What the sort premise needs is only that every key ENTRY is a scalar: then the keys of both operands are tuples of
scalar cells of one length, whichever mix of columns and formulas the two key lists are. -/

/-- a key spec whose value on every row is a scalar cell: a column always is, a formula if it returns one whenever it returns -/
def ScalarSpec : KeySpec → Prop
  | .col _ => True
  | .fn f => ∀ row v, f row = .ok v → ∃ c : Cell, v = .cell c

theorem mapM_ok_mem {α β : Type} (f : α → Res β) : ∀ (xs : List α) (ys : List β), xs.mapM f = .ok ys →
    ∀ y ∈ ys, ∃ x ∈ xs, f x = .ok y
  | [], ys, h => by
    simp only [List.mapM_nil, pure, Except.pure, Except.ok.injEq] at h
    subst h; intro y hy; cases hy
  | a :: as, ys, h => by
    simp only [List.mapM_cons, bind, Except.bind] at h
    split at h
    · cases h
    · rename_i b hb
      split at h
      · cases h
      · rename_i bs hbs
        simp only [pure, Except.pure, Except.ok.injEq] at h
        subst h
        intro y hy
        rcases List.mem_cons.mp hy with rfl | hy
        · exact ⟨a, by simp, hb⟩
        · obtain ⟨x, hx, hfx⟩ := mapM_ok_mem f as bs hbs y hy
          exact ⟨x, by simp [hx], hfx⟩

theorem all_cells_map : ∀ (vs : List Val), (∀ v ∈ vs, ∃ c : Cell, v = .cell c) → ∃ cs : List Cell, vs = cs.map .cell
  | [], _ => ⟨[], rfl⟩
  | v :: vs, h => by
    obtain ⟨c, rfl⟩ := h v (by simp)
    obtain ⟨cs, rfl⟩ := all_cells_map vs (fun w hw => h w (by simp [hw]))
    exact ⟨c :: cs, rfl⟩

theorem mapM_keyCol_scalar (t : Table) : ∀ (specs : List KeySpec) (cols : List (List Val)),
    (∀ s ∈ specs, ScalarSpec s) → specs.mapM t.keyCol = .ok cols →
    ∃ cc : List (List Cell), cols = cc.map (·.map .cell) ∧ cc.length = specs.length
  | [], cols, _, h => by
    simp only [List.mapM_nil, pure, Except.pure, Except.ok.injEq] at h
    exact ⟨[], by simp [← h], rfl⟩
  | sp :: ns, cols, hs, h => by
    simp only [List.mapM_cons, bind, Except.bind] at h
    split at h
    · cases h
    · rename_i c hc
      split at h
      · cases h
      · rename_i cs hcs
        simp only [pure, Except.pure, Except.ok.injEq] at h
        obtain ⟨cc, rfl, hl⟩ := mapM_keyCol_scalar t ns cs (fun s' hs' => hs s' (by simp [hs'])) hcs
        have hsp := hs sp (by simp)
        cases sp with
        | col k =>
          simp only [Table.keyCol] at hc
          split at hc
          · rename_i xs _
            simp only [Except.ok.injEq] at hc
            exact ⟨xs :: cc, by simp [← h, ← hc], by simp [hl]⟩
          · cases hc
        | fn f =>
          simp only [Table.keyCol] at hc
          have hall : ∀ v ∈ c, ∃ cl : Cell, v = .cell cl := by
            intro v hv
            obtain ⟨i, _, hi⟩ := mapM_ok_mem _ _ _ hc v hv
            exact hsp _ _ hi
          obtain ⟨xs, rfl⟩ := all_cells_map c hall
          exact ⟨xs :: cc, by simp [← h], by simp [hl]⟩

/-- the keys of a table under ANY list of scalar-valued key specs (columns and formulas mixed) are tuples of scalar cells, one entry per spec -/
theorem keysOf_scalar (t : Table) (specs : List KeySpec) (ks : List Val) (hs : ∀ s ∈ specs, ScalarSpec s)
    (h : t.keysOf specs = .ok ks) :
    ∀ k ∈ ks, ∃ cs : List Cell, k = .tuple (cs.map .cell) ∧ cs.length = specs.length := by
  simp only [Table.keysOf, bind, Except.bind] at h
  split at h
  · cases h
  · rename_i cols hcols
    simp only [pure, Except.pure, Except.ok.injEq] at h
    subst h
    obtain ⟨cc, rfl, hl⟩ := mapM_keyCol_scalar t specs cols hs hcols
    intro k hk
    simp only [zipCols, List.mem_map, List.mem_range] at hk
    obtain ⟨i, _, rfl⟩ := hk
    refine ⟨cc.map (·.getD i .none), ?_, by simp [hl]⟩
    simp only [List.map_map, Function.comp_def, List.getD_eq_getElem?_getD, List.getElem?_map]
    congr 1
    apply List.map_congr_left
    intro c _
    cases c[i]? <;> rfl

/-- `join_keys_native_agree` for the whole of the statement's "key columns or computed keys": whichever specs the two key lists hold - names,
formulas, mixed, a formula on the left against a name on the right - as long as every formula returns a scalar, python's native tuple order on the
keys of BOTH operands is `cmp` wherever it is defined (bools apart), so the natively sorted key list is the `cmp`-sorted one of the model -/
theorem join_keys_native_agree_fn (x y : Table) (lc rc : List KeySpec) (lk rk : List Val)
    (hlen : lc.length = rc.length) (hls : ∀ s ∈ lc, ScalarSpec s) (hrs : ∀ s ∈ rc, ScalarSpec s)
    (hlk : x.keysOf lc = .ok lk) (hrk : y.keysOf rc = .ok rk) :
    ∀ a ∈ lk ++ rk, ∀ b ∈ lk ++ rk, ∃ xs ys : List Cell, a = .tuple (xs.map .cell) ∧ b = .tuple (ys.map .cell) ∧
      xs.length = ys.length ∧
      ((∀ c ∈ xs, c.isBool = false) → (∀ c ∈ ys, c.isBool = false) → ∀ o, nativeArr xs ys = some o → cmp a b = o) := by
  have key : ∀ a ∈ lk ++ rk, ∃ cs : List Cell, a = .tuple (cs.map .cell) ∧ cs.length = lc.length := by
    intro a ha
    rcases List.mem_append.mp ha with h | h
    · exact keysOf_scalar x lc lk hls hlk a h
    · obtain ⟨cs, h1, h2⟩ := keysOf_scalar y rc rk hrs hrk a h
      exact ⟨cs, h1, by omega⟩
  intro a ha b hb
  obtain ⟨xs, rfl, hx⟩ := key a ha
  obtain ⟨ys, rfl, hy⟩ := key b hb
  have hl : xs.length = ys.length := by omega
  refine ⟨xs, ys, rfl, rfl, hl, ?_⟩
  intro hbx hby o h
  simp only [cmp, Val.norm, normList_map_cell, cmpN, List.length_map, hl]
  have : compare ys.length ys.length = .eq := by simp
  rw [this]
  exact cmpArr_cells_native xs ys hl hbx hby o h

/-- every callable of the harness menu (`id`, `dbl`, `const` of `JoinDriver.rowFn` - the computed keys that ARE generated) is scalar-valued, so
`join_keys_native_agree_fn` covers every key list the correspondence runs -/
theorem driver_formulas_scalar (name : String) (arg : Option String) (f : RowDict → Res Val)
    (h : JoinDriver.rowFn name arg = some f) : ScalarSpec (.fn f) := by
  unfold JoinDriver.rowFn at h
  split at h
  · simp only [Option.some.injEq] at h; subst h
    intro row v hv
    simp only [bind, Except.bind, pure, Except.pure] at hv
    split at hv
    · cases hv
    · simp only [Except.ok.injEq] at hv; exact ⟨_, hv.symm⟩
  · simp only [Option.some.injEq] at h; subst h
    intro row v hv
    simp only [Except.ok.injEq] at hv; exact ⟨_, hv.symm⟩
  · simp only [Option.some.injEq] at h; subst h
    intro row v hv
    simp only [bind, Except.bind, pure, Except.pure] at hv
    split at hv
    · cases hv
    · split at hv <;> first | (simp only [Except.ok.injEq] at hv; exact ⟨_, hv.symm⟩) | cases hv
  · cases h

/-- the hypotheses are satisfiable on a non-trivial call: a formula (the row's `a` doubled when it is an int, else `None`) against a column -/
example : ∀ s ∈ [KeySpec.fn (fun row => .ok (.cell (match row.lookup "a" with | some (.int n) => .int (2 * n) | _ => .none))), KeySpec.col "b"],
    ScalarSpec s := by
  intro s hs
  simp only [List.mem_cons, List.mem_nil_iff, or_false] at hs
  rcases hs with rfl | rfl
  · intro row v h; simp only [Except.ok.injEq] at h; exact ⟨_, h.symm⟩
  · trivial

/-- ... and a formula returning a list is NOT scalar (the container keys of `merge_over_native_order_loses_pair`) -/
example : ¬ ScalarSpec (.fn fun _ => .ok (.list [.cell (.int 3)])) := by
  intro h
  obtain ⟨c, hc⟩ := h [] _ rfl
  cases hc

/-- ... while the MODEL (groups sorted by `cmp`) pairs left row 0 (`[3]`) with right row 0 (`[3]`) -/
theorem model_join_finds_pair :
    (0, 0) ∈ joinPairs [.tuple [.list [.cell (.int 3)]], .tuple [.list [.cell (.int 1), .cell (.int 2)]]] [.tuple [.list [.cell (.int 3)]]] := by
  rw [join_pairs_iff]
  decide


/-! ### the mode spellings (reviews s1 item, t1 item 6, v1: "mode spellings still undecoded")

`Mode.ofPy` / `Mode.xorOfPy` (PygModel/Join.lean) transcribe the `if / elif` chains of `join` (lines 1192-1205) and `xor` (line 1258) on the
python VALUE handed over as `mode`.  The theorems below characterise them against an independent description - an explicit list of the
values python's `== 0` / `== 1` accepts and "a non-empty string whose first character is `l` / `L`" - and show that the four outcomes are
exhaustive and mutually exclusive, so a wrong precedence (`'r'` tested before `0`, a callable tested first, `1.0` falling through to the
pair) could not satisfy them. -/

/-- the scalars python's `mode == 0` accepts: `0`, `0.0` (and `-0.0`: one wire value), `False` -/
def IsZero (c : Cell) : Prop := c = .int 0 ∨ c = .flt 0 ∨ c = .bool false
/-- the scalars python's `mode == 1` accepts: `1`, `1.0` (quarter units: `flt 4`), `True` -/
def IsOne (c : Cell) : Prop := c = .int 1 ∨ c = .flt 4 ∨ c = .bool true
/-- a non-empty string whose first character is `lo` or `up` -/
def StartsWith (lo up : Char) (c : Cell) : Prop := ∃ s a rest, c = .str s ∧ s.toList = a :: rest ∧ (a = lo ∨ a = up)

theorem toLower_eq_of (c lo up : Char) (n : Nat) (hlo : lo.val.toNat = n) (hn : 97 ≤ n ∧ n ≤ 122) (hup : up.val.toNat + 32 = n) :
    c.toLower = lo ↔ c = lo ∨ c = up := by
  have e1 : 'A'.val.toNat = 65 := by decide
  have e2 : 'Z'.val.toNat = 90 := by decide
  have e3 : 'a'.val.toNat = 97 := by decide
  constructor
  · intro he
    unfold Char.toLower at he
    split at he
    · rename_i h
      right
      apply Char.ext
      have h3 := congrArg (fun c : Char => c.val.toNat) he
      have h1 := UInt32.le_iff_toNat_le.mp h.1
      have h2 := UInt32.le_iff_toNat_le.mp h.2
      simp only [UInt32.toNat_add, UInt32.toNat_sub] at h3
      apply UInt32.toNat_inj.mp
      rw [e1] at h1; rw [e2] at h2; rw [e3, e1, hlo] at h3
      omega
    · left; exact he
  · rintro (rfl | rfl)
    · unfold Char.toLower
      split
      · rename_i h
        have h2 := UInt32.le_iff_toNat_le.mp h.2
        rw [e2, hlo] at h2; omega
      · rfl
    · unfold Char.toLower
      split
      · apply Char.ext
        apply UInt32.toNat_inj.mp
        simp only [UInt32.toNat_add, UInt32.toNat_sub]
        rw [e3, e1, hlo]; omega
      · rename_i h
        exfalso; apply h
        constructor
        · apply UInt32.le_iff_toNat_le.mpr; rw [e1]; omega
        · apply UInt32.le_iff_toNat_le.mpr; rw [e2]; omega

theorem toLower_eq_l (c : Char) : c.toLower = 'l' ↔ c = 'l' ∨ c = 'L' :=
  toLower_eq_of c 'l' 'L' 108 (by decide) (by omega) (by decide)
theorem toLower_eq_r (c : Char) : c.toLower = 'r' ↔ c = 'r' ∨ c = 'R' :=
  toLower_eq_of c 'r' 'R' 114 (by decide) (by omega) (by decide)

theorem pyEq_zero_iff (c : Cell) : c.pyEq (.int 0) = true ↔ IsZero c := by
  unfold IsZero
  cases c <;> simp [Cell.pyEq] <;> omega

theorem pyEq_one_iff (c : Cell) : c.pyEq (.int 1) = true ↔ IsOne c := by
  unfold IsOne
  cases c <;> simp [Cell.pyEq] <;> omega

theorem modeStarts_l (c : Cell) : modeStarts 'l' c = some true ↔ StartsWith 'l' 'L' c := by
  unfold StartsWith
  cases c <;> simp [modeStarts]
  rename_i s
  cases h : s.toList with
  | nil => simp
  | cons a rest => simp [toLower_eq_l]

theorem modeStarts_r (c : Cell) : modeStarts 'r' c = some true ↔ StartsWith 'r' 'R' c := by
  unfold StartsWith
  cases c <;> simp [modeStarts]
  rename_i s
  cases h : s.toList with
  | nil => simp
  | cons a rest => simp [toLower_eq_r]

theorem modeStarts_none (ch : Char) (c : Cell) : modeStarts ch c = Option.none ↔ c = .str "" := by
  cases c <;> simp [modeStarts]
  rename_i s
  cases h : s.toList with
  | nil => simp; exact String.ext (by simpa using h)
  | cons a rest => simp; intro he; subst he; simp at h

/-- the four-way reading of a scalar `mode`, as one statement: with `L = StartsWith 'l' 'L' c ∨ IsZero c` and `R = StartsWith 'r' 'R' c ∨ IsOne c`,
the empty string is undefined, `L` gives left, otherwise `R` gives right, otherwise the pair -/
theorem mode_val_cases (c : Cell) :
    (c = .str "" ∧ Mode.ofPy (.val c) = Option.none) ∨
    (c ≠ .str "" ∧ (StartsWith 'l' 'L' c ∨ IsZero c) ∧ Mode.ofPy (.val c) = some .left) ∨
    (c ≠ .str "" ∧ ¬ (StartsWith 'l' 'L' c ∨ IsZero c) ∧ (StartsWith 'r' 'R' c ∨ IsOne c) ∧ Mode.ofPy (.val c) = some .right) ∨
    (c ≠ .str "" ∧ ¬ (StartsWith 'l' 'L' c ∨ IsZero c) ∧ ¬ (StartsWith 'r' 'R' c ∨ IsOne c) ∧ Mode.ofPy (.val c) = some .pair) := by
  rw [← modeStarts_l, ← modeStarts_r, ← pyEq_zero_iff, ← pyEq_one_iff]
  cases hl : modeStarts 'l' c with
  | none =>
    left
    exact ⟨(modeStarts_none _ _).mp hl, by simp [Mode.ofPy, hl]⟩
  | some l =>
    have hne : c ≠ .str "" := by
      intro h; rw [← modeStarts_none 'l'] at h; rw [h] at hl; cases hl
    have hr : ∃ r, modeStarts 'r' c = some r := by
      cases h : modeStarts 'r' c with
      | none => exact absurd ((modeStarts_none _ _).mp h) hne
      | some r => exact ⟨r, rfl⟩
    obtain ⟨r, hr⟩ := hr
    right
    have e : Mode.ofPy (.val c) = (if (l || c.pyEq (.int 0)) = true then some .left else
        if (r || c.pyEq (.int 1)) = true then some .right else some .pair) := by
      simp only [Mode.ofPy, hl, hr, Option.bind_eq_bind, Option.bind_some]
    rw [e, hr]
    generalize c.pyEq (.int 0) = z
    generalize c.pyEq (.int 1) = o
    cases l <;> cases z <;> cases r <;> cases o <;> simp [hne]

/-- `mode` means "the left value" exactly for a string starting with `l` / `L` and for `0`, `0.0`, `False` -/
theorem mode_left_iff (m : PyMode) :
    Mode.ofPy m = some .left ↔ ∃ c, m = .val c ∧ (StartsWith 'l' 'L' c ∨ IsZero c) := by
  cases m with
  | fn f => simp [Mode.ofPy]
  | val c =>
    simp only [PyMode.val.injEq, exists_eq_left']
    rcases mode_val_cases c with ⟨h, e⟩ | ⟨_, h, e⟩ | ⟨_, h, _, e⟩ | ⟨_, h, _, e⟩
    · rw [e]; subst h
      constructor
      · intro h; cases h
      · rintro (⟨s, a, rest, h1, h2, _⟩ | h)
        · cases h1; simp at h2
        · rcases h with h | h | h <;> cases h
    · rw [e]; exact ⟨fun _ => h, fun _ => rfl⟩
    · rw [e]; exact ⟨(fun h' => by cases h'), fun h' => absurd h' h⟩
    · rw [e]; exact ⟨(fun h' => by cases h'), fun h' => absurd h' h⟩

/-- … "the right value" exactly for a string starting with `r` / `R` and for `1`, `1.0`, `True` — provided it is not a left spelling
(no value is both: `mode_left_right_disjoint`) -/
theorem mode_right_iff (m : PyMode) :
    Mode.ofPy m = some .right ↔ ∃ c, m = .val c ∧ (StartsWith 'r' 'R' c ∨ IsOne c) := by
  cases m with
  | fn f => simp [Mode.ofPy]
  | val c =>
    simp only [PyMode.val.injEq, exists_eq_left']
    have disj : (StartsWith 'l' 'L' c ∨ IsZero c) → ¬ (StartsWith 'r' 'R' c ∨ IsOne c) := by
      rintro (⟨s, a, rest, h1, h2, h3⟩ | h) (⟨s', a', rest', h1', h2', h3'⟩ | h')
      · subst h1; cases h1'; rw [h2] at h2'; cases h2'
        rcases h3 with rfl | rfl <;> rcases h3' with h | h <;> cases h
      · subst h1; rcases h' with h | h | h <;> cases h
      · subst h1'; rcases h with h | h | h <;> cases h
      · rcases h with rfl | rfl | rfl <;> rcases h' with h | h | h <;> cases h
    rcases mode_val_cases c with ⟨h, e⟩ | ⟨_, h, e⟩ | ⟨_, _, h, e⟩ | ⟨_, _, h, e⟩
    · rw [e]; subst h
      constructor
      · intro h; cases h
      · rintro (⟨s, a, rest, h1, h2, _⟩ | h)
        · cases h1; simp at h2
        · rcases h with h | h | h <;> cases h
    · rw [e]; exact ⟨(fun h' => by cases h'), fun h' => absurd h' (disj h)⟩
    · rw [e]; exact ⟨fun _ => h, fun _ => rfl⟩
    · rw [e]; exact ⟨(fun h' => by cases h'), fun h' => absurd h' h⟩

/-- a callable is applied, and only a callable is -/
theorem mode_fn_iff (m : PyMode) (md : Mode) (hmd : ∃ f, md = .fn f) : Mode.ofPy m = some md ↔ ∃ f, m = .fn f ∧ md = .fn f := by
  obtain ⟨g, rfl⟩ := hmd
  cases m with
  | fn f => simp [Mode.ofPy, eq_comm]
  | val c =>
    rcases mode_val_cases c with ⟨_, e⟩ | ⟨_, _, e⟩ | ⟨_, _, _, e⟩ | ⟨_, _, _, e⟩ <;> rw [e] <;> simp

/-- the pair `(lhs, rhs)` is the reading of EVERY other scalar: `None` (the default), but also `'x'`, `2`, `nan`, a datetime -/
theorem mode_pair_iff (m : PyMode) :
    Mode.ofPy m = some .pair ↔
      ∃ c, m = .val c ∧ c ≠ .str "" ∧ ¬ (StartsWith 'l' 'L' c ∨ IsZero c) ∧ ¬ (StartsWith 'r' 'R' c ∨ IsOne c) := by
  cases m with
  | fn f => simp [Mode.ofPy]
  | val c =>
    simp only [PyMode.val.injEq, exists_eq_left']
    rcases mode_val_cases c with ⟨h, e⟩ | ⟨_, h, e⟩ | ⟨_, _, h, e⟩ | ⟨hne, h1, h2, e⟩
    · rw [e]; exact ⟨(fun h' => by cases h'), fun h' => absurd h h'.1⟩
    · rw [e]; exact ⟨(fun h' => by cases h'), fun h' => absurd h h'.2.1⟩
    · rw [e]; exact ⟨(fun h' => by cases h'), fun h' => absurd h h'.2.2⟩
    · rw [e]; exact ⟨fun _ => ⟨hne, h1, h2⟩, fun _ => rfl⟩

/-- the model declines exactly one value: the empty string (`''[0]` raises IndexError in the code, but only once a shared non-key column is
assembled; the driver answers `bad-op`, nothing is generated) -/
theorem mode_undefined_iff (m : PyMode) : Mode.ofPy m = Option.none ↔ m = .val (.str "") := by
  cases m with
  | fn f => simp [Mode.ofPy]
  | val c =>
    simp only [PyMode.val.injEq]
    rcases mode_val_cases c with ⟨h, e⟩ | ⟨h, _, e⟩ | ⟨h, _, _, e⟩ | ⟨h, _, _, e⟩ <;> rw [e] <;> simp [h]

/-- `xor`: the right table exactly for `'r…'` / `'R…'` / `1` / `1.0` / `True` … -/
theorem xor_mode_right_iff (m : PyMode) :
    Mode.xorOfPy m = some 1 ↔ ∃ c, m = .val c ∧ (StartsWith 'r' 'R' c ∨ IsOne c) := by
  cases m with
  | fn f => simp [Mode.xorOfPy]
  | val c =>
    simp only [PyMode.val.injEq, exists_eq_left']
    rw [← modeStarts_r, ← pyEq_one_iff]
    cases hr : modeStarts 'r' c with
    | none =>
      have := (modeStarts_none _ _).mp hr; subst this
      simp [Mode.xorOfPy, hr, Cell.pyEq]
    | some r =>
      simp only [Mode.xorOfPy, hr, Option.bind_eq_bind, Option.bind_some]
      generalize c.pyEq (.int 1) = o
      cases r <;> cases o <;> simp

/-- … and the left table for every other value, `None`, `'x'`, `2`, `0` and callables included (the empty string is declined) -/
theorem xor_mode_left_iff (m : PyMode) :
    Mode.xorOfPy m = some 0 ↔ (∃ f, m = .fn f) ∨ ∃ c, m = .val c ∧ c ≠ .str "" ∧ ¬ (StartsWith 'r' 'R' c ∨ IsOne c) := by
  cases m with
  | fn f => simp [Mode.xorOfPy]
  | val c =>
    simp only [PyMode.val.injEq, exists_eq_left', reduceCtorEq, exists_false, false_or]
    rw [← modeStarts_r, ← pyEq_one_iff, Ne, ← modeStarts_none 'r']
    cases hr : modeStarts 'r' c with
    | none => simp [Mode.xorOfPy, hr]
    | some r =>
      simp only [Mode.xorOfPy, hr, Option.bind_eq_bind, Option.bind_some]
      generalize c.pyEq (.int 1) = o
      cases r <;> cases o <;> simp

theorem xor_mode_range (m : PyMode) (k : Nat) (h : Mode.xorOfPy m = some k) : k = 0 ∨ k = 1 := by
  cases m with
  | fn f => simp [Mode.xorOfPy] at h; omega
  | val c =>
    simp only [Mode.xorOfPy, Option.bind_eq_bind] at h
    cases hr : modeStarts 'r' c with
    | none => rw [hr] at h; cases h
    | some r => rw [hr] at h; simp at h; split at h <;> omega

/-- the spellings the statement lists (None, 'l', 'r', 0, 1) and the docstring's ('left', 'lhs', 'right', 'rhs'), a few it does not
(`True`, `1.0`, `'Left'`, `'x'`, `2`): what each means for `join` and for `xor` -/
theorem mode_listed :
    Mode.ofPy (.val .none) = some .pair ∧ Mode.ofPy (.val (.str "l")) = some .left ∧ Mode.ofPy (.val (.str "r")) = some .right ∧
    Mode.ofPy (.val (.int 0)) = some .left ∧ Mode.ofPy (.val (.int 1)) = some .right ∧
    Mode.ofPy (.val (.str "left")) = some .left ∧ Mode.ofPy (.val (.str "lhs")) = some .left ∧
    Mode.ofPy (.val (.str "right")) = some .right ∧ Mode.ofPy (.val (.str "RHS")) = some .right ∧
    Mode.ofPy (.val (.bool true)) = some .right ∧ Mode.ofPy (.val (.flt 4)) = some .right ∧ Mode.ofPy (.val (.bool false)) = some .left ∧
    Mode.ofPy (.val (.str "Left")) = some .left ∧ Mode.ofPy (.val (.str "x")) = some .pair ∧ Mode.ofPy (.val (.int 2)) = some .pair ∧
    Mode.ofPy (.val .nan) = some .pair ∧
    Mode.xorOfPy (.val .none) = some 0 ∧ Mode.xorOfPy (.val (.str "l")) = some 0 ∧ Mode.xorOfPy (.val (.str "r")) = some 1 ∧
    Mode.xorOfPy (.val (.int 0)) = some 0 ∧ Mode.xorOfPy (.val (.int 1)) = some 1 ∧ Mode.xorOfPy (.val (.str "x")) = some 0 ∧
    Mode.xorOfPy (.val (.int 2)) = some 0 ∧ Mode.xorOfPy (.val (.bool true)) = some 1 := by
  refine ⟨?_, ?_, ?_, ?_, ?_, ?_, ?_, ?_, ?_, ?_, ?_, ?_, ?_, ?_, ?_, ?_, ?_, ?_, ?_, ?_, ?_, ?_, ?_, ?_⟩ <;> rfl

/-- what the combined column holds, by the python value of `mode` (with `join_col_both`: the cell of a same-named non-key column) -/
theorem mode_apply_spec (m : PyMode) (md : Mode) (h : Mode.ofPy m = some md) (a b : Cell) :
    (∀ c, m = .val c → (StartsWith 'l' 'L' c ∨ IsZero c) → md.apply a b = .cell a) ∧
    (∀ c, m = .val c → ¬ (StartsWith 'l' 'L' c ∨ IsZero c) → (StartsWith 'r' 'R' c ∨ IsOne c) → md.apply a b = .cell b) ∧
    (∀ c, m = .val c → ¬ (StartsWith 'l' 'L' c ∨ IsZero c) → ¬ (StartsWith 'r' 'R' c ∨ IsOne c) → md.apply a b = .tuple [.cell a, .cell b]) ∧
    (∀ f, m = .fn f → md.apply a b = f a b) := by
  refine ⟨?_, ?_, ?_, ?_⟩
  · rintro c rfl hl
    have := (mode_left_iff (.val c)).mpr ⟨c, rfl, hl⟩
    rw [this] at h; cases h; rfl
  · rintro c rfl hl hr
    rcases mode_val_cases c with ⟨_, e⟩ | ⟨_, h', _⟩ | ⟨_, _, _, e⟩ | ⟨_, _, h', _⟩
    · rw [e] at h; cases h
    · exact absurd h' hl
    · rw [e] at h; cases h; rfl
    · exact absurd hr h'
  · rintro c rfl hl hr
    rcases mode_val_cases c with ⟨_, e⟩ | ⟨_, h', _⟩ | ⟨_, _, h', _⟩ | ⟨_, _, _, e⟩
    · rw [e] at h; cases h
    · exact absurd h' hl
    · exact absurd h' hr
    · rw [e] at h; cases h; rfl
  · rintro f rfl
    simp only [Mode.ofPy, Option.some.injEq] at h; subst h; rfl

/-- the legacy mode atoms of the wire are the python values of `PY_MODES` (harness/pv/props/c02.py), and decode as before -/
theorem legacy_mode_atoms :
    JoinDriver.modeOf (.atom "mN") = some .pair ∧ JoinDriver.modeOf (.atom "ml0") = some .left ∧ JoinDriver.modeOf (.atom "mlS") = some .left ∧
    JoinDriver.modeOf (.atom "mlL") = some .left ∧ JoinDriver.modeOf (.atom "mr1") = some .right ∧ JoinDriver.modeOf (.atom "mrS") = some .right ∧
    JoinDriver.modeOf (.atom "mrR") = some .right ∧
    JoinDriver.xorModeOf (.atom "mN") = some 0 ∧ JoinDriver.xorModeOf (.atom "ml0") = some 0 ∧ JoinDriver.xorModeOf (.atom "mlS") = some 0 ∧
    JoinDriver.xorModeOf (.atom "mlL") = some 0 ∧ JoinDriver.xorModeOf (.atom "mr1") = some 1 ∧ JoinDriver.xorModeOf (.atom "mrS") = some 1 ∧
    JoinDriver.xorModeOf (.atom "mrR") = some 1 := by
  refine ⟨?_, ?_, ?_, ?_, ?_, ?_, ?_, ?_, ?_, ?_, ?_, ?_, ?_, ?_⟩ <;> rfl


/-! ### `dictOf`: a repeated name keeps the cells of its LAST occurrence (lookup lemma, open since review s1) -/

theorem lookup_mapSet_ne {α} (d : List (String × α)) (a : String) (v : α) (k : String) (hk : (k == a) = false) :
    List.lookup k (d.map fun c => if c.1 == a then (a, v) else c) = List.lookup k d := by
  induction d with
  | nil => rfl
  | cons c rest ih =>
    obtain ⟨c1, c2⟩ := c
    simp only [List.map_cons, List.lookup_cons]
    by_cases hc : (c1 == a) = true
    · have e : c1 = a := by simpa using hc
      have hkc : (k == c1) = false := by rw [e]; exact hk
      simp only [hc, if_true, hk, hkc, ih, List.lookup_cons]
    · have hc' : (c1 == a) = false := by simpa using hc
      simp only [hc', Bool.false_eq_true, if_false, ih, List.lookup_cons]

theorem lookup_mapSet_eq {α} (d : List (String × α)) (a : String) (v : α) (h : d.any (·.1 == a) = true) :
    List.lookup a (d.map fun c => if c.1 == a then (a, v) else c) = some v := by
  induction d with
  | nil => simp at h
  | cons c rest ih =>
    obtain ⟨c1, c2⟩ := c
    simp only [List.map_cons]
    by_cases hc : (c1 == a) = true
    · simp [hc, List.lookup_cons]
    · have hc' : (c1 == a) = false := by simpa using hc
      have hac : (a == c1) = false := by
        rw [beq_eq_false_iff_ne] at hc' ⊢; exact fun e => hc' e.symm
      simp only [hc', Bool.false_eq_true, if_false, hac, List.lookup_cons]
      exact ih (by simpa [List.any_cons, hc'] using h)

theorem lookup_dictSet {α} (d : List (String × α)) (a : String) (v : α) (k : String) :
    List.lookup k (dictSet d a v) = if k == a then some v else List.lookup k d := by
  unfold dictSet
  by_cases hk : (k == a) = true
  · have e : k = a := by simpa using hk
    subst e
    simp only [beq_self_eq_true, if_true]
    by_cases hany : d.any (·.1 == k) = true
    · rw [if_pos hany]; exact lookup_mapSet_eq d k v hany
    · rw [if_neg hany, List.lookup_append]
      have : List.lookup k d = Option.none := by
        rw [List.lookup_eq_none_iff]
        intro p hp
        simp only [List.any_eq_true, not_exists, not_and] at hany
        have := hany p hp
        rw [bne_iff_ne]
        intro e; exact this (by simp [e])
      simp [this]
  · have hk' : (k == a) = false := by simpa using hk
    simp only [hk', Bool.false_eq_true, if_false]
    by_cases hany : d.any (·.1 == a) = true
    · rw [if_pos hany]; exact lookup_mapSet_ne d a v k hk'
    · rw [if_neg hany, List.lookup_append]
      simp [List.lookup_cons, hk']

theorem lookup_foldl_dictSet {α} (kvs d : List (String × α)) (k : String) :
    List.lookup k (kvs.foldl (fun d kv => dictSet d kv.1 kv.2) d) = (List.lookup k kvs.reverse).or (List.lookup k d) := by
  induction kvs generalizing d with
  | nil => simp
  | cons kv rest ih =>
    obtain ⟨k1, v1⟩ := kv
    rw [List.foldl_cons, ih, lookup_dictSet, List.reverse_cons, List.lookup_append]
    cases List.lookup k rest.reverse with
    | some v => simp
    | none =>
      simp only [Option.none_or, List.lookup_cons, List.lookup_nil]
      by_cases hk : (k == k1) = true <;> simp [hk, List.lookup_cons]

/-- **`dict(zip(names, columns))`**: looking a name up in `dictOf kvs` gives the cells of its LAST occurrence in `kvs` (lookup in the reversed list) -
what `join_dup_spec`'s key part means for `x.join(y, ['a','a'], ['a','b'])`: the column `a` holds the SECOND key component -/
theorem dictOf_lookup {α} (kvs : List (String × α)) (k : String) :
    List.lookup k (dictOf kvs) = List.lookup k kvs.reverse := by
  unfold dictOf
  rw [lookup_foldl_dictSet]
  simp

example : List.lookup "a" (dictOf [("a", 1), ("b", 2), ("a", 3)]) = some 3 := by
  rw [dictOf_lookup]; rfl

end Pyg.Props.C02
