/-
  C02 — join is the relational inner/cross join and xor the anti-join; both terminate.
  Property theorems only (helper lemmas: PygProofs/Lemmas/JoinLemmas.lean).

  Vocabulary: `lk`, `rk` are the per-row keys of the two tables (what `dictable[lcols]` returns: one
  tuple per row); `keyAt ks i` is the key of row `i`; key equality is `cmp · · = .eq`, which by C07
  identifies an int with the same-valued float, `None` with `None` and NaN with NaN.
-/
import PygModel.Join
import PygProofs.Lemmas.JoinLemmas

namespace Pyg.Props.C02
open Pyg

/-! ## termination of the sort-merge loop -/

/-- **progress**: while the loop condition `l<ls and r<rs` holds, one pass through the loop body
moves at least one cursor: the number of groups not yet passed strictly decreases.  The proof uses
only that `cmp` returns one of `lt / gt / eq` and that the match step tests `cmp == 0`. -/
theorem outer_progress {β} (e : Emit β) (lxs rxs : List Grp) (st : MState β)
    (h : st.l < lxs.length ∧ st.r < rxs.length) :
    (outer e lxs rxs st).measure lxs rxs < st.measure lxs rxs :=
  (outer_spec e lxs rxs st h).1

/-- **termination**: from any state, `measure` passes of the loop body reach a state in which the
loop condition is false, and additional fuel changes nothing (the fuel is only a bound). -/
theorem merge_terminates_from {β} (e : Emit β) (lxs rxs : List Grp) (st : MState β) (fuel : Nat)
    (h : st.measure lxs rxs ≤ fuel) :
    ¬ ((mergeLoop e lxs rxs fuel st).l < lxs.length ∧ (mergeLoop e lxs rxs fuel st).r < rxs.length) ∧
    ∀ k, mergeLoop e lxs rxs (fuel + k) st = mergeLoop e lxs rxs fuel st := by
  have := mergeLoop_spec e lxs rxs fuel st h
  exact ⟨this.1, this.2.2⟩

/-- the loop as `join` / `xor` run it (from `l = r = 0`, fuel `ls + rs`) exits through its condition -/
theorem merge_terminates {β} (e : Emit β) (lxs rxs : List Grp) :
    ¬ ((mergeRun e lxs rxs).l < lxs.length ∧ (mergeRun e lxs rxs).r < rxs.length) ∧
    ∀ k, mergeLoop e lxs rxs (lxs.length + rxs.length + k) ⟨0, 0, []⟩ = mergeRun e lxs rxs :=
  merge_terminates_from e lxs rxs ⟨0, 0, []⟩ _ (by simp [MState.measure])

/-- the loop computes the structural merge of the two group lists (no sortedness needed):
emitted values, and the unconsumed suffixes that `xor` appends afterwards -/
theorem merge_loop_is_merge {β} (e : Emit β) (lxs rxs : List Grp) :
    ((mergeRun e lxs rxs).res, lxs.drop (mergeRun e lxs rxs).l, rxs.drop (mergeRun e lxs rxs).r)
      = mergeG e lxs rxs :=
  mergeRun_eq e lxs rxs

/-- Python `==` on two key tuples of scalar cells (NaN ≠ NaN): the test of the unrepaired code -/
def tupEq : Val → Val → Bool
  | .tuple xs, .tuple ys =>
    xs.length == ys.length && (xs.zip ys).all fun p =>
      match p with
      | (.cell a, .cell b) => a.pyEq b
      | _ => false
  | _, _ => false

/-- **finding F1**: with the original match test `lxs[l] == rxs[r]` progress fails.  On one NaN key
per side `cmp` says equal (no inner loop moves) and `==` says different (the match step does not
move): the state is a fixed point of the loop body, so the loop never exits, whatever the fuel. -/
theorem orig_loop_stuck :
    let g : List Grp := [(.tuple [.cell .nan], [0])]
    let st : MState Match := ⟨0, 0, []⟩
    (st.l < g.length ∧ st.r < g.length) ∧ outerWith tupEq joinEmit g g st = st ∧
    ∀ n, mergeLoopWith tupEq joinEmit g g n st = st := by
  intro g st
  have hfix : outerWith tupEq joinEmit g g st = st := by rfl
  refine ⟨by decide, hfix, ?_⟩
  intro n
  induction n with
  | zero => rfl
  | succ n ih =>
    simp only [mergeLoopWith]
    rw [if_pos (by decide), hfix, ih]

/-! ## `_listby` -/

/-- the groups of `_listby`: concatenating the row-id lists gives the stable sort permutation of the
keys (so every row is in exactly one group), the group keys are strictly increasing under `cmp`
(so distinct groups have different keys), and every row's key is `cmp`-equal to its group's key. -/
theorem listby_groups (keys : List Val) :
    (listbyG keys).flatMap (·.2) = sortIdx keys ∧
    ((listbyG keys).flatMap (·.2)).Perm (List.range keys.length) ∧
    (listbyG keys).Pairwise (fun a b => cmp a.1 b.1 = .lt) ∧
    ∀ g ∈ listbyG keys, ∀ i ∈ g.2, i < keys.length ∧ cmp (keyAt keys i) g.1 = .eq := by
  refine ⟨listbyG_flat keys, listbyG_perm keys, listbyG_sorted keys, ?_⟩
  intro g hg i hi
  obtain ⟨k, hk, he⟩ := listbyG_keys keys g hg i hi
  exact ⟨(List.getElem?_eq_some_iff.1 hk).1, by rw [keyAt_of_get hk]; exact he⟩

/-! ## join -/

/-- **join, row level**: left row `i` and right row `j` are paired in the result iff both exist and
their keys are equal under `cmp` -/
theorem join_pairs_iff (lk rk : List Val) (i j : Nat) :
    (i, j) ∈ joinPairs lk rk ↔
      i < lk.length ∧ j < rk.length ∧ cmp (keyAt lk i) (keyAt rk j) = .eq :=
  mem_joinPairs

/-- **join, as a multiset**: the (left row, right row) pairs of the result are a permutation of the
index pairs with equal keys — each such pair exactly once, nothing else (many-to-many keys give the
full product of the two groups) -/
theorem join_pairs_spec (lk rk : List Val) :
    (joinPairs lk rk).Perm
      ((allPairs lk.length rk.length).filter fun p => cmp (keyAt lk p.1) (keyAt rk p.2) == .eq) :=
  joinPairs_perm lk rk

/-- **join, table level** (`lcols`, `rcols` given, at least one key column).  The result has the
columns `cols + lkeys + rkeys + jkeys`; its rows are `kp.map …` for a list `kp` of
`(key, left row, right row)` triples such that the `(left, right)` parts are exactly the key-equal
index pairs (as a multiset) and the key carried by a row is `cmp`-equal to the keys of both rows.
Same-named non-key columns are combined by `mode`. -/
theorem join_spec (x y : Table) (lc rc : List KeySpec) (mode : Mode)
    (cols : List String) (lk rk : List Val)
    (hlen : lc.length = rc.length) (hcols : joinColNames lc rc = .ok cols)
    (hnd : cols.Nodup) (hne : cols ≠ [])
    (hlk : x.keysOf lc = .ok lk) (hrk : y.keysOf rc = .ok rk) :
    ∃ kp : List (Val × Nat × Nat),
      join x y (some lc) (some rc) mode = some (.ok (joinTableOf x y cols mode kp)) ∧
      (kp.map (·.2)).Perm
        ((allPairs x.nrows y.nrows).filter fun p => cmp (keyAt lk p.1) (keyAt rk p.2) == .eq) ∧
      ∀ p ∈ kp, cmp p.1 (keyAt lk p.2.1) = .eq ∧ cmp p.1 (keyAt rk p.2.2) = .eq := by
  refine ⟨keyedPairs (joinMatches lk rk), ?_, ?_, keyedPairs_keys⟩
  · have hne' : cols.isEmpty = false := by cases cols <;> simp_all
    simp only [join, Option.getD_some, hlen, ne_eq, not_true_eq_false, if_false, hcols, hnd,
      hne', hlk, hrk, Bool.false_eq_true]
    simp only [bind, Except.bind, pure, Except.pure]
    rw [joinBody_rows]
  · rw [keyedPairs_snd, ← keysOf_length hlk, ← keysOf_length hrk]
    exact joinPairs_perm lk rk

/-- the result table is rectangular: every column has one cell per result row -/
theorem join_rect (x y : Table) (cols : List String) (mode : Mode) (kp : List (Val × Nat × Nat)) :
    ∀ c ∈ joinTableOf x y cols mode kp, c.2.length = kp.length := by
  intro c hc
  simp only [joinTableOf, List.mem_append, List.mem_map] at hc
  rcases hc with ((⟨a, _, rfl⟩ | ⟨a, _, rfl⟩) | ⟨a, _, rfl⟩) | ⟨a, _, rfl⟩ <;> simp

/-- omitted `lcols` / `rcols` mean the shared columns (in the left table's order) on both sides -/
theorem join_default_cols (x y : Table) (mode : Mode) :
    join x y none none mode =
      join x y (some ((linter x.cols y.cols).map .col)) (some ((linter x.cols y.cols).map .col)) mode ∧
    ∀ lc, join x y (some lc) none mode = join x y (some lc) (some lc) mode := by
  constructor <;> intros <;> simp [join]

theorem xor_default_cols (x y : Table) (mode : Nat) :
    xor x y none none mode =
      xor x y (some ((linter x.cols y.cols).map .col)) (some ((linter x.cols y.cols).map .col)) mode := by
  simp [xor]

/-- **cross join** (no key column): the full product of the two tables, row-major -/
theorem cross_spec (x y : Table) (mode : Mode) :
    join x y (some []) (some []) mode =
      some (.ok (joinTableOf x y [] mode
        ((allPairs x.nrows y.nrows).map fun p => (.cell .none, p.1, p.2)))) := by
  simp only [join, Option.getD_some, joinColNames, List.length_nil, ne_eq, not_true_eq_false,
    if_false, List.nodup_nil, List.isEmpty_nil, if_true]
  simp [joinBody, joinTableOf, expand_cross, List.map_map, Function.comp_def]

/-! ## xor -/

/-- **xor, as a multiset** (mode `'l'`): the selected left row ids are a permutation of the rows of
`x` whose key is equal to no key of `y`.  (`hk`: no left key is `cmp`-equal to the `None` placeholder
of `_listby`; keys built by `dictable[cols]` are tuples — `keysOf_tuple` — so this always holds.) -/
theorem xor_ids_spec (lk rk : List Val) (hk : ∀ k ∈ lk, cmp k (.cell .none) ≠ .eq) :
    (xorIds 0 lk rk).Perm
      ((List.range lk.length).filter fun i =>
        (List.range rk.length).all fun j => cmp (keyAt lk i) (keyAt rk j) != .eq) :=
  xorIds_perm hk

/-- **xor, table level**: `x.xor(y, lcols, rcols)` is `x` restricted to a list of row ids which is,
as a multiset, exactly the rows of `x` whose key matches no row of `y` -/
theorem xor_spec (x y : Table) (lc rc : List KeySpec) (lk rk : List Val)
    (hlen : lc.length = rc.length) (hne : lc ≠ [])
    (hlk : x.keysOf lc = .ok lk) (hrk : y.keysOf rc = .ok rk) :
    ∃ ids : List Nat,
      xor x y (some lc) (some rc) 0 = .ok (x.gatherRows ids) ∧
      ids.Perm ((List.range x.nrows).filter fun i =>
        (List.range y.nrows).all fun j => cmp (keyAt lk i) (keyAt rk j) != .eq) := by
  refine ⟨xorIds 0 lk rk, ?_, ?_⟩
  · have hne' : lc.isEmpty = false := by cases lc <;> simp_all
    simp [xor, hlen, hne', hlk, hrk, bind, Except.bind, pure, Except.pure]
  · rw [← keysOf_length hlk, ← keysOf_length hrk]
    exact xorIds_perm (keysOf_tuple hlk)

/-- **xor, mode 'r'**: the same statement with the roles exchanged — `x.xor(y, …, mode='r')` is `y`
restricted to (a permutation of) its rows whose key matches no row of `x` -/
theorem xor_spec_r (x y : Table) (lc rc : List KeySpec) (lk rk : List Val)
    (hlen : lc.length = rc.length) (hne : lc ≠ [])
    (hlk : x.keysOf lc = .ok lk) (hrk : y.keysOf rc = .ok rk) :
    ∃ ids : List Nat,
      xor x y (some lc) (some rc) 1 = .ok (y.gatherRows ids) ∧
      ids.Perm ((List.range y.nrows).filter fun j =>
        (List.range x.nrows).all fun i => cmp (keyAt lk i) (keyAt rk j) != .eq) := by
  refine ⟨xorIds 1 lk rk, ?_, ?_⟩
  · have hne' : lc.isEmpty = false := by cases lc <;> simp_all
    simp [xor, hlen, hne', hlk, hrk, bind, Except.bind, pure, Except.pure]
  · rw [← keysOf_length hlk, ← keysOf_length hrk]
    apply xorIds1_perm
    intro k hk he
    exact keysOf_tuple hrk k hk (cmp_eq_symm he)

/-- with no key column `xor` returns `x` itself -/
theorem xor_nokey (x y : Table) (mode : Nat) : xor x y (some []) (some []) mode = .ok x := by
  simp [xor]

/-! ## left join = x*y + x/y -/

/-- **partition**: every row of `x` lies in exactly one of `x / y` and the matched part of `x * y`;
`x / y` holds it once, and `x * y` holds it once per matching row of `y`. -/
theorem left_join_partition (lk rk : List Val) (hk : ∀ k ∈ lk, cmp k (.cell .none) ≠ .eq)
    (i : Nat) (hi : i < lk.length) :
    (i ∈ xorIds 0 lk rk ↔ ¬ ∃ j, (i, j) ∈ joinPairs lk rk) ∧
    (xorIds 0 lk rk).Nodup ∧
    ((joinPairs lk rk).filter (·.1 == i)).Perm
      (((List.range rk.length).filter fun j => cmp (keyAt lk i) (keyAt rk j) == .eq).map
        fun j => (i, j)) := by
  refine ⟨?_, xorIds_nodup lk rk, ?_⟩
  · rw [mem_xorIds hk]
    simp only [mem_joinPairs, hi, true_and, not_exists, not_and]
  · rw [List.perm_ext_iff_of_nodup ((joinPairs_nodup lk rk).sublist List.filter_sublist)]
    · rintro ⟨a, b⟩
      simp only [List.mem_filter, mem_joinPairs, List.mem_map, List.mem_range, beq_iff_eq,
        Prod.mk.injEq]
      constructor
      · rintro ⟨⟨_, hb, hc⟩, rfl⟩
        exact ⟨b, ⟨hb, hc⟩, rfl, rfl⟩
      · rintro ⟨j, ⟨hj, hc⟩, rfl, rfl⟩
        exact ⟨⟨hi, hj, hc⟩, rfl⟩
    · rw [List.nodup_iff_pairwise_ne, List.pairwise_map]
      apply (List.nodup_iff_pairwise_ne.1
        (List.nodup_range.sublist List.filter_sublist)).imp
      intro a b hne h
      exact hne (by simpa using h)

/-! ## the key equalities the statement singles out (inherited from C07) -/

theorem key_int_float (n : Int) :
    cmp (.tuple [.cell (.int n)]) (.tuple [.cell (.flt (4 * n))]) = .eq := by
  have h := Props.C07.cmp_int_float n
  simp only [cmp, Val.norm, normList, cmpN, cmpArr] at h ⊢
  simp [h]

theorem key_none_none : cmp (.tuple [.cell .none]) (.tuple [.cell .none]) = .eq := cmp_self _

theorem key_nan_nan : cmp (.tuple [.cell .nan]) (.tuple [.cell .nan]) = .eq := cmp_self _

/-! ## non-vacuity and evaluation tests -/

def exX : Table := [("a", [.int 1, .int 2, .int 2, .none, .nan]), ("v", [.int 10, .int 20, .int 30, .int 40, .int 50])]
def exY : Table := [("a", [.flt 8, .int 2, .none, .nan]), ("u", [.int 1, .int 2, .int 3, .int 4])]

/-- the hypotheses of `join_spec` / `xor_spec` hold on a table pair with many-to-many, int/float,
`None` and NaN keys -/
example : joinColNames [.col "a"] [.col "a"] = .ok ["a"] ∧ ["a"].Nodup ∧
    exX.keysOf [.col "a"] = .ok [.tuple [.cell (.int 1)], .tuple [.cell (.int 2)],
      .tuple [.cell (.int 2)], .tuple [.cell .none], .tuple [.cell .nan]] ∧
    exY.keysOf [.col "a"] = .ok [.tuple [.cell (.flt 8)], .tuple [.cell (.int 2)],
      .tuple [.cell .none], .tuple [.cell .nan]] := by
  refine ⟨rfl, by decide, rfl, rfl⟩

/-- the hypothesis of `outer_progress` holds in a state of a non-trivial merge -/
example : (⟨0, 1, []⟩ : MState Match).l < [((.cell (.int 1) : Val), [0]), (.cell (.int 3), [1])].length ∧
    (⟨0, 1, []⟩ : MState Match).r < [((.cell (.int 0) : Val), [0]), (.cell (.int 3), [1])].length := by
  decide

-- evaluation tests (`List.mergeSort` does not reduce in the kernel, hence `#guard`)
#guard joinPairs [.tuple [.cell (.int 1)], .tuple [.cell (.int 2)], .tuple [.cell (.int 2)],
      .tuple [.cell .none], .tuple [.cell .nan]]
    [.tuple [.cell (.flt 8)], .tuple [.cell (.int 2)], .tuple [.cell .none], .tuple [.cell .nan]]
  == [(3, 2), (1, 0), (1, 1), (2, 0), (2, 1), (4, 3)]
#guard xorIds 0 [.tuple [.cell (.int 1)], .tuple [.cell (.int 2)], .tuple [.cell .nan]]
    [.tuple [.cell (.flt 8)], .tuple [.cell .nan]] == [0]
#guard (listbyG [.tuple [.cell (.int 2)], .tuple [.cell .nan], .tuple [.cell (.flt 8)],
    .tuple [.cell .nan]]).map (·.2) == [[0, 2], [1, 3]]

end Pyg.Props.C02
