/-
  C02 — join is the relational inner/cross join and xor the anti-join; both terminate.
-/
import PygModel.Join

namespace Pyg.Props.C02
open Pyg

/-- an empty key list gives the single group `(None, [])` (the code appends it unconditionally) -/
theorem listby_empty : listbyG [] = [(.cell .none, [])] := by
  simp [listbyG, sortedKeyIds, listbyLoop]

end Pyg.Props.C02
