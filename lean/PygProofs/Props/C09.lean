/-
  C09 — dt_bump adds business days, calendar units and compound tenors exactly.
  Property theorems only (helpers: PygProofs/Lemmas/BumpLemmas.lean, GregLemmas.lean).

  `Gen.bOff`, `Gen.ym`, `Gen.ymd`, `Gen.bumpUnit`, `Gen.namedTenors`, `Gen.periodUnits` are GENERATED from the
  current text of src/pyg_base/_dates.py on every run, so the theorems below that mention them are about the
  code's own arithmetic and stop checking when that arithmetic changes.
  Ordinals `o : Int` are `datetime.toordinal()` values; datetimes `t : Int` are microseconds since 0001-01-01.
-/
import PygModel.Bump
import PygProofs.Lemmas.BumpLemmas
import PygProofs.Lemmas.MonthLemmas
import PygProofs.Lemmas.TokenLemmas

namespace Pyg.Props.C09
open Pyg Pyg.Bump Pyg.Gen Pyg.Greg

/-! ### business days: the closed form of lines 407-418 against day-by-day counting (all t, all n) -/

/-- `'nb'` always lands on a weekday — from any day, for any `n` -/
theorem b_lands (o n : Int) : wd (o + bOff (wd o) n) < 5 := by
  unfold bOff wd; simp only []; omega

/-- from a weekday, `'kb'` (k ≥ 0) is the k-th weekday after `o`: `k`-fold "next weekday" -/
theorem b_nth_fwd (o : Int) (h : wd o < 5) (k : Nat) : iter nextWd k o = o + bOff (wd o) k := by
  induction k with
  | zero => simp [iter, bOff_zero o h]
  | succ k ih =>
    simp only [iter, ih]
    have := bOff_succ o h k (by omega)
    rw [this]; congr 2

/-- from a weekday, `'-kb'` is the k-th weekday before `o` -/
theorem b_nth_bwd (o : Int) (h : wd o < 5) (k : Nat) : iter prevWd k o = o + bOff (wd o) (-(k : Int)) := by
  induction k with
  | zero => simp [iter, bOff_zero o h]
  | succ k ih =>
    simp only [iter, ih]
    have := bOff_pred o h (-(k : Int)) (by omega)
    rw [this]; congr 2; omega

example : iter nextWd 3 730124 = 730129 ∧ wd 730124 = 2 := by decide   -- Wed 2000-01-05 + 3b = Mon 2000-01-10

/-- from a Saturday / Sunday the bump first rolls forward to the following Monday and counts from there -/
theorem b_weekend_roll (o n : Int) (h : 5 ≤ wd o) :
    wd (o + (7 - wd o)) = 0 ∧ o + bOff (wd o) n = (o + (7 - wd o)) + bOff 0 n := by
  unfold bOff wd at *; simp only []; omega

example : (5 : Int) ≤ wd 730120 := by decide     -- 2000-01-01 is a Saturday

/-- monotone in the day: an earlier day never overtakes a later one -/
theorem b_mono_days (o₁ o₂ n : Int) (h : o₁ ≤ o₂) : o₁ + bOff (wd o₁) n ≤ o₂ + bOff (wd o₂) n := by
  unfold bOff wd; simp only []; repeat' split
  all_goals omega

/-- strictly monotone between weekdays (so `'nb'` is injective on weekdays) -/
theorem b_strict_mono_weekdays (o₁ o₂ n : Int) (h₁ : wd o₁ < 5) (h₂ : wd o₂ < 5) (h : o₁ < o₂) :
    o₁ + bOff (wd o₁) n < o₂ + bOff (wd o₂) n := by
  unfold bOff wd at *; simp only []; repeat' split
  all_goals omega

/-- bumps of the same sign compose, from a weekday -/
theorem b_compose (o a b : Int) (h : wd o < 5) (hs : (0 ≤ a ∧ 0 ≤ b) ∨ (a ≤ 0 ∧ b ≤ 0)) :
    (o + bOff (wd o) a) + bOff (wd (o + bOff (wd o) a)) b = o + bOff (wd o) (a + b) := by
  unfold bOff wd at *; simp only []; repeat' split
  all_goals (rcases hs with hs | hs <;> omega)

example : wd 730124 < 5 ∧ ((0:Int) ≤ 7 ∧ (0:Int) ≤ 4) := by decide

/-- `+n` business days then `-n` business days returns to the start, from a weekday (from a weekend day it cannot:
the roll to Monday is not undone) -/
theorem b_inverse (o n : Int) (h : wd o < 5) :
    (o + bOff (wd o) n) + bOff (wd (o + bOff (wd o) n)) (-n) = o := by
  unfold bOff wd at *; simp only []; repeat' split
  all_goals omega

/-! ### the same facts on datetimes (microseconds): the time of day is carried along -/

/-- what the model's `'nb'` step does to a datetime inside the representable range: day moved by the closed form,
time of day unchanged -/
theorem b_datetime (t n t' : Int) (h : applyStep t (.bday n) = .ok t') :
    ordOf t' = ordOf t + bOff (wd (ordOf t)) n ∧ todOf t' = todOf t ∧ wd (ordOf t') < 5 := by
  have h := bday_ok t n t' h
  simp only [wdOf] at h
  rw [h.2]
  refine ⟨ordOf_add_days _ _, todOf_add_days _ _, ?_⟩
  rw [ordOf_add_days]; exact b_lands _ _

example : applyStep 63082281600000000 (.bday 1) = .ok 63082540800000000 := ok_of_okVal (by decide +kernel)  -- Sat 2000-01-01 -> Tue 2000-01-04

/-- K3: monotonicity in `t` is FALSE of the code for intraday times across the weekend roll.  Sunday 2021-03-07
23:00 is before Monday 2021-03-08 00:30, but their `'0b'` images are Monday 23:00 and Monday 00:30. -/
theorem b_mono_intraday_false :
    ∃ t₁ t₂ r₁ r₂ : Int, t₁ < t₂ ∧ applyStep t₁ (.bday 0) = .ok r₁ ∧ applyStep t₂ (.bday 0) = .ok r₂ ∧ r₂ < r₁ :=
  ⟨63750754800000000, 63750760200000000, 63750841200000000, 63750760200000000, by decide,
    ok_of_okVal (by decide +kernel), ok_of_okVal (by decide +kernel), by decide⟩

/-- … while between instants whose earlier one is not on a weekend (or whose times of day are ordered the same way)
monotonicity does hold: here for any two instants on weekdays -/
theorem b_mono_weekdays (t₁ t₂ n r₁ r₂ : Int) (h : t₁ ≤ t₂) (w₁ : wdOf t₁ < 5) (w₂ : wdOf t₂ < 5)
    (h₁ : applyStep t₁ (.bday n) = .ok r₁) (h₂ : applyStep t₂ (.bday n) = .ok r₂) : r₁ ≤ r₂ := by
  have h₁ := bday_ok _ _ _ h₁
  have h₂ := bday_ok _ _ _ h₂
  rw [h₁.2, h₂.2]
  by_cases hd : ordOf t₁ = ordOf t₂
  · unfold wdOf; rw [hd]; omega
  · have hlt : ordOf t₁ < ordOf t₂ := by unfold ordOf DAYUS at *; omega
    have := b_strict_mono_weekdays (ordOf t₁) (ordOf t₂) n w₁ w₂ hlt
    have s1 := split_t t₁; have s2 := split_t t₂
    unfold wdOf ofOrd DAYUS at *
    omega

-- hypotheses are satisfiable: Tue 2021-03-09 10:00 ≤ Thu 2021-03-11 09:00, both weekdays, bumped by 3b
example : (63750880800000000 : Int) ≤ 63751050000000000 ∧ wdOf 63750880800000000 < 5 ∧ wdOf 63751050000000000 < 5 ∧
    okVal (applyStep 63750880800000000 (.bday 3)) = some 63751140000000000 ∧
    okVal (applyStep 63751050000000000 (.bday 3)) = some 63751482000000000 := by decide +kernel

/-! ### the unit table (generated from the `bmp.endswith` chain) and the fixed-length units -/

/-- which unit letter does what: `d` days, `w` 7 days, `m` months, `q` 3 months, `y` years, `h`/`n`/`s`
hours / minutes / seconds, `b` the business-day block -/
theorem unit_table (n : Int) :
    bumpUnit 'd' n = some (.days n) ∧ bumpUnit 'w' n = some (.days (7 * n)) ∧
    bumpUnit 'm' n = some (.ymdShift 0 n) ∧ bumpUnit 'q' n = some (.ymdShift 0 (3 * n)) ∧
    bumpUnit 'y' n = some (.ymdShift n 0) ∧ bumpUnit 'h' n = some (.micros (3600000000 * n)) ∧
    bumpUnit 'n' n = some (.micros (60000000 * n)) ∧ bumpUnit 's' n = some (.micros (1000000 * n)) ∧
    bumpUnit 'b' n = some (.bday n) := by
  simp [bumpUnit]

/-- every lower-case letter the `period` regex accepts has a branch (no token is silently ignored) -/
theorem units_covered : ∀ c ∈ periodUnits, (bumpUnit c.toLower 0).isSome = true := by decide

/-- the named tenors are business-day bumps: spot = 0b, o/n = 1b, t/n = 2b, s/n = 3b -/
theorem named_tenors :
    namedTenors = [("spot", "0b"), ("on", "1b"), ("o/n", "1b"), ("tn", "2b"), ("t/n", "2b"), ("sn", "3b"), ("s/n", "3b")] := rfl

/-- microseconds a fixed-length unit stands for -/
def unitUs : Char → Option Int
  | 'd' => some 86400000000 | 'w' => some 604800000000 | 'h' => some 3600000000
  | 'n' => some 60000000 | 's' => some 1000000 | _ => none

/-- `'nd'`, `'nw'`, `'nh'`, `'nn'`, `'ns'` add exactly `n` days / weeks / hours / minutes / seconds (inside the
representable range; outside, `checkRange` is the OverflowError datetime raises) -/
theorem fixed_units_exact (t n : Int) (c : Char) (us : Int) (hc : unitUs c = some us) :
    ∃ st, bumpUnit c n = some st ∧ applyStep t st = checkRange (t + n * us) := by
  unfold unitUs at hc
  split at hc <;> cases hc
  · exact ⟨_, (unit_table n).1, by simp [applyStep, DAYUS]⟩
  · refine ⟨_, (unit_table n).2.1, ?_⟩; simp only [applyStep, DAYUS]; congr 1; omega
  · refine ⟨_, (unit_table n).2.2.2.2.2.1, ?_⟩; simp only [applyStep]; congr 1; omega
  · refine ⟨_, (unit_table n).2.2.2.2.2.2.1, ?_⟩; simp only [applyStep]; congr 1; omega
  · refine ⟨_, (unit_table n).2.2.2.2.2.2.2.1, ?_⟩; simp only [applyStep]; congr 1; omega

example : unitUs 'w' = some 604800000000 := rfl

/-- integers are days and timedeltas are added as they are -/
theorem int_and_timedelta (t n us : Int) :
    bumpOne t (.int n) = checkRange (t + n * 86400000000) ∧ bumpOne t (.delta us) = checkRange (t + us) := by
  simp [bumpOne, DAYUS]

/-- `+x` then `-x` returns to `t` for fixed-length steps -/
theorem fixed_inverse (t k t' : Int) (h : checkRange (t + k) = .ok t') (ht : checkRange t = .ok t) :
    checkRange (t' + -k) = .ok t := by
  rw [checkRange_ok] at *
  rw [h.2]
  have : t + k + -k = t := by omega
  rw [this]; exact ⟨ht.1, rfl⟩

example : okVal (checkRange (63082281600000000 + 3600000000)) = some 63082285200000000 ∧
    okVal (checkRange 63082281600000000) = some 63082281600000000 := by decide +kernel

/-! ### months, quarters, years: `_ymd(t.year + dy, t.month + dm, t.day)` on the generated `ym` / `ymd` -/

/-- `ym` normalises any integer month into 1..12 and keeps the month count `12*y + m` (∀ y m ∈ ℤ) -/
theorem ym_normal (y m : Int) :
    1 ≤ (Gen.ym y m).2 ∧ (Gen.ym y m).2 ≤ 12 ∧ 12 * (Gen.ym y m).1 + (Gen.ym y m).2 = 12 * y + m := by
  unfold Gen.ym; simp only []; omega

/-- `'nm'` / `'nq'` / `'ny'` (any step `_ymd(t.year + dy, t.month + dm, t.day)`) from a date at midnight:
the target month is `ym (y + dy) (m + dm)`; the day of month is kept when that month has it, otherwise the excess
days roll into the following month.  For every start date `datetime` can represent. -/
theorem month_keep_or_roll (y m d : Nat) (v : Valid y m d) (dy dm : Int) (y' m' : Nat)
    (hym : Gen.ym ((y : Int) + dy) ((m : Int) + dm) = ((y' : Int), (m' : Int))) (hy' : 1 ≤ y' ∧ y' < 9999) :
    applyStep (mkDate y m d) (.ymdShift dy dm) =
      .ok (if d ≤ dim y' m' then mkDate y' m' d
           else mkDate (nextMonth y' m').1 (nextMonth y' m').2 (d - dim y' m')) := by
  have hn := ym_normal ((y : Int) + dy) ((m : Int) + dm)
  rw [hym] at hn
  have hd := dim_bounds y m v.2.2.1 v.2.2.2.1
  have hv := v
  unfold Valid at hv
  simp only [applyStep, ymdOf_mkDate y m d v, ymdDate]
  rw [ymd_small_day _ _ _ (by omega), hym]
  exact mkMonthPlus_day y' m' d hy' (by omega) (by omega)

/-- the instances the unit table produces: months, quarters (3 months) and years -/
theorem month_units (n : Int) :
    bumpUnit 'm' n = some (.ymdShift 0 n) ∧ bumpUnit 'q' n = some (.ymdShift 0 (3 * n)) ∧
    bumpUnit 'y' n = some (.ymdShift n 0) :=
  ⟨(unit_table n).2.2.1, (unit_table n).2.2.2.1, (unit_table n).2.2.2.2.1⟩

-- 2000-01-31 + 1m: February 2000 has 29 days, the excess 2 days roll into March: 2000-03-02
example : applyStep (mkDate 2000 1 31) (.ymdShift 0 1) = .ok (mkDate 2000 3 2) := ok_of_okVal (by decide +kernel)
example : Valid 2000 1 31 ∧ Gen.ym (2000 + 0) (1 + 1) = (2000, 2) ∧ ¬ (31 ≤ dim 2000 2) := by decide

/-- `+x` then `-x` returns to `t` for month / quarter / year steps when the day of month is ≤ 28 -/
theorem month_inverse (y m d : Nat) (v : Valid y m d) (hd : d ≤ 28) (dy dm : Int) (y' m' : Nat)
    (hym : Gen.ym ((y : Int) + dy) ((m : Int) + dm) = ((y' : Int), (m' : Int))) (hy' : 1 ≤ y' ∧ y' < 9999)
    (hy : y < 9999) :
    (applyStep (mkDate y m d) (.ymdShift dy dm)).bind (fun t' => applyStep t' (.ymdShift (-dy) (-dm)))
      = .ok (mkDate y m d) := by
  have hn := ym_normal ((y : Int) + dy) ((m : Int) + dm)
  rw [hym] at hn
  have hv := v
  unfold Valid at hv
  have hb' := dim_bounds y' m' (by omega) (by omega)
  have hb := dim_bounds y m hv.2.2.1 hv.2.2.2.1
  rw [month_keep_or_roll y m d v dy dm y' m' hym hy']
  have c1 : d ≤ dim y' m' := by omega
  simp only [c1, if_true, Except.bind]
  have v' : Valid y' m' d := by unfold Valid; omega
  have hback : Gen.ym ((y' : Int) + -dy) ((m' : Int) + -dm) = ((y : Int), (m : Int)) :=
    ym_of_normal _ _ _ _ (by omega) (by omega) (by omega)
  rw [month_keep_or_roll y' m' d v' (-dy) (-dm) y m hback (by omega)]
  have c2 : d ≤ dim y m := by omega
  simp only [c2, if_true]

example : Valid 2023 11 28 ∧ Gen.ym (2023 + 0) (11 + 3) = (2024, 2) := by decide

/-! ### compound tenors: the tokenizer loop applies the parts left to right -/

/-- a compound tenor written as well-formed tokens `[sign]digits unit` one after the other (any number of parts,
any digit strings, any unit letters of the `period` regex) is applied part by part, left to right -/
theorem tenor_left_to_right (ks : List Tok) (wf : ∀ k ∈ ks, k.WF) (t : Int) :
    bumpCs (ks.flatMap Tok.text) t = runToks t ks := by
  induction ks generalizing t with
  | nil => simp [bumpCs, loop, nextToken, signSplit, spanDigits, runToks]
  | cons k ks ih =>
    have wk : k.WF := wf k (by simp)
    have ih' := fun t' => ih (fun x hx => wf x (by simp [hx])) t'
    simp only [List.flatMap_cons, bumpCs, runToks, applyTok]
    unfold loop
    rw [nextToken_text k wk]
    simp only []
    have hlen : (ks.flatMap Tok.text).length < (k.text ++ ks.flatMap Tok.text).length := by
      simp only [List.length_append, Tok.text, List.length_cons, List.length_nil]; omega
    cases hb : bumpUnit k.unit k.value with
    | none =>
      simp only [Except.bind]
      rw [loop_fuel _ ((ks.flatMap Tok.text).length + 1) _ _ hlen (by omega)]
      exact ih' t
    | some st =>
      simp only []
      cases applyStep t st with
      | error e => rfl
      | ok t' =>
        simp only [Except.bind]
        rw [loop_fuel _ ((ks.flatMap Tok.text).length + 1) _ _ hlen (by omega)]
        exact ih' t'

/-- non-vacuity: `'1y-3m2d'` is such a text, and from 2000-01-01 it gives 2000-10-03 -/
example : ([⟨.none, ['1'], 'y'⟩, ⟨.minus, ['3'], 'm'⟩, ⟨.none, ['2'], 'd'⟩] : List Tok).flatMap Tok.text = "1y-3m2d".toList
    ∧ (∀ k ∈ ([⟨.none, ['1'], 'y'⟩, ⟨.minus, ['3'], 'm'⟩, ⟨.none, ['2'], 'd'⟩] : List Tok), k.WF) := by decide
example : bumpStr (mkDate 2000 1 1) "1y-3m2d" = .ok (mkDate 2000 10 3) := ok_of_okVal (by decide +kernel)

/-- several bump arguments are likewise applied one after the other -/
theorem args_left_to_right (t : Int) (a b : List BumpArg) :
    dtBump t (a ++ b) = (dtBump t a).bind fun t' => dtBump t' b := by
  induction a generalizing t with
  | nil => rfl
  | cons x xs ih =>
    simp only [List.cons_append, dtBump]
    cases bumpOne t x with
    | error e => rfl
    | ok t' => simp only [Except.bind]; exact ih t'

/-- the named tenors resolve to their business-day text before tokenizing -/
theorem named_resolve :
    resolveNamed "spot".toList = "0b".toList ∧ resolveNamed "o/n".toList = "1b".toList ∧
    resolveNamed "t/n".toList = "2b".toList ∧ resolveNamed "s/n".toList = "3b".toList ∧
    resolveNamed "on".toList = "1b".toList ∧ resolveNamed "tn".toList = "2b".toList ∧
    resolveNamed "sn".toList = "3b".toList := by decide

end Pyg.Props.C09
