/-
  C09 — dt_bump adds business days, calendar units and compound tenors exactly.
  Property theorems only (helpers: PygProofs/Lemmas/BumpLemmas.lean, GregLemmas.lean).

  `Gen.bOff`, `Gen.ym`, `Gen.ymd`, `Gen.bumpUnit`, `Gen.namedTenors`, `Gen.periodUnits` are GENERATED from the
  current text of src/pyg_base/_dates.py on every run, so the theorems below that mention them are about the
  code's own arithmetic and stop checking when that arithmetic changes.
  Ordinals `o : Int` are `datetime.toordinal()` values; datetimes `t : Int` are microseconds since 0001-01-01.
-/
import PygModel.Bump
import PygProofs.Lemmas.BumpLemmas
import PygProofs.Lemmas.MonthLemmas
import PygProofs.Lemmas.TokenLemmas
import PygProofs.Lemmas.BumpStrLemmas
import PygProofs.Lemmas.GregPeriod

namespace Pyg.Props.C09
open Pyg Pyg.Bump Pyg.Gen Pyg.Greg

/-! ### business days: the closed form of lines 407-418 against day-by-day counting (all t, all n) -/

/-- `'nb'` always lands on a weekday — from any day, for any `n` -/
theorem b_lands (o n : Int) : wd (o + bOff (wd o) n) < 5 := by
  unfold bOff wd; simp only []; omega

/-- from a weekday, `'kb'` (k ≥ 0) is the k-th weekday after `o`: `k`-fold "next weekday" -/
theorem b_nth_fwd (o : Int) (h : wd o < 5) (k : Nat) : iter nextWd k o = o + bOff (wd o) k := by
  induction k with
  | zero => simp [iter, bOff_zero o h]
  | succ k ih =>
    simp only [iter, ih]
    have := bOff_succ o h k (by omega)
    rw [this]; congr 2

/-- from a weekday, `'-kb'` is the k-th weekday before `o` -/
theorem b_nth_bwd (o : Int) (h : wd o < 5) (k : Nat) : iter prevWd k o = o + bOff (wd o) (-(k : Int)) := by
  induction k with
  | zero => simp [iter, bOff_zero o h]
  | succ k ih =>
    simp only [iter, ih]
    have := bOff_pred o h (-(k : Int)) (by omega)
    rw [this]; congr 2; omega

example : iter nextWd 3 730124 = 730129 ∧ wd 730124 = 2 := by decide   -- Wed 2000-01-05 + 3b = Mon 2000-01-10

/-- from a Saturday / Sunday the bump first rolls forward to the following Monday and counts from there -/
theorem b_weekend_roll (o n : Int) (h : 5 ≤ wd o) :
    wd (o + (7 - wd o)) = 0 ∧ o + bOff (wd o) n = (o + (7 - wd o)) + bOff 0 n := by
  unfold bOff wd at *; simp only []; omega

example : (5 : Int) ≤ wd 730120 := by decide     -- 2000-01-01 is a Saturday

/-- monotone in the day: an earlier day never overtakes a later one -/
theorem b_mono_days (o₁ o₂ n : Int) (h : o₁ ≤ o₂) : o₁ + bOff (wd o₁) n ≤ o₂ + bOff (wd o₂) n := by
  unfold bOff wd; simp only []; repeat' split
  all_goals omega

/-- strictly monotone between weekdays (so `'nb'` is injective on weekdays) -/
theorem b_strict_mono_weekdays (o₁ o₂ n : Int) (h₁ : wd o₁ < 5) (h₂ : wd o₂ < 5) (h : o₁ < o₂) :
    o₁ + bOff (wd o₁) n < o₂ + bOff (wd o₂) n := by
  unfold bOff wd at *; simp only []; repeat' split
  all_goals omega

/-- bumps of the same sign compose, from a weekday -/
theorem b_compose (o a b : Int) (h : wd o < 5) (hs : (0 ≤ a ∧ 0 ≤ b) ∨ (a ≤ 0 ∧ b ≤ 0)) :
    (o + bOff (wd o) a) + bOff (wd (o + bOff (wd o) a)) b = o + bOff (wd o) (a + b) := by
  unfold bOff wd at *; simp only []; repeat' split
  all_goals (rcases hs with hs | hs <;> omega)

example : wd 730124 < 5 ∧ ((0:Int) ≤ 7 ∧ (0:Int) ≤ 4) := by decide

/-- `+n` business days then `-n` business days returns to the start, from a weekday (from a weekend day it cannot:
the roll to Monday is not undone) -/
theorem b_inverse (o n : Int) (h : wd o < 5) :
    (o + bOff (wd o) n) + bOff (wd (o + bOff (wd o) n)) (-n) = o := by
  unfold bOff wd at *; simp only []; repeat' split
  all_goals omega

/-! ### the same facts on datetimes (microseconds): the time of day is carried along -/

/-- what the model's `'nb'` step does to a datetime inside the representable range: day moved by the closed form,
time of day unchanged -/
theorem b_datetime (t n t' : Int) (h : applyStep t (.bday n) = .ok t') :
    ordOf t' = ordOf t + bOff (wd (ordOf t)) n ∧ todOf t' = todOf t ∧ wd (ordOf t') < 5 := by
  have h := bday_ok t n t' h
  simp only [wdOf] at h
  rw [h.2]
  refine ⟨ordOf_add_days _ _, todOf_add_days _ _, ?_⟩
  rw [ordOf_add_days]; exact b_lands _ _

example : applyStep 63082281600000000 (.bday 1) = .ok 63082540800000000 := ok_of_okVal (by decide +kernel)  -- Sat 2000-01-01 -> Tue 2000-01-04

/-- K3: monotonicity in `t` is FALSE of the code for intraday times across the weekend roll.  Sunday 2021-03-07
23:00 is before Monday 2021-03-08 00:30, but their `'0b'` images are Monday 23:00 and Monday 00:30. -/
theorem b_mono_intraday_false :
    ∃ t₁ t₂ r₁ r₂ : Int, t₁ < t₂ ∧ applyStep t₁ (.bday 0) = .ok r₁ ∧ applyStep t₂ (.bday 0) = .ok r₂ ∧ r₂ < r₁ :=
  ⟨63750754800000000, 63750760200000000, 63750841200000000, 63750760200000000, by decide,
    ok_of_okVal (by decide +kernel), ok_of_okVal (by decide +kernel), by decide⟩

/-- … while between instants whose earlier one is not on a weekend (or whose times of day are ordered the same way)
monotonicity does hold: here for any two instants on weekdays -/
theorem b_mono_weekdays (t₁ t₂ n r₁ r₂ : Int) (h : t₁ ≤ t₂) (w₁ : wdOf t₁ < 5) (w₂ : wdOf t₂ < 5)
    (h₁ : applyStep t₁ (.bday n) = .ok r₁) (h₂ : applyStep t₂ (.bday n) = .ok r₂) : r₁ ≤ r₂ := by
  have h₁ := bday_ok _ _ _ h₁
  have h₂ := bday_ok _ _ _ h₂
  rw [h₁.2, h₂.2]
  by_cases hd : ordOf t₁ = ordOf t₂
  · unfold wdOf; rw [hd]; omega
  · have hlt : ordOf t₁ < ordOf t₂ := by unfold ordOf DAYUS at *; omega
    have := b_strict_mono_weekdays (ordOf t₁) (ordOf t₂) n w₁ w₂ hlt
    have s1 := split_t t₁; have s2 := split_t t₂
    unfold wdOf ofOrd DAYUS at *
    omega

-- hypotheses are satisfiable: Tue 2021-03-09 10:00 ≤ Thu 2021-03-11 09:00, both weekdays, bumped by 3b
example : (63750880800000000 : Int) ≤ 63751050000000000 ∧ wdOf 63750880800000000 < 5 ∧ wdOf 63751050000000000 < 5 ∧
    okVal (applyStep 63750880800000000 (.bday 3)) = some 63751140000000000 ∧
    okVal (applyStep 63751050000000000 (.bday 3)) = some 63751482000000000 := by decide +kernel

/-! ### the unit table (generated from the `bmp.endswith` chain) and the fixed-length units -/

/-- which unit letter does what: `d` days, `w` 7 days, `m` months, `q` 3 months, `y` years, `h`/`n`/`s`
hours / minutes / seconds, `b` the business-day block -/
theorem unit_table (n : Int) :
    bumpUnit 'd' n = some (.days n) ∧ bumpUnit 'w' n = some (.days (7 * n)) ∧
    bumpUnit 'm' n = some (.ymdShift 0 n) ∧ bumpUnit 'q' n = some (.ymdShift 0 (3 * n)) ∧
    bumpUnit 'y' n = some (.ymdShift n 0) ∧ bumpUnit 'h' n = some (.micros (3600000000 * n)) ∧
    bumpUnit 'n' n = some (.micros (60000000 * n)) ∧ bumpUnit 's' n = some (.micros (1000000 * n)) ∧
    bumpUnit 'b' n = some (.bday n) := by
  simp [bumpUnit]

/-- every lower-case letter the `period` regex accepts has a branch (no token is silently ignored) -/
theorem units_covered : ∀ c ∈ periodUnits, (bumpUnit c.toLower 0).isSome = true := by decide

/-- the named tenors are business-day bumps: spot = 0b, o/n = 1b, t/n = 2b, s/n = 3b -/
theorem named_tenors :
    namedTenors = [("spot", "0b"), ("on", "1b"), ("o/n", "1b"), ("tn", "2b"), ("t/n", "2b"), ("sn", "3b"), ("s/n", "3b")] := rfl

/-- microseconds a fixed-length unit stands for -/
def unitUs : Char → Option Int
  | 'd' => some 86400000000 | 'w' => some 604800000000 | 'h' => some 3600000000
  | 'n' => some 60000000 | 's' => some 1000000 | _ => none

/-- `'nd'`, `'nw'`, `'nh'`, `'nn'`, `'ns'` add exactly `n` days / weeks / hours / minutes / seconds (inside the
representable range; outside, `checkRange` is the OverflowError datetime raises) -/
theorem fixed_units_exact (t n : Int) (c : Char) (us : Int) (hc : unitUs c = some us) :
    ∃ st, bumpUnit c n = some st ∧ applyStep t st = checkRange (t + n * us) := by
  unfold unitUs at hc
  split at hc <;> cases hc
  · exact ⟨_, (unit_table n).1, by simp [applyStep, DAYUS]⟩
  · refine ⟨_, (unit_table n).2.1, ?_⟩; simp only [applyStep, DAYUS]; congr 1; omega
  · refine ⟨_, (unit_table n).2.2.2.2.2.1, ?_⟩; simp only [applyStep]; congr 1; omega
  · refine ⟨_, (unit_table n).2.2.2.2.2.2.1, ?_⟩; simp only [applyStep]; congr 1; omega
  · refine ⟨_, (unit_table n).2.2.2.2.2.2.2.1, ?_⟩; simp only [applyStep]; congr 1; omega

example : unitUs 'w' = some 604800000000 := rfl

/-- integers are days and timedeltas are added as they are -/
theorem int_and_timedelta (t n us : Int) :
    bumpOne t (.int n) = checkRange (t + n * 86400000000) ∧ bumpOne t (.delta us) = checkRange (t + us) := by
  simp [bumpOne, DAYUS]

/-- `+x` then `-x` returns to `t` for fixed-length steps -/
theorem fixed_inverse (t k t' : Int) (h : checkRange (t + k) = .ok t') (ht : checkRange t = .ok t) :
    checkRange (t' + -k) = .ok t := by
  rw [checkRange_ok] at *
  rw [h.2]
  have : t + k + -k = t := by omega
  rw [this]; exact ⟨ht.1, rfl⟩

example : okVal (checkRange (63082281600000000 + 3600000000)) = some 63082285200000000 ∧
    okVal (checkRange 63082281600000000) = some 63082281600000000 := by decide +kernel

/-! ### months, quarters, years: `_ymd(t.year + dy, t.month + dm, t.day)` on the generated `ym` / `ymd` -/

/-- `ym` normalises any integer month into 1..12 and keeps the month count `12*y + m` (∀ y m ∈ ℤ) -/
theorem ym_normal (y m : Int) :
    1 ≤ (Gen.ym y m).2 ∧ (Gen.ym y m).2 ≤ 12 ∧ 12 * (Gen.ym y m).1 + (Gen.ym y m).2 = 12 * y + m := by
  unfold Gen.ym; simp only []; omega

/-- `'nm'` / `'nq'` / `'ny'` (any step `_ymd(t.year + dy, t.month + dm, t.day)`) from a date at midnight:
the target month is `ym (y + dy) (m + dm)`; the day of month is kept when that month has it, otherwise the excess
days roll into the following month.  For every start date `datetime` can represent. -/
theorem month_keep_or_roll (y m d : Nat) (v : Valid y m d) (dy dm : Int) (y' m' : Nat)
    (hym : Gen.ym ((y : Int) + dy) ((m : Int) + dm) = ((y' : Int), (m' : Int))) (hy' : 1 ≤ y' ∧ y' < 9999) :
    applyStep (mkDate y m d) (.ymdShift dy dm) =
      .ok (if d ≤ dim y' m' then mkDate y' m' d
           else mkDate (nextMonth y' m').1 (nextMonth y' m').2 (d - dim y' m')) := by
  have hn := ym_normal ((y : Int) + dy) ((m : Int) + dm)
  rw [hym] at hn
  have hd := dim_bounds y m v.2.2.1 v.2.2.2.1
  have hv := v
  unfold Valid at hv
  simp only [applyStep, ymdOf_mkDate y m d v, ymdDate]
  rw [ymd_small_day _ _ _ (by omega), hym]
  exact mkMonthPlus_day y' m' d hy' (by omega) (by omega)

/-- the instances the unit table produces: months, quarters (3 months) and years -/
theorem month_units (n : Int) :
    bumpUnit 'm' n = some (.ymdShift 0 n) ∧ bumpUnit 'q' n = some (.ymdShift 0 (3 * n)) ∧
    bumpUnit 'y' n = some (.ymdShift n 0) :=
  ⟨(unit_table n).2.2.1, (unit_table n).2.2.2.1, (unit_table n).2.2.2.2.1⟩

-- 2000-01-31 + 1m: February 2000 has 29 days, the excess 2 days roll into March: 2000-03-02
example : applyStep (mkDate 2000 1 31) (.ymdShift 0 1) = .ok (mkDate 2000 3 2) := ok_of_okVal (by decide +kernel)
example : Valid 2000 1 31 ∧ Gen.ym (2000 + 0) (1 + 1) = (2000, 2) ∧ ¬ (31 ≤ dim 2000 2) := by decide

/-- `+x` then `-x` returns to `t` for month / quarter / year steps when the day of month is ≤ 28 -/
theorem month_inverse (y m d : Nat) (v : Valid y m d) (hd : d ≤ 28) (dy dm : Int) (y' m' : Nat)
    (hym : Gen.ym ((y : Int) + dy) ((m : Int) + dm) = ((y' : Int), (m' : Int))) (hy' : 1 ≤ y' ∧ y' < 9999)
    (hy : y < 9999) :
    (applyStep (mkDate y m d) (.ymdShift dy dm)).bind (fun t' => applyStep t' (.ymdShift (-dy) (-dm)))
      = .ok (mkDate y m d) := by
  have hn := ym_normal ((y : Int) + dy) ((m : Int) + dm)
  rw [hym] at hn
  have hv := v
  unfold Valid at hv
  have hb' := dim_bounds y' m' (by omega) (by omega)
  have hb := dim_bounds y m hv.2.2.1 hv.2.2.2.1
  rw [month_keep_or_roll y m d v dy dm y' m' hym hy']
  have c1 : d ≤ dim y' m' := by omega
  simp only [c1, if_true, Except.bind]
  have v' : Valid y' m' d := by unfold Valid; omega
  have hback : Gen.ym ((y' : Int) + -dy) ((m' : Int) + -dm) = ((y : Int), (m : Int)) :=
    ym_of_normal _ _ _ _ (by omega) (by omega) (by omega)
  rw [month_keep_or_roll y' m' d v' (-dy) (-dm) y m hback (by omega)]
  have c2 : d ≤ dim y m := by omega
  simp only [c2, if_true]

example : Valid 2023 11 28 ∧ Gen.ym (2023 + 0) (11 + 3) = (2024, 2) := by decide

/-! ### compound tenors: the tokenizer loop applies the parts left to right -/

/-- a compound tenor written as well-formed tokens `[sign]digits unit` one after the other (any number of parts,
any digit strings, any unit letters of the `period` regex) is applied part by part, left to right -/
theorem tenor_left_to_right (ks : List Tok) (wf : ∀ k ∈ ks, k.WF) (t : Int) :
    bumpCs (ks.flatMap Tok.text) t = runToks t ks := by
  induction ks generalizing t with
  | nil => simp [bumpCs, loop, nextToken, signSplit, spanDigits, runToks]
  | cons k ks ih =>
    have wk : k.WF := wf k (by simp)
    have ih' := fun t' => ih (fun x hx => wf x (by simp [hx])) t'
    simp only [List.flatMap_cons, bumpCs, runToks, applyTok]
    unfold loop
    rw [nextToken_text k wk]
    simp only []
    have hlen : (ks.flatMap Tok.text).length < (k.text ++ ks.flatMap Tok.text).length := by
      simp only [List.length_append, Tok.text, List.length_cons, List.length_nil]; omega
    cases hb : bumpUnit k.unit k.value with
    | none =>
      simp only [Except.bind]
      rw [loop_fuel _ ((ks.flatMap Tok.text).length + 1) _ _ hlen (by omega)]
      exact ih' t
    | some st =>
      simp only []
      cases applyStep t st with
      | error e => rfl
      | ok t' =>
        simp only [Except.bind]
        rw [loop_fuel _ ((ks.flatMap Tok.text).length + 1) _ _ hlen (by omega)]
        exact ih' t'

/-- non-vacuity: `'1y-3m2d'` is such a text, and from 2000-01-01 it gives 2000-10-03 -/
example : ([⟨.none, ['1'], 'y'⟩, ⟨.minus, ['3'], 'm'⟩, ⟨.none, ['2'], 'd'⟩] : List Tok).flatMap Tok.text = "1y-3m2d".toList
    ∧ (∀ k ∈ ([⟨.none, ['1'], 'y'⟩, ⟨.minus, ['3'], 'm'⟩, ⟨.none, ['2'], 'd'⟩] : List Tok), k.WF) := by decide
example : bumpStr (mkDate 2000 1 1) "1y-3m2d" = .ok (mkDate 2000 10 3) := ok_of_okVal (by decide +kernel)

/-- several bump arguments are likewise applied one after the other -/
theorem args_left_to_right (t : Int) (a b : List BumpArg) :
    dtBump t (a ++ b) = (dtBump t a).bind fun t' => dtBump t' b := by
  induction a generalizing t with
  | nil => rfl
  | cons x xs ih =>
    simp only [List.cons_append, dtBump]
    cases bumpOne t x with
    | error e => rfl
    | ok t' => simp only [Except.bind]; exact ih t'

/-- the named tenors resolve to their business-day text before tokenizing -/
theorem named_resolve :
    resolveNamed "spot".toList = "0b".toList ∧ resolveNamed "o/n".toList = "1b".toList ∧
    resolveNamed "t/n".toList = "2b".toList ∧ resolveNamed "s/n".toList = "3b".toList ∧
    resolveNamed "on".toList = "1b".toList ∧ resolveNamed "tn".toList = "2b".toList ∧
    resolveNamed "sn".toList = "3b".toList := by decide

/-- `dt(t, *bumps)` (`reduce(dt_bump, bumps, t)`, one call per argument) is `dt_bump(t, *bumps)` -/
theorem dt_reduce_eq_dtBump (t : Int) (bs : List BumpArg) : dtReduce t bs = dtBump t bs := by
  induction bs generalizing t with
  | nil => rfl
  | cons b bs ih =>
    simp only [dtReduce, dtBump]
    cases bumpOne t b with
    | error e => rfl
    | ok t' => simp only [Except.bind]; exact ih t'

/-- `dt(bump)` for a period text is `dt_bump(today, bump)` -/
theorem dt_of_bump (today n : Int) (u : Char) (hu : u ∈ periodUnits) :
    dtOfBump today (tenor n u) = some (bumpStr today (tenor n u)) := by
  unfold dtOfBump isPeriod tenor
  rw [String.toList_ofList]
  have := nextToken_tenor n u hu []
  simp only [List.append_nil] at this
  simp only [this, Option.isSome_some, if_true, dtBump, bumpOne]
  cases bumpStr today (String.ofList (tenorCs n u)) <;> rfl

/-! ### end to end: the same statements on the STRING a caller passes (`tenor n u` is `'%d%s' % (n, u)`) -/

/-- a compound tenor written with `'%d%s'` parts is tokenised into exactly those parts -/
theorem bumpStr_tenors_toks (t : Int) (ps : List (Int × Char)) (hu : ∀ p ∈ ps, LowerUnit p.2) :
    bumpStr t (tenors ps) = runToks t (ps.map fun p => numTok p.1 p.2) := by
  unfold bumpStr
  rw [lower_tenors ps (fun p hp => (hu p hp).2), resolveNamed_parts]
  have e : (ps.flatMap fun p => tenorCs p.1 p.2) = (ps.map fun p => numTok p.1 p.2).flatMap Tok.text := by
    rw [List.flatMap_map]; congr 1; funext p; exact (numTok_text p.1 p.2).symm
  rw [e]
  apply tenor_left_to_right
  intro k hk
  simp only [List.mem_map] at hk
  obtain ⟨p, hp, rfl⟩ := hk
  exact numTok_wf p.1 p.2 (hu p hp).1

/-- a single `'%d%s' % (n, u)`: the numeral is read back as `n` and the unit table decides the step.  `u` may be written in
either case (`bump.lower()`) -/
theorem bumpStr_unit (t n : Int) (u : Char) (hu : u ∈ periodUnits) (st : Step) (hst : bumpUnit u.toLower n = some st) :
    bumpStr t (tenor n u) = applyStep t st := by
  have hl := toLower_unit u hu
  unfold bumpStr
  rw [lower_tenor]
  obtain ⟨c, r, e, h⟩ := numText_head n
  have e2 : tenorCs n u.toLower = c :: (r ++ [u.toLower]) := by unfold tenorCs; rw [e]; rfl
  rw [e2, resolveNamed_num c _ h, ← e2]
  have := tenor_left_to_right [numTok n u.toLower] (by intro k hk; simp only [List.mem_singleton] at hk; subst hk; exact numTok_wf _ _ hl.1) t
  simp only [List.flatMap_cons, List.flatMap_nil, List.append_nil, numTok_text] at this
  rw [this]
  simp only [runToks, applyTok, numTok_value]
  have hu' : (numTok n u.toLower).unit = u.toLower := rfl
  rw [hu', hst]
  show (applyStep t st).bind (fun t' => .ok t') = applyStep t st
  cases applyStep t st <;> rfl

example : bumpUnit 'B'.toLower (-3) = some (.bday (-3)) ∧ 'B' ∈ periodUnits := by decide

/-- text that follows the last period token without being one (`'1dUTC'`, `'1b est'`, `'2dxyz'`, `'1d 2d'`): the parts in front are
applied left to right and THEN the model answers ValueError — whatever step error comes first wins.  The code tries the leftover as
a time-zone name at that point (`tz_convert(t, leftover)`, line 423) and raises ValueError when `as_tz` does not know it; which
names it knows depends on the pytz data base and on today's date (`tzname(now)`), so the conversion is NOT modelled: the theorem
describes the model for every leftover and the code for every leftover that is not a zone name -/
theorem tenor_then_leftover (ks : List Tok) (wf : ∀ k ∈ ks, k.WF) (rest : List Char) (hn : nextToken rest = none) (t : Int) :
    bumpCs (ks.flatMap Tok.text ++ rest) t = (runToks t ks).bind fun t' => if rest.isEmpty then .ok t' else .error .value := by
  induction ks generalizing t with
  | nil =>
    simp only [List.flatMap_nil, List.nil_append, bumpCs, runToks]
    unfold loop
    rw [hn]; rfl
  | cons k ks ih =>
    have wk : k.WF := wf k (by simp)
    have ih' := fun t' => ih (fun x hx => wf x (by simp [hx])) t'
    simp only [List.flatMap_cons, List.append_assoc, bumpCs, runToks, applyTok]
    unfold loop
    rw [nextToken_text k wk]
    simp only []
    have hlen : (ks.flatMap Tok.text ++ rest).length < (k.text ++ (ks.flatMap Tok.text ++ rest)).length := by
      simp only [List.length_append, Tok.text, List.length_cons, List.length_nil]; omega
    cases hb : bumpUnit k.unit k.value with
    | none =>
      simp only [Except.bind]
      rw [loop_fuel _ ((ks.flatMap Tok.text ++ rest).length + 1) _ _ hlen (by omega)]
      exact ih' t
    | some st =>
      simp only []
      cases applyStep t st with
      | error e => rfl
      | ok t' =>
        simp only [Except.bind]
        rw [loop_fuel _ ((ks.flatMap Tok.text ++ rest).length + 1) _ _ hlen (by omega)]
        exact ih' t'

example : nextToken "utc".toList = none ∧ nextToken " est".toList = none ∧ nextToken " 2d".toList = none ∧ nextToken "europe/london".toList = none := by
  decide
example : okVal (bumpStr 63082281600000000 "1dUTC") = none ∧ okVal (bumpStr 63082281600000000 "1d") = some 63082368000000000 := by decide +kernel
/-- compound tenors such as `'1y-3m2d'` apply their parts left to right: the compound text does what `dt_bump` called with
the parts as separate arguments does -/
theorem tenors_left_to_right (t : Int) (ps : List (Int × Char)) (hu : ∀ p ∈ ps, LowerUnit p.2) :
    bumpStr t (tenors ps) = dtBump t (ps.map fun p => .str (tenor p.1 p.2)) := by
  rw [bumpStr_tenors_toks t ps hu]
  induction ps generalizing t with
  | nil => rfl
  | cons p ps ih =>
    have h1 := bumpStr_tenors_toks t [p] (by intro q hq; simp only [List.mem_singleton] at hq; rw [hq]; exact hu p (by simp))
    have e1 : tenors [p] = tenor p.1 p.2 := by unfold tenors tenor; simp
    rw [e1] at h1
    simp only [List.map_cons, runToks, dtBump, bumpOne, List.map_nil] at h1 ⊢
    rw [h1]
    cases applyTok t (numTok p.1 p.2) with
    | error e => rfl
    | ok t' => simp only [Except.bind]; exact ih t' (fun q hq => hu q (by simp [hq]))

example : tenors [(1, 'y'), (-3, 'm'), (2, 'd')] = "1y-3m2d" ∧ ∀ p ∈ [((1 : Int), 'y'), (-3, 'm'), (2, 'd')], LowerUnit p.2 := by decide

/-- `dt_bump(t, '%db' % n)` is the business-day step -/
theorem bumpStr_b (t n : Int) : bumpStr t (tenor n 'b') = applyStep t (.bday n) :=
  bumpStr_unit t n 'b' (by decide) _ (unit_table n).2.2.2.2.2.2.2.2

/-- `'nb'` lands on a weekday -/
theorem b_lands_str (t n r : Int) (h : bumpStr t (tenor n 'b') = .ok r) : wdOf r < 5 := by
  rw [bumpStr_b] at h; exact (b_datetime t n r h).2.2

/-- from a weekday, `'kb'` is the k-th weekday after `t` and `'-kb'` the k-th weekday before, at the same time of day -/
theorem b_nth_str (t : Int) (w : wdOf t < 5) (k : Nat) (r : Int) :
    (bumpStr t (tenor k 'b') = .ok r → ordOf r = iter nextWd k (ordOf t) ∧ todOf r = todOf t) ∧
    (bumpStr t (tenor (-(k : Int)) 'b') = .ok r → ordOf r = iter prevWd k (ordOf t) ∧ todOf r = todOf t) := by
  constructor <;> intro h <;> rw [bumpStr_b] at h <;> have := b_datetime _ _ _ h
  · rw [b_nth_fwd _ w]; exact ⟨this.1, this.2.1⟩
  · rw [b_nth_bwd _ w]; exact ⟨this.1, this.2.1⟩

example : wdOf 63082627200000000 < 5 ∧ okVal (bumpStr 63082627200000000 (tenor 3 'b')) = some 63083059200000000 := by decide +kernel  -- Wed 2000-01-05 + 3b

/-- from a Saturday / Sunday, `'nb'` is `'nb'` from the following Monday at the same time of day — errors included -/
theorem b_weekend_roll_str (t n : Int) (h : 5 ≤ wdOf t) :
    wdOf (t + (7 - wdOf t) * DAYUS) = 0 ∧
    bumpStr t (tenor n 'b') = bumpStr (t + (7 - wdOf t) * DAYUS) (tenor n 'b') := by
  have hw : wdOf (t + (7 - wdOf t) * DAYUS) = 0 := by
    unfold wdOf at *; rw [ordOf_add_days]; unfold wd at *; omega
  refine ⟨hw, ?_⟩
  rw [bumpStr_b, bumpStr_b]
  simp only [applyStep, bOffPath_eq, hw]
  have h4 : wdOf t > 4 := by omega
  have hb : bOff (wdOf t) n = (7 - wdOf t) + bOff 0 n := by
    have := (b_weekend_roll (ordOf t) n h).2; unfold wdOf; omega
  simp only [h4, if_true, hb, walkDays]
  have e0 : ¬ ((0 : Int) > 4) := by omega
  simp only [e0, if_false]
  have a1 : t + (7 - wdOf t) * DAYUS + 0 * DAYUS = t + (7 - wdOf t) * DAYUS := by unfold DAYUS; omega
  have a2 : t + (7 - wdOf t) * DAYUS + (0 + 7 * (n / 5)) * DAYUS = t + (7 - wdOf t + 7 * (n / 5)) * DAYUS := by
    unfold DAYUS; omega
  have a3 : t + (7 - wdOf t) * DAYUS + bOff 0 n * DAYUS = t + (7 - wdOf t + bOff 0 n) * DAYUS := by
    unfold DAYUS; omega
  rw [a1, a2, a3]

example : (5 : Int) ≤ wdOf 63082281600000000 := by decide +kernel    -- Sat 2000-01-01

/-- same-sign bumps compose from a weekday: `'ab'` then `'bb'` is `'(a+b)b'`.  (`hlo`: for negative bumps the result must not
be in the first six days of year 1, where the single bump constructs an unrepresentable intermediate date.) -/
theorem b_compose_str (t a b r₁ r₂ : Int) (w : wdOf t < 5) (hs : (0 ≤ a ∧ 0 ≤ b) ∨ (a ≤ 0 ∧ b ≤ 0))
    (hlo : (0 ≤ a ∧ 0 ≤ b) ∨ 6 * DAYUS ≤ r₂)
    (h₁ : bumpStr t (tenor a 'b') = .ok r₁) (h₂ : bumpStr r₁ (tenor b 'b') = .ok r₂) :
    bumpStr t (tenor (a + b) 'b') = .ok r₂ := by
  rw [bumpStr_b, bday_ok_ord] at h₁ h₂ ⊢
  obtain ⟨p₁, e₁⟩ := h₁
  obtain ⟨p₂, e₂⟩ := h₂
  have hc := b_compose (ordOf t) a b w hs
  have o1 : ordOf r₁ = ordOf t + bOff (wd (ordOf t)) a := by rw [e₁]; exact ordOf_add_days _ _
  rw [o1] at p₂ e₂
  have hlo' : (0 ≤ a ∧ 0 ≤ b) ∨ 7 ≤ ordOf r₂ := by
    rcases hlo with h | h
    · exact Or.inl h
    · right; unfold ordOf DAYUS at *; omega
  have o2 : ordOf r₂ = ordOf t + bOff (wd (ordOf t)) (a + b) := by
    rw [e₂, ordOf_add_days, o1, ← hc]
  constructor
  · rw [bOffPath_eq] at p₁ p₂ ⊢
    simp only [List.mem_cons, List.not_mem_nil, or_false, forall_eq_or_imp, forall_eq] at p₁ p₂ ⊢
    rw [hc] at p₂
    rw [o2] at hlo'
    unfold wdOf at w
    have w4 : ¬ wd (ordOf t) > 4 := by omega
    simp only [w4, if_false] at p₁ ⊢
    refine ⟨p₁.1, ?_, p₂.2.2⟩
    have p3 := p₂.2.2
    have p0 := p₁.1
    have bw := bOff_weeks (wd (ordOf t)) (a + b) ⟨(wd_range _).1, w⟩
    omega
  · have : bOff (wd (ordOf t)) (a + b) = bOff (wd (ordOf t)) a + bOff (wd (ordOf t + bOff (wd (ordOf t)) a)) b := by omega
    rw [e₂, e₁, this, Int.add_mul]; omega

example : wdOf 63082627200000000 < 5 ∧ okVal (bumpStr 63082627200000000 (tenor 7 'b')) = some 63083404800000000 ∧
    okVal (bumpStr 63083404800000000 (tenor 4 'b')) = some 63083923200000000 := by decide +kernel

/-- `+n` then `-n` business days returns to `t`, from a weekday (`hlo`: `t` on or after 0001-01-07 — in the first six days of
year 1 the way back constructs an unrepresentable intermediate date and the code raises OverflowError) -/
theorem b_inverse_str (t n r : Int) (w : wdOf t < 5) (hlo : 6 * DAYUS ≤ t) (h : bumpStr t (tenor n 'b') = .ok r) :
    bumpStr r (tenor (-n) 'b') = .ok t := by
  rw [bumpStr_b, bday_ok_ord] at h ⊢
  obtain ⟨p, e⟩ := h
  have hi := b_inverse (ordOf t) n w
  have o1 : ordOf r = ordOf t + bOff (wd (ordOf t)) n := by rw [e]; exact ordOf_add_days _ _
  have hlo' : 7 ≤ ordOf t := by unfold ordOf DAYUS at *; omega
  rw [o1]
  constructor
  · rw [bOffPath_eq] at p ⊢
    simp only [List.mem_cons, List.not_mem_nil, or_false, forall_eq_or_imp, forall_eq] at p ⊢
    have hl := b_lands (ordOf t) n
    have w4 : ¬ wd (ordOf t + bOff (wd (ordOf t)) n) > 4 := by omega
    simp only [w4, if_false]
    rw [hi]
    unfold wdOf at w
    have w4' : ¬ wd (ordOf t) > 4 := by omega
    simp only [w4', if_false] at p
    refine ⟨by have := p.2.2; omega, ?_, by have := p.1; omega⟩
    have p0 := p.1
    have bw := bOff_weeks (wd (ordOf t + bOff (wd (ordOf t)) n)) (-n) ⟨(wd_range _).1, hl⟩
    omega
  · rw [e]
    have : bOff (wd (ordOf t + bOff (wd (ordOf t)) n)) (-n) = - bOff (wd (ordOf t)) n := by omega
    rw [this, Int.neg_mul]; omega

example : wdOf 63082627200000000 < 5 ∧ 6 * DAYUS ≤ 63082627200000000 ∧
    okVal (bumpStr 63082627200000000 (tenor (-13) 'b')) = some 63080985600000000 := by decide +kernel

/-! ### fixed-length and month units: exactness and inverses, stated on the unit table and on strings -/

/-- `+x` then `-x` for a fixed-length unit, as a statement about the UNIT TABLE: whatever step the table gives for `(c, n)`
and for `(c, -n)`, the second undoes the first (for a datetime `t`) -/
theorem fixed_inverse_table (c : Char) (us : Int) (hc : unitUs c = some us) (t n r : Int) (ht : InRange t) :
    ∃ st st', bumpUnit c n = some st ∧ bumpUnit c (-n) = some st' ∧ (applyStep t st = .ok r → applyStep r st' = .ok t) := by
  obtain ⟨st, h1, e1⟩ := fixed_units_exact t n c us hc
  obtain ⟨st', h2, e2⟩ := fixed_units_exact r (-n) c us hc
  refine ⟨st, st', h1, h2, ?_⟩
  intro h
  rw [e1, checkRange_ok] at h
  rw [e2, checkRange_ok, h.2, Int.neg_mul]
  exact ⟨by have : t + n * us + -(n * us) = t := by omega
            rw [this]; exact ht, by omega⟩

example : unitUs 'h' = some 3600000000 ∧ InRange 63082281600000000 := by decide

/-- `dt_bump(t, '%d%s' % (n, c))` for `c` in d/w/h/n/s adds exactly `n` days / weeks / hours / minutes / seconds -/
theorem fixed_exact_str (c : Char) (us : Int) (hc : unitUs c = some us) (t n : Int) :
    bumpStr t (tenor n c) = checkRange (t + n * us) := by
  obtain ⟨st, h1, e1⟩ := fixed_units_exact t n c us hc
  have hcu : c ∈ periodUnits ∧ c.toLower = c := by
    unfold unitUs at hc; split at hc <;> first | (constructor <;> decide) | cases hc
  rw [← e1]; exact bumpStr_unit t n c hcu.1 st (by rw [hcu.2]; exact h1)

/-- `+x` then `-x` returns to `t` for the fixed-length units, on strings: `dt_bump(dt_bump(t, 'nd'), '-nd') = t` -/
theorem fixed_inverse_str (c : Char) (us : Int) (hc : unitUs c = some us) (t n r : Int) (ht : InRange t)
    (h : bumpStr t (tenor n c) = .ok r) : bumpStr r (tenor (-n) c) = .ok t := by
  rw [fixed_exact_str c us hc] at h ⊢
  rw [checkRange_ok] at h
  rw [checkRange_ok, h.2, Int.neg_mul]
  exact ⟨by have : t + n * us + -(n * us) = t := by omega
            rw [this]; exact ht, by omega⟩

example : okVal (bumpStr 63082281600000000 (tenor (-36) 'h')) = some 63082152000000000 := by decide +kernel

/-- `+x` then `-x` returns for month / quarter / year steps from a day of month ≤ 28 — every start date of years 1..9999, no
condition on the target other than that the first bump succeeded -/
theorem month_inverse_all (y m d : Nat) (v : Valid y m d) (hd : d ≤ 28) (dy dm r : Int)
    (h : applyStep (mkDate y m d) (.ymdShift dy dm) = .ok r) :
    applyStep r (.ymdShift (-dy) (-dm)) = .ok (mkDate y m d) := by
  rw [ymdShift_small y m d v hd] at h
  obtain ⟨y', m', hym, h1, h2, h3, h4, hr⟩ := h
  have hv := v
  unfold Valid at hv
  have hb' := dim_bounds y' m' h3 h4
  have v' : Valid y' m' d := by unfold Valid; omega
  rw [hr, ymdShift_small y' m' d v' hd]
  have hn := ym_normal ((y : Int) + dy) ((m : Int) + dm)
  rw [hym] at hn
  exact ⟨y, m, ym_of_normal _ _ _ _ (by omega) (by omega) (by omega), hv.1, hv.2.1, hv.2.2.1, hv.2.2.2.1, rfl⟩

/-- the same as a statement about the unit table: for `m`, `q`, `y` the step the table gives for `-n` undoes the step for `n` -/
theorem month_inverse_table (c : Char) (hc : c = 'm' ∨ c = 'q' ∨ c = 'y') (y m d : Nat) (v : Valid y m d) (hd : d ≤ 28) (n r : Int) :
    ∃ st st', bumpUnit c n = some st ∧ bumpUnit c (-n) = some st' ∧
      (applyStep (mkDate y m d) st = .ok r → applyStep r st' = .ok (mkDate y m d)) := by
  have T := month_units n
  have T' := month_units (-n)
  rcases hc with rfl | rfl | rfl
  · refine ⟨_, _, T.1, T'.1, fun h => ?_⟩
    have := month_inverse_all y m d v hd 0 n r h
    rwa [Int.neg_zero] at this
  · refine ⟨_, _, T.2.1, T'.2.1, fun h => ?_⟩
    have := month_inverse_all y m d v hd 0 (3 * n) r h
    rwa [Int.neg_zero, ← Int.mul_neg] at this
  · refine ⟨_, _, T.2.2, T'.2.2, fun h => ?_⟩
    have := month_inverse_all y m d v hd n 0 r h
    rwa [Int.neg_zero] at this

/-- … and on strings: `dt_bump(dt_bump(t, 'nq'), '-nq') = t` when `t` is a date (midnight) with day ≤ 28 -/
theorem month_inverse_str (c : Char) (hc : c = 'm' ∨ c = 'q' ∨ c = 'y') (y m d : Nat) (v : Valid y m d) (hd : d ≤ 28) (n r : Int)
    (h : bumpStr (mkDate y m d) (tenor n c) = .ok r) : bumpStr r (tenor (-n) c) = .ok (mkDate y m d) := by
  obtain ⟨st, st', h1, h2, hi⟩ := month_inverse_table c hc y m d v hd n r
  have hcu : c ∈ periodUnits ∧ c.toLower = c := by rcases hc with rfl | rfl | rfl <;> decide
  rw [bumpStr_unit _ n c hcu.1 st (by rw [hcu.2]; exact h1)] at h
  rw [bumpStr_unit _ (-n) c hcu.1 st' (by rw [hcu.2]; exact h2)]
  exact hi h

example : Valid 2023 11 28 ∧ okVal (bumpStr (mkDate 2023 11 28) (tenor 1 'q')) = some (mkDate 2024 2 28) := by decide +kernel

/-- `'nm'`/`'nq'`/`'ny'` on strings from a date at midnight: keep the day of month or roll the excess into the following month -/
theorem month_keep_or_roll_str (c : Char) (k : Int) (hc : (c = 'm' ∧ k = 1) ∨ (c = 'q' ∧ k = 3) ∨ (c = 'y' ∧ k = 12))
    (y m d : Nat) (v : Valid y m d) (n : Int) (y' m' : Nat)
    (hym : Gen.ym (y : Int) ((m : Int) + k * n) = ((y' : Int), (m' : Int))) (hy' : 1 ≤ y' ∧ y' < 9999) :
    bumpStr (mkDate y m d) (tenor n c) =
      .ok (if d ≤ dim y' m' then mkDate y' m' d
           else mkDate (nextMonth y' m').1 (nextMonth y' m').2 (d - dim y' m')) := by
  have T := month_units n
  rcases hc with ⟨rfl, rfl⟩ | ⟨rfl, rfl⟩ | ⟨rfl, rfl⟩
  · rw [bumpStr_unit _ n 'm' (by decide) _ T.1]
    exact month_keep_or_roll y m d v 0 n y' m' ((ym_congr _ _ _ _ (by omega)).trans hym) hy'
  · rw [bumpStr_unit _ n 'q' (by decide) _ T.2.1]
    exact month_keep_or_roll y m d v 0 (3 * n) y' m' ((ym_congr _ _ _ _ (by omega)).trans hym) hy'
  · rw [bumpStr_unit _ n 'y' (by decide) _ T.2.2]
    exact month_keep_or_roll y m d v n 0 y' m' ((ym_congr _ _ _ _ (by omega)).trans hym) hy'

-- 2000-01-31 + 1m = 2000-03-02 (February 2000 has 29 days: the excess 2 days roll into March)
example : bumpStr (mkDate 2000 1 31) (tenor 1 'm') = .ok (mkDate 2000 3 2) := ok_of_okVal (by decide +kernel)
example : Valid 2000 1 31 ∧ Gen.ym (2000 : Int) ((1 : Int) + 1 * 1) = ((2000 : Int), (2 : Int)) ∧ ¬ (31 ≤ dim 2000 2) := by decide

/-! ### month units away from midnight: the code resets the time of day (why the claim is "at midnight only") -/

/-- a month / quarter / year step ignores the time of day of its start … -/
theorem month_resets_time (t dy dm : Int) :
    applyStep t (.ymdShift dy dm) = applyStep (t - todOf t) (.ymdShift dy dm) := by
  have : ymdOf (t - todOf t) = ymdOf t := by
    unfold ymdOf; congr 2; unfold ordOf todOf DAYUS; omega
  simp only [applyStep, this]

/-- … and its result is always a midnight -/
theorem month_result_midnight (t dy dm r : Int) (h : applyStep t (.ymdShift dy dm) = .ok r) : todOf r = 0 := by
  simp only [applyStep, ymdDate, mkMonthPlus] at h
  split at h
  · rw [checkRange_ok] at h; rw [h.2]; exact todOf_ofOrd _
  · cases h

example : okVal (applyStep 63083095200000000 (.ymdShift 0 1)) = some 63085737600000000 := by decide +kernel  -- 2000-01-10 10:00 + 1m

/-- hence away from midnight `+x` then `-x` does NOT return to `t` (2000-01-10 10:00 `'1m'` `'-1m'` = 2000-01-10 00:00) -/
theorem month_intraday_inverse_false :
    ∃ t r₁ r₂ : Int, bumpStr t (tenor 1 'm') = .ok r₁ ∧ bumpStr r₁ (tenor (-1) 'm') = .ok r₂ ∧ r₂ ≠ t ∧ r₂ = t - todOf t :=
  ⟨63083095200000000, 63085737600000000, 63083059200000000, ok_of_okVal (by decide +kernel), ok_of_okVal (by decide +kernel),
    by decide, by decide +kernel⟩

/-! ### the datetimes the business-day block constructs on the way -/

/-- the `'nb'` step succeeds exactly when each of the three datetimes the block constructs (after the weekend roll, after the
whole weeks, after the remaining days) lies in years 1..9999, and then gives the closed form -/
theorem b_ok_iff (t n r : Int) :
    applyStep t (.bday n) = .ok r ↔
      (∀ k ∈ [if wdOf t > 4 then 7 - wdOf t else 0, (if wdOf t > 4 then 7 - wdOf t else 0) + 7 * (n / 5), bOff (wdOf t) n],
          InRange (t + k * DAYUS)) ∧ r = t + bOff (wdOf t) n * DAYUS := by
  rw [bday_ok_iff, bOffPath_eq]

/-- so the code can raise OverflowError although the result exists: 0001-01-03 `'-1b'` passes through `t - 7 days` -/
theorem b_intermediate_overflow :
    bumpStr (2 * DAYUS) (tenor (-1) 'b') = .error .other ∧ InRange (2 * DAYUS + bOff (wdOf (2 * DAYUS)) (-1) * DAYUS) := by
  rw [bumpStr_b]
  refine ⟨?_, by decide +kernel⟩
  have h : (match applyStep (2 * DAYUS) (.bday (-1)) with | .error .other => true | _ => false) = true := by decide +kernel
  revert h
  cases applyStep (2 * DAYUS) (.bday (-1)) with
  | ok v => intro h; cases h
  | error e => cases e <;> intro h <;> first | rfl | cases h

/-! ### K3 exactly: WHEN monotonicity in `t` fails -/

/-- the exact failure set of "monotone in t": for `t₁ ≤ t₂` the images are reversed iff `t₁` lies on a Saturday / Sunday, `t₂`
lies no later than the Monday that follows `t₁`, and `t₂` has the earlier time of day.  (All three days Sat, Sun, Mon of one
weekend are sent to the same day and keep their own time of day.)  For every `n`; nothing else ever fails. -/
theorem b_mono_iff (t₁ t₂ n r₁ r₂ : Int) (h : t₁ ≤ t₂)
    (h₁ : applyStep t₁ (.bday n) = .ok r₁) (h₂ : applyStep t₂ (.bday n) = .ok r₂) :
    r₂ < r₁ ↔ (5 ≤ wdOf t₁ ∧ ordOf t₂ ≤ ordOf t₁ + (7 - wdOf t₁) ∧ todOf t₂ < todOf t₁) := by
  have e₁ := (bday_ok _ _ _ h₁).2
  have e₂ := (bday_ok _ _ _ h₂).2
  have s1 := split_t t₁; have s2 := split_t t₂
  have ho : ordOf t₁ ≤ ordOf t₂ := by unfold ordOf DAYUS at *; omega
  have hm := b_mono_days (ordOf t₁) (ordOf t₂) n ho
  have hq := b_eq_iff (ordOf t₁) (ordOf t₂) n ho
  unfold wdOf at *
  generalize bOff (wd (ordOf t₁)) n = B₁ at *
  generalize bOff (wd (ordOf t₂)) n = B₂ at *
  have w1 := wd_range (ordOf t₁)
  generalize wd (ordOf t₁) = W at *
  unfold ofOrd DAYUS at *
  constructor
  · intro hlt
    have heq : ordOf t₁ + B₁ = ordOf t₂ + B₂ := by omega
    have := hq.1 heq
    omega
  · intro ⟨a, b, c⟩
    have := hq.2 (Or.inr ⟨a, b⟩)
    omega

-- the hypotheses and the right-hand side are satisfiable: the K3 witness (Sun 23:00 / Mon 00:30)
example : (63750754800000000 : Int) ≤ 63750760200000000 ∧ 5 ≤ wdOf 63750754800000000 ∧
    ordOf 63750760200000000 ≤ ordOf 63750754800000000 + (7 - wdOf 63750754800000000) ∧
    todOf 63750760200000000 < todOf 63750754800000000 := by decide +kernel

/-- the same on strings -/
theorem b_mono_iff_str (t₁ t₂ n r₁ r₂ : Int) (h : t₁ ≤ t₂)
    (h₁ : bumpStr t₁ (tenor n 'b') = .ok r₁) (h₂ : bumpStr t₂ (tenor n 'b') = .ok r₂) :
    r₂ < r₁ ↔ (5 ≤ wdOf t₁ ∧ ordOf t₂ ≤ ordOf t₁ + (7 - wdOf t₁) ∧ todOf t₂ < todOf t₁) := by
  rw [bumpStr_b] at h₁ h₂; exact b_mono_iff t₁ t₂ n r₁ r₂ h h₁ h₂

/-- consequence: monotone whenever the earlier instant is on a weekday (the later one may be anything) -/
theorem b_mono_from_weekday (t₁ t₂ n r₁ r₂ : Int) (h : t₁ ≤ t₂) (w₁ : wdOf t₁ < 5)
    (h₁ : applyStep t₁ (.bday n) = .ok r₁) (h₂ : applyStep t₂ (.bday n) = .ok r₂) : r₁ ≤ r₂ := by
  have := b_mono_iff t₁ t₂ n r₁ r₂ h h₁ h₂
  omega

/-! ### the two readings of a negative bump from a weekend day agree -/

/-- from a Saturday / Sunday, `'-kb'` (k ≥ 1) — defined by the code as "roll forward to Monday, then k weekdays back" — is also
simply the k-th weekday before `o` itself: no weekday lies between `o` and that Monday -/
theorem b_weekend_bwd (o : Int) (h : 5 ≤ wd o) (k : Nat) :
    iter prevWd (k + 1) o = o + bOff (wd o) (-((k : Int) + 1)) := by
  have r := b_weekend_roll o (-((k : Int) + 1)) h
  have hb := b_nth_bwd (o + (7 - wd o)) (by omega) (k + 1)
  rw [r.1] at hb
  rw [r.2]
  have : ((k + 1 : Nat) : Int) = (k : Int) + 1 := by omega
  rw [this] at hb
  rw [← hb, iter_succ_inner, iter_succ_inner]
  congr 1
  have w := wd_range o
  unfold prevWd wd at *; omega

/-- … while forward the roll matters: from a weekend day `'kb'` is the k-th weekday after the MONDAY (`'0b'` = that Monday,
which is the first weekday after `o`, so `'kb'` is the (k+1)-th weekday after `o`) -/
theorem b_weekend_fwd (o : Int) (h : 5 ≤ wd o) (k : Nat) :
    iter nextWd (k + 1) o = o + bOff (wd o) k := by
  have r := b_weekend_roll o k h
  have hb := b_nth_fwd (o + (7 - wd o)) (by omega) k
  rw [r.1] at hb
  rw [r.2, ← hb, iter_succ_inner]
  congr 1
  have w := wd_range o
  unfold nextWd wd at *; omega

example : (5 : Int) ≤ wd 730120 ∧ iter prevWd 2 730120 = 730118 ∧ iter nextWd 2 730120 = 730123 := by decide

/-! ### no period token is silently ignored -/

/-- whether a letter has a branch does not depend on the count -/
theorem bumpUnit_isSome_indep (c : Char) (n n' : Int) : (bumpUnit c n).isSome = (bumpUnit c n').isSome := by
  unfold bumpUnit; repeat' split
  all_goals rfl

/-- every token the tokenizer can deliver from lower-cased text has a branch in the unit chain: the "no branch, `t` unchanged"
case of the loop (the code's `if/elif` chain has no `else`; such a token would be consumed and ignored) cannot occur -/
theorem no_token_ignored (cs : List Char) (n : Int) (c : Char) (rest : List Char)
    (h : nextToken (cs.map Char.toLower) = some (n, c, rest)) : (bumpUnit c n).isSome = true := by
  have hs : ∀ cs : List Char, (signSplit cs).2 = cs ∨ ∃ x, cs = x :: (signSplit cs).2 := by
    intro cs; unfold signSplit; split <;> simp
  have hsp : ∀ cs : List Char, (spanDigits cs).1 ++ (spanDigits cs).2 = cs := by
    intro cs; induction cs with
    | nil => rfl
    | cons a as ih => unfold spanDigits; split <;> simp [ih]
  unfold nextToken at h
  simp only [] at h
  split at h
  · cases h
  · cases h
  · rename_i ds u r _ hsd
    split at h
    · rename_i hu
      simp only [Option.some.injEq, Prod.mk.injEq] at h
      obtain ⟨_, hc, _⟩ := h
      subst hc
      have hmem : u ∈ cs.map Char.toLower := by
        have h2 := hsp (signSplit (cs.map Char.toLower)).2
        rw [hsd] at h2
        have hu2 : u ∈ (signSplit (cs.map Char.toLower)).2 := by rw [← h2]; simp
        rcases hs (cs.map Char.toLower) with e | ⟨x, e⟩
        · rw [e] at hu2; exact hu2
        · rw [e]; exact List.mem_cons_of_mem _ hu2
      simp only [List.mem_map] at hmem
      obtain ⟨x, _, hx⟩ := hmem
      have hlow : u.toLower = u := by
        have : ∀ u ∈ periodUnits, (∃ x : Char, x.toLower = u) → u.toLower = u := by
          intro u hu ⟨x, hx⟩
          have hup : ∀ u ∈ periodUnits, u.toLower = u ∨ u.isUpper = true := by decide
          rcases hup u hu with e | e
          · exact e
          · exfalso
            subst hx
            unfold Char.toLower Char.isUpper at e
            split at e
            · rename_i hx
              simp only [ge_iff_le, decide_eq_true_eq] at e
              have := e.2
              revert this e hx
              generalize x.val = v
              intro hx e h2
              simp only [UInt32.le_iff_toNat_le, UInt32.toNat_add] at *
              have c1 : ('A' : Char).val.toNat = 65 := by decide
              have c2 : ('Z' : Char).val.toNat = 90 := by decide
              have c3 : (('a' : Char).val - ('A' : Char).val).toNat = 32 := by decide
              simp only [c1, c2, c3] at hx e h2
              omega
            · rename_i hx
              simp only [ge_iff_le, decide_eq_true_eq] at e
              exact hx e
        exact this u hu ⟨x, hx⟩
      have := units_covered u hu
      rw [hlow] at this
      rw [bumpUnit_isSome_indep u n 0]; exact this
    · cases h

example : nextToken ("-3B7d".toList.map Char.toLower) = some (-3, 'b', "7d".toList) := by decide

/-! ### totality inside the claim: the conditional `= .ok r` theorems above are not vacuous anywhere on the quantifier -/

/-- `'nb'` SUCCEEDS for every start at least 200 days inside the representable range and every |n| ≤ 60 (in particular for every
1900 ≤ t < 2300 at any time of day): the hypotheses `bumpStr t (tenor n 'b') = .ok r` of `b_lands_str`, `b_nth_str`,
`b_compose_str`, `b_inverse_str`, `b_mono_iff_str` are satisfiable for every such `(t, n)` -/
theorem b_total (t n : Int) (h0 : 200 * DAYUS ≤ t) (h1 : t + 200 * DAYUS < MAXUS) (hn : -60 ≤ n ∧ n ≤ 60) :
    ∃ r, bumpStr t (tenor n 'b') = .ok r := by
  refine ⟨t + bOff (wdOf t) n * DAYUS, ?_⟩
  rw [bumpStr_b, b_ok_iff]
  refine ⟨?_, rfl⟩
  have w := wd_range (ordOf t)
  intro k hk
  simp only [List.mem_cons, List.not_mem_nil, or_false] at hk
  unfold InRange
  unfold wdOf at *
  generalize wd (ordOf t) = W at *
  rcases hk with rfl | rfl | rfl
  · unfold DAYUS MAXUS at *; split <;> omega
  · unfold DAYUS MAXUS at *; split <;> omega
  · unfold bOff DAYUS MAXUS at *; simp only []; repeat' split
    all_goals omega

-- the hypotheses are satisfiable: 2000-01-01 00:00, n = -60
example : 200 * DAYUS ≤ (63082281600000000 : Int) ∧ (63082281600000000 : Int) + 200 * DAYUS < MAXUS ∧
    (-60 : Int) ≤ -60 ∧ (-60 : Int) ≤ 60 := by decide

/-- … and the value it gives is the closed form (so together with `b_datetime` the landing day is known, not only its existence) -/
theorem b_total_value (t n : Int) (h0 : 200 * DAYUS ≤ t) (h1 : t + 200 * DAYUS < MAXUS) (hn : -60 ≤ n ∧ n ≤ 60) :
    bumpStr t (tenor n 'b') = .ok (t + bOff (wdOf t) n * DAYUS) := by
  obtain ⟨r, h⟩ := b_total t n h0 h1 hn
  have h' := h
  rw [bumpStr_b, b_ok_iff] at h'
  rw [h, h'.2]

/-! ### ints and timedeltas are the same bumps as the texts `'%dd'` / `'%d%s'` (not the definition: the right-hand sides go through
`lower`, the named-tenor lookup, the tokenizer, `int(...)` and the generated unit table) -/

/-- `dt_bump(t, b)` with a single argument is that argument's bump -/
theorem dtBump_single (t : Int) (b : BumpArg) : dtBump t [b] = bumpOne t b := by
  simp only [dtBump]
  cases bumpOne t b <;> rfl

/-- an integer argument IS the text `'%dd'`: `dt_bump(t, n) = dt_bump(t, '%dd' % n)` — same result or the same error, for every
`t` and `n` (no range condition: both sides are `checkRange (t + n days)`) -/
theorem int_is_days (t n : Int) : dtBump t [.int n] = bumpStr t (tenor n 'd') := by
  rw [dtBump_single, fixed_exact_str 'd' 86400000000 rfl]
  simp [bumpOne, DAYUS]

/-- a timedelta of `n` whole units IS the text `'%d%s' % (n, c)` for `c` in d/w/h/n/s -/
theorem timedelta_is_unit (c : Char) (us : Int) (hc : unitUs c = some us) (t n : Int) :
    dtBump t [.delta (n * us)] = bumpStr t (tenor n c) := by
  rw [dtBump_single, fixed_exact_str c us hc]
  simp [bumpOne]

example : unitUs 'h' = some 3600000000 := rfl

/-- int ≡ timedelta(days) ≡ `'nd'`, as `dt_bump` ARGUMENTS (what C10's `int_td_str_agree` relies on) -/
theorem int_td_str_args (t n : Int) :
    dtBump t [.int n] = dtBump t [.delta (n * 86400000000)] ∧ dtBump t [.int n] = dtBump t [.str (tenor n 'd')] := by
  refine ⟨?_, ?_⟩
  · rw [int_is_days, timedelta_is_unit 'd' 86400000000 rfl]
  · rw [int_is_days, dtBump_single]; rfl

/-- … and inside any argument list: an int may be replaced by the text `'%dd'`, a whole-unit timedelta by `'%d%s'` -/
theorem int_is_days_in_args (t n : Int) (pre post : List BumpArg) :
    dtBump t (pre ++ .int n :: post) = dtBump t (pre ++ .str (tenor n 'd') :: post) := by
  rw [args_left_to_right, args_left_to_right]
  congr 1; funext t'
  have h := int_is_days t' n
  rw [dtBump_single] at h
  simp only [dtBump, h]; rfl
/-! ### totality on the property's quantifier (1900-01-01 ≤ t < 2300-01-01, any time of day, |n| ≤ 60) for every unit -/

theorem mkDate_1900 : mkDate 1900 1 1 = 693595 * DAYUS := by decide +kernel
theorem mkDate_2300 : mkDate 2300 1 1 = 839692 * DAYUS := by decide +kernel

/-- every instant of 1900-01-01 … 2299-12-31 lies on a calendar date of those years: its midnight is `mkDate y m d` -/
theorem date_of_instant (t : Int) (h0 : mkDate 1900 1 1 ≤ t) (h1 : t < mkDate 2300 1 1) :
    ∃ y m d : Nat, Valid y m d ∧ 1900 ≤ y ∧ y < 2300 ∧ t - todOf t = mkDate y m d := by
  rw [mkDate_1900] at h0; rw [mkDate_2300] at h1
  have ho : 693596 ≤ ordOf t ∧ ordOf t < 839693 := by unfold ordOf DAYUS at *; omega
  have hn : ((ordOf t).toNat : Int) = ordOf t := Int.toNat_of_nonneg (by omega)
  obtain ⟨v, e⟩ := ord_fromOrd (ordOf t).toNat (by unfold ordMin; omega) (by unfold ordMax; omega)
  have hb := ord_bounds _ _ _ v.toU
  generalize fromOrd (ordOf t).toNat = p at *
  have hv := v
  unfold Valid at hv
  have y0 : 1900 ≤ p.y := by
    by_cases h : p.y < 1900
    · have := dby_mono (p.y + 1) 1900 (by omega) (by omega)
      rw [dby_1900] at this; omega
    · omega
  have y1 : p.y < 2300 := by
    by_cases h : 2300 ≤ p.y
    · have := dby_mono 2300 p.y (by omega) h
      rw [dby_2300] at this; omega
    · omega
  refine ⟨p.y, p.m, p.d, v, y0, y1, ?_⟩
  have s := split_t t
  unfold mkDate
  rw [e, hn]; omega

/-- a month / quarter / year text bump ignores the time of day of its start -/
theorem month_resets_time_str (c : Char) (hc : c = 'm' ∨ c = 'q' ∨ c = 'y') (t n : Int) :
    bumpStr t (tenor n c) = bumpStr (t - todOf t) (tenor n c) := by
  have T := month_units n
  rcases hc with rfl | rfl | rfl
  · rw [bumpStr_unit _ n 'm' (by decide) _ T.1, bumpStr_unit _ n 'm' (by decide) _ T.1]; exact month_resets_time _ _ _
  · rw [bumpStr_unit _ n 'q' (by decide) _ T.2.1, bumpStr_unit _ n 'q' (by decide) _ T.2.1]; exact month_resets_time _ _ _
  · rw [bumpStr_unit _ n 'y' (by decide) _ T.2.2, bumpStr_unit _ n 'y' (by decide) _ T.2.2]; exact month_resets_time _ _ _

/-- `'nm'` / `'nq'` / `'ny'` SUCCEED for every instant `t` of 1900-01-01 … 2299-12-31 (any time of day) and every |n| ≤ 60, and the
result is the keep-or-roll date counted from `t`'s own calendar date `(y, m, d)`: the hypotheses of `month_keep_or_roll_str`
(`hym`, `hy'`) and the `= .ok r` hypotheses of `month_inverse_str` hold on the whole quantifier -/
theorem month_total (c : Char) (k : Int) (hc : (c = 'm' ∧ k = 1) ∨ (c = 'q' ∧ k = 3) ∨ (c = 'y' ∧ k = 12))
    (t n : Int) (h0 : mkDate 1900 1 1 ≤ t) (h1 : t < mkDate 2300 1 1) (hn : -60 ≤ n ∧ n ≤ 60) :
    ∃ y m d y' m' : Nat, Valid y m d ∧ t - todOf t = mkDate y m d ∧
      Gen.ym (y : Int) ((m : Int) + k * n) = ((y' : Int), (m' : Int)) ∧ 1 ≤ y' ∧ y' < 9999 ∧ 1 ≤ m' ∧ m' ≤ 12 ∧
      bumpStr t (tenor n c) =
        .ok (if d ≤ dim y' m' then mkDate y' m' d
             else mkDate (nextMonth y' m').1 (nextMonth y' m').2 (d - dim y' m')) := by
  obtain ⟨y, m, d, v, y0, y1, e⟩ := date_of_instant t h0 h1
  have hv := v
  unfold Valid at hv
  have hk : k = 1 ∨ k = 3 ∨ k = 12 := by rcases hc with h | h | h <;> simp [h.2]
  have hcc : c = 'm' ∨ c = 'q' ∨ c = 'y' := by rcases hc with h | h | h <;> simp [h.1]
  have hN := ym_normal (y : Int) ((m : Int) + k * n)
  have hY : 1 ≤ (Gen.ym (y : Int) ((m : Int) + k * n)).1 ∧ (Gen.ym (y : Int) ((m : Int) + k * n)).1 < 9999 := by
    unfold Gen.ym; simp only []
    rcases hk with rfl | rfl | rfl <;> omega
  generalize hp : Gen.ym (y : Int) ((m : Int) + k * n) = p at hN hY
  obtain ⟨Y, M⟩ := p
  simp only at hN hY
  have hym : Gen.ym (y : Int) ((m : Int) + k * n) = ((Y.toNat : Int), (M.toNat : Int)) := by
    rw [hp, Int.toNat_of_nonneg (by omega), Int.toNat_of_nonneg (by omega)]
  refine ⟨y, m, d, Y.toNat, M.toNat, v, e, hym, by omega, by omega, by omega, by omega, ?_⟩
  rw [month_resets_time_str c hcc, e]
  exact month_keep_or_roll_str c k hc y m d v n Y.toNat M.toNat hym (by omega)

example : mkDate 1900 1 1 ≤ (63082281600000000 : Int) ∧ (63082281600000000 : Int) < mkDate 2300 1 1 := by decide +kernel

/-- in particular: they return -/
theorem month_total_ok (c : Char) (hc : c = 'm' ∨ c = 'q' ∨ c = 'y') (t n : Int)
    (h0 : mkDate 1900 1 1 ≤ t) (h1 : t < mkDate 2300 1 1) (hn : -60 ≤ n ∧ n ≤ 60) : ∃ r, bumpStr t (tenor n c) = .ok r := by
  have hc' : ∃ k, (c = 'm' ∧ k = (1 : Int)) ∨ (c = 'q' ∧ k = 3) ∨ (c = 'y' ∧ k = 12) := by
    rcases hc with h | h | h
    · exact ⟨1, Or.inl ⟨h, rfl⟩⟩
    · exact ⟨3, Or.inr (Or.inl ⟨h, rfl⟩)⟩
    · exact ⟨12, Or.inr (Or.inr ⟨h, rfl⟩)⟩
  obtain ⟨k, hk⟩ := hc'
  obtain ⟨_, _, _, _, _, _, _, _, _, _, _, _, h⟩ := month_total c k hk t n h0 h1 hn
  exact ⟨_, h⟩

/-- `'nd'`, `'nw'`, `'nh'`, `'nn'`, `'ns'` SUCCEED on the same quantifier, with the exact value -/
theorem fixed_total (c : Char) (us : Int) (hc : unitUs c = some us) (t n : Int)
    (h0 : mkDate 1900 1 1 ≤ t) (h1 : t < mkDate 2300 1 1) (hn : -60 ≤ n ∧ n ≤ 60) :
    bumpStr t (tenor n c) = .ok (t + n * us) := by
  rw [fixed_exact_str c us hc, checkRange_ok]
  refine ⟨?_, rfl⟩
  rw [mkDate_1900] at h0; rw [mkDate_2300] at h1
  unfold unitUs at hc
  unfold DAYUS MAXUS at *
  split at hc <;> cases hc <;> omega

example : unitUs 'w' = some 604800000000 ∧ mkDate 1900 1 1 ≤ mkDate 2299 12 31 + 86399999999 ∧ mkDate 2299 12 31 + 86399999999 < mkDate 2300 1 1 ∧
    okVal (bumpStr (mkDate 2299 12 31 + 86399999999) (tenor 60 'w')) = some (mkDate 2299 12 31 + 86399999999 + 60 * 604800000000) := by decide +kernel

/-- `'nb'` on the same quantifier (a corollary of `b_total`) -/
theorem b_total_range (t n : Int) (h0 : mkDate 1900 1 1 ≤ t) (h1 : t < mkDate 2300 1 1) (hn : -60 ≤ n ∧ n ≤ 60) :
    ∃ r, bumpStr t (tenor n 'b') = .ok r := by
  rw [mkDate_1900] at h0; rw [mkDate_2300] at h1
  exact b_total t n (by unfold DAYUS at *; omega) (by unfold DAYUS MAXUS at *; omega) hn
/-! ### every spelling of a token (upper-case unit, explicit `+`, leading zeros) on the STRING level: `bumpStr` of the text as written -/

example : resolveNamed (lower "+03B") = lower "+03B" ∧ resolveNamed (lower "Spot") ≠ lower "Spot" := by decide

/-- a string that is not a named tenor (after `lower()`) goes to the tokenizer loop as its lower-cased characters -/
theorem bumpStr_general (t : Int) (s : String) (h : resolveNamed (lower s) = lower s) : bumpStr t s = bumpCs (lower s) t := by
  unfold bumpStr; rw [h]

/-- what `bump.lower()` does to a token as written: only the unit letter changes -/
def lowerTok (k : Tok) : Tok := ⟨k.sign, k.digits, k.unit.toLower⟩

theorem lowerTok_value (k : Tok) : (lowerTok k).value = k.value := by
  unfold lowerTok Tok.value; cases k.sign <;> rfl

theorem lowerTok_wf (k : Tok) (wf : k.WF) : (lowerTok k).WF :=
  ⟨wf.1, wf.2.1, (toLower_unit k.unit wf.2.2).1⟩

theorem map_toLower_digits (ds : List Char) (hd : ∀ c ∈ ds, c.isDigit = true) : ds.map Char.toLower = ds := by
  conv => rhs; rw [← List.map_id ds]
  apply List.map_congr_left
  intro c hc; exact toLower_digit c (hd c hc)

theorem lower_tok_text (k : Tok) (wf : k.WF) : k.text.map Char.toLower = (lowerTok k).text := by
  unfold Tok.text lowerTok
  simp only [List.map_append, map_toLower_digits k.digits wf.2.1, List.map_cons, List.map_nil]
  cases k.sign <;> simp <;> decide

/-- `lower()` of a text made of well-formed tokens (any sign spelling, any digit string, unit letters in either case) is the
text of the lower-cased tokens -/
theorem lower_tokens (ks : List Tok) (wf : ∀ k ∈ ks, k.WF) :
    lower (String.ofList (ks.flatMap Tok.text)) = (ks.map lowerTok).flatMap Tok.text := by
  unfold lower
  rw [String.toList_ofList]
  induction ks with
  | nil => rfl
  | cons k ks ih =>
    simp only [List.flatMap_cons, List.map_append, List.map_cons]
    rw [ih (fun x hx => wf x (by simp [hx])), lower_tok_text k (wf k (by simp))]

theorem named_heads_plus : ∀ kv ∈ Gen.namedTenors, (match kv.1.toList with | c :: _ => c != '+' | [] => true) = true := by decide

/-- no named tenor begins with a plus sign -/
theorem resolveNamed_plus (r : List Char) : resolveNamed ('+' :: r) = '+' :: r := by
  unfold resolveNamed
  have : Gen.namedTenors.find? (fun kv => kv.1.toList == '+' :: r) = none := by
    rw [List.find?_eq_none]
    intro kv hkv
    have h := named_heads_plus kv hkv
    cases e : kv.1.toList with
    | nil => simp
    | cons c' r' =>
      rw [e] at h
      simp only [bne_iff_ne, ne_eq] at h
      simp only [beq_iff_eq, List.cons.injEq, not_and]
      intro hc; exact absurd hc h
  rw [this]

/-- a text of well-formed tokens is not a named tenor -/
theorem resolveNamed_tokens (ks : List Tok) (wf : ∀ k ∈ ks, k.WF) :
    resolveNamed (ks.flatMap Tok.text) = ks.flatMap Tok.text := by
  cases ks with
  | nil => exact resolveNamed_nil
  | cons k ks =>
    have wk := wf k (by simp)
    obtain ⟨d0, ds, hds⟩ : ∃ d0 ds, k.digits = d0 :: ds := by
      cases h : k.digits with
      | nil => exact absurd h wk.1
      | cons a b => exact ⟨a, b, rfl⟩
    have hd0 : d0.isDigit = true := wk.2.1 d0 (by simp [hds])
    simp only [List.flatMap_cons, Tok.text, hds]
    cases k.sign
    · exact resolveNamed_num d0 _ (Or.inl hd0)
    · exact resolveNamed_plus _
    · exact resolveNamed_num '-' _ (Or.inr rfl)

/-- END TO END for every spelling the `period` regex reads: a string made of well-formed tokens — optional `+` or `-`, any
non-empty digit string (leading zeros included), unit letter in either case — is applied token by token, left to right, each
token with its unit letter lower-cased -/
theorem bumpStr_toks (t : Int) (ks : List Tok) (wf : ∀ k ∈ ks, k.WF) :
    bumpStr t (String.ofList (ks.flatMap Tok.text)) = runToks t (ks.map lowerTok) := by
  have wf' : ∀ k ∈ ks.map lowerTok, k.WF := by
    intro k hk
    simp only [List.mem_map] at hk
    obtain ⟨x, hx, rfl⟩ := hk
    exact lowerTok_wf x (wf x hx)
  rw [bumpStr_general, lower_tokens ks wf]
  · exact tenor_left_to_right _ wf' t
  · rw [lower_tokens ks wf]; exact resolveNamed_tokens _ wf'

/-- a token does what the canonical `'%d%s'` token with the same count and unit does -/
theorem applyTok_canon (t : Int) (k : Tok) : applyTok t (lowerTok k) = applyTok t (numTok k.value k.unit.toLower) := by
  unfold applyTok
  rw [lowerTok_value, numTok_value]; rfl

theorem runToks_canon (t : Int) (ks : List Tok) :
    runToks t (ks.map lowerTok) = runToks t (ks.map fun k => numTok k.value k.unit.toLower) := by
  induction ks generalizing t with
  | nil => rfl
  | cons k ks ih =>
    simp only [List.map_cons, runToks, applyTok_canon]
    cases applyTok t (numTok k.value k.unit.toLower) with
    | error e => rfl
    | ok t' => simp only [Except.bind]; exact ih t'

/-- … hence ANY spelling of a compound tenor is the canonical lower-case `'%d%s'` text of its (count, unit) pairs, and (by
`tenors_left_to_right`) the same as `dt_bump` called with the canonical parts as separate arguments -/
theorem spelled_tenors (t : Int) (ks : List Tok) (wf : ∀ k ∈ ks, k.WF) :
    bumpStr t (String.ofList (ks.flatMap Tok.text)) = bumpStr t (tenors (ks.map fun k => (k.value, k.unit.toLower))) ∧
    bumpStr t (String.ofList (ks.flatMap Tok.text)) = dtBump t (ks.map fun k => .str (tenor k.value k.unit.toLower)) := by
  have hu : ∀ p ∈ ks.map (fun k => (k.value, k.unit.toLower)), LowerUnit p.2 := by
    intro p hp
    simp only [List.mem_map] at hp
    obtain ⟨x, hx, rfl⟩ := hp
    exact toLower_unit x.unit (wf x hx).2.2
  have e1 : bumpStr t (String.ofList (ks.flatMap Tok.text)) = bumpStr t (tenors (ks.map fun k => (k.value, k.unit.toLower))) := by
    rw [bumpStr_toks t ks wf, runToks_canon, bumpStr_tenors_toks t _ hu, List.map_map]; rfl
  refine ⟨e1, ?_⟩
  rw [e1, tenors_left_to_right t _ hu, List.map_map]; rfl

/-- one token in any spelling = the canonical `tenor n c` -/
theorem spelled_tenor (t : Int) (k : Tok) (wf : k.WF) :
    bumpStr t (String.ofList k.text) = bumpStr t (tenor k.value k.unit.toLower) := by
  have h := (spelled_tenors t [k] (by intro x hx; simp only [List.mem_singleton] at hx; subst hx; exact wf)).1
  simp only [List.flatMap_cons, List.flatMap_nil, List.append_nil, List.map_cons, List.map_nil] at h
  rw [h]; unfold tenors tenor; simp

/-! the spellings the generator `tok()` (harness/pv/props/c09.py) emits for `(n, u)`, `u` a lower-case unit letter -/

theorem digitsVal_zeros (z : Nat) (ds : List Char) : digitsVal (List.replicate z '0' ++ ds) = digitsVal ds := by
  unfold digitsVal
  induction z with
  | zero => rfl
  | succ z ih => simp only [List.replicate_succ, List.cons_append, List.foldl_cons]; exact ih

/-- `'+%d%s'` (n ≥ 0) -/
def plusTok (n : Nat) (u : Char) : Tok := ⟨.plus, (Nat.repr n).toList, u⟩
/-- `('%d%s' % (n, u)).upper()`: digits and the minus sign are unchanged, the unit letter is upper-cased -/
def upperTok (n : Int) (u : Char) : Tok := numTok n u.toUpper
/-- `'0…0%d%s'` / `'-0…0%d%s'`: `z` leading zeros (`tok()` writes one) -/
def zeroTok (z : Nat) (n : Int) (u : Char) : Tok :=
  ⟨if n < 0 then .minus else .none, List.replicate z '0' ++ (Nat.repr n.natAbs).toList, u⟩

example : String.ofList (plusTok 3 'b').text = "+3b" ∧ String.ofList (upperTok (-3) 'b').text = "-3B" ∧
    String.ofList (zeroTok 1 (-3) 'b').text = "-03b" ∧ String.ofList (zeroTok 1 12 'm').text = "012m" := by decide

theorem upper_units : ∀ u ∈ periodUnits, u.toUpper ∈ periodUnits ∧ u.toUpper.toLower = u.toLower := by decide

/-- each of them is a well-formed token that is read as the same count and (lower-case) unit as `'%d%s' % (n, u)` -/
theorem spellings_read (u : Char) (hu : LowerUnit u) :
    (∀ n : Nat, (plusTok n u).WF ∧ (plusTok n u).value = n ∧ (plusTok n u).unit.toLower = u) ∧
    (∀ n : Int, (upperTok n u).WF ∧ (upperTok n u).value = n ∧ (upperTok n u).unit.toLower = u) ∧
    (∀ (z : Nat) (n : Int), (zeroTok z n u).WF ∧ (zeroTok z n u).value = n ∧ (zeroTok z n u).unit.toLower = u) := by
  refine ⟨fun n => ⟨⟨repr_ne_nil _, repr_digits _, hu.1⟩, ?_, hu.2⟩, fun n => ⟨numTok_wf _ _ (upper_units u hu.1).1, numTok_value _ _, ?_⟩,
    fun z n => ⟨⟨?_, ?_, hu.1⟩, ?_, hu.2⟩⟩
  · unfold plusTok Tok.value; simp only [digitsVal_repr]
  · show u.toUpper.toLower = u
    rw [(upper_units u hu.1).2, hu.2]
  · unfold zeroTok; simp only []
    intro h
    have := congrArg List.length h
    simp only [List.length_append, List.length_replicate, List.length_nil] at this
    have := repr_ne_nil n.natAbs
    cases hl : (Nat.repr n.natAbs).toList with
    | nil => exact this hl
    | cons a b => rw [hl] at *; simp at *
  · unfold zeroTok; simp only []
    intro c hc
    rw [List.mem_append] at hc
    rcases hc with hc | hc
    · rw [List.mem_replicate] at hc; rw [hc.2]; decide
    · exact repr_digits _ c hc
  · unfold zeroTok Tok.value
    by_cases h : n < 0 <;> simp only [h, if_true, if_false, digitsVal_zeros, digitsVal_repr] <;> omega

/-- so every text the generator writes for `(n, u)` is the bump `tenor n u`: `'+3b'`, `'3B'`, `'03b'`, `'-03b'` ≡ `'3b'` / `'-3b'` -/
theorem generator_spellings (t : Int) (u : Char) (hu : LowerUnit u) :
    (∀ n : Nat, bumpStr t (String.ofList (plusTok n u).text) = bumpStr t (tenor n u)) ∧
    (∀ n : Int, bumpStr t (String.ofList (upperTok n u).text) = bumpStr t (tenor n u)) ∧
    (∀ (z : Nat) (n : Int), bumpStr t (String.ofList (zeroTok z n u).text) = bumpStr t (tenor n u)) := by
  obtain ⟨a, b, c⟩ := spellings_read u hu
  refine ⟨fun n => ?_, fun n => ?_, fun z n => ?_⟩
  · rw [spelled_tenor t _ (a n).1, (a n).2.1, (a n).2.2]
  · rw [spelled_tenor t _ (b n).1, (b n).2.1, (b n).2.2]
  · rw [spelled_tenor t _ (c z n).1, (c z n).2.1, (c z n).2.2]

example : LowerUnit 'b' := by decide
example : okVal (bumpStr 63082627200000000 "+3B") = some 63083059200000000 ∧ okVal (bumpStr 63082627200000000 "003b") = some 63083059200000000 := by
  decide +kernel

-- a compound text mixing the spellings: `'+1Y-03m2D'` is `'1y-3m2d'`
example : String.ofList (([⟨.plus, ['1'], 'Y'⟩, ⟨.minus, ['0', '3'], 'm'⟩, ⟨.none, ['2'], 'D'⟩] : List Tok).flatMap Tok.text) = "+1Y-03m2D" ∧
    (∀ k ∈ ([⟨.plus, ['1'], 'Y'⟩, ⟨.minus, ['0', '3'], 'm'⟩, ⟨.none, ['2'], 'D'⟩] : List Tok), k.WF) ∧
    tenors (([⟨.plus, ['1'], 'Y'⟩, ⟨.minus, ['0', '3'], 'm'⟩, ⟨.none, ['2'], 'D'⟩] : List Tok).map fun k => (k.value, k.unit.toLower)) = "1y-3m2d" := by
  decide

/-! ### round i3 (review t3 §C09.1): compound tenors are total on the quantifier -/

/-- crude position of a date inside its year: `dby y ≤ ord y m d ≤ dby y + 400` (month ≤ 12, day ≤ 31; no validity needed) -/
theorem ord_window (y m d : Nat) (hm : m ≤ 12) (hd : d ≤ 31) : dby y ≤ ord y m d ∧ ord y m d ≤ dby y + 400 := by
  have hl := leapDay_le y
  unfold ord dbm dbmTable
  split <;> split <;> omega

/-- `k` years are between `365·k` and `366·k` days -/
theorem dby_add (y : Nat) (hy : 1 ≤ y) : ∀ k : Nat, dby y + 365 * k ≤ dby (y + k) ∧ dby (y + k) ≤ dby y + 366 * k
  | 0 => by simp
  | k + 1 => by
    have ih := dby_add y hy k
    have hs := dby_succ (y + k) (by omega)
    have hl := leapDay_le (y + k)
    rw [show y + (k + 1) = y + k + 1 by omega, hs]
    omega

/-- years at most `k` apart start at most `366·k` days apart -/
theorem dby_near (y y' : Nat) (k : Nat) (h1 : y ≤ y' + k) (h2 : y' ≤ y + k) (hy : 1 ≤ y) (hy' : 1 ≤ y') :
    (dby y : Int) - 366 * k ≤ dby y' ∧ (dby y' : Int) ≤ dby y + 366 * k := by
  rcases Nat.le_total y y' with h | h
  · obtain ⟨j, rfl⟩ : ∃ j, y' = y + j := ⟨y' - y, by omega⟩
    have := dby_add y hy j
    constructor <;> omega
  · obtain ⟨j, rfl⟩ : ∃ j, y = y' + j := ⟨y - y', by omega⟩
    have := dby_add y' hy' j
    constructor <;> omega

/-- every instant of ordinal days 640001 … 890000 (years 1753 … 2437) lies on a valid calendar date -/
theorem date_of_instant_wide (t : Int) (h0 : 640000 * DAYUS ≤ t) (h1 : t < 890000 * DAYUS) :
    ∃ y m d : Nat, Valid y m d ∧ 1700 ≤ y ∧ y < 2500 ∧ t - todOf t = mkDate y m d ∧ (ord y m d : Int) = ordOf t := by
  have ho : 640001 ≤ ordOf t ∧ ordOf t ≤ 890000 := by unfold ordOf DAYUS at *; omega
  have hn : ((ordOf t).toNat : Int) = ordOf t := Int.toNat_of_nonneg (by omega)
  obtain ⟨v, e⟩ := ord_fromOrd_all (ordOf t).toNat (by omega) (by omega)
  have hb := ord_bounds _ _ _ v.toU
  generalize fromOrd (ordOf t).toNat = p at *
  have hv := v
  unfold Valid at hv
  have y0 : 1700 ≤ p.y := by
    by_cases h : p.y < 1700
    · have := dby_mono (p.y + 1) 1700 (by omega) (by omega)
      have c : dby 1700 = 620547 := by decide
      rw [c] at this; omega
    · omega
  have y1 : p.y < 2500 := by
    by_cases h : 2500 ≤ p.y
    · have := dby_mono 2500 p.y (by omega) h
      have c : dby 2500 = 912741 := by decide
      rw [c] at this; omega
    · omega
  refine ⟨p.y, p.m, p.d, v, y0, y1, ?_, by rw [e, hn]⟩
  have s := split_t t
  unfold mkDate
  rw [e, hn]; omega

theorem lowerUnit_cases (c : Char) (hc : LowerUnit c) :
    c = 'd' ∨ c = 'w' ∨ c = 'h' ∨ c = 'n' ∨ c = 's' ∨ c = 'b' ∨ c = 'm' ∨ c = 'q' ∨ c = 'y' := by
  obtain ⟨hm, hl⟩ := hc
  unfold periodUnits at hm
  simp only [List.mem_cons, List.not_mem_nil, or_false] at hm
  rcases hm with rfl | rfl | rfl | rfl | rfl | rfl | rfl | rfl | rfl | rfl | rfl | rfl | rfl | rfl | rfl | rfl | rfl | rfl <;>
    first | (simp; done) | exact absurd hl (by decide)

/-- ONE part `'<n><unit>'`, |n| ≤ 60, from any instant of ordinal days 640001 … 890000 (years 1753 … 2437, any time of day)
SUCCEEDS and moves by less than 24000 days (66 years) -/
theorem part_total (c : Char) (hc : LowerUnit c) (t n : Int) (h0 : 640000 * DAYUS ≤ t) (h1 : t < 890000 * DAYUS)
    (hn : -60 ≤ n ∧ n ≤ 60) :
    ∃ r, bumpStr t (tenor n c) = .ok r ∧ t - 24000 * DAYUS ≤ r ∧ r ≤ t + 24000 * DAYUS := by
  have fixed : ∀ (c : Char) (us : Int), unitUs c = some us →
      (us = 86400000000 ∨ us = 604800000000 ∨ us = 3600000000 ∨ us = 60000000 ∨ us = 1000000) →
      ∃ r, bumpStr t (tenor n c) = .ok r ∧ t - 24000 * DAYUS ≤ r ∧ r ≤ t + 24000 * DAYUS := by
    intro c us hus hu
    refine ⟨t + n * us, ?_, ?_, ?_⟩
    · rw [fixed_exact_str c us hus, checkRange_ok]
      refine ⟨?_, rfl⟩
      rcases hu with rfl | rfl | rfl | rfl | rfl <;> (unfold DAYUS MAXUS at *; omega)
    · rcases hu with rfl | rfl | rfl | rfl | rfl <;> (unfold DAYUS at *; omega)
    · rcases hu with rfl | rfl | rfl | rfl | rfl <;> (unfold DAYUS at *; omega)
  have monthly : ∀ (c : Char) (k : Int), ((c = 'm' ∧ k = 1) ∨ (c = 'q' ∧ k = 3) ∨ (c = 'y' ∧ k = 12)) →
      ∃ r, bumpStr t (tenor n c) = .ok r ∧ t - 24000 * DAYUS ≤ r ∧ r ≤ t + 24000 * DAYUS := by
    intro c k hck
    obtain ⟨y, m, d, v, y0, y1, e, eo⟩ := date_of_instant_wide t h0 h1
    have hv := v
    unfold Valid at hv
    have hk : k = 1 ∨ k = 3 ∨ k = 12 := by rcases hck with h | h | h <;> simp [h.2]
    have hcc : c = 'm' ∨ c = 'q' ∨ c = 'y' := by rcases hck with h | h | h <;> simp [h.1]
    have hN := ym_normal (y : Int) ((m : Int) + k * n)
    have hY : (y : Int) - 61 ≤ (Gen.ym (y : Int) ((m : Int) + k * n)).1 ∧ (Gen.ym (y : Int) ((m : Int) + k * n)).1 ≤ y + 61 := by
      unfold Gen.ym; simp only []
      rcases hk with rfl | rfl | rfl <;> omega
    generalize hp : Gen.ym (y : Int) ((m : Int) + k * n) = p at hN hY
    obtain ⟨Y, M⟩ := p
    simp only at hN hY
    have hym : Gen.ym (y : Int) ((m : Int) + k * n) = ((Y.toNat : Int), (M.toNat : Int)) := by
      rw [hp, Int.toNat_of_nonneg (by omega), Int.toNat_of_nonneg (by omega)]
    have hd31 : d ≤ 31 := by
      have : dim y m ≤ 31 := by unfold dim leapDay; split <;> (try split) <;> omega
      omega
    have st := split_t t
    have w0 := ord_window y m d (by omega) hd31
    have hval : bumpStr t (tenor n c) =
        .ok (if d ≤ dim Y.toNat M.toNat then mkDate Y.toNat M.toNat d
             else mkDate (nextMonth Y.toNat M.toNat).1 (nextMonth Y.toNat M.toNat).2 (d - dim Y.toNat M.toNat)) := by
      rw [month_resets_time_str c hcc, e]
      exact month_keep_or_roll_str c k hck y m d v n Y.toNat M.toNat hym (by omega)
    refine ⟨_, hval, ?_⟩
    · have hYn : (Y.toNat : Int) = Y := Int.toNat_of_nonneg (by omega)
      have hMn : (M.toNat : Int) = M := Int.toNat_of_nonneg (by omega)
      split
      · have w1 := ord_window Y.toNat M.toNat d (by omega) hd31
        have dn := dby_near y Y.toNat 62 (by omega) (by omega) (by omega) (by omega)
        unfold mkDate ofOrd at *
        unfold DAYUS at *
        constructor <;> omega
      · have hnm : (nextMonth Y.toNat M.toNat).2 ≤ 12 ∧ (nextMonth Y.toNat M.toNat).1 ≤ Y.toNat + 1 ∧ Y.toNat ≤ (nextMonth Y.toNat M.toNat).1 := by
          unfold nextMonth; split <;> simp <;> omega
        have w1 := ord_window (nextMonth Y.toNat M.toNat).1 (nextMonth Y.toNat M.toNat).2 (d - dim Y.toNat M.toNat) hnm.1 (by omega)
        have dn := dby_near y (nextMonth Y.toNat M.toNat).1 62 (by omega) (by omega) (by omega) (by omega)
        unfold mkDate ofOrd at *
        unfold DAYUS at *
        constructor <;> omega
  rcases lowerUnit_cases c hc with rfl | rfl | rfl | rfl | rfl | rfl | rfl | rfl | rfl
  · exact fixed 'd' _ rfl (by simp)
  · exact fixed 'w' _ rfl (by simp)
  · exact fixed 'h' _ rfl (by simp)
  · exact fixed 'n' _ rfl (by simp)
  · exact fixed 's' _ rfl (by simp)
  · refine ⟨_, b_total_value t n (by unfold DAYUS at *; omega) (by unfold DAYUS MAXUS at *; omega) hn, ?_⟩
    have w := wd_range (ordOf t)
    unfold wdOf
    generalize wd (ordOf t) = W at *
    unfold bOff DAYUS; simp only []
    constructor <;> (repeat' split) <;> omega
  · exact monthly 'm' 1 (Or.inl ⟨rfl, rfl⟩)
  · exact monthly 'q' 3 (Or.inr (Or.inl ⟨rfl, rfl⟩))
  · exact monthly 'y' 12 (Or.inr (Or.inr ⟨rfl, rfl⟩))

/-- up to three parts in a row, started `j` stages out of the quantifier's window: every part succeeds -/
theorem compound_total_aux (ps : List (Int × Char)) : ∀ (j : Nat), j + ps.length ≤ 3 →
    (∀ p ∈ ps, (-60 ≤ p.1 ∧ p.1 ≤ 60) ∧ LowerUnit p.2) → ∀ t : Int,
    (693595 - 24000 * (j : Int)) * DAYUS ≤ t → t < (839692 + 24000 * (j : Int)) * DAYUS →
    ∃ r, dtBump t (ps.map fun p => .str (tenor p.1 p.2)) = .ok r ∧
      t - 24000 * (ps.length : Int) * DAYUS ≤ r ∧ r ≤ t + 24000 * (ps.length : Int) * DAYUS := by
  induction ps with
  | nil => intro j _ _ t _ _; exact ⟨t, rfl, by simp, by simp⟩
  | cons p ps ih =>
    intro j hl hp t h0 h1
    have hj : j + ps.length + 1 ≤ 3 := by simpa [Nat.add_assoc] using hl
    have hj3 : (j : Int) ≤ 2 := by omega
    obtain ⟨r1, e1, a1, b1⟩ := part_total p.2 (hp p (by simp)).2 t p.1
      (by unfold DAYUS at *; omega) (by unfold DAYUS at *; omega) (hp p (by simp)).1
    obtain ⟨r, e, a, b⟩ := ih (j + 1) (by omega) (fun q hq => hp q (by simp [hq])) r1
      (by unfold DAYUS at *; push_cast; omega) (by unfold DAYUS at *; push_cast; omega)
    refine ⟨r, ?_, ?_, ?_⟩
    · simp only [List.map_cons, dtBump, bumpOne, e1]; exact e
    · simp only [List.length_cons]; unfold DAYUS at *; push_cast; omega
    · simp only [List.length_cons]; unfold DAYUS at *; push_cast; omega

/-- **compound tenors SUCCEED on the whole quantifier** (review t3 §C09.1, open since h3): for every instant `t` of
1900-01-01 … 2299-12-31 (any time of day) and every tenor of at most three parts `'<n><unit>'` with |n| ≤ 60 and any of the nine unit
letters, `dt_bump(t, '<n1><u1><n2><u2><n3><u3>')` returns a value `r`, `r` is what applying the parts one after the other as separate
`dt_bump` arguments returns (so `tenors_left_to_right` is an equation between two VALUES, not possibly between two errors), and `r` lies
within 72000 days of `t`.  The value of each step is the closed form of `fixed_total` / `b_total_value` / `month_total`
(`part_total` uses exactly these on the widened window of ordinal days 640001 … 890000). -/
theorem compound_total (t : Int) (ps : List (Int × Char)) (h0 : mkDate 1900 1 1 ≤ t) (h1 : t < mkDate 2300 1 1)
    (hl : ps.length ≤ 3) (hp : ∀ p ∈ ps, (-60 ≤ p.1 ∧ p.1 ≤ 60) ∧ LowerUnit p.2) :
    ∃ r, bumpStr t (tenors ps) = .ok r ∧ dtBump t (ps.map fun p => .str (tenor p.1 p.2)) = .ok r ∧
      t - 72000 * DAYUS ≤ r ∧ r ≤ t + 72000 * DAYUS := by
  rw [mkDate_1900] at h0; rw [mkDate_2300] at h1
  obtain ⟨r, e, a, b⟩ := compound_total_aux ps 0 (by omega) hp t (by simpa using h0) (by simpa using h1)
  refine ⟨r, ?_, e, ?_, ?_⟩
  · rw [tenors_left_to_right t ps (fun p h => (hp p h).2)]; exact e
  · have : (ps.length : Int) ≤ 3 := by omega
    unfold DAYUS at *; omega
  · have : (ps.length : Int) ≤ 3 := by omega
    unfold DAYUS at *; omega

/-- the hypotheses are satisfiable: `'60y-60m60b'` from 2299-12-31 23:59:59.999999 -/
example : ([((60 : Int), 'y'), (-60, 'm'), (60, 'b')] : List (Int × Char)).length ≤ 3 ∧
    (∀ p ∈ ([((60 : Int), 'y'), (-60, 'm'), (60, 'b')] : List (Int × Char)), (-60 ≤ p.1 ∧ p.1 ≤ 60) ∧ LowerUnit p.2) ∧
    tenors [(60, 'y'), (-60, 'm'), (60, 'b')] = "60y-60m60b" := by decide

/-! ### round k3: the VALUE of a compound tenor in closed form (reviews t3 §C09.1, v3 §C09-3.2) -/

/-- `datetime(y', m', d)` with the day rolled over into the following month when month `(y', m')` is shorter: the value the
statement gives to a month / quarter / year bump ("keeping the day of month when it exists and otherwise rolling the excess days
into the following month") -/
def keepOrRoll (y' m' d : Nat) : Int :=
  if d ≤ dim y' m' then mkDate y' m' d else mkDate (nextMonth y' m').1 (nextMonth y' m').2 (d - dim y' m')

/-- the closed form of ONE part `'<n><unit>'`, written WITHOUT the bump machinery (no tokenizer, no unit table, no `_ymd`, no
range check): fixed-length units add `n` times their length; `b` adds the weekday offset `bOff` of the start's weekday (whole days, the
time of day stays); `m` / `q` / `y` (1 / 3 / 12 months per count) go to midnight of the calendar date `(y, m, d)` of the start — `fromOrd`
of its ordinal — with the month count added (`Gen.ym` normalises year and month), day kept or rolled -/
def stepClosed (t : Int) (p : Int × Char) : Int :=
  match unitUs p.2 with
  | some us => t + p.1 * us
  | none =>
    if p.2 = 'b' then t + bOff (wdOf t) p.1 * DAYUS else
    let k : Int := if p.2 = 'm' then 1 else if p.2 = 'q' then 3 else 12
    let c := fromOrd (ordOf t).toNat
    let ym := Gen.ym (c.y : Int) ((c.m : Int) + k * p.1)
    keepOrRoll ym.1.toNat ym.2.toNat c.d

/-- `date_of_instant_wide` with the date named: it is `fromOrd` of the instant's ordinal -/
theorem date_of_instant_fromOrd (t : Int) (h0 : 640000 * DAYUS ≤ t) (h1 : t < 890000 * DAYUS) :
    Valid (fromOrd (ordOf t).toNat).y (fromOrd (ordOf t).toNat).m (fromOrd (ordOf t).toNat).d ∧
    1700 ≤ (fromOrd (ordOf t).toNat).y ∧ (fromOrd (ordOf t).toNat).y < 2500 ∧
    t - todOf t = mkDate (fromOrd (ordOf t).toNat).y (fromOrd (ordOf t).toNat).m (fromOrd (ordOf t).toNat).d := by
  have ho : 640001 ≤ ordOf t ∧ ordOf t ≤ 890000 := by unfold ordOf DAYUS at *; omega
  have hn : ((ordOf t).toNat : Int) = ordOf t := Int.toNat_of_nonneg (by omega)
  obtain ⟨v, e⟩ := ord_fromOrd_all (ordOf t).toNat (by omega) (by omega)
  have hb := ord_bounds _ _ _ v.toU
  generalize fromOrd (ordOf t).toNat = p at *
  have hv := v
  unfold Valid at hv
  have y0 : 1700 ≤ p.y := by
    by_cases h : p.y < 1700
    · have := dby_mono (p.y + 1) 1700 (by omega) (by omega)
      have c : dby 1700 = 620547 := by decide
      rw [c] at this; omega
    · omega
  have y1 : p.y < 2500 := by
    by_cases h : 2500 ≤ p.y
    · have := dby_mono 2500 p.y (by omega) h
      have c : dby 2500 = 912741 := by decide
      rw [c] at this; omega
    · omega
  refine ⟨v, y0, y1, ?_⟩
  have s := split_t t
  unfold mkDate
  rw [e, hn]; omega

/-- ONE part, on the widened window of `part_total`: the value IS the closed form -/
theorem part_value (c : Char) (hc : LowerUnit c) (t n : Int) (h0 : 640000 * DAYUS ≤ t) (h1 : t < 890000 * DAYUS)
    (hn : -60 ≤ n ∧ n ≤ 60) : bumpStr t (tenor n c) = .ok (stepClosed t (n, c)) := by
  have monthly : ∀ (c : Char) (k : Int), ((c = 'm' ∧ k = 1) ∨ (c = 'q' ∧ k = 3) ∨ (c = 'y' ∧ k = 12)) →
      bumpStr t (tenor n c) = .ok (keepOrRoll (Gen.ym ((fromOrd (ordOf t).toNat).y : Int) (((fromOrd (ordOf t).toNat).m : Int) + k * n)).1.toNat
        (Gen.ym ((fromOrd (ordOf t).toNat).y : Int) (((fromOrd (ordOf t).toNat).m : Int) + k * n)).2.toNat (fromOrd (ordOf t).toNat).d) := by
    intro c k hck
    obtain ⟨v, y0, y1, e⟩ := date_of_instant_fromOrd t h0 h1
    generalize fromOrd (ordOf t).toNat = P at *
    have hv := v
    unfold Valid at hv
    have hk : k = 1 ∨ k = 3 ∨ k = 12 := by rcases hck with h | h | h <;> simp [h.2]
    have hcc : c = 'm' ∨ c = 'q' ∨ c = 'y' := by rcases hck with h | h | h <;> simp [h.1]
    have hN := ym_normal (P.y : Int) ((P.m : Int) + k * n)
    have hY : (P.y : Int) - 61 ≤ (Gen.ym (P.y : Int) ((P.m : Int) + k * n)).1 ∧ (Gen.ym (P.y : Int) ((P.m : Int) + k * n)).1 ≤ P.y + 61 := by
      unfold Gen.ym; simp only []
      rcases hk with rfl | rfl | rfl <;> omega
    generalize hp : Gen.ym (P.y : Int) ((P.m : Int) + k * n) = p at hN hY ⊢
    obtain ⟨Y, M⟩ := p
    simp only at hN hY ⊢
    have hym : Gen.ym (P.y : Int) ((P.m : Int) + k * n) = ((Y.toNat : Int), (M.toNat : Int)) := by
      rw [hp, Int.toNat_of_nonneg (by omega), Int.toNat_of_nonneg (by omega)]
    rw [month_resets_time_str c hcc, e]
    exact month_keep_or_roll_str c k hck P.y P.m P.d v n Y.toNat M.toNat hym (by omega)
  have fixed : ∀ (c : Char) (us : Int), LowerUnit c → unitUs c = some us → bumpStr t (tenor n c) = .ok (stepClosed t (n, c)) := by
    intro c us hc hus
    obtain ⟨r, hr, _, _⟩ := part_total c hc t n h0 h1 hn
    have hs : stepClosed t (n, c) = t + n * us := by unfold stepClosed; simp only [hus]
    rw [hs, hr]
    rw [fixed_exact_str c us hus, checkRange_ok] at hr
    rw [hr.2]
  rcases lowerUnit_cases c hc with rfl | rfl | rfl | rfl | rfl | rfl | rfl | rfl | rfl
  · exact fixed 'd' _ hc rfl
  · exact fixed 'w' _ hc rfl
  · exact fixed 'h' _ hc rfl
  · exact fixed 'n' _ hc rfl
  · exact fixed 's' _ hc rfl
  · have hs : stepClosed t (n, 'b') = t + bOff (wdOf t) n * DAYUS := by
      unfold stepClosed; have : unitUs 'b' = none := rfl
      simp only [this, if_true]
    rw [hs]
    exact b_total_value t n (by unfold DAYUS at *; omega) (by unfold DAYUS MAXUS at *; omega) hn
  · have hs := monthly 'm' 1 (Or.inl ⟨rfl, rfl⟩)
    rw [hs]; unfold stepClosed; have : unitUs 'm' = none := rfl
    simp only [this]; rfl
  · have hs := monthly 'q' 3 (Or.inr (Or.inl ⟨rfl, rfl⟩))
    rw [hs]; unfold stepClosed; have : unitUs 'q' = none := rfl
    simp only [this]; rfl
  · have hs := monthly 'y' 12 (Or.inr (Or.inr ⟨rfl, rfl⟩))
    rw [hs]; unfold stepClosed; have : unitUs 'y' = none := rfl
    simp only [this]; rfl

theorem compound_value_aux (ps : List (Int × Char)) : ∀ (j : Nat), j + ps.length ≤ 3 →
    (∀ p ∈ ps, (-60 ≤ p.1 ∧ p.1 ≤ 60) ∧ LowerUnit p.2) → ∀ t : Int,
    (693595 - 24000 * (j : Int)) * DAYUS ≤ t → t < (839692 + 24000 * (j : Int)) * DAYUS →
    dtBump t (ps.map fun p => .str (tenor p.1 p.2)) = .ok (ps.foldl stepClosed t) := by
  induction ps with
  | nil => intro j _ _ t _ _; rfl
  | cons p ps ih =>
    intro j hl hp t h0 h1
    have hj : j + ps.length + 1 ≤ 3 := by simpa [Nat.add_assoc] using hl
    have hj3 : (j : Int) ≤ 2 := by omega
    have g0 : 640000 * DAYUS ≤ t := by unfold DAYUS at *; omega
    have g1 : t < 890000 * DAYUS := by unfold DAYUS at *; omega
    obtain ⟨r1, e1, a1, b1⟩ := part_total p.2 (hp p (by simp)).2 t p.1 g0 g1 (hp p (by simp)).1
    have v1 := part_value p.2 (hp p (by simp)).2 t p.1 g0 g1 (hp p (by simp)).1
    have er : r1 = stepClosed t p := by rw [e1] at v1; cases v1; rfl
    have e := ih (j + 1) (by omega) (fun q hq => hp q (by simp [hq])) r1
      (by unfold DAYUS at *; push_cast; omega) (by unfold DAYUS at *; push_cast; omega)
    simp only [List.map_cons, dtBump, bumpOne, e1, List.foldl_cons]
    rw [← er]; exact e

/-- **the value of a compound tenor** on the whole quantifier: for every instant `t` of 1900-01-01 … 2299-12-31 (any time of day) and every
tenor of at most three parts with |n| ≤ 60 and any of the nine unit letters, `dt_bump(t, '<n1><u1><n2><u2><n3><u3>')` IS the left fold of the
three single-part closed forms (`stepClosed`: `t + n·unit`, the weekday offset `bOff`, keep-or-roll from the calendar date of the running
instant) — "apply their parts left to right" with each part's value given by arithmetic, not by the model's own bump function.
`compound_total` (existence, window) is the corollary. -/
theorem compound_value (t : Int) (ps : List (Int × Char)) (h0 : mkDate 1900 1 1 ≤ t) (h1 : t < mkDate 2300 1 1)
    (hl : ps.length ≤ 3) (hp : ∀ p ∈ ps, (-60 ≤ p.1 ∧ p.1 ≤ 60) ∧ LowerUnit p.2) :
    bumpStr t (tenors ps) = .ok (ps.foldl stepClosed t) ∧
    dtBump t (ps.map fun p => .str (tenor p.1 p.2)) = .ok (ps.foldl stepClosed t) := by
  rw [mkDate_1900] at h0; rw [mkDate_2300] at h1
  have e := compound_value_aux ps 0 (by omega) hp t (by simpa using h0) (by simpa using h1)
  exact ⟨by rw [tenors_left_to_right t ps (fun p h => (hp p h).2)]; exact e, e⟩

/-- the statement's own example `'1y-3m2d'` from 2020-01-31: one year on (2021-01-31), three months back (31 Oct 2020), two days on -/
example : [((1 : Int), 'y'), (-3, 'm'), (2, 'd')].foldl stepClosed (mkDate 2020 1 31) = mkDate 2020 11 2 := by decide +kernel
/-- … and a roll: `'1m1b'` from Sat 2020-01-31 09:00 — February has no 31st: 2 March (a Monday, midnight), then one business day -/
example : [((1 : Int), 'm'), (1, 'b')].foldl stepClosed (mkDate 2020 1 31 + 32400000000) = mkDate 2020 3 3 := by decide +kernel

end Pyg.Props.C09
