/-
  C06 — inc and exc partition a table; both keep the columns and the row order; find_<col>.
  Property theorems only (helper lemmas: PygProofs/Lemmas/FilterLemmas.lean).

  `Table.sat t conds i` says that row `i` of `t` satisfies every column condition of `conds`
  (`Cond.test` is the repaired `_row_check`: `is None`, NaN, `pattern.search` as an arbitrary function, membership by value).
  All theorems are about the model `Table.inc / exc / find` of PygModel/Filter.lean, which follows the
  code's sequential masks, `and_` + negation and the empty-result fix-ups, for EVERY rectangular table,
  every list of conditions on existing columns and every total row predicate.
    * inc = exactly the satisfying rows, in order, all columns ........ `inc_filter`, `inc_rows`
    * exc = exactly the others, in order, all columns ................. `exc_filter`, `exc_rows`
    * together they partition the table ............................... `partition`
    * columns kept even when no row survives .......................... `cols_kept`, `inc_nothing`
    * inc with no condition is the identity ........................... `inc_nil`
    * inc is idempotent ............................................... `inc_idem`
    * single callables ................................................ `inc_pred`, `exc_pred`, `partition_pred` (index
      predicates), `inc_fn`, `exc_fn` (any callable answering on every row), `inc_rowpred`, `exc_rowpred`,
      `partition_rowpred`, `inc_idem_rowpred` (predicates of the row's cells), `inc_fn_error` (a callable that raises)
    * find_<col> ...................................................... `find_unique`, `find_spec`, `find_fn`
    * a key that is not a column ...................................... `inc_missing_key`, `exc_missing_key(_empty)`
    * what a condition means, stated without `Cond.test` .............. `valEq_iff`, `isNaN_iff`, `isNone_iff`, `oneOf_iff`,
      `regex_iff`, `ofValue_one`; the regex is ANY `String → Bool`; the driver's matcher on literals: `search_lit`
-/
import PygProofs.Lemmas.FilterLemmas

namespace Pyg.Props.C06
open Pyg Table

/-- `inc` with no condition is the identity -/
theorem inc_nil (t : Table) : t.inc Option.none [] = .ok t := rfl

/-- **inc**: the result is the table gathered at exactly the row indices (ascending) whose rows satisfy
all conditions — whatever the number of conditions, including none -/
theorem inc_filter (t : Table) (n : Nat) (hr : t.Rect n) (conds : List (String × Cond))
    (hk : ∀ kc ∈ conds, t.has kc.1 = true) :
    t.inc Option.none conds = .ok (t.gatherRows ((List.range n).filter (t.sat conds))) := by
  cases conds with
  | nil =>
    have : (List.range n).filter (t.sat []) = List.range n := List.filter_eq_self.2 (fun _ _ => rfl)
    rw [this, gatherRows_range hr]; rfl
  | cons kc conds =>
    have hne : t ≠ [] := ne_nil_of_has (hk kc List.mem_cons_self)
    have h := incSteps_gather hne (kc :: conds) hk (List.range n)
    rw [gatherRows_range hr] at h
    simp only [inc, Option.isNone_none, List.isEmpty_cons, Bool.and_false, Bool.false_eq_true, if_false, h]
    rw [fixup_gather hne]

/-- **exc**: the table gathered at exactly the other row indices (at least one condition) -/
theorem exc_filter (t : Table) (n : Nat) (hr : t.Rect n) (conds : List (String × Cond)) (hc : conds ≠ [])
    (hk : ∀ kc ∈ conds, t.has kc.1 = true) :
    t.exc Option.none conds = .ok (t.gatherRows ((List.range n).filter fun i => !t.sat conds i)) := by
  obtain ⟨kc, rest, rfl⟩ := List.exists_cons_of_ne_nil hc
  have hne : t ≠ [] := ne_nil_of_has (hk kc List.mem_cons_self)
  have hn := nrows_of_rect hr hne
  simp only [exc, Option.isNone_none, List.isEmpty_cons, Bool.and_false, Bool.false_eq_true, if_false,
    Bool.not_false, Bool.true_and, hn]
  by_cases h0 : n = 0
  · subst h0
    simp only [bne_self_eq_false, Bool.false_eq_true, if_false]
    have : t.fixup t = t.emptyLike := by simp [fixup, hn]
    rw [this, emptyLike_eq_gather]; rfl
  · have : (n != 0) = true := by simpa using h0
    simp only [this, if_true]
    rw [mapE_of_ok (g := fun i => !t.sat (kc :: rest) i) (fun i _ => excFlag_ok _ hk i)]
    simp only
    have hg := getMask_gather hne (List.range n) ((List.range n).map fun i => !t.sat (kc :: rest) i) (by simp)
    rw [gatherRows_range hr] at hg
    rw [hg]
    simp only
    have := positions_filter (List.range n) (fun i => !t.sat (kc :: rest) i) 0
    simp only [List.length_range] at this ⊢
    rw [this, fixup_gather hne]

/-- the list-of-records reading of `inc_filter`: all columns, the satisfying records in original order -/
theorem inc_rows (t : Table) (n : Nat) (hr : t.Rect n) (hne : t ≠ []) (conds : List (String × Cond))
    (hk : ∀ kc ∈ conds, t.has kc.1 = true) :
    ∃ t', t.inc Option.none conds = .ok t' ∧ t'.cols = t.cols ∧ (∃ m, t'.Rect m) ∧
      t'.rows = ((List.range n).filter (t.sat conds)).map t.row ∧ t'.rows.Sublist t.rows :=
  ⟨_, inc_filter t n hr conds hk, cols_gatherRows _ _, ⟨_, gatherRows_rect _ _⟩, rows_gatherRows hne _, by
    rw [rows_gatherRows hne, rows, nrows_of_rect hr hne]
    exact List.Sublist.map _ List.filter_sublist⟩

theorem exc_rows (t : Table) (n : Nat) (hr : t.Rect n) (conds : List (String × Cond)) (hc : conds ≠ [])
    (hk : ∀ kc ∈ conds, t.has kc.1 = true) :
    ∃ t', t.exc Option.none conds = .ok t' ∧ t'.cols = t.cols ∧ (∃ m, t'.Rect m) ∧
      t'.rows = ((List.range n).filter fun i => !t.sat conds i).map t.row ∧ t'.rows.Sublist t.rows := by
  obtain ⟨kc, rest, rfl⟩ := List.exists_cons_of_ne_nil hc
  have hne : t ≠ [] := ne_nil_of_has (hk kc List.mem_cons_self)
  exact ⟨_, exc_filter t n hr _ hc hk, cols_gatherRows _ _, ⟨_, gatherRows_rect _ _⟩, rows_gatherRows hne _, by
    rw [rows_gatherRows hne, rows, nrows_of_rect hr hne]
    exact List.Sublist.map _ List.filter_sublist⟩

/-- **partition**: for one or more column conditions, `inc` and `exc` return tables with all of the
table's columns whose records are complementary sub-sequences of the table's records: every record goes
to exactly one of them (the concatenation is a permutation of the records, the lengths add up) and both
keep the original relative order. -/
theorem partition (t : Table) (n : Nat) (hr : t.Rect n) (conds : List (String × Cond)) (hc : conds ≠ [])
    (hk : ∀ kc ∈ conds, t.has kc.1 = true) :
    ∃ ti te, t.inc Option.none conds = .ok ti ∧ t.exc Option.none conds = .ok te ∧
      ti.cols = t.cols ∧ te.cols = t.cols ∧
      ti.rows.Sublist t.rows ∧ te.rows.Sublist t.rows ∧
      (ti.rows ++ te.rows).Perm t.rows ∧ ti.rows.length + te.rows.length = n := by
  obtain ⟨kc, rest, rfl⟩ := List.exists_cons_of_ne_nil hc
  have hne : t ≠ [] := ne_nil_of_has (hk kc List.mem_cons_self)
  obtain ⟨ti, h1, h2, _, h3, h4⟩ := inc_rows t n hr hne _ hk
  obtain ⟨te, g1, g2, _, g3, g4⟩ := exc_rows t n hr _ hc hk
  have hp : (ti.rows ++ te.rows).Perm t.rows := by
    rw [h3, g3, ← List.map_append, rows, nrows_of_rect hr hne]
    exact (List.filter_append_perm _ _).map _
  refine ⟨ti, te, h1, g1, h2, g2, h4, g4, hp, ?_⟩
  have := hp.length_eq
  rw [List.length_append, rows_length hr hne] at this
  exact this

/-- both results carry all of the table's columns, whatever survives -/
theorem cols_kept (t : Table) (n : Nat) (hr : t.Rect n) (conds : List (String × Cond)) (hc : conds ≠ [])
    (hk : ∀ kc ∈ conds, t.has kc.1 = true) :
    (∀ ti, t.inc Option.none conds = .ok ti → ti.cols = t.cols) ∧
    (∀ te, t.exc Option.none conds = .ok te → te.cols = t.cols) := by
  constructor
  · intro ti h; rw [inc_filter t n hr conds hk] at h; cases h; exact cols_gatherRows _ _
  · intro te h; rw [exc_filter t n hr conds hc hk] at h; cases h; exact cols_gatherRows _ _

/-- a condition no row satisfies: `inc` returns the table's columns with no rows, `exc` the table -/
theorem inc_nothing (t : Table) (n : Nat) (hr : t.Rect n) (conds : List (String × Cond)) (hc : conds ≠ [])
    (hk : ∀ kc ∈ conds, t.has kc.1 = true) (hno : ∀ i < n, t.sat conds i = false) :
    t.inc Option.none conds = .ok t.emptyLike ∧ t.exc Option.none conds = .ok t := by
  constructor
  · rw [inc_filter t n hr conds hk, emptyLike_eq_gather]
    congr 2
    apply List.filter_eq_nil_iff.2
    intro i hi; simp [hno i (by simpa using hi)]
  · rw [exc_filter t n hr conds hc hk]
    have : (List.range n).filter (fun i => !t.sat conds i) = List.range n := by
      apply List.filter_eq_self.2
      intro i hi; simp [hno i (by simpa using hi)]
    rw [this, gatherRows_range hr]

/-- **idempotence**: filtering the result of `inc` again with the same conditions changes nothing -/
theorem inc_idem (t ti : Table) (n : Nat) (hr : t.Rect n) (conds : List (String × Cond))
    (hk : ∀ kc ∈ conds, t.has kc.1 = true) (h : t.inc Option.none conds = .ok ti) :
    ti.inc Option.none conds = .ok ti := by
  rw [inc_filter t n hr conds hk] at h
  cases h
  have hr' := gatherRows_rect t ((List.range n).filter (t.sat conds))
  have hk' : ∀ kc ∈ conds, (t.gatherRows ((List.range n).filter (t.sat conds))).has kc.1 = true := by
    intro kc hkc
    obtain ⟨col, hcol⟩ := (has_iff_col? t kc.1).1 (hk kc hkc)
    exact (has_iff_col? _ _).2 ⟨_, by rw [col?_gatherRows, hcol]; rfl⟩
  rw [inc_filter _ _ hr' conds hk']
  have hall : (List.range ((List.range n).filter (t.sat conds)).length).filter
      ((t.gatherRows ((List.range n).filter (t.sat conds))).sat conds) =
      List.range ((List.range n).filter (t.sat conds)).length := by
    apply List.filter_eq_self.2
    intro j hj
    have hj' : j < ((List.range n).filter (t.sat conds)).length := by simpa using hj
    -- row j of the result is row idx[j] of the table, which satisfies the conditions
    have hmem : ((List.range n).filter (t.sat conds))[j] ∈ (List.range n).filter (t.sat conds) :=
      List.getElem_mem hj'
    have hsat := (List.mem_filter.1 hmem).2
    rw [sat_gatherRows t _ conds hk j hj']
    exact hsat
  rw [hall, gatherRows_range hr']

/-- a filter on a column that is not there: `inc` raises `KeyError` (the conditions before it having
been applied), whatever the rows -/
theorem inc_missing_key (t : Table) (n : Nat) (hr : t.Rect n) (hne : t ≠ []) (pre post : List (String × Cond))
    (k : String) (c : Cond) (hpre : ∀ kc ∈ pre, t.has kc.1 = true) (hk : t.has k = false) :
    t.inc Option.none (pre ++ (k, c) :: post) = .error .key := by
  have hsplit : ∀ (res : Table) (a b : List (String × Cond)),
      res.incSteps (a ++ b) = match res.incSteps a with | .error e => .error e | .ok r => r.incSteps b := by
    intro res a
    induction a generalizing res with
    | nil => intro b; rfl
    | cons x xs ih =>
      intro b
      simp only [List.cons_append, incSteps]
      cases res.incStep x with
      | error e => rfl
      | ok r => exact ih r b
  have hg := incSteps_gather hne pre hpre (List.range n)
  rw [gatherRows_range hr] at hg
  have hcond : ((Option.none : Option (Table → Nat → Except Err Bool)).isNone &&
      (pre ++ (k, c) :: post).isEmpty) = false := by
    cases pre <;> simp
  unfold inc
  rw [hcond]
  simp only [Bool.false_eq_true, if_false]
  rw [hsplit, hg]
  simp only [incSteps, incStep, getColE]
  have : (t.gatherRows ((List.range n).filter (t.sat pre))).col? k = Option.none := by
    rw [col?_gatherRows]
    cases hc : t.col? k with
    | none => rfl
    | some col =>
      have := (has_iff_col? t k).2 ⟨col, hc⟩
      rw [hk] at this; cases this
  rw [this]

/-! ### a single callable -/

/-- `d.inc(f)` for a callable that is defined on every row: exactly the rows where it is true -/
theorem inc_pred (t : Table) (n : Nat) (hr : t.Rect n) (hne : t ≠ []) (p : Nat → Bool) :
    t.inc (some fun _ i => .ok (p i)) [] = .ok (t.gatherRows ((List.range n).filter p)) := by
  simp only [inc, Option.isNone_some, Bool.false_and, Bool.false_eq_true, if_false, keepRows_total hr hne p]
  by_cases he : ((List.range n).filter p).isEmpty = true
  · have : (List.range n).filter p = [] := by simpa using he
    rw [if_pos he, this]
    simp [incSteps, fixup, nrows, emptyLike_eq_gather]
  · rw [if_neg he]
    simp only [incSteps]
    rw [fixup_gather hne]

theorem exc_pred (t : Table) (n : Nat) (hr : t.Rect n) (hne : t ≠ []) (p : Nat → Bool) :
    t.exc (some fun _ i => .ok (p i)) [] = .ok (t.gatherRows ((List.range n).filter fun i => !p i)) := by
  have hk := keepRows_total hr hne (fun i => !p i)
  simp only [exc, Option.isNone_some, Bool.false_and, Bool.false_eq_true, if_false, Except.map,
    List.isEmpty_nil, Bool.not_true] at hk ⊢
  rw [hk]
  by_cases he : ((List.range n).filter fun i => !p i).isEmpty = true
  · have : (List.range n).filter (fun i => !p i) = [] := by simpa using he
    rw [if_pos he, this]
    simp [fixup, nrows, emptyLike_eq_gather]
  · rw [if_neg he]
    simp only
    rw [fixup_gather hne]

/-- a single predicate partitions the table as well -/
theorem partition_pred (t : Table) (n : Nat) (hr : t.Rect n) (hne : t ≠ []) (p : Nat → Bool) :
    ∃ ti te, t.inc (some fun _ i => .ok (p i)) [] = .ok ti ∧ t.exc (some fun _ i => .ok (p i)) [] = .ok te ∧
      ti.cols = t.cols ∧ te.cols = t.cols ∧ ti.rows.Sublist t.rows ∧ te.rows.Sublist t.rows ∧
      (ti.rows ++ te.rows).Perm t.rows := by
  refine ⟨_, _, inc_pred t n hr hne p, exc_pred t n hr hne p, cols_gatherRows _ _, cols_gatherRows _ _, ?_, ?_, ?_⟩
  · rw [rows_gatherRows hne, rows, nrows_of_rect hr hne]; exact List.Sublist.map _ List.filter_sublist
  · rw [rows_gatherRows hne, rows, nrows_of_rect hr hne]; exact List.Sublist.map _ List.filter_sublist
  · rw [rows_gatherRows hne, rows_gatherRows hne, ← List.map_append, rows, nrows_of_rect hr hne]
    exact (List.filter_append_perm _ _).map _

/-! ### callables as predicates of the ROW (its cells), callables that raise -/

/-- the record a callable receives for row `i`: column name ↦ cell -/
def rowDict (t : Table) (i : Nat) : List (String × Cell) := t.map fun c => (c.1, c.2.getD i .none)

theorem rowDict_gatherRows (t : Table) (idx : List Nat) (j : Nat) (hj : j < idx.length) :
    rowDict (t.gatherRows idx) j = rowDict t idx[j] := by
  simp [rowDict, gatherRows, List.map_map, Function.comp_def, List.getD_eq_getElem?_getD, hj]

/-- **inc with any callable** `f` (it receives the table it filters and the row index) that answers `p i`
on every row `i` of `t`: exactly the rows where the answer is true, in order, all columns -/
theorem inc_fn (t : Table) (n : Nat) (hr : t.Rect n) (hne : t ≠ []) (f : Table → Nat → Except Err Bool)
    (p : Nat → Bool) (hf : ∀ i < n, f t i = .ok (p i)) :
    t.inc (some f) [] = .ok (t.gatherRows ((List.range n).filter p)) := by
  simp only [inc, Option.isNone_some, Bool.false_and, Bool.false_eq_true, if_false, keepRows_ok hr hne (f t) p hf]
  by_cases he : ((List.range n).filter p).isEmpty = true
  · have : (List.range n).filter p = [] := by simpa using he
    rw [if_pos he, this]
    simp [incSteps, fixup, nrows, emptyLike_eq_gather]
  · rw [if_neg he]
    simp only [incSteps]
    rw [fixup_gather hne]

theorem exc_fn (t : Table) (n : Nat) (hr : t.Rect n) (hne : t ≠ []) (f : Table → Nat → Except Err Bool)
    (p : Nat → Bool) (hf : ∀ i < n, f t i = .ok (p i)) :
    t.exc (some f) [] = .ok (t.gatherRows ((List.range n).filter fun i => !p i)) := by
  have hk := keepRows_ok hr hne (fun i => (f t i).map (!·)) (fun i => !p i) (fun i hi => by simp [hf i hi, Except.map])
  simp only [exc, Option.isNone_some, Bool.false_and, Bool.false_eq_true, if_false,
    List.isEmpty_nil, Bool.not_true] at hk ⊢
  rw [hk]
  by_cases he : ((List.range n).filter fun i => !p i).isEmpty = true
  · have : (List.range n).filter (fun i => !p i) = [] := by simpa using he
    rw [if_pos he, this]
    simp [fixup, nrows, emptyLike_eq_gather]
  · rw [if_neg he]
    simp only
    rw [fixup_gather hne]

/-- **a predicate `q` of the row's cells** (`lambda a, b: ...` called with the record): `inc` keeps exactly the
records satisfying `q`, `exc` the others -/
theorem inc_rowpred (t : Table) (n : Nat) (hr : t.Rect n) (hne : t ≠ []) (q : List (String × Cell) → Bool) :
    t.inc (some fun t' i => .ok (q (rowDict t' i))) [] =
      .ok (t.gatherRows ((List.range n).filter fun i => q (rowDict t i))) :=
  inc_fn t n hr hne _ (fun i => q (rowDict t i)) (fun _ _ => rfl)

theorem exc_rowpred (t : Table) (n : Nat) (hr : t.Rect n) (hne : t ≠ []) (q : List (String × Cell) → Bool) :
    t.exc (some fun t' i => .ok (q (rowDict t' i))) [] =
      .ok (t.gatherRows ((List.range n).filter fun i => !q (rowDict t i))) :=
  exc_fn t n hr hne _ (fun i => q (rowDict t i)) (fun _ _ => rfl)

/-- `inc`/`exc` by a row predicate partition the records -/
theorem partition_rowpred (t : Table) (n : Nat) (hr : t.Rect n) (hne : t ≠ []) (q : List (String × Cell) → Bool) :
    ∃ ti te, t.inc (some fun t' i => .ok (q (rowDict t' i))) [] = .ok ti ∧
      t.exc (some fun t' i => .ok (q (rowDict t' i))) [] = .ok te ∧
      ti.cols = t.cols ∧ te.cols = t.cols ∧ ti.rows.Sublist t.rows ∧ te.rows.Sublist t.rows ∧
      (ti.rows ++ te.rows).Perm t.rows := by
  refine ⟨_, _, inc_rowpred t n hr hne q, exc_rowpred t n hr hne q, cols_gatherRows _ _, cols_gatherRows _ _, ?_, ?_, ?_⟩
  · rw [rows_gatherRows hne, rows, nrows_of_rect hr hne]; exact List.Sublist.map _ List.filter_sublist
  · rw [rows_gatherRows hne, rows, nrows_of_rect hr hne]; exact List.Sublist.map _ List.filter_sublist
  · rw [rows_gatherRows hne, rows_gatherRows hne, ← List.map_append, rows, nrows_of_rect hr hne]
    exact (List.filter_append_perm _ _).map _

/-- **idempotence for a row predicate**: the callable is evaluated again on the RESULT table, whose records
are records of `t` that satisfied it -/
theorem inc_idem_rowpred (t ti : Table) (n : Nat) (hr : t.Rect n) (hne : t ≠ []) (q : List (String × Cell) → Bool)
    (h : t.inc (some fun t' i => .ok (q (rowDict t' i))) [] = .ok ti) :
    ti.inc (some fun t' i => .ok (q (rowDict t' i))) [] = .ok ti := by
  rw [inc_rowpred t n hr hne q] at h
  cases h
  have hr' := gatherRows_rect t ((List.range n).filter fun i => q (rowDict t i))
  rw [inc_fn _ _ hr' (gatherRows_ne_nil hne _) _ (fun _ => true)]
  · rw [List.filter_eq_self.2 (fun _ _ => rfl), gatherRows_range hr']
  · intro j hj
    have hmem := List.getElem_mem hj
    have hsat := (List.mem_filter.1 hmem).2
    simp only [rowDict_gatherRows t _ j hj]
    rw [hsat]

/-- **a callable that raises** on row `i` (e.g. `TypeError`: a parameter that is not a column), having answered
on the rows before it: `inc` and `exc` raise that error, whatever the keyword conditions -/
theorem inc_fn_error (t : Table) (n : Nat) (hr : t.Rect n) (hne : t ≠ []) (f : Table → Nat → Except Err Bool)
    (conds : List (String × Cond)) (i : Nat) (hi : i < n) (e : Err) (he : f t i = .error e)
    (hb : ∀ j < i, ∃ b, f t j = .ok b) :
    t.inc (some f) conds = .error e ∧ t.exc (some f) conds = .error e := by
  constructor
  · simp only [inc, Option.isNone_some, Bool.false_and, Bool.false_eq_true, if_false,
      keepRows_error hr hne (f t) i hi e he hb]
  · have := keepRows_error hr hne (fun i => (f t i).map (!·)) i hi e (by simp [he, Except.map])
      (fun j hj => by obtain ⟨b, h⟩ := hb j hj; exact ⟨!b, by simp [h, Except.map]⟩)
    simp only [exc, Option.isNone_some, Bool.false_and, Bool.false_eq_true, if_false, this]

/-! ### exc with a key that is not a column -/

/-- **exc, missing key**: with at least one row `_row_check` reads `row[key]` and raises `KeyError` -/
theorem exc_missing_key (t : Table) (n : Nat) (hr : t.Rect n) (hne : t ≠ []) (hn : n ≠ 0)
    (conds : List (String × Cond)) (h : ∃ kc ∈ conds, t.has kc.1 = false) :
    t.exc Option.none conds = .error .key := by
  have hc : conds ≠ [] := by rintro rfl; obtain ⟨_, hm, _⟩ := h; cases hm
  obtain ⟨kc, rest, rfl⟩ := List.exists_cons_of_ne_nil hc
  have hnr := nrows_of_rect hr hne
  obtain ⟨m, rfl⟩ := Nat.exists_eq_succ_of_ne_zero hn
  have h0 : t.excFlag (kc :: rest) 0 = .error .key := by
    unfold excFlag; rw [mapE_rowCheck_missing 0 _ h]
  have hm : mapE (t.excFlag (kc :: rest)) (List.range (m + 1)) = .error .key :=
    mapE_error_at _ _ _ 0 (by simp) (by simpa using h0) (fun j hj => by cases hj)
  simp only [exc, Option.isNone_none, List.isEmpty_cons, Bool.and_false, Bool.false_eq_true, if_false,
    Bool.not_false, Bool.true_and, hnr, hm]
  simp

/-- … and without rows nothing is read: the (empty) table comes back with its columns -/
theorem exc_missing_key_empty (t : Table) (hr : t.Rect 0) (hne : t ≠ []) (conds : List (String × Cond)) :
    t.exc Option.none conds = .ok t := by
  have hnr := nrows_of_rect hr hne
  have he : t.emptyLike = t := by rw [emptyLike_eq_gather]; exact gatherRows_range (n := 0) hr
  cases conds with
  | nil => rfl
  | cons kc rest =>
    simp [exc, hnr, fixup, he]

/-! ### find_<col> -/

/-- `find_<key>(**conds)` looks at the values of column `key` in the rows `inc` selects: it raises
`ValueError` if no row is selected, returns the first value if all selected values are equal (python
`==`), and raises `ValueError` otherwise -/
theorem find_spec (t : Table) (n : Nat) (hr : t.Rect n) (key : String) (col : List Cell)
    (hcol : t.col? key = some col) (conds : List (String × Cond)) (hk : ∀ kc ∈ conds, t.has kc.1 = true) :
    t.find key Option.none conds =
      match ((List.range n).filter (t.sat conds)).map fun i => col.getD i .none with
      | [] => .error .value
      | x :: rest => if rest.all (x.valEq ·) then .ok x else .error .value := by
  have hne : t ≠ [] := by intro he; subst he; simp [col?] at hcol
  have hh : t.has key = true := (has_iff_col? t key).2 ⟨col, hcol⟩
  simp only [find, hh, Bool.not_true, Bool.false_eq_true, if_false, inc_filter t n hr conds hk,
    nrows_gatherRows hne, getColE, col?_gatherRows, hcol, Option.map_some]
  cases hidx : (List.range n).filter (t.sat conds) with
  | nil => simp
  | cons i rest => simp

/-- **find**: it returns `v` iff at least one row is selected and `v` is the first — hence, all being
equal, the unique — value of the column among the selected rows; otherwise it raises `ValueError` -/
theorem find_unique (t : Table) (n : Nat) (hr : t.Rect n) (key : String) (col : List Cell)
    (hcol : t.col? key = some col) (conds : List (String × Cond)) (hk : ∀ kc ∈ conds, t.has kc.1 = true)
    (v : Cell) :
    (t.find key Option.none conds = .ok v ↔
      ∃ rest, (((List.range n).filter (t.sat conds)).map fun i => col.getD i .none) = v :: rest ∧
        ∀ x ∈ rest, v.valEq x = true) ∧
    (∀ e, t.find key Option.none conds = .error e → e = .value) := by
  rw [find_spec t n hr key col hcol conds hk]
  cases ((List.range n).filter (t.sat conds)).map fun i => col.getD i .none with
  | nil => simp
  | cons x rest =>
    simp only
    by_cases hall : rest.all (x.valEq ·) = true
    · simp only [hall, if_true, Except.ok.injEq, List.cons.injEq]
      constructor
      · constructor
        · rintro rfl; exact ⟨rest, ⟨rfl, rfl⟩, fun y hy => List.all_eq_true.1 hall y hy⟩
        · rintro ⟨r, ⟨rfl, _⟩, _⟩; rfl
      · intro e h; cases h
    · simp only [hall]
      constructor
      · constructor
        · intro h; cases h
        · rintro ⟨r, h1, h2⟩
          simp only [List.cons.injEq] at h1
          obtain ⟨rfl, rfl⟩ := h1
          exact absurd (List.all_eq_true.2 h2) hall
      · intro e h; cases h; rfl

/-- `find_<key>(f)` with a callable that answers `p i` on every row: the same reading as `find_spec` -/
theorem find_fn (t : Table) (n : Nat) (hr : t.Rect n) (key : String) (col : List Cell)
    (hcol : t.col? key = some col) (f : Table → Nat → Except Err Bool) (p : Nat → Bool)
    (hf : ∀ i < n, f t i = .ok (p i)) :
    t.find key (some f) [] =
      match ((List.range n).filter p).map fun i => col.getD i .none with
      | [] => .error .value
      | x :: rest => if rest.all (x.valEq ·) then .ok x else .error .value := by
  have hne : t ≠ [] := by intro he; subst he; simp [col?] at hcol
  have hh : t.has key = true := (has_iff_col? t key).2 ⟨col, hcol⟩
  simp only [find, hh, Bool.not_true, Bool.false_eq_true, if_false, inc_fn t n hr hne f p hf,
    nrows_gatherRows hne, getColE, col?_gatherRows, hcol, Option.map_some]
  cases hidx : (List.range n).filter p with
  | nil => simp
  | cons i rest => simp

/-! ### what the conditions mean (independent of `Cond.test`'s definition) -/

/-- equality of cells as values, spelled out: both NaN, both None, the same string / datetime / infinity, or
numbers (bools, ints, floats in quarters) of equal value; nothing else -/
def sameValue : Cell → Cell → Prop
  | .nan, .nan => True
  | .none, .none => True
  | .pinf, .pinf => True
  | .ninf, .ninf => True
  | .str a, .str b => a = b
  | .dt a, .dt b => a = b
  | a, b =>
    let num : Cell → Option Int := fun c => match c with
      | .bool b => some (if b then 4 else 0) | .int n => some (4 * n) | .flt q => some q | _ => Option.none
    ∃ x, num a = some x ∧ num b = some x

theorem valEq_iff (a b : Cell) : a.valEq b = true ↔ sameValue a b := by
  cases a <;> cases b <;> simp [Cell.valEq, Cell.pyEq, sameValue] <;> (try decide) <;> (try omega)

/-- the NaN condition holds of NaN cells only (not of ±inf, not of None) -/
theorem isNaN_iff (c : Cell) : Cond.isNaN.test c = true ↔ c = .nan := by simp [Cond.test]

theorem isNone_iff (c : Cell) : Cond.isNone.test c = true ↔ c = .none := by simp [Cond.test]

/-- a list of admissible values: the cell has the same value as one of them (so a NaN cell is selected iff
NaN is admissible, whichever objects hold the NaNs; `1`, `1.0` and `True` are one value) -/
theorem oneOf_iff (vs : List Cell) (c : Cell) : (Cond.oneOf vs).test c = true ↔ ∃ v ∈ vs, sameValue v c := by
  simp [Cond.test, valEq_iff]

/-- a regex condition never holds of a cell that is not a string, and is the search function on strings -/
theorem regex_iff (m : String → Bool) (c : Cell) : (Cond.regex m).test c = true ↔ ∃ s, c = .str s ∧ m s = true := by
  cases c <;> simp [Cond.test]

/-- a scalar keyword value `v` (not None, not NaN) means "the cell has the value `v`" -/
theorem ofValue_one (v c : Cell) (h1 : v ≠ .none) (h2 : v ≠ .nan) :
    (Cond.ofValue (.one v)).test c = true ↔ sameValue v c := by
  cases v <;> simp_all [Cond.ofValue, Cond.test, valEq_iff]

/-! ### the driver's regex matcher on literal patterns is substring search -/

theorem matchAt_lit (r : RePat) (he : r.eol = false) (hi : r.icase = false) (p cs : List Char) :
    r.matchAt (p.map some) cs = p.isPrefixOf cs := by
  induction p generalizing cs with
  | nil => simp [RePat.matchAt, he]
  | cons a p ih =>
    cases cs with
    | nil => simp [RePat.matchAt]
    | cons c cs => simp [RePat.matchAt, hi, ih cs, List.isPrefixOf]

/-- a literal pattern (no `^ $ .`, no flag): `search` is substring containment, Python's `p in s` -/
theorem search_lit (p s : String) : (RePat.lit p).search s = infixB p.toList s.toList := by
  simp only [RePat.search, RePat.lit, Bool.false_eq_true, if_false]
  induction s.toList with
  | nil => cases p.toList <;> simp [tailsOf, infixB, RePat.matchAt]
  | cons c cs ih => simp [tailsOf, infixB, matchAt_lit, ih]

/-! ### non-vacuity -/

def tbl : Table := [("a", [.int 1, .none, .flt 4, .nan, .str "x1"]), ("b", [.str "x", .str "y", .none, .str "xy", .int 2])]

example : tbl.Rect 5 ∧ tbl ≠ [] ∧ tbl.has "a" = true ∧ tbl.has "b" = true := by decide
example : tbl.sat [("a", .oneOf [.int 1]), ("b", .regex (RePat.lit "x").search)] 0 = true := by decide
/-- `1 == 1.0`: the int 1 and the float 1.0 (`flt 4`) both match -/
example : tbl.inc Option.none [("a", .oneOf [.int 1])] = .ok [("a", [.int 1, .flt 4]), ("b", [.str "x", .none])] := by rfl
example : tbl.exc Option.none [("a", .oneOf [.int 1])] =
    .ok [("a", [.none, .nan, .str "x1"]), ("b", [.str "y", .str "xy", .int 2])] := by rfl
example : tbl.inc Option.none [("a", .isNaN), ("b", .regex (RePat.lit "y").search)] = .ok [("a", [.nan]), ("b", [.str "xy"])] := by rfl
example : tbl.inc Option.none [("a", .oneOf [])] = .ok [("a", []), ("b", [])] := by rfl
example : tbl.find "b" Option.none [("a", .isNone)] = .ok (.str "y") := by rfl
example : tbl.find "b" Option.none [("a", .oneOf [.int 1])] = .error .value := by rfl
example : tbl.find "b" Option.none [("a", .oneOf [.int 99])] = .error .value := by rfl


/-- a predicate of the row's cells: `lambda a, b: a is None or b == 'x'` -/
def qrow (r : List (String × Cell)) : Bool := (r.lookup "a" == some .none) || (r.lookup "b" == some (.str "x"))
example : tbl.inc (some fun t' i => .ok (qrow (rowDict t' i))) [] =
    .ok [("a", [.int 1, .none]), ("b", [.str "x", .str "y"])] := by rfl
example : tbl.exc (some fun t' i => .ok (qrow (rowDict t' i))) [] =
    .ok [("a", [.flt 4, .nan, .str "x1"]), ("b", [.none, .str "xy", .int 2])] := by rfl
/-- `inc_fn_error`: the menu callable `lambda q: q is None` on a table without a column `q` raises on row 0 -/
example : (Pred.isNone "q").eval tbl 0 = .error .type ∧ tbl.inc (some (Pred.isNone "q").eval) [] = .error .type := by
  constructor <;> rfl
example : tbl.find "b" (some fun t' i => .ok (qrow (rowDict t' i))) [] = .error .value := by rfl
/-- `exc_missing_key` / `exc_missing_key_empty` -/
example : tbl.exc Option.none [("a", .isNone), ("q", .isNone)] = .error .key := by rfl
example : Table.exc [("a", [])] Option.none [("q", .isNone)] = .ok [("a", [])] := by rfl
/-- NaN: a NaN cell is selected by a list holding NaN; ±inf are values, not NaN -/
example : (Cond.oneOf [.nan, .int 5]).test .nan = true ∧ Cond.isNaN.test .pinf = false ∧
    (Cond.ofValue (.one .pinf)).test .pinf = true ∧ (Cond.ofValue (.one .pinf)).test .nan = false := by decide
example : Table.find [("x", [.nan, .nan]), ("y", [.int 1, .int 1])] "x" Option.none [("y", .oneOf [.int 1])] = .ok .nan := by rfl
/-- the driver's patterns: `^x`, `a.c`, `x` with re.I -/
example : (RePat.mk true false false [some 'x']).search "xa" = true ∧ (RePat.mk true false false [some 'x']).search "ax" = false ∧
    (RePat.mk false false false [some 'a', Option.none, some 'c']).search "zaxcz" = true ∧
    (RePat.mk false true true [some 'x']).search "aX" = true ∧ (RePat.mk false true false [some 'x']).search "xa" = false := by
  decide

/-! ## round h1: find_ with a missing column / filter key, dict filters are `dict.update` -/

/-- **find_<col>, `<col>` is not a column**: `KeyError` whatever the conditions (line 160) -/
theorem find_missing_col (t : Table) (key : String) (fn : Option (Table → Nat → Except Err Bool))
    (conds : List (String × Cond)) (h : t.has key = false) : t.find key fn conds = .error .key := by
  simp [find, h]

/-- **find_<col>, a FILTER key is not a column**: the `KeyError` of `inc` (`inc_missing_key`) is what `find_` raises -/
theorem find_missing_filter_key (t : Table) (n : Nat) (hr : t.Rect n) (hne : t ≠ []) (key : String)
    (pre post : List (String × Cond)) (k : String) (c : Cond)
    (hkey : t.has key = true) (hpre : ∀ kc ∈ pre, t.has kc.1 = true) (hk : t.has k = false) :
    t.find key Option.none (pre ++ (k, c) :: post) = .error .key := by
  simp only [find, hkey, Bool.not_true, Bool.false_eq_true, if_false, inc_missing_key t n hr hne pre post k c hpre hk]

/-- one `filters.update` step, looked up -/
theorem find?_mergeStep (acc : List (String × Cond)) (kc : String × Cond) (k : String) :
    ((acc.map fun x => if x.1 == kc.1 then kc else x).find? (·.1 == k)) =
      if kc.1 = k then (if acc.any (·.1 == kc.1) then some kc else Option.none) else acc.find? (·.1 == k) := by
  induction acc with
  | nil => by_cases h : kc.1 = k <;> simp [h]
  | cons x xs ih =>
    by_cases hx : x.1 = kc.1
    · by_cases hk : kc.1 = k
      · simp [hx, hk]
      · have hxk : ¬ x.1 = k := by rw [hx]; exact hk
        have h1 : (kc.1 == k) = false := by simpa using hk
        have h2 : (x.1 == k) = false := by simpa using hxk
        simp only [List.map_cons, hx, beq_self_eq_true, if_true, List.find?_cons, hk, if_false, h1]
        rw [ih, if_neg hk]
    · have hx' : (x.1 == kc.1) = false := by simpa using hx
      by_cases hxk : x.1 = k
      · have hk : ¬ kc.1 = k := by intro h; exact hx (hxk.trans h.symm)
        have h2 : (x.1 == k) = true := by simpa using hxk
        simp only [List.map_cons, hx', Bool.false_eq_true, if_false, List.find?_cons, h2, if_neg hk]
      · have h2 : (x.1 == k) = false := by simpa using hxk
        simp only [List.map_cons, hx', Bool.false_eq_true, if_false, List.find?_cons, h2, List.any_cons, Bool.false_or]
        exact ih

/-- **dict filters are `dict.update`** (`filters.update(function)` for a dict among the positional arguments): looking a column up in the merged
conditions gives the DICT's condition when the dict has the key (its last entry, were there several), else the keyword's.  Stated through lookup
(`find?`), independent of how `mergeConds` folds. -/
theorem mergeConds_lookup (kw dc : List (String × Cond)) (k : String) :
    ((mergeConds kw dc).find? (·.1 == k)) =
      match dc.reverse.find? (·.1 == k) with
      | some kc => some kc
      | Option.none => kw.find? (·.1 == k) := by
  unfold mergeConds
  induction dc generalizing kw with
  | nil => simp
  | cons kc rest ih =>
    rw [List.foldl_cons, ih, List.reverse_cons, List.find?_append]
    cases hrest : rest.reverse.find? (·.1 == k) with
    | some r => simp
    | none =>
      simp only [Option.none_or, List.find?_cons, List.find?_nil]
      by_cases hk : kc.1 = k
      · have h1 : (kc.1 == k) = true := by simpa using hk
        rw [h1]
        simp only
        split
        · rename_i hany
          rw [find?_mergeStep, if_pos hk, if_pos hany]
        · rename_i hany
          have hnone : kw.find? (·.1 == k) = Option.none := by
            rw [List.find?_eq_none]
            intro x hx hxk
            apply hany
            rw [List.any_eq_true]
            exact ⟨x, hx, by simpa [hk] using hxk⟩
          rw [List.find?_append, hnone]
          simp [h1]
      · have h1 : (kc.1 == k) = false := by simpa using hk
        rw [h1]
        simp only
        split
        · rw [find?_mergeStep, if_neg hk]
        · rw [List.find?_append]
          simp [h1]

example : mergeConds [("a", .isNone), ("b", .isNaN)] [("b", .isNone), ("c", .isNaN), ("b", .oneOf [])] =
    [("a", .isNone), ("b", .oneOf []), ("c", .isNaN)] := by rfl

/-! ### `one_or_none` (round k1: it was sampled by a law only) -/

theorem rowD_eq_rowDict (t : Table) (i : Nat) : t.rowD i = rowDict t i := rfl

/-- positions of a list whose element satisfies `p`, read back through the list, are the filtered list -/
theorem map_getD_filter_range (idx : List Nat) (p : Nat → Bool) :
    ((List.range idx.length).filter fun j => p (idx[j]?.getD 0)).map (fun j => idx[j]?.getD 0) = idx.filter p := by
  induction idx with
  | nil => rfl
  | cons a rest ih =>
    rw [List.length_cons, List.range_succ_eq_map, List.filter_cons]
    simp only [List.filter_map, List.getElem?_cons_zero, Option.getD_some]
    have : ((List.range rest.length).filter ((fun j => p ((a :: rest)[j]?.getD 0)) ∘ Nat.succ)).map
        ((fun j => (a :: rest)[j]?.getD 0) ∘ Nat.succ) = rest.filter p := by
      simpa [Function.comp_def] using ih
    rw [List.filter_cons]
    split <;> simp [this]

/-- the rows `one_or_none` looks at: those satisfying every condition and - when an `exc` dict is given - not all of its conditions -/
def oneSel (t : Table) (n : Nat) (conds excs : List (String × Cond)) : List Nat :=
  (List.range n).filter fun i => t.sat conds i && !(!excs.isEmpty && t.sat excs i)

/-- `inc` followed by `exc` is ONE gather of the table at `oneSel` -/
theorem one_or_none_rows (t : Table) (n : Nat) (hr : t.Rect n) (conds excs : List (String × Cond))
    (hk : ∀ kc ∈ conds, t.has kc.1 = true) (hke : ∀ kc ∈ excs, t.has kc.1 = true) (find : Option String) :
    t.oneOrNone Option.none conds excs find = oneOf (t.gatherRows (oneSel t n conds excs)) find := by
  unfold oneOrNone
  rw [inc_filter t n hr conds hk]
  by_cases he : excs = []
  · subst he
    simp only [List.isEmpty_nil, if_true, oneSel, Bool.not_true, Bool.false_and, Bool.not_false, Bool.and_true]
  · have hr' := gatherRows_rect t ((List.range n).filter (t.sat conds))
    have hke' : ∀ kc ∈ excs, (t.gatherRows ((List.range n).filter (t.sat conds))).has kc.1 = true := by
      intro kc hkc
      obtain ⟨col, hcol⟩ := (has_iff_col? t kc.1).1 (hke kc hkc)
      exact (has_iff_col? _ _).2 ⟨_, by rw [col?_gatherRows, hcol]; rfl⟩
    have hie : excs.isEmpty = false := by cases excs <;> simp_all
    simp only [hie, Bool.false_eq_true, if_false]
    rw [exc_filter _ _ hr' excs he hke']
    simp only
    rw [gatherRows_gatherRows _ _ _ (by intro j hj; simpa using (List.mem_filter.1 hj).1)]
    congr 2
    have hsat : ∀ j, j ∈ List.range ((List.range n).filter (t.sat conds)).length →
        (!(t.gatherRows ((List.range n).filter (t.sat conds))).sat excs j) =
        (fun i => !t.sat excs i) (((List.range n).filter (t.sat conds)).getD j 0) := by
      intro j hj
      have hj' : j < ((List.range n).filter (t.sat conds)).length := by simpa using hj
      rw [sat_gatherRows t _ excs hke j hj']
      simp [List.getD_eq_getElem?_getD, hj']
    rw [List.filter_congr hsat]
    have hm := map_getD_filter_range ((List.range n).filter (t.sat conds)) (fun i => !t.sat excs i)
    simp only [List.getD_eq_getElem?_getD]
    rw [hm, List.filter_filter]
    simp only [oneSel, hie, Bool.not_false, Bool.true_and]
    apply List.filter_congr
    intro i _
    rw [Bool.and_comm]

theorem nrows_gatherRows {t : Table} (hne : t ≠ []) (idx : List Nat) : (t.gatherRows idx).nrows = idx.length :=
  nrows_of_rect (gatherRows_rect t idx) (gatherRows_ne_nil hne idx)

/-- **one_or_none, no row**: `None` exactly when no row satisfies the conditions without satisfying the exclusion -/
theorem one_or_none_none (t : Table) (n : Nat) (hr : t.Rect n) (hne : t ≠ []) (conds excs : List (String × Cond))
    (hk : ∀ kc ∈ conds, t.has kc.1 = true) (hke : ∀ kc ∈ excs, t.has kc.1 = true) (find : Option String)
    (h : oneSel t n conds excs = []) :
    t.oneOrNone Option.none conds excs find = .ok .none := by
  rw [one_or_none_rows t n hr conds excs hk hke, oneOf, nrows_gatherRows hne, h]
  rfl

/-- **one_or_none, one row** `i`: that row as a dict (every column, the cells of row `i`), or its `find` cell -/
theorem one_or_none_one (t : Table) (n : Nat) (hr : t.Rect n) (hne : t ≠ []) (conds excs : List (String × Cond))
    (hk : ∀ kc ∈ conds, t.has kc.1 = true) (hke : ∀ kc ∈ excs, t.has kc.1 = true) (find : Option String) (i : Nat)
    (h : oneSel t n conds excs = [i]) :
    t.oneOrNone Option.none conds excs find = pickRow (rowDict t i) find := by
  rw [one_or_none_rows t n hr conds excs hk hke, oneOf, nrows_gatherRows hne, h, rowD_eq_rowDict,
    rowDict_gatherRows t [i] 0 (by simp)]
  rfl

/-- **one_or_none, several rows**: ValueError, whatever `find` -/
theorem one_or_none_many (t : Table) (n : Nat) (hr : t.Rect n) (hne : t ≠ []) (conds excs : List (String × Cond))
    (hk : ∀ kc ∈ conds, t.has kc.1 = true) (hke : ∀ kc ∈ excs, t.has kc.1 = true) (find : Option String)
    (h : 2 ≤ (oneSel t n conds excs).length) :
    t.oneOrNone Option.none conds excs find = .error .value := by
  rw [one_or_none_rows t n hr conds excs hk hke, oneOf, nrows_gatherRows hne]
  simp only [gt_iff_lt]
  rw [if_pos (by omega)]

/-- the three cases are exhaustive and each is forced: the answer determines how many rows were selected -/
theorem one_or_none_iff (t : Table) (n : Nat) (hr : t.Rect n) (hne : t ≠ []) (conds excs : List (String × Cond))
    (hk : ∀ kc ∈ conds, t.has kc.1 = true) (hke : ∀ kc ∈ excs, t.has kc.1 = true) :
    (t.oneOrNone Option.none conds excs Option.none = .ok .none ↔ oneSel t n conds excs = []) ∧
    (t.oneOrNone Option.none conds excs Option.none = .error .value ↔ 2 ≤ (oneSel t n conds excs).length) ∧
    (∀ r, t.oneOrNone Option.none conds excs Option.none = .ok (.row r) ↔ ∃ i, oneSel t n conds excs = [i] ∧ r = rowDict t i) := by
  rcases hs : oneSel t n conds excs with _ | ⟨i, _ | ⟨j, rest⟩⟩
  · rw [one_or_none_none t n hr hne conds excs hk hke _ hs]
    simp
  · rw [one_or_none_one t n hr hne conds excs hk hke _ i hs]
    simp [pickRow, eq_comm]
  · rw [one_or_none_many t n hr hne conds excs hk hke _ (by rw [hs]; simp)]
    simp

/-- `find = k` for a column `k` of the table: the cell of that column in the selected row (`d[k][i]`) -/
theorem pickRow_find (t : Table) (i : Nat) (k : String) (col : List Cell) (hk : t.col? k = some col) (hne : k ≠ "") :
    pickRow (rowDict t i) (some k) = .ok (.cell (col.getD i .none)) := by
  have : (rowDict t i).lookup k = some (col.getD i .none) := by
    unfold rowDict
    induction t with
    | nil => simp [Table.col?] at hk
    | cons c rest ih =>
      simp only [Table.col?, List.find?_cons] at hk
      simp only [List.map_cons, List.lookup_cons]
      by_cases hc : c.1 = k
      · simp only [hc, beq_self_eq_true, Option.map_some, Option.some.injEq] at hk
        simp [hc, hk]
      · have hc' : (k == c.1) = false := by rw [beq_eq_false_iff_ne]; exact fun h => hc h.symm
        have hc'' : (c.1 == k) = false := by simpa using hc
        simp only [hc''] at hk
        rw [hc']
        exact ih hk
  simp [pickRow, hne, this]

/-- … and a `find` that is not a column raises KeyError (once exactly one row is selected) -/
theorem pickRow_missing (t : Table) (i : Nat) (k : String) (hk : t.has k = false) (hne : k ≠ "") :
    pickRow (rowDict t i) (some k) = .error .key := by
  have : (rowDict t i).lookup k = Option.none := by
    unfold rowDict
    induction t with
    | nil => rfl
    | cons c rest ih =>
      simp only [Table.has, List.any_cons, Bool.or_eq_false_iff] at hk
      simp only [List.map_cons, List.lookup_cons]
      have hc' : (k == c.1) = false := by
        have := hk.1; rw [beq_eq_false_iff_ne] at this ⊢; exact fun h => this h.symm
      rw [hc']
      exact ih hk.2
  simp [pickRow, hne, this]

example : tbl.oneOrNone Option.none [("a", .isNone)] [] Option.none =
    .ok (.row [("a", .none), ("b", .str "y")]) := rfl
example : tbl.oneOrNone Option.none [] [("a", .oneOf [.int 1, .flt 4, .nan])] (some "b") = .error .value := rfl
example : tbl.oneOrNone Option.none [("b", .oneOf [.str "x", .str "y"])] [("a", .isNone)] (some "a") = .ok (.cell (.int 1)) := rfl
example : tbl.oneOrNone Option.none [("b", .oneOf [.int 7])] [] Option.none = .ok .none := rfl


/-! ### callables returning something else than a bool (round k1) -/

/-- python's falsy scalars -/
def Falsy (c : Cell) : Prop := c = .none ∨ c = .bool false ∨ c = .int 0 ∨ c = .flt 0 ∨ c = .str ""

/-- `bool(v)` is False exactly for `None`, `False`, `0`, `0.0` (and `-0.0`), `''` - NaN, ±inf, datetimes, every other number and
every non-empty string are truthy -/
theorem truthy_iff (c : Cell) : c.truthy = false ↔ Falsy c := by
  unfold Falsy
  cases c <;> simp [Cell.truthy]

/-- **a callable returning any VALUE** `v (row)`: `inc` keeps exactly the records whose value is truthy, `exc` the falsy ones,
and they partition the table (`partition_rowpred` with `q = truthy ∘ v`) -/
theorem inc_rowval (t : Table) (n : Nat) (hr : t.Rect n) (hne : t ≠ []) (v : List (String × Cell) → Cell) :
    t.inc (some fun t' i => .ok (v (rowDict t' i)).truthy) [] =
      .ok (t.gatherRows ((List.range n).filter fun i => (v (rowDict t i)).truthy)) ∧
    t.exc (some fun t' i => .ok (v (rowDict t' i)).truthy) [] =
      .ok (t.gatherRows ((List.range n).filter fun i => !(v (rowDict t i)).truthy)) :=
  ⟨inc_rowpred t n hr hne fun r => (v r).truthy, exc_rowpred t n hr hne fun r => (v r).truthy⟩

/-- a row is dropped by `inc(f)` (kept by `exc(f)`) iff `f` returned one of the five falsy scalars on it -/
theorem inc_rowval_mem (t : Table) (n : Nat) (v : List (String × Cell) → Cell) (i : Nat) :
    i ∈ (List.range n).filter (fun i => (v (rowDict t i)).truthy) ↔ i < n ∧ ¬ Falsy (v (rowDict t i)) := by
  rw [List.mem_filter, List.mem_range, ← truthy_iff]
  simp

/-- the menu's `lambda a: a`, `lambda a, b: a or b`, `lambda: c` ARE such callables: `Pred.eval` is the truthiness of the returned cell -/
theorem pred_ident_eval (t : Table) (i : Nat) (a : String) (x : Cell) (h : t.cellAt i a = some x) :
    (Pred.ident a).eval t i = .ok x.truthy := by
  simp [Pred.eval, h]

theorem pred_orElse_eval (t : Table) (i : Nat) (a b : String) (x y : Cell) (ha : t.cellAt i a = some x) (hb : t.cellAt i b = some y) :
    (Pred.orElse a b).eval t i = .ok (if x.truthy then x else y).truthy := by
  simp only [Pred.eval, ha, hb]
  split <;> simp_all

example : tbl.inc (some (Pred.ident "a").eval) [] = .ok [("a", [.int 1, .flt 4, .nan, .str "x1"]), ("b", [.str "x", .none, .str "xy", .int 2])] := by rfl
example : tbl.exc (some (Pred.orElse "a" "b").eval) [] = .ok [("a", []), ("b", [])] := by rfl

end Pyg.Props.C06
