/-
  C06 — inc and exc partition a table; both keep the columns and the row order; find_<col>.
  Property theorems only (helper lemmas: PygProofs/Lemmas/FilterLemmas.lean).

  `Table.sat t conds i` says that row `i` of `t` satisfies every column condition of `conds`
  (`Cond.test` is `_row_check`: `is None`, `is_nan`, literal-regex search, membership under python `==`).
  All theorems are about the model `Table.inc / exc / find` of PygModel/Filter.lean, which follows the
  code's sequential masks, `and_` + negation and the empty-result fix-ups, for EVERY rectangular table,
  every list of conditions on existing columns and every total row predicate.
    * inc = exactly the satisfying rows, in order, all columns ........ `inc_filter`, `inc_rows`
    * exc = exactly the others, in order, all columns ................. `exc_filter`, `exc_rows`
    * together they partition the table ............................... `partition`
    * columns kept even when no row survives .......................... `cols_kept`, `inc_nothing`
    * inc with no condition is the identity ........................... `inc_nil`
    * inc is idempotent ............................................... `inc_idem`
    * single callables ................................................ `inc_pred`, `exc_pred`, `partition_pred`
    * find_<col> ...................................................... `find_unique`, `find_spec`
-/
import PygProofs.Lemmas.FilterLemmas

namespace Pyg.Props.C06
open Pyg Table

/-- `inc` with no condition is the identity -/
theorem inc_nil (t : Table) : t.inc Option.none [] = .ok t := rfl

/-- **inc**: the result is the table gathered at exactly the row indices (ascending) whose rows satisfy
all conditions — whatever the number of conditions, including none -/
theorem inc_filter (t : Table) (n : Nat) (hr : t.Rect n) (conds : List (String × Cond))
    (hk : ∀ kc ∈ conds, t.has kc.1 = true) :
    t.inc Option.none conds = .ok (t.gatherRows ((List.range n).filter (t.sat conds))) := by
  cases conds with
  | nil =>
    have : (List.range n).filter (t.sat []) = List.range n := List.filter_eq_self.2 (fun _ _ => rfl)
    rw [this, gatherRows_range hr]; rfl
  | cons kc conds =>
    have hne : t ≠ [] := ne_nil_of_has (hk kc List.mem_cons_self)
    have h := incSteps_gather hne (kc :: conds) hk (List.range n)
    rw [gatherRows_range hr] at h
    simp only [inc, Option.isNone_none, List.isEmpty_cons, Bool.and_false, Bool.false_eq_true, if_false, h]
    rw [fixup_gather hne]

/-- **exc**: the table gathered at exactly the other row indices (at least one condition) -/
theorem exc_filter (t : Table) (n : Nat) (hr : t.Rect n) (conds : List (String × Cond)) (hc : conds ≠ [])
    (hk : ∀ kc ∈ conds, t.has kc.1 = true) :
    t.exc Option.none conds = .ok (t.gatherRows ((List.range n).filter fun i => !t.sat conds i)) := by
  obtain ⟨kc, rest, rfl⟩ := List.exists_cons_of_ne_nil hc
  have hne : t ≠ [] := ne_nil_of_has (hk kc List.mem_cons_self)
  have hn := nrows_of_rect hr hne
  simp only [exc, Option.isNone_none, List.isEmpty_cons, Bool.and_false, Bool.false_eq_true, if_false,
    Bool.not_false, Bool.true_and, hn]
  by_cases h0 : n = 0
  · subst h0
    simp only [bne_self_eq_false, Bool.false_eq_true, if_false]
    have : t.fixup t = t.emptyLike := by simp [fixup, hn]
    rw [this, emptyLike_eq_gather]; rfl
  · have : (n != 0) = true := by simpa using h0
    simp only [this, if_true]
    rw [mapE_of_ok (g := fun i => !t.sat (kc :: rest) i) (fun i _ => excFlag_ok _ hk i)]
    simp only
    have hg := getMask_gather hne (List.range n) ((List.range n).map fun i => !t.sat (kc :: rest) i) (by simp)
    rw [gatherRows_range hr] at hg
    rw [hg]
    simp only
    have := positions_filter (List.range n) (fun i => !t.sat (kc :: rest) i) 0
    simp only [List.length_range] at this ⊢
    rw [this, fixup_gather hne]

/-- the list-of-records reading of `inc_filter`: all columns, the satisfying records in original order -/
theorem inc_rows (t : Table) (n : Nat) (hr : t.Rect n) (hne : t ≠ []) (conds : List (String × Cond))
    (hk : ∀ kc ∈ conds, t.has kc.1 = true) :
    ∃ t', t.inc Option.none conds = .ok t' ∧ t'.cols = t.cols ∧ (∃ m, t'.Rect m) ∧
      t'.rows = ((List.range n).filter (t.sat conds)).map t.row ∧ t'.rows.Sublist t.rows :=
  ⟨_, inc_filter t n hr conds hk, cols_gatherRows _ _, ⟨_, gatherRows_rect _ _⟩, rows_gatherRows hne _, by
    rw [rows_gatherRows hne, rows, nrows_of_rect hr hne]
    exact List.Sublist.map _ List.filter_sublist⟩

theorem exc_rows (t : Table) (n : Nat) (hr : t.Rect n) (conds : List (String × Cond)) (hc : conds ≠ [])
    (hk : ∀ kc ∈ conds, t.has kc.1 = true) :
    ∃ t', t.exc Option.none conds = .ok t' ∧ t'.cols = t.cols ∧ (∃ m, t'.Rect m) ∧
      t'.rows = ((List.range n).filter fun i => !t.sat conds i).map t.row ∧ t'.rows.Sublist t.rows := by
  obtain ⟨kc, rest, rfl⟩ := List.exists_cons_of_ne_nil hc
  have hne : t ≠ [] := ne_nil_of_has (hk kc List.mem_cons_self)
  exact ⟨_, exc_filter t n hr _ hc hk, cols_gatherRows _ _, ⟨_, gatherRows_rect _ _⟩, rows_gatherRows hne _, by
    rw [rows_gatherRows hne, rows, nrows_of_rect hr hne]
    exact List.Sublist.map _ List.filter_sublist⟩

/-- **partition**: for one or more column conditions, `inc` and `exc` return tables with all of the
table's columns whose records are complementary sub-sequences of the table's records: every record goes
to exactly one of them (the concatenation is a permutation of the records, the lengths add up) and both
keep the original relative order. -/
theorem partition (t : Table) (n : Nat) (hr : t.Rect n) (conds : List (String × Cond)) (hc : conds ≠ [])
    (hk : ∀ kc ∈ conds, t.has kc.1 = true) :
    ∃ ti te, t.inc Option.none conds = .ok ti ∧ t.exc Option.none conds = .ok te ∧
      ti.cols = t.cols ∧ te.cols = t.cols ∧
      ti.rows.Sublist t.rows ∧ te.rows.Sublist t.rows ∧
      (ti.rows ++ te.rows).Perm t.rows ∧ ti.rows.length + te.rows.length = n := by
  obtain ⟨kc, rest, rfl⟩ := List.exists_cons_of_ne_nil hc
  have hne : t ≠ [] := ne_nil_of_has (hk kc List.mem_cons_self)
  obtain ⟨ti, h1, h2, _, h3, h4⟩ := inc_rows t n hr hne _ hk
  obtain ⟨te, g1, g2, _, g3, g4⟩ := exc_rows t n hr _ hc hk
  have hp : (ti.rows ++ te.rows).Perm t.rows := by
    rw [h3, g3, ← List.map_append, rows, nrows_of_rect hr hne]
    exact (List.filter_append_perm _ _).map _
  refine ⟨ti, te, h1, g1, h2, g2, h4, g4, hp, ?_⟩
  have := hp.length_eq
  rw [List.length_append, rows_length hr hne] at this
  exact this

/-- both results carry all of the table's columns, whatever survives -/
theorem cols_kept (t : Table) (n : Nat) (hr : t.Rect n) (conds : List (String × Cond)) (hc : conds ≠ [])
    (hk : ∀ kc ∈ conds, t.has kc.1 = true) :
    (∀ ti, t.inc Option.none conds = .ok ti → ti.cols = t.cols) ∧
    (∀ te, t.exc Option.none conds = .ok te → te.cols = t.cols) := by
  constructor
  · intro ti h; rw [inc_filter t n hr conds hk] at h; cases h; exact cols_gatherRows _ _
  · intro te h; rw [exc_filter t n hr conds hc hk] at h; cases h; exact cols_gatherRows _ _

/-- a condition no row satisfies: `inc` returns the table's columns with no rows, `exc` the table -/
theorem inc_nothing (t : Table) (n : Nat) (hr : t.Rect n) (conds : List (String × Cond)) (hc : conds ≠ [])
    (hk : ∀ kc ∈ conds, t.has kc.1 = true) (hno : ∀ i < n, t.sat conds i = false) :
    t.inc Option.none conds = .ok t.emptyLike ∧ t.exc Option.none conds = .ok t := by
  constructor
  · rw [inc_filter t n hr conds hk, emptyLike_eq_gather]
    congr 2
    apply List.filter_eq_nil_iff.2
    intro i hi; simp [hno i (by simpa using hi)]
  · rw [exc_filter t n hr conds hc hk]
    have : (List.range n).filter (fun i => !t.sat conds i) = List.range n := by
      apply List.filter_eq_self.2
      intro i hi; simp [hno i (by simpa using hi)]
    rw [this, gatherRows_range hr]

/-- **idempotence**: filtering the result of `inc` again with the same conditions changes nothing -/
theorem inc_idem (t ti : Table) (n : Nat) (hr : t.Rect n) (conds : List (String × Cond))
    (hk : ∀ kc ∈ conds, t.has kc.1 = true) (h : t.inc Option.none conds = .ok ti) :
    ti.inc Option.none conds = .ok ti := by
  rw [inc_filter t n hr conds hk] at h
  cases h
  have hr' := gatherRows_rect t ((List.range n).filter (t.sat conds))
  have hk' : ∀ kc ∈ conds, (t.gatherRows ((List.range n).filter (t.sat conds))).has kc.1 = true := by
    intro kc hkc
    obtain ⟨col, hcol⟩ := (has_iff_col? t kc.1).1 (hk kc hkc)
    exact (has_iff_col? _ _).2 ⟨_, by rw [col?_gatherRows, hcol]; rfl⟩
  rw [inc_filter _ _ hr' conds hk']
  have hall : (List.range ((List.range n).filter (t.sat conds)).length).filter
      ((t.gatherRows ((List.range n).filter (t.sat conds))).sat conds) =
      List.range ((List.range n).filter (t.sat conds)).length := by
    apply List.filter_eq_self.2
    intro j hj
    have hj' : j < ((List.range n).filter (t.sat conds)).length := by simpa using hj
    -- row j of the result is row idx[j] of the table, which satisfies the conditions
    have hmem : ((List.range n).filter (t.sat conds))[j] ∈ (List.range n).filter (t.sat conds) :=
      List.getElem_mem hj'
    have hsat := (List.mem_filter.1 hmem).2
    rw [sat_gatherRows t _ conds hk j hj']
    exact hsat
  rw [hall, gatherRows_range hr']

/-- a filter on a column that is not there: `inc` raises `KeyError` (the conditions before it having
been applied), whatever the rows -/
theorem inc_missing_key (t : Table) (n : Nat) (hr : t.Rect n) (hne : t ≠ []) (pre post : List (String × Cond))
    (k : String) (c : Cond) (hpre : ∀ kc ∈ pre, t.has kc.1 = true) (hk : t.has k = false) :
    t.inc Option.none (pre ++ (k, c) :: post) = .error .key := by
  have hsplit : ∀ (res : Table) (a b : List (String × Cond)),
      res.incSteps (a ++ b) = match res.incSteps a with | .error e => .error e | .ok r => r.incSteps b := by
    intro res a
    induction a generalizing res with
    | nil => intro b; rfl
    | cons x xs ih =>
      intro b
      simp only [List.cons_append, incSteps]
      cases res.incStep x with
      | error e => rfl
      | ok r => exact ih r b
  have hg := incSteps_gather hne pre hpre (List.range n)
  rw [gatherRows_range hr] at hg
  have hcond : ((Option.none : Option (Table → Nat → Except Err Bool)).isNone &&
      (pre ++ (k, c) :: post).isEmpty) = false := by
    cases pre <;> simp
  unfold inc
  rw [hcond]
  simp only [Bool.false_eq_true, if_false]
  rw [hsplit, hg]
  simp only [incSteps, incStep, getColE]
  have : (t.gatherRows ((List.range n).filter (t.sat pre))).col? k = Option.none := by
    rw [col?_gatherRows]
    cases hc : t.col? k with
    | none => rfl
    | some col =>
      have := (has_iff_col? t k).2 ⟨col, hc⟩
      rw [hk] at this; cases this
  rw [this]

/-! ### a single callable -/

/-- `d.inc(f)` for a callable that is defined on every row: exactly the rows where it is true -/
theorem inc_pred (t : Table) (n : Nat) (hr : t.Rect n) (hne : t ≠ []) (p : Nat → Bool) :
    t.inc (some fun _ i => .ok (p i)) [] = .ok (t.gatherRows ((List.range n).filter p)) := by
  simp only [inc, Option.isNone_some, Bool.false_and, Bool.false_eq_true, if_false, keepRows_total hr hne p]
  by_cases he : ((List.range n).filter p).isEmpty = true
  · have : (List.range n).filter p = [] := by simpa using he
    rw [if_pos he, this]
    simp [incSteps, fixup, nrows, emptyLike_eq_gather]
  · rw [if_neg he]
    simp only [incSteps]
    rw [fixup_gather hne]

theorem exc_pred (t : Table) (n : Nat) (hr : t.Rect n) (hne : t ≠ []) (p : Nat → Bool) :
    t.exc (some fun _ i => .ok (p i)) [] = .ok (t.gatherRows ((List.range n).filter fun i => !p i)) := by
  have hk := keepRows_total hr hne (fun i => !p i)
  simp only [exc, Option.isNone_some, Bool.false_and, Bool.false_eq_true, if_false, Except.map,
    List.isEmpty_nil, Bool.not_true] at hk ⊢
  rw [hk]
  by_cases he : ((List.range n).filter fun i => !p i).isEmpty = true
  · have : (List.range n).filter (fun i => !p i) = [] := by simpa using he
    rw [if_pos he, this]
    simp [fixup, nrows, emptyLike_eq_gather]
  · rw [if_neg he]
    simp only
    rw [fixup_gather hne]

/-- a single predicate partitions the table as well -/
theorem partition_pred (t : Table) (n : Nat) (hr : t.Rect n) (hne : t ≠ []) (p : Nat → Bool) :
    ∃ ti te, t.inc (some fun _ i => .ok (p i)) [] = .ok ti ∧ t.exc (some fun _ i => .ok (p i)) [] = .ok te ∧
      ti.cols = t.cols ∧ te.cols = t.cols ∧ ti.rows.Sublist t.rows ∧ te.rows.Sublist t.rows ∧
      (ti.rows ++ te.rows).Perm t.rows := by
  refine ⟨_, _, inc_pred t n hr hne p, exc_pred t n hr hne p, cols_gatherRows _ _, cols_gatherRows _ _, ?_, ?_, ?_⟩
  · rw [rows_gatherRows hne, rows, nrows_of_rect hr hne]; exact List.Sublist.map _ List.filter_sublist
  · rw [rows_gatherRows hne, rows, nrows_of_rect hr hne]; exact List.Sublist.map _ List.filter_sublist
  · rw [rows_gatherRows hne, rows_gatherRows hne, ← List.map_append, rows, nrows_of_rect hr hne]
    exact (List.filter_append_perm _ _).map _

/-! ### find_<col> -/

/-- `find_<key>(**conds)` looks at the values of column `key` in the rows `inc` selects: it raises
`ValueError` if no row is selected, returns the first value if all selected values are equal (python
`==`), and raises `ValueError` otherwise -/
theorem find_spec (t : Table) (n : Nat) (hr : t.Rect n) (key : String) (col : List Cell)
    (hcol : t.col? key = some col) (conds : List (String × Cond)) (hk : ∀ kc ∈ conds, t.has kc.1 = true) :
    t.find key Option.none conds =
      match ((List.range n).filter (t.sat conds)).map fun i => col.getD i .none with
      | [] => .error .value
      | x :: rest => if rest.all (x.valEq ·) then .ok x else .error .value := by
  have hne : t ≠ [] := by intro he; subst he; simp [col?] at hcol
  have hh : t.has key = true := (has_iff_col? t key).2 ⟨col, hcol⟩
  simp only [find, hh, Bool.not_true, Bool.false_eq_true, if_false, inc_filter t n hr conds hk,
    nrows_gatherRows hne, getColE, col?_gatherRows, hcol, Option.map_some]
  cases hidx : (List.range n).filter (t.sat conds) with
  | nil => simp
  | cons i rest => simp

/-- **find**: it returns `v` iff at least one row is selected and `v` is the first — hence, all being
equal, the unique — value of the column among the selected rows; otherwise it raises `ValueError` -/
theorem find_unique (t : Table) (n : Nat) (hr : t.Rect n) (key : String) (col : List Cell)
    (hcol : t.col? key = some col) (conds : List (String × Cond)) (hk : ∀ kc ∈ conds, t.has kc.1 = true)
    (v : Cell) :
    (t.find key Option.none conds = .ok v ↔
      ∃ rest, (((List.range n).filter (t.sat conds)).map fun i => col.getD i .none) = v :: rest ∧
        ∀ x ∈ rest, v.valEq x = true) ∧
    (∀ e, t.find key Option.none conds = .error e → e = .value) := by
  rw [find_spec t n hr key col hcol conds hk]
  cases ((List.range n).filter (t.sat conds)).map fun i => col.getD i .none with
  | nil => simp
  | cons x rest =>
    simp only
    by_cases hall : rest.all (x.valEq ·) = true
    · simp only [hall, if_true, Except.ok.injEq, List.cons.injEq]
      constructor
      · constructor
        · rintro rfl; exact ⟨rest, ⟨rfl, rfl⟩, fun y hy => List.all_eq_true.1 hall y hy⟩
        · rintro ⟨r, ⟨rfl, _⟩, _⟩; rfl
      · intro e h; cases h
    · simp only [hall]
      constructor
      · constructor
        · intro h; cases h
        · rintro ⟨r, h1, h2⟩
          simp only [List.cons.injEq] at h1
          obtain ⟨rfl, rfl⟩ := h1
          exact absurd (List.all_eq_true.2 h2) hall
      · intro e h; cases h; rfl

/-! ### non-vacuity -/

def tbl : Table := [("a", [.int 1, .none, .flt 4, .nan, .str "x1"]), ("b", [.str "x", .str "y", .none, .str "xy", .int 2])]

example : tbl.Rect 5 ∧ tbl ≠ [] ∧ tbl.has "a" = true ∧ tbl.has "b" = true := by decide
example : tbl.sat [("a", .oneOf [.int 1]), ("b", .regex (RePat.lit "x").search)] 0 = true := by decide
/-- `1 == 1.0`: the int 1 and the float 1.0 (`flt 4`) both match -/
example : tbl.inc Option.none [("a", .oneOf [.int 1])] = .ok [("a", [.int 1, .flt 4]), ("b", [.str "x", .none])] := by rfl
example : tbl.exc Option.none [("a", .oneOf [.int 1])] =
    .ok [("a", [.none, .nan, .str "x1"]), ("b", [.str "y", .str "xy", .int 2])] := by rfl
example : tbl.inc Option.none [("a", .isNaN), ("b", .regex (RePat.lit "y").search)] = .ok [("a", [.nan]), ("b", [.str "xy"])] := by rfl
example : tbl.inc Option.none [("a", .oneOf [])] = .ok [("a", []), ("b", [])] := by rfl
example : tbl.find "b" Option.none [("a", .isNone)] = .ok (.str "y") := by rfl
example : tbl.find "b" Option.none [("a", .oneOf [.int 1])] = .error .value := by rfl
example : tbl.find "b" Option.none [("a", .oneOf [.int 99])] = .error .value := by rfl

end Pyg.Props.C06
