/- C06 — placeholder, theorems follow -/
import PygModel.Filter

namespace Pyg.Props.C06
open Pyg Table

/-- `inc` with no condition is the identity -/
theorem inc_nil (t : Table) : t.inc Option.none [] = .ok t := rfl

end Pyg.Props.C06
