/-
  helper lemmas for C15 on the heap model (PygModel/TreeHeap.lean), part 1: the frame invariant.
  `Safe n m m'`: between `m` and `m'` no node below address `n` was written (and every logged write
  is at an address ≥ n).  `Closed n m`: the nodes at addresses ≥ n only point (as far as a key
  lookup can see) to nodes at addresses ≥ n — so a walk that starts in the fresh region stays there.
-/
import PygModel.TreeHeap
import PygProofs.Lemmas.TreeMerge

namespace Pyg.TreeHeap
open Pyg Pyg.DA Pyg.Tree

structure Safe (n : Nat) (m m' : Mem) : Prop where
  len : m.heap.length ≤ m'.heap.length
  same : ∀ x, x < n → m'.heap[x]? = m.heap[x]?
  log : ∃ new, m'.log = new ++ m.log ∧ ∀ x ∈ new, n ≤ x

def Closed (n : Nat) (m : Mem) : Prop :=
  ∀ x, n ≤ x → ∀ k b, lookup k (node m x) = some (.ptr b) → n ≤ b

theorem Safe.refl (n : Nat) (m : Mem) : Safe n m m := ⟨Nat.le_refl _, fun _ _ => rfl, [], rfl, by simp⟩

theorem Safe.trans {n : Nat} {m1 m2 m3 : Mem} (h1 : Safe n m1 m2) (h2 : Safe n m2 m3) : Safe n m1 m3 := by
  obtain ⟨n1, e1, hn1⟩ := h1.log
  obtain ⟨n2, e2, hn2⟩ := h2.log
  refine ⟨Nat.le_trans h1.len h2.len, fun x hx => (h2.same x hx).trans (h1.same x hx), n2 ++ n1, ?_, ?_⟩
  · rw [e2, e1, List.append_assoc]
  · intro x hx
    rcases List.mem_append.1 hx with h | h
    · exact hn2 x h
    · exact hn1 x h

theorem Safe.mono {n n' : Nat} {m m' : Mem} (h : Safe n m m') (hn : n' ≤ n) : Safe n' m m' := by
  obtain ⟨nw, e, hnw⟩ := h.log
  exact ⟨h.len, fun x hx => h.same x (Nat.lt_of_lt_of_le hx hn), nw, e, fun x hx => Nat.le_trans hn (hnw x hx)⟩

theorem alloc_heap (m : Mem) (nd : Node) : (alloc m nd).1.heap = m.heap ++ [nd] := rfl
theorem alloc_log (m : Mem) (nd : Node) : (alloc m nd).1.log = m.log := rfl
theorem alloc_len (m : Mem) (nd : Node) : (alloc m nd).1.heap.length = m.heap.length + 1 := by
  simp [alloc_heap]
theorem store_len (m : Mem) (a : Nat) (k : String) (r : Ref) :
    (store m a k r).heap.length = m.heap.length := by simp [store]

theorem Safe_alloc (n : Nat) (m : Mem) (nd : Node) (hn : n ≤ m.heap.length) : Safe n m (alloc m nd).1 := by
  refine ⟨by rw [alloc_len]; omega, fun x hx => ?_, [], rfl, by simp⟩
  rw [alloc_heap, List.getElem?_append_left (by omega)]

theorem Safe_store (n : Nat) (m : Mem) (a : Nat) (k : String) (r : Ref) (ha : n ≤ a) :
    Safe n m (store m a k r) := by
  refine ⟨by rw [store_len]; omega, fun x hx => ?_, [a], rfl, by simpa using ha⟩
  simp only [store]
  rw [List.getElem?_modify_ne]
  omega

theorem node_of_same {m m' : Mem} {x : Nat} (h : m'.heap[x]? = m.heap[x]?) : node m' x = node m x := by
  simp [node, h]

theorem node_ge (m : Mem) (x : Nat) (h : m.heap.length ≤ x) : node m x = [] := by
  simp [node, List.getElem?_eq_none h]

theorem node_alloc (m : Mem) (nd : Node) (x : Nat) :
    node (alloc m nd).1 x = if x = m.heap.length then nd else node m x := by
  simp only [node, alloc_heap]
  by_cases h : x = m.heap.length
  · subst h; simp
  · rw [if_neg h]
    by_cases h2 : x < m.heap.length
    · rw [List.getElem?_append_left h2]
    · rw [List.getElem?_eq_none (by simp; omega), List.getElem?_eq_none (by omega)]

theorem node_store (m : Mem) (a : Nat) (k : String) (r : Ref) (x : Nat) :
    node (store m a k r) x = if x = a ∧ a < m.heap.length then DA.set k r (node m a) else node m x := by
  simp only [node, store, List.getElem?_modify]
  by_cases h : a = x
  · subst h
    by_cases h2 : a < m.heap.length
    · simp [h2]
    · simp [h2]
  · have : ¬ (x = a ∧ a < m.heap.length) := fun hh => h hh.1.symm
    rw [if_neg this]
    cases m.heap[x]? <;> simp [h]

theorem Closed_alloc (n : Nat) (m : Mem) (nd : Node) (h : Closed n m)
    (hnd : ∀ k b, lookup k nd = some (.ptr b) → n ≤ b) : Closed n (alloc m nd).1 := by
  intro x hx k b hl
  rw [node_alloc] at hl
  split at hl
  · exact hnd k b hl
  · exact h x hx k b hl

theorem Closed_store (n : Nat) (m : Mem) (a : Nat) (k : String) (r : Ref) (h : Closed n m)
    (hr : ∀ b, r = .ptr b → n ≤ b) : Closed n (store m a k r) := by
  intro x hx k' b hl
  rw [node_store] at hl
  split at hl
  · next hxa =>
    rw [lookup_set] at hl
    split at hl
    · exact hr b (by simpa using hl)
    · exact h a (hxa.1 ▸ hx) k' b hl
  · exact h x hx k' b hl

/-- `_tree_setitem` started at a fresh node writes only fresh nodes -/
theorem setItemH_safe (n : Nat) (v : Val) (ig : List Val) : ∀ (p : Path) (m : Mem) (a : Nat),
    n ≤ m.heap.length → n ≤ a → Closed n m →
    Safe n m (setItemH m a p v ig) ∧ Closed n (setItemH m a p v ig)
  | [], m, a, _, _, hc => by simp only [setItemH]; exact ⟨Safe.refl _ _, hc⟩
  | [k], m, a, _, ha, hc => by
      simp only [setItemH]
      split
      · exact ⟨Safe.refl _ _, hc⟩
      · exact ⟨Safe_store n m a k _ ha, Closed_store n m a k _ hc (by intro b h; cases h)⟩
  | k :: k2 :: rest, m, a, hn, ha, hc => by
      simp only [setItemH]
      split
      · next b hl => exact setItemH_safe n v ig (k2 :: rest) m b hn (hc a ha k b hl) hc
      · have h1 := Safe_alloc n m [] hn
        have h2 := Safe_store n (alloc m []).1 a k (.ptr m.heap.length) ha
        have hc2 : Closed n (store (alloc m []).1 a k (.ptr m.heap.length)) :=
          Closed_store n _ a k _ (Closed_alloc n m [] hc (by simp [lookup]))
            (by intro b h; cases h; exact hn)
        have := setItemH_safe n v ig (k2 :: rest) (store (alloc m []).1 a k (.ptr m.heap.length))
          m.heap.length (by rw [store_len, alloc_len]; omega) hn hc2
        exact ⟨(h1.trans h2).trans this.1, this.2⟩

theorem setItemsH_safe (n : Nat) (c : Nat) (ig : List Val) : ∀ (its : List (Path × Val)) (m : Mem),
    n ≤ m.heap.length → n ≤ c → Closed n m →
    Safe n m (setItemsH m c its ig) ∧ Closed n (setItemsH m c its ig)
  | [], m, _, _, hc => ⟨Safe.refl _ _, hc⟩
  | (p, v) :: its, m, hn, hcn, hc => by
      have h1 := setItemH_safe n v ig p m c hn hcn hc
      have h2 := setItemsH_safe n c ig its (setItemH m c p v ig) (Nat.le_trans hn h1.1.len) hcn h1.2
      simp only [setItemsH, List.foldl_cons] at h2 ⊢
      exact ⟨h1.1.trans h2.1, h2.2⟩

/-- what a (recursive) copy guarantees: the copy is the first node allocated, nothing older is written,
and the nodes allocated only point to nodes allocated -/
def CopySpec (cp : Mem → Nat → Res (Mem × Nat)) : Prop :=
  ∀ m a m' c, cp m a = .ok (m', c) →
    c = m.heap.length ∧ c < m'.heap.length ∧ Safe c m m' ∧ Closed c m'

theorem copyKids_spec (cp : Mem → Nat → Res (Mem × Nat)) (hcp : CopySpec cp) (c : Nat) :
    ∀ (rest : Node) (m m' : Mem), copyKids cp c m rest = .ok m' → c < m.heap.length →
    (∀ x, c < x → ∀ k b, lookup k (node m x) = some (.ptr b) → c ≤ b) →
    (∀ k b, lookup k (node m c) = some (.ptr b) → b < c → lookup k rest = some (.ptr b)) →
    Safe c m m' ∧ Closed c m'
  | [], m, m', h, _, j1, j2 => by
      simp only [copyKids, Except.ok.injEq] at h
      subst h
      refine ⟨Safe.refl _ _, fun x hx k b hl => ?_⟩
      rcases Nat.lt_or_eq_of_le hx with h | h
      · exact j1 x h k b hl
      · subst h
        apply Nat.le_of_not_lt
        intro hb
        have := j2 k b hl hb
        simp [lookup] at this
  | (k, .val w) :: rest, m, m', h, hc, j1, j2 => by
      simp only [copyKids] at h
      refine copyKids_spec cp hcp c rest m m' h hc j1 fun k' b hl hb => ?_
      have := j2 k' b hl hb
      simp only [lookup] at this
      split at this
      · cases this
      · exact this
  | (k, .ptr b0) :: rest, m, m', h, hc, j1, j2 => by
      simp only [copyKids] at h
      split at h
      · cases h
      · next m1 cb hcpe =>
        obtain ⟨e, hlt, hs, hcl⟩ := hcp m b0 m1 cb hcpe
        subst e
        have hc1 : c < m1.heap.length := by omega
        have hnode_c : node m1 c = node m c := node_of_same (hs.same c hc)
        have := copyKids_spec cp hcp c rest (store m1 c k (.ptr m.heap.length)) m' h
          (by rw [store_len]; exact hc1)
          (fun x hx k' b' hl => by
            rw [node_store, if_neg (by omega)] at hl
            by_cases hxl : x < m.heap.length
            · rw [node_of_same (hs.same x hxl)] at hl
              exact j1 x hx k' b' hl
            · have := hcl x (by omega) k' b' hl
              omega)
          (fun k' b' hl hb => by
            rw [node_store, if_pos ⟨rfl, hc1⟩, lookup_set, hnode_c] at hl
            split at hl
            · simp only [Option.some.injEq, Ref.ptr.injEq] at hl; omega
            · next hk =>
              have := j2 k' b' hl hb
              simpa [lookup, hk] using this)
        exact ⟨((hs.mono (Nat.le_of_lt hc)).trans (Safe_store c m1 c k _ (Nat.le_refl _))).trans this.1, this.2⟩

theorem copyH_spec : ∀ f, CopySpec (copyH f)
  | 0 => by intro m a m' c h; simp [copyH] at h
  | f + 1 => by
      intro m a m' c h
      simp only [copyH] at h
      split at h
      · cases h
      · next nd _ =>
        split at h
        · cases h
        · next m'' hk =>
          simp only [Except.ok.injEq, Prod.mk.injEq] at h
          obtain ⟨rfl, rfl⟩ := h
          have := copyKids_spec (copyH f) (copyH_spec f) m.heap.length nd (alloc m nd).1 m'' hk
            (by rw [alloc_len]; omega)
            (fun x hx k b hl => by
              rw [node_ge _ x (by rw [alloc_len]; omega)] at hl
              simp [lookup] at hl)
            (fun k b hl _ => by
              rw [node_alloc, if_pos rfl] at hl
              exact hl)
          refine ⟨rfl, ?_, (Safe_alloc _ m nd (Nat.le_refl _)).trans this.1, this.2⟩
          have := this.1.len
          rw [alloc_len] at this
          omega

/-- the frame invariant of `items_to_tree` (repaired code) -/
theorem itemsToTreeH_safe (f : Nat) (m : Mem) (its : List (Path × Val)) (t : Nat) (ig : List Val)
    (m' : Mem) (r : Nat) (h : itemsToTreeH f m its t ig = .ok (m', r)) :
    r = m.heap.length ∧ Safe m.heap.length m m' ∧ Closed m.heap.length m' := by
  simp only [itemsToTreeH] at h
  split at h
  · cases h
  · split at h
    · cases h
    · split at h
      · cases h
      · next m1 c hc =>
        simp only [Except.ok.injEq, Prod.mk.injEq] at h
        obtain ⟨rfl, rfl⟩ := h
        obtain ⟨e, hlt, hs, hcl⟩ := copyH_spec f m t m1 c hc
        subst e
        have := setItemsH_safe m.heap.length m.heap.length ig its m1 hs.len (Nat.le_refl _) hcl
        exact ⟨rfl, hs.trans this.1, this.2⟩

theorem readN_mono (g g' : Ref → Option Val) (hg : ∀ r v, g r = some v → g' r = some v) :
    ∀ (nd : Node) (kvs : List (String × Val)), readN g nd = some kvs → readN g' nd = some kvs
  | [], kvs, h => h
  | (k, r) :: nd, kvs, h => by
      simp only [readN] at h ⊢
      cases h1 : g r with
      | none => simp [h1] at h
      | some v =>
        cases h2 : readN g nd with
        | none => simp [h1, h2] at h
        | some kvs' =>
          simp only [h1, h2] at h
          simp only [hg r v h1, readN_mono g g' hg nd kvs' h2]
          exact h

/-- reading a tree back only depends on the nodes that exist -/
theorem readH_mono (H H' : Heap) (hh : ∀ (x : Nat) (nd : Node), H[x]? = some nd → H'[x]? = some nd) :
    ∀ (f : Nat) (r : Ref) (v : Val), readH H f r = some v → readH H' f r = some v
  | _, .val w, v, h => by simpa [readH] using h
  | 0, .ptr a, v, h => by simp [readH] at h
  | f + 1, .ptr a, v, h => by
      simp only [readH] at h ⊢
      cases hn : H[a]? with
      | none => simp [hn] at h
      | some nd =>
        simp only [hn, Option.map_eq_some_iff] at h
        obtain ⟨kvs, hk, rfl⟩ := h
        simp only [hh a nd hn, Option.map_eq_some_iff]
        exact ⟨kvs, readN_mono _ _ (readH_mono H H' hh f) nd kvs hk, rfl⟩

theorem Safe.readH {n : Nat} {m m' : Mem} (h : Safe n m m') (hn : m.heap.length ≤ n)
    (f : Nat) (r : Ref) (v : Val) (hr : readH m.heap f r = some v) : readH m'.heap f r = some v := by
  refine readH_mono m.heap m'.heap (fun x nd hx => ?_) f r v hr
  have hlt : x < m.heap.length := by
    apply Nat.lt_of_not_le
    intro hle
    rw [List.getElem?_eq_none hle] at hx
    cases hx
  rw [h.same x (by omega)]
  exact hx

/-- the frame invariant of `table_to_tree` on a base tree (repaired code) -/
theorem tableToTreeH_safe (f : Nat) (m : Mem) (its : List (Path × Val)) (t : Nat)
    (m' : Mem) (r : Nat) (h : tableToTreeH f m its t = .ok (m', r)) :
    r = m.heap.length ∧ Safe m.heap.length m m' ∧ Closed m.heap.length m' := by
  simp only [tableToTreeH] at h
  split at h
  · cases h
  · split at h
    · cases h
    · next m1 c hc =>
      simp only [Except.ok.injEq, Prod.mk.injEq] at h
      obtain ⟨rfl, rfl⟩ := h
      obtain ⟨e, hlt, hs, hcl⟩ := copyH_spec f m t m1 c hc
      subst e
      have := setItemsH_safe m.heap.length m.heap.length [] its m1 hs.len (Nat.le_refl _) hcl
      exact ⟨rfl, hs.trans this.1, this.2⟩

end Pyg.TreeHeap
