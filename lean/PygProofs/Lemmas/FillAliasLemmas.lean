/-
  Helper lemmas for C12: the object store under `_df_fillna` (PygModel/FillAlias.lean) - invariant and simulation.
-/
import PygModel.FillAlias
import PygProofs.Lemmas.FillLemmas

namespace Pyg.FillAlias
open Pyg Pyg.Fill

/-- the caller's object is intact, `res` points to an existing cell, and every write so far went into a cell allocated
during the call -/
structure Inv (df : Frame) (s : Store) : Prop where
  input : s.cells[0]? = some df
  bound : s.res < s.cells.length
  fresh : ∀ w ∈ s.writes, 0 < w ∧ w < s.cells.length

theorem inv_init (df : Frame) : Inv df { cells := [df], res := 0, writes := [] } :=
  ⟨rfl, by simp, by simp⟩

theorem inv_rebind {df : Frame} {s : Store} (h : Inv df s) (g : Frame → Frame) : Inv df (exec s (.rebind g)) := by
  have hpos : 0 < s.cells.length := by have := h.bound; omega
  refine ⟨?_, by simp [exec], ?_⟩
  · simp only [exec]; rw [List.getElem?_append_left hpos]; exact h.input
  · intro w hw; have := h.fresh w hw; simp only [exec, List.length_append, List.length_cons, List.length_nil]; omega

theorem inv_assign {df : Frame} {s : Store} (h : Inv df s) (g : Frame → Frame) (hr : 0 < s.res) :
    Inv df (exec s (.assign g)) := by
  refine ⟨?_, by simpa [exec] using h.bound, ?_⟩
  · simp only [exec]; rw [List.getElem?_set_ne (by omega)]; exact h.input
  · intro w hw
    simp only [exec, List.mem_cons] at hw
    simp only [exec, List.length_set]
    rcases hw with rfl | hw
    · exact ⟨hr, h.bound⟩
    · exact h.fresh w hw

/-- the statement lists `_df_fillna` executes: nothing, one rebinding, or a rebinding followed by the assignment -/
theorem stmts_shape (series : Bool) (lim : Option Nat) (f : Frame) (m : Method) (ps : List Stmt)
    (h : stmts series lim f m = .ok ps) :
    ps = [] ∨ (∃ g, ps = [.rebind g]) ∨ ∃ g k, ps = [.rebind g, .assign k] := by
  have tail : ∀ inv, tailStmts inv lim f = .ok ps →
      ps = [] ∨ (∃ g, ps = [.rebind g]) ∨ ∃ g k, ps = [.rebind g, .assign k] := by
    intro inv ht
    simp only [tailStmts] at ht
    split at ht
    · split at ht
      · cases ht; exact Or.inl rfl
      · split at ht
        · cases ht; exact Or.inr (Or.inr ⟨_, _, rfl⟩)
        · cases ht
    · cases ht
  have gen : (match step lim f m with | .ok g => (.ok [Stmt.rebind fun _ => g] : Res (List Stmt)) | .error e => .error e) = .ok ps →
      ps = [] ∨ (∃ g, ps = [.rebind g]) ∨ ∃ g k, ps = [.rebind g, .assign k] := by
    intro hg
    split at hg
    · cases hg; exact Or.inr (Or.inl ⟨_, rfl⟩)
    · cases hg
  cases series <;> cases m <;> first | exact gen h | exact tail _ h

theorem inv_stmts {df : Frame} {s : Store} (h : Inv df s) (ps : List Stmt)
    (hs : ps = [] ∨ (∃ g, ps = [.rebind g]) ∨ ∃ g k, ps = [.rebind g, .assign k]) : Inv df (ps.foldl exec s) := by
  rcases hs with rfl | ⟨g, rfl⟩ | ⟨g, k, rfl⟩
  · exact h
  · exact inv_rebind h g
  · simp only [List.foldl_cons, List.foldl_nil]
    refine inv_assign (inv_rebind h g) k ?_
    have := h.bound
    simp only [exec]; omega

theorem inv_runStep {df : Frame} {s s' : Store} (series : Bool) (lim : Option Nat) (m : Method) (h : Inv df s)
    (hr : runStep series lim s m = .ok s') : Inv df s' := by
  simp only [runStep] at hr
  split at hr
  · rename_i ps hps
    cases hr
    exact inv_stmts h ps (stmts_shape series lim _ m ps hps)
  · cases hr

theorem inv_run {df : Frame} (series : Bool) (lim : Option Nat) (ms : List Method) (s s' : Store) (h : Inv df s)
    (hr : ms.foldlM (runStep series lim) s = .ok s') : Inv df s' := by
  induction ms generalizing s with
  | nil => simp [List.foldlM, pure, Except.pure] at hr; subst hr; exact h
  | cons m ms ih =>
    simp only [List.foldlM, bind, Except.bind] at hr
    split at hr
    · cases hr
    · rename_i s1 h1
      exact ih s1 (inv_runStep series lim m h h1) hr

/-! ### simulation: the object `res` points to holds the value of the pure model -/

theorem cur_rebind (s : Store) (g : Frame → Frame) : cur (exec s (.rebind g)) = g (cur s) := by
  simp [cur, exec]

theorem cur_assign (s : Store) (g : Frame → Frame) (hb : s.res < s.cells.length) : cur (exec s (.assign g)) = g (cur s) := by
  simp [cur, exec, hb]

/-- the 1-d tail branch computes the pure model's step -/
theorem tail_value (inv : Option Int) (lim : Option Nat) (f : Frame) (c : String × Col) (hc : f.cols = [c]) :
    (if limOk lim || f.cols.all (fun c => (lastValidTime f.idx c.2).isNone) then
      (.ok (f.mapCols (ffillTail inv lim f.idx)) : Res Frame) else .error .value) =
    match tailStmts inv lim f with
    | .ok [] => .ok f
    | .ok [.rebind g, .assign k] => .ok (k (g f))
    | .ok _ => .error .other
    | .error e => .error e := by
  obtain ⟨idx, cols⟩ := f
  simp only at hc; subst hc
  simp only [tailStmts, Frame.mapCols, List.map_cons, List.map_nil, List.all_cons, List.all_nil, Bool.and_true]
  cases hl : lastValidTime idx c.2 with
  | none => simp [ffillTail, hl]
  | some t =>
    cases hlim : limOk lim with
    | false => simp
    | true => simp [ffillTail, hl, tailSet]

end Pyg.FillAlias

namespace Pyg.FillAlias
open Pyg Pyg.Fill

theorem step_ncols (lim : Option Nat) (f g : Frame) (m : Method) (h : step lim f m = .ok g) :
    g.cols.length = f.cols.length := by
  cases m <;> simp only [step] at h
  case fnna => split at h <;> cases h <;> simp [Frame.gather]
  case nona => cases h; simp [Frame.gather]
  all_goals (split at h <;> cases h <;> simp [Frame.mapCols])

/-- what two results have in common: the object `res` points to holds the value of the pure model, errors agree -/
def Sim (series : Bool) : Res Store → Res Frame → Prop
  | .ok s, .ok g => cur s = g ∧ s.res < s.cells.length ∧ (series = true → ∃ c, g.cols = [c])
  | .error e, .error e' => e = e'
  | _, _ => False

theorem foldl_exec_value (s : Store) (hb : s.res < s.cells.length) (ps : List Stmt) :
    (ps = [] → cur (ps.foldl exec s) = cur s ∧ (ps.foldl exec s).res < (ps.foldl exec s).cells.length) ∧
    (∀ g, ps = [.rebind g] → cur (ps.foldl exec s) = g (cur s) ∧ (ps.foldl exec s).res < (ps.foldl exec s).cells.length) ∧
    (∀ g k, ps = [.rebind g, .assign k] → cur (ps.foldl exec s) = k (g (cur s)) ∧
      (ps.foldl exec s).res < (ps.foldl exec s).cells.length) := by
  refine ⟨fun h => by subst h; exact ⟨rfl, hb⟩, fun g h => by subst h; exact ⟨cur_rebind s g, by simp [exec]⟩, fun g k h => ?_⟩
  subst h
  simp only [List.foldl_cons, List.foldl_nil]
  have hb' : (exec s (.rebind g)).res < (exec s (.rebind g)).cells.length := by simp [exec]
  exact ⟨by rw [cur_assign _ k hb', cur_rebind], by simpa [exec] using hb'⟩

theorem runStep_sim (series : Bool) (lim : Option Nat) (s : Store) (m : Method) (hb : s.res < s.cells.length)
    (h1 : series = true → ∃ c, (cur s).cols = [c]) : Sim series (runStep series lim s m) (step lim (cur s) m) := by
  have one : ∀ g, step lim (cur s) m = .ok g → series = true → ∃ c, g.cols = [c] := by
    intro g hg hser
    obtain ⟨c, hc⟩ := h1 hser
    have := step_ncols lim _ g m hg
    rw [hc] at this
    match hgc : g.cols with
    | [c'] => exact ⟨c', rfl⟩
    | [] => rw [hgc] at this; cases this
    | _ :: _ :: _ => rw [hgc] at this; simp at this
  have gen : stmts series lim (cur s) m = (match step lim (cur s) m with
      | .ok g => (.ok [Stmt.rebind fun _ => g] : Res (List Stmt)) | .error e => .error e) →
      Sim series (runStep series lim s m) (step lim (cur s) m) := by
    intro hst
    simp only [runStep, hst]
    cases hstep : step lim (cur s) m with
    | error e => simp [Sim]
    | ok g =>
      simp only [Sim]
      obtain ⟨a, b⟩ := (foldl_exec_value s hb [.rebind fun _ => g]).2.1 _ rfl
      exact ⟨a, b, one g hstep⟩
  have tail : ∀ inv, (m = .ffillNa ∧ inv = Option.none ∨ m = .ffill0 ∧ inv = some 0) → series = true →
      stmts series lim (cur s) m = tailStmts inv lim (cur s) → Sim series (runStep series lim s m) (step lim (cur s) m) := by
    intro inv hm hser hst
    obtain ⟨c, hc⟩ := h1 hser
    have hv := tail_value inv lim (cur s) c hc
    have hstep : step lim (cur s) m = (if limOk lim || (cur s).cols.all (fun c => (lastValidTime (cur s).idx c.2).isNone) then
        (.ok ((cur s).mapCols (ffillTail inv lim (cur s).idx)) : Res Frame) else .error .value) := by
      rcases hm with ⟨rfl, rfl⟩ | ⟨rfl, rfl⟩ <;> rfl
    simp only [runStep, hst]
    rw [hstep, hv]
    have hshape := stmts_shape series lim (cur s) m
    rw [hst] at hshape
    cases hts : tailStmts inv lim (cur s) with
    | error e => simp [Sim]
    | ok ps =>
      rcases hshape ps hts with rfl | ⟨g, rfl⟩ | ⟨g, k, rfl⟩
      · simp only [Sim, List.foldl_nil]; exact ⟨trivial, hb, fun _ => ⟨c, hc⟩⟩
      · -- a single rebinding is not a shape the tail branch produces
        simp only [tailStmts, hc] at hts
        split at hts
        · cases hts
        · split at hts <;> cases hts
      · simp only [Sim]
        obtain ⟨a, b⟩ := (foldl_exec_value s hb _).2.2 g k rfl
        refine ⟨a, b, fun _ => ?_⟩
        -- the value is the pure step's value, which keeps the single column
        have hok : step lim (cur s) m = .ok (k (g (cur s))) := by rw [hstep, hv, hts]
        exact one _ hok hser
  cases series with
  | false => exact gen (by cases m <;> rfl)
  | true =>
    cases m with
    | ffillNa => exact tail Option.none (by simp) rfl rfl
    | ffill0 => exact tail (some 0) (by simp) rfl rfl
    | const c => exact gen rfl
    | ffill => exact gen rfl
    | bfill => exact gen rfl
    | fnna => exact gen rfl
    | nona => exact gen rfl

theorem run_sim (series : Bool) (lim : Option Nat) (ms : List Method) (s : Store) (hb : s.res < s.cells.length)
    (h1 : series = true → ∃ c, (cur s).cols = [c]) :
    Sim series (ms.foldlM (runStep series lim) s) (fillna ms lim (cur s)) := by
  induction ms generalizing s with
  | nil => simp only [List.foldlM, fillna, pure, Except.pure, Sim]; exact ⟨trivial, hb, h1⟩
  | cons m ms ih =>
    have hs := runStep_sim series lim s m hb h1
    simp only [fillna, List.foldlM, bind, Except.bind] at ih ⊢
    cases hr : runStep series lim s m with
    | error e =>
      rw [hr] at hs
      cases hst : step lim (cur s) m with
      | error e' => rw [hst] at hs; simpa [Sim] using hs
      | ok g => rw [hst] at hs; simp [Sim] at hs
    | ok s1 =>
      rw [hr] at hs
      cases hst : step lim (cur s) m with
      | error e' => rw [hst] at hs; simp [Sim] at hs
      | ok g =>
        rw [hst] at hs
        obtain ⟨a, b, c⟩ := hs
        subst a
        exact ih s1 b c

end Pyg.FillAlias
