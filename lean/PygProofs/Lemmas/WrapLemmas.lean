import PygModel.Wrap
import PygProofs.Lemmas.BindLemmas

namespace Pyg

abbrev Chain := List (Cls × PDict)

def classes (ch : Chain) : List Cls := ch.map (·.1)

/-- parameters of the (first) wrapper of class `cls` -/
def paramsOf (cls : Cls) (ch : Chain) : Option PDict := (ch.find? fun w => w.1 == cls).map (·.2)

/-- the parameters a new `cls` wrapper ends up with: those of the wrapper it replaces, updated -/
def newParams (cls : Cls) (kwargs : PDict) (ch : Chain) : PDict :=
  match paramsOf cls ch with
  | some p => p.update kwargs
  | none => kwargs

theorem stripAll_of_not_mem (cls : Cls) (ch : Chain) (h : cls ∉ classes ch) : stripAll cls ch = ch := by
  unfold stripAll
  apply List.filter_eq_self.2
  intro w hw
  have : w.1 ≠ cls := fun e => h (e ▸ List.mem_map.2 ⟨w, hw, rfl⟩)
  simpa using this

theorem not_mem_classes_stripAll (cls : Cls) (ch : Chain) : cls ∉ classes (stripAll cls ch) := by
  intro h
  obtain ⟨w, hw, e⟩ := List.mem_map.1 h
  simp only [stripAll, List.mem_filter] at hw
  simp [e] at hw

theorem stripAll_idem (cls : Cls) (ch : Chain) : stripAll cls (stripAll cls ch) = stripAll cls ch :=
  stripAll_of_not_mem cls _ (not_mem_classes_stripAll cls ch)

theorem stripAll_comm (c d : Cls) (ch : Chain) : stripAll c (stripAll d ch) = stripAll d (stripAll c ch) := by
  simp only [stripAll, List.filter_filter]
  congr 1
  funext w
  exact Bool.and_comm _ _

theorem classes_stripAll (cls : Cls) (ch : Chain) : classes (stripAll cls ch) = (classes ch).filter (· != cls) := by
  simp [classes, stripAll, List.filter_map, Function.comp_def]

theorem nodup_stripAll (cls : Cls) (ch : Chain) (h : (classes ch).Nodup) : (classes (stripAll cls ch)).Nodup := by
  rw [classes_stripAll]
  exact List.Nodup.sublist List.filter_sublist h

theorem lastParams_of_not_mem (cls : Cls) (ch : Chain) (h : cls ∉ classes ch) : lastParams cls ch = none := by
  unfold lastParams
  have : ch.filter (fun w => w.1 == cls) = [] := by
    rw [List.filter_eq_nil_iff]
    intro w hw
    have : w.1 ≠ cls := fun e => h (e ▸ List.mem_map.2 ⟨w, hw, rfl⟩)
    simpa using this
  simp [this]

theorem paramsOf_of_not_mem (cls : Cls) (ch : Chain) (h : cls ∉ classes ch) : paramsOf cls ch = none := by
  unfold paramsOf
  have : ch.find? (fun w => w.1 == cls) = none := by
    rw [List.find?_eq_none]
    intro w hw
    have : w.1 ≠ cls := fun e => h (e ▸ List.mem_map.2 ⟨w, hw, rfl⟩)
    simpa using this
  simp [this]

/-- with distinct classes the innermost and the first wrapper of a class are the same one -/
theorem lastParams_eq_paramsOf (cls : Cls) : ∀ (ch : Chain), (classes ch).Nodup → lastParams cls ch = paramsOf cls ch
  | [], _ => by simp [lastParams, paramsOf]
  | w :: ws, h => by
      simp only [classes, List.map_cons, List.nodup_cons] at h
      by_cases hw : w.1 = cls
      · have hn : cls ∉ classes ws := hw ▸ h.1
        have hf : ws.filter (fun w => w.1 == cls) = [] := by
          rw [List.filter_eq_nil_iff]
          intro x hx
          have : x.1 ≠ cls := fun e => hn (e ▸ List.mem_map.2 ⟨x, hx, rfl⟩)
          simpa using this
        simp [lastParams, paramsOf, List.filter, hw, hf, List.find?]
      · have hb : (w.1 == cls) = false := by simpa using hw
        have ih := lastParams_eq_paramsOf cls ws h.2
        simp only [lastParams, paramsOf, List.filter, hb, List.find?] at ih ⊢
        exact ih

/-- **normal form of the constructor** on chains with distinct classes: the new wrapper on top, with the
parameters of the wrapper of its class that it replaces (updated), and that wrapper cut out -/
theorem mk_chain (cls : Cls) (kwargs : PDict) (fn : WFn) (h : (classes fn.chain).Nodup) :
    (mk cls kwargs fn).chain = (cls, newParams cls kwargs fn.chain) :: stripAll cls fn.chain := by
  unfold mk newParams
  cases hc : fn.chain with
  | nil => simp [paramsOf, stripAll]
  | cons w rest =>
    obtain ⟨c, p⟩ := w
    rw [hc] at h
    simp only [classes, List.map_cons, List.nodup_cons] at h
    by_cases hcc : c = cls
    · subst hcc
      have hn : c ∉ classes rest := h.1
      simp only [↓reduceIte]
      have hp : paramsOf c ((c, p) :: rest) = some p := by simp [paramsOf, List.find?]
      have hs : stripAll c ((c, p) :: rest) = rest := by
        simp only [stripAll, List.filter, bne_self_eq_false]
        exact stripAll_of_not_mem c rest hn
      rw [hp, hs]
      cases rest with
      | nil => rfl
      | cons top below =>
        have hnb : c ∉ classes below := fun hm => hn (by simp [classes] at hm ⊢; exact Or.inr hm)
        simp only [lastParams_of_not_mem c below hnb, stripAll_of_not_mem c below hnb]
    · simp only [hcc, ↓reduceIte]
      have hb : (c == cls) = false := by simpa using hcc
      have hbn : (c != cls) = true := by simpa using hcc
      have hp : paramsOf cls ((c, p) :: rest) = paramsOf cls rest := by
        simp [paramsOf, List.find?, hb]
      have hs : stripAll cls ((c, p) :: rest) = (c, p) :: stripAll cls rest := by
        simp [stripAll, List.filter, hbn]
      rw [hp, hs, lastParams_eq_paramsOf cls rest h.2]
      cases paramsOf cls rest <;> rfl

theorem mk_base (cls : Cls) (kwargs : PDict) (fn : WFn) : (mk cls kwargs fn).base = fn.base := rfl

theorem mk_nodup (cls : Cls) (kwargs : PDict) (fn : WFn) (h : (classes fn.chain).Nodup) :
    (classes (mk cls kwargs fn).chain).Nodup := by
  rw [mk_chain cls kwargs fn h]
  simp only [classes, List.map_cons, List.nodup_cons]
  exact ⟨not_mem_classes_stripAll cls fn.chain, nodup_stripAll cls fn.chain h⟩

theorem mkMany_nodup (ds : Chain) (fn : WFn) (h : (classes fn.chain).Nodup) :
    (classes (mkMany ds fn).chain).Nodup := by
  unfold mkMany
  induction ds generalizing fn with
  | nil => exact h
  | cons d ds ih => exact ih _ (mk_nodup d.1 d.2 fn h)

theorem mkMany_base (ds : Chain) (fn : WFn) : (mkMany ds fn).base = fn.base := by
  unfold mkMany
  induction ds generalizing fn with
  | nil => rfl
  | cons d ds ih => simp only [List.foldl_cons]; rw [ih]; rfl

/-! ### decorators of another class do not disturb the wrapper of class `cls` -/

theorem paramsOf_stripAll_ne (cls d : Cls) (hd : d ≠ cls) : ∀ ch : Chain, paramsOf cls (stripAll d ch) = paramsOf cls ch
  | [] => rfl
  | w :: ws => by
      have ih := paramsOf_stripAll_ne cls d hd ws
      by_cases hw : w.1 = d
      · have h1 : (w.1 != d) = false := by simp [hw]
        have h2 : (w.1 == cls) = false := by simpa [hw] using hd
        simp only [stripAll, List.filter, h1, paramsOf, List.find?, h2] at ih ⊢
        exact ih
      · have h1 : (w.1 != d) = true := by simpa using hw
        simp only [stripAll, List.filter, h1, paramsOf, List.find?] at ih ⊢
        cases hc : (w.1 == cls)
        · simp only; exact ih
        · rfl

theorem paramsOf_mk_ne (cls d : Cls) (hd : d ≠ cls) (kd : PDict) (fn : WFn) (h : (classes fn.chain).Nodup) :
    paramsOf cls (mk d kd fn).chain = paramsOf cls fn.chain := by
  rw [mk_chain d kd fn h]
  have h2 : (d == cls) = false := by simpa using hd
  simp only [paramsOf, List.find?, h2]
  exact paramsOf_stripAll_ne cls d hd fn.chain

theorem stripAll_mk_ne (cls d : Cls) (hd : d ≠ cls) (kd : PDict) (fn : WFn) (h : (classes fn.chain).Nodup) :
    stripAll cls (mk d kd fn).chain = (mk d kd { fn with chain := stripAll cls fn.chain }).chain := by
  rw [mk_chain d kd fn h, mk_chain d kd _ (nodup_stripAll cls fn.chain h)]
  have hb : (d != cls) = true := by simpa using hd
  simp only [stripAll, List.filter, hb]
  congr 1
  · have := paramsOf_stripAll_ne d cls (fun e => hd e.symm) fn.chain
    simp only [newParams, stripAll] at this ⊢
    rw [this]
  · exact stripAll_comm cls d fn.chain

theorem paramsOf_mkMany_ne (cls : Cls) (ds : Chain) (hds : ∀ d ∈ ds, d.1 ≠ cls) (fn : WFn)
    (h : (classes fn.chain).Nodup) : paramsOf cls (mkMany ds fn).chain = paramsOf cls fn.chain := by
  unfold mkMany
  induction ds generalizing fn with
  | nil => rfl
  | cons d ds ih =>
    simp only [List.foldl_cons]
    rw [ih (fun x hx => hds x (by simp [hx])) _ (mk_nodup d.1 d.2 fn h)]
    exact paramsOf_mk_ne cls d.1 (hds d (by simp)) d.2 fn h

theorem stripAll_mkMany_ne (cls : Cls) (ds : Chain) (hds : ∀ d ∈ ds, d.1 ≠ cls) (fn : WFn)
    (h : (classes fn.chain).Nodup) :
    stripAll cls (mkMany ds fn).chain = (mkMany ds { fn with chain := stripAll cls fn.chain }).chain := by
  unfold mkMany
  induction ds generalizing fn with
  | nil => rfl
  | cons d ds ih =>
    simp only [List.foldl_cons]
    rw [ih (fun x hx => hds x (by simp [hx])) _ (mk_nodup d.1 d.2 fn h)]
    have := stripAll_mk_ne cls d.1 (hds d (by simp)) d.2 fn h
    congr 2
    cases hm : mk d.1 d.2 fn
    cases hm2 : mk d.1 d.2 { fn with chain := stripAll cls fn.chain }
    have hb1 : (mk d.1 d.2 fn).base = fn.base := rfl
    have hb2 : (mk d.1 d.2 { fn with chain := stripAll cls fn.chain }).base = fn.base := rfl
    simp only [hm, hm2] at this hb1 hb2
    simp [this, hb1, hb2]

theorem popAxis_eq (kw : PDict) (hax : ∀ p ∈ kw, p.1 ≠ "axis") : popAxis kw = kw := by
  apply List.filter_eq_self.2
  intro q hq
  simpa using hax q hq

/-- passing the first parameter positionally instead of by keyword is the same call for python -/
theorem bindRef_first_positional (s : Sig) (top : String) (ps : List String) (hp : s.params = top :: ps)
    (kw : PDict) (arg : Val) (hl : kw.lookup top = some arg) :
    bindRef s { args := [arg], kw := kw.erase top } = bindRef s { args := [], kw := kw } := by
  have hB' : ((kw.erase top).any fun p => (s.params.take 1).contains p.1) = false := by
    rw [List.any_eq_false]
    intro p hpm
    simp only [PDict.erase, List.mem_filter, bne_iff_ne] at hpm
    simp [hp, hpm.2]
  have hB : (kw.any fun p => (s.params.take 0).contains p.1) = false := by
    rw [List.any_eq_false]; intro p _; simp
  have hC : extraKw s (kw.erase top) = extraKw s kw := by
    simp only [extraKw, PDict.erase, List.filter_filter]
    apply List.filter_congr
    intro p _
    by_cases h : p.1 = top
    · simp [h, hp]
    · simp [h]
  have hV : ∀ n ∈ s.params, pyValue s { args := [arg], kw := kw.erase top } n = pyValue s { args := [], kw := kw } n := by
    intro n hn
    unfold pyValue
    by_cases hnt : n = top
    · subst hnt
      simp [hp, hl]
    · have hi : ¬ s.params.idxOf n < 1 := by
        rw [hp, List.idxOf_cons]
        have : (top == n) = false := by simpa using fun e => hnt e.symm
        simp [this]
      have hlk : (kw.erase top).lookup n = kw.lookup n := by
        rw [lookup_erase]; simp [hnt]
      simp only [List.length_cons, List.length_nil, Nat.zero_add, hi, ↓reduceIte, Nat.not_lt_zero, hlk]
  have hS : starEntries s { args := [arg], kw := kw.erase top } = starEntries s { args := [], kw := kw } := by
    simp only [starEntries, hC]
    congr 1
    cases s.varargs with
    | none => rfl
    | some n => simp [hp]
  have hall : (s.params.all fun n => (pyValue s { args := [arg], kw := kw.erase top } n).isSome) =
      (s.params.all fun n => (pyValue s { args := [], kw := kw } n).isSome) := by
    rw [Bool.eq_iff_iff]
    simp only [List.all_eq_true]
    constructor <;> intro h n hn
    · rw [← hV n hn]; exact h n hn
    · rw [hV n hn]; exact h n hn
  have hmap : s.params.map (fun n => (n, (pyValue s { args := [arg], kw := kw.erase top } n).getD (.cell .none))) =
      s.params.map (fun n => (n, (pyValue s { args := [], kw := kw } n).getD (.cell .none))) := by
    apply List.map_congr_left
    intro n hn
    rw [hV n hn]
  have hA : ¬ (1 > s.params.length ∧ s.varargs = none) := by
    rw [hp]; simp
  have hA0 : ¬ (0 > s.params.length ∧ s.varargs = none) := by simp
  unfold bindRef
  simp only [List.length_cons, List.length_nil, Nat.zero_add, hA, hA0, hB', hB, hC, hall, hmap, hS,
    ↓reduceIte, Bool.false_eq_true]

/-- the call `loops` forwards is, for python, the call it received (unless a keyword is called `axis`) -/
theorem loopsCall_bind (s : Sig) (c : Call) (hax : ∀ p ∈ c.kw, p.1 ≠ "axis") :
    bindRef s (loopsCall s c) = bindRef s c := by
  cases c with
  | mk args kw =>
    unfold loopsCall
    cases args with
    | cons a as => simp only [popAxis_eq kw hax]
    | nil =>
      cases hp : s.params with
      | nil => rfl
      | cons top ps =>
        simp only
        cases hl : kw.lookup top with
        | none => rfl
        | some arg =>
          simp only
          rw [popAxis_eq (kw.erase top) (fun p hpm => hax p (List.mem_filter.1 hpm).1)]
          exact bindRef_first_positional s top ps hp kw arg hl

theorem loopsCall_kw_sub (s : Sig) (c : Call) (p : String × Val) (h : p ∈ (loopsCall s c).kw) : p ∈ c.kw := by
  cases c with
  | mk args kw =>
    unfold loopsCall at h
    cases args with
    | cons a as => exact (List.mem_filter.1 h).1
    | nil =>
      cases hp : s.params with
      | nil => simpa [hp] using h
      | cons top ps =>
        simp only [hp] at h
        cases hl : kw.lookup top with
        | none => simpa [hl] using h
        | some arg =>
          simp only [hl] at h
          exact (List.mem_filter.1 (List.mem_filter.1 h).1).1

/-! ### updating twice with the same keywords -/

theorem ovr_dichotomy (u : PDict) (k : String) : ∀ b b' : Option Val,
    ovr u k b = ovr u k b' ∨ (ovr u k b = b ∧ ovr u k b' = b') := by
  unfold ovr
  induction u with
  | nil => intro b b'; exact Or.inr ⟨rfl, rfl⟩
  | cons p u ih =>
    intro b b'
    simp only [List.foldl_cons]
    by_cases hk : k = p.1
    · simp only [hk, ↓reduceIte]; exact Or.inl trivial
    · simp only [hk, ↓reduceIte]; exact ih b b'

theorem update_update_eqv (p kw : PDict) : PDict.Eqv ((p.update kw).update kw) (p.update kw) := by
  intro k
  rw [lookup_update, lookup_update]
  rcases ovr_dichotomy kw k (p.lookup k) (ovr kw k (p.lookup k)) with h | ⟨_, h⟩
  · exact h.symm
  · exact h

theorem update_self_eqv (kw : PDict) (hn : (kw.map (·.1)).Nodup) : PDict.Eqv (kw.update kw) kw := by
  intro k
  rw [lookup_update_nodup _ _ hn]
  cases kw.lookup k <;> rfl

/-- the parameters of a re-applied decorator are (as a dict) those of the first application -/
theorem newParams_twice (cls : Cls) (kw : PDict) (hn : (kw.map (·.1)).Nodup) (ch : Chain) :
    PDict.Eqv ((newParams cls kw ch).update kw) (newParams cls kw ch) := by
  unfold newParams
  cases paramsOf cls ch with
  | none => exact update_self_eqv kw hn
  | some p => exact update_update_eqv p kw

/-! ### memo fields -/

/-- every filled memo holds the plain function's specification -/
def MemoOk (base : Sig) (ms : Memos) : Prop := ∀ s, some s ∈ ms → s = base

theorem specWalk_of_ok (base : Sig) : ∀ ms, MemoOk base ms → specWalk base ms = base
  | [], _ => rfl
  | some s :: _, h => by simpa [specWalk] using h s (by simp)
  | Option.none :: rest, h => by
      simp only [specWalk]
      exact specWalk_of_ok base rest fun s hs => h s (by simp [hs])

theorem fillMemos_ok (base : Sig) : ∀ ms, MemoOk base ms → MemoOk base (fillMemos base ms)
  | [], h => h
  | some s :: rest, h => h
  | Option.none :: rest, h => by
      have hr : MemoOk base rest := fun s hs => h s (by simp [hs])
      intro s hs
      simp only [fillMemos, List.mem_cons, Option.some.injEq] at hs
      rcases hs with hs | hs
      · rw [hs, specWalk_of_ok base rest hr]
      · exact fillMemos_ok base rest hr s hs

theorem mkMemos_ok (base : Sig) (keep : List Bool) (ms : Memos) (h : MemoOk base ms) :
    MemoOk base (mkMemos keep ms) := by
  intro s hs
  simp only [mkMemos, List.mem_cons, List.mem_map, List.mem_filter] at hs
  rcases hs with hs | ⟨p, ⟨hp, _⟩, he⟩
  · cases hs
  · obtain ⟨m, b⟩ := p
    simp only at he
    subst he
    exact h s (List.of_mem_zip hp).1

/-- a request below the top: the outer objects are not touched -/
theorem fill_below_ok (base : Sig) (outer inner : Memos) (h : MemoOk base (outer ++ inner)) :
    MemoOk base (outer ++ fillMemos base inner) := by
  intro s hs
  rw [List.mem_append] at hs
  rcases hs with hs | hs
  · exact h s (by simp [hs])
  · exact fillMemos_ok base inner (fun t ht => h t (by simp [ht])) s hs


/-! ### `_int2float` (pd2np) -/

mutual
  theorem int2float_of_no : ∀ (v : Val), v.hasIntArr = false → int2float v = v
    | .cell .none, _ => rfl
    | .cell (.bool _), _ => rfl
    | .cell (.int _), _ => rfl
    | .cell (.flt _), _ => rfl
    | .cell .nan, _ => rfl
    | .cell .pinf, _ => rfl
    | .cell .ninf, _ => rfl
    | .cell (.dt _), _ => rfl
    | .cell (.str s), h => by
        simp only [Val.hasIntArr] at h
        simp [int2float, h]
    | .list xs, h => by
        simp only [Val.hasIntArr] at h
        simp only [int2float, int2floatList_of_no xs h]
    | .tuple xs, h => by
        simp only [Val.hasIntArr] at h
        simp only [int2float, int2floatList_of_no xs h]
    | .dict kvs, h => by
        simp only [Val.hasIntArr] at h
        simp only [int2float, int2floatKVs_of_no kvs h]
  theorem int2floatList_of_no : ∀ (xs : List Val), hasIntArrList xs = false → int2floatList xs = xs
    | [], _ => rfl
    | x :: xs, h => by
        simp only [hasIntArrList, Bool.or_eq_false_iff] at h
        simp only [int2floatList, int2float_of_no x h.1, int2floatList_of_no xs h.2]
  theorem int2floatKVs_of_no : ∀ (kvs : List (String × Val)), hasIntArrKVs kvs = false → int2floatKVs kvs = kvs
    | [], _ => rfl
    | (k, v) :: kvs, h => by
        simp only [hasIntArrKVs, Bool.or_eq_false_iff] at h
        simp only [int2floatKVs, int2float_of_no v h.1, int2floatKVs_of_no kvs h.2]
end

theorem int2floatKw_of_no (exc : List String) : ∀ (kvs : PDict), hasIntArrKVs kvs = false → int2floatKw exc kvs = kvs
  | [], _ => rfl
  | (k, v) :: kvs, h => by
      simp only [hasIntArrKVs, Bool.or_eq_false_iff] at h
      simp only [int2floatKw, int2float_of_no v h.1, int2floatKw_of_no exc kvs h.2, ite_self]

/-- without an int ndarray among the arguments `pd2np` forwards the call it received -/
theorem pd2npCall_of_no (exc : List String) (c : Call) (h : c.hasIntArr = false) : pd2npCall exc c = c := by
  cases c with
  | mk args kw =>
    simp only [Call.hasIntArr, Bool.or_eq_false_iff] at h
    simp only [pd2npCall, int2floatList_of_no args h.1, int2floatKw_of_no exc kw h.2]

theorem hasIntArrKVs_false_iff : ∀ (kvs : PDict), hasIntArrKVs kvs = false ↔ ∀ p ∈ kvs, p.2.hasIntArr = false
  | [] => by simp [hasIntArrKVs]
  | (k, v) :: kvs => by
      simp only [hasIntArrKVs, Bool.or_eq_false_iff, List.mem_cons, forall_eq_or_imp, hasIntArrKVs_false_iff kvs]

/-- the call `loops` forwards holds the same argument values: no int ndarray appears -/
theorem loopsCall_hasIntArr (s : Sig) (c : Call) (h : c.hasIntArr = false) : (loopsCall s c).hasIntArr = false := by
  cases c with
  | mk args kw =>
    simp only [Call.hasIntArr, Bool.or_eq_false_iff] at h
    obtain ⟨ha, hk⟩ := h
    have hk' := (hasIntArrKVs_false_iff kw).1 hk
    unfold loopsCall
    cases args with
    | cons a as =>
      simp only [Call.hasIntArr, Bool.or_eq_false_iff]
      refine ⟨ha, (hasIntArrKVs_false_iff _).2 fun p hp => hk' p (List.mem_filter.1 hp).1⟩
    | nil =>
      cases hp : s.params with
      | nil => simp [Call.hasIntArr, hk, hasIntArrList]
      | cons top ps =>
        simp only
        cases hl : kw.lookup top with
        | none => simp [Call.hasIntArr, hk, hasIntArrList]
        | some arg =>
          simp only [Call.hasIntArr, Bool.or_eq_false_iff, hasIntArrList, Bool.or_false]
          refine ⟨?_, (hasIntArrKVs_false_iff _).2 fun p hp =>
            hk' p (List.mem_filter.1 (List.mem_filter.1 hp).1).1⟩
          have hm : (top, arg) ∈ kw := by
            have := List.lookup_eq_some_iff.1 hl
            obtain ⟨l1, l2, he, _⟩ := this
            rw [he]; simp
          exact hk' _ hm


theorem lookup_none_of_not_key (junk : PDict) (k : String) (h : ∀ p ∈ junk, p.1 ≠ k) : junk.lookup k = none := by
  induction junk with
  | nil => rfl
  | cons q t ih =>
    obtain ⟨qk, qv⟩ := q
    have hq : qk ≠ k := h (qk, qv) (by simp)
    have : (k == qk) = false := by simp [Ne.symm hq]
    simp only [List.lookup, this]
    exact ih (fun p hp => h p (by simp [hp]))

/-- `loops` forwards undeclared keywords (none called `axis`) untouched, behind the keywords of the call -/
theorem loopsCall_append (s : Sig) (c : Call) (junk : PDict) (hj : ∀ p ∈ junk, p.1 ∉ s.params)
    (hax : ∀ p ∈ c.kw ++ junk, p.1 ≠ "axis") :
    loopsCall s { c with kw := c.kw ++ junk } = { loopsCall s c with kw := (loopsCall s c).kw ++ junk } := by
  have haxk : ∀ p ∈ c.kw, p.1 ≠ "axis" := fun p hp => hax p (by simp [hp])
  have haxj : ∀ p ∈ junk, p.1 ≠ "axis" := fun p hp => hax p (by simp [hp])
  cases c with
  | mk args kw =>
    unfold loopsCall
    cases args with
    | cons a as =>
      simp only [popAxis_eq kw haxk, popAxis_eq (kw ++ junk) hax]
    | nil =>
      cases hp : s.params with
      | nil => rfl
      | cons top ps =>
        have htop : ∀ p ∈ junk, p.1 ≠ top := fun p hpj he => hj p hpj (by rw [hp, he]; simp)
        have hjl : junk.lookup top = none := lookup_none_of_not_key junk top htop
        simp only [List.lookup_append, hjl, Option.or_none]
        cases hl : kw.lookup top with
        | none => rfl
        | some arg =>
          simp only [PDict.erase, popAxis, List.filter_append]
          have h1 : junk.filter (fun p => p.1 != top) = junk := by
            apply List.filter_eq_self.2
            intro q hq
            simpa using htop q hq
          have h2 : junk.filter (fun p => p.1 != "axis") = junk := by
            apply List.filter_eq_self.2
            intro q hq
            simpa using haxj q hq
          rw [h1, h2]


theorem hasIntArr_append_left (c : Call) (junk : PDict) (h : ({ c with kw := c.kw ++ junk } : Call).hasIntArr = false) :
    c.hasIntArr = false := by
  simp only [Call.hasIntArr, Bool.or_eq_false_iff] at h ⊢
  refine ⟨h.1, (hasIntArrKVs_false_iff _).2 fun p hp => (hasIntArrKVs_false_iff _).1 h.2 p (by simp [hp])⟩


/-- `kw` has every key of `p` (a subclass `__init__` passes its COMPLETE parameter set: `try_value.__init__` always passes
`repeat, sleep, return_value, value, verbose`, `loops` its `types`, `pd2np` its `exc`) -/
def Covers (kw p : PDict) : Prop := ∀ k, (p.lookup k).isSome → (kw.lookup k).isSome

theorem update_covered_eqv (p kw : PDict) (hn : (kw.map (·.1)).Nodup) (hc : Covers kw p) :
    PDict.Eqv (p.update kw) kw := by
  intro k
  rw [lookup_update_nodup _ _ hn]
  cases hk : kw.lookup k with
  | some v => simp
  | none =>
    cases hp : p.lookup k with
    | none => simp
    | some v =>
      have := hc k (by simp [hp])
      simp [hk] at this

theorem covers_update (kw p u : PDict) (hu : (u.map (·.1)).Nodup) (h1 : Covers kw p) (h2 : Covers kw u) :
    Covers kw (p.update u) := by
  intro k hk
  rw [lookup_update_nodup _ _ hu] at hk
  cases hl : u.lookup k with
  | some v => exact h2 k (by simp [hl])
  | none =>
    simp only [hl, Option.none_or] at hk
    exact h1 k hk


/-! ### memo fields and constructor in one model -/


/-- which layers of a chain survive a constructor of class `cls`: the wrapper of the same class is cut out (`mk_chain`) -/
def keepOf (cls : Cls) (ch : List (Cls × PDict)) : List Bool := ch.map fun w => w.1 != cls

/-- a decorated function together with the memo field `function_fullargspec` of every wrapper object of its chain
(outermost first) -/
structure WFnM where
  fn : WFn
  memos : Memos

/-- what a program does with a decorated function as far as specifications are concerned -/
inductive WOp where
  | wrap (cls : Cls) (kw : PDict)      -- apply a decorator: `mk` on the chain, `mkMemos` on the memo fields
  | request (depth : Nat)              -- `getargspec` of the object `depth` levels below the top

def WOp.run (base : Sig) : WOp → WFnM → WFnM
  | .wrap cls kw, f => { fn := mk cls kw f.fn, memos := mkMemos (keepOf cls f.fn.chain) f.memos }
  | .request d, f => { f with memos := f.memos.take d ++ fillMemos base (f.memos.drop d) }

def WOp.wrapOf : WOp → Option (Cls × PDict)
  | .wrap cls kw => some (cls, kw)
  | .request _ => Option.none

theorem kept_length (g : Cls × PDict → Bool) : ∀ (ch : List (Cls × PDict)) (ms : Memos), ms.length = ch.length →
    ((ms.zip (ch.map g)).filter (·.2)).length = (ch.filter g).length
  | [], ms, _ => by simp
  | w :: ch, [], h => by simp at h
  | w :: ch, m :: ms, h => by
      have ih := kept_length g ch ms (by simpa using h)
      cases hg : g w <;> simp [List.filter, hg, ih]

theorem fillMemos_length (base : Sig) : ∀ ms : Memos, (fillMemos base ms).length = ms.length
  | [] => rfl
  | some _ :: _ => rfl
  | Option.none :: rest => by simp [fillMemos, fillMemos_length base rest]

theorem foldl_fn (base : Sig) : ∀ (ops : List WOp) (f : WFnM),
    (ops.foldl (fun f op => op.run base f) f).fn = mkMany (ops.filterMap WOp.wrapOf) f.fn
  | [], f => rfl
  | op :: ops, f => by
      simp only [List.foldl_cons]
      rw [foldl_fn base ops]
      cases op with
      | wrap cls kw => simp [WOp.run, WOp.wrapOf, mkMany]
      | request d => simp [WOp.run, List.filterMap_cons, WOp.wrapOf]

end Pyg
