/-
  Column names stay distinct under every operation of the dictable model (python dict keys are unique;
  the model's `Table` is a plain association list, so this is an invariant to prove).
-/
import PygProofs.Lemmas.TableCons

namespace Pyg
namespace Table

theorem cols_map_snd (t : Table) (f : String × List Cell → List Cell) :
    Table.cols (t.map fun c => (c.1, f c)) = t.cols := by
  simp [cols, List.map_map, Function.comp_def]

theorem finish_cols {t t' : Table} (h : t.finish = .ok t') : t'.cols = t.cols := by
  unfold finish at h
  split at h
  · cases h
  · cases h; exact cols_map_snd t _

theorem updateWith_nodup (t u : Table) (h : t.cols.Nodup) : (t.updateWith u).cols.Nodup :=
  foldl_set_nodup u t h

theorem construct_nodup {data : Data} {columns : Option (List String)} {kwargs : List (String × ColVal)}
    {t : Table} (h : construct data columns kwargs = some (.ok t)) : t.cols.Nodup := by
  unfold construct at h
  split at h
  · cases h
  · cases h
  · rename_i dk _
    simp only [Option.some.injEq] at h
    rw [finish_cols h]
    split
    · exact updateWith_nodup _ _ (ofPairs_nodup _)
    · split <;> exact ofPairs_nodup _

theorem setitem_nodup {t t' : Table} {k : String} {v : ColVal} (h : t.cols.Nodup)
    (hs : t.setitem k v = .ok t') : t'.cols.Nodup := by
  unfold setitem at hs
  split at hs
  · cases hs
  · simp only at hs
    split at hs
    · cases hs; exact set_nodup _ _ h
    · split at hs
      · cases hs; exact set_nodup _ _ h
      · cases hs

theorem erase_nodup {t : Table} (k : String) (h : t.cols.Nodup) : (t.erase k).cols.Nodup := by
  have : (t.erase k).cols = t.cols.filter (· != k) := by
    simp [Table.erase, cols, List.filter_map, Function.comp_def]
  rw [this]
  exact h.sublist List.filter_sublist

theorem update_nodup {t : Table} (kvs : List (String × ColVal)) (h : t.cols.Nodup) :
    (t.update kvs).1.cols.Nodup := by
  induction kvs generalizing t with
  | nil => exact h
  | cons kv kvs ih =>
    obtain ⟨k, v⟩ := kv
    simp only [update]
    split
    · exact h
    · rename_i t' hs
      exact ih (setitem_nodup h hs)

theorem updateE_nodup {t t' : Table} {kvs : List (String × ColVal)} (h : t.cols.Nodup)
    (hu : t.updateE kvs = .ok t') : t'.cols.Nodup := by
  unfold updateE at hu
  have := update_nodup kvs h
  split at hu
  · rename_i t'' heq
    cases hu
    rw [heq] at this
    exact this
  · cases hu

theorem getSlice_cols {t t' : Table} {a b s : Option Int} (hs : t.getSlice a b s = .ok t') :
    t'.cols = t.cols := by
  unfold getSlice at hs
  split at hs
  · cases hs
  · cases hs; exact cols_map_snd t _

theorem getMask_cols {t t' : Table} {m : List Bool} (hs : t.getMask m = .ok t') : t'.cols = t.cols := by
  unfold getMask at hs
  split at hs
  · cases hs
  · split at hs
    · cases hs; exact cols_emptyLike t
    · cases hs; exact cols_gatherRows t _

theorem getTake_cols {t t' : Table} {is : List Int} (hs : t.getTake is = .ok t') : t'.cols = t.cols := by
  unfold getTake at hs
  split at hs
  · cases hs; exact cols_emptyLike t
  · split at hs
    · cases hs
    · cases hs; exact cols_gatherRows t _

theorem getProj_nodup {t t' : Table} {ks : List String} (h : t.cols.Nodup)
    (hs : t.getProj ks = .ok t') : t'.cols.Nodup := by
  unfold getProj at hs
  split at hs
  · cases hs; rw [cols_emptyLike]; exact h
  · split at hs
    · cases hs
    · cases hs; exact ofPairs_nodup _

theorem setFn_nodup {t t' : Table} {kf : String × Fn} (h : t.cols.Nodup)
    (hs : t.setFn kf = .ok t') : t'.cols.Nodup := by
  unfold setFn at hs
  split at hs
  · cases hs
  · exact setitem_nodup h hs

theorem setFns_nodup {t t' : Table} (fns : List (String × Fn)) (h : t.cols.Nodup)
    (hs : t.setFns fns = .ok t') : t'.cols.Nodup := by
  induction fns generalizing t with
  | nil => simp [setFns] at hs; cases hs; exact h
  | cons kf fns ih =>
    simp only [setFns] at hs
    split at hs
    · cases hs
    · rename_i t1 h1
      exact ih (setFn_nodup h h1) hs

theorem callLoop_nodup {t t' : Table} (fuel : Nat) (fns : List (String × Fn)) (h : t.cols.Nodup)
    (hs : t.callLoop fuel fns = .ok t') : t'.cols.Nodup := by
  induction fuel generalizing t fns with
  | zero => exact setFns_nodup fns h hs
  | succ fuel ih =>
    simp only [callLoop] at hs
    split at hs
    · split at hs
      · cases hs
      · split at hs
        · cases hs
        · rename_i t1 h1
          exact ih _ (setFns_nodup _ h h1) hs
    · exact setFns_nodup fns h hs

theorem call_nodup {t t' : Table} {consts : List (String × ColVal)} {fns : List (String × Fn)}
    (h : t.cols.Nodup) (hs : t.call consts fns = .ok t') : t'.cols.Nodup := by
  unfold call at hs
  split at hs
  · cases hs
  · rename_i t1 h1
    exact callLoop_nodup _ _ (updateE_nodup h h1) hs

theorem doKeys_nodup {t t' : Table} {f : DoFn} (ks : List String) (h : t.cols.Nodup)
    (hs : t.doKeys f ks = .ok t') : t'.cols.Nodup := by
  induction ks generalizing t with
  | nil => simp [doKeys] at hs; cases hs; exact h
  | cons k ks ih =>
    simp only [doKeys] at hs
    split at hs
    · cases hs
    · rename_i t1 h1
      apply ih _ hs
      unfold doKey at h1
      split at h1
      · cases h1
      · exact setitem_nodup h h1

theorem concat_nodup (ts : List Table) : (Table.concat ts).cols.Nodup := by
  have : (Table.concat ts).cols = dedupKeys (ts.flatMap Table.cols) := by
    simp [Table.concat, cols, List.map_map, Function.comp_def]
  rw [this]
  exact nodup_dedupKeys _

end Table

/-- every live table has distinct column names -/
def HeapNodup (s : Heap) : Prop := ∀ t ∈ s, t.cols.Nodup

theorem HeapNodup.nil : HeapNodup [] := by intro t ht; cases ht

theorem HeapNodup.get {s : Heap} (hs : HeapNodup s) {h : Nat} {t : Table} (ht : s[h]? = some t) :
    t.cols.Nodup := hs t (List.mem_of_getElem? ht)

theorem HeapNodup.set {s : Heap} (hs : HeapNodup s) (h : Nat) {t : Table} (ht : t.cols.Nodup) :
    HeapNodup (s.set h t) := by
  intro t' ht'
  rcases List.mem_or_eq_of_mem_set ht' with hm | rfl
  · exact hs t' hm
  · exact ht

theorem HeapNodup.put {s : Heap} (hs : HeapNodup s) (d : Nat) {t : Table} (ht : t.cols.Nodup) :
    HeapNodup (s.put d t) := by
  unfold Heap.put
  split
  · exact hs.set d ht
  · intro t' ht'
    rcases List.mem_append.1 ht' with hm | hm
    · exact hs t' hm
    · simp at hm; subst hm; exact ht

theorem HeapNodup.bind {s : Heap} (hs : HeapNodup s) (d : Nat) {r : Except Err Table}
    (hr : ∀ t, r = .ok t → t.cols.Nodup) : HeapNodup (s.bind d r).1 := by
  unfold Heap.bind
  split
  · rename_i t
    exact hs.put d (hr t rfl)
  · exact hs

end Pyg
