/-
  Helper lemmas for C08 (PygModel/Ops.lean).
-/
import PygModel.Ops
import PygProofs.Lemmas.AlignLemmas

namespace Pyg.Ops
open Pyg Pyg.Align

theorem appO_comm_add (x y : Option Rat) : Op.appO .add x y = Op.appO .add y x := by
  cases x <;> cases y <;> simp [Op.appO, Op.app, Rat.add_comm]

theorem appO_comm_mul (x y : Option Rat) : Op.appO .mul x y = Op.appO .mul y x := by
  cases x <;> cases y <;> simp [Op.appO, Op.app, Rat.mul_comm]

theorem reindexR_idx (s : RSeries) (ix : List Int) (m : Option Dir) : (reindexR s ix m).idx = ix := by
  cases m with
  | none => rfl
  | some d => cases d <;> rfl

theorem reindexR_len (s : RSeries) (ix : List Int) (m : Option Dir) : (reindexR s ix m).vals.length = ix.length := by
  cases m with
  | none => simp [reindexR]
  | some d => cases d <;> simp [reindexR]

/-- two strictly increasing lists with the same members are equal -/
theorem sorted_ext (a b : List Int) (ha : SortedL a) (hb : SortedL b) (h : ∀ t, t ∈ a ↔ t ∈ b) : a = b := by
  induction a generalizing b with
  | nil =>
    cases b with
    | nil => rfl
    | cons y ys => have := (h y).mpr (by simp); simp at this
  | cons x xs ih =>
    cases b with
    | nil => have := (h x).mp (by simp); simp at this
    | cons y ys =>
      have hx := List.pairwise_cons.mp ha
      have hy := List.pairwise_cons.mp hb
      have hxy : x = y := by
        have h1 := (h x).mp (by simp)
        have h2 := (h y).mpr (by simp)
        rcases List.mem_cons.mp h1 with e | h1
        · exact e
        · rcases List.mem_cons.mp h2 with e | h2
          · exact e.symm
          · have := hy.1 x h1; have := hx.1 y h2; omega
      subst hxy
      congr 1
      apply ih ys hx.2 hy.2
      intro t
      constructor
      · intro ht
        have := (h t).mp (by simp [ht])
        rcases List.mem_cons.mp this with e | h'
        · subst e; have := hx.1 t ht; omega
        · exact h'
      · intro ht
        have := (h t).mpr (by simp [ht])
        rcases List.mem_cons.mp this with e | h'
        · subst e; have := hy.1 t ht; omega
        · exact h'

theorem joinIndex_comm_inner (a b : List Int) (ha : SortedL a) (hb : SortedL b) :
    joinIndex .inner [a, b] = joinIndex .inner [b, a] := by
  simp only [joinIndex, List.foldl_cons, List.foldl_nil]
  congr 1
  apply sorted_ext _ _ (sorted_inter a b ha) (sorted_inter b a hb)
  intro t; rw [mem_inter, mem_inter]; exact And.comm

theorem joinIndex_comm_outer (a b : List Int) (ha : SortedL a) (hb : SortedL b) :
    joinIndex .outer [a, b] = joinIndex .outer [b, a] := by
  simp only [joinIndex, List.foldl_cons, List.foldl_nil]
  congr 1
  apply sorted_ext _ _ (sorted_union a b ha) (sorted_union b a hb)
  intro t; rw [mem_union, mem_union]; exact Or.comm

theorem foldl_add_getD (vs : List (Option Rat)) (acc : Rat) :
    (vs.map fun v => v.getD 0).foldl (· + ·) acc = (vs.filterMap id).foldl (· + ·) acc := by
  induction vs generalizing acc with
  | nil => rfl
  | cons v vs ih =>
    cases v with
    | none => simp [ih, Rat.add_zero]
    | some x => simp [ih]

end Pyg.Ops
