/-
  `_int2float` / `pd2npCall` (pd2np on non-pandas input, _loop.py `_int2float`, `pd2np.wrapped`): what the conversion does, stated through
  observations (is an int ndarray left? which keys / how many arguments? what does a lookup give?) - round j6 (review v5).
-/
import PygModel.Wrap
import PygProofs.Lemmas.WrapLemmas

namespace Pyg

theorem isIntArr_float (t : String) : isIntArr ("~arr:f:" ++ t) = false := by
  simp [isIntArr]

mutual
  theorem int2float_no_int : ∀ (v : Val), (int2float v).hasIntArr = false
    | .cell .none => rfl
    | .cell (.bool _) => rfl
    | .cell (.int _) => rfl
    | .cell (.flt _) => rfl
    | .cell .nan => rfl
    | .cell .pinf => rfl
    | .cell .ninf => rfl
    | .cell (.dt _) => rfl
    | .cell (.str s) => by
        by_cases h : isIntArr s = true
        · simp only [int2float, h, if_true, Val.hasIntArr]; exact isIntArr_float _
        · have h' : isIntArr s = false := by simpa using h
          simp [int2float, h', Val.hasIntArr]
    | .list xs => by simp only [int2float, Val.hasIntArr, int2floatList_no_int xs]
    | .tuple xs => by simp only [int2float, Val.hasIntArr, int2floatList_no_int xs]
    | .dict kvs => by simp only [int2float, Val.hasIntArr, int2floatKVs_no_int kvs]
  theorem int2floatList_no_int : ∀ (xs : List Val), hasIntArrList (int2floatList xs) = false
    | [] => rfl
    | x :: xs => by simp only [int2floatList, hasIntArrList, int2float_no_int x, int2floatList_no_int xs, Bool.or_self]
  theorem int2floatKVs_no_int : ∀ (kvs : List (String × Val)), hasIntArrKVs (int2floatKVs kvs) = false
    | [] => rfl
    | (k, v) :: kvs => by simp only [int2floatKVs, hasIntArrKVs, int2float_no_int v, int2floatKVs_no_int kvs, Bool.or_self]
end

/-- `_int2float` leaves a value as it is exactly when it holds no int ndarray -/
theorem int2float_eq_self_iff (v : Val) : int2float v = v ↔ v.hasIntArr = false := by
  constructor
  · intro h
    have := int2float_no_int v
    rwa [h] at this
  · exact int2float_of_no v

theorem int2floatList_eq_self_iff (xs : List Val) : int2floatList xs = xs ↔ hasIntArrList xs = false := by
  constructor
  · intro h
    have := int2floatList_no_int xs
    rwa [h] at this
  · exact int2floatList_of_no xs

theorem int2floatKw_nil : ∀ (kvs : PDict), int2floatKw [] kvs = int2floatKVs kvs
  | [] => rfl
  | (k, v) :: kvs => by simp [int2floatKw, int2floatKVs, int2floatKw_nil kvs]

theorem int2floatKVs_eq_self_iff (kvs : List (String × Val)) : int2floatKVs kvs = kvs ↔ hasIntArrKVs kvs = false := by
  constructor
  · intro h
    have := int2floatKVs_no_int kvs
    rwa [h] at this
  · exact int2floatKVs_of_no kvs

theorem pd2np_identity_iff (c : Call) : pd2npCall [] c = c ↔ c.hasIntArr = false := by
  cases c with
  | mk args kw =>
    simp only [pd2npCall, Call.mk.injEq, int2floatKw_nil, int2floatList_eq_self_iff, int2floatKVs_eq_self_iff,
      Call.hasIntArr, Bool.or_eq_false_iff]

theorem int2floatKw_keys (exc : List String) : ∀ (kvs : PDict), (int2floatKw exc kvs).map Prod.fst = kvs.map Prod.fst
  | [] => rfl
  | (k, v) :: kvs => by simp [int2floatKw, int2floatKw_keys exc kvs]

theorem int2floatList_length : ∀ (xs : List Val), (int2floatList xs).length = xs.length
  | [] => rfl
  | x :: xs => by simp [int2floatList, int2floatList_length xs]

theorem int2floatKw_lookup (exc : List String) (k : String) : ∀ (kvs : PDict),
    (int2floatKw exc kvs).lookup k = (kvs.lookup k).map (fun v => if exc.contains k then v else int2float v)
  | [] => rfl
  | (k', v) :: kvs => by
      by_cases h : k = k'
      · subst h; simp [int2floatKw, List.lookup]
      · have : (k == k') = false := by simpa using h
        simp [int2floatKw, List.lookup, this, int2floatKw_lookup exc k kvs]

end Pyg
