/- helper lemmas for C04 (constructors of the dt model) -/
import PygModel.DateParse
import PygProofs.Lemmas.MonthLemmas

namespace Pyg.DateParse
open Pyg Pyg.Bump Pyg.Greg

/-- `datetime.datetime(y, m, d)` of a calendar date succeeds -/
theorem mkDateChecked_valid (y m d : Nat) (v : Valid y m d) : mkDateChecked y m d = .ok (mkDate y m d) := by
  unfold Valid at v
  unfold mkDateChecked
  simp only [Int.toNat_natCast]
  rw [if_pos (by omega)]

end Pyg.DateParse
