/- helper lemmas for C04 (constructors of the dt model) -/
import PygModel.DateParse
import PygProofs.Lemmas.MonthLemmas

namespace Pyg.DateParse
open Pyg Pyg.Bump Pyg.Greg

/-- `datetime.datetime(y, m, d)` of a calendar date succeeds -/
theorem mkDateChecked_valid (y m d : Nat) (v : Valid y m d) : mkDateChecked y m d = .ok (mkDate y m d) := by
  unfold Valid at v
  unfold mkDateChecked
  simp only [Int.toNat_natCast]
  rw [if_pos (by omega)]

/-- every instant of a representable day is inside the datetime range -/
theorem mkDate_day_in_range (y m d : Nat) (v : Valid y m d) : 0 ≤ mkDate y m d ∧ mkDate y m d + DAYUS ≤ MAXUS := by
  have := ord_range y m d v
  unfold mkDate ofOrd MAXUS DAYUS
  omega

end Pyg.DateParse
