/-
  Helper lemmas for C20: the inputs of `join` as sources (`inputSrc`), what `_item` keeps of them,
  and the `mapM` over the inputs.
-/
import PygProofs.Lemmas.PerDictItem

namespace Pyg

/-- the table inputs, in call order -/
def tableInputs (inputs : List (String × PInput)) : List (String × Table) :=
  inputs.filterMap fun kv => match kv.2 with
    | .table d => some (kv.1, d)
    | .scalar _ => none

/-- the scalar inputs, in call order -/
def scalarInputs (inputs : List (String × PInput)) : List (String × Cell) :=
  inputs.filterMap fun kv => match kv.2 with
    | .scalar c => some (kv.1, c)
    | .table _ => none

/-- the table `_item` returns (`[]` when it raises) -/
def itemD (d : Table) (key : String) (on : List String) : Table :=
  match item d key on with
  | .ok t => t
  | .error _ => []

/-- the per-input stage of `join`: scalars pass, every table goes through `_item` -/
theorem mapM_item_sem (on : List String) : ∀ (inputs seq : List (String × PInput)),
    inputs.mapM (fun kv => match kv.2 with
      | .table d => (item d kv.1 on).map fun d' => (kv.1, PInput.table d')
      | .scalar c => (Except.ok (kv.1, PInput.scalar c) : Res (String × PInput))) = .ok seq →
    scalarInputs seq = scalarInputs inputs ∧
    tableInputs seq = (tableInputs inputs).map (fun a => (a.1, itemD a.2 a.1 on)) ∧
    ∀ a ∈ tableInputs inputs, item a.2 a.1 on = .ok (itemD a.2 a.1 on) := by
  intro inputs
  induction inputs with
  | nil =>
    intro seq h
    simp only [List.mapM_nil, pure, Except.pure, Except.ok.injEq] at h
    subst h
    exact ⟨rfl, rfl, fun a ha => by cases ha⟩
  | cons x xs ih =>
    intro seq h
    simp only [List.mapM_cons, bind, Except.bind] at h
    split at h
    · cases h
    · rename_i y hy
      split at h
      · cases h
      · rename_i ys hys
        simp only [pure, Except.pure, Except.ok.injEq] at h
        subst h
        obtain ⟨i1, i2, i3⟩ := ih ys hys
        obtain ⟨k, v⟩ := x
        cases v with
        | scalar c =>
          simp only [Except.ok.injEq] at hy
          subst hy
          refine ⟨?_, ?_, ?_⟩
          · simp only [scalarInputs, List.filterMap_cons] at i1 ⊢
            rw [i1]
          · simp only [tableInputs, List.filterMap_cons] at i2 ⊢
            exact i2
          · intro a ha
            simp only [tableInputs, List.filterMap_cons] at ha
            exact i3 a ha
        | table d =>
          simp only [Except.map] at hy
          split at hy
          · cases hy
          · rename_i t ht
            simp only [Except.ok.injEq] at hy
            subst hy
            have hD : itemD d k on = t := by simp [itemD, ht]
            refine ⟨?_, ?_, ?_⟩
            · simp only [scalarInputs, List.filterMap_cons] at i1 ⊢
              exact i1
            · simp only [tableInputs, List.filterMap_cons, List.map_cons] at i2 ⊢
              rw [i2, hD]
            · intro a ha
              simp only [tableInputs, List.filterMap_cons, List.mem_cons] at ha
              rcases ha with rfl | ha
              · simp only [hD]; exact ht
              · exact i3 a ha

theorem tableInputs_names (inputs : List (String × PInput)) :
    ((tableInputs inputs).map (·.1)).Sublist (inputs.map (·.1)) := by
  induction inputs with
  | nil => exact List.Sublist.slnil
  | cons x xs ih =>
    obtain ⟨k, v⟩ := x
    cases v with
    | scalar c => simpa [tableInputs] using ih.cons k
    | table d => simpa [tableInputs] using ih.cons_cons k

theorem scalarInputs_names (inputs : List (String × PInput)) :
    ((scalarInputs inputs).map (·.1)).Sublist (inputs.map (·.1)) := by
  induction inputs with
  | nil => exact List.Sublist.slnil
  | cons x xs ih =>
    obtain ⟨k, v⟩ := x
    cases v with
    | scalar c => simpa [scalarInputs] using ih.cons_cons k
    | table d => simpa [scalarInputs] using ih.cons k

theorem mem_tableInputs {inputs : List (String × PInput)} {a : String × Table} :
    a ∈ tableInputs inputs ↔ (a.1, PInput.table a.2) ∈ inputs := by
  simp only [tableInputs, List.mem_filterMap]
  constructor
  · rintro ⟨⟨k, v⟩, hkv, he⟩
    cases v with
    | scalar c => simp at he
    | table d => simp only [Option.some.injEq] at he; subst he; exact hkv
  · intro h
    exact ⟨_, h, rfl⟩

theorem mem_scalarInputs {inputs : List (String × PInput)} {a : String × Cell} :
    a ∈ scalarInputs inputs ↔ (a.1, PInput.scalar a.2) ∈ inputs := by
  simp only [scalarInputs, List.mem_filterMap]
  constructor
  · rintro ⟨⟨k, v⟩, hkv, he⟩
    cases v with
    | table d => simp at he
    | scalar c => simp only [Option.some.injEq] at he; subst he; exact hkv
  · intro h
    exact ⟨_, h, rfl⟩

theorem eq_of_nodup_fst {α β} {l : List (α × β)} (h : (l.map (·.1)).Nodup) {x y : α × β}
    (hx : x ∈ l) (hy : y ∈ l) (he : x.1 = y.1) : x = y := by
  induction l with
  | nil => cases hx
  | cons a as ih =>
    have hnd : a.1 ∉ as.map (·.1) ∧ (as.map (·.1)).Nodup := List.nodup_cons.1 h
    rcases List.mem_cons.1 hx with rfl | hx' <;> rcases List.mem_cons.1 hy with rfl | hy'
    · rfl
    · exact absurd (List.mem_map.2 ⟨y, hy', he.symm⟩) hnd.1
    · exact absurd (List.mem_map.2 ⟨x, hx', he⟩) hnd.1
    · exact ih hnd.2 hx' hy'

/-- a table name and a scalar name are different names of one dict -/
theorem table_scalar_names {inputs : List (String × PInput)} (hnd : (inputs.map (·.1)).Nodup)
    {a : String × Table} {b : String × Cell} (ha : a ∈ tableInputs inputs)
    (hb : b ∈ scalarInputs inputs) : b.1 ≠ a.1 := by
  intro he
  have h1 := mem_tableInputs.1 ha
  have h2 := mem_scalarInputs.1 hb
  rw [he] at h2
  have := eq_of_nodup_fst hnd h1 h2 rfl
  simp at this

/-! ### an input table as a source -/

/-- the column of `d` that `_item` takes as the value of parameter `key`: the column named like the
parameter, else `data` (unless it is a key column), else the only non-key column -/
def valueCol (d : Table) (key : String) (on : List String) : String :=
  if key ∈ d.cols then key
  else if "data" ∈ d.cols ∧ "data" ∉ on then "data"
  else (lminus d.cols on).headD ""

/-- the rows of an input: its own cells, with the value column read under the parameter's name -/
def inputRows (on : List String) (name : String) (d : Table) : Rows :=
  ⟨d.nrows, fun i c => if c = name then d.jcellAt (valueCol d name on) i else d.jcellAt c i⟩

/-- a table input of `join` as a source -/
def inputSrc (on : List String) (defaults : List (String × Cell)) (kv : String × Table) : Src :=
  ⟨inputRows on kv.1 kv.2, kv.1, dfltOf defaults kv.1⟩

/-- two row families agree on the key columns and on the column `name` -/
def RowsAgree (on : List String) (name : String) (A A' : Rows) : Prop :=
  A.n = A'.n ∧ ∀ i, i < A.n → (∀ c ∈ on, A.row i c = A'.row i c) ∧ A.row i name = A'.row i name

theorem RowsAgree.keq {on : List String} {name : String} {A A' : Rows} (h : RowsAgree on name A A')
    {i : Nat} (hi : i < A.n) : keq on (A.row i) (A'.row i) :=
  keq_of_agree (h.2 i hi).1

theorem RowsAgree.hasK {on : List String} {name : String} {A A' : Rows} (h : RowsAgree on name A A')
    (k : Row) : A.hasK on k ↔ A'.hasK on k := by
  constructor
  · rintro ⟨i, hi, he⟩
    exact ⟨i, h.1 ▸ hi, keq_trans (keq_symm (h.keq hi)) he⟩
  · rintro ⟨i, hi, he⟩
    have hi' : i < A.n := h.1 ▸ hi
    exact ⟨i, hi', keq_trans (h.keq hi') he⟩

theorem RowsAgree.uniq {on : List String} {name : String} {A A' : Rows} (h : RowsAgree on name A A')
    (hu : A'.uniq on) : A.uniq on := by
  intro i j hi hj he
  exact hu i j (h.1 ▸ hi) (h.1 ▸ hj)
    (keq_trans (keq_symm (h.keq hi)) (keq_trans he (h.keq hj)))

theorem RowsAgree.vrow {on : List String} {name : String} {A A' : Rows} (h : RowsAgree on name A A')
    {r : Row} {dv : Option Cell} (hv : vrow on r ⟨A, name, dv⟩) : vrow on r ⟨A', name, dv⟩ := by
  rcases hv with ⟨j, hj, he, hval⟩ | ⟨hno, hd⟩
  · refine .inl ⟨j, h.1 ▸ hj, keq_trans (keq_symm (h.keq hj)) he, ?_⟩
    exact hval.trans (h.2 j hj).2
  · refine .inr ⟨fun j hj he => ?_, hd⟩
    have hj' : j < A.n := h.1 ▸ hj
    exact hno j hj' (keq_trans (h.keq hj') he)

/-- **what `_item` keeps**: the rows of the input, on the key columns and the value column -/
theorem item_rows (d t : Table) (key : String) (on : List String) (hd : d.WF)
    (hdn : d.cols.Nodup) (hon : ∀ c ∈ on, c ∈ d.cols) (hkey : key ∉ on)
    (h : item d key on = .ok t) :
    KeyedSrc on t key ∧ RowsAgree on key t.R (inputRows on key d) := by
  obtain ⟨hk, hn, hcells, vc, hvc1, hvc2, hval, hcase⟩ := item_sem d t key on hd hdn hon hkey h
  have hvc : valueCol d key on = vc := by
    simp only [valueCol]
    rcases hcase with h1 | ⟨h1, h2⟩ | ⟨h1, h2, h3⟩
    · subst h1; simp [hvc1]
    · subst h2; simp [h1, hvc1, hvc2]
    · simp only [h1, if_false, h2]
      have hm : vc ∈ lminus d.cols on := mem_lminus.2 ⟨hvc1, hvc2⟩
      cases hl : lminus d.cols on with
      | nil => rw [hl] at hm; cases hm
      | cons x xs =>
        have hx : x ∈ lminus d.cols on := by rw [hl]; simp
        have := mem_lminus.1 hx
        rcases h3 x this.1 with h4 | h4
        · exact absurd h4 this.2
        · simp [h4]
  refine ⟨hk, hn, fun i _ => ⟨?_, ?_⟩⟩
  · intro c hc
    have hne : c ≠ key := fun he => hkey (he ▸ hc)
    simp only [Table.R_row, Table.rowF, inputRows, hne, if_false]
    exact hcells c hc i
  · simp only [Table.R_row, Table.rowF, inputRows, if_true, hvc]
    exact hval i

theorem inputRows_agree (on : List String) (name : String) (d : Table) (hname : name ∉ on) :
    ∀ i, keq on ((inputRows on name d).row i) (d.rowF i) := by
  intro i
  apply keq_of_agree
  intro c hc
  have : c ≠ name := fun he => hname (he ▸ hc)
  simp [inputRows, this, Table.rowF]

theorem inputRows_hasK (on : List String) (name : String) (d : Table) (hname : name ∉ on) (k : Row) :
    (inputRows on name d).hasK on k ↔ d.R.hasK on k := by
  constructor
  · rintro ⟨i, hi, he⟩
    exact ⟨i, hi, keq_trans (keq_symm (inputRows_agree on name d hname i)) he⟩
  · rintro ⟨i, hi, he⟩
    exact ⟨i, hi, keq_trans (inputRows_agree on name d hname i) he⟩

theorem inputRows_uniq (on : List String) (name : String) (d : Table) (hname : name ∉ on)
    (hu : d.R.uniq on) : (inputRows on name d).uniq on := by
  intro i j hi hj he
  exact hu i j hi hj (keq_trans (keq_symm (inputRows_agree on name d hname i))
    (keq_trans he (inputRows_agree on name d hname j)))

theorem dfltOf_of_nodup {l : List (String × Cell)} (h : (l.map (·.1)).Nodup) {kv : String × Cell}
    (hkv : kv ∈ l) : dfltOf l kv.1 = some kv.2 := by
  simp only [dfltOf, Option.map_eq_some_iff]
  cases hf : l.reverse.find? (fun x => x.1 == kv.1) with
  | none =>
    rw [List.find?_eq_none] at hf
    exact absurd (by simp) (hf kv (List.mem_reverse.2 hkv))
  | some x =>
    have h1 := List.find?_some hf
    have h2 := List.mem_reverse.1 (List.mem_of_find?_eq_some hf)
    have := eq_of_nodup_fst h h2 hkv (by simpa using h1)
    exact ⟨x, rfl, by rw [this]⟩

/-- `join` after the per-input stage -/
theorem pdJoin_unfold (inputs seq : List (String × PInput)) (on : List String)
    (defaults : List (String × Cell))
    (hseq : inputs.mapM (fun kv => match kv.2 with
      | .table d => (item d kv.1 on).map fun d' => (kv.1, PInput.table d')
      | .scalar c => (Except.ok (kv.1, PInput.scalar c) : Res (String × PInput))) = .ok seq) :
    pdJoin inputs on defaults =
      if (tableInputs seq).isEmpty then some (.ok ((scalarInputs seq).map fun kv => (kv.1, [kv.2])))
      else match joinTables (tableInputs seq)
          (defaults.filter fun kv => (inputs.map (·.1)).contains kv.1) with
        | some (.ok (some d)) => some ((d.setConsts (scalarInputs seq)).sortOn on)
        | some (.ok none) => none
        | some (.error e) => some (.error e)
        | none => none := by
  simp only [pdJoin]
  split
  · rename_i e he
    have := he.symm.trans hseq
    cases this
  · rename_i seq' he
    have : seq' = seq := by
      have := he.symm.trans hseq
      simpa using this
    subst this
    rfl

/-- the per-input stage of `join` succeeded -/
theorem pdJoin_stage {inputs : List (String × PInput)} {on : List String}
    {defaults : List (String × Cell)} {ds : Table} (h : pdJoin inputs on defaults = some (.ok ds)) :
    ∃ seq, inputs.mapM (fun kv => match kv.2 with
      | .table d => (item d kv.1 on).map fun d' => (kv.1, PInput.table d')
      | .scalar c => (Except.ok (kv.1, PInput.scalar c) : Res (String × PInput))) = .ok seq := by
  simp only [pdJoin] at h
  split at h
  · cases h
  · rename_i seq he
    exact ⟨seq, he⟩

/-- `d[cols]` succeeds when the columns are there -/
theorem select_ok (t : Table) (cs : List String) (h : ∀ k ∈ cs, k ∈ t.cols) :
    t.select cs = .ok (cs.map fun k => (k, (t.col? k).getD [])) := by
  apply mapM_ok_of_forall
  intro k hk
  have := col?_isSome_of_mem (h k hk)
  cases hc : t.col? k with
  | none => simp [hc] at this
  | some xs => simp

end Pyg
