/-
  Helper lemmas for C17 (g4): a frame with ONE value column is the series model (`embRow`).
-/
import PygModel.Bitemp
import PygProofs.Lemmas.BitempLemmas
import PygProofs.Lemmas.BitempCols

namespace Pyg.Bitemp
open List

def emb (st : Store) : StoreF := st.map embRow

theorem keepLastF_emb (l : Store) : keepLastF (emb l) = emb (keepLast l) := by
  induction l with
  | nil => rfl
  | cons r rest ih =>
    have e : (emb rest).any (·.stamp == (embRow r).stamp) = rest.any (·.stamp == r.stamp) := by
      simp [emb, List.any_map, embRow, Function.comp_def]
    show keepLastF (embRow r :: emb rest) = _
    simp only [keepLastF, keepLast, e]
    split
    · exact ih
    · show _ = embRow r :: emb (keepLast rest); rw [ih]

theorem allRepeat_single (a p : Option Int) : allRepeat [a] [p] = npEq a p := by
  simp [allRepeat]

theorem stepF_emb (prev : Option (Option Int)) (d : Store) :
    stepF (prev.map fun p => [p]) (emb d) = emb (step1 prev d) := by
  induction d generalizing prev with
  | nil => cases prev <;> rfl
  | cons r rest ih =>
    cases prev with
    | none =>
      show stepF Option.none (embRow r :: emb rest) = _
      simp only [stepF, step1]
      have := ih (some r.val)
      simp only [Option.map_some] at this
      show embRow r :: stepF (some [r.val]) (emb rest) = embRow r :: emb (step1 (some r.val) rest)
      rw [this]
    | some p =>
      show stepF (some [p]) (embRow r :: emb rest) = _
      have hz : List.zipWith Option.or (embRow r).vals [p] = [r.val.or p] := rfl
      simp only [stepF, step1, hz, allRepeat_single]
      have := ih (some (r.val.or p))
      simp only [Option.map_some] at this
      split
      · exact this
      · show embRow r :: _ = embRow r :: emb _; rw [this]

theorem dropRepeatsF_emb (d : Store) : dropRepeatsF (emb d) = emb (dropRepeats d) := by
  rw [dropRepeatsF_eq, dropRepeats_eq]
  have := stepF_emb Option.none d
  simp only [Option.map_none] at this
  rw [this, keepLastF_emb]

theorem sortStampF_emb (l : Store) : sortStampF (emb l) = emb (sortStamp l) := by
  unfold emb sortStamp
  rw [sortStampF_eq]
  exact (List.map_mergeSort (by intro a _ b _; rfl)).symm

theorem datesF_emb (l : Store) : datesF (emb l) = dates l := by
  simp [datesF, dates, emb, List.map_map, Function.comp_def, embRow]

theorem groupF_emb (d : Int) (l : Store) : groupF d (emb l) = emb (group d l) := by
  simp only [groupF, group, emb, List.filter_map]
  rfl

theorem mergeFramesF_emb (bis : List Store) : mergeFramesF (bis.map emb) = emb (mergeFrames bis) := by
  unfold mergeFramesF mergeFrames
  have e : (bis.map emb).flatten = emb bis.flatten := by
    show (bis.map (List.map embRow)).flatten = List.map embRow bis.flatten
    rw [List.map_flatten]
  simp only [e, sortStampF_emb, datesF_emb, groupF_emb, dropRepeatsF_emb]
  simp [emb, List.map_flatMap]

theorem biMergeF_emb (old : Option Store) (new : Store) : biMergeF (old.map emb) (emb new) = emb (biMerge old new) := by
  cases old with
  | none => rfl
  | some o => exact mergeFramesF_emb [o, new]

theorem nthF_emb (n : Int) (v : Store) : nthF n (emb v) = (nth n v).map embRow := by
  unfold nthF nth emb
  split <;> simp [List.getElem?_map]

theorem filter_emb (T : Int) (st : Store) :
    (emb st).filter (fun r => decide (r.stamp ≤ T)) = emb (st.filter fun r => decide (r.stamp ≤ T)) := by
  simp only [emb, List.filter_map]; rfl

theorem biReadF_emb (st : Store) (asof : Option Int) (n : Int) :
    biReadF (emb st) asof n = (biRead st asof n).map fun p => (p.1, [p.2]) := by
  have key : ∀ st' : Store,
      ((datesF (sortStampF (emb st'))).map fun d => (d, ((nthF n (groupF d (sortStampF (emb st')))).map (·.vals)).getD [])) =
      ((dates (sortStamp st')).map fun d => (d, nthVal n (group d (sortStamp st')))).map fun p => (p.1, [p.2]) := by
    intro st'
    rw [List.map_map, sortStampF_emb, datesF_emb]
    apply List.map_congr_left
    intro d hd
    simp only [Function.comp, groupF_emb, nthF_emb, nthVal]
    cases hn : nth n (group d (sortStamp st')) with
    | some r => simp [embRow]
    | none =>
      -- a group of a date of the frame is not empty, `_nth` clamps into it
      exfalso
      have hne : group d (sortStamp st') ≠ [] := group_ne_nil.mpr (mem_dates.mp hd)
      have hlen : 0 < (group d (sortStamp st')).length := List.length_pos_iff.mpr hne
      unfold nth at hn
      split at hn
      · rw [List.getElem?_eq_none_iff] at hn; omega
      · rw [List.getElem?_eq_none_iff] at hn; omega
  cases asof with
  | none => exact key st
  | some T =>
    have := key (st.filter fun r => decide (r.stamp ≤ T))
    rw [← filter_emb] at this
    exact this

end Pyg.Bitemp
