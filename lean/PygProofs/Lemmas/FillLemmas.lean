/-
  Helper lemmas for C12 (PygModel/Fill.lean): positional characterisation of ffill / bfill / fillConst,
  of the index-based `ffillTail`, and the row view of `gather`.
-/
import PygModel.Fill

namespace Pyg.Fill

/-! ### ffill -/

theorem ffillAux_length (lim : Option Nat) (last : Option Int) (k : Nat) (xs : Col) :
    (ffillAux lim last k xs).length = xs.length := by
  induction xs generalizing last k with
  | nil => simp [ffillAux]
  | cons x xs ih => cases x <;> simp [ffillAux, ih]

theorem ffillAux_keep (lim : Option Nat) (last : Option Int) (k : Nat) (xs : Col) (i : Nat) (v : Int)
    (h : xs[i]? = some (some v)) : (ffillAux lim last k xs)[i]? = some (some v) := by
  induction xs generalizing last k i with
  | nil => simp at h
  | cons x xs ih =>
    cases i with
    | zero => simp at h; subst h; simp [ffillAux]
    | succ i => cases x <;> simp [ffillAux] at h ⊢ <;> exact ih _ _ _ h

/-- inside a run of NaNs that starts at the head of the list -/
theorem ffillAux_prefix (lim : Option Nat) (last : Option Int) (k : Nat) (xs : Col) (i : Nat)
    (h : ∀ m, m ≤ i → xs[m]? = some Option.none) :
    (ffillAux lim last k xs)[i]? = some (if within lim (k + i) then last else Option.none) := by
  induction xs generalizing k i with
  | nil => have := h 0 (Nat.zero_le _); simp at this
  | cons x xs ih =>
    have h0 := h 0 (Nat.zero_le _)
    simp at h0; subst h0
    cases i with
    | zero => simp [ffillAux]
    | succ i =>
      simp only [ffillAux, List.getElem?_cons_succ]
      rw [ih (k + 1) i (fun m hm => by have := h (m + 1) (by omega); simpa using this)]
      have e : k + 1 + i = k + (i + 1) := by omega
      rw [e]

/-- after a valid cell at `j`, inside the run of NaNs that follows it -/
theorem ffillAux_after (lim : Option Nat) (last : Option Int) (k : Nat) (xs : Col) (j i : Nat) (v : Int)
    (hji : j < i) (hj : xs[j]? = some (some v)) (h : ∀ m, j < m → m ≤ i → xs[m]? = some Option.none) :
    (ffillAux lim last k xs)[i]? = some (if within lim (i - j - 1) then some v else Option.none) := by
  induction xs generalizing last k i j with
  | nil => simp at hj
  | cons x xs ih =>
    cases i with
    | zero => omega
    | succ i =>
      cases j with
      | zero =>
        simp at hj; subst hj
        simp only [ffillAux, List.getElem?_cons_succ]
        rw [ffillAux_prefix lim (some v) 0 xs i (fun m hm => by have := h (m + 1) (by omega) (by omega); simpa using this)]
        have e : i + 1 - 0 - 1 = 0 + i := by omega
        rw [e]
      | succ j =>
        have hj' : xs[j]? = some (some v) := by simpa using hj
        have h' : ∀ m, j < m → m ≤ i → xs[m]? = some Option.none := fun m h1 h2 => by
          have := h (m + 1) (by omega) (by omega); simpa using this
        cases x <;> simp only [ffillAux, List.getElem?_cons_succ]
        all_goals
          rw [ih _ _ j i (by omega) hj' h']
          have e : i + 1 - (j + 1) - 1 = i - j - 1 := by omega
          rw [e]

theorem ffill_length (lim : Option Nat) (xs : Col) : (ffill lim xs).length = xs.length :=
  ffillAux_length _ _ _ _

/-- a run of NaNs at the head stays NaN -/
theorem ffill_prefix (lim : Option Nat) (xs : Col) (i : Nat)
    (h : ∀ m, m ≤ i → xs[m]? = some Option.none) : (ffill lim xs)[i]? = some Option.none := by
  unfold ffill; rw [ffillAux_prefix lim Option.none 0 xs i h]; simp

/-! ### bfill = ffill from the other end -/

theorem bfill_length (lim : Option Nat) (xs : Col) : (bfill lim xs).length = xs.length := by
  simp [bfill, ffill_length]

theorem bfill_getElem? (lim : Option Nat) (xs : Col) (i : Nat) (hi : i < xs.length) :
    (bfill lim xs)[i]? = (ffill lim xs.reverse)[xs.length - 1 - i]? := by
  unfold bfill
  rw [List.getElem?_reverse (by simpa [ffill_length] using hi)]
  simp [ffill_length]

theorem rev_get (xs : Col) (m : Nat) (hm : m < xs.length) : xs.reverse[xs.length - 1 - m]? = xs[m]? := by
  rw [List.getElem?_reverse (by omega)]
  congr 1; omega

theorem bfill_keep (lim : Option Nat) (xs : Col) (i : Nat) (v : Int) (h : xs[i]? = some (some v)) :
    (bfill lim xs)[i]? = some (some v) := by
  have hi : i < xs.length := by
    rcases Nat.lt_or_ge i xs.length with h' | h'
    · exact h'
    · rw [List.getElem?_eq_none h'] at h; cases h
  rw [bfill_getElem? lim xs i hi]
  exact ffillAux_keep _ _ _ _ _ _ (by rw [rev_get xs i hi]; exact h)

/-- before a valid cell at `j`, inside the run of NaNs that precedes it -/
theorem bfill_before (lim : Option Nat) (xs : Col) (i j : Nat) (v : Int)
    (hij : i < j) (hj : xs[j]? = some (some v)) (h : ∀ m, i ≤ m → m < j → xs[m]? = some Option.none) :
    (bfill lim xs)[i]? = some (if within lim (j - i - 1) then some v else Option.none) := by
  have hjn : j < xs.length := by
    rcases Nat.lt_or_ge j xs.length with h' | h'
    · exact h'
    · rw [List.getElem?_eq_none h'] at hj; cases hj
  rw [bfill_getElem? lim xs i (by omega)]
  unfold ffill
  rw [ffillAux_after lim Option.none 0 xs.reverse (xs.length - 1 - j) (xs.length - 1 - i) v (by omega)
    (by rw [rev_get xs j hjn]; exact hj)
    (fun m h1 h2 => by
      have e : m = xs.length - 1 - (xs.length - 1 - m) := by omega
      rw [e, rev_get xs _ (by omega)]
      exact h _ (by omega) (by omega))]
  have e : xs.length - 1 - i - (xs.length - 1 - j) - 1 = j - i - 1 := by omega
  rw [e]

/-- a run of NaNs at the end stays NaN -/
theorem bfill_suffix (lim : Option Nat) (xs : Col) (i : Nat) (hi : i < xs.length)
    (h : ∀ m, i ≤ m → m < xs.length → xs[m]? = some Option.none) : (bfill lim xs)[i]? = some Option.none := by
  rw [bfill_getElem? lim xs i hi]
  exact ffill_prefix lim xs.reverse _ (fun m hm => by
    have e : m = xs.length - 1 - (xs.length - 1 - m) := by omega
    rw [e, rev_get xs _ (by omega)]
    exact h _ (by omega) (by omega))

/-! ### constant fill -/

theorem fillConst_length (c : Int) (lim : Option Nat) (xs : Col) : (fillConst c lim xs).length = xs.length := by
  induction xs generalizing lim with
  | nil => cases lim <;> simp [fillConst]
  | cons x xs ih =>
    cases x with
    | some v => simp [fillConst, ih]
    | none =>
      cases lim with
      | none => simp [fillConst, ih]
      | some l => cases l <;> simp [fillConst, ih]

theorem fillConst_keep (c : Int) (lim : Option Nat) (xs : Col) (i : Nat) (v : Int)
    (h : xs[i]? = some (some v)) : (fillConst c lim xs)[i]? = some (some v) := by
  induction xs generalizing lim i with
  | nil => simp at h
  | cons x xs ih =>
    cases i with
    | zero => simp at h; subst h; simp [fillConst]
    | succ i =>
      have h' : xs[i]? = some (some v) := by simpa using h
      cases x with
      | some w => simp [fillConst, ih _ _ h']
      | none =>
        cases lim with
        | none => simp [fillConst, ih _ _ h']
        | some l => cases l <;> simp [fillConst, ih _ _ h']

/-- without a limit every NaN becomes the constant -/
theorem fillConst_nolimit (c : Int) (xs : Col) :
    fillConst c Option.none xs = xs.map fun o => some (o.getD c) := by
  induction xs with
  | nil => simp [fillConst]
  | cons x xs ih => cases x <;> simp [fillConst, ih]

/-- number of NaNs strictly before position `i` -/
def nanBefore (xs : Col) (i : Nat) : Nat := ((xs.take i).filter (·.isNone)).length

theorem nanBefore_cons_some (w : Int) (xs : Col) (i : Nat) : nanBefore (some w :: xs) (i + 1) = nanBefore xs i := by
  simp [nanBefore]

theorem nanBefore_cons_none (xs : Col) (i : Nat) : nanBefore (Option.none :: xs) (i + 1) = nanBefore xs i + 1 := by
  simp [nanBefore]

/-- with a limit `l` exactly the first `l` NaNs of the column become the constant -/
theorem fillConst_limit (c : Int) (l : Nat) (xs : Col) (i : Nat) (h : xs[i]? = some Option.none) :
    (fillConst c (some l) xs)[i]? = some (if nanBefore xs i < l then some c else Option.none) := by
  induction xs generalizing l i with
  | nil => simp at h
  | cons x xs ih =>
    cases i with
    | zero =>
      simp at h; subst h
      cases l <;> simp [fillConst, nanBefore]
    | succ i =>
      have h' : xs[i]? = some Option.none := by simpa using h
      cases x with
      | some w =>
        simp only [fillConst, List.getElem?_cons_succ]
        rw [ih l i h', nanBefore_cons_some]
      | none =>
        cases l with
        | zero =>
          simp only [fillConst, List.getElem?_cons_succ]
          rw [ih 0 i h']; simp
        | succ l =>
          simp only [fillConst, List.getElem?_cons_succ]
          rw [ih l i h', nanBefore_cons_none]
          by_cases hh : nanBefore xs i < l
          · have : nanBefore xs i + 1 < l + 1 := by omega
            simp [hh, this]
          · have : ¬ nanBefore xs i + 1 < l + 1 := by omega
            simp [hh, this]

/-! ### last valid index and the `ffill_na` / `ffill_0` tail -/

theorem getElem?_some_lt {α} {xs : List α} {i : Nat} {v : α} (h : xs[i]? = some v) : i < xs.length := by
  rcases Nat.lt_or_ge i xs.length with h' | h'
  · exact h'
  · rw [List.getElem?_eq_none h'] at h; cases h

theorem lastValidTime_none (idx : List Int) (xs : Col)
    (h : ∀ m, m < xs.length → xs[m]? = some Option.none) : lastValidTime idx xs = Option.none := by
  induction idx generalizing xs with
  | nil => simp [lastValidTime]
  | cons t ts ih =>
    cases xs with
    | nil => simp [lastValidTime]
    | cons x xs =>
      have h0 := h 0 (by simp)
      simp at h0; subst h0
      simp only [lastValidTime]
      rw [ih xs (fun m hm => by have := h (m + 1) (by simpa using hm); simpa using this)]
      simp

theorem lastValidTime_eq (idx : List Int) (xs : Col) (p : Nat) (v : Int) (hl : idx.length = xs.length)
    (hp : xs[p]? = some (some v)) (h : ∀ m, p < m → m < xs.length → xs[m]? = some Option.none) :
    lastValidTime idx xs = idx[p]? := by
  induction idx generalizing xs p with
  | nil =>
    have := getElem?_some_lt hp
    simp at hl; rw [← hl] at this; omega
  | cons t ts ih =>
    cases xs with
    | nil => simp at hp
    | cons x xs =>
      simp only [lastValidTime]
      cases p with
      | zero =>
        simp at hp; subst hp
        rw [lastValidTime_none ts xs (fun m hm => by
          have := h (m + 1) (by omega) (by simpa using hm); simpa using this)]
        simp
      | succ p =>
        have hp' : xs[p]? = some (some v) := by simpa using hp
        rw [ih xs p (by simpa using hl) hp' (fun m h1 h2 => by
          have := h (m + 1) (by omega) (by simpa using h2); simpa using this)]
        have hlt : p < ts.length := by
          have := getElem?_some_lt hp'; simp at hl; omega
        simp [List.getElem?_eq_getElem hlt]

theorem sorted_lt_iff (idx : List Int) (hs : idx.Pairwise (· < ·)) (i p : Nat) (hi : i < idx.length) (hp : p < idx.length) :
    idx[i] > idx[p] ↔ p < i := by
  rw [List.pairwise_iff_getElem] at hs
  constructor
  · intro h
    rcases Nat.lt_trichotomy p i with h1 | h1 | h1
    · exact h1
    · subst h1; omega
    · have := hs i p hi hp h1; omega
  · intro h; exact hs p i hp hi h

/-- positional reading of `ffillTail` on a sorted index: forward fill up to the last valid position `p`, `inv` after it -/
theorem ffillTail_get (inv : Option Int) (lim : Option Nat) (idx : List Int) (xs : Col) (p : Nat) (v : Int)
    (hs : idx.Pairwise (· < ·)) (hl : idx.length = xs.length)
    (hp : xs[p]? = some (some v)) (h : ∀ m, p < m → m < xs.length → xs[m]? = some Option.none)
    (i : Nat) (hi : i < xs.length) :
    (ffillTail inv lim idx xs)[i]? = if i ≤ p then (ffill lim xs)[i]? else some inv := by
  have hpn := getElem?_some_lt hp
  unfold ffillTail
  rw [lastValidTime_eq idx xs p v hl hp h, List.getElem?_eq_getElem (l := idx) (i := p) (by omega)]
  simp only
  have hi1 : i < idx.length := by omega
  have hi2 : i < (ffill lim xs).length := by rw [ffill_length]; exact hi
  rw [List.getElem?_map, List.getElem?_eq_getElem (by rw [List.length_zip]; omega)]
  simp only [Option.map_some, List.getElem_zip]
  have := sorted_lt_iff idx hs i p hi1 (by omega)
  by_cases hip : i ≤ p
  · have : ¬ idx[i] > idx[p] := by rw [this]; omega
    simp [this, hip, List.getElem?_eq_getElem hi2]
  · have : idx[i] > idx[p] := by rw [this]; omega
    simp [this, hip]

theorem ffillTail_allnan (inv : Option Int) (lim : Option Nat) (idx : List Int) (xs : Col)
    (h : ∀ m, m < xs.length → xs[m]? = some Option.none) : ffillTail inv lim idx xs = xs := by
  unfold ffillTail; rw [lastValidTime_none idx xs h]

/-! ### the tail fill does not depend on which sorted index labels the rows -/

theorem lastValid_cases (xs : Col) :
    (∀ m, m < xs.length → xs[m]? = some Option.none) ∨
    ∃ p v, xs[p]? = some (some v) ∧ ∀ m, p < m → m < xs.length → xs[m]? = some Option.none := by
  induction xs with
  | nil => left; intro m hm; simp at hm
  | cons x xs ih =>
    rcases ih with h | ⟨p, v, hp, h⟩
    · cases x with
      | none =>
        left; intro m hm
        cases m with
        | zero => simp
        | succ m => simpa using h m (by simpa using hm)
      | some v =>
        right; refine ⟨0, v, by simp, ?_⟩
        intro m h1 h2
        cases m with
        | zero => omega
        | succ m => simpa using h m (by simpa using h2)
    · right; refine ⟨p + 1, v, by simpa using hp, ?_⟩
      intro m h1 h2
      cases m with
      | zero => omega
      | succ m => simpa using h m (by omega) (by simpa using h2)

theorem ffillTail_length (inv : Option Int) (lim : Option Nat) (idx : List Int) (xs : Col)
    (hl : idx.length = xs.length) : (ffillTail inv lim idx xs).length = xs.length := by
  unfold ffillTail
  cases lastValidTime idx xs <;> simp [ffill_length, hl]

theorem ffillTail_indep (inv : Option Int) (lim : Option Nat) (idx idx' : List Int) (xs : Col)
    (hs : idx.Pairwise (· < ·)) (hs' : idx'.Pairwise (· < ·))
    (hl : idx.length = xs.length) (hl' : idx'.length = xs.length) :
    ffillTail inv lim idx xs = ffillTail inv lim idx' xs := by
  rcases lastValid_cases xs with h | ⟨p, v, hp, h⟩
  · rw [ffillTail_allnan _ _ _ _ h, ffillTail_allnan _ _ _ _ h]
  · apply List.ext_getElem?
    intro i
    rcases Nat.lt_or_ge i xs.length with hi | hi
    · rw [ffillTail_get inv lim idx xs p v hs hl hp h i hi, ffillTail_get inv lim idx' xs p v hs' hl' hp h i hi]
    · rw [List.getElem?_eq_none (by rw [ffillTail_length _ _ _ _ hl]; exact hi),
          List.getElem?_eq_none (by rw [ffillTail_length _ _ _ _ hl']; exact hi)]

theorem lastValidTime_isNone_indep (idx idx' : List Int) (xs : Col)
    (hl : idx.length = xs.length) (hl' : idx'.length = xs.length) :
    (lastValidTime idx xs).isNone = (lastValidTime idx' xs).isNone := by
  rcases lastValid_cases xs with h | ⟨p, v, hp, h⟩
  · rw [lastValidTime_none _ _ h, lastValidTime_none _ _ h]
  · have hpn := getElem?_some_lt hp
    rw [lastValidTime_eq idx xs p v hl hp h, lastValidTime_eq idx' xs p v hl' hp h,
        List.getElem?_eq_getElem (by omega), List.getElem?_eq_getElem (by omega)]
    rfl

theorem ffillTail_keep (inv : Option Int) (lim : Option Nat) (idx : List Int) (xs : Col)
    (hs : idx.Pairwise (· < ·)) (hl : idx.length = xs.length) (i : Nat) (w : Int)
    (hi : xs[i]? = some (some w)) : (ffillTail inv lim idx xs)[i]? = some (some w) := by
  have hin := getElem?_some_lt hi
  rcases lastValid_cases xs with h | ⟨p, v, hp, h⟩
  · rw [h i hin] at hi; cases hi
  · rw [ffillTail_get inv lim idx xs p v hs hl hp h i hin]
    have : i ≤ p := by
      rcases Nat.lt_or_ge p i with h' | h'
      · rw [h i h' hin] at hi; cases hi
      · exact h'
    simp [this]
    exact ffillAux_keep _ _ _ _ _ _ hi

/-! ### frames: the row view of positional selection -/

namespace Frame

theorem nrows_gather (f : Frame) (pos : List Nat) : (f.gather pos).nrows = pos.length := by
  simp [nrows, gather]

theorem names_gather (f : Frame) (pos : List Nat) : (f.gather pos).names = f.names := by
  simp [names, gather, List.map_map, Function.comp_def]

theorem rows_gather (f : Frame) (pos : List Nat) : (f.gather pos).rows = pos.map f.row := by
  apply List.ext_getElem
  · simp [rows, nrows_gather]
  · intro j h1 h2
    have hj : j < pos.length := by simpa [rows, nrows_gather] using h1
    simp [rows, row, gather, List.getD_eq_getElem?_getD, hj, List.map_map, Function.comp_def]

theorem rect_gather (f : Frame) (pos : List Nat) : (f.gather pos).Rect := by
  intro c hc
  simp only [gather, List.mem_map] at hc
  obtain ⟨c', _, rfl⟩ := hc
  simp [gather]

theorem rowValid_eq (f : Frame) (i : Nat) : f.rowValid i = (f.row i).2.any (·.isSome) := by
  simp [rowValid, row, List.any_map, Function.comp_def]

/-- `df[mask]` with the "row holds a non-NaN cell" mask: exactly the all-NaN rows go, the others stay in order -/
theorem rows_gather_valid (f : Frame) :
    (f.gather ((List.range f.nrows).filter f.rowValid)).rows = f.rows.filter fun r => r.2.any (·.isSome) := by
  rw [rows_gather, rows, List.filter_map]
  congr 1
  apply List.filter_congr
  intro i _
  simp [rowValid_eq]

theorem filter_ge_range (n p0 : Nat) :
    (List.range n).filter (fun i => decide (p0 ≤ i)) = (List.range n).drop p0 := by
  induction n with
  | zero => simp
  | succ n ih =>
    rw [List.range_succ, List.filter_append, ih]
    by_cases h : p0 ≤ n
    · rw [List.drop_append_of_le_length (by simpa using h)]; simp [h]
    · have h1 : (List.range n).drop p0 = [] := by simp; omega
      have h2 : (List.range n ++ [n]).drop p0 = [] := by simp; omega
      rw [h1, h2]; simp [h]

theorem rows_gather_drop (f : Frame) (p0 : Nat) :
    (f.gather ((List.range f.nrows).drop p0)).rows = f.rows.drop p0 := by
  rw [rows_gather, rows, List.map_drop]

/-- on a sorted index "label ≥ label of row p0" selects the rows from position `p0` on -/
theorem filter_label_ge (f : Frame) (hs : f.Sorted) (p0 : Nat) (hp : p0 < f.nrows) :
    (List.range f.nrows).filter (fun i => decide (f.idx.getD i 0 ≥ f.idx.getD p0 0)) = (List.range f.nrows).drop p0 := by
  rw [← filter_ge_range]
  apply List.filter_congr
  intro i hi
  have hi : i < f.idx.length := by simpa [nrows] using hi
  have hp : p0 < f.idx.length := hp
  simp only [List.getD_eq_getElem?_getD, List.getElem?_eq_getElem hi, List.getElem?_eq_getElem hp, Option.getD_some]
  have h1 := sorted_lt_iff f.idx hs p0 i hp hi
  have : (f.idx[i] ≥ f.idx[p0]) ↔ p0 ≤ i := by
    constructor
    · intro h; rcases Nat.lt_or_ge i p0 with h' | h'
      · have := h1.mpr h'; omega
      · exact h'
    · intro h; rcases Nat.lt_or_ge p0 i with h' | h'
      · have := (sorted_lt_iff f.idx hs i p0 hi hp).mpr h'; omega
      · have : i = p0 := by omega
        subst this; omega
  simp [this]

end Frame

end Pyg.Fill
