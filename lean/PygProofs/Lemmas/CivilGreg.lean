/-
  The two Gregorian models agree: `Pyg.Civil` (closed-form "days from civil" arithmetic on `Int`, used by the
  Calendar / drange models) computes the same ordinals, dates, weekdays and month lengths as `Pyg.Greg` (CPython's
  `_ymd2ord` / `_ord2ymd`, proved a bijection for every year ≥ 1 in GregPeriod.lean).  So `Greg` is the one
  trusted Gregorian model; `Civil` is a proved-equal closed form of it.
-/
import PygModel.Civil
import PygProofs.Lemmas.CivilLemmas
import PygProofs.Lemmas.GregPeriod

namespace Pyg.Civil
open Pyg

/-! ### `ord` -/

/-- Civil's ordinal = CPython's `_ymd2ord`, every year ≥ 1, every month, any day number -/
theorem ord_eq_greg (y m d : Nat) (hy : 1 ≤ y) (h1 : 1 ≤ m) (h2 : m ≤ 12) :
    ord (y : Int) (m : Int) (d : Int) = (Greg.ord y m d : Nat) := by
  have hl := Greg.leapDay_cases y
  unfold Greg.ord Greg.dby Greg.dbm
  unfold ord
  simp only []
  have hm : m = 1 ∨ m = 2 ∨ m = 3 ∨ m = 4 ∨ m = 5 ∨ m = 6 ∨ m = 7 ∨ m = 8 ∨ m = 9 ∨ m = 10 ∨ m = 11 ∨ m = 12 := by
    omega
  rcases hm with rfl | rfl | rfl | rfl | rfl | rfl | rfl | rfl | rfl | rfl | rfl | rfl <;>
    simp [Greg.dbmTable] <;> omega

/-! ### month lengths, weekday -/

theorem leap_iff (y : Nat) : Leap (y : Int) ↔ Greg.leapDay y = 1 := by
  have := Greg.leapDay_cases y
  unfold Leap; omega

/-- month lengths agree (`_days_in_month`) -/
theorem dim_eq_greg (y m : Nat) (h1 : 1 ≤ m) (h2 : m ≤ 12) : dim (y : Int) (m : Int) = (Greg.dim y m : Nat) := by
  have hl := leap_iff y
  have hc := Greg.leapDay_cases y
  have hm : m = 1 ∨ m = 2 ∨ m = 3 ∨ m = 4 ∨ m = 5 ∨ m = 6 ∨ m = 7 ∨ m = 8 ∨ m = 9 ∨ m = 10 ∨ m = 11 ∨ m = 12 := by
    omega
  unfold dim
  rcases hm with rfl | rfl | rfl | rfl | rfl | rfl | rfl | rfl | rfl | rfl | rfl | rfl <;> simp [Greg.dim]
  by_cases h : Leap (y : Int)
  · simp only [h, if_true]; have := hl.1 h; omega
  · simp only [h, if_false]; have : Greg.leapDay y ≠ 1 := fun e => h (hl.2 e); omega

/-- …as differences of ordinals: the first of the next month is `dim` days after the first of this one -/
theorem month_length_greg (y m : Nat) (h1 : 1 ≤ m) (h2 : m ≤ 12) :
    ordYM (y : Int) ((m : Int) + 1) 1 - ord (y : Int) (m : Int) 1 = (Greg.dim y m : Nat) := by
  rw [← dim_eq_greg y m h1 h2, ordYM_eq]
  have h := monthStart_succ (12 * (y : Int) + (m : Int) - 1)
  have e1 : (12 * (y : Int) + (m : Int) - 1) / 12 = y := by omega
  have e2 : 1 + (12 * (y : Int) + (m : Int) - 1) % 12 = m := by omega
  rw [e1, e2] at h
  have e3 : monthStart (12 * (y : Int) + (m : Int) - 1) = ord (y : Int) (m : Int) 1 := by
    unfold monthStart; rw [e1, e2]
  have e4 : 12 * (y : Int) + ((m : Int) + 1) - 1 = 12 * (y : Int) + (m : Int) - 1 + 1 := by omega
  rw [e4, h, e3]; omega

/-- a calendar date of `Greg` is one of `Civil` -/
theorem valid_of_greg (y m d : Nat) (v : Greg.ValidU y m d) : Valid (y : Int) (m : Int) (d : Int) := by
  unfold Greg.ValidU at v
  unfold Valid
  rw [dim_eq_greg y m v.2.1 v.2.2.1]
  omega

theorem wd_eq_greg (n : Nat) : wd (n : Int) = (Greg.weekday n : Nat) := by
  unfold wd Greg.weekday; omega

/-! ### `ymd` = `_ord2ymd` -/

/-- Civil's date of a day number = CPython's `_ord2ymd`, every ordinal `n ≥ 1` (years 1..9999 and beyond) -/
theorem ymd_eq_greg (n : Nat) (h : 1 ≤ n) :
    ymd (n : Int) = (((Greg.fromOrd n).y : Int), ((Greg.fromOrd n).m : Int), ((Greg.fromOrd n).d : Int)) := by
  obtain ⟨v, e⟩ := Greg.good_all n h
  have h1 := ord_eq_greg _ _ (Greg.fromOrd n).d v.1 v.2.1 v.2.2.1
  rw [e] at h1
  rw [← h1]
  exact ymd_ord _ _ _ (valid_of_greg _ _ _ v)

theorem year_eq_greg (n : Nat) (h : 1 ≤ n) : year (n : Int) = ((Greg.fromOrd n).y : Int) := by
  unfold year; rw [ymd_eq_greg n h]
theorem month_eq_greg (n : Nat) (h : 1 ≤ n) : month (n : Int) = ((Greg.fromOrd n).m : Int) := by
  unfold month; rw [ymd_eq_greg n h]
theorem day_eq_greg (n : Nat) (h : 1 ≤ n) : day (n : Int) = ((Greg.fromOrd n).d : Int) := by
  unfold day; rw [ymd_eq_greg n h]

/-- the whole agreement for every date `datetime` can represent (years 1..9999): same ordinal, same fields back,
same weekday, same month length -/
theorem agree (y m d : Nat) (v : Greg.Valid y m d) :
    ord (y : Int) (m : Int) (d : Int) = (Greg.ord y m d : Nat) ∧
    ymd ((Greg.ord y m d : Nat) : Int) = ((y : Int), (m : Int), (d : Int)) ∧
    wd ((Greg.ord y m d : Nat) : Int) = (Greg.weekday (Greg.ord y m d) : Nat) ∧
    dim (y : Int) (m : Int) = (Greg.dim y m : Nat) := by
  have u := v.toU
  have hb := Greg.ord_bounds y m d u
  refine ⟨ord_eq_greg y m d u.1 u.2.1 u.2.2.1, ?_, wd_eq_greg _, dim_eq_greg y m u.2.1 u.2.2.1⟩
  rw [ymd_eq_greg _ (by omega), Greg.fromOrd_ord_all y m d u]

example : Greg.Valid 2024 2 29 ∧ ord 2024 2 29 = 738945 ∧ ymd 738945 = (2024, 2, 29) ∧ wd 738945 = 3 := by decide

end Pyg.Civil
